/-
  Round trip: the JSONB parser model on PostgreSQL's encoding of a document (Spec.encJsonb).
  Generic container lemmas first (entries, offsets, slices, loops), then the nested induction.
-/
import PgVerif.Proofs.Jsonb
namespace PgVerif.Proofs
open PgVerif PgVerif.Model

/-! ### a container seen as a list of children (type, bytes) -/

abbrev Child := Nat × Bytes

def stride : Nat → Bool := fun i => i % 32 == 0

/-- the JEntries convertJsonb* writes for children `cs`, the first having index `idx` in the entry
array, `total` data bytes being already emitted -/
def entriesOf (idx total : Nat) : List Child → List Nat
  | [] => []
  | c :: rest => Spec.strideEntry idx c.1 c.2.length (total + c.2.length) :: entriesOf (idx + 1) (total + c.2.length) rest

def bodyOf : List Child → Bytes
  | [] => []
  | c :: rest => c.2 ++ bodyOf rest

def lensOf (cs : List Child) : List Nat := cs.map (·.2.length)
def tysOf (cs : List Child) : List Nat := cs.map (·.1)

theorem entriesOf_length (idx total : Nat) (cs : List Child) : (entriesOf idx total cs).length = cs.length := by
  induction cs generalizing idx total with
  | nil => rfl
  | cons c rest ih => simp [entriesOf, ih]

theorem entriesOf_append (idx total : Nat) (a b : List Child) :
    entriesOf idx total (a ++ b) = entriesOf idx total a ++ entriesOf (idx + a.length) (total + (bodyOf a).length) b := by
  induction a generalizing idx total with
  | nil => simp [entriesOf, bodyOf]
  | cons c rest ih =>
    simp only [List.cons_append, entriesOf, ih, bodyOf, List.length_cons, List.length_append]
    rw [show idx + 1 + rest.length = idx + (rest.length + 1) by omega,
      show total + c.2.length + (bodyOf rest).length = total + (c.2.length + (bodyOf rest).length) by omega]

theorem bodyOf_length (cs : List Child) : (bodyOf cs).length = pre (lensOf cs) cs.length := by
  induction cs with
  | nil => rfl
  | cons c rest ih =>
    simp only [bodyOf, List.length_append, ih, lensOf, pre, List.map_cons, List.length_cons, List.take_succ_cons,
      List.sum_cons]

theorem getD_entriesOf (idx total : Nat) (cs : List Child) (i : Nat) (h : i < cs.length) :
    (entriesOf idx total cs).getD i 0 =
      Spec.strideEntry (idx + i) ((tysOf cs).getD i 0) ((lensOf cs).getD i 0) (total + pre (lensOf cs) (i + 1)) := by
  induction cs generalizing idx total i with
  | nil => simp at h
  | cons c rest ih =>
    cases i with
    | zero => simp [entriesOf, tysOf, lensOf, pre]
    | succ i =>
      have := ih (idx + 1) (total + c.2.length) i (by simpa using h)
      simp only [entriesOf, List.getD_cons_succ, this, tysOf, lensOf, List.map_cons, pre, List.take_succ_cons,
        List.sum_cons]
      congr 1 <;> omega

theorem ext_getD (a b : List Nat) (hl : a.length = b.length) (h : ∀ i, i < a.length → a.getD i 0 = b.getD i 0) : a = b := by
  apply List.ext_getElem hl
  intro i h1 h2
  have := h i h1
  simpa [List.getD, List.getElem?_eq_getElem h1, List.getElem?_eq_getElem h2] using this

/-- the entry array of a whole container is an instance of `encE` with PostgreSQL's stride -/
theorem entriesOf_eq_encE (cs : List Child) :
    entriesOf 0 0 cs = encE (lensOf cs) (tysOf cs) stride := by
  apply ext_getD
  · simp [entriesOf_length, encE_length, lensOf]
  · intro i hi
    rw [entriesOf_length] at hi
    rw [getD_entriesOf 0 0 cs i hi, getD_encE _ _ _ i (by simpa [lensOf] using hi)]
    simp only [Spec.strideEntry, Nat.zero_add]
    by_cases h : (i % 32 == 0) = true
    · have h' : stride i = true := h
      rw [if_pos h, if_pos h']
    · have h' : ¬ stride i = true := h
      rw [if_neg h, if_neg h']

/-! ### reading the entry array back -/

theorem encEntries_length (es : List Nat) : (Spec.encEntries es).length = 4 * es.length := by
  induction es with
  | nil => rfl
  | cons e es ih => simp [Spec.encEntries, ih]; omega

theorem readEntries_enc (es : List Nat) (rest : Bytes) (hlt : ∀ e ∈ es, e < 256 ^ 4) :
    readEntries es.length (Spec.encEntries es ++ rest) = .ok es := by
  induction es with
  | nil => rfl
  | cons e es ih =>
    simp only [List.length_cons, Spec.encEntries]
    rw [readEntries_succ _ _ (by simp [le_length])]
    simp only [List.append_assoc]
    rw [rd_le 4 e _ (hlt e (by simp)), List.drop_left' (by simp [le_length])]
    rw [ih (fun x hx => hlt x (by simp [hx]))]; rfl

theorem mkEntry_lt (ty v : Nat) (f : Bool) (hv : v < 0x10000000) (ht : ty < 8) : Spec.mkEntry ty f v < 256 ^ 4 := by
  unfold Spec.mkEntry
  rw [show (256 : Nat) ^ 4 = 0x100000000 from rfl]
  cases f
  · simp only [Bool.false_eq_true, if_false]; omega
  · simp only [if_true]; omega

theorem entriesOf_lt (idx total : Nat) (cs : List Child) (hsmall : total + (bodyOf cs).length < 0x10000000)
    (hty : ∀ c ∈ cs, c.1 < 8) : ∀ e ∈ entriesOf idx total cs, e < 256 ^ 4 := by
  induction cs generalizing idx total with
  | nil => intro e he; simp [entriesOf] at he
  | cons c rest ih =>
    intro e he
    simp only [entriesOf, List.mem_cons] at he
    simp only [bodyOf, List.length_append] at hsmall
    rcases he with he | he
    · subst he
      unfold Spec.strideEntry
      split
      · exact mkEntry_lt _ _ _ (by omega) (hty c (by simp))
      · exact mkEntry_lt _ _ _ (by omega) (hty c (by simp))
    · exact ih (idx + 1) (total + c.2.length) (by omega) (fun x hx => hty x (by simp [hx])) e he

/-- the end offsets of the children `cs`, `total` data bytes being already emitted -/
def endsOf (total : Nat) : List Child → List Nat
  | [] => []
  | c :: rest => (total + c.2.length) :: endsOf (total + c.2.length) rest

theorem endsOf_length (total : Nat) (cs : List Child) : (endsOf total cs).length = cs.length := by
  induction cs generalizing total with
  | nil => rfl
  | cons c rest ih => simp [endsOf, ih]

theorem endsOf_append (total : Nat) (a b : List Child) :
    endsOf total (a ++ b) = endsOf total a ++ endsOf (total + (bodyOf a).length) b := by
  induction a generalizing total with
  | nil => simp [endsOf, bodyOf]
  | cons c rest ih =>
    simp only [List.cons_append, endsOf, ih, bodyOf, List.length_append]
    rw [show total + c.2.length + (bodyOf rest).length = total + (c.2.length + (bodyOf rest).length) by omega]

/-- the end offset of the last child -/
theorem getD_endsOf_last (total : Nat) (cs : List Child) (h : 0 < cs.length) :
    (endsOf total cs).getD (cs.length - 1) 0 = total + (bodyOf cs).length := by
  induction cs generalizing total with
  | nil => simp at h
  | cons c rest ih =>
    cases rest with
    | nil => simp [endsOf, bodyOf]
    | cons c2 rest2 =>
      have := ih (total + c.2.length) (by simp)
      simp only [List.length_cons, Nat.add_sub_cancel] at this ⊢
      simp only [endsOf, List.getD_cons_succ, bodyOf, List.length_append] at this ⊢
      rw [this]; omega

/-- the forward pass of fix 10 (which is also fix 08's check) accepts what PostgreSQL writes and finds
the end offset of every child -/
theorem endsFrom_entriesOf (idx total : Nat) (cs : List Child) (hsmall : total + (bodyOf cs).length < 0x10000000)
    (hty : ∀ c ∈ cs, c.1 < 8) : endsFrom total (entriesOf idx total cs) = some (endsOf total cs) := by
  induction cs generalizing idx total with
  | nil => rfl
  | cons c rest ih =>
    simp only [bodyOf, List.length_append] at hsmall
    have ht := hty c (by simp)
    have ihr := ih (idx + 1) (total + c.2.length) (by omega) (fun x hx => hty x (by simp [hx]))
    simp only [entriesOf, endsFrom, endsOf, Spec.strideEntry]
    by_cases hs : (idx % 32 == 0) = true
    · rw [if_pos hs, jeHasOff_mk _ _ _ (by omega) ht, jeOffLen_mk _ _ _ (by omega)]
      simp only [Bool.not_true, Bool.false_eq_true, if_false]
      rw [if_neg (by omega), ihr]; rfl
    · rw [if_neg hs, jeHasOff_mk _ _ _ (by omega) ht, jeOffLen_mk _ _ _ (by omega)]
      simp only [Bool.not_false, if_true]
      rw [ihr]; rfl

/-! ### the bytes of child `i` -/

theorem slice_child (hd : Bytes) (cs : List Child) (i : Nat) (h : i < cs.length) :
    ((hd ++ bodyOf cs).take (hd.length + pre (lensOf cs) i + (lensOf cs).getD i 0)).drop (hd.length + pre (lensOf cs) i) =
      (cs.getD i default).2 := by
  induction cs generalizing hd i with
  | nil => simp at h
  | cons c rest ih =>
    cases i with
    | zero =>
      simp only [pre, List.take_zero, List.sum_nil, Nat.add_zero, lensOf, List.map_cons, List.getD_cons_zero, bodyOf]
      rw [← List.append_assoc, List.take_left' (by simp), List.drop_left' rfl]
    | succ i =>
      have := ih (hd ++ c.2) i (by simpa using h)
      simp only [List.length_append] at this
      simp only [bodyOf, lensOf, List.map_cons, pre, List.take_succ_cons, List.sum_cons, List.getD_cons_succ]
      rw [← List.append_assoc]
      simp only [lensOf, pre] at this
      rw [show hd.length + (c.2.length + (List.take i (List.map (fun x => x.2.length) rest)).sum) =
        hd.length + c.2.length + (List.take i (List.map (fun x => x.2.length) rest)).sum by omega]
      exact this

/-! ### the loops, given what each child decodes to -/

theorem getEntry_getD (es : List Nat) (i : Nat) (h : i < es.length) : getEntry es i = .ok (es.getD i 0) := by
  rw [getEntry_ok es i h]; simp [List.getD, List.getElem?_eq_getElem h]

theorem pre_cons_succ (x : Nat) (L : List Nat) (k : Nat) : pre (x :: L) (k + 1) = x + pre L k := by
  simp [pre]

/-- parseJSONBArray's loop over the entries and end offsets of the children `cs`, given what each
child entry decodes to -/
theorem parseArrayLoop_children (rec : Bytes → M JV) (data : Bytes) (dataStart : Nat) (cs : List Child)
    (idx total : Nat) (rs : List JV) (hr : rs.length = cs.length)
    (hk : ∀ k, k < cs.length →
      decodeJEntry rec data (dataStart + (total + pre (lensOf cs) k)) ((lensOf cs).getD k 0 : Int)
        ((entriesOf idx total cs).getD k 0) = .ok (rs.getD k default)) :
    parseArrayLoop rec data data.length dataStart cs.length total (entriesOf idx total cs) (endsOf total cs) = .ok rs := by
  induction cs generalizing idx total rs with
  | nil =>
    have : rs = [] := List.eq_nil_of_length_eq_zero (by simpa using hr)
    subst this; exact parseArrayLoop_zero ..
  | cons c rest ih =>
    match rs, hr with
    | r :: rs', hr =>
      have h0 := hk 0 (by simp)
      simp only [lensOf, List.map_cons, List.getD_cons_zero, entriesOf, pre, List.take_zero, List.sum_nil,
        Nat.add_zero] at h0
      simp only [List.length_cons, entriesOf, endsOf]
      rw [parseArrayLoop_cons]
      rw [show ((total + c.2.length : Nat) : Int) - (total : Int) = (c.2.length : Int) by omega, h0]
      simp only [ok_bind]
      rw [ih (idx + 1) (total + c.2.length) rs' (by simpa using hr) (fun k hk' => by
        have := hk (k + 1) (by simpa using hk')
        simp only [lensOf, List.map_cons, List.getD_cons_succ, entriesOf] at this
        rw [pre_cons_succ] at this
        simp only [lensOf]
        rw [show total + c.2.length + pre (List.map (fun x => x.2.length) rest) k =
          total + (c.2.length + pre (List.map (fun x => x.2.length) rest) k) by omega]
        exact this)]
      rfl

/-! ### a whole array container -/

theorem land_20000000 (x : Nat) : x &&& 0x20000000 = (x / 0x20000000 % 2) * 0x20000000 := by
  have := land_field x 1 29; simpa using this
theorem land_40000000 (x : Nat) : x &&& 0x40000000 = (x / 0x40000000 % 2) * 0x40000000 := by
  have := land_field x 1 30; simpa using this
theorem land_10000000 (x : Nat) : x &&& 0x10000000 = (x / 0x10000000 % 2) * 0x10000000 := by
  have := land_field x 1 28; simpa using this

/-- the container header word of an array of `n` elements (`sc`: the SCALAR flag) -/
def arrHeader (n : Nat) (sc : Bool) : Nat := n + 0x40000000 + (if sc then 0x10000000 else 0)

theorem arrHeader_fields (n : Nat) (sc : Bool) (hn : n < 0x10000000) :
    arrHeader n sc < 256 ^ 4 ∧ arrHeader n sc &&& 0x0FFFFFFF = n ∧ (arrHeader n sc &&& 0x20000000 != 0) = false ∧
    (arrHeader n sc &&& 0x40000000 != 0) = true ∧ (arrHeader n sc &&& 0x10000000 != 0) = sc := by
  rw [land_0FFFFFFF, land_20000000, land_40000000, land_10000000, show (256 : Nat) ^ 4 = 0x100000000 from rfl]
  unfold arrHeader
  cases sc
  · simp only [Bool.false_eq_true, if_false]
    refine ⟨by omega, by omega, ?_, ?_, ?_⟩
    · have e : (n + 0x40000000 + 0) / 0x20000000 % 2 = 0 := by omega
      rw [e]; rfl
    · have e : (n + 0x40000000 + 0) / 0x40000000 % 2 = 1 := by omega
      rw [e]; rfl
    · have e : (n + 0x40000000 + 0) / 0x10000000 % 2 = 0 := by omega
      rw [e]; rfl
  · simp only [if_true]
    refine ⟨by omega, by omega, ?_, ?_, ?_⟩
    · have e : (n + 0x40000000 + 0x10000000) / 0x20000000 % 2 = 0 := by omega
      rw [e]; rfl
    · have e : (n + 0x40000000 + 0x10000000) / 0x40000000 % 2 = 1 := by omega
      rw [e]; rfl
    · have e : (n + 0x40000000 + 0x10000000) / 0x10000000 % 2 = 1 := by omega
      rw [e]; rfl

/-- the bytes of an array container with children `cs` -/
def arrBytes (cs : List Child) (sc : Bool) : Bytes :=
  le 4 (arrHeader cs.length sc) ++ (Spec.encEntries (entriesOf 0 0 cs) ++ bodyOf cs)

theorem arrBytes_length (cs : List Child) (sc : Bool) :
    (arrBytes cs sc).length = 4 + 4 * cs.length + (bodyOf cs).length := by
  simp [arrBytes, le_length, encEntries_length, entriesOf_length]; omega

/-- what ParseJSONB returns for an array whose elements decoded to `rs` (`sc`: SCALAR flag) -/
def unwrapScalar (sc : Bool) (rs : List JV) : JV :=
  if sc then (match rs with | [x] => x | _ => .arr rs) else .arr rs

/-- ParseJSONB's body, abstractly: header word `H` with the array flag and count `n`, entries `es`, their
end offsets `ends`, loop result `rs` -/
theorem parseContainer_array_abs (rec : Bytes → M JV) (data : Bytes) (H n : Nat) (es ends : List Nat) (rs : List JV) (sc : Bool)
    (hl : 4 + n * 4 ≤ data.length) (hu : uN 4 data 0 = .ok H) (a2 : H &&& 0x0FFFFFFF = n)
    (a3 : (H &&& 0x20000000 != 0) = false) (a4 : (H &&& 0x40000000 != 0) = true) (a5 : (H &&& 0x10000000 != 0) = sc)
    (h0 : 0 < n)
    (hre : readEntries n (data.drop 4) = .ok es) (hm : endsFrom 0 es = some ends)
    (hloop : parseArrayLoop rec data data.length (4 + n * 4) n 0 es ends = .ok rs) :
    parseContainer rec data = .ok (unwrapScalar sc rs) := by
  unfold parseContainer
  have hl' : ¬ data.length < 4 := by omega
  simp only [hl', if_false, hu, ok_bind, a2, a3, a4, a5, pure_eq_ok]
  have c1 : (!false && !true) = false := rfl
  have c2 : (n == 0) = false := by simp; omega
  simp only [c1, c2, Bool.false_eq_true, if_false]
  rw [if_neg (by omega), sliceFrom_ok data 4 (by omega)]
  simp only [ok_bind, hre, hm, hloop]
  unfold unwrapScalar
  cases sc
  · rfl
  · simp only [if_true]
    cases rs with
    | nil => rfl
    | cons x t => cases t <;> rfl

/-- ParseJSONB's body on an array container, given what each child entry decodes to -/
theorem parseContainer_array (rec : Bytes → M JV) (cs : List Child) (sc : Bool)
    (h0 : 0 < cs.length)
    (hsmall : (arrBytes cs sc).length < 0x10000000) (hty : ∀ c ∈ cs, c.1 < 8) (rs : List JV) (hr : rs.length = cs.length)
    (hk : ∀ k, k < cs.length →
      decodeJEntry rec (arrBytes cs sc) (4 + cs.length * 4 + pre (lensOf cs) k) ((lensOf cs).getD k 0 : Int)
        ((entriesOf 0 0 cs).getD k 0) = .ok (rs.getD k default)) :
    parseContainer rec (arrBytes cs sc) = .ok (unwrapScalar sc rs) := by
  have hlen := arrBytes_length cs sc
  -- the count fits the 28-bit field of the header because the whole container is below 2^28 bytes
  obtain ⟨a1, a2, a3, a4, a5⟩ := arrHeader_fields cs.length sc (by omega)
  have hu : uN 4 (arrBytes cs sc) 0 = .ok (arrHeader cs.length sc) := by
    rw [uN_ok 4 _ 0 (by omega)]
    simp only [List.drop_zero, arrBytes]
    rw [rd_le 4 _ _ a1]
  have hre : readEntries cs.length ((arrBytes cs sc).drop 4) = .ok (entriesOf 0 0 cs) := by
    have := readEntries_enc (entriesOf 0 0 cs) (bodyOf cs) (entriesOf_lt 0 0 cs (by omega) hty)
    rw [entriesOf_length] at this
    unfold arrBytes
    rw [List.drop_left' (by simp [le_length])]
    exact this
  have hm := endsFrom_entriesOf 0 0 cs (by omega) hty
  have hloop := parseArrayLoop_children rec (arrBytes cs sc) (4 + cs.length * 4) cs 0 0 rs hr (fun k hk' => by
    simp only [Nat.zero_add]
    exact hk k hk')
  exact parseContainer_array_abs rec (arrBytes cs sc) (arrHeader cs.length sc) cs.length (entriesOf 0 0 cs)
    (endsOf 0 cs) rs sc (by omega) hu a2 a3 a4 a5 h0 hre hm hloop

/-! ### decodeJEntry by entry type -/

theorem decodeJEntry_null (rec : Bytes → M JV) (data : Bytes) (off : Nat) (len : Int) (e : Nat)
    (he : e / 0x10000000 % 8 = 4) : decodeJEntry rec data off len e = .ok .nil := by
  have he' : e &&& 0x70000000 = 0x40000000 := by rw [land_70000000, he]
  unfold decodeJEntry decodeJEntryN; simp [he']

theorem decodeJEntry_false (rec : Bytes → M JV) (data : Bytes) (off : Nat) (len : Int) (e : Nat)
    (he : e / 0x10000000 % 8 = 2) : decodeJEntry rec data off len e = .ok (.bool false) := by
  have he' : e &&& 0x70000000 = 0x20000000 := by rw [land_70000000, he]
  unfold decodeJEntry decodeJEntryN; simp [he']

theorem decodeJEntry_true (rec : Bytes → M JV) (data : Bytes) (off : Nat) (len : Int) (e : Nat)
    (he : e / 0x10000000 % 8 = 3) : decodeJEntry rec data off len e = .ok (.bool true) := by
  have he' : e &&& 0x70000000 = 0x30000000 := by rw [land_70000000, he]
  unfold decodeJEntry decodeJEntryN; simp [he']

theorem decodeJEntry_str (rec : Bytes → M JV) (data : Bytes) (off n : Nat) (e : Nat)
    (he0 : e / 0x10000000 % 8 = 0) (hb : off + n ≤ data.length) :
    decodeJEntry rec data off (n : Int) e = .ok (.str ((data.take (off + n)).drop off)) := by
  have he : e &&& 0x70000000 = 0 := by rw [land_70000000, he0]
  unfold decodeJEntry decodeJEntryN
  simp only [sliceL_eq, he, beq_self_eq_true, if_true, Int.toNat_natCast]
  rw [if_pos ⟨by omega, hb⟩, slice_ok data off (off + n) hb (by omega)]
  rfl

theorem align4_eq (pos off : Nat) (h : pos % 4 = off % 4) :
    align4 off = off + Spec.padTo4 pos ∧ align4 off - off = Spec.padTo4 pos := by
  unfold align4 Spec.padTo4
  have := andNot_mask (off + 3) 2
  simp only [show (2 : Nat) ^ 2 - 1 = 3 from rfl, show (2 : Nat) ^ 2 = 4 from rfl] at this
  rw [this]; omega

theorem decodeJEntry_num (rec : Bytes → M JV) (data : Bytes) (pos off n : Nat) (e : Nat)
    (he0 : e / 0x10000000 % 8 = 1) (hp : pos % 4 = off % 4) (hn : Spec.padTo4 pos < n) (hb : off + n ≤ data.length) :
    decodeJEntry rec data off (n : Int) e =
      (decodeJNumeric ((data.take (off + n)).drop (off + Spec.padTo4 pos))).map JV.ofNum := by
  have he : e &&& 0x70000000 = 0x10000000 := by rw [land_70000000, he0]
  obtain ⟨h1, h2⟩ := align4_eq pos off hp
  unfold decodeJEntry decodeJEntryN
  simp only [sliceL_eq, he, Int.toNat_natCast, h1, show off + Spec.padTo4 pos - off = Spec.padTo4 pos by omega]
  have c0 : ((0x10000000 : Nat) == 0) = false := by decide
  simp only [c0, Bool.false_eq_true, if_false, beq_self_eq_true, if_true]
  rw [if_pos ⟨by omega, by omega⟩, slice_ok data _ _ (by omega) (by omega)]
  rw [show off + Spec.padTo4 pos + n - Spec.padTo4 pos = off + n by omega]
  simp only [ok_bind]
  cases decodeJNumeric (List.drop (off + Spec.padTo4 pos) (List.take (off + n) data)) <;> rfl

theorem decodeJEntry_container (rec : Bytes → M JV) (data : Bytes) (pos off n : Nat) (e : Nat)
    (he0 : e / 0x10000000 % 8 = 5) (hp : pos % 4 = off % 4) (hn : Spec.padTo4 pos < n) (hb : off + n ≤ data.length) :
    decodeJEntry rec data off (n : Int) e = rec ((data.take (off + n)).drop (off + Spec.padTo4 pos)) := by
  have he : e &&& 0x70000000 = 0x50000000 := by rw [land_70000000, he0]
  obtain ⟨h1, h2⟩ := align4_eq pos off hp
  unfold decodeJEntry decodeJEntryN
  simp only [sliceL_eq, he, Int.toNat_natCast, h1, show off + Spec.padTo4 pos - off = Spec.padTo4 pos by omega]
  have c0 : ((0x50000000 : Nat) == 0) = false := by decide
  have c1 : ((0x50000000 : Nat) == 0x10000000) = false := by decide
  simp only [c0, c1, Bool.false_eq_true, if_false, beq_self_eq_true, if_true]
  rw [if_pos ⟨by omega, by omega⟩, slice_ok data _ _ (by omega) (by omega)]
  rw [show off + Spec.padTo4 pos + n - Spec.padTo4 pos = off + n by omega]
  rfl

/-! ### children of an encoded array -/

def childEncs (pos : Nat) : List Spec.Json → List Child
  | [] => []
  | x :: xs => Spec.encValue pos x :: childEncs (pos + (Spec.encValue pos x).2.length) xs

theorem childEncs_length (pos : Nat) (xs : List Spec.Json) : (childEncs pos xs).length = xs.length := by
  induction xs generalizing pos with
  | nil => rfl
  | cons x xs ih => simp [childEncs, ih]

theorem encElems_eq (pos idx total : Nat) (xs : List Spec.Json) :
    Spec.encElems pos idx total xs = (entriesOf idx total (childEncs pos xs), bodyOf (childEncs pos xs)) := by
  induction xs generalizing pos idx total with
  | nil => rfl
  | cons x xs ih =>
    have e : Spec.encElems pos idx total (x :: xs) =
      (Spec.strideEntry idx (Spec.encValue pos x).1 (Spec.encValue pos x).2.length (total + (Spec.encValue pos x).2.length) ::
        (Spec.encElems (pos + (Spec.encValue pos x).2.length) (idx + 1) (total + (Spec.encValue pos x).2.length) xs).1,
       (Spec.encValue pos x).2 ++
        (Spec.encElems (pos + (Spec.encValue pos x).2.length) (idx + 1) (total + (Spec.encValue pos x).2.length) xs).2) := rfl
    rw [e, ih]
    rfl

theorem getD_childEncs (pos : Nat) (xs : List Spec.Json) (k : Nat) (h : k < xs.length) :
    (childEncs pos xs).getD k default =
      Spec.encValue (pos + pre (lensOf (childEncs pos xs)) k) (xs.getD k default) := by
  induction xs generalizing pos k with
  | nil => simp at h
  | cons x xs ih =>
    cases k with
    | zero => simp [childEncs, pre]
    | succ k =>
      have := ih (pos + (Spec.encValue pos x).2.length) k (by simpa using h)
      simp only [childEncs, List.getD_cons_succ, this, lensOf, List.map_cons, pre, List.take_succ_cons, List.sum_cons]
      congr 1; omega

theorem encValue_arr (pos : Nat) (xs : List Spec.Json) :
    Spec.encValue pos (.arr xs) =
      (5, zeros (Spec.padTo4 pos) ++ arrBytes (childEncs (pos + Spec.padTo4 pos + 4 + 4 * xs.length) xs) false) := by
  have e : Spec.encValue pos (.arr xs) = (5, zeros (Spec.padTo4 pos) ++ le 4 (xs.length + 0x40000000) ++
      Spec.encEntries (Spec.encElems (pos + Spec.padTo4 pos + 4 + 4 * xs.length) 0 0 xs).1 ++
      (Spec.encElems (pos + Spec.padTo4 pos + 4 + 4 * xs.length) 0 0 xs).2) := rfl
  rw [e, encElems_eq]
  simp only [arrBytes, arrHeader, childEncs_length, List.append_assoc, Bool.false_eq_true, if_false, Nat.add_zero]

/-! ### the documents covered by the round-trip theorem proved so far -/

mutual
/-- the documents of the round-trip theorem: numerics well-formed, the keys of every object pairwise
distinct (no limit on the number of elements / pairs of a container) -/
def covered : Spec.Json → Bool
  | .null => true
  | .bool _ => true
  | .num n _ => decide n.WF
  | .str _ => true
  | .arr xs => coveredList xs
  | .obj kvs => decide ((kvs.map (·.1)).Nodup) && coveredKvs kvs
def coveredList : List Spec.Json → Bool
  | [] => true
  | x :: xs => covered x && coveredList xs
def coveredKvs : List (Bytes × Spec.Json) → Bool
  | [] => true
  | (_, v) :: rest => covered v && coveredKvs rest
end

theorem coveredList_mem (xs : List Spec.Json) (h : coveredList xs = true) : ∀ x ∈ xs, covered x = true := by
  induction xs with
  | nil => intro x hx; simp at hx
  | cons y ys ih =>
    simp only [coveredList, Bool.and_eq_true] at h
    intro x hx
    rcases List.mem_cons.mp hx with e | m
    · subst e; exact h.1
    · exact ih h.2 x m

theorem coveredKvs_mem (kvs : List (Bytes × Spec.Json)) (h : coveredKvs kvs = true) :
    ∀ kv ∈ kvs, covered kv.2 = true := by
  induction kvs with
  | nil => intro x hx; simp at hx
  | cons y ys ih =>
    obtain ⟨k, v⟩ := y
    simp only [coveredKvs, Bool.and_eq_true] at h
    intro x hx
    rcases List.mem_cons.mp hx with e | m
    · subst e; exact h.1
    · exact ih h.2 x m

theorem toViewList_eq (rs : List JV) (xs : List Spec.Json) (hl : rs.length = xs.length)
    (h : ∀ k, k < xs.length → (rs.getD k default).toView = (xs.getD k default).view) :
    toViewList rs = Spec.viewList xs := by
  induction xs generalizing rs with
  | nil =>
    cases rs with
    | nil => rfl
    | cons r rs => simp at hl
  | cons x xs ih =>
    cases rs with
    | nil => simp at hl
    | cons r rs =>
      simp only [toViewList, Spec.viewList]
      have h0 := h 0 (by simp)
      simp only [List.getD_cons_zero] at h0
      rw [h0, ih rs (by simpa using hl) (fun k hk => by
        have := h (k + 1) (by simpa using hk)
        simpa using this)]

theorem formOf_admits (n : Spec.Numeric) (long : Bool) : (Spec.formOf n long).admits n := by
  unfold Spec.formOf
  cases long
  · simp only [Bool.false_eq_true, if_false]
    split
    · assumption
    · cases n <;> simp [Spec.HeaderForm.admits]
  · simp only [if_true]
    cases n <;> simp [Spec.HeaderForm.admits]

/-! ### the nested induction -/

/-- the JEntry of a child written at `pos` and found at `off` in `data` decodes to the child's view -/
def DecodesAs (x : Spec.Json) : Prop :=
  covered x = true → ∀ (pos off : Nat) (data : Bytes) (fuel : Nat) (e : Nat),
    pos % 4 = off % 4 → 0 < off →
    off + (Spec.encValue pos x).2.length ≤ data.length →
    (data.take (off + (Spec.encValue pos x).2.length)).drop off = (Spec.encValue pos x).2 →
    (Spec.encValue pos x).2.length < 0x10000000 →
    e / 0x10000000 % 8 = (Spec.encValue pos x).1 →
    data.length ≤ fuel →
    ∃ r, decodeJEntry (parseJSONBFuel fuel) data off ((Spec.encValue pos x).2.length : Int) e = .ok r ∧
      r.toView = x.view

theorem encValue_ty_lt (pos : Nat) (x : Spec.Json) : (Spec.encValue pos x).1 < 8 := by
  cases x with
  | null => show (4 : Nat) < 8; decide
  | bool b =>
    cases b
    · show (2 : Nat) < 8; decide
    · show (3 : Nat) < 8; decide
  | num n l => show (1 : Nat) < 8; decide
  | str s => show (0 : Nat) < 8; decide
  | arr xs => show (5 : Nat) < 8; decide
  | obj kvs => show (5 : Nat) < 8; decide

theorem padTo4_aligned (pos : Nat) : (pos + Spec.padTo4 pos) % 4 = 0 ∧ Spec.padTo4 pos < 4 := by
  unfold Spec.padTo4; omega

theorem parseContainer_empty_arr (rec : Bytes → M JV) (sc : Bool) :
    parseContainer rec (arrBytes [] sc) = .ok (.arr []) := by
  cases sc <;> rfl

/-- an encoded array container with elements `xs` (written at a 4-aligned position, `P` = position of
its data area) parses to the views of `xs`, given the induction hypothesis for the elements -/
theorem parse_arrBytes (xs : List Spec.Json) (P : Nat) (sc : Bool) (f : Nat)
    (hP : P % 4 = (4 + 4 * xs.length) % 4) (ih : ∀ x ∈ xs, DecodesAs x) (hs : coveredList xs = true)
    (h0 : 0 < xs.length)
    (hsmall : (arrBytes (childEncs P xs) sc).length < 0x10000000)
    (hf : (arrBytes (childEncs P xs) sc).length ≤ f) :
    ∃ rs, parseContainer (parseJSONBFuel f) (arrBytes (childEncs P xs) sc) = .ok (unwrapScalar sc rs) ∧
      rs.length = xs.length ∧ toViewList rs = Spec.viewList xs := by
  have hcl := childEncs_length P xs
  have hlen := arrBytes_length (childEncs P xs) sc
  have hLl : (lensOf (childEncs P xs)).length = (childEncs P xs).length := by simp [lensOf]
  have hbl := bodyOf_length (childEncs P xs)
  rw [← hLl] at hbl
  have hty : ∀ c ∈ childEncs P xs, c.1 < 8 := by
    intro c hc
    obtain ⟨k, hk, rfl⟩ := List.getElem_of_mem hc
    have hk' : k < xs.length := by omega
    have := getD_childEncs P xs k hk'
    simp only [List.getD, List.getElem?_eq_getElem hk, Option.getD_some] at this
    rw [this]; exact encValue_ty_lt _ _
  -- what child k decodes to
  have hex : ∀ k, ∃ r, k < xs.length →
      decodeJEntry (parseJSONBFuel f) (arrBytes (childEncs P xs) sc)
        (4 + (childEncs P xs).length * 4 + pre (lensOf (childEncs P xs)) k)
        ((lensOf (childEncs P xs)).getD k 0 : Int) ((entriesOf 0 0 (childEncs P xs)).getD k 0) = .ok r ∧
      r.toView = (xs.getD k default).view := by
    intro k
    by_cases hk : k < xs.length
    · have hkc : k < (childEncs P xs).length := by omega
      have hkl : k < (lensOf (childEncs P xs)).length := by omega
      have hx : xs.getD k default ∈ xs := by
        simp only [List.getD, List.getElem?_eq_getElem hk, Option.getD_some]; exact List.getElem_mem hk
      have hc := getD_childEncs P xs k hk
      have hlk : (lensOf (childEncs P xs)).getD k 0 = ((childEncs P xs).getD k default).2.length := by
        simp [lensOf, List.getD, List.getElem?_eq_getElem hkc]
      have htk : (tysOf (childEncs P xs)).getD k 0 = ((childEncs P xs).getD k default).1 := by
        simp [tysOf, List.getD, List.getElem?_eq_getElem hkc]
      have hle := len_le_total (lensOf (childEncs P xs)) k hkl
      have hpl := pre_succ (lensOf (childEncs P xs)) k hkl
      have hpt := pre_le_total (lensOf (childEncs P xs)) (k + 1)
      have hsl := slice_child (le 4 (arrHeader (childEncs P xs).length sc) ++ Spec.encEntries (entriesOf 0 0 (childEncs P xs)))
        (childEncs P xs) k hkc
      simp only [List.length_append, le_length, encEntries_length, entriesOf_length, List.append_assoc] at hsl
      rw [hlk, hc] at hsl
      have hent : (entriesOf 0 0 (childEncs P xs)).getD k 0 / 0x10000000 % 8 =
          (Spec.encValue (P + pre (lensOf (childEncs P xs)) k) (xs.getD k default)).1 := by
        rw [getD_entriesOf 0 0 _ k hkc, htk, hc]
        unfold Spec.strideEntry
        split
        · exact mk_ty _ _ _ (by omega) (encValue_ty_lt _ _)
        · exact mk_ty _ _ _ (by omega) (encValue_ty_lt _ _)
      rw [hlk, hc] at hle hpl
      rw [hlk, hc]
      obtain ⟨r, hr1, hr2⟩ := ih _ hx (coveredList_mem xs hs _ hx) (P + pre (lensOf (childEncs P xs)) k)
        (4 + (childEncs P xs).length * 4 + pre (lensOf (childEncs P xs)) k) (arrBytes (childEncs P xs) sc) f
        ((entriesOf 0 0 (childEncs P xs)).getD k 0) (by omega) (by omega)
        (by omega)
        (by
          rw [show 4 + (childEncs P xs).length * 4 + pre (lensOf (childEncs P xs)) k =
            4 + 4 * (childEncs P xs).length + pre (lensOf (childEncs P xs)) k by omega]
          exact hsl)
        (by omega) hent hf
      exact ⟨r, fun _ => ⟨hr1, hr2⟩⟩
    · exact ⟨default, fun h => absurd h hk⟩
  obtain ⟨g, hg⟩ := Classical.axiomOfChoice hex
  refine ⟨(List.range xs.length).map g, ?_, by simp, ?_⟩
  · apply parseContainer_array (parseJSONBFuel f) (childEncs P xs) sc (by omega) hsmall hty
    · simp [hcl]
    · intro k hk
      have hk' : k < xs.length := by omega
      rw [(hg k hk').1]
      simp [List.getD, hk']
  · apply toViewList_eq _ _ (by simp)
    intro k hk
    rw [← (hg k hk).2]
    simp [List.getD, hk]

end PgVerif.Proofs
