/-
  Totality of the index model (C10): none of the functions of pgdump/index.go faults, whatever the bytes.
-/
import PgVerif.Model.Index
namespace PgVerif.Proofs.Index
open PgVerif PgVerif.Model.Index

theorem detectGIN_total (ss : Nat) (sd : Bytes) (h : ss ≤ sd.length) : ∃ r, detectGIN ss sd = .ok r := by
  unfold detectGIN
  split
  · simp (disch := omega) only [uN_ok, ok_bind]
    split
    · exact ⟨_, rfl⟩
    · split <;> exact ⟨_, rfl⟩
  · exact ⟨_, rfl⟩

theorem detectBTree_total (page : Bytes) (ss : Nat) (sd : Bytes) (hp : 28 ≤ page.length) (h : ss ≤ sd.length) :
    ∃ r, detectBTree page ss sd = .ok r := by
  unfold detectBTree
  split
  · simp (disch := omega) only [uN_ok, ok_bind]
    split
    · split
      · split
        · exact ⟨_, rfl⟩
        · exact detectGIN_total ss sd h
      · exact ⟨_, rfl⟩
    · exact detectGIN_total ss sd h
  · exact detectGIN_total ss sd h

theorem detectIndexType_total (page : Bytes) : ∃ r, detectIndexType page = .ok r := by
  unfold detectIndexType
  split
  · exact ⟨_, rfl⟩
  · simp (disch := omega) only [uN_ok, ok_bind]
    split
    · exact ⟨_, rfl⟩
    · rename_i hs
      have hs' : rd 2 (page.drop 16) < 8192 := by omega
      simp (disch := omega) only [sliceFrom_ok, ok_bind]
      have hl : 8192 - rd 2 (page.drop 16) ≤ (page.drop (rd 2 (page.drop 16))).length := by
        simp only [List.length_drop]; omega
      split
      · split
        · exact ⟨_, rfl⟩
        · split
          · exact ⟨_, rfl⟩
          · split
            · exact ⟨_, rfl⟩
            · split
              · exact ⟨_, rfl⟩
              · exact detectBTree_total _ _ _ (by omega) hl
      · exact detectBTree_total _ _ _ (by omega) hl

theorem parseBTreePageSpecial_total (info : PageInfo) (sp : Bytes) : ∃ r, parseBTreePageSpecial info sp = .ok r := by
  unfold parseBTreePageSpecial
  split
  · exact ⟨_, rfl⟩
  · simp (disch := omega) only [uN_ok, ok_bind]; exact ⟨_, rfl⟩

theorem parseHashPageSpecial_total (info : PageInfo) (sp : Bytes) : ∃ r, parseHashPageSpecial info sp = .ok r := by
  unfold parseHashPageSpecial
  split
  · exact ⟨_, rfl⟩
  · simp (disch := omega) only [uN_ok, ok_bind]; exact ⟨_, rfl⟩

theorem parseGiSTPageSpecial_total (info : PageInfo) (sp : Bytes) : ∃ r, parseGiSTPageSpecial info sp = .ok r := by
  unfold parseGiSTPageSpecial
  split
  · exact ⟨_, rfl⟩
  · simp (disch := omega) only [uN_ok, ok_bind]; exact ⟨_, rfl⟩

theorem parseGINPageSpecial_total (info : PageInfo) (sp : Bytes) : ∃ r, parseGINPageSpecial info sp = .ok r := by
  unfold parseGINPageSpecial
  split
  · exact ⟨_, rfl⟩
  · simp (disch := omega) only [uN_ok, ok_bind]; exact ⟨_, rfl⟩

theorem parseSPGiSTPageSpecial_total (info : PageInfo) (sp : Bytes) : ∃ r, parseSPGiSTPageSpecial info sp = .ok r := by
  unfold parseSPGiSTPageSpecial
  split
  · exact ⟨_, rfl⟩
  · simp (disch := omega) only [uN_ok, ok_bind]; exact ⟨_, rfl⟩

theorem parseBRINPageSpecial_total (info : PageInfo) (sp : Bytes) : ∃ r, parseBRINPageSpecial info sp = .ok r := by
  unfold parseBRINPageSpecial
  split
  · exact ⟨_, rfl⟩
  · simp (disch := omega) only [uN_ok, ok_bind]; exact ⟨_, rfl⟩

theorem parseIndexPage_total (page : Bytes) (num t : Nat) : ∃ r, parseIndexPage page num t = .ok r := by
  unfold parseIndexPage
  split
  · exact ⟨_, rfl⟩
  · simp (disch := omega) only [uN_ok, ok_bind]
    split
    · simp (disch := omega) only [sliceFrom_ok, ok_bind]
      have fin : ∀ (m : M PageInfo), (∃ r, m = .ok r) → ∃ r, (do let info ← m; pure (metaHasNoItems info)) = .ok r := by
        rintro m ⟨r, rfl⟩; exact ⟨_, rfl⟩
      split
      · exact fin _ (parseBTreePageSpecial_total _ _)
      · exact fin _ (parseHashPageSpecial_total _ _)
      · exact fin _ (parseGiSTPageSpecial_total _ _)
      · exact fin _ (parseGINPageSpecial_total _ _)
      · exact fin _ (parseSPGiSTPageSpecial_total _ _)
      · exact fin _ (parseBRINPageSpecial_total _ _)
      · exact ⟨_, rfl⟩
    · exact ⟨_, rfl⟩

theorem parseBTreeMeta_total (page : Bytes) : ∃ r, parseBTreeMeta page = .ok r := by
  unfold parseBTreeMeta
  split
  · exact ⟨_, rfl⟩
  · simp (disch := omega) only [uN_ok, ok_bind]
    split
    · exact ⟨_, rfl⟩
    · simp (disch := omega) only [uN_ok, ok_bind]
      split
      · exact ⟨_, rfl⟩
      · simp (disch := omega) only [sliceFrom_ok, ok_bind]
        simp (disch := (simp only [List.length_drop]; omega)) only [uN_ok, ok_bind]
        split <;> exact ⟨_, rfl⟩

theorem parseHashMeta_total (page : Bytes) : ∃ r, parseHashMeta page = .ok r := by
  unfold parseHashMeta
  split
  · exact ⟨_, rfl⟩
  · simp (disch := omega) only [uN_ok, ok_bind]
    split
    · exact ⟨_, rfl⟩
    · simp (disch := omega) only [uN_ok, ok_bind]
      split
      · exact ⟨_, rfl⟩
      · simp (disch := omega) only [sliceFrom_ok, ok_bind]
        simp (disch := (simp only [List.length_drop]; omega)) only [uN_ok, ok_bind]
        exact ⟨_, rfl⟩

theorem parseGINMeta_total (page : Bytes) : ∃ r, parseGINMeta page = .ok r := by
  unfold parseGINMeta
  split
  · exact ⟨_, rfl⟩
  · simp (disch := omega) only [uN_ok, ok_bind]
    split
    · exact ⟨_, rfl⟩
    · simp (disch := omega) only [sliceFrom_ok, ok_bind]
      split
      · exact ⟨_, rfl⟩
      · simp (disch := omega) only [uN_ok, ok_bind]
        split
        · exact ⟨_, rfl⟩
        · simp (disch := (simp only [List.length_drop]; omega)) only [uN_ok, ok_bind]
          exact ⟨_, rfl⟩

theorem parseMeta_total (t : Nat) (page : Bytes) : ∃ r, parseMeta t page = .ok r := by
  unfold parseMeta
  split
  · exact parseBTreeMeta_total _
  · exact parseHashMeta_total _
  · exact parseGINMeta_total _
  · exact ⟨_, rfl⟩

/-! arithmetic of the page loop, with the page size as a variable: `omega` (and `generalize`, `rw`) compare atoms up to
definitional equality, and comparing two different products `_ * 8192` unfolds the literal in unary — keep every goal
that reaches `omega` free of two such products -/
theorem fit_first (P i n len : Nat) (h : i * P + (n + 1) * P ≤ len) : i * P + P ≤ len := by
  simp only [Nat.add_mul, Nat.one_mul] at h; omega

theorem fit_rest (P i n len : Nat) (h : i * P + (n + 1) * P ≤ len) : (i + 1) * P + n * P ≤ len := by
  simp only [Nat.add_mul, Nat.one_mul] at h ⊢; omega

/-- the page loop never leaves the file: `n` pages starting at page `i` fit -/
theorem parsePages_total (data : Bytes) (t n i : Nat) (h : i * 8192 + n * 8192 ≤ data.length) :
    ∃ r, parsePages data t n i = .ok r := by
  induction n generalizing i with
  | zero => exact ⟨_, rfl⟩
  | succ n ih =>
    unfold parsePages
    rw [slice_ok data (i * 8192) (i * 8192 + 8192) (fit_first 8192 i n _ h) (Nat.le_add_right _ _)]
    simp only [ok_bind]
    obtain ⟨pi, hpi⟩ := parseIndexPage_total ((data.take (i * 8192 + 8192)).drop (i * 8192)) (i % 2 ^ 32) t
    obtain ⟨rest, hrest⟩ := ih (i + 1) (fit_rest 8192 i n _ h)
    rw [hpi, hrest]; exact ⟨_, rfl⟩

theorem parseIndexFile_total (data : Bytes) : ∃ r, parseIndexFile data = .ok r := by
  unfold parseIndexFile
  split
  · exact ⟨_, rfl⟩
  · rename_i hl
    rw [slice_ok data 0 8192 (by omega) (by omega)]
    simp only [ok_bind]
    obtain ⟨t, ht⟩ := detectIndexType_total ((data.take 8192).drop 0)
    obtain ⟨m, hm⟩ := parseMeta_total t ((data.take 8192).drop 0)
    obtain ⟨ps, hps⟩ := parsePages_total data t (data.length / 8192) 0 (by
      have := Nat.div_mul_le_self data.length 8192
      simp only [Nat.zero_mul, Nat.zero_add]; exact this)
    rw [ht]; simp only [ok_bind]
    rw [hm]; simp only [ok_bind]
    rw [hps]; exact ⟨_, rfl⟩

/-- page isolation: the record of page `i` is computed from the 8192 bytes of page `i` alone -/
theorem parsePages_step (a pg b : Bytes) (t n i : Nat) (ha : a.length = i * 8192) (hp : pg.length = 8192) :
    parsePages (a ++ pg ++ b) t (n + 1) i =
      (do let r ← parseIndexPage pg (i % 2 ^ 32) t
          let rest ← parsePages (a ++ pg ++ b) t n (i + 1)
          pure (r :: rest)) := by
  have hs : slice (a ++ pg ++ b) (i * 8192) (i * 8192 + 8192) = .ok pg := by
    rw [slice_ok _ _ _ (by simp [ha, hp]) (Nat.le_add_right _ _)]
    congr 1
    rw [← ha, ← hp, List.append_assoc, List.take_length_add_append, List.drop_left', List.take_left']
    · rfl
    · rfl
  rw [parsePages, hs]; rfl

end PgVerif.Proofs.Index
