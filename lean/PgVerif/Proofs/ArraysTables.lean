/-
  The tables of Model/Arrays.lean — `arrayElemTypes` (read from the Go source on every run), and the transcriptions of
  `fixedLengths` and `typeAlign` — against the graphs obtained by executing the code (Generated/Arrays.lean), and against
  the Spec's pg_type table.  If the code's tables drift from the model, this module stops building.
-/
import PgVerif.Model.Arrays
import PgVerif.Spec.Arrays
import PgVerif.Generated.Arrays
namespace PgVerif.Proofs.Arrays
open PgVerif PgVerif.Model.Arrays

/-- every oid the code decodes as an array is a key of the model's table … -/
theorem gen_arrayOids_sub : ∀ o ∈ Generated.Arrays.arrayOids, (arrayElemTypes.lookup o).isSome = true := by decide

/-- … and conversely -/
theorem model_arrayOids_sub : ∀ p ∈ arrayElemTypes, p.1 ∈ Generated.Arrays.arrayOids := by decide

/-- the element width and alignment observed on the code are those the model derives from its tables -/
theorem gen_layout : ∀ r ∈ Generated.Arrays.layout,
    (arrayElemTypes.lookup r.1).map elemLayout = some (r.2.1, decide (0 < r.2.1), r.2.2) := by decide

/-- the element oid of the model's table is among the scalar oids whose decoder the code was observed to apply -/
theorem gen_elemCands : ∀ r ∈ Generated.Arrays.elemCands,
    (match arrayElemTypes.lookup r.1 with | some e => decide (e ∈ r.2) | none => false) = true := by decide

/-- no element type is itself an array type (the recursion of DecodeType through decodeArray is one level deep) -/
theorem elem_not_array : ∀ p ∈ arrayElemTypes, arrayElemTypes.lookup p.2 = none := by decide

end PgVerif.Proofs.Arrays
