/-
  Fractional seconds and the field decomposition of times and intervals (area `scalars`, fix 12): the model's
  Go arithmetic (`/`, `%`, `strings.TrimRight`) against the Spec's PostgreSQL-style definitions
  (time2tm / interval2itm by successive division and subtraction, TrimTrailingZeros).  Helpers for Props/C04.lean.
-/
import PgVerif.Proofs.ScalarsRT
set_option linter.unusedSimpArgs false
namespace PgVerif.Proofs.ScalarsFrac
open PgVerif PgVerif.Model.Scalars PgVerif.Spec.Scalars PgVerif.Txt PgVerif.Proofs.ScalarsRT

/-! ### `strings.TrimRight(s, "0")` = TrimTrailingZeros -/

theorem dropWhile_snoc {α} (p : α → Bool) (l : List α) (x : α) :
    (l ++ [x]).dropWhile p = if (l.dropWhile p).isEmpty then (if p x then [] else [x]) else l.dropWhile p ++ [x] := by
  induction l with
  | nil => cases h : p x <;> simp [List.dropWhile, h]
  | cons a l ih =>
    simp only [List.cons_append, List.dropWhile_cons]
    by_cases ha : p a = true
    · simp only [ha, if_true]; exact ih
    · simp [ha]

/-- Go's TrimRight with the cutset "0" computes the Spec's TrimTrailingZeros -/
theorem trimRight_eq (s : Bytes) : trimRight 48 s = trimTrailingZeros s := by
  induction s with
  | nil => rfl
  | cons c rest ih =>
    unfold trimRight at ih ⊢
    rw [List.reverse_cons, dropWhile_snoc]
    rw [trimTrailingZeros]
    rw [← ih]
    by_cases he : ((rest.reverse.dropWhile (· == (48 : UInt8))).isEmpty) = true
    · have hnil : rest.reverse.dropWhile (· == (48 : UInt8)) = [] := List.isEmpty_iff.mp he
      rw [if_pos he, hnil]
      simp only [List.reverse_nil]
      by_cases hc : (c == 48) = true
      · simp [hc]
      · simp [hc]
    · rw [if_neg he]
      have hne : rest.reverse.dropWhile (· == (48 : UInt8)) ≠ [] := by
        intro h; apply he; rw [h]; rfl
      rw [List.reverse_append]
      simp only [List.reverse_cons, List.reverse_nil, List.nil_append, List.singleton_append]
      have : (List.dropWhile (fun x => x == (48 : UInt8)) rest.reverse).reverse ≠ [] := by
        intro h; apply hne; simpa using h
      split
      · rename_i h; exact absurd h this
      · rfl

/-- the model's fraction printer is the Spec's, on the magnitude -/
theorem fracSeconds_eq (f : Int) : fracSeconds f = fracText f.natAbs := by
  unfold fracSeconds fracText
  by_cases h : f.natAbs = 0
  · rw [if_pos h, if_pos h]
  · rw [if_neg h, if_neg h, trimRight_eq]
    show trimTrailingZeros (46 :: padNat 6 f.natAbs) = 46 :: trimTrailingZeros (padNat 6 f.natAbs)
    rw [trimTrailingZeros]
    split
    · rename_i h0; rw [h0]; rfl
    · rfl

theorem fracSeconds_nat (n : Nat) : fracSeconds (n : Int) = fracText n := by
  rw [fracSeconds_eq]; rfl

/-! ### time of day -/

/-- Go's `us/3600e6, (us/60e6)%60, (us/1e6)%60, us%1e6` are time2tm's fields -/
theorem timeFields_eq (us : Nat) :
    timeFields us = (us / 3600000000, us / 60000000 % 60, us / 1000000 % 60, us % 1000000) := by
  unfold timeFields
  simp only [Prod.mk.injEq]
  refine ⟨trivial, ?_, ?_, ?_⟩ <;> omega

/-- the model's time-of-day text (with fraction) is the Spec's -/
theorem timeOfDay_text (us : Nat) :
    fmtTimeOfDay (us : Int) ++ fracSeconds ((us : Int).tmod 1000000) = timeText us := by
  have h4 : (us : Int).tmod 1000000 = ((us % 1000000 : Nat) : Int) := rfl
  rw [fmtTimeOfDay_nat, h4, fracSeconds_nat]
  unfold timeText
  rw [timeFields_eq]

/-! ### timestamp: floor seconds and the fraction -/

/-- the repaired timestamp code's fraction (`us%1000000`, plus 1000000 when negative) is the floor remainder -/
theorem floorMod_eq (us : Int) :
    (if us.tmod 1000000 < 0 then us.tmod 1000000 + 1000000 else us.tmod 1000000) = us % 1000000 := by
  by_cases h : 0 ≤ us
  · rw [Int.tmod_eq_emod_of_nonneg h]
    have : ¬ (us % 1000000 < 0) := by omega
    rw [if_neg this]
  · obtain ⟨k, hk⟩ : ∃ k : Nat, us = -(k : Int) := ⟨us.natAbs, by omega⟩
    subst hk
    rw [Int.neg_tmod]
    have e2 : Int.tmod (k : Int) 1000000 = ((k % 1000000 : Nat) : Int) := rfl
    rw [e2]
    by_cases hz : k % 1000000 = 0
    · have : ¬ (-((k % 1000000 : Nat) : Int) < 0) := by omega
      rw [if_neg this]; omega
    · have : (-((k % 1000000 : Nat) : Int) < 0) := by omega
      rw [if_pos this]; omega

/-! ### interval -/

/-- Go's `/` and `%` on the microsecond count give interval2itm's hour / minute / second / microsecond fields -/
theorem intervalFields_eq (months days us : Int) :
    intervalFields months days us =
      { year := months.tdiv 12, mon := months.tmod 12, day := days, hour := us.tdiv 3600000000,
        min := (us.tdiv 60000000).tmod 60, sec := (us.tdiv 1000000).tmod 60, usec := us.tmod 1000000 } := by
  unfold intervalFields
  have hm : months - months.tdiv 12 * 12 = months.tmod 12 := by
    have := Int.tmod_def months 12; omega
  by_cases h : 0 ≤ us
  · obtain ⟨k, rfl⟩ : ∃ k : Nat, us = (k : Int) := ⟨us.toNat, by omega⟩
    have e1 : Int.tdiv (k : Int) 3600000000 = ((k / 3600000000 : Nat) : Int) := rfl
    have e2 : Int.tdiv (k : Int) 60000000 = ((k / 60000000 : Nat) : Int) := rfl
    have e3 : Int.tdiv (k : Int) 1000000 = ((k / 1000000 : Nat) : Int) := rfl
    have e4 : Int.tmod (k : Int) 1000000 = ((k % 1000000 : Nat) : Int) := rfl
    have e5 : Int.tmod ((k / 60000000 : Nat) : Int) 60 = ((k / 60000000 % 60 : Nat) : Int) := rfl
    have e6 : Int.tmod ((k / 1000000 : Nat) : Int) 60 = ((k / 1000000 % 60 : Nat) : Int) := rfl
    have r1 : (k : Int) - ((k / 3600000000 : Nat) : Int) * 3600000000 = ((k % 3600000000 : Nat) : Int) := by omega
    simp only [hm, e1, e2, e3, e4, e5, e6, r1]
    have f1 : Int.tdiv ((k % 3600000000 : Nat) : Int) 60000000 = ((k % 3600000000 / 60000000 : Nat) : Int) := rfl
    have r2 : ((k % 3600000000 : Nat) : Int) - ((k % 3600000000 / 60000000 : Nat) : Int) * 60000000
        = ((k % 60000000 : Nat) : Int) := by omega
    simp only [f1, r2]
    have f2 : Int.tdiv ((k % 60000000 : Nat) : Int) 1000000 = ((k % 60000000 / 1000000 : Nat) : Int) := rfl
    simp only [f2]
    have g1 : k % 3600000000 / 60000000 = k / 60000000 % 60 := by omega
    have g2 : k % 60000000 / 1000000 = k / 1000000 % 60 := by omega
    have g3 : ((k % 60000000 : Nat) : Int) - ((k / 1000000 % 60 : Nat) : Int) * 1000000 = ((k % 1000000 : Nat) : Int) := by omega
    rw [g1, g2, g3]
  · obtain ⟨k, rfl⟩ : ∃ k : Nat, us = -(k : Int) := ⟨us.natAbs, by omega⟩
    have e1 : Int.tdiv (k : Int) 3600000000 = ((k / 3600000000 : Nat) : Int) := rfl
    have e2 : Int.tdiv (k : Int) 60000000 = ((k / 60000000 : Nat) : Int) := rfl
    have e3 : Int.tdiv (k : Int) 1000000 = ((k / 1000000 : Nat) : Int) := rfl
    have e4 : Int.tmod (k : Int) 1000000 = ((k % 1000000 : Nat) : Int) := rfl
    have e5 : Int.tmod ((k / 60000000 : Nat) : Int) 60 = ((k / 60000000 % 60 : Nat) : Int) := rfl
    have e6 : Int.tmod ((k / 1000000 : Nat) : Int) 60 = ((k / 1000000 % 60 : Nat) : Int) := rfl
    simp only [hm, Int.neg_tdiv, Int.neg_tmod, e1, e2, e3, e4, e5, e6]
    have r1 : -(k : Int) - -((k / 3600000000 : Nat) : Int) * 3600000000 = -((k % 3600000000 : Nat) : Int) := by omega
    simp only [r1, Int.neg_tdiv]
    have f1 : Int.tdiv ((k % 3600000000 : Nat) : Int) 60000000 = ((k % 3600000000 / 60000000 : Nat) : Int) := rfl
    have r2 : -((k % 3600000000 : Nat) : Int) - -((k % 3600000000 / 60000000 : Nat) : Int) * 60000000
        = -((k % 60000000 : Nat) : Int) := by omega
    simp only [f1, r2, Int.neg_tdiv]
    have f2 : Int.tdiv ((k % 60000000 : Nat) : Int) 1000000 = ((k % 60000000 / 1000000 : Nat) : Int) := rfl
    simp only [f2]
    have g1 : k % 3600000000 / 60000000 = k / 60000000 % 60 := by omega
    have g2 : k % 60000000 / 1000000 = k / 1000000 % 60 := by omega
    have g3 : -((k % 60000000 : Nat) : Int) - -((k / 1000000 % 60 : Nat) : Int) * 1000000 = -((k % 1000000 : Nat) : Int) := by omega
    rw [g1, g2, g3]

/-- the model's seconds component (sign of `us`, |s|, fraction of |f|) is the Spec's (sign of the fields) -/
theorem intervalSeconds_eq (us : Int) :
    intervalSeconds us =
      (if (us.tdiv 1000000).tmod 60 = 0 ∧ us.tmod 1000000 = 0 then []
       else [(if (us.tdiv 1000000).tmod 60 < 0 ∨ us.tmod 1000000 < 0 then [45] else []) ++
              decNat ((us.tdiv 1000000).tmod 60).natAbs ++ fracText (us.tmod 1000000).natAbs ++ asc "s"]) := by
  unfold intervalSeconds
  by_cases h : 0 ≤ us
  · obtain ⟨k, rfl⟩ : ∃ k : Nat, us = (k : Int) := ⟨us.toNat, by omega⟩
    have e3 : Int.tdiv (k : Int) 1000000 = ((k / 1000000 : Nat) : Int) := rfl
    have e4 : Int.tmod (k : Int) 1000000 = ((k % 1000000 : Nat) : Int) := rfl
    have e6 : Int.tmod ((k / 1000000 : Nat) : Int) 60 = ((k / 1000000 % 60 : Nat) : Int) := rfl
    have hn : ¬ ((k : Int) < 0) := by omega
    simp only [e3, e4, e6, hn, if_false, List.nil_append]
    by_cases hz : k / 1000000 % 60 = 0 ∧ k % 1000000 = 0
    · have c1 : ¬ ((((k / 1000000 % 60 : Nat) : Int) != 0 || ((k % 1000000 : Nat) : Int) != 0) = true) := by
        simp [hz.1, hz.2]
      have c2 : (((k / 1000000 % 60 : Nat) : Int) = 0 ∧ ((k % 1000000 : Nat) : Int) = 0) := by omega
      rw [if_neg c1, if_pos c2]
    · have c1 : ((((k / 1000000 % 60 : Nat) : Int) != 0 || ((k % 1000000 : Nat) : Int) != 0) = true) := by
        simp only [Bool.or_eq_true, bne_iff_ne, ne_eq]; omega
      have c2 : ¬ (((k / 1000000 % 60 : Nat) : Int) = 0 ∧ ((k % 1000000 : Nat) : Int) = 0) := by omega
      have c3 : ¬ (((k / 1000000 % 60 : Nat) : Int) < 0 ∨ ((k % 1000000 : Nat) : Int) < 0) := by omega
      rw [if_pos c1, if_neg c2, if_neg c3, fracSeconds_nat]
      have d1 : decInt ((k / 1000000 % 60 : Nat) : Int) = decNat (k / 1000000 % 60) := by
        unfold decInt; rw [if_neg (by omega)]; rfl
      rw [d1]; rfl
  · obtain ⟨k, rfl, hk⟩ : ∃ k : Nat, us = -(k : Int) ∧ 0 < k := ⟨us.natAbs, by omega, by omega⟩
    have e3 : Int.tdiv (k : Int) 1000000 = ((k / 1000000 : Nat) : Int) := rfl
    have e4 : Int.tmod (k : Int) 1000000 = ((k % 1000000 : Nat) : Int) := rfl
    have e6 : Int.tmod ((k / 1000000 : Nat) : Int) 60 = ((k / 1000000 % 60 : Nat) : Int) := rfl
    have hn : (-(k : Int) < 0) := by omega
    simp only [Int.neg_tdiv, Int.neg_tmod, e3, e4, e6, hn, if_true, Int.neg_neg]
    by_cases hz : k / 1000000 % 60 = 0 ∧ k % 1000000 = 0
    · have c1 : ¬ ((-((k / 1000000 % 60 : Nat) : Int) != 0 || -((k % 1000000 : Nat) : Int) != 0) = true) := by
        simp [hz.1, hz.2]
      have c2 : (-((k / 1000000 % 60 : Nat) : Int) = 0 ∧ -((k % 1000000 : Nat) : Int) = 0) := by omega
      rw [if_neg c1, if_pos c2]
    · have c1 : ((-((k / 1000000 % 60 : Nat) : Int) != 0 || -((k % 1000000 : Nat) : Int) != 0) = true) := by
        simp only [Bool.or_eq_true, bne_iff_ne, ne_eq]; omega
      have c2 : ¬ (-((k / 1000000 % 60 : Nat) : Int) = 0 ∧ -((k % 1000000 : Nat) : Int) = 0) := by omega
      have c3 : (-((k / 1000000 % 60 : Nat) : Int) < 0 ∨ -((k % 1000000 : Nat) : Int) < 0) := by omega
      rw [if_pos c1, if_neg c2, if_pos c3, fracSeconds_nat]
      have d1 : decInt ((k / 1000000 % 60 : Nat) : Int) = decNat (k / 1000000 % 60) := by
        unfold decInt; rw [if_neg (by omega)]; rfl
      have n1 : (-((k / 1000000 % 60 : Nat) : Int)).natAbs = k / 1000000 % 60 := by omega
      have n2 : (-((k % 1000000 : Nat) : Int)).natAbs = k % 1000000 := by omega
      rw [d1, n1, n2]

/-- one `%d<suffix>` component: the model's `!= 0` test against the Spec's `= 0` test -/
theorem intervalPart_eq (v : Int) (suffix : String) :
    intervalPart v suffix = (if v = 0 then [] else [decInt v ++ asc suffix]) := by
  unfold intervalPart
  by_cases h : v = 0
  · subst h; rfl
  · rw [if_neg h]
    have : (v != 0) = true := by simpa using h
    rw [if_pos this]

/-- the text decodeInterval builds from (months, days, us) is the Spec's interval notation -/
theorem interval_text (months days us : Int) :
    (let parts := intervalPart (months.tdiv 12) "y" ++ intervalPart (months.tmod 12) "mo" ++ intervalPart days "d" ++
        intervalPart (us.tdiv 3600000000) "h" ++ intervalPart ((us.tdiv 60000000).tmod 60) "m" ++ intervalSeconds us
     if parts.isEmpty then asc "0" else joinBytes [32] parts) = intervalText months days us := by
  unfold intervalText
  rw [intervalFields_eq]
  simp only [intervalPart_eq, intervalSeconds_eq]

end PgVerif.Proofs.ScalarsFrac
