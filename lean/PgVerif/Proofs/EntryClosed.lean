/-
  Helper definitions and lemmas for the CLOSED totality theorems of Props/C10/Entry.lean.

  The per-area models of `DecodeType` are open: area `scalars` takes the array / numeric / jsonb decoders as a
  parameter (`Ext`), area `arrays` takes the element decoder (`Dec`), area `rows` takes the value decoder, area
  `cluster` the row reader.  In Go these are one mutually recursive function:
      DecodeType → decodeArray → parseArrayElements → DecodeType (element) → …
  Here the knot is tied by unrolling: `decodeTypeN X n` is DecodeType in which array elements are decoded by
  `decodeTypeN X (n-1)` (level 0 is a stub).  Because no element type of `arrayElemTypes` is itself an array type,
  the recursion of the Go code has depth 2 and the unrolling is stationary from level 2 on
  (`decodeTypeN_stable`): `decodeTypeC X = decodeTypeN X 2` IS the closed model of DecodeType.
  `X` carries the three renderers the areas leave abstract (numeric result → Go value, JSONB value → Go value,
  encoding/json.Unmarshal); nothing below depends on what they return.
-/
import PgVerif.Proofs.ScalarsTotal
import PgVerif.Proofs.Arrays
import PgVerif.Proofs.Jsonb
namespace PgVerif.Proofs.Entry
open PgVerif PgVerif.Model

/-- what the areas leave abstract about the values DecodeType returns -/
structure Render where
  /-- `DecodeNumeric`'s result as the Go value DecodeType hands back -/
  num : NumRes → GoVal
  /-- `ParseJSONB`'s result as a Go value (`GoVal.nil` = Go nil) -/
  json : JV → GoVal
  /-- `encoding/json.Unmarshal` into `interface{}` (`none` = error) -/
  unmarshal : Bytes → Option GoVal

/-- the external decoders of `Scalars.decodeType`, with the real array / numeric / jsonb models plugged in and
array elements decoded by `dec` -/
def extOf (X : Render) (dec : Arrays.Dec) : Scalars.Ext :=
  { decodeArray := fun raw e => Arrays.decodeArray dec raw e
    decodeNumeric := fun b => (decodeNumeric b).map X.num
    parseJSONB := fun b => (parseJSONB b).map X.json
    jsonUnmarshal := X.unmarshal }

/-- DecodeType unrolled `n` times through its array branch -/
def decodeTypeN (X : Render) : Nat → Bytes → Nat → M GoVal
  | 0 => fun _ _ => pure .nil
  | n+1 => fun data oid => Scalars.decodeType (extOf X (decodeTypeN X n)) data oid

/-- the closed model of types.go:DecodeType -/
def decodeTypeC (X : Render) : Bytes → Nat → M GoVal := decodeTypeN X 2

theorem map_total {α β} (f : α → β) (m : M α) (h : ∃ r, m = .ok r) : ∃ r, m.map f = .ok r := by
  obtain ⟨r, hr⟩ := h
  exact ⟨f r, by rw [hr]; rfl⟩

theorem extOf_total (X : Render) (dec : Arrays.Dec) (hdec : Arrays.DecTotal dec) : Scalars.ExtTotal (extOf X dec) :=
  ⟨fun d e => Arrays.decodeArray_total dec hdec d e,
   fun d => map_total X.num _ (decodeNumeric_total d),
   fun d => map_total X.json _ (parseJSONB_total d)⟩

/-- every level of the unrolling returns on every input -/
theorem decodeTypeN_total (X : Render) (n : Nat) : Arrays.DecTotal (decodeTypeN X n) := by
  induction n with
  | zero => exact fun _ _ => ⟨.nil, rfl⟩
  | succ n ih => exact fun data oid => Scalars.decodeType_total _ (extOf_total X _ ih) data oid


/-! ### no element type of `arrayElemTypes` is an array type -/

theorem elem_not_array_b : Scalars.arrayElemTypes.all (fun p => (Scalars.arrayElemTypes.lookup p.2).isNone) = true := by
  decide +kernel

theorem lookup_mem {α β} [BEq α] [LawfulBEq α] (l : List (α × β)) (k : α) (v : β) (h : l.lookup k = some v) : (k, v) ∈ l := by
  induction l with
  | nil => simp [List.lookup] at h
  | cons p rest ih =>
    obtain ⟨a, b⟩ := p
    simp only [List.lookup] at h
    by_cases hk : k == a
    · simp only [hk] at h
      have : k = a := by simpa using hk
      cases h; subst this; exact List.mem_cons_self
    · simp only [hk] at h
      exact List.mem_cons_of_mem _ (ih h)

/-- the recursion DecodeType → decodeArray → DecodeType stops at the element: an element oid is never an array oid -/
theorem elem_not_array (oid e : Nat) (h : Scalars.arrayElemTypes.lookup oid = some e) :
    Scalars.arrayElemTypes.lookup e = none := by
  have hm := lookup_mem _ _ _ h
  have := List.all_eq_true.mp elem_not_array_b (oid, e) hm
  simpa using this

/-! ### outside the array branch DecodeType does not consult the array decoder -/

structure SameButArrays (e1 e2 : Scalars.Ext) : Prop where
  num : e1.decodeNumeric = e2.decodeNumeric
  jsonb : e1.parseJSONB = e2.parseJSONB
  unm : e1.jsonUnmarshal = e2.jsonUnmarshal

theorem decodeScalar0_congr (e1 e2 : Scalars.Ext) (h : SameButArrays e1 e2) (data : Bytes) (oid : Nat) :
    Scalars.decodeScalar0 e1 data oid = Scalars.decodeScalar0 e2 data oid := by
  unfold Scalars.decodeScalar0 Scalars.decJSON Scalars.decJSONB
  rw [h.num, h.jsonb, h.unm]

theorem sameButArrays_extOf (X : Render) (d d' : Arrays.Dec) : SameButArrays (extOf X d) (extOf X d') :=
  ⟨rfl, rfl, rfl⟩

theorem decodeType0_congr (e1 e2 : Scalars.Ext) (h : SameButArrays e1 e2) (data : Bytes) (oid : Nat)
    (hl : Scalars.arrayElemTypes.lookup oid = none) :
    Scalars.decodeType0 e1 data oid = Scalars.decodeType0 e2 data oid := by
  unfold Scalars.decodeType0
  rw [hl]
  simp only [decodeScalar0_congr e1 e2 h]

theorem readBound_congr (e1 e2 : Scalars.Ext) (h : SameButArrays e1 e2) (data : Bytes) (off sz eo : Nat)
    (hl : Scalars.arrayElemTypes.lookup eo = none) :
    Scalars.readBound e1 data off sz eo = Scalars.readBound e2 data off sz eo := by
  unfold Scalars.readBound
  simp only [fun s => decodeType0_congr e1 e2 h s eo hl]

theorem rangeElem_not_array (oid eo sz : Nat) (h : Scalars.rangeElem oid = some (eo, sz)) :
    Scalars.arrayElemTypes.lookup eo = none := by
  unfold Scalars.rangeElem at h
  repeat' split at h
  all_goals first
    | (cases h; rfl)
    | cases h

/-- the bounds of a numrange are read with the numeric decoder only (types.go:decodeNumericRange, fix scalars/15) -/
theorem numBound_congr (e1 e2 : Scalars.Ext) (h : SameButArrays e1 e2) (data : Bytes) (off : Nat) :
    Scalars.numBound e1 data off = Scalars.numBound e2 data off := by
  unfold Scalars.numBound
  rw [h.num]

theorem decodeNumericRange_congr (e1 e2 : Scalars.Ext) (h : SameButArrays e1 e2) (data : Bytes) (flags : Nat) :
    Scalars.decodeNumericRange e1 data flags = Scalars.decodeNumericRange e2 data flags := by
  unfold Scalars.decodeNumericRange
  simp only [numBound_congr e1 e2 h]

theorem decodeRange_congr (e1 e2 : Scalars.Ext) (h : SameButArrays e1 e2) (data : Bytes) (oid : Nat) :
    Scalars.decodeRange e1 data oid = Scalars.decodeRange e2 data oid := by
  unfold Scalars.decodeRange
  cases hre : Scalars.rangeElem oid with
  | none => simp only [decodeNumericRange_congr e1 e2 h]
  | some p =>
    obtain ⟨eo, sz⟩ := p
    have hl := rangeElem_not_array oid eo sz hre
    simp only [Scalars.decodeRangeFixed, Scalars.rangeLower, Scalars.rangeUpper, decodeNumericRange_congr e1 e2 h,
      fun o => readBound_congr e1 e2 h data o sz eo hl]

theorem decodeType_congr (e1 e2 : Scalars.Ext) (h : SameButArrays e1 e2) (data : Bytes) (oid : Nat)
    (hl : Scalars.arrayElemTypes.lookup oid = none) :
    Scalars.decodeType e1 data oid = Scalars.decodeType e2 data oid := by
  unfold Scalars.decodeType Scalars.decodeScalar
  rw [hl]
  simp only [decodeRange_congr e1 e2 h, decodeScalar0_congr e1 e2 h]

/-! ### the array decoder consults its element decoder at the element oid only -/

theorem decodeVarlenaElem_congr (d d' : Arrays.Dec) (e : Nat) (h : ∀ bs, d bs e = d' bs e) (data : Bytes) :
    Arrays.decodeVarlenaElem d data e = Arrays.decodeVarlenaElem d' data e := by
  unfold Arrays.decodeVarlenaElem
  simp only [h]

theorem readElem_congr (d d' : Arrays.Dec) (e : Nat) (h : ∀ bs, d bs e = d' bs e) (raw : Bytes) (elemLen : Nat) (fixed : Bool) (off : Nat) :
    Arrays.readElem d raw e elemLen fixed off = Arrays.readElem d' raw e elemLen fixed off := by
  unfold Arrays.readElem
  simp only [h, decodeVarlenaElem_congr d d' e h]

theorem parseElems_congr (d d' : Arrays.Dec) (e : Nat) (h : ∀ bs, d bs e = d' bs e) (raw : Bytes) (elemLen elemAlign : Nat)
    (fixed : Bool) (nulls : Option Bytes) (n i off : Nat) :
    Arrays.parseElems d raw e elemLen elemAlign fixed nulls n i off = Arrays.parseElems d' raw e elemLen elemAlign fixed nulls n i off := by
  induction n generalizing i off with
  | zero => rfl
  | succ n ih =>
    unfold Arrays.parseElems
    simp only [ih, readElem_congr d d' e h]

theorem decodeArray_congr (d d' : Arrays.Dec) (e : Nat) (h : ∀ bs, d bs e = d' bs e) (raw : Bytes) :
    Arrays.decodeArray d raw e = Arrays.decodeArray d' raw e := by
  unfold Arrays.decodeArray Arrays.decodeDims
  simp only [parseElems_congr d d' e h]


/-! ### the unrolling is stationary from level 2 on -/

/-- on a non-array oid every level ≥ 1 gives the same answer -/
theorem decodeTypeN_scalar (X : Render) (n : Nat) (data : Bytes) (oid : Nat)
    (hl : Scalars.arrayElemTypes.lookup oid = none) :
    decodeTypeN X (n + 1) data oid = decodeTypeN X 1 data oid :=
  decodeType_congr _ _ (sameButArrays_extOf X (decodeTypeN X n) (decodeTypeN X 0)) data oid hl

/-- `decodeTypeN X (n+2) = decodeTypeN X 2` for every n: two levels are the whole recursion of the Go code -/
theorem decodeTypeN_stable (X : Render) (n : Nat) : decodeTypeN X (n + 2) = decodeTypeN X 2 := by
  funext data oid
  cases hl : Scalars.arrayElemTypes.lookup oid with
  | none => exact decodeType_congr _ _ (sameButArrays_extOf X (decodeTypeN X (n + 1)) (decodeTypeN X 1)) data oid hl
  | some e =>
    show Scalars.decodeType (extOf X (decodeTypeN X (n + 1))) data oid = Scalars.decodeType (extOf X (decodeTypeN X 1)) data oid
    unfold Scalars.decodeType
    rw [hl]
    by_cases h0 : data.length = 0
    · rw [if_pos h0, if_pos h0]
    · rw [if_neg h0, if_neg h0]
      exact decodeArray_congr _ _ e (fun bs => decodeTypeN_scalar X n bs e (elem_not_array oid e hl)) data

/-- the closed model satisfies DecodeType's own recursion equation: it is `Scalars.decodeType` whose array elements are
decoded by the closed model itself -/
theorem decodeTypeC_fix (X : Render) : decodeTypeC X = fun data oid => Scalars.decodeType (extOf X (decodeTypeC X)) data oid := by
  show decodeTypeN X 2 = decodeTypeN X 3
  exact (decodeTypeN_stable X 1).symm

/-- the closed model of DecodeType returns on every byte string and every type oid -/
theorem decodeTypeC_total (X : Render) (data : Bytes) (oid : Nat) : ∃ r, decodeTypeC X data oid = .ok r :=
  decodeTypeN_total X 2 data oid

end PgVerif.Proofs.Entry
