/-
  C12 helper lemmas about RemoteClient.Query's options: what the projection loop `for _, col := range opts.Columns
  { if val, ok := row[col]; ok { newRow[col] = val } }` and the limit do, stated as properties of the result (not as a copy
  of the loop).
-/
import PgVerif.Model.Remote
namespace PgVerif.Proofs.Remote
open PgVerif PgVerif.Model List

theorem beq_false_of_ne' {a b : Bytes} (h : a ≠ b) : (a == b) = false := by simpa using h

theorem lookup_append_single (m : List (Bytes × GoVal)) (k k' : Bytes) (v : GoVal) (h : m.any (·.1 == k) = false) :
    (m ++ [(k, v)]).lookup k' = if k' = k then some v else m.lookup k' := by
  induction m with
  | nil =>
    by_cases hk : k' = k
    · subst hk; simp [lookup_cons]
    · simp [lookup_cons, beq_false_of_ne' hk, hk]
  | cons e rest ih =>
    obtain ⟨ke, ve⟩ := e
    simp only [any_cons, Bool.or_eq_false_iff] at h
    have hkek : ke ≠ k := by simpa using h.1
    simp only [cons_append, lookup_cons]
    by_cases h1 : k' = ke
    · subst h1
      simp [hkek]
    · simp only [beq_false_of_ne' h1]
      exact ih h.2

theorem lookup_map_replace (k k' : Bytes) (v : GoVal) : ∀ m : List (Bytes × GoVal),
    (m.map fun kv => if kv.1 == k then (k, v) else kv).lookup k' =
      if k' = k then (if m.any (·.1 == k) then some v else none) else m.lookup k'
  | [] => by by_cases hk : k' = k <;> simp [hk]
  | (ke, ve) :: rest => by
    have ih := lookup_map_replace k k' v rest
    simp only [map_cons, any_cons]
    by_cases hke : ke = k
    · subst hke
      simp only [beq_self_eq_true, if_true, Bool.true_or, lookup_cons]
      by_cases h1 : k' = ke
      · subst h1; simp
      · simp only [beq_false_of_ne' h1, h1, if_false]
        rw [ih]; simp [h1]
    · simp only [beq_false_of_ne' hke, Bool.false_eq_true, if_false, Bool.false_or, lookup_cons]
      by_cases h1 : k' = ke
      · subst h1; simp [hke]
      · simp only [beq_false_of_ne' h1]
        exact ih

/-- Go's `m[k] = v`: afterwards `m[k]` is `v` and every other key is unchanged -/
theorem lookup_mapInsert (m : List (Bytes × GoVal)) (k k' : Bytes) (v : GoVal) :
    (mapInsert m k v).lookup k' = if k' = k then some v else m.lookup k' := by
  unfold mapInsert
  by_cases h : m.any (·.1 == k) = true
  · rw [if_pos h, lookup_map_replace, h]; rfl
  · rw [if_neg h]; exact lookup_append_single m k k' v (Bool.eq_false_iff.mpr h)

theorem projectRow_loop (row : Row) : ∀ (cols seen : List Bytes) (acc : Row),
    (∀ k, acc.lookup k = if k ∈ seen then row.lookup k else none) →
    ∀ k, (cols.foldl (fun acc col => match row.lookup col with | some v => mapInsert acc col v | none => acc) acc).lookup k =
      if k ∈ seen ++ cols then row.lookup k else none
  | [], seen, acc, h, k => by simpa using h k
  | col :: cols, seen, acc, h, k => by
    simp only [foldl_cons]
    have hstep : ∀ k', (match row.lookup col with | some v => mapInsert acc col v | none => acc).lookup k' =
        if k' ∈ seen ++ [col] then row.lookup k' else none := by
      intro k'
      cases hv : row.lookup col with
      | none =>
        simp only [h k', mem_append, mem_singleton]
        by_cases hk : k' = col
        · subst hk; simp [hv]
        · simp [hk]
      | some v =>
        simp only [lookup_mapInsert, h k', mem_append, mem_singleton]
        by_cases hk : k' = col
        · subst hk; simp [hv]
        · simp [hk]
    have := projectRow_loop row cols (seen ++ [col]) _ hstep k
    simpa [append_assoc] using this

/-- **Projection**: the projected row has exactly the requested columns that exist in the row, each with the row's value -/
theorem projectRow_lookup (cols : List Bytes) (row : Row) (k : Bytes) :
    (projectRow cols row).lookup k = if k ∈ cols then row.lookup k else none := by
  unfold projectRow
  have := projectRow_loop row cols [] [] (fun k => by simp) k
  simp only [nil_append] at this
  exact this

/-! ### name lookup -/

theorem find?_congr' {α} (p q : α → Bool) : ∀ (l : List α), (∀ x ∈ l, p x = q x) → l.find? p = l.find? q
  | [], _ => rfl
  | x :: xs, h => by
    simp only [List.find?_cons, h x (by simp)]
    rw [find?_congr' p q xs (fun y hy => h y (by simp [hy]))]

theorem equalFold_refl (n : Bytes) : equalFold n n = true := by
  unfold equalFold GoCase.goEqualFold
  split <;> exact beq_self_eq_true _

end PgVerif.Proofs.Remote
