/-
  numrange (fix 15): decodeNumericRange on PostgreSQL's stored layout — bounds as numeric varlenas, 1-byte header up to
  126 payload bytes, 4-byte header int-aligned beyond.  Helper lemmas for Props/C04.lean (area `scalars`).
  ReadVarlena is the model of area rows (`Proofs.Rows.readVarlena_short` / `_long`), DecodeNumeric the model of area numjson
  (`Proofs.decodeNumeric_enc`, `Proofs.JsonbGo.num_toGo`: the statements behind `C05_value`).
-/
import PgVerif.Proofs.ScalarsRange
import PgVerif.Proofs.Rows
import PgVerif.Proofs.Numeric
import PgVerif.Proofs.JsonbGo
set_option linter.unusedSimpArgs false
namespace PgVerif.Proofs.ScalarsRT
open PgVerif PgVerif.Model.Scalars PgVerif.Spec.Scalars PgVerif.Txt

/-- the numeric decoder of area numjson as the `Ext` component, given strconv.ParseFloat -/
def numExt (pf : Model.ParseFloat) : Bytes → M GoVal := fun raw => (Model.decodeNumeric raw).map fun r => r.toGo pf

/-- `align(x+4, 4) - 4` rounds `x` up to a multiple of 4 -/
theorem align4 (x : Nat) : align (x + 4) 4 - 4 = (x + 3) / 4 * 4 := by
  have h := andNot_mask (x + 4 + 4 - 1) 2
  simp only [align, show ¬ (4 ≤ 1) by omega, if_false, show (4 : Nat) - 1 = 2 ^ 2 - 1 from rfl, h]
  omega

/-- a well-formed numeric payload decodes (through `numExt`) to a value printed as the hole of the nearest float64 -/
theorem numExt_enc (pf : Model.ParseFloat) (hpf : Spec.ParseFloatOK pf) (n : Spec.Numeric) (h : n.WF) (form : Spec.HeaderForm)
    (hf : form.admits n) :
    ∃ g, numExt pf (Spec.encNumeric form n) = .ok g ∧ g ≠ .nil ∧ numBoundPieces g = [hole n.view.bits] := by
  have hv := decodeNumeric_enc n h form hf
  unfold numExt
  cases hd : Model.decodeNumeric (Spec.encNumeric form n) with
  | error e => rw [hd] at hv; simp [Except.map] at hv
  | ok r =>
    rw [hd] at hv
    simp only [Except.map, Except.ok.injEq] at hv
    have hg := JsonbGo.num_toGo pf hpf r _ hv
    refine ⟨r.toGo pf, rfl, ?_, ?_⟩
    · cases r <;> simp [Model.NumRes.toGo, Model.NumRes.toView] at hv ⊢
    · cases r with
      | none => simp [Model.NumRes.toView] at hv
      | int0 =>
        simp only [Model.NumRes.toGo, Spec.numAsF64, Spec.NumView.toGo, GoVal.f64.injEq] at hg
        simp only [Model.NumRes.toGo, numBoundPieces, hg]
      | fzero =>
        simp only [Model.NumRes.toGo, Spec.numAsF64, Spec.NumView.toGo, GoVal.f64.injEq] at hg
        simp only [Model.NumRes.toGo, numBoundPieces, hg]
      | special s =>
        simp only [Model.NumRes.toGo, Spec.numAsF64, Spec.NumView.toGo, GoVal.f64.injEq] at hg
        simp only [Model.NumRes.toGo, numBoundPieces, hg]
      | num t =>
        simp only [Model.NumRes.toGo, Spec.numAsF64, Spec.NumView.toGo, GoVal.f64.injEq] at hg
        simp only [Model.NumRes.toGo, numBoundPieces, hg]

/-! ### the closure `bound` in two steps -/

/-- the first statement of `bound`: `if offset < end && data[offset] == 0 { offset = align(offset+4, 4) - 4 }` -/
def numBoundStart (data : Bytes) (offset : Nat) : M Nat :=
  if offset < data.length - 1 then do
    if (← idx data offset) == 0 then pure (align (offset + 4) 4 - 4) else pure offset
  else pure offset

/-- the rest of `bound`, from the offset the first statement leaves -/
def numBoundAt (ext : Ext) (data : Bytes) (offset : Nat) : M (List GoVal × Nat) := do
  let end_ := data.length - 1
  if offset ≥ end_ then return ([lit "?"], offset)
  let s ← slice data offset end_
  let r ← PgVerif.Model.readVarlena s
  match r.1 with
  | none => return ([lit "?"], offset)
  | some val =>
    let offset := offset + r.2
    match ← ext.decodeNumeric val with
    | .nil => return ([lit "?"], offset)
    | v => return (numBoundPieces v, offset)

theorem numBound_eq (ext : Ext) (data : Bytes) (offset : Nat) :
    numBound ext data offset = numBoundStart data offset >>= numBoundAt ext data := rfl

/-! ### the first statement of `bound`: skipping the padding -/

/-- a non-zero byte at the offset: the offset stays -/
theorem numBoundStart_nz (a t : Bytes) (b : UInt8) (hb : b ≠ 0) :
    numBoundStart (a ++ (b :: t)) a.length = .ok a.length := by
  unfold numBoundStart
  have hi : idx (a ++ (b :: t)) a.length = .ok b := by
    rw [idx_ok _ _ (by simp)]; simp
  by_cases hl : a.length < (a ++ (b :: t)).length - 1
  · rw [if_pos hl, hi]
    simp only [ok_bind, pure_eq_ok]
    rw [if_neg (by simpa using hb)]
  · rw [if_neg hl]; rfl

/-- the padding of an int-aligned datum (`k` zero bytes up to the next multiple of 4 relative to the range's 4-byte header),
followed by at least two more bytes: the offset moves behind the padding -/
theorem numBoundStart_pad (a t : Bytes) (ht : 2 ≤ t.length) :
    numBoundStart (a ++ (zeros ((4 - a.length % 4) % 4) ++ t)) a.length = .ok (a.length + (4 - a.length % 4) % 4) := by
  unfold numBoundStart
  have hl : a.length < (a ++ (zeros ((4 - a.length % 4) % 4) ++ t)).length - 1 := by
    simp only [List.length_append, zeros_length]; omega
  rw [if_pos hl, align4]
  by_cases hk : (4 - a.length % 4) % 4 = 0
  · rw [hk]
    simp only [zeros, List.replicate_zero, List.nil_append, Nat.add_zero]
    obtain ⟨b, t', rfl⟩ : ∃ b t', t = b :: t' := by
      cases t with
      | nil => simp at ht
      | cons b t' => exact ⟨b, t', rfl⟩
    have hi : idx (a ++ (b :: t')) a.length = .ok b := by
      rw [idx_ok _ _ (by simp)]; simp
    rw [hi]
    simp only [ok_bind, pure_eq_ok]
    have hal : (a.length + 3) / 4 * 4 = a.length := by omega
    rw [hal]
    split <;> rfl
  · have hi : idx (a ++ (zeros ((4 - a.length % 4) % 4) ++ t)) a.length = .ok 0 := by
      rw [idx_ok _ _ (by simp only [List.length_append, zeros_length]; omega)]
      rw [List.getElem_append_right (by omega)]
      simp only [Nat.sub_self]
      rw [List.getElem_append_left (by simp only [zeros_length]; omega)]
      simp [zeros]
    rw [hi]
    simp only [ok_bind, pure_eq_ok]
    rw [if_pos (by decide)]
    congr 1
    omega

/-! ### the rest of `bound` on a varlena that ReadVarlena reads -/

theorem numBoundAt_ok (ext : Ext) (a v rest : Bytes) (fb : UInt8) (p : Bytes) (g : GoVal) (c : Nat) (hc : v.length = c)
    (hv : 1 ≤ c)
    (hr : Model.readVarlena (v ++ rest) = .ok (some p, c)) (hd : ext.decodeNumeric p = .ok g) (hg : g ≠ .nil) :
    numBoundAt ext (a ++ (v ++ rest ++ [fb])) a.length = .ok (numBoundPieces g, a.length + c) := by
  subst hc
  unfold numBoundAt
  have hlen : (a ++ (v ++ rest ++ [fb])).length - 1 = a.length + (v ++ rest).length := by
    simp only [List.length_append, List.length_cons, List.length_nil]; omega
  rw [hlen, if_neg (by simp only [List.length_append]; omega)]
  have hs : slice (a ++ (v ++ rest ++ [fb])) a.length (a.length + (v ++ rest).length) = .ok (v ++ rest) := by
    have := slice_mid a (v ++ rest) [fb] a.length (v ++ rest).length rfl rfl
    simpa [List.append_assoc] using this
  rw [hs]
  simp only [ok_bind, hr, hd, pure_eq_ok]

/-! ### one stored bound -/

/-- a numeric bound stored after `a` (its padding, its varlena), followed by anything and the flag byte: `bound` prints it as
the hole of the float64 nearest to its value and leaves the offset behind it -/
theorem numBound_enc (ext : Ext) (pf : Model.ParseFloat) (hpf : Spec.ParseFloatOK pf) (hext : ext.decodeNumeric = numExt pf)
    (a rest : Bytes) (fb : UInt8) (n : Spec.Numeric) (form : Spec.HeaderForm) (hb : (Bound.num n form).wf .num = true) :
    numBound ext (a ++ (boundPad a.length (.num n form) ++ encBoundAs .num (.num n form) ++ rest ++ [fb])) a.length
      = .ok ([hole n.view.bits], a.length + (boundPad a.length (.num n form) ++ encBoundAs .num (.num n form)).length) := by
  have hb' : n.WF ∧ form.admits n ∧ (Spec.encNumeric form n).length + 4 < 2 ^ 30 := by
    simp only [Bound.wf, Bool.and_eq_true, beq_iff_eq, decide_eq_true_eq] at hb
    exact ⟨hb.1.1.2, hb.1.2, hb.2⟩
  obtain ⟨g, hd, hg, hpieces⟩ := numExt_enc pf hpf n hb'.1 form hb'.2.1
  have hd' : ext.decodeNumeric (Spec.encNumeric form n) = .ok g := by rw [hext]; exact hd
  have hpos := encNumeric_pos form n
  generalize hp : Spec.encNumeric form n = p at *
  rw [numBound_eq]
  by_cases hshort : p.length + 1 ≤ 127
  · -- 1-byte header, no padding
    have e1 : boundPad a.length (.num n form) = [] := by simp only [boundPad, hp, hshort, if_true]
    have e2 : encBoundAs .num (.num n form) = UInt8.ofNat ((p.length + 1) * 2 + 1) :: p := by
      simp only [encBoundAs, encBound, encVarlenaBound, hp, hshort, if_true, Spec.varlena1]
    rw [e1, e2]
    simp only [List.nil_append, List.cons_append, List.length_cons]
    have hne : UInt8.ofNat ((p.length + 1) * 2 + 1) ≠ 0 := by
      intro h0
      have := congrArg UInt8.toNat h0
      simp [UInt8.toNat_ofNat'] at this
      omega
    rw [numBoundStart_nz a _ _ hne]
    simp only [ok_bind]
    have hr := Rows.readVarlena_short p rest (by omega)
    rw [show 2 * (p.length + 1) + 1 = (p.length + 1) * 2 + 1 by omega] at hr
    have := numBoundAt_ok ext a (UInt8.ofNat ((p.length + 1) * 2 + 1) :: p) rest fb p g (p.length + 1) (by simp) (by omega)
      (by simpa using hr) hd' hg
    simp only [List.cons_append, List.length_cons] at this
    rw [this, hpieces]
  · -- 4-byte header behind the alignment padding
    have e1 : boundPad a.length (.num n form) = zeros ((4 - a.length % 4) % 4) := by
      simp only [boundPad, hp, hshort, if_false]
    have e2 : encBoundAs .num (.num n form) = le 4 ((p.length + 4) * 4) ++ p := by
      simp only [encBoundAs, encBound, encVarlenaBound, hp, hshort, if_false, Spec.varlena4]
    rw [e1, e2]
    have hst := numBoundStart_pad a (le 4 ((p.length + 4) * 4) ++ p ++ rest ++ [fb])
      (by simp only [List.length_append, le_length]; omega)
    simp only [List.append_assoc] at hst ⊢
    rw [hst]
    simp only [ok_bind]
    have hr := Rows.readVarlena_long ((p.length + 4) * 4) p rest rfl (by omega)
    have := numBoundAt_ok ext (a ++ zeros ((4 - a.length % 4) % 4)) (le 4 ((p.length + 4) * 4) ++ p) rest fb p g
      (p.length + 4) (by simp only [List.length_append, le_length]; omega) (by omega)
      (by simpa [List.append_assoc] using hr) hd' hg
    simp only [List.append_assoc, List.length_append, zeros_length, le_length] at this ⊢
    rw [this, hpieces]
    congr 2
    omega

/-! ### the whole numrange -/

/-- the lower bound starts at offset 8 of the range (4 of its payload): never padded -/
theorem boundPad4 (b : Bound) : boundPad 4 b = [] := by
  cases b with
  | num n form => simp only [boundPad]; split <;> rfl
  | _ => rfl

/-- a well-formed bound of a numrange is a numeric -/
theorem wf_num_bound (b : Bound) (h : b.wf .num = true) : ∃ n form, b = .num n form := by
  cases b with
  | num n form => exact ⟨n, form, rfl⟩
  | int i => simp [Bound.wf] at h
  | date d => simp [Bound.wf] at h
  | ts t => simp [Bound.wf] at h

theorem numBound_lower (ext : Ext) (pf : Model.ParseFloat) (hpf : Spec.ParseFloatOK pf) (hext : ext.decodeNumeric = numExt pf)
    (rest : Bytes) (fb : UInt8) (n : Spec.Numeric) (form : Spec.HeaderForm) (hb : (Bound.num n form).wf .num = true) :
    numBound ext (le 4 3906 ++ (encBoundAs .num (.num n form) ++ (rest ++ [fb]))) 4
      = .ok ([hole n.view.bits], 4 + (encBoundAs .num (.num n form)).length) := by
  have := numBound_enc ext pf hpf hext (le 4 3906) rest fb n form hb
  simpa only [le_length, boundPad4, List.nil_append, List.append_assoc] using this

theorem numBound_upper (ext : Ext) (pf : Model.ParseFloat) (hpf : Spec.ParseFloatOK pf) (hext : ext.decodeNumeric = numExt pf)
    (lower : Bytes) (fb : UInt8) (n : Spec.Numeric) (form : Spec.HeaderForm) (hb : (Bound.num n form).wf .num = true) :
    ∃ o, numBound ext (le 4 3906 ++ (lower ++ (boundPad (4 + lower.length) (.num n form) ++ (encBoundAs .num (.num n form) ++ [fb]))))
      (4 + lower.length) = .ok ([hole n.view.bits], o) := by
  have := numBound_enc ext pf hpf hext (le 4 3906 ++ lower) [] fb n form hb
  simp only [le_length, List.length_append, List.append_nil, List.append_assoc] at this
  exact ⟨_, this⟩

/-- decodeNumericRange on the stored layout of a non-empty numrange, for every flag byte -/
theorem decodeNumericRange_rt (ext : Ext) (pf : Model.ParseFloat) (hpf : Spec.ParseFloatOK pf)
    (hext : ext.decodeNumeric = numExt pf) (flags : Nat) (lo hi : Bound) (h0 : flags.testBit 0 = false)
    (hlo : rangeHasLower flags = true → lo.wf .num = true) (hhi : rangeHasUpper flags = true → hi.wf .num = true) :
    decodeNumericRange ext (enc (.range .num flags lo hi)) flags = .ok (view (.range .num flags lo hi)) := by
  have hL : rangeHasLower flags = !flags.testBit 3 := by simp [rangeHasLower, h0]
  have hU : rangeHasUpper flags = !flags.testBit 4 := by simp [rangeHasUpper, h0]
  show decodeNumericRange ext (le 4 3906 ++ (if rangeHasLower flags then encBoundAs .num lo else []) ++
      (if rangeHasUpper flags then
        boundPad (4 + (if rangeHasLower flags then encBoundAs .num lo else []).length) hi ++ encBoundAs .num hi else []) ++
      [UInt8.ofNat flags]) flags = .ok (fstrS (numRangePieces flags lo hi))
  unfold decodeNumericRange numRangePieces
  simp only [mask2, mask4, mask8, mask16, hL, hU, h0, Bool.false_eq_true, if_false]
  cases h3 : flags.testBit 3 <;> cases h4 : flags.testBit 4
  · -- both bounds present
    obtain ⟨n1, f1, rfl⟩ := wf_num_bound lo (hlo (by simp [hL, h3]))
    obtain ⟨n2, f2, rfl⟩ := wf_num_bound hi (hhi (by simp [hU, h4]))
    have w1 := hlo (by simp [hL, h3])
    have w2 := hhi (by simp [hU, h4])
    simp only [Bool.not_false, if_true, Bool.false_eq_true, if_false, List.append_assoc]
    have r1 := numBound_lower ext pf hpf hext
      (boundPad (4 + (encBoundAs .num (.num n1 f1)).length) (.num n2 f2) ++ encBoundAs .num (.num n2 f2)) (UInt8.ofNat flags) n1 f1 w1
    simp only [List.append_assoc] at r1
    rw [r1]
    simp only [ok_bind]
    obtain ⟨o, r2⟩ := numBound_upper ext pf hpf hext (encBoundAs .num (.num n1 f1)) (UInt8.ofNat flags) n2 f2 w2
    rw [r2]
    simp only [ok_bind, pure_eq_ok, Bound.pieces]
  · -- lower only
    obtain ⟨n1, f1, rfl⟩ := wf_num_bound lo (hlo (by simp [hL, h3]))
    have w1 := hlo (by simp [hL, h3])
    simp only [Bool.not_false, Bool.not_true, if_true, Bool.false_eq_true, if_false, List.append_assoc, List.nil_append]
    have r1 := numBound_lower ext pf hpf hext [] (UInt8.ofNat flags) n1 f1 w1
    simp only [List.nil_append] at r1
    rw [r1]
    simp only [ok_bind, pure_eq_ok, Bound.pieces, List.append_nil, List.nil_append]
  · -- upper only
    obtain ⟨n2, f2, rfl⟩ := wf_num_bound hi (hhi (by simp [hU, h4]))
    have w2 := hhi (by simp [hU, h4])
    simp only [Bool.not_false, Bool.not_true, if_true, Bool.false_eq_true, if_false, List.append_assoc, List.nil_append,
      List.length_nil, Nat.add_zero, ok_bind, pure_eq_ok]
    obtain ⟨o, r2⟩ := numBound_upper ext pf hpf hext [] (UInt8.ofNat flags) n2 f2 w2
    simp only [List.nil_append, List.length_nil, Nat.add_zero] at r2
    rw [r2]
    simp only [ok_bind, pure_eq_ok, Bound.pieces, List.nil_append, List.append_nil]
  · -- no bound
    simp only [Bool.not_true, if_true, Bool.false_eq_true, if_false, ok_bind, pure_eq_ok, List.append_nil, List.nil_append]

end PgVerif.Proofs.ScalarsRT
