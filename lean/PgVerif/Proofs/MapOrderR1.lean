/-
  Helper lemmas for Props/C11Maps: the two functions of areas `control` and `toast` that range over a Go map
  (FindSequences over the pg_class map, GetTOASTVerboseInfo over the value map) give the same result for every
  iteration order; and the models of the code before fixes/control/08 and fixes/toast/05, in which the order leaked.
-/
import PgVerif.Proofs.Sequence
import PgVerif.Proofs.ToastStats
namespace PgVerif.Proofs.MapOrderR1
open PgVerif PgVerif.Model

/-- the environment with the map iteration order replaced by `π` -/
def withOrder (env : SeqEnv) (π : List ClassInfo → List ClassInfo) : SeqEnv := { env with order := π }

/-- the relation loop reads the file system only -/
theorem findSeqLoop_withOrder (env : SeqEnv) (π : List ClassInfo → List ClassInfo) (base : String) (cs : List ClassInfo) :
    findSeqLoop (withOrder env π) base cs = findSeqLoop env base cs := by
  induction cs with
  | nil => rfl
  | cons c t ih =>
    unfold findSeqLoop
    rw [ih]
    rfl

/-- **FindSequences does not depend on the iteration order of the pg_class map** -/
theorem findSequences_order_independent (env : SeqEnv) (π π' : List ClassInfo → List ClassInfo)
    (hπ : ∀ l, (π l).Perm l) (hπ' : ∀ l, (π' l).Perm l)
    (hmap : ∀ data, KeySort.DistinctKeys (fun c : ClassInfo => c.filenode) (env.parseClass data))
    (dir : String) (db : Bytes) :
    findSequences (withOrder env π) dir db = findSequences (withOrder env π') dir db := by
  unfold findSequences
  simp only [withOrder]
  cases env.fs (dir ++ "/global/1262") with
  | none => rfl
  | some dbData =>
    simp only
    refine ite_congr rfl (fun _ => rfl) (fun _ => ?_)
    split
    · rfl
    · rename_i classData h4
      have l1 := findSeqLoop_withOrder env π
      have l2 := findSeqLoop_withOrder env π'
      unfold withOrder at l1 l2
      rw [l1, l2]
      have h1 := seqVisitOrder_eq { env with order := π } (env.parseClass classData) (hπ _) (hmap classData)
      have h2 := seqVisitOrder_eq { env with order := π' } (env.parseClass classData) (hπ' _) (hmap classData)
      rw [h1, h2]

/-- the database loop of ScanAllSequences with every FindSequences call replaced by `f` -/
theorem scanLoop_congr (env env' : SeqEnv) (dir : String)
    (h : ∀ db, findSequences env dir db = findSequences env' dir db) (dbs : List DbInfo) :
    scanLoop env dir dbs = scanLoop env' dir dbs := by
  induction dbs with
  | nil => rfl
  | cons d t ih =>
    unfold scanLoop
    rw [ih, h]

/-! ### the code before fixes/control/08: the loop ran over the map in iteration order -/

/-- FindSequences as written before fixes/control/08 -/
def findSequencesUnsorted (env : SeqEnv) (dataDir : String) (dbName : Bytes) : M (Option (List SequenceData)) := do
  match env.fs (dataDir ++ "/global/1262") with
  | none => return none
  | some dbData =>
    let dbOID := match (env.parseDatabase dbData).find? (·.name == dbName) with
      | some d => d.oid | none => 0
    if dbOID = 0 then return none
    let basePath := dataDir ++ "/base/" ++ toString dbOID
    match env.fs (basePath ++ "/1259") with
    | none => return none
    | some classData => return some (← findSeqLoop env basePath (env.order (env.parseClass classData)))

/-! ### GetTOASTVerboseInfo before fixes/toast/05 -/

open PgVerif.Model.Toast in
/-- `Values` as built before fixes/toast/05: one entry per value in map iteration order -/
def valuesUnsorted (π : GroupOrder) (chunks : List Chunk) : List ValueInfo :=
  (π (chunks.foldl groupInsert [])).map fun g => ⟨g.1, g.2.length, (g.2.map (·.data.length)).sum⟩

end PgVerif.Proofs.MapOrderR1
