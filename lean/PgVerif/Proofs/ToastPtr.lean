/-
  ParseTOASTPointer on the encoding of an external pointer (used by Props/C08).
-/
import PgVerif.Model.Toast
import PgVerif.Spec.Toast
namespace PgVerif.Proofs.Toast
open PgVerif PgVerif.Model.Toast PgVerif.Spec.Toast

theorem le32_at (pre rest : Bytes) (v k : Nat) (hk : k = pre.length) (hv : v < 2 ^ 32) :
    le32 (pre ++ (le 4 v ++ rest)) k = .ok v := by
  subst hk
  unfold le32
  rw [slice_ok _ _ _ (by simp) (by omega)]
  simp only [ok_bind]
  have : ((pre ++ (le 4 v ++ rest)).take (pre.length + 4)).drop pre.length = le 4 v := by
    rw [← List.append_assoc, List.take_append_of_le_length (by simp)]
    rw [List.take_of_length_le (by simp), List.drop_left']
    rfl
  rw [this, uN_ok _ _ _ (by simp)]
  have := rd_le 4 v [] (by omega)
  simpa using this

theorem extinfo_split (ext m : Nat) (he : ext < 2 ^ 30) :
    (ext + 2 ^ 30 * m) &&& 0x3FFFFFFF = ext ∧ (ext + 2 ^ 30 * m) >>> 30 = m := by
  have h1 : ∀ x, x &&& 0x3FFFFFFF = x % 2 ^ 30 := fun x => land_mask x 30
  simp only [h1, Nat.shiftRight_eq_div_pow]
  constructor <;> omega

theorem parseTOASTPointer_enc (p : ExtPtr) (h : p.WF) (trailing : Bytes) :
    parseTOASTPointer (encExtPtr p ++ trailing) =
      .ok (some ⟨p.rawsize, p.extsize, p.valueid, p.toastrelid, p.compressed, p.method⟩) := by
  obtain ⟨h1, h2, h3, h4, h5⟩ := h
  have hlen : (encExtPtr p ++ trailing).length = 18 + trailing.length := by simp [encExtPtr]; omega
  have hei : p.extsize + 2 ^ 30 * p.method < 2 ^ 32 := by omega
  have e : encExtPtr p ++ trailing = [1, 18] ++ (le 4 p.rawsize ++ (le 4 (p.extsize + 2 ^ 30 * p.method) ++
      (le 4 p.valueid ++ (le 4 p.toastrelid ++ trailing)))) := by simp [encExtPtr, List.append_assoc]
  have r2 : le32 (encExtPtr p ++ trailing) 2 = .ok p.rawsize := by
    rw [e]; exact le32_at [1, 18] _ _ 2 rfl h1
  have r6 : le32 (encExtPtr p ++ trailing) (2 + 4) = .ok (p.extsize + 2 ^ 30 * p.method) := by
    rw [e, ← List.append_assoc]; exact le32_at _ _ _ 6 (by simp) hei
  have r10 : le32 (encExtPtr p ++ trailing) (2 + 8) = .ok p.valueid := by
    rw [e, ← List.append_assoc, ← List.append_assoc]; exact le32_at _ _ _ 10 (by simp) h4
  have r14 : le32 (encExtPtr p ++ trailing) (2 + 12) = .ok p.toastrelid := by
    rw [e, ← List.append_assoc, ← List.append_assoc, ← List.append_assoc]; exact le32_at _ _ _ 14 (by simp) h5
  have h0 : idx (encExtPtr p ++ trailing) 0 = .ok 1 := by
    rw [e]; rfl
  obtain ⟨m1, m2⟩ := extinfo_split p.extsize p.method h2
  unfold parseTOASTPointer
  rw [if_neg (by omega)]
  simp only [h0, ok_bind, pure_eq_ok]
  rw [if_neg (by decide), if_neg (by omega)]
  simp only [r2, r6, r10, r14, ok_bind, m1, m2]
  rfl

end PgVerif.Proofs.Toast
