/-
  Round-trip lemmas: the heap model applied to the Spec encoders (used by Props/C02).
-/
import PgVerif.Proofs.Heap
namespace PgVerif.Proofs
open PgVerif PgVerif.Model PgVerif.Spec

/-- what the scanner must produce for a spec tuple, as a model tuple -/
def mtuple (t : Tuple) : HeapTuple :=
  { header := { hoff := t.hoff, natts := t.natts, infomask := t.infomask,
                xminCommitted := t.infomask.testBit 8, xmaxInvalid := t.infomask.testBit 11,
                xmaxCommitted := t.infomask.testBit 10, hasNull := t.hasNull },
    bitmap := if t.hasNull then some (t.mid.take t.bitmapLen) else none,
    data := t.data }

theorem natts_mask (x : Nat) : x &&& 0x07FF = x % 2048 := by
  have := land_mask x 11; simpa using this

/-- the 23 fixed header bytes -/
def fixedHdr (t : Tuple) : Bytes :=
  le 4 t.xmin ++ le 4 t.xmax ++ le 4 t.cid ++ t.ctid ++ le 2 t.infomask2 ++ le 2 t.infomask ++ [UInt8.ofNat t.hoff]

theorem encTuple_split (t : Tuple) : encTuple t = fixedHdr t ++ (t.mid ++ t.data) := by
  simp [encTuple, fixedHdr, List.append_assoc]

theorem fixedHdr_length (t : Tuple) (hc : t.ctid.length = 6) : (fixedHdr t).length = 23 := by
  simp [fixedHdr, hc]

theorem take_drop_mid (H mid data : Bytes) (n bl : Nat) (hH : H.length = n) (hb : bl ≤ mid.length) :
    ((H ++ (mid ++ data)).take (n + bl)).drop n = mid.take bl := by
  subst hH
  rw [List.take_length_add_append, List.drop_left', List.take_append_of_le_length hb]
  rfl

theorem drop_to_data (H mid data : Bytes) (n : Nat) (hH : H.length + mid.length = n) :
    (H ++ (mid ++ data)).drop n = data := by
  rw [← List.append_assoc]; apply List.drop_left'; simp [hH]

theorem parseHeapTuple_enc (t : Tuple) (h : t.WF) : parseHeapTuple (encTuple t) = .ok (some (mtuple t)) := by
  obtain ⟨hc, h2, h1, hh, hb⟩ := h
  have hlen : (encTuple t).length = 23 + t.mid.length + t.data.length := by
    rw [encTuple_length]; simp [Tuple.len, hc]
  have him : rd 2 ((encTuple t).drop 20) = t.infomask := by
    have := rdAt_append' 2 t.infomask 20 (le 4 t.xmin ++ le 4 t.xmax ++ le 4 t.cid ++ t.ctid ++ le 2 t.infomask2)
      ([UInt8.ofNat t.hoff] ++ t.mid ++ t.data) (by simp [hc]) (by simpa using h1)
    simpa [rdAt, encTuple, List.append_assoc] using this
  have him2 : rd 2 ((encTuple t).drop 18) = t.infomask2 := by
    have := rdAt_append' 2 t.infomask2 18 (le 4 t.xmin ++ le 4 t.xmax ++ le 4 t.cid ++ t.ctid)
      (le 2 t.infomask ++ [UInt8.ofNat t.hoff] ++ t.mid ++ t.data) (by simp [hc]) (by simpa using h2)
    simpa [rdAt, encTuple, List.append_assoc] using this
  have hsplit : encTuple t = (le 4 t.xmin ++ le 4 t.xmax ++ le 4 t.cid ++ t.ctid ++ le 2 t.infomask2 ++ le 2 t.infomask) ++
      (UInt8.ofNat t.hoff :: (t.mid ++ t.data)) := by simp [encTuple, List.append_assoc]
  have hpre : (le 4 t.xmin ++ le 4 t.xmax ++ le 4 t.cid ++ t.ctid ++ le 2 t.infomask2 ++ le 2 t.infomask).length = 22 := by
    simp [hc]
  have h22 : (encTuple t)[22]? = some (UInt8.ofNat t.hoff) := by
    rw [hsplit, List.getElem?_append_right (by omega), hpre]; simp
  have hidx : idx (encTuple t) 22 = .ok (UInt8.ofNat t.hoff) := by
    unfold idx; rw [h22]; rfl
  have hoffn : (UInt8.ofNat t.hoff).toNat = t.hoff := by
    simp [UInt8.toNat_ofNat']; omega
  have hH := fixedHdr_length t hc
  have hdrop : (encTuple t).drop t.hoff = t.data := by
    rw [encTuple_split]; exact drop_to_data _ _ _ _ (by simp [hH, Tuple.hoff])
  have hhoff : t.hoff = 23 + t.mid.length := rfl
  have hnull : (t.infomask &&& 0x0001 != 0) = t.hasNull := by
    rw [mask0]; rfl
  unfold parseHeapTuple
  rw [if_neg (by omega)]
  simp (disch := omega) only [uN_ok, ok_bind, pure_eq_ok, hidx, him, him2, hoffn]
  rw [if_neg (by omega)]
  simp (disch := omega) only [sliceFrom_ok, ok_bind, hdrop, hnull, natts_mask, mask8, mask10, mask11]
  cases hn : t.hasNull with
  | false => simp [mtuple, hn, Tuple.natts]
  | true =>
    have hbl := hb hn
    have hbl' : (t.infomask2 % 2048 + 7) / 8 ≤ t.mid.length := hbl
    simp only [if_true]
    rw [if_pos (by omega)]
    simp (disch := omega) only [slice_ok, ok_bind]
    have := take_drop_mid (fixedHdr t) t.mid t.data 23 ((t.infomask2 % 2048 + 7) / 8) hH hbl'
    rw [← encTuple_split] at this
    simp [mtuple, hn, Tuple.natts, Tuple.bitmapLen, this]

end PgVerif.Proofs

namespace PgVerif.Proofs
open PgVerif PgVerif.Model PgVerif.Spec

/-! ### line pointer array -/

theorem decItem_raw (off flags len : Nat) (ho : off < 2 ^ 15) (hf : flags < 4) (hl : len < 2 ^ 15) :
    decItem (off + 2 ^ 15 * flags + 2 ^ 17 * len) = ⟨off, len, flags⟩ := by
  have h1 : ∀ x, x &&& 0x7FFF = x % 2 ^ 15 := fun x => land_mask x 15
  have h3 : ∀ x, x &&& 0x03 = x % 2 ^ 2 := fun x => land_mask x 2
  simp only [decItem, Nat.shiftRight_eq_div_pow, h1, h3]
  congr 1 <;> omega

theorem parseItemsLoop_enc (pre : Bytes) (raws : List Nat) (rest : Bytes) (hr : ∀ r ∈ raws, r < 2 ^ 32)
    (n : Nat) (hn : raws.length ≤ n) :
    parseItemsLoop (pre ++ raws.flatMap (le 4) ++ rest) (pre.length + 4 * raws.length) n pre.length
      = .ok (raws.map decItem) := by
  induction raws generalizing pre n with
  | nil =>
    cases n with
    | zero => simp [parseItemsLoop]
    | succ n => simp [parseItemsLoop]
  | cons r raws ih =>
    cases n with
    | zero => simp at hn
    | succ n =>
      have hr0 : r < 256 ^ 4 := by have := hr r (by simp); omega
      simp only [parseItemsLoop]
      rw [if_pos (by simp)]
      have hu : uN 4 (pre ++ (r :: raws).flatMap (le 4) ++ rest) pre.length = .ok r := by
        rw [uN_ok _ _ _ (by simp)]
        simp only [List.flatMap_cons, List.append_assoc, List.drop_left']
        rw [rd_le _ _ _ hr0]
      rw [hu]
      simp only [ok_bind]
      have := ih (pre ++ le 4 r) (fun x hx => hr x (by simp [hx])) n (by simpa using hn)
      simp only [List.length_append, le_length, List.append_assoc] at this
      simp only [List.flatMap_cons, List.append_assoc, List.length_cons]
      rw [show pre.length + 4 * (raws.length + 1) = pre.length + 4 + 4 * raws.length by omega, this]
      rfl

/-! ### the page -/

def lpRaw (p : Page) : LP → Nat
  | .normal k => p.slotOff k + 2 ^ 15 * 1 + 2 ^ 17 * (p.slots.getD k default).2.len
  | .other off flags len => off + 2 ^ 15 * flags + 2 ^ 17 * len

theorem encLP_eq (p : Page) (l : LP) : p.encLP l = le 4 (lpRaw p l) := by
  cases l <;> rfl

def pageHdr (p : Page) : Bytes :=
  p.hdr0 ++ le 2 p.lower ++ le 2 p.upper ++ le 2 p.special ++ le 2 (8192 + p.version) ++ le 4 p.prune

theorem encPage_split (p : Page) :
    encPage p = pageHdr p ++ (p.lps.map (lpRaw p)).flatMap (le 4) ++ (p.free ++ p.slots.flatMap slotBytes ++ p.tail) := by
  simp only [encPage, pageHdr, List.append_assoc, List.flatMap_map]
  congr; funext l; exact encLP_eq p l

theorem pageHdr_length (p : Page) (h : p.hdr0.length = 12) : (pageHdr p).length = 24 := by
  simp [pageHdr, h]

theorem flatMap_le4_length (rs : List Nat) : (rs.flatMap (le 4)).length = 4 * rs.length := by
  induction rs with
  | nil => rfl
  | cons r rs ih => simp [ih]; omega

theorem slots_length (ss : List (Bytes × Tuple)) : (ss.flatMap slotBytes).length = (ss.map slotLen).sum := by
  induction ss with
  | nil => rfl
  | cons s ss ih => simp [ih, slotBytes_length]

theorem encPage_length (p : Page) (h : p.WF) : (encPage p).length = 8192 := by
  obtain ⟨h0, _, _, _, _, _, _, hsum, _⟩ := h
  rw [encPage_split]
  simp only [List.length_append, pageHdr_length p h0, flatMap_le4_length, List.length_map, slots_length]
  simp only [Page.upper, Page.lower] at hsum
  omega

theorem sum_take_le (xs : List Nat) (k : Nat) : (xs.take k).sum ≤ xs.sum := by
  induction xs generalizing k with
  | nil => simp
  | cons x xs ih =>
    cases k with
    | zero => simp
    | succ k => simp only [List.take_succ_cons, List.sum_cons]; have := ih k; omega

theorem sum_split_at (xs : List Nat) (k : Nat) (hk : k < xs.length) :
    (xs.take k).sum + xs[k] + (xs.drop (k + 1)).sum = xs.sum := by
  induction xs generalizing k with
  | nil => simp at hk
  | cons x xs ih =>
    cases k with
    | zero => simp
    | succ k =>
      simp only [List.take_succ_cons, List.sum_cons, List.getElem_cons_succ, List.drop_succ_cons]
      have := ih k (by simpa using hk)
      omega

theorem flatMap_split_at {α β} (f : α → List β) (xs : List α) (k : Nat) (hk : k < xs.length) :
    xs.flatMap f = (xs.take k).flatMap f ++ (f xs[k] ++ (xs.drop (k + 1)).flatMap f) := by
  induction xs generalizing k with
  | nil => simp at hk
  | cons x xs ih =>
    cases k with
    | zero => simp
    | succ k =>
      simp only [List.take_succ_cons, List.flatMap_cons, List.getElem_cons_succ, List.drop_succ_cons, List.append_assoc]
      rw [ih k (by simpa using hk)]

/-- slot `k` sits at `slotOff k`, entirely inside the page and not below pd_upper -/
theorem slot_bounds (p : Page) (h : p.WF) (k : Nat) (hk : k < p.slots.length) :
    p.upper ≤ p.slotOff k ∧ p.slotOff k + (p.slots.getD k default).2.len ≤ 8192 := by
  obtain ⟨_, _, _, _, _, _, _, hsum, _⟩ := h
  have hs := sum_split_at (p.slots.map slotLen) k (by simpa using hk)
  have hg : (p.slots.getD k default) = p.slots[k] := by simp [List.getD, hk]
  simp only [List.getElem_map, ← List.map_take] at hs
  unfold Page.slotOff
  rw [hg]
  simp only [slotLen] at hs ⊢
  constructor
  · omega
  · omega

theorem slot_slice (p : Page) (h : p.WF) (k : Nat) (hk : k < p.slots.length) :
    slice (encPage p) (p.slotOff k) (p.slotOff k + (p.slots.getD k default).2.len)
      = .ok (encTuple (p.slots.getD k default).2) := by
  have hb := slot_bounds p h k hk
  have hlen := encPage_length p h
  obtain ⟨h0, _, _, _, _, _, _, hsum, _⟩ := h
  have hg : (p.slots.getD k default) = p.slots[k] := by simp [List.getD, hk]
  rw [slice_ok _ _ _ (by omega) (by omega)]
  -- encPage = PRE ++ encTuple ++ POST with PRE.length = slotOff k
  have hfm : p.slots.flatMap slotBytes =
      (p.slots.take k).flatMap slotBytes ++ (p.slots[k].1 ++ (encTuple p.slots[k].2 ++ (p.slots.drop (k + 1)).flatMap slotBytes)) := by
    rw [flatMap_split_at slotBytes p.slots k hk]; simp [slotBytes, List.append_assoc]
  obtain ⟨PRE, hPRE⟩ : ∃ PRE, PRE =
      pageHdr p ++ (p.lps.map (lpRaw p)).flatMap (le 4) ++ p.free ++ (p.slots.take k).flatMap slotBytes ++ p.slots[k].1 := ⟨_, rfl⟩
  have e : encPage p = PRE ++ (encTuple p.slots[k].2 ++ ((p.slots.drop (k + 1)).flatMap slotBytes ++ p.tail)) := by
    rw [encPage_split, hfm, hPRE]
    simp only [List.append_assoc]
  have hpre : PRE.length = p.slotOff k := by
    rw [hPRE]
    simp only [List.length_append, pageHdr_length p h0, flatMap_le4_length, List.length_map, slots_length]
    unfold Page.slotOff Page.upper Page.lower
    rw [hg]
  rw [hg, e, ← hpre, ← encTuple_length, List.take_length_add_append, List.drop_left' rfl]
  simp

end PgVerif.Proofs

namespace PgVerif.Proofs
open PgVerif PgVerif.Model PgVerif.Spec

theorem psv_fields (v : Nat) (h1 : 1 ≤ v) (h2 : v ≤ 10) :
    (8192 + v) &&& 0xFF00 = 8192 ∧ (8192 + v) &&& 0x00FF = v := by
  have : v = 1 ∨ v = 2 ∨ v = 3 ∨ v = 4 ∨ v = 5 ∨ v = 6 ∨ v = 7 ∨ v = 8 ∨ v = 9 ∨ v = 10 := by omega
  rcases this with rfl | rfl | rfl | rfl | rfl | rfl | rfl | rfl | rfl | rfl <;> decide

theorem upper_le (p : Page) (h : p.WF) : p.upper ≤ 8192 := by
  obtain ⟨_, _, _, _, _, _, _, hsum, _⟩ := h; omega

theorem parseHeader_enc (p : Page) (h : p.WF) :
    parseHeader (encPage p) = .ok ⟨p.lower, p.upper, 8192, p.version⟩ := by
  have hlen := encPage_length p h
  have hup := upper_le p h
  obtain ⟨h0, hsp, hv1, hv2, hpr, _, _, hsum, _⟩ := h
  have hlow : p.lower ≤ p.upper := by simp [Page.upper]
  have e : encPage p = p.hdr0 ++ (le 2 p.lower ++ (le 2 p.upper ++ (le 2 p.special ++ (le 2 (8192 + p.version) ++
      (le 4 p.prune ++ (p.lps.flatMap p.encLP ++ p.free ++ p.slots.flatMap slotBytes ++ p.tail)))))) := by
    simp [encPage, List.append_assoc]
  have r12 : rd 2 ((encPage p).drop 12) = p.lower := by
    rw [e]; exact rdAt_append' 2 p.lower 12 p.hdr0 _ h0.symm (by omega)
  have r14 : rd 2 ((encPage p).drop 14) = p.upper := by
    have := rdAt_append' 2 p.upper 14 (p.hdr0 ++ le 2 p.lower) (le 2 p.special ++ (le 2 (8192 + p.version) ++
      (le 4 p.prune ++ (p.lps.flatMap p.encLP ++ p.free ++ p.slots.flatMap slotBytes ++ p.tail)))) (by simp [h0]) (by omega)
    rw [e]; simpa [rdAt, List.append_assoc] using this
  have r18 : rd 2 ((encPage p).drop 18) = 8192 + p.version := by
    have := rdAt_append' 2 (8192 + p.version) 18 (p.hdr0 ++ le 2 p.lower ++ le 2 p.upper ++ le 2 p.special)
      (le 4 p.prune ++ (p.lps.flatMap p.encLP ++ p.free ++ p.slots.flatMap slotBytes ++ p.tail)) (by simp [h0]) (by omega)
    rw [e]; simpa [rdAt, List.append_assoc] using this
  obtain ⟨hps, hvv⟩ := psv_fields p.version hv1 hv2
  unfold parseHeader
  simp (disch := omega) only [uN_ok, ok_bind, pure_eq_ok, r12, r14, r18, hps, hvv]

theorem validHeader_enc (p : Page) (h : p.WF) : validHeader ⟨p.lower, p.upper, 8192, p.version⟩ = true := by
  have hup := upper_le p h
  obtain ⟨_, _, hv1, hv2, _, _, _, _⟩ := h
  have hlow : p.lower ≤ p.upper := by simp [Page.upper]
  have h24 : 24 ≤ p.lower := by simp [Page.lower]
  simp [validHeader, hv1, hv2, hlow, h24, hup]

theorem lpRaw_lt (p : Page) (h : p.WF) (l : LP) (hl : l ∈ p.lps) : lpRaw p l < 2 ^ 32 := by
  have hw := h.2.2.2.2.2.1 l hl
  cases l with
  | normal k =>
    have := slot_bounds p h k hw
    simp only [lpRaw]; omega
  | other off flags len =>
    obtain ⟨h1, h2, h3, _⟩ := hw
    simp only [lpRaw]; omega

theorem itemCount_lower (n : Nat) : itemCount (24 + 4 * n) = n := by
  unfold itemCount; omega

theorem parseItems_enc (p : Page) (h : p.WF) :
    parseItems (encPage p) p.lower = .ok (p.lps.map fun l => decItem (lpRaw p l)) := by
  have h0 := h.1
  unfold parseItems
  rw [encPage_split]
  have := parseItemsLoop_enc (pageHdr p) (p.lps.map (lpRaw p)) (p.free ++ p.slots.flatMap slotBytes ++ p.tail)
    (by intro r hr; simp only [List.mem_map] at hr; obtain ⟨l, hl, rfl⟩ := hr; exact lpRaw_lt p h l hl)
    (itemCount p.lower) (by simp [Page.lower, itemCount_lower])
  simp only [pageHdr_length p h0, List.length_map, List.map_map] at this
  exact this

/-- the tuple (if any) a pointer contributes to the scan -/
def lpTuple (p : Page) : LP → Option Tuple
  | .normal k => (p.slots[k]?).map (·.2)
  | .other .. => none

theorem tuple_len_pos (t : Tuple) : 0 < t.len := by unfold Tuple.len; omega

theorem pageItem_enc (p : Page) (h : p.WF) (l : LP) (hl : l ∈ p.lps) :
    pageItem (encPage p) p.upper (decItem (lpRaw p l)) = .ok ((lpTuple p l).map mtuple) := by
  have hw := h.2.2.2.2.2.1 l hl
  cases l with
  | normal k =>
    have hk : k < p.slots.length := hw
    have hb := slot_bounds p h k hk
    have hlp := tuple_len_pos (p.slots.getD k default).2
    have hs := slot_slice p h k hk
    have hwf : (p.slots.getD k default).2.WF := by
      have hg : (p.slots.getD k default) = p.slots[k] := by simp [List.getD, hk]
      rw [hg]; exact h.2.2.2.2.2.2.1 _ (List.getElem_mem hk)
    have hres : (lpTuple p (.normal k)).map mtuple = some (mtuple (p.slots.getD k default).2) := by
      simp [lpTuple, hk, List.getD]
    rw [hres]
    simp only [lpRaw]
    generalize (p.slots.getD k default).2 = T at *
    generalize p.slotOff k = O at *
    rw [decItem_raw _ _ _ (by omega) (by omega) (by omega)]
    unfold pageItem
    have c1 : ((1 : Nat) != 1 || T.len == 0) = false := by
      have : T.len ≠ 0 := by omega
      simp [this]
    have c2 : (decide (O < p.upper) || decide (O + T.len > 8192)) = false := by
      have a : ¬ O < p.upper := by omega
      have b : ¬ O + T.len > 8192 := by omega
      simp [a, b]
    simp only [c1, c2, Bool.false_eq_true, if_false, hs, ok_bind]
    exact parseHeapTuple_enc T hwf
  | other off flags len =>
    obtain ⟨h1, h2, h3, h4⟩ := hw
    simp only [lpRaw]
    rw [decItem_raw _ _ _ h1 h3 h2]
    unfold pageItem
    have : (flags != 1) = true := by simp [h4]
    simp [this, lpTuple]

theorem collectM_map_ok {α β} (f : α → M (Option β)) (g : α → Option β) (xs : List α)
    (h : ∀ x ∈ xs, f x = .ok (g x)) : collectM f xs = .ok (xs.filterMap g) := by
  induction xs with
  | nil => rfl
  | cons x xs ih =>
    simp only [collectM, h x (by simp), ok_bind, ih (fun y hy => h y (by simp [hy])), pure_eq_ok, List.filterMap_cons]
    cases g x <;> rfl

theorem collectM_map {α β γ} (f : β → M (Option γ)) (g : α → β) (xs : List α) :
    collectM f (xs.map g) = collectM (fun x => f (g x)) xs := by
  induction xs with
  | nil => rfl
  | cons x xs ih => simp only [List.map_cons, collectM, ih]

theorem normalTuples_eq (p : Page) : p.normalTuples = p.lps.filterMap (lpTuple p) := by
  unfold Page.normalTuples
  congr

/-! ### the overlap guard of ParsePage never fires on a well-formed page -/

theorem sum_take_mono (xs : List Nat) (j k : Nat) (h : j ≤ k) : (xs.take j).sum ≤ (xs.take k).sum := by
  have : xs.take j = (xs.take k).take j := by rw [List.take_take, Nat.min_eq_left h]
  rw [this]; exact sum_take_le _ _

/-- slot `k`'s tuple ends where the first `k + 1` slots end -/
theorem slot_end (p : Page) (k : Nat) (hk : k < p.slots.length) :
    p.slotOff k + (p.slots.getD k default).2.len = p.upper + ((p.slots.map slotLen).take (k + 1)).sum := by
  have hg : (p.slots.getD k default) = p.slots[k] := by simp [List.getD, hk]
  have hk' : k < (p.slots.map slotLen).length := by simpa using hk
  have ht : (p.slots.map slotLen).take (k + 1) = (p.slots.map slotLen).take k ++ [slotLen p.slots[k]] := by
    rw [List.take_succ_eq_append_getElem hk', List.getElem_map]
  unfold Page.slotOff
  rw [ht, hg, List.sum_append, List.map_take]
  simp only [slotLen, List.sum_cons, List.sum_nil]
  omega

/-- slots are laid out consecutively: the storage of an earlier slot ends before the tuple of a later slot begins -/
theorem slot_before (p : Page) (j k : Nat) (hjk : j < k) (hk : k < p.slots.length) :
    p.slotOff j + (p.slots.getD j default).2.len ≤ p.slotOff k := by
  rw [slot_end p j (by omega)]
  have := sum_take_mono (p.slots.map slotLen) (j + 1) k (by omega)
  unfold Page.slotOff
  rw [List.map_take]
  omega

/-- the storage of the tuples of two different slots does not overlap -/
theorem slot_disjoint (p : Page) (j k : Nat) (hne : j ≠ k) (hj : j < p.slots.length) (hk : k < p.slots.length) :
    p.slotOff j + (p.slots.getD j default).2.len ≤ p.slotOff k ∨
    p.slotOff k + (p.slots.getD k default).2.len ≤ p.slotOff j := by
  by_cases hlt : j < k
  · exact Or.inl (slot_before p j k hlt hk)
  · exact Or.inr (slot_before p k j (by omega) hj)

/-- pointers `normal 0 … normal (n−1)` (one per slot, in slot order — what every page builder of the other areas
produces) name pairwise distinct slots -/
theorem normalSlots_nodup_of_range (p : Page) (n : Nat) (h : p.lps = (List.range n).map LP.normal) :
    p.normalSlots.Nodup := by
  have : p.normalSlots = List.range n := by
    unfold Page.normalSlots
    rw [h, List.filterMap_map]
    have hf : (LP.slot? ∘ LP.normal) = some := by funext k; rfl
    rw [hf, List.filterMap_some]
  rw [this]
  exact List.nodup_range

/-- the pointer `l` of a well-formed page as ParsePage sees it -/
theorem decItem_lpRaw (p : Page) (h : p.WF) (l : LP) (hl : l ∈ p.lps) :
    decItem (lpRaw p l) = match l with
      | .normal k => ⟨p.slotOff k, (p.slots.getD k default).2.len, 1⟩
      | .other off flags len => ⟨off, len, flags⟩ := by
  have hw := h.2.2.2.2.2.1 l hl
  cases l with
  | normal k =>
    have hb := slot_bounds p h k hw
    simp only [lpRaw]
    rw [decItem_raw _ _ _ (by omega) (by omega) (by omega)]
  | other off flags len =>
    obtain ⟨h1, h2, h3, _⟩ := hw
    simp only [lpRaw]
    rw [decItem_raw _ _ _ h1 h3 h2]

/-- **On a well-formed page no two NORMAL pointers share storage** (they name distinct slots, and slots are laid out
consecutively), so ParsePage's overlap guard never fires. -/
theorem items_no_overlap (p : Page) (h : p.WF) :
    (p.lps.map fun l => decItem (lpRaw p l)).Pairwise (fun a b => a.flags = 1 → b.flags = 1 → b.overlaps a = false) := by
  have hnd : p.normalSlots.Nodup := h.2.2.2.2.2.2.2.2
  unfold Page.normalSlots at hnd
  rw [List.Nodup, List.pairwise_filterMap] at hnd
  rw [List.pairwise_map]
  refine List.Pairwise.imp_of_mem ?_ hnd
  intro l1 l2 hl1 hl2 hne h1 h2
  rw [decItem_lpRaw p h l1 hl1] at h1 ⊢
  rw [decItem_lpRaw p h l2 hl2] at h2 ⊢
  have hw1 := h.2.2.2.2.2.1 l1 hl1
  have hw2 := h.2.2.2.2.2.1 l2 hl2
  cases l1 with
  | other o1 f1 n1 => exact absurd h1 hw1.2.2.2
  | normal j =>
    cases l2 with
    | other o2 f2 n2 => exact absurd h2 hw2.2.2.2
    | normal k =>
      have hjk : j ≠ k := hne j rfl k rfl
      rw [overlaps_false_iff]
      exact slot_disjoint p j k hjk hw1 hw2

/-- ParsePage on the encoding of a well-formed page returns exactly the tuples behind NORMAL pointers, in pointer order -/
theorem parsePage_enc (p : Page) (h : p.WF) :
    parsePage (encPage p) = .ok (p.normalTuples.map mtuple) := by
  unfold parsePage
  rw [if_neg (by rw [encPage_length p h]; omega), parseHeader_enc p h]
  simp only [ok_bind, validHeader_enc p h, Bool.not_true, Bool.false_eq_true, if_false, parseItems_enc p h]
  rw [pageLoop_eq_collectM _ _ _ [] (fun _ _ _ => overlapsAny_nil _) (items_no_overlap p h)]
  rw [collectM_map, collectM_map_ok _ (fun l => (lpTuple p l).map mtuple) _ (fun l hl => pageItem_enc p h l hl),
    normalTuples_eq, List.map_filterMap]

theorem rd_zeros (n k : Nat) : rd n (zeros k) = 0 := by
  induction n generalizing k with
  | zero => rfl
  | succ n ih =>
    cases k with
    | zero => rfl
    | succ k =>
      have : zeros (k + 1) = 0 :: zeros k := rfl
      rw [this]; simp only [rd]; rw [ih]; rfl

theorem drop_zeros (n k : Nat) : (zeros k).drop n = zeros (k - n) := by
  simp [zeros]

theorem parsePage_zero : parsePage (zeros 8192) = .ok [] := by
  unfold parsePage
  rw [if_neg (by simp)]
  unfold parseHeader
  simp (disch := simp) only [uN_ok, drop_zeros, rd_zeros, ok_bind, pure_eq_ok]
  rfl

end PgVerif.Proofs
