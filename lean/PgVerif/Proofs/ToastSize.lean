/-
  C10, resource clause, area toast — how large the result of the decompressors and of ReassembleTOAST can get
  (helper lemmas for Props/C10/Toast.lean).  For ARBITRARY bytes (no well-formedness):

    copy loop          never grows the result beyond max(len(result), rawSize), appends at most n bytes
    decompressPGLZ     result ≤ rawSize;  result ≤ 91 · len(stream)   (273 bytes per 3-byte tag: the format's ratio)
    decompressLZ4      result ≤ rawSize + len(stream)      (literals are appended without looking at rawSize)
                       result ≤ 255 · len(stream)          (the ratio the LZ4 block format can reach)
    ReassembleTOAST    result ≤ 255 · len(concatenated chunks) for EVERY pointer, and ≤ (va_rawsize − 4) + len(chunks),
                       given that the zlib fallback honours the limit it is given (`ZlibBounded`, io.LimitReader's
                       contract; the limit is min(va_rawsize − 4, 255 · len) since fixes toast/20 + /22)
    fuel / budget      the iteration budgets of the two loops are never what ends them (`decompressB_eq`, `loopB_eq`)
-/
import PgVerif.Proofs.ToastTotal
namespace PgVerif.Proofs.ToastSize
open PgVerif PgVerif.Model PgVerif.Model.Toast

open PgVerif.Model.Pglz in
theorem copyLoopM_len (s o raw : Nat) : ∀ (n i : Nat) (out r : Bytes), copyLoopM s o raw n i out = .ok r →
    r.length ≤ max out.length raw
  | 0, _, out, r, h => by
    simp only [copyLoopM, pure_eq_ok, Except.ok.injEq] at h; subst h; omega
  | n+1, i, out, r, h => by
    simp only [copyLoopM] at h
    by_cases hc : out.length < raw
    · rw [if_pos hc] at h
      by_cases ho : o = 0
      · rw [if_pos ho] at h; cases h
      · rw [if_neg ho] at h
        cases hb : idx out (s + i % o) with
        | error e => rw [hb] at h; cases h
        | ok b =>
          rw [hb] at h
          simp only [ok_bind] at h
          have := copyLoopM_len s o raw n (i + 1) (out ++ [b]) r h
          simp only [List.length_append, List.length_singleton] at this
          omega
    · rw [if_neg hc] at h
      simp only [pure_eq_ok, Except.ok.injEq] at h; subst h; omega

open PgVerif.Model.Pglz in
/-- the copy loop appends at most `n` bytes -/
theorem copyLoopM_grow (s o raw : Nat) : ∀ (n i : Nat) (out r : Bytes), copyLoopM s o raw n i out = .ok r →
    r.length ≤ out.length + n
  | 0, _, out, r, h => by
    simp only [copyLoopM, pure_eq_ok, Except.ok.injEq] at h; subst h; omega
  | n+1, i, out, r, h => by
    simp only [copyLoopM] at h
    by_cases hc : out.length < raw
    · rw [if_pos hc] at h
      by_cases ho : o = 0
      · rw [if_pos ho] at h; cases h
      · rw [if_neg ho] at h
        cases hb : idx out (s + i % o) with
        | error e => rw [hb] at h; cases h
        | ok b =>
          rw [hb] at h
          simp only [ok_bind] at h
          have := copyLoopM_grow s o raw n (i + 1) (out ++ [b]) r h
          simp only [List.length_append, List.length_singleton] at this
          omega
    · rw [if_neg hc] at h
      simp only [pure_eq_ok, Except.ok.injEq] at h; subst h; omega

open PgVerif.Model.Pglz in
/-- the inner loop of decompressPGLZ: the result stays within max(len(result), rawSize) and the input only shrinks -/
theorem items_len (raw : Nat) : ∀ (n ctrl bit : Nat) (data out d' o' : Bytes),
    items raw n ctrl bit data out = .ok (d', o') → o'.length ≤ max out.length raw ∧ d'.length ≤ data.length
  | 0, _, _, data, out, d', o', h => by
    simp only [items, pure_eq_ok, Except.ok.injEq, Prod.mk.injEq] at h
    obtain ⟨h1, h2⟩ := h; subst h1; subst h2; omega
  | n+1, ctrl, bit, data, out, d', o', h => by
    simp only [items] at h
    by_cases hc : data = [] ∨ ¬ out.length < raw
    · rw [if_pos hc] at h
      simp only [pure_eq_ok, Except.ok.injEq, Prod.mk.injEq] at h
      obtain ⟨h1, h2⟩ := h; subst h1; subst h2; omega
    · rw [if_neg hc] at h
      have hlt : out.length < raw := by
        apply Classical.byContradiction; intro hn; exact hc (Or.inr hn)
      by_cases ht : ctrl.testBit bit = true
      · rw [if_pos ht] at h
        rcases data with _ | ⟨b0, _ | ⟨b1, rest⟩⟩
        · simp only [pure_eq_ok, Except.ok.injEq, Prod.mk.injEq] at h
          obtain ⟨h1, h2⟩ := h; subst h1; subst h2; simp; omega
        · simp only [pure_eq_ok, Except.ok.injEq, Prod.mk.injEq] at h
          obtain ⟨h1, h2⟩ := h; subst h1; subst h2; simp; omega
        · simp only [] at h
          by_cases h18 : decLen b0 = 18
          · rw [if_pos h18] at h
            rcases rest with _ | ⟨b2, r2⟩
            · simp only [pure_eq_ok, Except.ok.injEq, Prod.mk.injEq] at h
              obtain ⟨h1, h2⟩ := h; subst h1; subst h2; simp; omega
            · simp only [] at h
              by_cases hoff : decOff b0 b1 = 0 ∨ decOff b0 b1 > out.length
              · rw [if_pos hoff] at h
                have := items_len raw n ctrl (bit + 1) r2 out d' o' h
                simp only [List.length_cons] at this ⊢; omega
              · rw [if_neg hoff] at h
                cases hcp : copyLoopM (out.length - decOff b0 b1) (decOff b0 b1) raw (decLen b0 + b2.toNat) 0 out with
                | error e => rw [hcp] at h; cases h
                | ok out2 =>
                  rw [hcp] at h
                  simp only [ok_bind] at h
                  have h1 := copyLoopM_len _ _ _ _ _ _ _ hcp
                  have := items_len raw n ctrl (bit + 1) r2 out2 d' o' h
                  simp only [List.length_cons] at this ⊢; omega
          · rw [if_neg h18] at h
            by_cases hoff : decOff b0 b1 = 0 ∨ decOff b0 b1 > out.length
            · rw [if_pos hoff] at h
              have := items_len raw n ctrl (bit + 1) rest out d' o' h
              simp only [List.length_cons] at this ⊢; omega
            · rw [if_neg hoff] at h
              cases hcp : copyLoopM (out.length - decOff b0 b1) (decOff b0 b1) raw (decLen b0) 0 out with
              | error e => rw [hcp] at h; cases h
              | ok out2 =>
                rw [hcp] at h
                simp only [ok_bind] at h
                have h1 := copyLoopM_len _ _ _ _ _ _ _ hcp
                have := items_len raw n ctrl (bit + 1) rest out2 d' o' h
                simp only [List.length_cons] at this ⊢; omega
      · rw [if_neg ht] at h
        rcases data with _ | ⟨b, rest⟩
        · simp only [pure_eq_ok, Except.ok.injEq, Prod.mk.injEq] at h
          obtain ⟨h1, h2⟩ := h; subst h1; subst h2; simp; omega
        · simp only [] at h
          have := items_len raw n ctrl (bit + 1) rest (out ++ [b]) d' o' h
          simp only [List.length_append, List.length_cons, List.length_nil] at this ⊢; omega

open PgVerif.Model.Pglz in
theorem decompress_len (raw : Nat) : ∀ (f : Nat) (data out r : Bytes), decompress raw f data out = .ok r →
    r.length ≤ max out.length raw
  | 0, _, out, r, h => by
    simp only [decompress, pure_eq_ok, Except.ok.injEq] at h; subst h; omega
  | f+1, data, out, r, h => by
    simp only [decompress] at h
    by_cases hc : data = [] ∨ ¬ out.length < raw
    · rw [if_pos hc] at h
      simp only [pure_eq_ok, Except.ok.injEq] at h; subst h; omega
    · rw [if_neg hc] at h
      rcases data with _ | ⟨ctrl, rest⟩
      · simp only [pure_eq_ok, Except.ok.injEq] at h; subst h; omega
      · simp only [] at h
        cases hi : items raw 8 ctrl.toNat 0 rest out with
        | error e => rw [hi] at h; cases h
        | ok p =>
          obtain ⟨d', o'⟩ := p
          rw [hi] at h
          simp only [ok_bind] at h
          have h1 := (items_len raw 8 ctrl.toNat 0 rest out d' o' hi).1
          have := decompress_len raw f d' o' r h
          omega

/-- decompressPGLZ never returns more than `rawSize` bytes, whatever the stream -/
theorem decompressPGLZ_len (data : Bytes) (raw : Nat) (d : Bytes) (h : Pglz.decompressPGLZ data raw = .ok (some d)) :
    d.length ≤ raw := by
  unfold Pglz.decompressPGLZ at h
  by_cases h4 : data.length < 4
  · rw [if_pos h4] at h; cases h
  · rw [if_neg h4] at h
    cases hd : Pglz.decompress raw (data.length + 1) data [] with
    | error e => rw [hd] at h; cases h
    | ok r =>
      rw [hd] at h
      simp only [ok_bind, pure_eq_ok, Except.ok.injEq, Option.some.injEq] at h
      subst h
      have := decompress_len raw _ data [] r hd
      simpa using this

theorem decLen_le (b0 : UInt8) : Pglz.decLen b0 ≤ 18 := by
  unfold Pglz.decLen
  have : b0.toNat &&& 0x0F ≤ 15 := Nat.and_le_right
  omega

open PgVerif.Model.Pglz in
/-- the inner loop of decompressPGLZ in terms of the INPUT: every item pays for what it produces at no more than 91 output
bytes per stream byte (a 3-byte tag yields at most 18 + 255 = 273 bytes, a 2-byte tag at most 17, a literal 1) -/
theorem items_ratio (raw : Nat) : ∀ (n ctrl bit : Nat) (data out d' o' : Bytes),
    items raw n ctrl bit data out = .ok (d', o') → o'.length + 91 * d'.length ≤ out.length + 91 * data.length
  | 0, _, _, data, out, d', o', h => by
    simp only [items, pure_eq_ok, Except.ok.injEq, Prod.mk.injEq] at h
    obtain ⟨h1, h2⟩ := h; subst h1; subst h2; first | omega | (simp <;> omega)
  | n+1, ctrl, bit, data, out, d', o', h => by
    simp only [items] at h
    by_cases hc : data = [] ∨ ¬ out.length < raw
    · rw [if_pos hc] at h
      simp only [pure_eq_ok, Except.ok.injEq, Prod.mk.injEq] at h
      obtain ⟨h1, h2⟩ := h; subst h1; subst h2; first | omega | (simp <;> omega)
    · rw [if_neg hc] at h
      by_cases ht : ctrl.testBit bit = true
      · rw [if_pos ht] at h
        rcases data with _ | ⟨b0, _ | ⟨b1, rest⟩⟩
        · simp only [pure_eq_ok, Except.ok.injEq, Prod.mk.injEq] at h
          obtain ⟨h1, h2⟩ := h; subst h1; subst h2; first | omega | (simp <;> omega)
        · simp only [pure_eq_ok, Except.ok.injEq, Prod.mk.injEq] at h
          obtain ⟨h1, h2⟩ := h; subst h1; subst h2; first | omega | (simp <;> omega)
        · simp only [] at h
          have hdl := decLen_le b0
          by_cases h18 : decLen b0 = 18
          · rw [if_pos h18] at h
            rcases rest with _ | ⟨b2, r2⟩
            · simp only [pure_eq_ok, Except.ok.injEq, Prod.mk.injEq] at h
              obtain ⟨h1, h2⟩ := h; subst h1; subst h2; first | omega | (simp <;> omega)
            · simp only [] at h
              have hb2 : b2.toNat < 256 := b2.toNat_lt
              by_cases hoff : decOff b0 b1 = 0 ∨ decOff b0 b1 > out.length
              · rw [if_pos hoff] at h
                have := items_ratio raw n ctrl (bit + 1) r2 out d' o' h
                simp only [List.length_cons] at this ⊢; omega
              · rw [if_neg hoff] at h
                cases hcp : copyLoopM (out.length - decOff b0 b1) (decOff b0 b1) raw (decLen b0 + b2.toNat) 0 out with
                | error e => rw [hcp] at h; cases h
                | ok out2 =>
                  rw [hcp] at h
                  simp only [ok_bind] at h
                  have h1 := copyLoopM_grow _ _ _ _ _ _ _ hcp
                  have := items_ratio raw n ctrl (bit + 1) r2 out2 d' o' h
                  simp only [List.length_cons] at this ⊢; omega
          · rw [if_neg h18] at h
            by_cases hoff : decOff b0 b1 = 0 ∨ decOff b0 b1 > out.length
            · rw [if_pos hoff] at h
              have := items_ratio raw n ctrl (bit + 1) rest out d' o' h
              simp only [List.length_cons] at this ⊢; omega
            · rw [if_neg hoff] at h
              cases hcp : copyLoopM (out.length - decOff b0 b1) (decOff b0 b1) raw (decLen b0) 0 out with
              | error e => rw [hcp] at h; cases h
              | ok out2 =>
                rw [hcp] at h
                simp only [ok_bind] at h
                have h1 := copyLoopM_grow _ _ _ _ _ _ _ hcp
                have := items_ratio raw n ctrl (bit + 1) rest out2 d' o' h
                simp only [List.length_cons] at this ⊢; omega
      · rw [if_neg ht] at h
        rcases data with _ | ⟨b, rest⟩
        · simp only [pure_eq_ok, Except.ok.injEq, Prod.mk.injEq] at h
          obtain ⟨h1, h2⟩ := h; subst h1; subst h2; first | omega | (simp <;> omega)
        · simp only [] at h
          have := items_ratio raw n ctrl (bit + 1) rest (out ++ [b]) d' o' h
          simp only [List.length_append, List.length_cons, List.length_nil] at this ⊢; omega

open PgVerif.Model.Pglz in
theorem decompress_ratio (raw : Nat) : ∀ (f : Nat) (data out r : Bytes), decompress raw f data out = .ok r →
    r.length ≤ out.length + 91 * data.length
  | 0, _, out, r, h => by
    simp only [decompress, pure_eq_ok, Except.ok.injEq] at h; subst h; omega
  | f+1, data, out, r, h => by
    simp only [decompress] at h
    by_cases hc : data = [] ∨ ¬ out.length < raw
    · rw [if_pos hc] at h
      simp only [pure_eq_ok, Except.ok.injEq] at h; subst h; omega
    · rw [if_neg hc] at h
      rcases data with _ | ⟨ctrl, rest⟩
      · simp only [pure_eq_ok, Except.ok.injEq] at h; subst h; omega
      · simp only [] at h
        cases hi : items raw 8 ctrl.toNat 0 rest out with
        | error e => rw [hi] at h; cases h
        | ok p =>
          obtain ⟨d', o'⟩ := p
          rw [hi] at h
          simp only [ok_bind] at h
          have h1 := items_ratio raw 8 ctrl.toNat 0 rest out d' o' hi
          have := decompress_ratio raw f d' o' r h
          simp only [List.length_cons]
          omega

/-- decompressPGLZ never returns more than 91 bytes per stream byte, whatever the stream and whatever raw size the pointer
claims: a bound in the INPUT size (273 bytes is the most a 3-byte tag produces) -/
theorem decompressPGLZ_ratio (data : Bytes) (raw : Nat) (d : Bytes) (h : Pglz.decompressPGLZ data raw = .ok (some d)) :
    d.length ≤ 91 * data.length := by
  unfold Pglz.decompressPGLZ at h
  by_cases h4 : data.length < 4
  · rw [if_pos h4] at h; cases h
  · rw [if_neg h4] at h
    cases hd : Pglz.decompress raw (data.length + 1) data [] with
    | error e => rw [hd] at h; cases h
    | ok r =>
      rw [hd] at h
      simp only [ok_bind, pure_eq_ok, Except.ok.injEq, Option.some.injEq] at h
      subst h
      have := decompress_ratio raw _ data [] r hd
      simpa using this

/-! ### LZ4 -/

open PgVerif.Model.Lz4 in
/-- a length extension adds at most 255 per byte it consumes, and never lengthens the input -/
theorem readExt_bound : ∀ (d : Bytes) (acc : Nat),
    (readExt d acc).2.length ≤ d.length ∧ (readExt d acc).1 + 255 * (readExt d acc).2.length ≤ acc + 255 * d.length
  | [], acc => by simp [readExt]
  | b :: rest, acc => by
    simp only [readExt]
    by_cases hb : (b.toNat != 255) = true
    · rw [if_pos hb]
      have : b.toNat < 256 := b.toNat_lt
      simp only [List.length_cons]; omega
    · rw [if_neg hb]
      have := readExt_bound rest (acc + 255)
      simp only [List.length_cons]; omega

open PgVerif.Model.Lz4 PgVerif.Model.Pglz in
/-- the LZ4 loop, arbitrary bytes: the result is bounded by max(len(result), rawSize) + len(stream) — literals are copied
without looking at rawSize, matches stop at rawSize — and by len(result) + 255·len(stream), the ratio the format reaches -/
theorem loop_len (raw : Nat) : ∀ (f : Nat) (data out r : Bytes), loop raw f data out = .ok (some r) →
    r.length ≤ max out.length raw + data.length ∧ r.length ≤ out.length + 255 * data.length
  | 0, _, out, r, h => by
    simp only [loop, pure_eq_ok, Except.ok.injEq, Option.some.injEq] at h; subst h; omega
  | f+1, data, out, r, h => by
    simp only [loop] at h
    by_cases hc : data = [] ∨ ¬ out.length < raw
    · rw [if_pos hc] at h
      simp only [pure_eq_ok, Except.ok.injEq, Option.some.injEq] at h; subst h; omega
    · rw [if_neg hc] at h
      rcases data with _ | ⟨token, d1⟩
      · simp only [pure_eq_ok, Except.ok.injEq, Option.some.injEq] at h; subst h; simp; omega
      · simp only [] at h
        generalize hr : (if token.toNat >>> 4 = 15 then readExt d1 15 else (token.toNat >>> 4, d1)) = rr at h
        have hd2 : rr.2.length ≤ d1.length := by
          by_cases h15 : token.toNat >>> 4 = 15
          · rw [if_pos h15] at hr; rw [← hr]; exact (readExt_bound d1 15).1
          · rw [if_neg h15] at hr; rw [← hr]; exact Nat.le_refl _
        generalize hl : (if rr.1 > rr.2.length then rr.2.length else rr.1) = litLen at h
        have hlit : litLen ≤ rr.2.length := by rw [← hl]; split <;> omega
        have htk : (rr.2.take litLen).length = litLen := by simp [List.length_take]; omega
        have hdr : (rr.2.drop litLen).length = rr.2.length - litLen := by simp
        by_cases hc2 : rr.2.drop litLen = [] ∨ (out ++ rr.2.take litLen).length ≥ raw
        · rw [if_pos hc2] at h
          simp only [pure_eq_ok, Except.ok.injEq, Option.some.injEq] at h; subst h
          simp only [List.length_append, List.length_cons, htk]; omega
        · rw [if_neg hc2] at h
          rcases hd : rr.2.drop litLen with _ | ⟨o0, _ | ⟨o1, d4⟩⟩
          · rw [hd] at h
            simp only [pure_eq_ok, Except.ok.injEq, Option.some.injEq] at h; subst h
            simp only [List.length_append, List.length_cons, htk]; omega
          · rw [hd] at h
            simp only [pure_eq_ok, Except.ok.injEq, Option.some.injEq] at h; subst h
            simp only [List.length_append, List.length_cons, htk]; omega
          · rw [hd] at h
            simp only [] at h
            have hd4 : d4.length + 2 = rr.2.length - litLen := by rw [← hdr, hd]; simp
            by_cases hz : o0.toNat ||| o1.toNat <<< 8 = 0
            · rw [if_pos hz] at h; cases h
            · rw [if_neg hz] at h
              generalize hr2 : (if (token.toNat &&& 0x0F) + 4 = 19 then readExt d4 19 else ((token.toNat &&& 0x0F) + 4, d4)) = r2 at h
              have hnib : token.toNat &&& 0x0F ≤ 15 := Nat.and_le_right
              have hr2b : r2.2.length ≤ d4.length ∧ r2.1 + 255 * r2.2.length ≤ 19 + 255 * d4.length := by
                by_cases h19 : (token.toNat &&& 0x0F) + 4 = 19
                · rw [if_pos h19] at hr2; rw [← hr2]; exact readExt_bound d4 19
                · rw [if_neg h19] at hr2; rw [← hr2]; simp only; omega
              by_cases hoff : o0.toNat ||| o1.toNat <<< 8 > (out ++ rr.2.take litLen).length
              · rw [if_pos hoff] at h; cases h
              · rw [if_neg hoff] at h
                cases hcp : copyLoopM ((out ++ rr.2.take litLen).length - (o0.toNat ||| o1.toNat <<< 8))
                    (o0.toNat ||| o1.toNat <<< 8) raw r2.1 0 (out ++ rr.2.take litLen) with
                | error e => rw [hcp] at h; cases h
                | ok out2 =>
                  rw [hcp] at h
                  simp only [ok_bind] at h
                  have h1 := copyLoopM_len _ _ _ _ _ _ _ hcp
                  have h2 := copyLoopM_grow _ _ _ _ _ _ _ hcp
                  have ih := loop_len raw f r2.2 out2 r h
                  simp only [List.length_append, List.length_cons, htk] at h1 h2 ih ⊢
                  omega

/-- decompressLZ4, arbitrary bytes: at most rawSize + len(stream) bytes, and at most 255·len(stream) -/
theorem decompressLZ4_len (data : Bytes) (raw : Nat) (d : Bytes) (h : Lz4.decompressLZ4 data raw = .ok (some d)) :
    d.length ≤ raw + data.length ∧ d.length ≤ 255 * data.length := by
  unfold Lz4.decompressLZ4 at h
  by_cases h1 : data.length < 1
  · rw [if_pos h1] at h; cases h
  · rw [if_neg h1] at h
    have := loop_len raw _ data [] d h
    simpa using this

/-! ### ReassembleTOAST -/

/-- the decompression branch: never more than (va_rawsize − 4) + len(data) bytes, and — whatever raw size the pointer
claims — never more than 255 bytes per stored byte, given a zlib fallback that honours its limit -/
theorem decompressStored_len (zlib : Bytes → Nat → Option Bytes) (hz : ZlibBounded zlib) (p : Ptr) (data r : Bytes)
    (h4 : 4 ≤ data.length) (h : decompressStored zlib p data = .ok r) :
    r.length ≤ (p.rawSize - 4) + data.length ∧ r.length ≤ 255 * data.length := by
  unfold decompressStored at h
  rw [sliceFrom_ok _ _ h4] at h
  simp only [ok_bind] at h
  have hfall : ∀ r : Bytes, (match zlib data (min (p.rawSize - 4) (255 * data.length)) with | some z => (pure z : M Bytes) | none => pure data) = .ok r →
      r.length ≤ (p.rawSize - 4) + data.length ∧ r.length ≤ 255 * data.length := by
    intro r hr
    cases hzl : zlib data (min (p.rawSize - 4) (255 * data.length)) with
    | some z =>
      rw [hzl] at hr
      simp only [pure_eq_ok, Except.ok.injEq] at hr; subst hr
      have := hz _ _ _ hzl; omega
    | none =>
      rw [hzl] at hr
      simp only [pure_eq_ok, Except.ok.injEq] at hr; subst hr; omega
  have hpg : ∀ r : Bytes, (do
        let viaPglz ← Pglz.decompressPGLZ (data.drop 4) (p.rawSize - 4)
        match viaPglz with
        | some d =>
          if d.length > 0 then (pure d : M Bytes)
          else match zlib data (min (p.rawSize - 4) (255 * data.length)) with
            | some z => pure z
            | none => pure data
        | none =>
          match zlib data (min (p.rawSize - 4) (255 * data.length)) with
          | some z => pure z
          | none => pure data) = .ok r → r.length ≤ (p.rawSize - 4) + data.length ∧ r.length ≤ 255 * data.length := by
    intro r hr
    cases hb : Pglz.decompressPGLZ (data.drop 4) (p.rawSize - 4) with
    | error e => rw [hb] at hr; cases hr
    | ok b =>
      rw [hb] at hr
      simp only [ok_bind] at hr
      cases b with
      | some d =>
        simp only [] at hr
        by_cases hd : d.length > 0
        · rw [if_pos hd] at hr
          simp only [pure_eq_ok, Except.ok.injEq] at hr; subst hr
          have := decompressPGLZ_len _ _ _ hb
          have h91 := decompressPGLZ_ratio _ _ _ hb
          simp only [List.length_drop] at h91; omega
        · rw [if_neg hd] at hr; exact hfall r hr
      | none => exact hfall r hr
  by_cases hm : (p.method == 1) = true
  · rw [if_pos hm] at h
    cases ha : Lz4.decompressLZ4 (data.drop 4) (p.rawSize - 4) with
    | error e => rw [ha] at h; cases h
    | ok a =>
      rw [ha] at h
      simp only [ok_bind] at h
      cases a with
      | some d =>
        simp only [pure_eq_ok, Except.ok.injEq] at h; subst h
        have := decompressLZ4_len _ _ _ ha
        simp only [List.length_drop] at this; omega
      | none => exact hpg r h
  · rw [if_neg hm] at h
    simp only [pure_eq_ok, ok_bind] at h
    exact hpg r h

theorem flatMap_length_perm {α} (f : α → Bytes) {l₁ l₂ : List α} (h : l₁.Perm l₂) :
    (l₁.flatMap f).length = (l₂.flatMap f).length := by
  induction h with
  | nil => rfl
  | cons x _ ih => simp only [List.flatMap_cons, List.length_append, ih]
  | swap x y l => simp only [List.flatMap_cons, List.length_append]; omega
  | trans _ _ ih1 ih2 => rw [ih1, ih2]

/-- the bytes ReassembleTOAST has in hand for value `valueID`: the data of that value's chunks -/
def chunkBytes (chunks : List Chunk) (valueID : Nat) : Nat := ((chunks.filter (·.id == valueID)).flatMap (·.data)).length

/-- ReassembleTOAST, arbitrary chunks and pointer: the result is never longer than the chunk bytes of the value plus
(for a compressed pointer) va_rawsize − 4, and never longer than 255 times the chunk bytes of the value (a bound in the
input alone: va_rawsize is 4 bytes of the pointer the caller hands in) -/
theorem reassembleTOAST_len (zlib : Bytes → Nat → Option Bytes) (hz : ZlibBounded zlib) (chunks : List Chunk) (valueID : Nat)
    (ptr : Option Ptr) (r : Bytes) (h : reassembleTOAST zlib chunks valueID ptr = .ok (some r)) :
    r.length ≤ (match ptr with | some p => p.rawSize - 4 | none => 0) + chunkBytes chunks valueID ∧
    r.length ≤ 255 * chunkBytes chunks valueID := by
  unfold reassembleTOAST at h
  simp only [pure_eq_ok] at h
  have hperm : (List.flatMap (·.data) ((chunks.filter (·.id == valueID)).mergeSort fun a b => decide (a.seq ≤ b.seq))).length
      = chunkBytes chunks valueID := flatMap_length_perm _ (List.mergeSort_perm _ _)
  by_cases h0 : (chunks.filter (·.id == valueID)).length = 0
  · rw [if_pos h0] at h; cases h
  · rw [if_neg h0] at h
    cases ptr with
    | none =>
      simp only [] at h
      split at h
      · cases h
      · simp only [Except.ok.injEq, Option.some.injEq] at h; subst h; rw [hperm]; omega
    | some p =>
      simp only [] at h
      by_cases hc : (p.isCompressed && decide ((List.flatMap (·.data)
          ((chunks.filter (·.id == valueID)).mergeSort fun a b => decide (a.seq ≤ b.seq))).length > 4) && decide (p.rawSize ≥ 4)) = true
      · rw [if_pos hc] at h
        simp only [Bool.and_eq_true, decide_eq_true_eq] at hc
        cases hd : decompressStored zlib p (List.flatMap (·.data)
            ((chunks.filter (·.id == valueID)).mergeSort fun a b => decide (a.seq ≤ b.seq))) with
        | error e => rw [hd] at h; cases h
        | ok d =>
          rw [hd] at h
          simp only [ok_bind, Except.ok.injEq, Option.some.injEq] at h; subst h
          have := decompressStored_len zlib hz p _ _ (by omega) hd
          rw [hperm] at this; exact this
      · rw [if_neg hc] at h
        split at h
        · cases h
        · simp only [Except.ok.injEq, Option.some.injEq] at h; subst h; rw [hperm]; omega

/-! ### fuel: the iteration budgets of the two decompressor models are never exhausted

The models run their main loops with `len(stream) + 1` iterations of fuel and RETURN the result so far when the fuel is
used up, so a totality theorem alone would also hold for a loop that never ends in Go.  These lemmas close that gap: every
iteration consumes at least one input byte, hence any two budgets above `len(stream)` give the same answer — the fuel
branch is dead code and the Go loops terminate within `len(stream)` iterations. -/

open PgVerif.Model.Pglz in
theorem decompress_fuel (raw : Nat) : ∀ (f g : Nat) (data out : Bytes), data.length < f → data.length < g →
    decompress raw f data out = decompress raw g data out
  | 0, _, _, _, hf, _ => by omega
  | _+1, 0, _, _, _, hg => by omega
  | f+1, g+1, data, out, hf, hg => by
    simp only [decompress]
    by_cases hc : data = [] ∨ ¬ out.length < raw
    · rw [if_pos hc, if_pos hc]
    · rw [if_neg hc, if_neg hc]
      rcases data with _ | ⟨ctrl, rest⟩
      · rfl
      · simp only []
        cases hi : items raw 8 ctrl.toNat 0 rest out with
        | error e => rfl
        | ok p =>
          simp only [ok_bind]
          have := (items_len raw 8 ctrl.toNat 0 rest out p.1 p.2 hi).2
          simp only [List.length_cons] at hf hg
          exact decompress_fuel raw f g p.1 p.2 (by omega) (by omega)

open PgVerif.Model.Lz4 PgVerif.Model.Pglz in
theorem loop_fuel (raw : Nat) : ∀ (f g : Nat) (data out : Bytes), data.length < f → data.length < g →
    loop raw f data out = loop raw g data out
  | 0, _, _, _, hf, _ => by omega
  | _+1, 0, _, _, _, hg => by omega
  | f+1, g+1, data, out, hf, hg => by
    simp only [loop]
    by_cases hc : data = [] ∨ ¬ out.length < raw
    · rw [if_pos hc, if_pos hc]
    · rw [if_neg hc, if_neg hc]
      rcases data with _ | ⟨token, d1⟩
      · rfl
      · simp only []
        generalize hr : (if token.toNat >>> 4 = 15 then readExt d1 15 else (token.toNat >>> 4, d1)) = rr
        have hd2 : rr.2.length ≤ d1.length := by
          by_cases h15 : token.toNat >>> 4 = 15
          · rw [if_pos h15] at hr; rw [← hr]; exact (readExt_bound d1 15).1
          · rw [if_neg h15] at hr; rw [← hr]; exact Nat.le_refl _
        generalize hl : (if rr.1 > rr.2.length then rr.2.length else rr.1) = litLen
        have hdr : (rr.2.drop litLen).length ≤ rr.2.length := by simp
        by_cases hc2 : rr.2.drop litLen = [] ∨ (out ++ rr.2.take litLen).length ≥ raw
        · rw [if_pos hc2, if_pos hc2]
        · rw [if_neg hc2, if_neg hc2]
          rcases hd : rr.2.drop litLen with _ | ⟨o0, _ | ⟨o1, d4⟩⟩
          · rfl
          · rfl
          · simp only []
            have hd4 : d4.length + 2 ≤ rr.2.length := by rw [hd] at hdr; simpa using hdr
            by_cases hz : o0.toNat ||| o1.toNat <<< 8 = 0
            · rw [if_pos hz, if_pos hz]
            · rw [if_neg hz, if_neg hz]
              generalize hr2 : (if (token.toNat &&& 0x0F) + 4 = 19 then readExt d4 19 else ((token.toNat &&& 0x0F) + 4, d4)) = r2
              have hr2b : r2.2.length ≤ d4.length := by
                by_cases h19 : (token.toNat &&& 0x0F) + 4 = 19
                · rw [if_pos h19] at hr2; rw [← hr2]; exact (readExt_bound d4 19).1
                · rw [if_neg h19] at hr2; rw [← hr2]; exact Nat.le_refl _
              by_cases hoff : o0.toNat ||| o1.toNat <<< 8 > (out ++ rr.2.take litLen).length
              · rw [if_pos hoff, if_pos hoff]
              · rw [if_neg hoff, if_neg hoff]
                simp only [List.length_cons] at hf hg
                have e : (fun o => loop raw f r2.2 o) = (fun o => loop raw g r2.2 o) :=
                  funext fun o => loop_fuel raw f g r2.2 o (by omega) (by omega)
                exact congrArg (fun k => copyLoopM _ _ raw r2.1 0 (out ++ rr.2.take litLen) >>= k) e

open PgVerif.Model.Pglz in
/-- the budget is never what ends the pglz loop: with more iterations allowed than the stream has bytes, the model that
FAULTS on an exhausted budget agrees with the one that returns -/
theorem decompressB_eq (raw : Nat) : ∀ (f : Nat) (data out : Bytes), data.length < f →
    decompressB raw f data out = decompress raw f data out
  | 0, _, _, hf => by omega
  | f+1, data, out, hf => by
    simp only [decompressB, decompress]
    by_cases hc : data = [] ∨ ¬ out.length < raw
    · rw [if_pos hc, if_pos hc]
    · rw [if_neg hc, if_neg hc]
      rcases data with _ | ⟨ctrl, rest⟩
      · rfl
      · simp only []
        cases hi : items raw 8 ctrl.toNat 0 rest out with
        | error e => rfl
        | ok p =>
          simp only [ok_bind]
          have := (items_len raw 8 ctrl.toNat 0 rest out p.1 p.2 hi).2
          simp only [List.length_cons] at hf
          exact decompressB_eq raw f p.1 p.2 (by omega)

open PgVerif.Model.Lz4 PgVerif.Model.Pglz in
theorem loopB_eq (raw : Nat) : ∀ (f : Nat) (data out : Bytes), data.length < f →
    loopB raw f data out = loop raw f data out
  | 0, _, _, hf => by omega
  | f+1, data, out, hf => by
    simp only [loopB, loop]
    by_cases hc : data = [] ∨ ¬ out.length < raw
    · rw [if_pos hc, if_pos hc]
    · rw [if_neg hc, if_neg hc]
      rcases data with _ | ⟨token, d1⟩
      · rfl
      · simp only []
        generalize hr : (if token.toNat >>> 4 = 15 then readExt d1 15 else (token.toNat >>> 4, d1)) = rr
        have hd2 : rr.2.length ≤ d1.length := by
          by_cases h15 : token.toNat >>> 4 = 15
          · rw [if_pos h15] at hr; rw [← hr]; exact (readExt_bound d1 15).1
          · rw [if_neg h15] at hr; rw [← hr]; exact Nat.le_refl _
        generalize hl : (if rr.1 > rr.2.length then rr.2.length else rr.1) = litLen
        have hdr : (rr.2.drop litLen).length ≤ rr.2.length := by simp
        by_cases hc2 : rr.2.drop litLen = [] ∨ (out ++ rr.2.take litLen).length ≥ raw
        · rw [if_pos hc2, if_pos hc2]
        · rw [if_neg hc2, if_neg hc2]
          rcases hd : rr.2.drop litLen with _ | ⟨o0, _ | ⟨o1, d4⟩⟩
          · rfl
          · rfl
          · simp only []
            have hd4 : d4.length + 2 ≤ rr.2.length := by rw [hd] at hdr; simpa using hdr
            by_cases hz : o0.toNat ||| o1.toNat <<< 8 = 0
            · rw [if_pos hz, if_pos hz]
            · rw [if_neg hz, if_neg hz]
              generalize hr2 : (if (token.toNat &&& 0x0F) + 4 = 19 then readExt d4 19 else ((token.toNat &&& 0x0F) + 4, d4)) = r2
              have hr2b : r2.2.length ≤ d4.length := by
                by_cases h19 : (token.toNat &&& 0x0F) + 4 = 19
                · rw [if_pos h19] at hr2; rw [← hr2]; exact (readExt_bound d4 19).1
                · rw [if_neg h19] at hr2; rw [← hr2]; exact Nat.le_refl _
              by_cases hoff : o0.toNat ||| o1.toNat <<< 8 > (out ++ rr.2.take litLen).length
              · rw [if_pos hoff, if_pos hoff]
              · rw [if_neg hoff, if_neg hoff]
                simp only [List.length_cons] at hf
                have e : (fun o => loopB raw f r2.2 o) = (fun o => loop raw f r2.2 o) :=
                  funext fun o => loopB_eq raw f r2.2 o (by omega)
                exact congrArg (fun k => copyLoopM _ _ raw r2.1 0 (out ++ rr.2.take litLen) >>= k) e

/-- decompressPGLZ runs its loop to the end: the loop that faults when `len(stream)+1` iterations do not bring the Go loop
condition to false gives the same answer as the model -/
theorem decompressPGLZ_strict (data : Bytes) (raw : Nat) (h4 : ¬ data.length < 4) :
    Pglz.decompressPGLZ data raw = (do let r ← Pglz.decompressB raw (data.length + 1) data []; pure (some r)) := by
  unfold Pglz.decompressPGLZ
  rw [if_neg h4, decompressB_eq raw (data.length + 1) data [] (by omega)]

theorem decompressLZ4_strict (data : Bytes) (raw : Nat) (h1 : ¬ data.length < 1) :
    Lz4.decompressLZ4 data raw = Lz4.loopB raw (data.length + 1) data [] := by
  unfold Lz4.decompressLZ4
  rw [if_neg h1, loopB_eq raw (data.length + 1) data [] (by omega)]

/-- decompressPGLZ: any iteration budget above the stream length gives the model's answer — the fuel is never the reason
the loop stops -/
theorem decompressPGLZ_fuel (data : Bytes) (raw g : Nat) (hg : data.length < g) (h4 : ¬ data.length < 4) :
    Pglz.decompressPGLZ data raw = (do let r ← Pglz.decompress raw g data []; pure (some r)) := by
  unfold Pglz.decompressPGLZ
  rw [if_neg h4, decompress_fuel raw (data.length + 1) g data [] (by omega) hg]

/-- decompressLZ4 likewise -/
theorem decompressLZ4_fuel (data : Bytes) (raw g : Nat) (hg : data.length < g) (h1 : ¬ data.length < 1) :
    Lz4.decompressLZ4 data raw = Lz4.loop raw g data [] := by
  unfold Lz4.decompressLZ4
  rw [if_neg h1, loop_fuel raw (data.length + 1) g data [] (by omega) hg]

end PgVerif.Proofs.ToastSize
