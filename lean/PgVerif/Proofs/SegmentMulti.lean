/-
  segment.go: ReadMultiSegmentFile / ListSegments / ReadSegmentBlock / GlobalBlockToSegment —
  totality of the multi-segment loop (no division by zero, no index fault, fuel never exhausted) and
  its meaning against the PostgreSQL segment layout of Spec/Block.lean.
-/
import PgVerif.Proofs.Block
namespace PgVerif.Proofs.SegmentMulti
open PgVerif PgVerif.Model

/-! ## PART 1 — totality -/

theorem goDiv_ok (a b : Int) (h : b ≠ 0) : goDiv a b = .ok (Int.tdiv a b) := by
  unfold goDiv; rw [if_neg h]; rfl

theorem goMod_ok (a b : Int) (h : b ≠ 0) : goMod a b = .ok (Int.tmod a b) := by
  unfold goMod; rw [if_neg h]; rfl

/-- `segments[i]` is fine for `0 ≤ i < len(segments)` -/
theorem segAt_ok (segments : List SegmentInfo) (i : Int) (h0 : 0 ≤ i) (h1 : i < segments.length) :
    ∃ s, segments[i.toNat]? = some s ∧ segAt segments i = .ok s := by
  have hlt : i.toNat < segments.length := by omega
  refine ⟨segments[i.toNat], List.getElem?_eq_getElem hlt, ?_⟩
  unfold segAt
  rw [if_neg (by omega), List.getElem?_eq_getElem hlt]; rfl

/-- a non-negative block whose segment index is inside the list lies below `len · bps` -/
theorem lt_of_tdiv_lt (g bps len : Int) (hb : 0 < bps) (hg : 0 ≤ g) (h : g.tdiv bps < len) : g < len * bps := by
  rw [Int.tdiv_eq_ediv_of_nonneg hg] at h
  exact Int.lt_mul_of_ediv_lt hb h

/-- the loop never faults and never runs out of fuel when started with
`fuel > len(segments)·bps − blockNum` -/
theorem multiLoop_total (fs : SegFS) (segments : List SegmentInfo) (bps stop : Int) (opts : Option SegmentOptions)
    (hb : 0 < bps) :
    ∀ (fuel : Nat) (blockNum : Int), 0 ≤ blockNum →
      ((segments.length : Int) * bps - blockNum).toNat + 1 ≤ fuel →
      ∃ r, multiLoop fs segments bps stop opts fuel blockNum = .ok r := by
  intro fuel
  induction fuel with
  | zero => intro g _ hf; omega
  | succ fuel ih =>
    intro g hg hf
    unfold multiLoop
    by_cases hs : g ≤ stop
    · rw [if_pos hs, goDiv_ok g bps (by omega), goMod_ok g bps (by omega)]
      simp only [ok_bind]
      by_cases hlen : g.tdiv bps ≥ (segments.length : Int)
      · rw [if_pos hlen]; exact ⟨_, rfl⟩
      · rw [if_neg hlen]
        have h0 : 0 ≤ g.tdiv bps := Int.tdiv_nonneg hg (by omega)
        obtain ⟨s, _, hs'⟩ := segAt_ok segments (g.tdiv bps) h0 (by omega)
        rw [hs']
        simp only [ok_bind]
        split
        · exact ⟨_, rfl⟩
        · have hlt : g < (segments.length : Int) * bps := lt_of_tdiv_lt g bps _ hb hg (by omega)
          obtain ⟨r, hr⟩ := ih (g + 1) (by omega) (by omega)
          rw [hr]; exact ⟨_, rfl⟩
    · rw [if_neg hs]; exact ⟨_, rfl⟩

/-- ReadMultiSegmentFile returns (a value or an error) for every file system, every pair of block
numbers and every option value: it never panics and the loop terminates within its budget -/
theorem readMultiSegmentFile_total (fs : SegFS) (a b : Int) (opts : Option SegmentOptions) :
    ∃ r, readMultiSegmentFile fs a b opts = .ok r := by
  unfold readMultiSegmentFile
  simp only []
  generalize Int.tdiv _ 8192 = bps
  by_cases he : (listSegments fs).isEmpty = true
  · rw [if_pos he]; exact ⟨_, rfl⟩
  · rw [if_neg he]
    by_cases hb : bps ≤ 0
    · rw [if_pos hb]; exact ⟨_, rfl⟩
    · rw [if_neg hb]
      by_cases ha : a < 0
      · rw [if_pos ha]; exact ⟨_, rfl⟩
      · rw [if_neg ha]
        obtain ⟨r, hr⟩ := multiLoop_total fs (listSegments fs) bps b opts (Int.not_le.mp hb) _ a (by omega)
          (Nat.le_succ _)
        rw [hr]; exact ⟨_, rfl⟩

theorem globalBlockToSegment_total (g sz : Int) : ∃ r, globalBlockToSegment g sz = .ok r := by
  unfold globalBlockToSegment
  have hpos : (if sz < 8192 then defaultSegmentSize else sz).tdiv 8192 ≠ 0 := by
    have h1 : (8192 : Int) ≤ (if sz < 8192 then defaultSegmentSize else sz) := by
      split
      · unfold defaultSegmentSize; omega
      · omega
    rw [Int.tdiv_eq_ediv_of_nonneg (by omega)]
    omega
  simp only []
  rw [goDiv_ok _ _ hpos, goMod_ok _ _ hpos]
  exact ⟨_, rfl⟩

/-! ## PART 2 — ListSegments -/

/-- the entry ListSegments makes for the file `base.<i>` (`base` for i = 0) with contents `f` -/
def segEntry (i : Nat) (f : Bytes) : SegmentInfo :=
  ⟨i, (i : Int), defaultSegmentSize, f.length, f.length / 8192, (i : Int) * defaultSegmentSize⟩

theorem file_map_some (files : List Bytes) (i : Nat) : SegFS.file (files.map some) i = files[i]? := by
  unfold SegFS.file
  rw [List.getElem?_map]
  cases files[i]? <;> rfl

/-- all files present: the probe loop lists `base.i, base.(i+1), …` until the iteration budget or the
files run out -/
theorem listMore_all (files : List Bytes) :
    ∀ (n i : Nat), listMore (files.map some) n i =
      (List.range' i (min n (files.length - i))).map fun j => segEntry j (files[j]?.getD []) := by
  intro n
  induction n with
  | zero => intro i; simp [listMore]
  | succ n ih =>
    intro i
    unfold listMore
    rw [file_map_some]
    by_cases hi : i < files.length
    · rw [List.getElem?_eq_getElem hi]
      simp only []
      rw [ih (i + 1), show min (n + 1) (files.length - i) = min n (files.length - (i + 1)) + 1 by omega,
        List.range'_succ, List.map_cons, List.getElem?_eq_getElem hi]
      rfl
    · rw [List.getElem?_eq_none (by omega), show min (n + 1) (files.length - i) = 0 by omega]
      rfl

/-- ListSegments on a relation whose segment files `base, base.1, …, base.(len−1)` all exist
(at most 1000 of them: the probe loop stops at `base.999`) -/
theorem listSegments_all (files : List Bytes) (h0 : 0 < files.length) (h1 : files.length ≤ 1000) :
    listSegments (files.map some) =
      (List.range files.length).map fun i => segEntry i (files[i]?.getD []) := by
  unfold listSegments
  rw [file_map_some, listMore_all, List.getElem?_eq_getElem h0,
    show min 999 (files.length - 1) = files.length - 1 by omega, List.range_eq_range',
    show files.length = (files.length - 1) + 1 by omega, List.range'_succ, List.map_cons,
    List.getElem?_eq_getElem (by omega)]
  simp only [segEntry, List.singleton_append, Option.getD_some, Int.natCast_zero, Int.zero_mul,
    Nat.zero_add, Nat.add_sub_cancel]

/-- the probe loop stops at the first missing file: with `base.k` missing (and `base.i … base.(k−1)`
present) it lists exactly `base.i … ` up to `k−1` or the budget, whatever exists beyond the gap -/
theorem listMore_gap (fs : SegFS) (k : Nat) (hk : fs.file k = none) :
    ∀ (n i : Nat), i ≤ k → (∀ j, i ≤ j → j < k → fs.file j ≠ none) →
      (listMore fs n i).map (·.path) = List.range' i (min n (k - i)) := by
  intro n
  induction n with
  | zero => intro i _ _; simp [listMore]
  | succ n ih =>
    intro i hik hp
    unfold listMore
    by_cases hi : i = k
    · subst hi; rw [hk, show min (n + 1) (i - i) = 0 by omega]; rfl
    · have := hp i (Nat.le_refl _) (by omega)
      split
      · contradiction
      · rw [List.map_cons, ih (i + 1) (by omega) (fun j h1 h2 => hp j (by omega) h2),
          show min (n + 1) (k - i) = min n (k - (i + 1)) + 1 by omega, List.range'_succ]

/-- ListSegments never looks past a gap: `base.1 … base.(k−1)` are listed, nothing from `base.k` on -/
theorem listSegments_gap (fs : SegFS) (k : Nat) (h1 : 1 ≤ k) (hk : fs.file k = none)
    (hp : ∀ j, 1 ≤ j → j < k → fs.file j ≠ none) :
    (listMore fs 999 1).map (·.path) = List.range' 1 (min 999 (k - 1)) ∧
    (listMore fs 999 1).length = min 999 (k - 1) := by
  have h := listMore_gap fs k hk 999 1 h1 hp
  refine ⟨h, ?_⟩
  have := congrArg List.length h
  simpa using this

/-! ## PART 3 — addressing against the PostgreSQL segment layout -/

open PgVerif.Spec.BlockAddr PgVerif.Proofs.Block

theorem wrap64_small (v : Int) (h0 : 0 ≤ v) (h1 : v < 2 ^ 63) : wrap64 v = v := by
  unfold wrap64 ofSigned toSigned
  simp only [Nat.reducePow, Nat.reduceSub] at *
  omega

/-- the segment files of a relation, all present -/
def relFS (rel : Relation) : SegFS := rel.map fun f => some (encFile f)

theorem relFS_eq (rel : Relation) : relFS rel = (rel.map encFile).map some := by
  unfold relFS; rw [List.map_map]; rfl

theorem relFS_file (rel : Relation) (i : Nat) (hi : i < rel.length) :
    SegFS.file (relFS rel) i = some (encFile rel[i]) := by
  rw [relFS_eq, file_map_some, List.getElem?_map, List.getElem?_eq_getElem hi]; rfl

/-- block `n` of an encoded file: the 8192 bytes at offset `8192·n` -/
theorem encFile_block (f : RelFile) (hf : f.WF) (n : Nat) (hn : n < f.blocks.length) :
    ((encFile f).drop (n * 8192)).take 8192 = encBlock f.blocks[n] := by
  unfold encFile
  rw [drop_blocks f.blocks hf.1 f.tail n (by omega), List.drop_eq_getElem_cons hn, List.flatMap_cons,
    List.append_assoc]
  have hb := encBlock_length f.blocks[n] (hf.1 _ (List.getElem_mem hn))
  have := List.take_length_add_append (l₁ := encBlock f.blocks[n])
    (l₂ := (f.blocks.drop (n + 1)).flatMap encBlock ++ f.tail) 0
  rw [hb] at this
  rw [this, List.take_zero, List.append_nil]

/-- files of at most 2^50 blocks (8 EiB): every block offset fits Go's `int64` -/
def SmallFiles (rel : Relation) : Prop := ∀ f ∈ rel, f.blocks.length ≤ 2 ^ 50

/-- (3a) ReadSegmentBlock delivers block `n` of segment file `i` exactly when PostgreSQL has such a
block, and the "beyond segment size" error otherwise — whatever path-derived number and options -/
theorem readSegmentBlock_spec (rel : Relation) (hwf : ∀ f ∈ rel, f.WF) (hsm : SmallFiles rel)
    (i : Nat) (hi : i < rel.length) (p : Int) (n : Nat) (opts : Option SegmentOptions) :
    readSegmentBlock (relFS rel) i p (n : Int) opts =
      if h : n < (rel[i]).blocks.length then .ok (encBlock (rel[i]).blocks[n]) else .error .segBeyond := by
  have hf := hwf rel[i] (List.getElem_mem hi)
  have hs := hsm rel[i] (List.getElem_mem hi)
  simp only [Nat.reducePow] at hs
  unfold readSegmentBlock getSegmentInfo
  rw [relFS_file rel i hi]
  simp only [encFile_blocks _ hf]
  by_cases hn : n < (rel[i]).blocks.length
  · rw [dif_pos hn, if_neg (by omega), wrap64_small _ (by omega) (by omega)]
    unfold fileReadAt
    have hlen := encFile_length _ hf
    rw [if_neg (by omega), if_neg (by decide), if_neg (by omega),
      show ((n : Int) * 8192).toNat = n * 8192 by omega, encFile_block _ hf n hn]
  · rw [dif_neg hn, if_pos (by omega)]

/-- what ListSegments reports for a relation with all its segment files: one entry per file, in order,
entry `i` pointing at `base.<i>` -/
theorem listSegments_rel (rel : Relation) (h0 : 0 < rel.length) (h1 : rel.length ≤ 1000) :
    listSegments (relFS rel) =
      (List.range rel.length).map fun i => segEntry i ((rel.map encFile)[i]?.getD []) := by
  have := listSegments_all (rel.map encFile) (by simpa using h0) (by simpa using h1)
  rw [relFS_eq, this, List.length_map]

theorem listSegments_rel_length (rel : Relation) (h0 : 0 < rel.length) (h1 : rel.length ≤ 1000) :
    (listSegments (relFS rel)).length = rel.length := by
  rw [listSegments_rel rel h0 h1, List.length_map, List.length_range]

theorem segAt_rel (rel : Relation) (h0 : 0 < rel.length) (h1 : rel.length ≤ 1000) (i : Nat) (hi : i < rel.length) :
    ∃ s, segAt (listSegments (relFS rel)) (i : Int) = .ok s ∧ s.path = i := by
  refine ⟨segEntry i ((rel.map encFile)[i]?.getD []), ?_, rfl⟩
  unfold segAt
  rw [if_neg (by omega), listSegments_rel rel h0 h1, List.getElem?_map, Int.toNat_natCast,
    List.getElem?_range hi]
  rfl

theorem globalBlock_none_seg (rel : Relation) (bps g : Nat) (h : rel.length ≤ g / bps) :
    globalBlock rel bps g = none := by
  unfold globalBlock segmentOf
  rw [List.getElem?_eq_none h]

theorem globalBlock_seg (rel : Relation) (bps g : Nat) (h : g / bps < rel.length) :
    globalBlock rel bps g = (rel[g / bps]).blocks[g % bps]? := by
  unfold globalBlock segmentOf
  rw [List.getElem?_eq_getElem h]

/-- the block loop computes the run of global blocks `g, g+1, …, stop` up to the first missing one -/
theorem multiLoop_spec (rel : Relation) (hwf : ∀ f ∈ rel, f.WF) (hsm : SmallFiles rel)
    (h0 : 0 < rel.length) (h1 : rel.length ≤ 1000) (bps : Nat) (hb : 0 < bps) (stop : Int)
    (opts : Option SegmentOptions) :
    ∀ (fuel g : Nat), (rel.length * bps - g) + 1 ≤ fuel →
      multiLoop (relFS rel) (listSegments (relFS rel)) (bps : Int) stop opts fuel (g : Int) =
        .ok ((globalRun rel bps (stop + 1 - (g : Int)).toNat g).flatMap encBlock) := by
  intro fuel
  induction fuel with
  | zero => intro g hf; omega
  | succ fuel ih =>
    intro g hf
    unfold multiLoop
    by_cases hs : (g : Int) ≤ stop
    · rw [if_pos hs, goDiv_ok _ _ (by omega), goMod_ok _ _ (by omega), ← Int.ofNat_tdiv, ← Int.ofNat_tmod]
      simp only [ok_bind]
      rw [listSegments_rel_length rel h0 h1,
        show (stop + 1 - (g : Int)).toNat = (stop + 1 - ((g + 1 : Nat) : Int)).toNat + 1 by omega]
      unfold globalRun
      by_cases hlen : ((g / bps : Nat) : Int) ≥ (rel.length : Int)
      · rw [if_pos hlen, globalBlock_none_seg rel bps g (by omega)]; rfl
      · rw [if_neg hlen]
        have hi : g / bps < rel.length := by omega
        obtain ⟨s, hs1, hs2⟩ := segAt_rel rel h0 h1 (g / bps) hi
        rw [hs1]
        simp only [ok_bind]
        rw [hs2, readSegmentBlock_spec rel hwf hsm (g / bps) hi, globalBlock_seg rel bps g hi]
        by_cases hn : g % bps < (rel[g / bps]).blocks.length
        · rw [dif_pos hn, List.getElem?_eq_getElem hn]
          simp only []
          have hlt : g < rel.length * bps := (Nat.div_lt_iff_lt_mul hb).mp hi
          have := ih (g + 1) (by omega)
          rw [Int.natCast_add, Int.natCast_one] at this
          rw [this, List.flatMap_cons]
          rfl
        · rw [dif_neg hn, List.getElem?_eq_none (by omega)]
          rfl
    · rw [if_neg hs, show (stop + 1 - (g : Int)).toNat = 0 by omega]
      rfl

theorem listSegments_rel_nonempty (rel : Relation) (h0 : 0 < rel.length) (h1 : rel.length ≤ 1000) :
    ¬ (listSegments (relFS rel)).isEmpty = true := by
  rw [List.isEmpty_iff]
  intro h
  have := listSegments_rel_length rel h0 h1
  rw [h] at this
  simp at this
  omega

/-- ReadMultiSegmentFile with its segment size written as `effSegSize opts` -/
theorem readMultiSegmentFile_unfold (fs : SegFS) (a b : Int) (opts : Option SegmentOptions) :
    readMultiSegmentFile fs a b opts =
      if (listSegments fs).isEmpty = true then pure (.error .noSegments)
      else if (effSegSize opts).tdiv 8192 ≤ 0 then pure (.error .smallSegment)
      else if a < 0 then pure (.error .negative)
      else (do
        let data ← multiLoop fs (listSegments fs) ((effSegSize opts).tdiv 8192) b opts
          ((((listSegments fs).length : Int) * (effSegSize opts).tdiv 8192 - a).toNat + 2) a
        pure (.ok data)) := by
  unfold readMultiSegmentFile
  cases opts <;> rfl

/-- (3b, every option value) with all segment files present, a start block `a ≥ 0` and an effective
segment size of at least one block, ReadMultiSegmentFile returns the blocks `a … b` of the relation in
PostgreSQL's segment addressing (global block g = block `g mod bps` of file `g div bps`,
bps = effective segment size / 8192), cut at the first block that is not there; nothing when `b < a` -/
theorem readMultiSegmentFile_eff (rel : Relation) (hwf : ∀ f ∈ rel, f.WF) (hsm : SmallFiles rel)
    (h0 : 0 < rel.length) (h1 : rel.length ≤ 1000) (a : Nat) (b : Int) (opts : Option SegmentOptions)
    (hsz : 8192 ≤ effSegSize opts) :
    readMultiSegmentFile (relFS rel) (a : Int) b opts =
      .ok (.ok (if b < (a : Int) then [] else multiView rel ((effSegSize opts).toNat / 8192) a b.toNat)) := by
  obtain ⟨sz, hS⟩ : ∃ S : Nat, effSegSize opts = (S : Int) := ⟨(effSegSize opts).toNat, by omega⟩
  rw [readMultiSegmentFile_unfold, hS, Int.toNat_natCast]
  rw [hS] at hsz
  have hne := listSegments_rel_nonempty rel h0 h1
  have hbps : 0 < sz / 8192 := by omega
  have hdiv : (sz : Int).tdiv 8192 = ((sz / 8192 : Nat) : Int) := by
    rw [Int.tdiv_eq_ediv_of_nonneg (by omega)]; omega
  have hb1 : ¬ ((sz / 8192 : Nat) : Int) ≤ 0 := by omega
  have ha1 : ¬ (a : Int) < 0 := by omega
  rw [if_neg hne, hdiv, if_neg hb1, if_neg ha1,
    multiLoop_spec rel hwf hsm h0 h1 (sz / 8192) hbps b _ _ a (by
      rw [listSegments_rel_length rel h0 h1]; omega)]
  simp only [ok_bind, pure_eq_ok]
  unfold multiView
  by_cases hba : b < (a : Int)
  · rw [if_pos hba, show (b + 1 - (a : Int)).toNat = 0 by omega]; rfl
  · rw [if_neg hba, show (b + 1 - (a : Int)).toNat = b.toNat + 1 - a by omega]

/-- (3b) an explicit segment size of at least one block -/
theorem readMultiSegmentFile_spec (rel : Relation) (hwf : ∀ f ∈ rel, f.WF) (hsm : SmallFiles rel)
    (h0 : 0 < rel.length) (h1 : rel.length ≤ 1000) (a : Nat) (b : Int) (k : Int) (sz : Nat) (hsz : 8192 ≤ sz) :
    readMultiSegmentFile (relFS rel) (a : Int) b (some ⟨k, (sz : Int)⟩) =
      .ok (.ok (if b < (a : Int) then [] else multiView rel (sz / 8192) a b.toNat)) := by
  have he : effSegSize (some ⟨k, (sz : Int)⟩) = (sz : Int) := by
    unfold effSegSize
    simp only []
    rw [if_pos (by omega)]
  have := readMultiSegmentFile_eff rel hwf hsm h0 h1 a b (some ⟨k, (sz : Int)⟩) (by rw [he]; omega)
  rw [he, Int.toNat_natCast] at this
  exact this

/-- (3b) no options, or a non-positive segment size: 1 GiB segments = 131072 blocks -/
theorem readMultiSegmentFile_default (rel : Relation) (hwf : ∀ f ∈ rel, f.WF) (hsm : SmallFiles rel)
    (h0 : 0 < rel.length) (h1 : rel.length ≤ 1000) (a : Nat) (b : Int) (opts : Option SegmentOptions)
    (hd : opts = none ∨ ∃ k sz, sz ≤ 0 ∧ opts = some ⟨k, sz⟩) :
    readMultiSegmentFile (relFS rel) (a : Int) b opts =
      .ok (.ok (if b < (a : Int) then [] else multiView rel 131072 a b.toNat)) := by
  have he : effSegSize opts = defaultSegmentSize := by
    rcases hd with rfl | ⟨k, sz, hsz, rfl⟩
    · rfl
    · unfold effSegSize
      simp only []
      rw [if_neg (by omega)]
  have := readMultiSegmentFile_eff rel hwf hsm h0 h1 a b opts (by rw [he]; unfold defaultSegmentSize; omega)
  rw [he] at this
  exact this

/-- the rejections of ReadMultiSegmentFile on such a relation: a segment size below one block, a
negative start -/
theorem readMultiSegmentFile_small (rel : Relation) (h0 : 0 < rel.length) (h1 : rel.length ≤ 1000)
    (a b : Int) (opts : Option SegmentOptions) (hsz : effSegSize opts < 8192) :
    readMultiSegmentFile (relFS rel) a b opts = .ok (.error .smallSegment) := by
  rw [readMultiSegmentFile_unfold, if_neg (listSegments_rel_nonempty rel h0 h1)]
  have hpos : 0 < effSegSize opts := by
    unfold effSegSize
    cases opts with
    | none => simp only []; unfold defaultSegmentSize; omega
    | some o =>
      simp only []
      split
      · omega
      · unfold defaultSegmentSize; omega
  have : (effSegSize opts).tdiv 8192 ≤ 0 := by
    rw [Int.tdiv_eq_ediv_of_nonneg (by omega)]; omega
  rw [if_pos this]; rfl

theorem readMultiSegmentFile_negative (rel : Relation) (h0 : 0 < rel.length) (h1 : rel.length ≤ 1000)
    (a b : Int) (opts : Option SegmentOptions) (hsz : 8192 ≤ effSegSize opts) (ha : a < 0) :
    readMultiSegmentFile (relFS rel) a b opts = .ok (.error .negative) := by
  rw [readMultiSegmentFile_unfold, if_neg (listSegments_rel_nonempty rel h0 h1)]
  have : ¬ (effSegSize opts).tdiv 8192 ≤ 0 := by
    rw [Int.tdiv_eq_ediv_of_nonneg (by omega)]; omega
  rw [if_neg this, if_pos ha]; rfl

/-- no `base` and no `base.1`: "no segments found" -/
theorem readMultiSegmentFile_noSegments (fs : SegFS) (a b : Int) (opts : Option SegmentOptions)
    (hf0 : fs.file 0 = none) (hf1 : fs.file 1 = none) :
    readMultiSegmentFile fs a b opts = .ok (.error .noSegments) := by
  have : listSegments fs = [] := by
    unfold listSegments listMore
    rw [hf0, hf1]; rfl
  unfold readMultiSegmentFile
  simp only []
  rw [this]; rfl

end PgVerif.Proofs.SegmentMulti
