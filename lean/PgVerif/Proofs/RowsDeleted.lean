/-
  Helper lemmas for the Spec-level statements about the row views (C09): the scan of a well-formed heap file as a
  list of (stored tuple, page offset) pairs, the hint bits of a formed tuple, and the per-tuple steps of
  ReadDeletedRows / ReadRowsWithDeleted on a formed tuple.
-/
import PgVerif.Proofs.RowsFile
import PgVerif.Proofs.RowsViews
import PgVerif.Props.C03
namespace PgVerif.Proofs.Rows
open PgVerif PgVerif.Model PgVerif.Spec PgVerif.Proofs

/-- the stored tuples of a file in scan order (page order, then pointer order), each with the byte offset of its page -/
def fileEntriesFrom (off : Nat) : List Block → List (Tuple × Nat)
  | [] => []
  | b :: bs => b.tuples.map (fun t => (t, off)) ++ fileEntriesFrom (off + 8192) bs

def fileEntries (bs : List Block) : List (Tuple × Nat) := fileEntriesFrom 0 bs

theorem fileEntriesFrom_fst (off : Nat) (bs : List Block) : (fileEntriesFrom off bs).map (·.1) = fileTuples bs := by
  induction bs generalizing off with
  | nil => rfl
  | cons b bs ih =>
    simp only [fileEntriesFrom, List.map_append, List.map_map, ih, fileTuples, List.flatMap_cons]
    congr 1
    simp [Function.comp_def]

theorem fileEntries_fst (bs : List Block) : (fileEntries bs).map (·.1) = fileTuples bs := fileEntriesFrom_fst 0 bs

theorem fileEntriesFrom_shift (off k : Nat) (bs : List Block) :
    (fileEntriesFrom off bs).map (fun p => (p.1, p.2 + k)) = fileEntriesFrom (off + k) bs := by
  induction bs generalizing off with
  | nil => rfl
  | cons b bs ih =>
    simp only [fileEntriesFrom, List.map_append, List.map_map]
    rw [ih (off + 8192), show off + 8192 + k = off + k + 8192 by omega]
    congr 1

/-- the model entry of a stored tuple -/
def entryOf (p : Tuple × Nat) : TupleEntry := ⟨mtuple p.1, p.2⟩

/-- the scan of a well-formed file, entry by entry: the stored tuples in order, each tagged with the byte offset
of its page, filtered by the visibility switch -/
theorem scan_entries (bs : List Block) (tail : Bytes) (vis : Bool) (hb : ∀ b ∈ bs, b.WF) (ht : tail.length < 8192) :
    readTuples (encHeap bs tail) vis =
      .ok (((fileEntries bs).filter fun p => !vis || liveBits p.1.infomask).map entryOf) := by
  induction bs with
  | nil =>
    simp only [encHeap, List.flatMap_nil, List.nil_append]
    rw [readTuples_short tail vis ht]; rfl
  | cons b bs ih =>
    have hbw := hb b (by simp)
    have ih' := ih (fun x hx => hb x (by simp [hx]))
    simp only [encHeap, List.flatMap_cons, List.append_assoc] at ih' ⊢
    rw [readTuples_cons _ _ vis (encBlock_length b hbw), block_parse b hbw]
    simp only [ok_bind, ih', pure_eq_ok]
    congr 1
    simp only [fileEntries, fileEntriesFrom, List.filter_append, List.map_append]
    congr 1
    · simp only [pageEntries, List.map_map, List.filter_map, Function.comp_def, entryOf]
      have : (fun t : Tuple => !vis || (mtuple t).isVisible) = (fun t => !vis || liveBits t.infomask) := by
        funext t; rw [isVisible_mtuple]
      rw [this]
    · have hs := fileEntriesFrom_shift 0 8192 bs
      simp only [Nat.zero_add] at hs
      rw [← hs, List.filter_map, List.map_map, List.map_map]
      rfl

/-! ### hint bits of a formed tuple -/

theorem liveBits_form (h : HdrFields) (cols : List Col) (r : RowV) :
    liveBits (formTupleH h cols r).infomask = liveBits r.infomask := formTupleH_infomask_live h cols r

theorem deletedBits_form (h : HdrFields) (cols : List Col) (r : RowV) :
    deletedBits (formTupleH h cols r).infomask = deletedBits r.infomask := formTupleH_infomask_deleted h cols r

theorem isDeleted_mtuple (t : Tuple) : (mtuple t).isDeleted = deletedBits t.infomask := by
  simp only [HeapTuple.isDeleted, mtuple, deletedBits]

/-! ### the per-tuple steps on a formed row version -/

/-- the row a reader must report for a stored row: a function of the schema, the attribute values and the stored
attribute count only (as `C03_layout` says), as the Go map -/
def expRow (dec : Dec) (cols : List Col) (r : RowV) : M Row :=
  expectedCols (varlenaVal dec) cols r.vals r.natts >>= fun ps => pure (toRow ps)

theorem expRow_withMask (dec : Dec) (cols : List Col) (r : RowV) (m : Nat) : expRow dec cols (r.withMask m) = expRow dec cols r := rfl

theorem decodeTuple_formed (dec : Dec) (cols : List Col) (mcols : List Column) (h : HdrFields) (r : RowV)
    (hm : ColsMatch 0 mcols cols) (hwf : r.WF cols) (hne : mcols ≠ []) :
    decodeTuple dec (mtuple (formTupleH h cols r)) mcols = (expRow dec cols r >>= fun row => pure (some row)) := by
  rw [mtuple_formTupleH h cols r hwf, Props.C03.C03_decodeTuple dec cols mcols r _ hm hwf hne]
  unfold expRow
  cases expectedCols (varlenaVal dec) cols r.vals r.natts <;> rfl

theorem data_formed (h : HdrFields) (cols : List Col) (r : RowV) : (mtuple (formTupleH h cols r)).data.length = r.dataLen cols := rfl

/-- what ReadDeletedRows must report for a deleted row version stored in the page at `off` -/
def expDeleted (dec : Dec) (cols : List Col) (x : RowVer × Nat) : M (Option DeletedRow) :=
  expRow dec cols x.1.2 >>= fun row => pure (some ⟨x.2, some row, x.1.2.dataLen cols⟩)

theorem deletedStep_formed (dec : Dec) (cols : List Col) (mcols : List Column) (x : RowVer × Nat)
    (hm : ColsMatch 0 mcols cols) (hwf : x.1.2.WF cols) (hne : mcols ≠ []) :
    deletedStep dec mcols (entryOf (formVer cols x.1, x.2)) =
      if deletedBits x.1.2.infomask then expDeleted dec cols x else pure none := by
  have hpos : mcols.length > 0 := List.length_pos_iff.mpr hne
  unfold deletedStep entryOf formVer
  simp only [isDeleted_mtuple, deletedBits_form, hpos, if_true, decodeTuple_formed dec cols mcols x.1.1 x.1.2 hm hwf hne, data_formed]
  by_cases hd : deletedBits x.1.2.infomask = true
  · simp only [hd, if_true, expDeleted]
    cases expRow dec cols x.1.2 <;> rfl
  · simp only [hd]; rfl

/-! ### list lemmas about `collectM` -/

theorem collectM_filter_none {α γ} (f : α → M (Option γ)) (p : α → Bool) (xs : List α)
    (h : ∀ x ∈ xs, p x = false → f x = .ok none) : collectM f xs = collectM f (xs.filter p) := by
  induction xs with
  | nil => rfl
  | cons x xs ih =>
    have ih' := ih (fun y hy => h y (by simp [hy]))
    cases hp : p x with
    | false =>
      have : (x :: xs).filter p = xs.filter p := by simp [hp]
      rw [this, ← ih']
      simp only [collectM, h x (by simp) hp, ok_bind]
      cases collectM f xs <;> rfl
    | true =>
      simp only [List.filter_cons, hp, if_true, collectM, ih']

/-- decoding every element to a value `E x`, paired with the element -/
def decodeAll {α β} (E : α → M β) (xs : List α) : M (List (α × β)) :=
  collectM (fun x => E x >>= fun b => pure (some (x, b))) xs

theorem decodeAll_cons {α β} (E : α → M β) (x : α) (xs : List α) :
    decodeAll E (x :: xs) = (E x >>= fun b => decodeAll E xs >>= fun rest => pure ((x, b) :: rest)) := by
  simp only [decodeAll, collectM]
  cases E x with
  | error e => rfl
  | ok b => rfl

/-- collecting `E` over the sub-list selected by `p` = decoding everything and selecting afterwards, when nothing faults -/
theorem collectM_filter_decodeAll {α β γ} (E : α → M β) (g : α → β → γ) (p : α → Bool) (xs : List α) (all : List (α × β))
    (h : decodeAll E xs = .ok all) :
    collectM (fun x => E x >>= fun b => pure (some (g x b))) (xs.filter p) =
      .ok ((all.filter fun q => p q.1).map fun q => g q.1 q.2) := by
  induction xs generalizing all with
  | nil => simp only [decodeAll, collectM, pure_eq_ok] at h; injection h with h; subst h; rfl
  | cons x xs ih =>
    rw [decodeAll_cons] at h
    cases hE : E x with
    | error e => simp [hE] at h
    | ok b =>
      simp only [hE, ok_bind] at h
      cases hr : decodeAll E xs with
      | error e => simp [hr] at h
      | ok rest =>
        simp only [hr, ok_bind, pure_eq_ok] at h
        injection h with h
        subst h
        have ih' := ih rest hr
        cases hp : p x with
        | false => simp only [List.filter_cons, hp]; exact ih'
        | true =>
          simp only [List.filter_cons, hp, if_true, collectM, hE, ok_bind]
          rw [ih']
          simp

theorem decodeAll_fst {α β} (E : α → M β) (xs : List α) (all : List (α × β)) (h : decodeAll E xs = .ok all) :
    all.map (·.1) = xs := by
  induction xs generalizing all with
  | nil => simp only [decodeAll, collectM, pure_eq_ok] at h; injection h with h; subst h; rfl
  | cons x xs ih =>
    rw [decodeAll_cons] at h
    cases hE : E x with
    | error e => simp [hE] at h
    | ok b =>
      simp only [hE, ok_bind] at h
      cases hr : decodeAll E xs with
      | error e => simp [hr] at h
      | ok rest =>
        simp only [hr, ok_bind, pure_eq_ok] at h
        injection h with h
        subst h
        simp [ih rest hr]

end PgVerif.Proofs.Rows

namespace PgVerif.Proofs.Rows
open PgVerif PgVerif.Model PgVerif.Spec PgVerif.Proofs

/-- collecting `E` with an output that also mentions the element = decoding everything, then mapping -/
theorem collectM_decodeAll {α β γ} (E : α → M β) (g : α → β → γ) (xs : List α) :
    collectM (fun x => E x >>= fun b => pure (some (g x b))) xs =
      (decodeAll E xs >>= fun all => pure (all.map fun q => g q.1 q.2)) := by
  induction xs with
  | nil => rfl
  | cons x xs ih =>
    rw [decodeAll_cons]
    simp only [collectM, ih]
    cases E x with
    | error e => rfl
    | ok b =>
      simp only [ok_bind]
      cases decodeAll E xs with
      | error e => rfl
      | ok rest => rfl

theorem isDeleted_excl (m : Nat) : (!liveBits m && deletedBits m) = deletedBits m := by
  simp only [liveBits, deletedBits]
  cases m.testBit 8 <;> cases m.testBit 10 <;> cases m.testBit 11 <;> rfl

end PgVerif.Proofs.Rows

namespace PgVerif.Proofs.Rows
open PgVerif PgVerif.Model PgVerif.Spec PgVerif.Proofs

/-- if collecting `E` over `xs` succeeds with `all`, decoding everything yields the pairs `xs.zip all` -/
theorem decodeAll_of_collect {α β} (E : α → M β) (xs : List α) (all : List β)
    (h : collectM (fun x => E x >>= fun b => pure (some b)) xs = .ok all) : decodeAll E xs = .ok (xs.zip all) := by
  induction xs generalizing all with
  | nil => simp only [collectM, pure_eq_ok] at h; injection h with h; subst h; rfl
  | cons x xs ih =>
    rw [decodeAll_cons]
    simp only [collectM] at h
    cases hE : E x with
    | error e => simp [hE] at h
    | ok b =>
      simp only [hE, ok_bind] at h
      cases hr : collectM (fun x => E x >>= fun b => pure (some b)) xs with
      | error e => rw [hr] at h; cases h
      | ok rest =>
        rw [hr] at h
        simp only [ok_bind, pure_eq_ok] at h
        injection h with h
        subst h
        simp only [ok_bind, ih rest hr, pure_eq_ok, List.zip_cons_cons]

theorem withMask_WF (cols : List Col) (r : RowV) (m : Nat) (h : r.WF cols) (hm : m < 65536) : (r.withMask m).WF cols := by
  obtain ⟨h1, h2, h3, _, h5⟩ := h
  exact ⟨h1, h2, h3, hm, h5⟩

/-- one stored row as two files hold it: `before` with header fields `hdrB` and t_infomask `maskB`, `after` with
`hdrA`, `maskA`, in the page at byte offset `offA` -/
structure Twice where
  row : RowV
  hdrB : HdrFields
  maskB : Nat
  hdrA : HdrFields
  maskA : Nat
  offA : Nat

def Twice.verB (x : Twice) : RowVer := (x.hdrB, x.row.withMask x.maskB)
def Twice.verA (x : Twice) : RowVer × Nat := ((x.hdrA, x.row.withMask x.maskA), x.offA)

end PgVerif.Proofs.Rows

namespace PgVerif.Proofs.Rows

/-- two mutually exclusive selections and the rest make up the list -/
theorem three_way {α} (p q : α → Bool) (l : List α) (hex : ∀ x ∈ l, ¬ (p x = true ∧ q x = true)) :
    List.Perm (l.filter p ++ l.filter q ++ l.filter (fun x => !p x && !q x)) l := by
  have h1 := List.filter_append_perm p l
  have h2 := List.filter_append_perm q (l.filter fun x => !p x)
  have e1 : (l.filter fun x => !p x).filter q = l.filter q := by
    rw [List.filter_filter]
    apply List.filter_congr
    intro x hx
    have := hex x hx
    cases hp : p x <;> cases hq : q x <;> simp [hp, hq] at this ⊢
  have e2 : (l.filter fun x => !p x).filter (fun x => !q x) = l.filter (fun x => !p x && !q x) := by
    rw [List.filter_filter]
    apply List.filter_congr
    intro x _
    cases p x <;> cases q x <;> rfl
  rw [e1, e2] at h2
  rw [List.append_assoc]
  exact (List.Perm.append_left _ h2).trans h1

end PgVerif.Proofs.Rows

namespace PgVerif.Proofs.Rows
open PgVerif PgVerif.Model PgVerif.Spec PgVerif.Proofs

theorem zip_map_fst_snd {α β} (l : List (α × β)) : (l.map (·.1)).zip (l.map (·.2)) = l := by
  induction l with
  | nil => rfl
  | cons x xs ih => simp [ih]

/-- a file whose stored tuples are `vers.map f`: its entries are those tuples paired with their page offsets -/
theorem fileEntries_of_tuples {α} (bs : List Block) (vers : List α) (f : α → Tuple) (h : fileTuples bs = vers.map f) :
    ∃ offs : List Nat, offs.length = vers.length ∧ fileEntries bs = (vers.zip offs).map fun x => (f x.1, x.2) := by
  refine ⟨(fileEntries bs).map (·.2), ?_, ?_⟩
  · have := congrArg List.length (fileEntries_fst bs)
    rw [h] at this
    simpa using this
  · have hz := zip_map_fst_snd (fileEntries bs)
    rw [fileEntries_fst, h] at hz
    calc fileEntries bs = (vers.map f).zip ((fileEntries bs).map (·.2)) := hz.symm
      _ = (vers.zip ((fileEntries bs).map (·.2))).map fun x => (f x.1, x.2) := by
        rw [List.zip_map_left]
        rfl

/-- the decoded rows of the recovered deleted rows do not mention the page offsets -/
theorem deleted_rows_of_zip (dec : Dec) (cols : List Col) (vers : List RowVer) (offs : List Nat) (hl : offs.length = vers.length) :
    (collectM (expDeleted dec cols) ((vers.zip offs).filter fun x => deletedBits x.1.2.infomask) >>= fun ds =>
        pure (ds.map fun d => d.data.getD [])) =
      collectM (fun v : RowVer => expRow dec cols v.2 >>= fun row => pure (some row)) (vers.filter fun v => deletedBits v.2.infomask) := by
  induction vers generalizing offs with
  | nil => simp [collectM]
  | cons v vs ih =>
    cases offs with
    | nil => simp at hl
    | cons o os =>
      have ih' := ih os (by simpa using hl)
      simp only [List.zip_cons_cons, List.filter_cons]
      by_cases hd : deletedBits v.2.infomask = true
      · simp only [hd, if_true, collectM, expDeleted]
        cases expRow dec cols v.2 with
        | error e => rfl
        | ok row =>
          simp only [ok_bind]
          rw [← ih']
          cases collectM (expDeleted dec cols) ((vs.zip os).filter fun x => deletedBits x.1.2.infomask) <;> rfl
      · simp only [hd]
        exact ih'

theorem deleted_nocols (dec : Dec) (es : List (Tuple × Nat)) :
    (collectM (deletedStep dec []) (es.map entryOf) >>= fun ds => pure (ds.map fun d => d.data.getD [])) =
      .ok ((((es.map (·.1)).filter fun t => deletedBits t.infomask).map fun _ => []) : List Row) := by
  induction es with
  | nil => rfl
  | cons e es ih =>
    simp only [List.map_cons, collectM, List.filter_cons]
    have hs : deletedStep dec [] (entryOf e) =
        .ok (if deletedBits e.1.infomask then some ⟨e.2, none, (mtuple e.1).data.length⟩ else none) := by
      unfold deletedStep entryOf
      simp only [isDeleted_mtuple]
      by_cases hd : deletedBits e.1.infomask = true
      · simp [hd]
      · simp [hd]
    rw [hs]
    simp only [ok_bind]
    cases hc : collectM (deletedStep dec []) (es.map entryOf) with
    | error err => rw [hc] at ih; cases ih
    | ok ds =>
      rw [hc] at ih
      simp only [ok_bind, pure_eq_ok] at ih ⊢
      injection ih with ih
      by_cases hd : deletedBits e.1.infomask = true
      · simp [hd, ih]
      · simp [hd, ih]

end PgVerif.Proofs.Rows

namespace PgVerif.Proofs.Rows
open PgVerif PgVerif.Model PgVerif.Spec PgVerif.Proofs

theorem deleted_nocols_full (dec : Dec) (es : List (Tuple × Nat)) :
    (collectM (deletedStep dec []) (es.map entryOf)).map (fun ds => ds.map fun d => (d.pageOffset, d.data.isNone, d.rawSize)) =
      .ok ((es.filter fun p => deletedBits p.1.infomask).map fun p => (p.2, true, p.1.data.length)) := by
  induction es with
  | nil => rfl
  | cons e es ih =>
    simp only [List.map_cons, collectM, List.filter_cons]
    have hs : deletedStep dec [] (entryOf e) =
        .ok (if deletedBits e.1.infomask then some ⟨e.2, none, e.1.data.length⟩ else none) := by
      unfold deletedStep entryOf
      simp only [isDeleted_mtuple]
      by_cases hd : deletedBits e.1.infomask = true
      · simp [hd, mtuple]
      · simp [hd]
    rw [hs]
    simp only [ok_bind]
    cases hc : collectM (deletedStep dec []) (es.map entryOf) with
    | error err => rw [hc] at ih; cases ih
    | ok ds =>
      rw [hc] at ih
      simp only [Except.map, Except.ok.injEq] at ih
      by_cases hd : deletedBits e.1.infomask = true
      · simp [hd, ih, Except.map]
      · simp [hd, ih, Except.map]

end PgVerif.Proofs.Rows
