/-
  Helper lemmas for the array model: totality (C10) of every function of Model/Arrays.lean.
-/
import PgVerif.Model.Arrays
namespace PgVerif.Proofs.Arrays
open PgVerif PgVerif.Model.Arrays

/-- a total element decoder: `DecodeType` returns on every element byte string -/
def DecTotal (dec : Dec) : Prop := ∀ bs oid, ∃ r, dec bs oid = .ok r

theorem i32At_ok (raw : Bytes) (off : Nat) (h : off + 4 ≤ raw.length) :
    i32At raw off = .ok (toSigned 32 (rd 4 (raw.drop off))) := by
  unfold i32At; rw [uN_ok 4 raw off h]; rfl

theorem dimsProduct_total (raw : Bytes) (n i : Nat) (total : Int) (h : 12 + (i + n) * 4 ≤ raw.length) :
    ∃ r, dimsProduct raw n i total = .ok r := by
  induction n generalizing i total with
  | zero => exact ⟨total, rfl⟩
  | succ n ih =>
    simp only [dimsProduct]
    rw [i32At_ok raw (12 + i * 4) (by omega)]
    simp only [ok_bind]
    exact ih (i + 1) _ (by omega)

theorem nullAt_none (i : Nat) : nullAt none i = .ok false := rfl

theorem nullAt_total (nulls : Option Bytes) (i : Nat) (h : ∀ bm, nulls = some bm → i / 8 < bm.length) :
    ∃ b, nullAt nulls i = .ok b := by
  cases nulls with
  | none => exact ⟨false, rfl⟩
  | some bm =>
    simp only [nullAt]
    rw [idx_ok bm (i / 8) (h bm rfl)]
    exact ⟨_, rfl⟩

theorem decodeVarlenaElem_total (dec : Dec) (hdec : DecTotal dec) (data : Bytes) (elemOid : Nat) :
    ∃ r, decodeVarlenaElem dec data elemOid = .ok r := by
  unfold decodeVarlenaElem
  split
  · split
    · exact ⟨_, rfl⟩
    · split
      · exact ⟨_, rfl⟩
      · exact hdec data elemOid
  · exact hdec data elemOid

theorem readElem_total (dec : Dec) (hdec : DecTotal dec) (raw : Bytes) (elemOid elemLen : Nat) (fixed : Bool) (off : Nat) :
    ∃ r, readElem dec raw elemOid elemLen fixed off = .ok r := by
  unfold readElem
  split
  · split
    · exact ⟨none, rfl⟩
    · rename_i hlen
      rw [slice_ok raw off (off + elemLen) (by omega) (by omega)]
      simp only [ok_bind]
      obtain ⟨v, hv⟩ := hdec ((raw.take (off + elemLen)).drop off) elemOid
      rw [hv]; exact ⟨_, rfl⟩
  · split
    · exact ⟨none, rfl⟩
    · rename_i hoff
      rw [idx_ok raw off (by omega)]
      simp only [ok_bind]
      split
      · split
        · exact ⟨none, rfl⟩
        · rename_i hn
          rw [slice_ok raw (off + 1) (off + raw[off].toNat / 2) (by omega) (by omega)]
          simp only [ok_bind]
          obtain ⟨v, hv⟩ := decodeVarlenaElem_total dec hdec ((raw.take (off + raw[off].toNat / 2)).drop (off + 1)) elemOid
          rw [hv]; exact ⟨_, rfl⟩
      · split
        · exact ⟨none, rfl⟩
        · rename_i h4
          rw [uN_ok 4 raw off (by omega)]
          simp only [ok_bind]
          split
          · exact ⟨none, rfl⟩
          · rename_i hn
            rw [slice_ok raw (off + 4) (off + rd 4 (raw.drop off) / 4) (by omega) (by omega)]
            simp only [ok_bind]
            obtain ⟨v, hv⟩ := decodeVarlenaElem_total dec hdec ((raw.take (off + rd 4 (raw.drop off) / 4)).drop (off + 4)) elemOid
            rw [hv]; exact ⟨_, rfl⟩

theorem parseElems_total (dec : Dec) (hdec : DecTotal dec) (raw : Bytes) (elemOid elemLen elemAlign : Nat) (fixed : Bool)
    (nulls : Option Bytes) (n i off : Nat) (h : ∀ bm, nulls = some bm → (i + n + 7) / 8 ≤ bm.length) :
    ∃ r, parseElems dec raw elemOid elemLen elemAlign fixed nulls n i off = .ok r := by
  induction n generalizing i off with
  | zero => exact ⟨[], rfl⟩
  | succ n ih =>
    simp only [parseElems]
    obtain ⟨b, hb⟩ := nullAt_total nulls i (fun bm hbm => by have := h bm hbm; omega)
    rw [hb]; simp only [ok_bind]
    have hnext : ∀ bm, nulls = some bm → (i + 1 + n + 7) / 8 ≤ bm.length := fun bm hbm => by
      have := h bm hbm; omega
    cases b with
    | true =>
      simp only [if_true]
      obtain ⟨r, hr⟩ := ih (i + 1) off hnext
      rw [hr]; exact ⟨_, rfl⟩
    | false =>
      simp only [Bool.false_eq_true, if_false]
      obtain ⟨r, hr⟩ := readElem_total dec hdec raw elemOid elemLen fixed (alignRel off elemAlign)
      rw [hr]; simp only [ok_bind]
      cases r with
      | none => exact ⟨[], rfl⟩
      | some p =>
        obtain ⟨v, off'⟩ := p
        simp only []
        obtain ⟨r2, hr2⟩ := ih (i + 1) off' hnext
        rw [hr2]; exact ⟨_, rfl⟩

theorem isEmptyArray_total (raw : Bytes) : ∃ b, isEmptyArray raw = .ok b := by
  unfold isEmptyArray
  split
  · rw [i32At_ok raw 0 (by omega)]; exact ⟨_, rfl⟩
  · exact ⟨false, rfl⟩

theorem decodeDims_total (dec : Dec) (hdec : DecTotal dec) (raw : Bytes) (elemOid nd : Nat) (h20 : 20 ≤ raw.length) :
    ∃ r, decodeDims dec raw elemOid nd = .ok r := by
  unfold decodeDims
  split
  · exact ⟨.nil, rfl⟩
  · rename_i hlen
    rw [i32At_ok raw 4 (by omega)]
    simp only [ok_bind]
    obtain ⟨total, ht⟩ := dimsProduct_total raw nd 0 1 (by omega)
    rw [ht]; simp only [ok_bind]
    split
    · exact ⟨.nil, rfl⟩
    · split
      · split
        · exact ⟨.nil, rfl⟩
        · rename_i hb
          rw [slice_ok raw (12 + nd * 8) (12 + nd * 8 + (total.toNat + 7) / 8) (by omega) (by omega)]
          simp only [ok_bind]
          obtain ⟨es, hes⟩ := parseElems_total dec hdec raw elemOid (elemLayout elemOid).1 (elemLayout elemOid).2.2
            (elemLayout elemOid).2.1 (some ((raw.take (12 + nd * 8 + (total.toNat + 7) / 8)).drop (12 + nd * 8)))
            total.toNat 0 (toSigned 32 (rd 4 (raw.drop 4)) - 4).toNat
            (fun bm hbm => by
              injection hbm with hbm; subst hbm
              simp only [List.length_drop, List.length_take]; omega)
          rw [hes]; exact ⟨_, rfl⟩
      · obtain ⟨es, hes⟩ := parseElems_total dec hdec raw elemOid (elemLayout elemOid).1 (elemLayout elemOid).2.2
          (elemLayout elemOid).2.1 none total.toNat 0 (12 + nd * 8) (fun bm hbm => by cases hbm)
        rw [hes]; exact ⟨_, rfl⟩

theorem decodeArray_total (dec : Dec) (hdec : DecTotal dec) (raw : Bytes) (elemOid : Nat) :
    ∃ r, decodeArray dec raw elemOid = .ok r := by
  unfold decodeArray
  obtain ⟨b, hb⟩ := isEmptyArray_total raw
  rw [hb]; simp only [ok_bind]
  split
  · exact ⟨_, rfl⟩
  · split
    · exact ⟨.nil, rfl⟩
    · rename_i h20
      rw [i32At_ok raw 0 (by omega)]
      simp only [ok_bind]
      split
      · exact ⟨.nil, rfl⟩
      · exact decodeDims_total dec hdec raw elemOid _ (by omega)

theorem decodeType_total (dec : Dec) (hdec : DecTotal dec) (data : Bytes) (oid : Nat) :
    ∃ r, decodeType dec data oid = .ok r := by
  unfold decodeType
  split
  · exact ⟨.nil, rfl⟩
  · split
    · exact decodeArray_total dec hdec data _
    · exact hdec data oid

end PgVerif.Proofs.Arrays
