/-
  Helper lemmas for the array model: totality (C10) of every function of Model/Arrays.lean.
-/
import PgVerif.Model.Arrays
namespace PgVerif.Proofs.Arrays
open PgVerif PgVerif.Model.Arrays

/-- a total element decoder: `DecodeType` returns on every element byte string -/
def DecTotal (dec : Dec) : Prop := ∀ bs oid, ∃ r, dec bs oid = .ok r

theorem i32At_ok (raw : Bytes) (off : Nat) (h : off + 4 ≤ raw.length) :
    i32At raw off = .ok (toSigned 32 (rd 4 (raw.drop off))) := by
  unfold i32At; rw [uN_ok 4 raw off h]; rfl

theorem dimsProduct_total (raw : Bytes) (n i : Nat) (total : Int) (h : 12 + (i + n) * 4 ≤ raw.length) :
    ∃ r, dimsProduct raw n i total = .ok r := by
  induction n generalizing i total with
  | zero => exact ⟨total, rfl⟩
  | succ n ih =>
    simp only [dimsProduct]
    rw [i32At_ok raw (12 + i * 4) (by omega)]
    simp only [ok_bind]
    exact ih (i + 1) _ (by omega)

theorem nullAt_none (i : Nat) : nullAt none i = .ok false := rfl

theorem nullAt_total (nulls : Option Bytes) (i : Nat) (h : ∀ bm, nulls = some bm → i / 8 < bm.length) :
    ∃ b, nullAt nulls i = .ok b := by
  cases nulls with
  | none => exact ⟨false, rfl⟩
  | some bm =>
    simp only [nullAt]
    rw [idx_ok bm (i / 8) (h bm rfl)]
    exact ⟨_, rfl⟩

theorem decodeVarlenaElem_total (dec : Dec) (hdec : DecTotal dec) (data : Bytes) (elemOid : Nat) :
    ∃ r, decodeVarlenaElem dec data elemOid = .ok r := by
  unfold decodeVarlenaElem
  split
  · split
    · exact ⟨_, rfl⟩
    · split
      · exact ⟨_, rfl⟩
      · exact hdec data elemOid
  · exact hdec data elemOid

theorem readElem_total (dec : Dec) (hdec : DecTotal dec) (raw : Bytes) (elemOid elemLen : Nat) (fixed : Bool) (off : Nat) :
    ∃ r, readElem dec raw elemOid elemLen fixed off = .ok r := by
  unfold readElem
  split
  · split
    · exact ⟨none, rfl⟩
    · rename_i hlen
      rw [slice_ok raw off (off + elemLen) (by omega) (by omega)]
      simp only [ok_bind]
      obtain ⟨v, hv⟩ := hdec ((raw.take (off + elemLen)).drop off) elemOid
      rw [hv]; exact ⟨_, rfl⟩
  · split
    · exact ⟨none, rfl⟩
    · rename_i hoff
      rw [idx_ok raw off (by omega)]
      simp only [ok_bind]
      split
      · split
        · exact ⟨none, rfl⟩
        · rename_i hn
          rw [slice_ok raw (off + 1) (off + raw[off].toNat / 2) (by omega) (by omega)]
          simp only [ok_bind]
          obtain ⟨v, hv⟩ := decodeVarlenaElem_total dec hdec ((raw.take (off + raw[off].toNat / 2)).drop (off + 1)) elemOid
          rw [hv]; exact ⟨_, rfl⟩
      · split
        · exact ⟨none, rfl⟩
        · rename_i h4
          rw [uN_ok 4 raw off (by omega)]
          simp only [ok_bind]
          split
          · exact ⟨none, rfl⟩
          · rename_i hn
            rw [slice_ok raw (off + 4) (off + rd 4 (raw.drop off) / 4) (by omega) (by omega)]
            simp only [ok_bind]
            obtain ⟨v, hv⟩ := decodeVarlenaElem_total dec hdec ((raw.take (off + rd 4 (raw.drop off) / 4)).drop (off + 4)) elemOid
            rw [hv]; exact ⟨_, rfl⟩

theorem parseElems_total (dec : Dec) (hdec : DecTotal dec) (raw : Bytes) (elemOid elemLen elemAlign : Nat) (fixed : Bool)
    (nulls : Option Bytes) (n i off : Nat) (h : ∀ bm, nulls = some bm → (i + n + 7) / 8 ≤ bm.length) :
    ∃ r, parseElems dec raw elemOid elemLen elemAlign fixed nulls n i off = .ok r := by
  induction n generalizing i off with
  | zero => exact ⟨[], rfl⟩
  | succ n ih =>
    simp only [parseElems]
    obtain ⟨b, hb⟩ := nullAt_total nulls i (fun bm hbm => by have := h bm hbm; omega)
    rw [hb]; simp only [ok_bind]
    have hnext : ∀ bm, nulls = some bm → (i + 1 + n + 7) / 8 ≤ bm.length := fun bm hbm => by
      have := h bm hbm; omega
    cases b with
    | true =>
      simp only [if_true]
      obtain ⟨r, hr⟩ := ih (i + 1) off hnext
      rw [hr]; exact ⟨_, rfl⟩
    | false =>
      simp only [Bool.false_eq_true, if_false]
      obtain ⟨r, hr⟩ := readElem_total dec hdec raw elemOid elemLen fixed (alignRel off elemAlign)
      rw [hr]; simp only [ok_bind]
      cases r with
      | none => exact ⟨[], rfl⟩
      | some p =>
        obtain ⟨v, off'⟩ := p
        simp only []
        obtain ⟨r2, hr2⟩ := ih (i + 1) off' hnext
        rw [hr2]; exact ⟨_, rfl⟩

theorem isEmptyArray_total (raw : Bytes) : ∃ b, isEmptyArray raw = .ok b := by
  unfold isEmptyArray
  split
  · rw [i32At_ok raw 0 (by omega)]; exact ⟨_, rfl⟩
  · exact ⟨false, rfl⟩

theorem decodeDims_total (dec : Dec) (hdec : DecTotal dec) (raw : Bytes) (elemOid nd : Nat) (h20 : 20 ≤ raw.length) :
    ∃ r, decodeDims dec raw elemOid nd = .ok r := by
  unfold decodeDims
  split
  · exact ⟨.nil, rfl⟩
  · rename_i hlen
    rw [i32At_ok raw 4 (by omega)]
    simp only [ok_bind]
    obtain ⟨total, ht⟩ := dimsProduct_total raw nd 0 1 (by omega)
    rw [ht]; simp only [ok_bind]
    split
    · exact ⟨.nil, rfl⟩
    · split
      · split
        · exact ⟨.nil, rfl⟩
        · rename_i hb
          rw [slice_ok raw (12 + nd * 8) (12 + nd * 8 + (total.toNat + 7) / 8) (by omega) (by omega)]
          simp only [ok_bind]
          obtain ⟨es, hes⟩ := parseElems_total dec hdec raw elemOid (elemLayout elemOid).1 (elemLayout elemOid).2.2
            (elemLayout elemOid).2.1 (some ((raw.take (12 + nd * 8 + (total.toNat + 7) / 8)).drop (12 + nd * 8)))
            total.toNat 0 (toSigned 32 (rd 4 (raw.drop 4)) - 4).toNat
            (fun bm hbm => by
              injection hbm with hbm; subst hbm
              simp only [List.length_drop, List.length_take]; omega)
          rw [hes]; exact ⟨_, rfl⟩
      · obtain ⟨es, hes⟩ := parseElems_total dec hdec raw elemOid (elemLayout elemOid).1 (elemLayout elemOid).2.2
          (elemLayout elemOid).2.1 none total.toNat 0 (12 + nd * 8) (fun bm hbm => by cases hbm)
        rw [hes]; exact ⟨_, rfl⟩

theorem decodeArray_total (dec : Dec) (hdec : DecTotal dec) (raw : Bytes) (elemOid : Nat) :
    ∃ r, decodeArray dec raw elemOid = .ok r := by
  unfold decodeArray
  obtain ⟨b, hb⟩ := isEmptyArray_total raw
  rw [hb]; simp only [ok_bind]
  split
  · exact ⟨_, rfl⟩
  · split
    · exact ⟨.nil, rfl⟩
    · rename_i h20
      rw [i32At_ok raw 0 (by omega)]
      simp only [ok_bind]
      split
      · exact ⟨.nil, rfl⟩
      · exact decodeDims_total dec hdec raw elemOid _ (by omega)

theorem decodeType_total (dec : Dec) (hdec : DecTotal dec) (data : Bytes) (oid : Nat) :
    ∃ r, decodeType dec data oid = .ok r := by
  unfold decodeType
  split
  · exact ⟨.nil, rfl⟩
  · split
    · exact decodeArray_total dec hdec data _
    · exact hdec data oid

/-! ### size of the result (the allocation side of C10) -/

theorem alignGo_ge (o a : Nat) : o ≤ alignGo o a := by
  unfold alignGo
  split
  · exact Nat.le_refl _
  · unfold andNot
    have := @Nat.and_le_right (o + a - 1) (a - 1)
    omega

theorem alignRel_ge (off a : Nat) : off ≤ alignRel off a := by
  unfold alignRel; have := alignGo_ge (off + 4) a; omega

/-- the loop never returns more elements than the claimed count -/
theorem parseElems_length_le (dec : Dec) (raw : Bytes) (elemOid elemLen elemAlign : Nat) (fixed : Bool)
    (nulls : Option Bytes) (n i off : Nat) (es : List GoVal)
    (h : parseElems dec raw elemOid elemLen elemAlign fixed nulls n i off = .ok es) : es.length ≤ n := by
  induction n generalizing i off es with
  | zero => simp [parseElems] at h; subst h; simp
  | succ n ih =>
    simp only [parseElems] at h
    cases hb : nullAt nulls i with
    | error e => simp [hb] at h
    | ok b =>
      simp only [hb, ok_bind] at h
      cases b with
      | true =>
        simp only [if_true] at h
        cases hr : parseElems dec raw elemOid elemLen elemAlign fixed nulls n (i + 1) off with
        | error e => simp [hr] at h
        | ok rest =>
          simp only [hr, ok_bind, pure_eq_ok] at h
          injection h with h; subst h
          have := ih _ _ _ hr; simp; omega
      | false =>
        simp only [Bool.false_eq_true, if_false] at h
        cases hr : readElem dec raw elemOid elemLen fixed (alignRel off elemAlign) with
        | error e => simp [hr] at h
        | ok r =>
          simp only [hr, ok_bind] at h
          cases r with
          | none => simp at h; subst h; simp
          | some p =>
            obtain ⟨v, off'⟩ := p
            simp only [] at h
            cases hr2 : parseElems dec raw elemOid elemLen elemAlign fixed nulls n (i + 1) off' with
            | error e => simp [hr2] at h
            | ok rest =>
              simp only [hr2, ok_bind, pure_eq_ok] at h
              injection h with h; subst h
              have := ih _ _ _ hr2; simp; omega

/-- a stored element consumes at least one byte and lies inside the value -/
theorem readElem_progress (dec : Dec) (raw : Bytes) (elemOid elemLen : Nat) (fixed : Bool) (off : Nat) (v : GoVal) (off' : Nat)
    (hl : fixed = true → 1 ≤ elemLen)
    (h : readElem dec raw elemOid elemLen fixed off = .ok (some (v, off'))) : off < off' ∧ off' ≤ raw.length := by
  unfold readElem at h
  split at h
  · rename_i hf
    have := hl hf
    split at h
    · simp at h
    · rename_i hlen
      rw [slice_ok raw off (off + elemLen) (by omega) (by omega)] at h
      simp only [ok_bind] at h
      cases hd : dec ((raw.take (off + elemLen)).drop off) elemOid with
      | error e => simp [hd] at h
      | ok w => simp [hd] at h; omega
  · split at h
    · simp at h
    · rename_i hoff
      rw [idx_ok raw off (by omega)] at h
      simp only [ok_bind] at h
      split at h
      · split at h
        · simp at h
        · rename_i hn
          rw [slice_ok raw (off + 1) (off + raw[off].toNat / 2) (by omega) (by omega)] at h
          simp only [ok_bind] at h
          cases hd : decodeVarlenaElem dec ((raw.take (off + raw[off].toNat / 2)).drop (off + 1)) elemOid with
          | error e => simp [hd] at h
          | ok w => simp [hd] at h; omega
      · split at h
        · simp at h
        · rename_i h4
          rw [uN_ok 4 raw off (by omega)] at h
          simp only [ok_bind] at h
          split at h
          · simp at h
          · rename_i hn
            rw [slice_ok raw (off + 4) (off + rd 4 (raw.drop off) / 4) (by omega) (by omega)] at h
            simp only [ok_bind] at h
            cases hd : decodeVarlenaElem dec ((raw.take (off + rd 4 (raw.drop off) / 4)).drop (off + 4)) elemOid with
            | error e => simp [hd] at h
            | ok w => simp [hd] at h; omega

/-- without a null bitmap every returned element was stored: there are at most as many as bytes after `off` -/
theorem parseElems_nobitmap_le (dec : Dec) (raw : Bytes) (elemOid elemLen elemAlign : Nat) (fixed : Bool)
    (hl : fixed = true → 1 ≤ elemLen) (n i off : Nat) (es : List GoVal)
    (h : parseElems dec raw elemOid elemLen elemAlign fixed none n i off = .ok es) : es.length ≤ raw.length - off := by
  induction n generalizing i off es with
  | zero => simp [parseElems] at h; subst h; simp
  | succ n ih =>
    simp only [parseElems, nullAt_none, ok_bind, Bool.false_eq_true, if_false] at h
    cases hr : readElem dec raw elemOid elemLen fixed (alignRel off elemAlign) with
    | error e => simp [hr] at h
    | ok r =>
      simp only [hr, ok_bind] at h
      cases r with
      | none => simp at h; subst h; simp
      | some p =>
        obtain ⟨v, off'⟩ := p
        simp only [] at h
        have hp := readElem_progress dec raw elemOid elemLen fixed _ v off' hl hr
        have hge := alignRel_ge off elemAlign
        cases hr2 : parseElems dec raw elemOid elemLen elemAlign fixed none n (i + 1) off' with
        | error e => simp [hr2] at h
        | ok rest =>
          simp only [hr2, ok_bind, pure_eq_ok] at h
          injection h with h; subst h
          have := ih _ _ _ hr2; simp; omega

theorem lookup_mem {α β} [BEq α] [LawfulBEq α] (l : List (α × β)) (k : α) (v : β) (h : l.lookup k = some v) : (k, v) ∈ l := by
  induction l with
  | nil => simp at h
  | cons p l ih =>
    obtain ⟨k', v'⟩ := p
    simp only [List.lookup] at h
    split at h
    · rename_i hk
      have : k = k' := by simpa using hk
      injection h with h; subst h; subst this; simp
    · exact List.mem_cons_of_mem _ (ih h)

/-- every width of the fixed-length table is positive -/
theorem elemLayout_fixed_pos (elemOid : Nat) (h : (elemLayout elemOid).2.1 = true) : 1 ≤ (elemLayout elemOid).1 := by
  unfold elemLayout at *
  cases hlk : fixedLengths.lookup elemOid with
  | none => simp [hlk] at h
  | some l =>
    simp only []
    have hm := lookup_mem fixedLengths elemOid l hlk
    have hall : ∀ p ∈ fixedLengths, 1 ≤ p.2 := by decide
    exact hall _ hm

/-- The result of decodeArray never has more than 8·len(raw) elements (one per bit of a null bitmap that lies inside
the value; without a bitmap at most one per byte) — whatever the dimensions claim. -/
theorem decodeArray_size (dec : Dec) (raw : Bytes) (elemOid : Nat) (es : List GoVal)
    (h : decodeArray dec raw elemOid = .ok (.arr es)) : es.length ≤ 8 * raw.length := by
  unfold decodeArray at h
  cases he : isEmptyArray raw with
  | error e => simp [he] at h
  | ok b =>
    simp only [he, ok_bind] at h
    cases b with
    | true => simp at h; subst h; simp
    | false =>
      simp only [Bool.false_eq_true, if_false] at h
      split at h
      · simp at h
      · cases hn : i32At raw 0 with
        | error e => simp [hn] at h
        | ok ndim =>
          simp only [hn, ok_bind] at h
          split at h
          · simp at h
          · unfold decodeDims at h
            split at h
            · simp at h
            · cases hdo : i32At raw 4 with
              | error e => simp [hdo] at h
              | ok dataoff =>
                simp only [hdo, ok_bind] at h
                cases hdp : dimsProduct raw ndim.toNat 0 1 with
                | error e => simp [hdp] at h
                | ok total =>
                  simp only [hdp, ok_bind] at h
                  split at h
                  · simp at h
                  · split at h
                    · split at h
                      · simp at h
                      · rename_i hb
                        cases hs : slice raw (12 + ndim.toNat * 8) (12 + ndim.toNat * 8 + (total.toNat + 7) / 8) with
                        | error e => simp [hs] at h
                        | ok bm =>
                          simp only [hs, ok_bind] at h
                          cases hp : parseElems dec raw elemOid (elemLayout elemOid).1 (elemLayout elemOid).2.2
                              (elemLayout elemOid).2.1 (some bm) total.toNat 0 (dataoff - 4).toNat with
                          | error e => simp [hp] at h
                          | ok es' =>
                            simp only [hp, ok_bind, pure_eq_ok] at h
                            injection h with h; injection h with h; subst h
                            have := parseElems_length_le _ _ _ _ _ _ _ _ _ _ _ hp
                            omega
                    · cases hp : parseElems dec raw elemOid (elemLayout elemOid).1 (elemLayout elemOid).2.2
                          (elemLayout elemOid).2.1 none total.toNat 0 (12 + ndim.toNat * 8) with
                      | error e => simp [hp] at h
                      | ok es' =>
                        simp only [hp, ok_bind, pure_eq_ok] at h
                        injection h with h; injection h with h; subst h
                        have := parseElems_nobitmap_le _ _ _ _ _ _ (elemLayout_fixed_pos elemOid) _ _ _ _ hp
                        omega

end PgVerif.Proofs.Arrays
