/-
  From the exact reading of a decoded JSONB document (`JV.toView`) to the Go value `ParseJSONB` returns
  (`JV.toGo pf`, numbers = `strconv.ParseFloat` of the decimal text) under ParseFloat's contract.
  Helpers for Props/C06.lean.
-/
import PgVerif.Model.JsonbView
namespace PgVerif.Proofs.JsonbGo
open PgVerif PgVerif.Model PgVerif.Spec

/-- a `DecodeNumeric` result whose exact reading is `v`: its Go value, as a number, is the float64 nearest to `v` -/
theorem num_toGo (pf : ParseFloat) (hpf : ParseFloatOK pf) (r : NumRes) (v : NumView)
    (h : r.toView = some v) : numAsF64 (r.toGo pf) = v.toGo := by
  cases r with
  | none => simp [NumRes.toView] at h
  | int0 => simp only [NumRes.toView, Option.some.injEq] at h; subst h; rfl
  | fzero => simp only [NumRes.toView, Option.some.injEq] at h; subst h; rfl
  | special s => cases s <;> (simp only [NumRes.toView, Option.some.injEq] at h; subst h; rfl)
  | num t =>
    simp only [NumRes.toView] at h
    cases hr : readDecimal t with
    | none => rw [hr] at h; simp at h
    | some x =>
      obtain ⟨a, b, c⟩ := x
      rw [hr] at h
      simp only [Option.map_some, Option.some.injEq] at h
      subst h
      show GoVal.f64 (pf t) = GoVal.f64 (f64OfDec a b c)
      rw [hpf t a b c hr]

mutual
/-- the view of a document never contains `undecodable` -/
theorem view_decodable : (j : Json) → j.view.decodable = true
  | .null => rfl
  | .bool _ => rfl
  | .num _ _ => rfl
  | .str _ => rfl
  | .arr xs => by simp only [Json.view, JView.decodable]; exact viewList_decodable xs
  | .obj kvs => by simp only [Json.view, JView.decodable]; exact viewKvs_decodable kvs
theorem viewList_decodable : (xs : List Json) → JView.decodableList (viewList xs) = true
  | [] => rfl
  | x :: xs => by simp only [viewList, JView.decodableList, view_decodable x, viewList_decodable xs, Bool.and_self]
theorem viewKvs_decodable : (kvs : List (Bytes × Json)) → JView.decodableKvs (viewKvs kvs) = true
  | [] => rfl
  | (_, v) :: rest => by simp only [viewKvs, JView.decodableKvs, view_decodable v, viewKvs_decodable rest, Bool.and_self]
end

mutual
/-- a decoded document whose exact reading holds no undecodable number: its Go value (ints read as float64s) is the Go
value of that reading, every number being the float64 nearest to its exact value -/
theorem jv_toGo (pf : ParseFloat) (hpf : ParseFloatOK pf) : (jv : JV) → jv.toView.decodable = true →
    numAsF64 (jv.toGo pf) = jv.toView.toGo
  | .nil, _ => rfl
  | .bool _, _ => rfl
  | .str _, _ => rfl
  | .num r, h => by
    cases hr : r.toView with
    | none => simp [JV.toView, hr, JView.decodable] at h
    | some v =>
      simp only [JV.toView, hr, JV.toGo, JView.toGo]
      exact num_toGo pf hpf r v hr
  | .arr xs, h => by
    simp only [JV.toView, JView.decodable] at h
    simp only [JV.toGo, JV.toView, JView.toGo, numAsF64, jvList_toGo pf hpf xs h]
  | .obj kvs, h => by
    simp only [JV.toView, JView.decodable] at h
    simp only [JV.toGo, JV.toView, JView.toGo, numAsF64, jvKvs_toGo pf hpf kvs h]
theorem jvList_toGo (pf : ParseFloat) (hpf : ParseFloatOK pf) : (xs : List JV) → JView.decodableList (toViewList xs) = true →
    numAsF64List (toGoList pf xs) = JView.toGoList (toViewList xs)
  | [], _ => rfl
  | x :: xs, h => by
    simp only [toViewList, JView.decodableList, Bool.and_eq_true] at h
    simp only [toGoList, toViewList, numAsF64List, JView.toGoList, jv_toGo pf hpf x h.1, jvList_toGo pf hpf xs h.2]
theorem jvKvs_toGo (pf : ParseFloat) (hpf : ParseFloatOK pf) : (kvs : List (Bytes × JV)) → JView.decodableKvs (toViewKvs kvs) = true →
    numAsF64Kvs (toGoKvs pf kvs) = JView.toGoKvs (toViewKvs kvs)
  | [], _ => rfl
  | (k, v) :: rest, h => by
    simp only [toViewKvs, JView.decodableKvs, Bool.and_eq_true] at h
    simp only [toGoKvs, toViewKvs, numAsF64Kvs, JView.toGoKvs, jv_toGo pf hpf v h.1, jvKvs_toGo pf hpf rest h.2]
end

end PgVerif.Proofs.JsonbGo
