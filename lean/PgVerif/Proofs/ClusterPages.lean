/-
  Helper lemmas for C01: the heap files a `Spec.Cluster` is encoded into (`Spec.encTuplePages`: one page per list of
  tuples) are well-formed heap files in the sense of area `heap`/`rows`, so ReadRows on them is the per-tuple
  decoder over the stored tuples; and the column loop of DecodeTuple on a tuple whose data area STARTS with the
  layout of a schema (the catalog schemas of the tool are prefixes of PostgreSQL's catalogs).
-/
import PgVerif.Props.C03
import PgVerif.Spec.Cluster
import PgVerif.Proofs.ClusterClass
namespace PgVerif.Proofs.Cluster
open PgVerif PgVerif.Model PgVerif.Spec PgVerif.Proofs PgVerif.Proofs.Rows List

/-! ### pages of tuples -/

theorem slotsOf_snd (ts : List Tuple) (p : Nat) : (slotsOf ts p).map (·.2) = ts := by
  induction ts generalizing p with
  | nil => rfl
  | cons t ts ih => simp [slotsOf, ih]

theorem slotsOf_length (ts : List Tuple) (p : Nat) : (slotsOf ts p).length = ts.length := by
  rw [← length_map (f := (·.2)), slotsOf_snd]

def lastPad (ts : List Tuple) : Nat := match ts.getLast? with | some t => pad8 t.len | none => 0

theorem slotsOf_sum (t : Tuple) (ts : List Tuple) (p : Nat) :
    ((slotsOf (t :: ts) p).map slotLen).sum + lastPad (t :: ts) =
      p + ((t :: ts).map fun t => t.len + pad8 t.len).sum := by
  induction ts generalizing t p with
  | nil => simp [slotsOf, slotLen, lastPad]; omega
  | cons u us ih =>
    have h := ih u (pad8 t.len)
    have hl : lastPad (t :: u :: us) = lastPad (u :: us) := by
      simp [lastPad, getLast?_cons_cons]
    rw [hl]
    simp only [slotsOf, map_cons, sum_cons, slotLen, zeros_length] at h ⊢
    omega

theorem pageNeed_eq (ts : List Tuple) : pageNeed ts = 24 + 4 * ts.length + (ts.map fun t => t.len + pad8 t.len).sum := by
  unfold pageNeed
  induction ts with
  | nil => rfl
  | cons t ts ih => simp only [map_cons, sum_cons, length_cons] at ih ⊢; omega

theorem range_filterMap_getElem? {α} (l : List α) : (List.range l.length).filterMap (fun k => l[k]?) = l := by
  induction l with
  | nil => rfl
  | cons a l ih =>
    rw [length_cons, range_succ_eq_map, filterMap_cons]
    simp only [getElem?_cons_zero, filterMap_map]
    congr 1

theorem pageOfTuples_eq (ts : List Tuple) : pageOfTuples ts =
    { hdr0 := zeros 12, special := 8192, version := 4, prune := 0,
      lps := (List.range ts.length).map .normal,
      free := zeros (8192 - (24 + 4 * ts.length) - ((slotsOf ts 0).map slotLen).sum - lastPad ts),
      slots := slotsOf ts 0, tail := zeros (lastPad ts) } := rfl

/-- a page built from well-formed tuples that fit is a well-formed page -/
theorem pageOfTuples_WF (ts : List Tuple) (hwf : ∀ t ∈ ts, t.WF) (hfit : pageNeed ts ≤ 8192) : (pageOfTuples ts).WF := by
  rw [pageNeed_eq] at hfit
  rw [pageOfTuples_eq]
  refine ⟨by simp, by simp, by simp, by simp, by simp, ?_, ?_, ?_, normalSlots_nodup_of_range _ ts.length rfl⟩
  · intro l hl
    simp only [mem_map, mem_range] at hl
    obtain ⟨k, hk, rfl⟩ := hl
    simp only [LP.WF, slotsOf_length]
    exact hk
  · intro s hs
    simp only at hs
    apply hwf
    rw [← slotsOf_snd ts 0]
    exact mem_map_of_mem hs
  · cases ts with
    | nil => simp [Page.upper, Page.lower, slotsOf, lastPad]
    | cons t ts =>
      have h := slotsOf_sum t ts 0
      simp only [Page.upper, Page.lower, zeros_length, length_map, length_range]
      generalize ((slotsOf (t :: ts) 0).map slotLen).sum = used at h ⊢
      generalize ((t :: ts).map fun t => t.len + pad8 t.len).sum = tot at h hfit
      generalize lastPad (t :: ts) = tl at h ⊢
      simp only [length_cons] at hfit ⊢
      omega

theorem pageOfTuples_tuples (ts : List Tuple) : (pageOfTuples ts).normalTuples = ts := by
  unfold Page.normalTuples
  rw [pageOfTuples_eq]
  simp only [filterMap_map]
  refine Eq.trans (filterMap_congr' _ _ _ ?_) (range_filterMap_getElem? ts)
  intro k _
  simp only [Function.comp]
  have h := congrArg (fun l => l[k]?) (slotsOf_snd ts 0)
  simp only [getElem?_map] at h
  exact h

def blocksOf (pages : List (List Tuple)) : List Block := pages.map fun ts => .page (pageOfTuples ts)

theorem encTuplePages_eq (pages : List (List Tuple)) : encTuplePages pages = encHeap (blocksOf pages) [] := by
  simp [encTuplePages, encHeap, blocksOf, flatMap_def, Function.comp_def, encBlock]

theorem fileTuples_blocksOf (pages : List (List Tuple)) : fileTuples (blocksOf pages) = pages.flatten := by
  simp [fileTuples, blocksOf, flatMap_def, Function.comp_def, Block.tuples, pageOfTuples_tuples]

theorem blocksOf_WF (pages : List (List Tuple)) (hwf : ∀ ts ∈ pages, ∀ t ∈ ts, t.WF) (hfit : pagesFit pages) :
    ∀ b ∈ blocksOf pages, b.WF := by
  intro b hb
  simp only [blocksOf, mem_map] at hb
  obtain ⟨ts, hts, rfl⟩ := hb
  exact pageOfTuples_WF ts (hwf ts hts) (hfit ts hts)

/-- **ReadRows on an encoded heap** = the per-tuple decoder over the stored tuples, in page then pointer order,
restricted to the versions whose own hint bits say live when `vis` is set -/
theorem readRows_pages (dec : Dec) (pages : List (List Tuple)) (mcols : List Column) (vis : Bool)
    (hwf : ∀ ts ∈ pages, ∀ t ∈ ts, t.WF) (hfit : pagesFit pages) :
    readRows dec (encTuplePages pages) mcols vis =
      collectM (fun t => decodeTuple dec (mtuple t) mcols) (pages.flatten.filter fun t => !vis || liveBits t.infomask) := by
  unfold readRows
  rw [encTuplePages_eq, collect_scan (fun t => decodeTuple dec t mcols) _ [] vis (blocksOf_WF pages hwf hfit) (by simp),
    fileTuples_blocksOf]
  exact (PgVerif.Proofs.Rows.collectM_map mtuple (fun t => decodeTuple dec t mcols) _).symm

theorem encTuplePages_length (pages : List (List Tuple)) (hwf : ∀ ts ∈ pages, ∀ t ∈ ts, t.WF) (hfit : pagesFit pages) :
    (encTuplePages pages).length = 8192 * pages.length := by
  induction pages with
  | nil => rfl
  | cons ts pages ih =>
    have h1 := encBlock_length (.page (pageOfTuples ts)) (pageOfTuples_WF ts (hwf ts (by simp)) (hfit ts (by simp)))
    have h2 := ih (fun x hx => hwf x (by simp [hx])) (fun x hx => hfit x (by simp [hx]))
    simp only [encTuplePages, map_cons, flatten_cons, length_append, length_cons] at h2 ⊢
    simp only [encBlock] at h1
    rw [h1, h2]; omega

/-! ### the column loop on a tuple that starts with the layout of the schema -/

/-- all attributes of the schema are stored and non-NULL, and the tuple's data area begins with their layout
(`rest` = the attributes the schema does not know about): the column loop returns what the spec expects. -/
theorem decodeCols_stored (dec : Dec) (t : HeapTuple) :
    ∀ (cols : List Col) (mcols : List Column) (ds : List Datum) (i : Nat) (pre rest : Bytes),
      ColsMatch i mcols cols → ds.length = cols.length →
      (∀ p ∈ cols.zip ds, Pow2Align p.1.align ∧ p.2.WF p.1) →
      (∀ j, j < cols.length → t.isNull (((i + j : Nat) : Int) + 1) = false) →
      t.data = pre ++ (form cols (ds.map some) pre.length ++ rest) →
      decodeCols dec t mcols i pre.length = expectedCols (varlenaVal dec) cols (ds.map some) cols.length := by
  intro cols
  induction cols with
  | nil =>
    intro mcols ds i pre rest hm hlen _ _ _
    cases mcols with
    | nil => cases ds <;> rfl
    | cons _ _ => exact hm.elim
  | cons c cs ih =>
    intro mcols ds i pre rest hm hlen hwf hn hdata
    cases mcols with
    | nil => exact hm.elim
    | cons mc ms =>
    cases ds with
    | nil => simp at hlen
    | cons d ds =>
    have hlen' : ds.length = cs.length := by simpa using hlen
    have hwf' : ∀ p ∈ cs.zip ds, Pow2Align p.1.align ∧ p.2.WF p.1 :=
      fun p hp => hwf p (by simp [zip_cons_cons, hp])
    obtain ⟨⟨hname, htyp, hl, hnum, hal⟩, hms⟩ := hm
    have hnumv : (if mc.num = 0 then (i : Int) + 1 else mc.num) = (i : Int) + 1 := by
      rcases hnum with h | h
      · rw [if_pos h]
      · by_cases h0 : mc.num = 0
        · rw [if_pos h0]
        · rw [if_neg h0, h]
    have hn0 : t.isNull ((i : Int) + 1) = false := by simpa using hn 0 (by simp)
    have hn' : ∀ j, j < cs.length → t.isNull (((i + 1 + j : Nat) : Int) + 1) = false := by
      intro j hj
      have := hn (j + 1) (by simp; omega)
      rw [show i + (j + 1) = i + 1 + j by omega] at this
      exact this
    simp only [decodeCols, hnumv, hn0]
    obtain ⟨hpa, hdw⟩ := hwf (c, d) (by simp [zip_cons_cons])
    have hdata1 : t.data = pre ++ (formDatum c pre.length d ++
        (form cs (ds.map some) (pre.length + (formDatum c pre.length d).length) ++ rest)) := by
      rw [hdata]; simp [form]
    obtain ⟨a, n, hca, hrv, hoff⟩ := step dec mc c d hl htyp hal hpa hdw pre
      (form cs (ds.map some) (pre.length + (formDatum c pre.length d).length) ++ rest)
    rw [← hdata1] at hca hrv
    simp only [Bool.false_eq_true, if_false]
    rw [hca]
    simp only [ok_bind]
    rw [hrv]
    have hdata' : t.data = (pre ++ formDatum c pre.length d) ++
        (form cs (ds.map some) (pre ++ formDatum c pre.length d).length ++ rest) := by
      rw [hdata1]; simp [append_assoc]
    have hrec := ih ms ds (i + 1) (pre ++ formDatum c pre.length d) rest hms hlen' hwf' hn' hdata'
    simp only [length_append] at hrec
    simp only [map_cons, length_cons, expectedCols, Nat.add_one_sub_one, hname]
    cases hx : expectedVal (varlenaVal dec) c d with
    | error e => rfl
    | ok x =>
      simp only [ok_bind, pure_eq_ok]
      rw [hoff, hrec]

/-- splitting the data area after the first `m` attributes -/
theorem form_split (m : Nat) : ∀ (cols : List Col) (vals : List (Option Datum)) (o : Nat),
    form cols vals o = form (cols.take m) (vals.take m) o ++
      form (cols.drop m) (vals.drop m) (o + (form (cols.take m) (vals.take m) o).length) := by
  induction m with
  | zero => intro cols vals o; simp [form]
  | succ m ih =>
    intro cols vals o
    cases cols with
    | nil => simp [form]
    | cons c cs =>
      cases vals with
      | nil => simp [form]
      | cons v vs =>
        cases v with
        | none =>
          simp only [take_succ_cons, drop_succ_cons, form]
          exact ih cs vs o
        | some d =>
          simp only [take_succ_cons, drop_succ_cons, form]
          rw [ih cs vs (o + (formDatum c o d).length)]
          simp [append_assoc, Nat.add_assoc]

end PgVerif.Proofs.Cluster
