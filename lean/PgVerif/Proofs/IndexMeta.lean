/-
  The metapage parsers (parseBTreeMeta / parseHashMeta / parseGINMeta) on encoded first pages.
-/
import PgVerif.Proofs.IndexDetect
namespace PgVerif.Proofs.Index
open PgVerif PgVerif.Model.Index PgVerif.Spec.Index

def metaFields : Meta → List Field
  | .btree m => [(4, btMagic), (4, m.version), (4, m.root), (4, m.level), (4, m.fastroot), (4, m.fastlevel)]
  | .hash m => [(4, m.magic), (4, m.version), (8, m.ntuples), (2, m.ffactor), (2, m.bsize), (2, m.bmsize), (2, m.bmshift),
                (4, m.maxbucket), (4, m.highmask), (4, m.lowmask)]
  | .gin m => [(4, m.head), (4, m.tail), (4, m.tailFree), (4, m.nPendingPages), (8, m.nPendingHeapTuples), (4, m.nTotalPages),
               (4, m.nEntryPages), (4, m.nDataPages), (4, m.pad), (8, m.nEntries), (4, m.version)]

theorem encMeta_fields (m : Meta) : encMeta m = encFields (metaFields m) := by
  cases m <;> simp [encMeta, encFields, metaFields]

/-- what the metapage parsers must return, as a model record -/
def expectMeta : Meta → MetaInfo
  | .btree m => .btree btMagic m.version m.root m.level m.fastroot m.fastlevel
  | .hash m => .hash m.magic m.version ((m.maxbucket + 1) % 2 ^ 32) m.maxbucket m.highmask m.lowmask m.ffactor m.ntuples
  | .gin m => .gin m.version m.head m.tail m.tailFree m.nPendingPages m.nPendingHeapTuples m.nTotalPages m.nEntryPages
      m.nDataPages m.nEntries

theorem encPage_drop24 (p : Page) : (encPage p).drop 24 = p.body ++ encOpaque p.op := by
  rw [encPage_split]; apply List.drop_left'
  simp [encFields_length, hdrFields]

theorem special16 (p : Page) (h : p.op.size = 16) : p.special = 8176 := by unfold Page.special; rw [h]
theorem special8 (p : Page) (h : p.op.size = 8) : p.special = 8184 := by unfold Page.special; rw [h]

theorem btreeMeta_enc (p : Page) (h : p.WF) (pr nx lv f c : Nat) (hp : p.op = .btree pr nx lv f c) (hb : f.testBit 3 = true)
    (m : BtMeta) (hm : (Meta.btree m).WF) (rest : Bytes) (hbody : p.body = encMeta (.btree m) ++ rest) :
    parseBTreeMeta (encPage p) = .ok (some (expectMeta (.btree m))) := by
  have hlen := encPage_length p h
  have hs : p.special = 8176 := special16 p (by simp [hp, Opaque.size, Opaque.am, AM.opaqueSize])
  have hop : p.op.WF := h.2.2.2.2.2.2.2.2.2.2
  rw [hp] at hop
  obtain ⟨h1, h2, h3, h4, h5⟩ := hop
  have r3 := rd_op (opFields (.btree pr nx lv f c)) 3 (by simp [opFields]) (by simpa [opFields] using h4)
  simp [opFields, offsetOf] at r3
  have e12 : rd 2 ((encPage p).drop (8176 + 12)) = f := by
    rw [← hs, drop_tail p h 12, hp, encOpaque_fields]; simpa [opFields] using r3
  have hd : (encPage p).drop 24 = encFields (metaFields (.btree m)) ++ (rest ++ encOpaque p.op) := by
    rw [encPage_drop24, hbody, encMeta_fields, List.append_assoc]
  obtain ⟨m1, m2, m3, m4, m5⟩ := hm
  have u0 := uN_field (metaFields (.btree m)) (rest ++ encOpaque p.op) 0 (by simp [metaFields]) (by simp [metaFields, btMagic])
  have u1 := uN_field (metaFields (.btree m)) (rest ++ encOpaque p.op) 1 (by simp [metaFields]) (by simpa [metaFields] using m1)
  have u2 := uN_field (metaFields (.btree m)) (rest ++ encOpaque p.op) 2 (by simp [metaFields]) (by simpa [metaFields] using m2)
  have u3 := uN_field (metaFields (.btree m)) (rest ++ encOpaque p.op) 3 (by simp [metaFields]) (by simpa [metaFields] using m3)
  have u4 := uN_field (metaFields (.btree m)) (rest ++ encOpaque p.op) 4 (by simp [metaFields]) (by simpa [metaFields] using m4)
  have u5 := uN_field (metaFields (.btree m)) (rest ++ encOpaque p.op) 5 (by simp [metaFields]) (by simpa [metaFields] using m5)
  simp [metaFields, offsetOf] at u0 u1 u2 u3 u4 u5
  unfold parseBTreeMeta
  rw [if_neg (by omega)]
  simp (disch := omega) only [uN_ok, ok_bind, rd_special, hs, sliceFrom_ok]
  rw [if_neg (by omega)]
  simp only [e12, bit3z, hb, Bool.not_true, Bool.false_eq_true, if_false, hd, metaFields, u0, u1, u2, u3, u4, u5, ok_bind, pure_eq_ok,
    expectMeta, btMagic]
  simp

theorem hashMeta_enc (p : Page) (h : p.WF) (pr nx b f : Nat) (hp : p.op = .hash pr nx b f) (hb : f.testBit 3 = true)
    (m : HashMeta) (hm : (Meta.hash m).WF) (rest : Bytes) (hbody : p.body = encMeta (.hash m) ++ rest) :
    parseHashMeta (encPage p) = .ok (some (expectMeta (.hash m))) := by
  have hlen := encPage_length p h
  have hs : p.special = 8176 := special16 p (by simp [hp, Opaque.size, Opaque.am, AM.opaqueSize])
  have hop : p.op.WF := h.2.2.2.2.2.2.2.2.2.2
  rw [hp] at hop
  obtain ⟨h1, h2, h3, h4⟩ := hop
  have r3 := rd_op (opFields (.hash pr nx b f)) 3 (by simp [opFields]) (by simpa [opFields] using h4)
  simp [opFields, offsetOf] at r3
  have e12 : rd 2 ((encPage p).drop (8176 + 12)) = f := by
    rw [← hs, drop_tail p h 12, hp, encOpaque_fields]; simpa [opFields] using r3
  have hd : (encPage p).drop 24 = encFields (metaFields (.hash m)) ++ (rest ++ encOpaque p.op) := by
    rw [encPage_drop24, hbody, encMeta_fields, List.append_assoc]
  obtain ⟨m1, m2, m3, m4, m5, m6, m7, m8, m9, m10⟩ := hm
  have u0 := uN_field (metaFields (.hash m)) (rest ++ encOpaque p.op) 0 (by simp [metaFields]) (by simpa [metaFields] using m1)
  have u1 := uN_field (metaFields (.hash m)) (rest ++ encOpaque p.op) 1 (by simp [metaFields]) (by simpa [metaFields] using m2)
  have u2 := uN_field (metaFields (.hash m)) (rest ++ encOpaque p.op) 2 (by simp [metaFields]) (by simpa [metaFields] using m3)
  have u3 := uN_field (metaFields (.hash m)) (rest ++ encOpaque p.op) 3 (by simp [metaFields]) (by simpa [metaFields] using m4)
  have u7 := uN_field (metaFields (.hash m)) (rest ++ encOpaque p.op) 7 (by simp [metaFields]) (by simpa [metaFields] using m8)
  have u8 := uN_field (metaFields (.hash m)) (rest ++ encOpaque p.op) 8 (by simp [metaFields]) (by simpa [metaFields] using m9)
  have u9 := uN_field (metaFields (.hash m)) (rest ++ encOpaque p.op) 9 (by simp [metaFields]) (by simpa [metaFields] using m10)
  simp [metaFields, offsetOf] at u0 u1 u2 u3 u7 u8 u9
  unfold parseHashMeta
  rw [if_neg (by omega)]
  simp (disch := omega) only [uN_ok, ok_bind, rd_special, hs, sliceFrom_ok]
  rw [if_neg (by omega)]
  simp only [e12, bit3z, hb, Bool.not_true, Bool.false_eq_true, if_false, hd, metaFields, u0, u1, u2, u3, u7, u8, u9, ok_bind, pure_eq_ok,
    expectMeta]

theorem ginMeta_enc (p : Page) (h : p.WF) (r mo f : Nat) (hp : p.op = .gin r mo f) (hb : f.testBit 3 = true)
    (m : GinMeta) (hm : (Meta.gin m).WF) (rest : Bytes) (hbody : p.body = encMeta (.gin m) ++ rest) :
    parseGINMeta (encPage p) = .ok (some (expectMeta (.gin m))) := by
  have hlen := encPage_length p h
  have hs : p.special = 8184 := special8 p (by simp [hp, Opaque.size, Opaque.am, AM.opaqueSize])
  have hop : p.op.WF := h.2.2.2.2.2.2.2.2.2.2
  rw [hp] at hop
  obtain ⟨h1, h2, h3⟩ := hop
  have r2 := uN_op (opFields (.gin r mo f)) 2 (by simp [opFields]) (by simp [opFields]; omega)
  simp [opFields, offsetOf] at r2
  have hsd : (encPage p).drop 8184 = encFields (opFields (.gin r mo f)) := by
    rw [← hs, encPage_drop_special p h, hp, encOpaque_fields]
  have hsl : (encFields (opFields (.gin r mo f))).length = 8 := by simp [encFields_length, opFields]
  have hd : (encPage p).drop 24 = encFields (metaFields (.gin m)) ++ (rest ++ encOpaque p.op) := by
    rw [encPage_drop24, hbody, encMeta_fields, List.append_assoc]
  obtain ⟨m1, m2, m3, m4, m5, m6, m7, m8, m9, m10, m11⟩ := hm
  have u0 := uN_field (metaFields (.gin m)) (rest ++ encOpaque p.op) 0 (by simp [metaFields]) (by simpa [metaFields] using m1)
  have u1 := uN_field (metaFields (.gin m)) (rest ++ encOpaque p.op) 1 (by simp [metaFields]) (by simpa [metaFields] using m2)
  have u2 := uN_field (metaFields (.gin m)) (rest ++ encOpaque p.op) 2 (by simp [metaFields]) (by simpa [metaFields] using m3)
  have u3 := uN_field (metaFields (.gin m)) (rest ++ encOpaque p.op) 3 (by simp [metaFields]) (by simpa [metaFields] using m4)
  have u4 := uN_field (metaFields (.gin m)) (rest ++ encOpaque p.op) 4 (by simp [metaFields]) (by simp [metaFields]; omega)
  have u5 := uN_field (metaFields (.gin m)) (rest ++ encOpaque p.op) 5 (by simp [metaFields]) (by simpa [metaFields] using m6)
  have u6 := uN_field (metaFields (.gin m)) (rest ++ encOpaque p.op) 6 (by simp [metaFields]) (by simpa [metaFields] using m7)
  have u7 := uN_field (metaFields (.gin m)) (rest ++ encOpaque p.op) 7 (by simp [metaFields]) (by simpa [metaFields] using m8)
  have u9 := uN_field (metaFields (.gin m)) (rest ++ encOpaque p.op) 9 (by simp [metaFields]) (by simp [metaFields]; omega)
  have u10 := uN_field (metaFields (.gin m)) (rest ++ encOpaque p.op) 10 (by simp [metaFields]) (by simp [metaFields]; omega)
  simp [metaFields, offsetOf] at u0 u1 u2 u3 u4 u5 u6 u7 u9 u10
  unfold parseGINMeta
  rw [if_neg (by omega)]
  simp (disch := omega) only [uN_ok, ok_bind, rd_special, hs, sliceFrom_ok]
  rw [if_neg (by omega)]
  simp only [hsd]
  rw [if_neg (by omega)]
  simp only [opFields, r2, ok_bind, bit3z, hb, Bool.not_true, Bool.false_eq_true, if_false, hd, metaFields, u0, u1, u2, u3, u4, u5, u6, u7, u9, u10,
    pure_eq_ok, expectMeta]

/-! ### pages that are not metapages -/

theorem btreeMeta_none (p : Page) (h : p.WF) (pr nx lv f c : Nat) (hp : p.op = .btree pr nx lv f c) (hb : f.testBit 3 = false) :
    parseBTreeMeta (encPage p) = .ok none := by
  have hlen := encPage_length p h
  have hs : p.special = 8176 := special16 p (by simp [hp, Opaque.size, Opaque.am, AM.opaqueSize])
  have hop : p.op.WF := h.2.2.2.2.2.2.2.2.2.2
  rw [hp] at hop
  obtain ⟨h1, h2, h3, h4, h5⟩ := hop
  have r3 := rd_op (opFields (.btree pr nx lv f c)) 3 (by simp [opFields]) (by simpa [opFields] using h4)
  simp [opFields, offsetOf] at r3
  have e12 : rd 2 ((encPage p).drop (8176 + 12)) = f := by
    rw [← hs, drop_tail p h 12, hp, encOpaque_fields]; simpa [opFields] using r3
  unfold parseBTreeMeta
  rw [if_neg (by omega)]
  simp (disch := omega) only [uN_ok, ok_bind, rd_special, hs, sliceFrom_ok]
  rw [if_neg (by omega)]
  simp only [e12, bit3z, hb, Bool.not_false, if_true, pure_eq_ok]

theorem hashMeta_none (p : Page) (h : p.WF) (pr nx b f : Nat) (hp : p.op = .hash pr nx b f) (hb : f.testBit 3 = false) :
    parseHashMeta (encPage p) = .ok none := by
  have hlen := encPage_length p h
  have hs : p.special = 8176 := special16 p (by simp [hp, Opaque.size, Opaque.am, AM.opaqueSize])
  have hop : p.op.WF := h.2.2.2.2.2.2.2.2.2.2
  rw [hp] at hop
  obtain ⟨h1, h2, h3, h4⟩ := hop
  have r3 := rd_op (opFields (.hash pr nx b f)) 3 (by simp [opFields]) (by simpa [opFields] using h4)
  simp [opFields, offsetOf] at r3
  have e12 : rd 2 ((encPage p).drop (8176 + 12)) = f := by
    rw [← hs, drop_tail p h 12, hp, encOpaque_fields]; simpa [opFields] using r3
  unfold parseHashMeta
  rw [if_neg (by omega)]
  simp (disch := omega) only [uN_ok, ok_bind, rd_special, hs, sliceFrom_ok]
  rw [if_neg (by omega)]
  simp only [e12, bit3z, hb, Bool.not_false, if_true, pure_eq_ok]

theorem ginMeta_none (p : Page) (h : p.WF) (r mo f : Nat) (hp : p.op = .gin r mo f) (hb : f.testBit 3 = false) :
    parseGINMeta (encPage p) = .ok none := by
  have hlen := encPage_length p h
  have hs : p.special = 8184 := special8 p (by simp [hp, Opaque.size, Opaque.am, AM.opaqueSize])
  have hop : p.op.WF := h.2.2.2.2.2.2.2.2.2.2
  rw [hp] at hop
  obtain ⟨h1, h2, h3⟩ := hop
  have r2 := uN_op (opFields (.gin r mo f)) 2 (by simp [opFields]) (by simp [opFields]; omega)
  simp [opFields, offsetOf] at r2
  have hsd : (encPage p).drop 8184 = encFields (opFields (.gin r mo f)) := by
    rw [← hs, encPage_drop_special p h, hp, encOpaque_fields]
  have hsl : (encFields (opFields (.gin r mo f))).length = 8 := by simp [encFields_length, opFields]
  unfold parseGINMeta
  rw [if_neg (by omega)]
  simp (disch := omega) only [uN_ok, ok_bind, rd_special, hs, sliceFrom_ok]
  rw [if_neg (by omega)]
  simp only [hsd]
  rw [if_neg (by omega)]
  simp only [opFields, r2, ok_bind, bit3z, hb, Bool.not_false, if_true, pure_eq_ok]

/-- the first word after the page header of a page whose body starts with a B-tree metapage is BTREE_MAGIC -/
theorem magic_of_body (p : Page) (m : BtMeta) (rest : Bytes) (hbody : p.body = encMeta (.btree m) ++ rest) :
    rd 4 ((encPage p).drop 24) = btMagic := by
  rw [encPage_drop24, hbody, encMeta_fields, List.append_assoc]
  have := read_field (metaFields (.btree m)) (rest ++ encOpaque p.op) 0 (by simp [metaFields]) (by simp [metaFields, btMagic])
  simpa [metaFields, offsetOf] using this

theorem magicOK_of_not_btree (p : Page) (h : p.op.am ≠ .btree) : MagicOK p := by
  intro pr nx lv f c hp _
  rw [hp] at h; exact absurd rfl h

theorem magicOK_of_clear (p : Page) (pr nx lv f c : Nat) (hp : p.op = .btree pr nx lv f c) (hb : f.testBit 3 = false) :
    MagicOK p := by
  intro pr' nx' lv' f' c' hp' hb'
  have e : f = f' := by rw [hp] at hp'; exact (Opaque.btree.inj hp').2.2.2.1
  rw [← e, hb] at hb'; exact absurd hb' (by decide)

theorem magicOK_of_body (p : Page) (m : BtMeta) (rest : Bytes) (hbody : p.body = encMeta (.btree m) ++ rest) : MagicOK p := by
  intro _ _ _ _ _ _ _; exact magic_of_body p m rest hbody

/-- block 0 of a well-formed file: the `switch info.Type` of ParseIndexFile yields exactly the stored metapage (or nil) -/
theorem parseMeta_enc (f : File) (p0 : Page) (hp0 : f.pages.head? = some p0) (hw : p0.WF) (ham : p0.op.am = f.am)
    (hm : f.metaOK) : parseMeta (code f.am) (encPage p0) = .ok (f.metaPage.map expectMeta) ∧ MagicOK p0 := by
  unfold File.metaOK at hm
  rw [hp0] at hm
  cases hmp : f.metaPage with
  | none =>
    rw [hmp] at hm
    simp only at hm
    rw [← ham] at hm ⊢
    cases hp : p0.op with
    | btree pr nx lv fl c =>
      have hb : fl.testBit 3 = false := by have := hm 3 (by rw [hp]; rfl); simpa [hp, Opaque.flags] using this
      exact ⟨by simpa [parseMeta, code, Opaque.am] using btreeMeta_none p0 hw _ _ _ _ _ hp hb, magicOK_of_clear p0 _ _ _ _ _ hp hb⟩
    | hash pr nx b fl =>
      have hb : fl.testBit 3 = false := by have := hm 3 (by rw [hp]; rfl); simpa [hp, Opaque.flags] using this
      exact ⟨by simpa [parseMeta, code, Opaque.am] using hashMeta_none p0 hw _ _ _ _ hp hb, magicOK_of_not_btree p0 (by rw [hp]; simp [Opaque.am])⟩
    | gin r mo fl =>
      have hb : fl.testBit 3 = false := by have := hm 3 (by rw [hp]; rfl); simpa [hp, Opaque.flags] using this
      exact ⟨by simpa [parseMeta, code, Opaque.am] using ginMeta_none p0 hw _ _ _ hp hb, magicOK_of_not_btree p0 (by rw [hp]; simp [Opaque.am])⟩
    | gist nsn r fl => exact ⟨rfl, magicOK_of_not_btree p0 (by rw [hp]; simp [Opaque.am])⟩
    | spgist fl a b => exact ⟨rfl, magicOK_of_not_btree p0 (by rw [hp]; simp [Opaque.am])⟩
    | brin a b fl t => exact ⟨rfl, magicOK_of_not_btree p0 (by rw [hp]; simp [Opaque.am])⟩
  | some m =>
    rw [hmp] at hm
    simp only at hm
    obtain ⟨hma, hmw, _, hb, ⟨rest, hbody⟩⟩ := hm
    rw [← ham] at hma ⊢
    cases hp : p0.op with
    | btree pr nx lv fl c =>
      rw [hp] at hma
      cases m with
      | btree bm =>
        have hb' : fl.testBit 3 = true := by simpa [hp, Opaque.flags] using hb
        exact ⟨by simpa [parseMeta, code, Opaque.am] using btreeMeta_enc p0 hw _ _ _ _ _ hp hb' bm hmw rest hbody.symm,
          magicOK_of_body p0 bm rest hbody.symm⟩
      | hash _ => simp [Meta.am, Opaque.am] at hma
      | gin _ => simp [Meta.am, Opaque.am] at hma
    | hash pr nx b fl =>
      rw [hp] at hma
      cases m with
      | hash hmeta =>
        have hb' : fl.testBit 3 = true := by simpa [hp, Opaque.flags] using hb
        exact ⟨by simpa [parseMeta, code, Opaque.am] using hashMeta_enc p0 hw _ _ _ _ hp hb' hmeta hmw rest hbody.symm,
          magicOK_of_not_btree p0 (by rw [hp]; simp [Opaque.am])⟩
      | btree _ => simp [Meta.am, Opaque.am] at hma
      | gin _ => simp [Meta.am, Opaque.am] at hma
    | gin r mo fl =>
      rw [hp] at hma
      cases m with
      | gin gm =>
        have hb' : fl.testBit 3 = true := by simpa [hp, Opaque.flags] using hb
        exact ⟨by simpa [parseMeta, code, Opaque.am] using ginMeta_enc p0 hw _ _ _ hp hb' gm hmw rest hbody.symm,
          magicOK_of_not_btree p0 (by rw [hp]; simp [Opaque.am])⟩
      | btree _ => simp [Meta.am, Opaque.am] at hma
      | hash _ => simp [Meta.am, Opaque.am] at hma
    | gist nsn r fl => rw [hp] at hma; cases m <;> simp [Meta.am, Opaque.am] at hma
    | spgist fl a b => rw [hp] at hma; cases m <;> simp [Meta.am, Opaque.am] at hma
    | brin a b fl t => rw [hp] at hma; cases m <;> simp [Meta.am, Opaque.am] at hma

end PgVerif.Proofs.Index
