/-
  Topic E9 — helper lemmas about Model/ExtraCluster.lean: Go's insertion sort is a sorting permutation, the order of
  ListDatabases, detection, DumpAll.  Property theorems are in Props/C10/Extra.lean and Props/C12Extra.lean.
-/
import PgVerif.Model.ExtraCluster
import PgVerif.Props.C10.Cluster
import PgVerif.Proofs.Search
import PgVerif.Proofs.Heap
namespace PgVerif.Proofs.Extra
open PgVerif PgVerif.Model PgVerif.Model.Extra
open scoped List

/-! ### insertion sort -/

theorem insertLeft_perm {α} (less : α → α → Bool) (x : α) : ∀ l : List α, insertLeft less x l ~ x :: l
  | [] => List.Perm.refl _
  | p :: ps => by
    unfold insertLeft
    by_cases h : less x p = true
    · rw [if_pos h]
      exact ((insertLeft_perm less x ps).cons p).trans (List.Perm.swap x p ps)
    · rw [if_neg h]

theorem foldl_insertLeft_perm {α} (less : α → α → Bool) (l : List α) :
    ∀ acc, l.foldl (fun acc x => insertLeft less x acc) acc ~ l.reverse ++ acc := by
  induction l with
  | nil => intro acc; exact List.Perm.refl _
  | cons x xs ih =>
    intro acc
    simp only [List.foldl_cons, List.reverse_cons, List.append_assoc, List.singleton_append]
    exact (ih _).trans (List.Perm.append_left _ (insertLeft_perm less x acc))

theorem goInsertionSort_perm {α} (less : α → α → Bool) (l : List α) : goInsertionSort less l ~ l := by
  unfold goInsertionSort
  refine (List.reverse_perm _).trans ?_
  have := foldl_insertLeft_perm less l []
  simp only [List.append_nil] at this
  exact this.trans (List.reverse_perm l)

/-- `less` is a strict weak order: asymmetric and negatively transitive -/
structure StrictWeak {α} (less : α → α → Bool) : Prop where
  asymm : ∀ a b, less a b = true → less b a = false
  negtrans : ∀ a b c, less c a = true → less c b = true ∨ less b a = true

theorem insertLeft_sorted {α} (less : α → α → Bool) (hw : StrictWeak less) (x : α) :
    ∀ l : List α, l.Pairwise (fun a b => less a b = false) → (insertLeft less x l).Pairwise (fun a b => less a b = false)
  | [], _ => by simp [insertLeft]
  | p :: ps, h => by
    rw [List.pairwise_cons] at h
    unfold insertLeft
    by_cases hx : less x p = true
    · rw [if_pos hx, List.pairwise_cons]
      refine ⟨?_, insertLeft_sorted less hw x ps h.2⟩
      intro y hy
      rcases (List.mem_cons.1 ((insertLeft_perm less x ps).subset hy)) with rfl | hy
      · exact hw.asymm _ _ hx
      · exact h.1 y hy
    · rw [if_neg hx, List.pairwise_cons]
      refine ⟨?_, List.pairwise_cons.2 h⟩
      intro y hy
      have hxp : less x p = false := by simpa using hx
      rcases List.mem_cons.1 hy with rfl | hy
      · exact hxp
      · cases hxy : less x y with
        | false => rfl
        | true =>
          rcases hw.negtrans y p x hxy with h1 | h1
          · rw [hxp] at h1; cases h1
          · rw [h.1 y hy] at h1; cases h1

theorem foldl_insertLeft_sorted {α} (less : α → α → Bool) (hw : StrictWeak less) (l : List α) :
    ∀ acc, acc.Pairwise (fun a b => less a b = false) →
      (l.foldl (fun acc x => insertLeft less x acc) acc).Pairwise (fun a b => less a b = false) := by
  induction l with
  | nil => intro acc h; exact h
  | cons x xs ih => intro acc h; exact ih _ (insertLeft_sorted less hw x acc h)

/-- the result of Go's insertion sort is ordered: no element is `less` than one before it -/
theorem goInsertionSort_sorted {α} (less : α → α → Bool) (hw : StrictWeak less) (l : List α) :
    (goInsertionSort less l).Pairwise (fun a b => less b a = false) := by
  unfold goInsertionSort
  rw [List.pairwise_reverse]
  exact foldl_insertLeft_sorted less hw l [] List.Pairwise.nil

/-! ### the order of ListDatabases -/

set_option linter.unusedSimpArgs false in
theorem listDbLess_strictWeak : StrictWeak listDbLess := by
  constructor
  · intro a b h
    unfold listDbLess at h ⊢
    cases ha : xcIsTemplate a.name <;> cases hb : xcIsTemplate b.name <;> simp [ha, hb] at h ⊢
    · exact Proofs.Search.bytesLt_asymm _ _ h
    · exact Proofs.Search.bytesLt_asymm _ _ h
  · intro a b c h
    unfold listDbLess at h ⊢
    cases ha : xcIsTemplate a.name <;> cases hb : xcIsTemplate b.name <;> cases hc : xcIsTemplate c.name <;>
      simp [ha, hb, hc] at h ⊢
    · exact Proofs.Search.bytesLt_negtrans _ _ _ h
    · exact Proofs.Search.bytesLt_negtrans _ _ _ h

/-- what "not less" means: a non-template never follows a template, and within a group names ascend -/
theorem listDbLess_false (a b : DatabaseInfo) (h : listDbLess b a = false) :
    (xcIsTemplate a.name = true → xcIsTemplate b.name = true) ∧
    (xcIsTemplate a.name = xcIsTemplate b.name → bytesLe a.name b.name = true) := by
  unfold listDbLess at h
  cases ha : xcIsTemplate a.name <;> cases hb : xcIsTemplate b.name <;> simp [ha, hb, bytesLe] at h ⊢
  · exact h
  · exact h

theorem listDatabases_spec (rr : RowReader) (fs : Bytes → Option Bytes) (data : Bytes) (dbs : List DatabaseInfo)
    (hf : fs pathGlobal1262 = some data) (hp : parsePGDatabase rr data = .ok dbs) :
    ∃ l, listDatabases rr fs = .ok l ∧ l ~ dbs ∧
      l.Pairwise (fun a b => (xcIsTemplate a.name = true → xcIsTemplate b.name = true) ∧
                             (xcIsTemplate a.name = xcIsTemplate b.name → bytesLe a.name b.name = true)) := by
  refine ⟨goInsertionSort listDbLess dbs, ?_, goInsertionSort_perm _ _, ?_⟩
  · simp only [listDatabases, hf, hp, ok_bind, pure_eq_ok]
  · exact (goInsertionSort_sorted listDbLess listDbLess_strictWeak dbs).imp (fun {a b} h => listDbLess_false a b h)

theorem listDatabases_total (rr : RowReader) (h : Props.C10.Cluster.TotalReader rr) (fs : Bytes → Option Bytes) :
    ∃ r, listDatabases rr fs = .ok r := by
  unfold listDatabases
  cases fs pathGlobal1262 with
  | none => exact ⟨_, rfl⟩
  | some data =>
    obtain ⟨dbs, hd⟩ := Props.C10.Cluster.C10_total_parsePGDatabase rr h data
    simp only [hd, ok_bind, pure_eq_ok]
    exact ⟨_, rfl⟩

/-! ### detection -/

theorem detectLoop_valid (e : DetectEnv) : ∀ (cands seen : List Bytes), ∀ d ∈ detectLoop e seen cands, e.valid d = true
  | [], _ => by simp [detectLoop]
  | p :: rest, seen => by
    intro d hd
    unfold detectLoop at hd
    simp only at hd
    by_cases h1 : seen.contains (e.expand p) = true
    · rw [if_pos h1] at hd; exact detectLoop_valid e rest seen d hd
    · rw [if_neg h1] at hd
      by_cases h2 : e.valid (e.expand p) = true
      · rw [if_pos h2] at hd
        rcases List.mem_cons.1 hd with rfl | hd
        · exact h2
        · exact detectLoop_valid e rest _ d hd
      · rw [if_neg h2] at hd; exact detectLoop_valid e rest seen d hd

/-- every directory DetectAllDataDirs reports passed isValidDataDir -/
theorem detectAll_valid (e : DetectEnv) : ∀ d ∈ detectAllDataDirs e, e.valid d = true := by
  intro d hd
  unfold detectAllDataDirs at hd
  by_cases h : e.pgdata ≠ [] ∧ e.valid e.pgdata = true
  · rw [if_pos h] at hd
    rcases List.mem_cons.1 hd with rfl | hd
    · exact h.2
    · exact detectLoop_valid e _ _ d hd
  · rw [if_neg h] at hd; exact detectLoop_valid e _ _ d hd

theorem detectLoop_none (e : DetectEnv) : ∀ (cands seen : List Bytes),
    (∀ p ∈ cands, e.valid (e.expand p) = false ∨ seen.contains (e.expand p) = true) → detectLoop e seen cands = []
  | [], _, _ => by simp [detectLoop]
  | p :: rest, seen, h => by
    unfold detectLoop
    simp only
    have ih := detectLoop_none e rest seen (fun q hq => h q (List.mem_cons_of_mem _ hq))
    by_cases h1 : seen.contains (e.expand p) = true
    · rw [if_pos h1]; exact ih
    · rw [if_neg h1]
      rcases h p (List.mem_cons_self ..) with h2 | h2
      · rw [h2]; simpa using ih
      · exact absurd h2 h1

/-- $PGDATA names a valid directory and no other candidate does: exactly that directory is detected -/
theorem detectAll_pgdata_only (e : DetectEnv) (h1 : e.pgdata ≠ []) (h2 : e.valid e.pgdata = true)
    (h3 : ∀ p ∈ e.candidates, e.valid (e.expand p) = false ∨ e.expand p = e.pgdata) :
    detectAllDataDirs e = [e.pgdata] := by
  unfold detectAllDataDirs
  rw [if_pos ⟨h1, h2⟩, detectLoop_none e e.candidates [e.pgdata]]
  intro p hp
  rcases h3 p hp with h | h
  · exact Or.inl h
  · right; rw [h]; simp

/-! ### DumpAll -/

theorem dumpAll_eq (rr : RowReader) (π : MapOrder TableInfo) (e : DetectEnv) (fsAt : Bytes → Bytes → Option Bytes)
    (o : Spec.Options) :
    dumpAll rr π e fsAt o = collectM (fun dir => dumpDataDir rr π (fsAt dir) o) (detectAllDataDirs e) := by
  unfold dumpAll
  simp only
  by_cases h : (detectAllDataDirs e).length = 0
  · rw [if_pos h, List.length_eq_zero_iff.1 h]; rfl
  · rw [if_neg h]; rfl

theorem dumpAll_total (rr : RowReader) (h : Props.C10.Cluster.TotalReader rr) (π : MapOrder TableInfo) (e : DetectEnv)
    (fsAt : Bytes → Bytes → Option Bytes) (o : Spec.Options) : ∃ r, dumpAll rr π e fsAt o = .ok r := by
  rw [dumpAll_eq]
  exact collectM_total _ _ (fun dir => Props.C10.Cluster.C10_total_dumpDataDir rr h π (fsAt dir) o)

/-- a directory that passes `isValidDataDir` (read off the same file trees) is never DumpDataDir's error case -/
theorem dumpDataDir_some_of_valid (rr : RowReader) (h : Props.C10.Cluster.TotalReader rr) (π : MapOrder TableInfo)
    (fsAt : Bytes → Bytes → Option Bytes) (o : Spec.Options) (dir : Bytes) (hv : validBy fsAt dir = true) :
    ∃ r, dumpDataDir rr π (fsAt dir) o = .ok (some r) := by
  unfold validBy at hv
  obtain ⟨r, hr⟩ := Props.C10.Cluster.C10_total_dumpDataDir rr h π (fsAt dir) o
  cases hf : fsAt dir pathGlobal1262 with
  | none => rw [hf] at hv; cases hv
  | some d =>
    cases r with
    | some r => exact ⟨r, hr⟩
    | none =>
      exfalso
      unfold dumpDataDir at hr
      rw [hf] at hr
      simp only at hr
      cases hp : parsePGDatabase rr d with
      | error e => rw [hp] at hr; cases hr
      | ok dbs =>
        rw [hp] at hr
        simp only [ok_bind] at hr
        cases hc : collectM (dumpDb rr π (fsAt dir) o) dbs with
        | error e => rw [hc] at hr; cases hr
        | ok x => rw [hc] at hr; simp only [ok_bind, pure_eq_ok] at hr; cases hr

theorem collectM_length_of_some {α β} (f : α → M (Option β)) (xs : List α) (h : ∀ x ∈ xs, ∃ y, f x = .ok (some y)) :
    ∃ ys, collectM f xs = .ok ys ∧ ys.length = xs.length := by
  induction xs with
  | nil => exact ⟨[], rfl, rfl⟩
  | cons x xs ih =>
    obtain ⟨y, hy⟩ := h x (List.mem_cons_self ..)
    obtain ⟨ys, hys, hl⟩ := ih (fun z hz => h z (List.mem_cons_of_mem _ hz))
    refine ⟨y :: ys, ?_, by simp [hl]⟩
    simp only [collectM, hy, hys, ok_bind, pure_eq_ok]

end PgVerif.Proofs.Extra
