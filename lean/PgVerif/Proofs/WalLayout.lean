/-
  The operational layout (Spec/WalLayout.lean): every page it emits is parsed back to exactly what it placed;
  hence the segment theorem.  Helper lemmas for Props/C17.lean.
-/
import PgVerif.Proofs.Wal
namespace PgVerif.Proofs.Wal
open PgVerif PgVerif.Model.Wal
open PgVerif.Spec.Wal (encRecHeader encBody encRecord pad8 Trailer pageHdrBytes Placed fillPage PageFill layoutPages
  pageHeader pageInfo longExt hdrSize)

/-! ## The operational layout (Spec/WalLayout.lean): every page it emits is parsed back to what it placed -/

/-- what the tool reports for a placed record, however it was placed -/
def placedM (magic : Nat) (p : Placed) : Record := recM magic p.lsn p.record (viewsM none p.record.blocks)

theorem zeros_isPadding (n : Nat) : ((zeros n).take 8).all (· == 0) = true := by
  simp [zeros, List.take_replicate]

/-- the carry of a filled page is what the trailer leaves of its record -/
def CarryOK (carry : Bytes) : Trailer → Prop
  | .cut r n => carry = (encRecord r).drop n
  | .zeros _ => carry = []

structure FillOK (magic addr p : Nat) (f : PageFill) : Prop where
  len : ((f.whole.flatMap fun r => pad8 (encRecord r)) ++ f.trailer.bytes).length = 8192 - p
  tr : f.trailer.WF (decide (magic < 0xD110))
  whole : ∀ r ∈ f.whole, r.WF (decide (magic < 0xD110))
  rest : ∀ r ∈ f.rest, r.WF (decide (magic < 0xD110))
  carry : f.carry.length ≤ 1069547520
  cont : CarryOK f.carry f.trailer
  recs : addr + 8192 ≤ 2 ^ 64 → loopRecs magic addr p f.whole f.trailer = f.placed.map (placedM magic)

theorem fillPage_ok (magic addr : Nat) (rs : List Spec.Wal.WalRecord) (hrs : ∀ r ∈ rs, r.WF (decide (magic < 0xD110)))
    (p : Nat) (hp : p ≤ 8192) (hp8 : p % 8 = 0) : FillOK magic addr p (fillPage addr p rs) := by
  induction rs generalizing p with
  | nil =>
    unfold fillPage
    exact ⟨by simp [Trailer.bytes], zeros_isPadding _, by simp, by simp, by simp, rfl, fun _ => rfl⟩
  | cons r rs ih =>
    have hr := hrs r (by simp)
    have h24 := totLen_ge r
    have hlen := encRecord_length r
    have htot : r.totLen ≤ 1069547520 := hr.2.2.2.2.2.2.2.2.2.2
    unfold fillPage
    by_cases h1 : p + Spec.Wal.align8 r.totLen ≤ 8192
    · simp only [h1, if_true]
      have hA : 24 ≤ Spec.Wal.align8 r.totLen := by simp only [Spec.Wal.align8]; omega
      have hA8 : Spec.Wal.align8 r.totLen % 8 = 0 := by simp only [Spec.Wal.align8]; omega
      obtain ⟨l, t, w, rst, c, ct, rc⟩ := ih (fun r' h' => hrs r' (by simp [h'])) (p + Spec.Wal.align8 r.totLen) h1 (by omega)
      have hpl := pad8_length (encRecord r)
      rw [hlen] at hpl
      refine ⟨?_, t, ?_, rst, c, ct, ?_⟩
      · simp only [List.flatMap_cons, List.append_assoc, List.length_append, hpl] at l ⊢; omega
      · intro r' h'; rcases List.mem_cons.mp h' with rfl | h'
        · exact hr
        · exact w r' h'
      · intro haddr
        simp only [loopRecs, List.map_cons, placedM, Placed.lsn, Placed.record, rc haddr]
        rw [Nat.mod_eq_of_lt (by omega)]
    · simp only [h1, if_false]
      by_cases h2 : p ≥ 8192
      · simp only [h2, if_true]
        exact ⟨by simp [Trailer.bytes]; omega, by simp [Trailer.WF], by simp, hrs, by simp, rfl, fun _ => rfl⟩
      · simp only [h2, if_false]
        have hn : 8192 - p < r.totLen := by simp only [Spec.Wal.align8] at h1; omega
        refine ⟨by simp [Trailer.bytes, hlen]; omega, ⟨hr, by omega, hn⟩, by simp, fun r' h' => hrs r' (by simp [h']),
          by simp [hlen]; omega, rfl, ?_⟩
        intro haddr
        simp only [loopRecs, List.map_cons, List.map_nil, placedM]
        rw [Nat.mod_eq_of_lt (by omega)]
        by_cases h3 : 8192 - p ≥ 24
        · rw [if_pos h3]; rfl
        · rw [if_neg h3]; rfl

/-- when the following pages carry the carry of a filled page, they complete its cut record -/
theorem contOK_of_fill (magic addr p : Nat) (f : PageFill) (hf : FillOK magic addr p f) (fol : Bytes)
    (h : f.carry ≠ [] → continuationData fol f.carry.length = .ok (some f.carry)) : ContOK fol f.trailer := by
  have hc := hf.cont
  have ht := hf.tr
  cases htr : f.trailer with
  | zeros bs => trivial
  | cut r n =>
    rw [htr] at hc ht
    obtain ⟨_, _, hn⟩ := ht
    have hcl : f.carry.length = r.totLen - n := by
      rw [show f.carry = (encRecord r).drop n from hc, List.length_drop, encRecord_length]
    have hne : f.carry ≠ [] := by
      intro h0; rw [h0] at hcl; simp at hcl; omega
    have := h hne
    rw [hcl] at this
    show continuationData fol (r.totLen - n) = .ok (some ((encRecord r).drop n))
    rw [this, show f.carry = (encRecord r).drop n from hc]

theorem info_bits : ∀ a b c : Bool,
    (((if a then 1 else 0) + (if b then 2 else 0) + (if c then 4 else 0) : Nat) &&& 0x0001 != 0) = a ∧
    (((if a then 1 else 0) + (if b then 2 else 0) + (if c then 4 else 0) : Nat) &&& 0x0002 != 0) = b ∧
    ((if a then 1 else 0) + (if b then 2 else 0) + (if c then 4 else 0) : Nat) < 8 := by decide

theorem pageInfo_bits (s : Spec.Wal.WalSegment) (k rem : Nat) :
    (pageInfo s k rem &&& 0x0001 != 0) = decide (rem > 0) ∧ (pageInfo s k rem &&& 0x0002 != 0) = decide (k = 0) ∧
    pageInfo s k rem < 8 := by
  have := info_bits (decide (rem > 0)) (decide (k = 0)) s.removable
  simpa [pageInfo] using this

theorem longExt_length (s : Spec.Wal.WalSegment) (k : Nat) : (longExt s k).length = if k = 0 then 16 else 0 := by
  unfold longExt; split <;> simp

theorem hdr_length (s : Spec.Wal.WalSegment) (k rem : Nat) : (pageHeader s k rem).length = hdrSize k := by
  unfold pageHeader hdrSize
  rw [pageHdrBytes_length, longExt_length]; split <;> rfl

/-- what the theorems need to know about the segment's constants -/
structure SegOK (s : Spec.Wal.WalSegment) : Prop where
  magic : s.magic < 2 ^ 16
  valid : isValidMagic s.magic = true
  tli : s.tli < 2 ^ 32

theorem pageRecs_fill (s : Spec.Wal.WalSegment) (hs : SegOK s) (k : Nat) (carry : Bytes) (hc : carry.length < 2 ^ 32)
    (haddr : s.startAddr + 8192 * k + 8192 ≤ 2 ^ 64)
    (f : PageFill) (hf : FillOK s.magic (s.startAddr + 8192 * k) (hdrSize k + Spec.Wal.align8 carry.length) f) (fol : Bytes)
    (hfol : f.carry ≠ [] → continuationData fol f.carry.length = .ok (some f.carry)) :
    pageRecs (pageHeader s k carry.length ++ pad8 carry ++
      ((f.whole.flatMap fun r => pad8 (encRecord r)) ++ f.trailer.bytes)) fol = f.placed.map (placedM s.magic) := by
  obtain ⟨b1, b2, b3⟩ := pageInfo_bits s k carry.length
  have hx := longExt_length s k
  unfold pageRecs pageHeader
  rw [parseWALPage_enc s.magic (pageInfo s k carry.length) s.tli (s.startAddr + 8192 * k) carry.length (longExt s k)
    (pad8 carry) f.whole f.trailer fol hs.magic (by omega) hs.tli (by omega) hc hs.valid
    (by rw [b2, hx]; by_cases h0 : k = 0 <;> simp [h0])
    (by rw [b1, pad8_length]
        by_cases h0 : carry.length > 0
        · simp [h0]
        · have : carry.length = 0 := by omega
          simp [this, Spec.Wal.align8])
    hf.whole hf.tr (contOK_of_fill _ _ _ f hf fol hfol)]
  simp only []
  rw [← hf.recs (by omega), pad8_length, hx]
  congr 1
  unfold hdrSize
  by_cases h0 : k = 0 <;> simp [h0] <;> omega


theorem pageRecs_allcont (s : Spec.Wal.WalSegment) (hs : SegOK s) (k : Nat) (carry : Bytes) (hc : carry.length < 2 ^ 32)
    (hcap : Spec.Wal.align8 carry.length > 8192 - hdrSize k) (haddr : s.startAddr + 8192 * k + 8192 ≤ 2 ^ 64)
    (fol : Bytes) :
    pageRecs (pageHeader s k carry.length ++ carry.take (8192 - hdrSize k)) fol = [] := by
  obtain ⟨b1, b2, b3⟩ := pageInfo_bits s k carry.length
  have hx := longExt_length s k
  have hpos : carry.length > 0 := by
    by_cases h0 : carry.length = 0
    · rw [h0] at hcap; simp [Spec.Wal.align8] at hcap
    · omega
  unfold pageRecs pageHeader
  rw [parseWALPage_allcont s.magic (pageInfo s k carry.length) s.tli (s.startAddr + 8192 * k) carry.length (longExt s k)
    _ fol hs.magic (by omega) hs.tli (by omega) hc hs.valid (by rw [b1]; simp [hpos])
    (by rw [b2, hx]; by_cases h0 : k = 0 <;> simp [h0])
    (by rw [List.length_take, hx]; unfold hdrSize at hcap ⊢
        simp only [Spec.Wal.align8] at hcap ⊢
        by_cases h0 : k = 0 <;> simp only [h0, if_true, if_false] at hcap ⊢ <;> omega)]

theorem mul_succ' (k : Nat) : 8192 * (k + 1) = 8192 * k + 8192 := Nat.mul_succ 8192 k

/-! ## The continuation data of a laid-out record is found again -/

/-- one iteration of continuationData on a page the layout wrote while `need` bytes of a record were still to
come: the page contributes the first `min capacity need` bytes after its header -/
theorem contLoop_page (s : Spec.Wal.WalSegment) (hs : SegOK s) (k need : Nat) (body more : Bytes) (fuel : Nat)
    (hneed : 0 < need) (h32 : need < 2 ^ 32) (haddr : s.startAddr + 8192 * k < 2 ^ 64)
    (hlen : (pageHeader s k need ++ body).length = 8192) :
    contLoop (fuel + 1) (pageHeader s k need ++ body ++ more) need =
      (do match ← contLoop fuel more (need - min (8192 - hdrSize k) need) with
          | some m => pure (some (body.take (min (8192 - hdrSize k) need) ++ m))
          | none => pure none) := by
  obtain ⟨b1, b2, b3⟩ := pageInfo_bits s k need
  have hx := longExt_length s k
  have hh := hdr_length s k need
  have hk : hdrSize k = 24 ∨ hdrSize k = 40 := by unfold hdrSize; by_cases h0 : k = 0 <;> simp [h0]
  conv => lhs; unfold contLoop
  rw [if_pos hneed, if_neg (by rw [List.length_append, hlen]; omega)]
  rw [sliceTo_ok _ 8192 (by rw [List.length_append, hlen]; omega)]
  simp only [ok_bind]
  rw [show (pageHeader s k need ++ body ++ more).take 8192 = pageHeader s k need ++ body from List.take_left' hlen]
  obtain ⟨h, hp, h1, h2, h3, h4⟩ := parsePageHeader_enc s.magic (pageInfo s k need) s.tli (s.startAddr + 8192 * k) need
    (longExt s k) body hs.magic (by omega) hs.tli haddr h32
  have hp' : parsePageHeader (pageHeader s k need ++ body) = .ok h := hp
  rw [hp']
  simp only [ok_bind]
  have hbit : (h.info &&& 0x0001 == 0) = false := by
    rw [h2]
    have : (pageInfo s k need &&& 0x0001 != 0) = true := by rw [b1]; simpa using hneed
    simpa [bne] using this
  have hhs : headerSize h.info = hdrSize k := by
    unfold headerSize hdrSize
    rw [h2, b2]
    by_cases h0 : k = 0 <;> simp [h0]
  rw [if_neg (by rw [h1, hs.valid, hbit, h4]; simp)]
  rw [hhs]
  have hn : (if 8192 - hdrSize k > need then need else 8192 - hdrSize k) = min (8192 - hdrSize k) need := by
    split <;> omega
  rw [hn]
  rw [slice_ok _ _ _ (by rw [hlen]; omega) (by omega), sliceFrom_ok _ 8192 (by rw [List.length_append, hlen]; omega)]
  simp only [ok_bind]
  have hchunk : ((pageHeader s k need ++ body).take (hdrSize k + min (8192 - hdrSize k) need)).drop (hdrSize k) =
      body.take (min (8192 - hdrSize k) need) := by
    rw [← hh, List.take_length_add_append, List.drop_left' rfl]
  have hrest : (pageHeader s k need ++ body ++ more).drop 8192 = more := List.drop_left' hlen
  rw [hchunk, hrest]
  rfl

theorem contLoop_zero (fuel : Nat) (fol : Bytes) : contLoop fuel fol 0 = .ok (some []) := by
  cases fuel with
  | zero => rfl
  | succ fuel => unfold contLoop; rw [if_neg (by omega)]; rfl

def recsLen (rs : List Spec.Wal.WalRecord) : Nat := (rs.map fun r => Spec.Wal.align8 r.totLen).sum

/-- the pages laid out after a page that ended inside a record give that record's remaining bytes back -/
theorem contLoop_layout (s : Spec.Wal.WalSegment) (hs : SegOK s) (n k : Nat) (carry : Bytes)
    (rs : List Spec.Wal.WalRecord) (hc : carry.length < 2 ^ 32) (hne : carry ≠ []) (hrs : ∀ r ∈ rs, r.WF (decide (s.magic < 0xD110)))
    (hfuel : (Spec.Wal.align8 carry.length + recsLen rs) / 8 < n)
    (hfit : s.startAddr + 8192 * k + (layoutPages s n k carry rs).bytes.length ≤ 2 ^ 64) (tail : Bytes)
    (fuel : Nat) (hf : carry.length ≤ fuel) :
    contLoop fuel ((layoutPages s n k carry rs).bytes ++ tail) carry.length = .ok (some carry) := by
  induction n generalizing k carry fuel with
  | zero => omega
  | succ n ih =>
    have hpos : 0 < carry.length := by
      cases carry with
      | nil => exact absurd rfl hne
      | cons b t => simp
    have hh := hdr_length s k carry.length
    have hk : hdrSize k = 24 ∨ hdrSize k = 40 := by unfold hdrSize; by_cases h0 : k = 0 <;> simp [h0]
    cases fuel with
    | zero => omega
    | succ fuel =>
      unfold layoutPages at hfit ⊢
      simp only [] at hfit ⊢
      by_cases hcap : Spec.Wal.align8 carry.length > 8192 - hdrSize k
      · rw [if_pos hcap] at hfit ⊢
        simp only [] at hfit ⊢
        have hL : 8192 - hdrSize k < carry.length := by simp only [Spec.Wal.align8] at hcap; omega
        have hplen : (pageHeader s k carry.length ++ carry.take (8192 - hdrSize k)).length = 8192 := by
          rw [List.length_append, hh, List.length_take]; omega
        rw [List.length_append, hplen] at hfit
        rw [List.append_assoc]
        rw [contLoop_page s hs k carry.length _ _ fuel hpos hc (by omega) hplen]
        rw [show min (8192 - hdrSize k) carry.length = 8192 - hdrSize k by omega]
        have hd : carry.length - (8192 - hdrSize k) = (carry.drop (8192 - hdrSize k)).length := by
          rw [List.length_drop]
        rw [hd, ih (k + 1) (carry.drop (8192 - hdrSize k)) (by rw [List.length_drop]; omega)
          (by intro h0; have := congrArg List.length h0; rw [List.length_drop] at this; simp at this; omega)
          (by rw [List.length_drop]; simp only [Spec.Wal.align8] at hcap hfuel ⊢; omega)
          (by rw [mul_succ']; omega) fuel (by rw [List.length_drop]; omega)]
        simp only [ok_bind, pure_eq_ok]
        rw [List.take_take, Nat.min_self, List.take_append_drop]
      · rw [if_neg hcap] at hfit ⊢
        have hfp := fillPage_ok s.magic (s.startAddr + 8192 * k) rs hrs (hdrSize k + Spec.Wal.align8 carry.length) (by omega)
          (by simp only [Spec.Wal.align8]; omega)
        have hplen : (pageHeader s k carry.length ++ (pad8 carry ++
            (((fillPage (s.startAddr + 8192 * k) (hdrSize k + Spec.Wal.align8 carry.length) rs).whole.flatMap fun r => pad8 (encRecord r)) ++
              (fillPage (s.startAddr + 8192 * k) (hdrSize k + Spec.Wal.align8 carry.length) rs).trailer.bytes))).length = 8192 := by
          rw [List.length_append, List.length_append, hh, pad8_length, hfp.len]; omega
        have hA : carry.length ≤ 8192 - hdrSize k := by simp only [Spec.Wal.align8] at hcap; omega
        have hbody : (pad8 carry ++
            (((fillPage (s.startAddr + 8192 * k) (hdrSize k + Spec.Wal.align8 carry.length) rs).whole.flatMap fun r => pad8 (encRecord r)) ++
              (fillPage (s.startAddr + 8192 * k) (hdrSize k + Spec.Wal.align8 carry.length) rs).trailer.bytes)).take carry.length = carry := by
          rw [pad8, List.append_assoc, List.take_left' rfl]
        have haddr : s.startAddr + 8192 * k < 2 ^ 64 := by
          split at hfit <;> simp only [List.length_append] at hfit <;> omega
        have key : ∀ more, contLoop (fuel + 1) (pageHeader s k carry.length ++ (pad8 carry ++
            (((fillPage (s.startAddr + 8192 * k) (hdrSize k + Spec.Wal.align8 carry.length) rs).whole.flatMap fun r => pad8 (encRecord r)) ++
              ((fillPage (s.startAddr + 8192 * k) (hdrSize k + Spec.Wal.align8 carry.length) rs).trailer.bytes ++ more)))) carry.length =
              .ok (some carry) := by
          intro more
          have := contLoop_page s hs k carry.length _ more fuel hpos hc haddr hplen
          simp only [List.append_assoc] at this
          rw [this]
          rw [show min (8192 - hdrSize k) carry.length = carry.length by omega, Nat.sub_self, contLoop_zero]
          simp only [ok_bind, pure_eq_ok, hbody, List.append_nil]
        split
        · simp only [List.append_assoc]
          exact key _
        · simp only [List.append_assoc]
          exact key _

theorem continuationData_layout (s : Spec.Wal.WalSegment) (hs : SegOK s) (n k : Nat) (carry : Bytes)
    (rs : List Spec.Wal.WalRecord) (hc : carry.length < 2 ^ 32) (hne : carry ≠ []) (hrs : ∀ r ∈ rs, r.WF (decide (s.magic < 0xD110)))
    (hfuel : (Spec.Wal.align8 carry.length + recsLen rs) / 8 < n)
    (hfit : s.startAddr + 8192 * k + (layoutPages s n k carry rs).bytes.length ≤ 2 ^ 64) (tail : Bytes) :
    continuationData ((layoutPages s n k carry rs).bytes ++ tail) carry.length = .ok (some carry) := by
  have hpos : 0 < carry.length := by
    cases carry with
    | nil => exact absurd rfl hne
    | cons b t => simp
  unfold continuationData
  rw [if_pos hpos]
  exact contLoop_layout s hs n k carry rs hc hne hrs hfuel hfit tail _ (Nat.le_refl _)

/-! ## Every page the layout emits is parsed back to what it placed -/

theorem fillPage_carry_fuel (addr : Nat) (rs : List Spec.Wal.WalRecord) (p : Nat) (hp : p ≤ 8192) (hp8 : p % 8 = 0) :
    ((fillPage addr p rs).carry ≠ [] ∨ (fillPage addr p rs).rest ≠ []) →
      Spec.Wal.align8 (fillPage addr p rs).carry.length + recsLen (fillPage addr p rs).rest + (8192 - p) = recsLen rs := by
  induction rs generalizing p with
  | nil =>
    unfold fillPage
    intro h; rcases h with h | h <;> exact absurd rfl h
  | cons r rs ih =>
    have h24 := totLen_ge r
    have hlen := encRecord_length r
    unfold fillPage
    by_cases h1 : p + Spec.Wal.align8 r.totLen ≤ 8192
    · simp only [h1, if_true]
      have hA8 : Spec.Wal.align8 r.totLen % 8 = 0 := by simp only [Spec.Wal.align8]; omega
      intro h
      have := ih (p + Spec.Wal.align8 r.totLen) h1 (by omega) h
      simp only [recsLen, List.map_cons, List.sum_cons] at this ⊢
      omega
    · simp only [h1, if_false]
      by_cases h2 : p ≥ 8192
      · simp only [h2, if_true]
        intro _
        simp [Spec.Wal.align8]; omega
      · simp only [h2, if_false]
        have hn : 8192 - p < r.totLen := by simp only [Spec.Wal.align8] at h1; omega
        have hcl : ((encRecord r).drop (8192 - p)).length = r.totLen - (8192 - p) := by rw [List.length_drop, hlen]
        intro _
        simp only [hcl, recsLen, List.map_cons, List.sum_cons, Spec.Wal.align8]; omega

theorem layoutPages_ok (s : Spec.Wal.WalSegment) (hs : SegOK s) (n : Nat) (k : Nat) (carry : Bytes)
    (rs : List Spec.Wal.WalRecord) (hc : carry.length < 2 ^ 32) (hrs : ∀ r ∈ rs, r.WF (decide (s.magic < 0xD110)))
    (hfuel : (Spec.Wal.align8 carry.length + recsLen rs) / 8 < n)
    (hfit : s.startAddr + 8192 * k + (layoutPages s n k carry rs).bytes.length ≤ 2 ^ 64) (tail : Bytes) :
    fileRecs ((layoutPages s n k carry rs).bytes ++ tail) =
      (layoutPages s n k carry rs).placed.map (placedM s.magic) ++ fileRecs tail := by
  induction n generalizing k carry rs with
  | zero => omega
  | succ n ih =>
    have hh := hdr_length s k carry.length
    have hk : hdrSize k = 24 ∨ hdrSize k = 40 := by unfold hdrSize; by_cases h0 : k = 0 <;> simp [h0]
    unfold layoutPages at hfit ⊢
    simp only [] at hfit ⊢
    by_cases hcap : Spec.Wal.align8 carry.length > 8192 - hdrSize k
    · rw [if_pos hcap] at hfit ⊢
      simp only [] at hfit ⊢
      have hL : 8192 - hdrSize k ≤ carry.length := by simp only [Spec.Wal.align8] at hcap; omega
      have hplen : (pageHeader s k carry.length ++ carry.take (8192 - hdrSize k)).length = 8192 := by
        rw [List.length_append, hh, List.length_take]; omega
      rw [List.length_append, hplen] at hfit
      rw [List.append_assoc, fileRecs_cons _ _ hplen,
        pageRecs_allcont s hs k carry hc hcap (by omega), List.nil_append]
      exact ih (k + 1) (carry.drop (8192 - hdrSize k)) rs (by rw [List.length_drop]; omega) hrs
        (by rw [List.length_drop]; simp only [Spec.Wal.align8] at hcap hfuel ⊢; omega)
        (by rw [mul_succ']; omega)
    · rw [if_neg hcap] at hfit ⊢
      have hf := fillPage_ok s.magic (s.startAddr + 8192 * k) rs hrs (hdrSize k + Spec.Wal.align8 carry.length) (by omega)
        (by simp only [Spec.Wal.align8]; omega)
      have hcf := fillPage_carry_fuel (s.startAddr + 8192 * k) rs (hdrSize k + Spec.Wal.align8 carry.length) (by omega)
        (by simp only [Spec.Wal.align8]; omega)
      have hplen : (pageHeader s k carry.length ++ pad8 carry ++
          (((fillPage (s.startAddr + 8192 * k) (hdrSize k + Spec.Wal.align8 carry.length) rs).whole.flatMap fun r => pad8 (encRecord r)) ++
            (fillPage (s.startAddr + 8192 * k) (hdrSize k + Spec.Wal.align8 carry.length) rs).trailer.bytes)).length = 8192 := by
        rw [List.length_append, List.length_append, hh, pad8_length, hf.len]; omega
      by_cases hfin : ((fillPage (s.startAddr + 8192 * k) (hdrSize k + Spec.Wal.align8 carry.length) rs).carry.isEmpty &&
          (fillPage (s.startAddr + 8192 * k) (hdrSize k + Spec.Wal.align8 carry.length) rs).rest.isEmpty) = true
      · rw [if_pos hfin] at hfit ⊢
        simp only [] at hfit ⊢
        rw [hplen] at hfit
        simp only [Bool.and_eq_true, List.isEmpty_iff] at hfin
        rw [fileRecs_cons _ _ hplen, pageRecs_fill s hs k carry hc hfit _ hf tail (fun hne => absurd hfin.1 hne)]
      · rw [if_neg hfin] at hfit ⊢
        simp only [] at hfit ⊢
        rw [List.length_append, hplen] at hfit
        have hne : (fillPage (s.startAddr + 8192 * k) (hdrSize k + Spec.Wal.align8 carry.length) rs).carry ≠ [] ∨
            (fillPage (s.startAddr + 8192 * k) (hdrSize k + Spec.Wal.align8 carry.length) rs).rest ≠ [] := by
          simp only [Bool.and_eq_true, List.isEmpty_iff] at hfin
          by_cases hc0 : (fillPage (s.startAddr + 8192 * k) (hdrSize k + Spec.Wal.align8 carry.length) rs).carry = []
          · exact .inr (fun hr => hfin ⟨hc0, hr⟩)
          · exact .inl hc0
        have hfu := hcf hne
        have hcl := hf.carry
        rw [List.append_assoc, fileRecs_cons _ _ hplen,
          pageRecs_fill s hs k carry hc (by omega) _ hf _
            (fun hne' => continuationData_layout s hs n (k + 1) _ _ (by omega) hne' hf.rest (by omega)
              (by rw [mul_succ']; omega) tail),
          List.map_append, List.append_assoc]
        congr 1
        exact ih (k + 1) _ _ (by omega) hf.rest (by omega) (by rw [mul_succ']; omega)

theorem pagesPure_zeros (m fuel off : Nat) : pagesPure (zeros m) fuel off = [] := by
  induction fuel generalizing off with
  | zero => rfl
  | succ fuel ih =>
    simp only [pagesPure]
    split
    · rename_i h
      rw [zeros_length] at h
      have : ((zeros m).take (off + 8192)).drop off = zeros 8192 := by
        simp only [zeros, List.take_replicate, List.drop_replicate]
        congr 1; omega
      rw [this, pageRecs_zeros 8192 (by omega), ih, List.append_nil]
    · rfl

theorem fileRecs_zeros (m : Nat) : fileRecs (zeros m) = [] := pagesPure_zeros m _ 0

/-- a layout of at least one page is at least one page long -/
theorem layoutPages_length (s : Spec.Wal.WalSegment) (n k : Nat) (carry : Bytes) (rs : List Spec.Wal.WalRecord)
    (hrs : ∀ r ∈ rs, r.WF (decide (s.magic < 0xD110))) : 8192 ≤ (layoutPages s (n + 1) k carry rs).bytes.length := by
  have hh := hdr_length s k carry.length
  have hk : hdrSize k = 24 ∨ hdrSize k = 40 := by unfold hdrSize; by_cases h0 : k = 0 <;> simp [h0]
  unfold layoutPages
  simp only []
  by_cases hcap : Spec.Wal.align8 carry.length > 8192 - hdrSize k
  · rw [if_pos hcap]
    simp only [List.length_append, hh, List.length_take]
    simp only [Spec.Wal.align8] at hcap; omega
  · rw [if_neg hcap]
    have hf := fillPage_ok s.magic (s.startAddr + 8192 * k) rs hrs (hdrSize k + Spec.Wal.align8 carry.length) (by omega)
      (by simp only [Spec.Wal.align8]; omega)
    have hl := hf.len
    split <;> simp only [List.length_append, hh, pad8_length] at hl ⊢ <;> omega

/-- a reported record as a Spec view (names are stated separately) -/
def viewOfRecord (r : Record) : Spec.Wal.RecView :=
  ⟨r.lsn, r.totalLen, r.xid, r.prev, r.info, r.rmid, r.crc, r.blocks.map viewOfM⟩

theorem placedM_view (magic : Nat) (p : Placed) : viewOfRecord (placedM magic p) = p.view := by
  simp only [placedM, Placed.view, viewOfRecord, recM, Spec.Wal.recView]
  rw [viewsM_views]; rfl

theorem placedM_names (magic : Nat) (p : Placed) :
    (placedM magic p).rmName = rmgrName (placedM magic p).rmid ∧
    (placedM magic p).operation = operationNameFor (placedM magic p).rmid (placedM magic p).info magic :=
  ⟨rfl, rfl⟩

theorem map_map_view (magic : Nat) (ps : List Placed) : (ps.map (placedM magic)).map viewOfRecord = ps.map Placed.view := by
  rw [List.map_map]
  apply List.map_congr_left
  intro p _
  exact placedM_view magic p

/-- the tool accepts exactly PostgreSQL's page magics (fixes/wal/06) -/
theorem isValidMagic_iff (m : Nat) : isValidMagic m = true ↔ m ∈ Spec.Wal.pageMagics := by
  simp [isValidMagic, Spec.Wal.pageMagics, Spec.Wal.pageMagicTable]
  omega

/-- on PostgreSQL's page magics the tool's version test `magic < WAL_MAGIC_15` is "written by PostgreSQL ≤ 14" -/
theorem pre15_eq (m : Nat) (h : m ∈ Spec.Wal.pageMagics) : Spec.Wal.pre15 m = decide (m < 0xD110) := by
  simp only [Spec.Wal.pageMagics, Spec.Wal.pageMagicTable, List.map_cons, List.map_nil, List.mem_cons, List.not_mem_nil, or_false] at h
  rcases h with h | h | h | h | h <;> subst h <;> decide

/-- the version label the tool derives from a page magic is the version that writes that magic -/
theorem version_label : ∀ vm ∈ Spec.Wal.pageMagicTable, pgVersionFromMagic vm.2 = toString vm.1 := by decide

/-- the segment theorem on the model side -/
theorem segment_records (s : Spec.Wal.WalSegment) (hs : s.WF) (hmem : s.magic ∈ Spec.Wal.pageMagics)
    (hfit : s.startAddr + s.layout.bytes.length ≤ 2 ^ 64) :
    parseWALFile (Spec.Wal.encSegmentOp s) = .ok (some (s.layout.placed.map (placedM s.magic))) := by
  have hv := (isValidMagic_iff s.magic).mpr hmem
  obtain ⟨hm, _, ht, _, _, _, _, _, _, hpre, hrs⟩ := hs
  rw [pre15_eq s.magic hmem] at hrs
  rw [parseWALFile_eq]
  have hlen := layoutPages_length s (s.streamLen / 8) 0 s.pre s.records hrs
  rw [if_neg (by
    unfold Spec.Wal.encSegmentOp Spec.Wal.WalSegment.layout
    rw [List.length_append]; omega)]
  unfold Spec.Wal.encSegmentOp
  have hsl : s.streamLen = Spec.Wal.align8 s.pre.length + recsLen s.records := rfl
  have := layoutPages_ok s ⟨hm, hv, ht⟩ (s.streamLen / 8 + 1) 0 s.pre s.records hpre hrs (by omega)
    (by simpa [Spec.Wal.WalSegment.layout] using hfit) (zeros (8192 * s.tailPages))
  rw [fileRecs_zeros, List.append_nil] at this
  unfold Spec.Wal.WalSegment.layout
  rw [this]

/-! ## The layout places every record, once and in order -/


theorem fillPage_conserve (addr : Nat) (rs : List Spec.Wal.WalRecord) (p : Nat) (hp : p ≤ 8192) (hp8 : p % 8 = 0) :
    (fillPage addr p rs).placed.map Placed.record ++ (fillPage addr p rs).rest = rs ∧
    (((fillPage addr p rs).carry ≠ [] ∨ (fillPage addr p rs).rest ≠ []) →
      Spec.Wal.align8 (fillPage addr p rs).carry.length + recsLen (fillPage addr p rs).rest + (8192 - p) = recsLen rs) := by
  induction rs generalizing p with
  | nil =>
    unfold fillPage
    refine ⟨rfl, ?_⟩
    intro h; rcases h with h | h <;> exact absurd rfl h
  | cons r rs ih =>
    have h24 := totLen_ge r
    have hlen := encRecord_length r
    unfold fillPage
    by_cases h1 : p + Spec.Wal.align8 r.totLen ≤ 8192
    · simp only [h1, if_true]
      have hA8 : Spec.Wal.align8 r.totLen % 8 = 0 := by simp only [Spec.Wal.align8]; omega
      obtain ⟨i1, i2⟩ := ih (p + Spec.Wal.align8 r.totLen) h1 (by omega)
      refine ⟨?_, ?_⟩
      · simp only [List.map_cons, Placed.record, List.cons_append, i1]
      · intro h
        have := i2 h
        simp only [recsLen, List.map_cons, List.sum_cons] at this ⊢
        omega
    · simp only [h1, if_false]
      by_cases h2 : p ≥ 8192
      · simp only [h2, if_true]
        refine ⟨rfl, fun _ => ?_⟩
        simp [Spec.Wal.align8]; omega
      · simp only [h2, if_false]
        have hn : 8192 - p < r.totLen := by simp only [Spec.Wal.align8] at h1; omega
        have hcl : ((encRecord r).drop (8192 - p)).length = r.totLen - (8192 - p) := by rw [List.length_drop, hlen]
        by_cases h3 : 8192 - p ≥ 24
        · simp only [h3, if_true]
          refine ⟨rfl, fun _ => ?_⟩
          simp only [hcl, recsLen, List.map_cons, List.sum_cons, Spec.Wal.align8]; omega
        · simp only [h3, if_false]
          refine ⟨rfl, fun _ => ?_⟩
          simp only [hcl, recsLen, List.map_cons, List.sum_cons, Spec.Wal.align8]; omega

theorem layoutPages_complete (s : Spec.Wal.WalSegment) (n k : Nat) (carry : Bytes) (rs : List Spec.Wal.WalRecord)
    (hfuel : (Spec.Wal.align8 carry.length + recsLen rs) / 8 < n) :
    (layoutPages s n k carry rs).placed.map Placed.record = rs := by
  induction n generalizing k carry rs with
  | zero => omega
  | succ n ih =>
    have hk : hdrSize k = 24 ∨ hdrSize k = 40 := by unfold hdrSize; by_cases h0 : k = 0 <;> simp [h0]
    unfold layoutPages
    simp only []
    by_cases hcap : Spec.Wal.align8 carry.length > 8192 - hdrSize k
    · rw [if_pos hcap]
      simp only []
      apply ih
      rw [List.length_drop]
      simp only [Spec.Wal.align8] at hcap hfuel ⊢; omega
    · rw [if_neg hcap]
      obtain ⟨c1, c2⟩ := fillPage_conserve (s.startAddr + 8192 * k) rs (hdrSize k + Spec.Wal.align8 carry.length) (by omega)
        (by simp only [Spec.Wal.align8]; omega)
      by_cases hfin : ((fillPage (s.startAddr + 8192 * k) (hdrSize k + Spec.Wal.align8 carry.length) rs).carry.isEmpty &&
          (fillPage (s.startAddr + 8192 * k) (hdrSize k + Spec.Wal.align8 carry.length) rs).rest.isEmpty) = true
      · rw [if_pos hfin]
        simp only [Bool.and_eq_true, List.isEmpty_iff] at hfin
        simp only []
        rw [hfin.2, List.append_nil] at c1
        exact c1
      · rw [if_neg hfin]
        simp only []
        have hne : (fillPage (s.startAddr + 8192 * k) (hdrSize k + Spec.Wal.align8 carry.length) rs).carry ≠ [] ∨
            (fillPage (s.startAddr + 8192 * k) (hdrSize k + Spec.Wal.align8 carry.length) rs).rest ≠ [] := by
          simp only [Bool.and_eq_true, List.isEmpty_iff] at hfin
          by_cases hc0 : (fillPage (s.startAddr + 8192 * k) (hdrSize k + Spec.Wal.align8 carry.length) rs).carry = []
          · exact .inr (fun hr => hfin ⟨hc0, hr⟩)
          · exact .inl hc0
        have hc := c2 hne
        rw [List.map_append, ih (k + 1) _ _ (by omega)]
        exact c1

theorem layout_complete (s : Spec.Wal.WalSegment) : s.layout.placed.map Placed.record = s.records := by
  unfold Spec.Wal.WalSegment.layout
  apply layoutPages_complete
  have : s.streamLen = Spec.Wal.align8 s.pre.length + recsLen s.records := rfl
  omega

end PgVerif.Proofs.Wal
