/-
  The operational layout (Spec/WalLayout.lean): every page it emits is parsed back to exactly what it placed;
  hence the segment theorem.  Helper lemmas for Props/C17.lean.
-/
import PgVerif.Proofs.Wal
namespace PgVerif.Proofs.Wal
open PgVerif PgVerif.Model.Wal
open PgVerif.Spec.Wal (encRecHeader encBody encRecord pad8 Trailer pageHdrBytes Placed fillPage PageFill layoutPages
  pageHeader pageInfo longExt hdrSize)

/-! ## The operational layout (Spec/WalLayout.lean): every page it emits is parsed back to what it placed -/

/-- what the tool reports for a placed record -/
def placedM : Placed → Option Record
  | .whole lsn r => some (recM lsn r (viewsM none r.blocks))
  | .cut lsn r => some (recM lsn r [])
  | .straddle _ _ => none

theorem zeros_isPadding (n : Nat) : ((zeros n).take 8).all (· == 0) = true := by
  simp [zeros, List.take_replicate]

structure FillOK (addr p : Nat) (f : PageFill) : Prop where
  len : ((f.whole.flatMap fun r => pad8 (encRecord r)) ++ f.trailer.bytes).length = 8192 - p
  tr : f.trailer.WF
  whole : ∀ r ∈ f.whole, r.WF
  rest : ∀ r ∈ f.rest, r.WF
  carry : f.carry.length ≤ 16000
  recs : addr + 8192 ≤ 2 ^ 64 → loopRecs addr p f.whole f.trailer = f.placed.filterMap placedM

theorem fillPage_ok (addr : Nat) (rs : List Spec.Wal.WalRecord) (hrs : ∀ r ∈ rs, r.WF) (p : Nat) (hp : p ≤ 8192)
    (hp8 : p % 8 = 0) : FillOK addr p (fillPage addr p rs) := by
  induction rs generalizing p with
  | nil =>
    unfold fillPage
    by_cases h : 8192 - p < 24
    · simp only [h, if_true]
      exact ⟨by simp [Trailer.bytes], by simpa [Trailer.WF] using h, by simp, by simp, by simp, fun _ => rfl⟩
    · simp only [h, if_false]
      exact ⟨by simp [Trailer.bytes], zeros_isPadding _, by simp, by simp, by simp, fun _ => rfl⟩
  | cons r rs ih =>
    have hr := hrs r (by simp)
    have h24 := totLen_ge r
    have hlen := encRecord_length r
    have htot : r.totLen ≤ 16000 := hr.2.2.2.2.2.2.2.2.2.2
    unfold fillPage
    by_cases h1 : p + Spec.Wal.align8 r.totLen ≤ 8192
    · simp only [h1, if_true]
      have hA : 24 ≤ Spec.Wal.align8 r.totLen := by simp only [Spec.Wal.align8]; omega
      have hA8 : Spec.Wal.align8 r.totLen % 8 = 0 := by simp only [Spec.Wal.align8]; omega
      obtain ⟨l, t, w, rst, c, rc⟩ := ih (fun r' h' => hrs r' (by simp [h'])) (p + Spec.Wal.align8 r.totLen) h1 (by omega)
      have hpl := pad8_length (encRecord r)
      rw [hlen] at hpl
      refine ⟨?_, t, ?_, rst, c, ?_⟩
      · simp only [List.flatMap_cons, List.append_assoc, List.length_append, hpl] at l ⊢; omega
      · intro r' h'; rcases List.mem_cons.mp h' with rfl | h'
        · exact hr
        · exact w r' h'
      · intro haddr
        simp only [loopRecs, List.filterMap_cons, placedM, rc haddr]
        rw [Nat.mod_eq_of_lt (by omega)]
    · simp only [h1, if_false]
      by_cases h2 : p ≥ 8192
      · simp only [h2, if_true]
        exact ⟨by simp [Trailer.bytes]; omega, by simp [Trailer.WF], by simp, hrs, by simp, fun _ => rfl⟩
      · simp only [h2, if_false]
        have hn : 8192 - p < r.totLen := by simp only [Spec.Wal.align8] at h1; omega
        by_cases h3 : 8192 - p ≥ 24
        · simp only [h3, if_true]
          refine ⟨by simp [Trailer.bytes, hlen]; omega, ⟨hr, h3, hn⟩, by simp, fun r' h' => hrs r' (by simp [h']),
            by simp [hlen]; omega, ?_⟩
          intro haddr
          simp only [loopRecs, List.filterMap_cons, List.filterMap_nil, placedM]
          rw [Nat.mod_eq_of_lt (by omega)]
        · simp only [h3, if_false]
          refine ⟨by simp [Trailer.bytes, hlen]; omega, ?_, by simp, fun r' h' => hrs r' (by simp [h']),
            by simp [hlen]; omega, fun _ => rfl⟩
          show ((encRecord r).take (8192 - p)).length < 24
          simp [hlen]; omega

theorem info_bits : ∀ a b c : Bool,
    (((if a then 1 else 0) + (if b then 2 else 0) + (if c then 4 else 0) : Nat) &&& 0x0001 != 0) = a ∧
    (((if a then 1 else 0) + (if b then 2 else 0) + (if c then 4 else 0) : Nat) &&& 0x0002 != 0) = b ∧
    ((if a then 1 else 0) + (if b then 2 else 0) + (if c then 4 else 0) : Nat) < 8 := by decide

theorem pageInfo_bits (s : Spec.Wal.WalSegment) (k rem : Nat) :
    (pageInfo s k rem &&& 0x0001 != 0) = decide (rem > 0) ∧ (pageInfo s k rem &&& 0x0002 != 0) = decide (k = 0) ∧
    pageInfo s k rem < 8 := by
  have := info_bits (decide (rem > 0)) (decide (k = 0)) s.removable
  simpa [pageInfo] using this

theorem longExt_length (s : Spec.Wal.WalSegment) (k : Nat) : (longExt s k).length = if k = 0 then 16 else 0 := by
  unfold longExt; split <;> simp

theorem hdr_length (s : Spec.Wal.WalSegment) (k rem : Nat) : (pageHeader s k rem).length = hdrSize k := by
  unfold pageHeader hdrSize
  rw [pageHdrBytes_length, longExt_length]; split <;> rfl

/-- what the theorems need to know about the segment's constants -/
structure SegOK (s : Spec.Wal.WalSegment) : Prop where
  magic : s.magic < 2 ^ 16
  valid : isValidMagic s.magic = true
  tli : s.tli < 2 ^ 32

theorem pageRecs_fill (s : Spec.Wal.WalSegment) (hs : SegOK s) (k : Nat) (carry : Bytes) (hc : carry.length < 2 ^ 32)
    (haddr : s.startAddr + 8192 * k + 8192 ≤ 2 ^ 64)
    (f : PageFill) (hf : FillOK (s.startAddr + 8192 * k) (hdrSize k + Spec.Wal.align8 carry.length) f) :
    pageRecs (pageHeader s k carry.length ++ pad8 carry ++
      ((f.whole.flatMap fun r => pad8 (encRecord r)) ++ f.trailer.bytes)) = f.placed.filterMap placedM := by
  obtain ⟨b1, b2, b3⟩ := pageInfo_bits s k carry.length
  have hx := longExt_length s k
  unfold pageRecs pageHeader
  rw [parseWALPage_enc s.magic (pageInfo s k carry.length) s.tli (s.startAddr + 8192 * k) carry.length (longExt s k)
    (pad8 carry) f.whole f.trailer hs.magic (by omega) hs.tli (by omega) hc hs.valid
    (by rw [b2, hx]; by_cases h0 : k = 0 <;> simp [h0])
    (by rw [b1, pad8_length]
        by_cases h0 : carry.length > 0
        · simp [h0]
        · have : carry.length = 0 := by omega
          simp [this, Spec.Wal.align8])
    hf.whole hf.tr]
  simp only []
  rw [← hf.recs (by omega), pad8_length, hx]
  congr 1
  unfold hdrSize
  by_cases h0 : k = 0 <;> simp [h0] <;> omega


theorem pageRecs_allcont (s : Spec.Wal.WalSegment) (hs : SegOK s) (k : Nat) (carry : Bytes) (hc : carry.length < 2 ^ 32)
    (hcap : Spec.Wal.align8 carry.length > 8192 - hdrSize k) (haddr : s.startAddr + 8192 * k + 8192 ≤ 2 ^ 64) :
    pageRecs (pageHeader s k carry.length ++ carry.take (8192 - hdrSize k)) = [] := by
  obtain ⟨b1, b2, b3⟩ := pageInfo_bits s k carry.length
  have hx := longExt_length s k
  have hpos : carry.length > 0 := by
    by_cases h0 : carry.length = 0
    · rw [h0] at hcap; simp [Spec.Wal.align8] at hcap
    · omega
  unfold pageRecs pageHeader
  rw [parseWALPage_allcont s.magic (pageInfo s k carry.length) s.tli (s.startAddr + 8192 * k) carry.length (longExt s k)
    _ hs.magic (by omega) hs.tli (by omega) hc hs.valid (by rw [b1]; simp [hpos])
    (by rw [b2, hx]; by_cases h0 : k = 0 <;> simp [h0])
    (by rw [List.length_take, hx]; unfold hdrSize at hcap ⊢
        by_cases h0 : k = 0 <;> simp only [h0, if_true, if_false] at hcap ⊢ <;> omega)]

theorem mul_succ' (k : Nat) : 8192 * (k + 1) = 8192 * k + 8192 := Nat.mul_succ 8192 k

theorem layoutPages_ok (s : Spec.Wal.WalSegment) (hs : SegOK s) (n : Nat) (k : Nat) (carry : Bytes)
    (rs : List Spec.Wal.WalRecord) (hc : carry.length < 2 ^ 32) (hrs : ∀ r ∈ rs, r.WF)
    (hfit : s.startAddr + 8192 * k + (layoutPages s n k carry rs).bytes.length ≤ 2 ^ 64) (tail : Bytes) :
    fileRecs ((layoutPages s n k carry rs).bytes ++ tail) =
      (layoutPages s n k carry rs).placed.filterMap placedM ++ fileRecs tail := by
  induction n generalizing k carry rs with
  | zero => simp [layoutPages]
  | succ n ih =>
    have hh := hdr_length s k carry.length
    have hk : hdrSize k = 24 ∨ hdrSize k = 40 := by unfold hdrSize; by_cases h0 : k = 0 <;> simp [h0]
    unfold layoutPages at hfit ⊢
    simp only [] at hfit ⊢
    by_cases hcap : Spec.Wal.align8 carry.length > 8192 - hdrSize k
    · rw [if_pos hcap] at hfit ⊢
      simp only [] at hfit ⊢
      have hL : 8192 - hdrSize k ≤ carry.length := by simp only [Spec.Wal.align8] at hcap; omega
      have hplen : (pageHeader s k carry.length ++ carry.take (8192 - hdrSize k)).length = 8192 := by
        rw [List.length_append, hh, List.length_take]; omega
      rw [List.length_append, hplen] at hfit
      rw [List.append_assoc, fileRecs_append _ _ 1 (by rw [hplen]), fileRecs_page _ hplen,
        pageRecs_allcont s hs k carry hc hcap (by omega), List.nil_append]
      exact ih (k + 1) (carry.drop (8192 - hdrSize k)) rs (by rw [List.length_drop]; omega) hrs
        (by rw [mul_succ']; omega)
    · rw [if_neg hcap] at hfit ⊢
      have hf := fillPage_ok (s.startAddr + 8192 * k) rs hrs (hdrSize k + Spec.Wal.align8 carry.length) (by omega)
        (by simp only [Spec.Wal.align8]; omega)
      have hplen : (pageHeader s k carry.length ++ pad8 carry ++
          (((fillPage (s.startAddr + 8192 * k) (hdrSize k + Spec.Wal.align8 carry.length) rs).whole.flatMap fun r => pad8 (encRecord r)) ++
            (fillPage (s.startAddr + 8192 * k) (hdrSize k + Spec.Wal.align8 carry.length) rs).trailer.bytes)).length = 8192 := by
        rw [List.length_append, List.length_append, hh, pad8_length, hf.len]; omega
      by_cases hfin : ((fillPage (s.startAddr + 8192 * k) (hdrSize k + Spec.Wal.align8 carry.length) rs).carry.isEmpty &&
          (fillPage (s.startAddr + 8192 * k) (hdrSize k + Spec.Wal.align8 carry.length) rs).rest.isEmpty) = true
      · rw [if_pos hfin] at hfit ⊢
        simp only [] at hfit ⊢
        rw [hplen] at hfit
        rw [fileRecs_append _ _ 1 (by rw [hplen]), fileRecs_page _ hplen, pageRecs_fill s hs k carry hc hfit _ hf]
      · rw [if_neg hfin] at hfit ⊢
        simp only [] at hfit ⊢
        rw [List.length_append, hplen] at hfit
        rw [List.append_assoc, fileRecs_append _ _ 1 (by rw [hplen]), fileRecs_page _ hplen,
          pageRecs_fill s hs k carry hc (by omega) _ hf, List.filterMap_append, List.append_assoc]
        congr 1
        exact ih (k + 1) _ _ (by have := hf.carry; omega) hf.rest (by rw [mul_succ']; omega)

theorem pagesPure_zeros (m fuel off : Nat) : pagesPure (zeros m) fuel off = [] := by
  induction fuel generalizing off with
  | zero => rfl
  | succ fuel ih =>
    simp only [pagesPure]
    split
    · rename_i h
      rw [zeros_length] at h
      have : ((zeros m).take (off + 8192)).drop off = zeros 8192 := by
        simp only [zeros, List.take_replicate, List.drop_replicate]
        congr 1; omega
      rw [this, pageRecs_zeros 8192 (by omega), ih, List.append_nil]
    · rfl

theorem fileRecs_zeros (m : Nat) : fileRecs (zeros m) = [] := pagesPure_zeros m _ 0

/-- a layout of at least one page is at least one page long -/
theorem layoutPages_length (s : Spec.Wal.WalSegment) (n k : Nat) (carry : Bytes) (rs : List Spec.Wal.WalRecord)
    (hrs : ∀ r ∈ rs, r.WF) : 8192 ≤ (layoutPages s (n + 1) k carry rs).bytes.length := by
  have hh := hdr_length s k carry.length
  have hk : hdrSize k = 24 ∨ hdrSize k = 40 := by unfold hdrSize; by_cases h0 : k = 0 <;> simp [h0]
  unfold layoutPages
  simp only []
  by_cases hcap : Spec.Wal.align8 carry.length > 8192 - hdrSize k
  · rw [if_pos hcap]
    simp only [List.length_append, hh, List.length_take]
    simp only [Spec.Wal.align8] at hcap; omega
  · rw [if_neg hcap]
    have hf := fillPage_ok (s.startAddr + 8192 * k) rs hrs (hdrSize k + Spec.Wal.align8 carry.length) (by omega)
      (by simp only [Spec.Wal.align8]; omega)
    have hl := hf.len
    split <;> simp only [List.length_append, hh, pad8_length] at hl ⊢ <;> omega

/-- a reported record as a Spec view (names are stated separately) -/
def viewOfRecord (r : Record) : Spec.Wal.RecView :=
  ⟨r.lsn, r.totalLen, r.xid, r.prev, r.info, r.rmid, r.crc, r.blocks.map viewOfM⟩

theorem placedM_reported (p : Placed) : (placedM p).map viewOfRecord = p.reported := by
  cases p with
  | whole lsn r =>
    simp only [placedM, Option.map_some, Placed.reported, viewOfRecord, recM, Spec.Wal.recView]
    rw [viewsM_views]; rfl
  | cut lsn r => rfl
  | straddle lsn r => rfl

theorem placedM_names (p : Placed) (r : Record) (h : placedM p = some r) :
    r.rmName = rmgrName r.rmid ∧ r.operation = operationName r.rmid r.info := by
  cases p <;> simp only [placedM, Option.some.injEq] at h <;> first | (subst h; exact ⟨rfl, rfl⟩) | cases h

theorem filterMap_map_view (ps : List Placed) :
    (ps.filterMap placedM).map viewOfRecord = ps.filterMap Placed.reported := by
  induction ps with
  | nil => rfl
  | cons p ps ih =>
    have := placedM_reported p
    simp only [List.filterMap_cons]
    cases hp : placedM p with
    | none => rw [hp] at this; simp only [Option.map_none] at this; rw [← this]; exact ih
    | some r => rw [hp] at this; simp only [Option.map_some] at this; rw [← this, List.map_cons, ih]

/-- the segment theorem on the model side -/
theorem segment_records (s : Spec.Wal.WalSegment) (hs : s.WF) (hv : isValidMagic s.magic = true)
    (hfit : s.startAddr + s.layout.bytes.length ≤ 2 ^ 64) :
    parseWALFile (Spec.Wal.encSegmentOp s) = .ok (some (s.layout.placed.filterMap placedM)) := by
  obtain ⟨hm, _, ht, _, _, _, _, _, _, hpre, hrs⟩ := hs
  rw [parseWALFile_eq]
  have hlen := layoutPages_length s (s.streamLen / 8) 0 s.pre s.records hrs
  rw [if_neg (by
    unfold Spec.Wal.encSegmentOp Spec.Wal.WalSegment.layout
    rw [List.length_append]; omega)]
  unfold Spec.Wal.encSegmentOp
  have := layoutPages_ok s ⟨hm, hv, ht⟩ (s.streamLen / 8 + 1) 0 s.pre s.records hpre hrs
    (by simpa [Spec.Wal.WalSegment.layout] using hfit) (zeros (8192 * s.tailPages))
  rw [fileRecs_zeros, List.append_nil] at this
  unfold Spec.Wal.WalSegment.layout
  rw [this]

/-! ## The layout places every record, once and in order -/

def recsLen (rs : List Spec.Wal.WalRecord) : Nat := (rs.map fun r => Spec.Wal.align8 r.totLen).sum

theorem fillPage_conserve (addr : Nat) (rs : List Spec.Wal.WalRecord) (p : Nat) (hp : p ≤ 8192) (hp8 : p % 8 = 0) :
    (fillPage addr p rs).placed.map Placed.record ++ (fillPage addr p rs).rest = rs ∧
    (((fillPage addr p rs).carry ≠ [] ∨ (fillPage addr p rs).rest ≠ []) →
      Spec.Wal.align8 (fillPage addr p rs).carry.length + recsLen (fillPage addr p rs).rest + (8192 - p) = recsLen rs) := by
  induction rs generalizing p with
  | nil =>
    unfold fillPage
    refine ⟨rfl, ?_⟩
    intro h; rcases h with h | h <;> exact absurd rfl h
  | cons r rs ih =>
    have h24 := totLen_ge r
    have hlen := encRecord_length r
    unfold fillPage
    by_cases h1 : p + Spec.Wal.align8 r.totLen ≤ 8192
    · simp only [h1, if_true]
      have hA8 : Spec.Wal.align8 r.totLen % 8 = 0 := by simp only [Spec.Wal.align8]; omega
      obtain ⟨i1, i2⟩ := ih (p + Spec.Wal.align8 r.totLen) h1 (by omega)
      refine ⟨?_, ?_⟩
      · simp only [List.map_cons, Placed.record, List.cons_append, i1]
      · intro h
        have := i2 h
        simp only [recsLen, List.map_cons, List.sum_cons] at this ⊢
        omega
    · simp only [h1, if_false]
      by_cases h2 : p ≥ 8192
      · simp only [h2, if_true]
        refine ⟨rfl, fun _ => ?_⟩
        simp [Spec.Wal.align8]; omega
      · simp only [h2, if_false]
        have hn : 8192 - p < r.totLen := by simp only [Spec.Wal.align8] at h1; omega
        have hcl : ((encRecord r).drop (8192 - p)).length = r.totLen - (8192 - p) := by rw [List.length_drop, hlen]
        by_cases h3 : 8192 - p ≥ 24
        · simp only [h3, if_true]
          refine ⟨rfl, fun _ => ?_⟩
          simp only [hcl, recsLen, List.map_cons, List.sum_cons, Spec.Wal.align8]; omega
        · simp only [h3, if_false]
          refine ⟨rfl, fun _ => ?_⟩
          simp only [hcl, recsLen, List.map_cons, List.sum_cons, Spec.Wal.align8]; omega

theorem layoutPages_complete (s : Spec.Wal.WalSegment) (n k : Nat) (carry : Bytes) (rs : List Spec.Wal.WalRecord)
    (hfuel : (Spec.Wal.align8 carry.length + recsLen rs) / 8 < n) :
    (layoutPages s n k carry rs).placed.map Placed.record = rs := by
  induction n generalizing k carry rs with
  | zero => omega
  | succ n ih =>
    have hk : hdrSize k = 24 ∨ hdrSize k = 40 := by unfold hdrSize; by_cases h0 : k = 0 <;> simp [h0]
    unfold layoutPages
    simp only []
    by_cases hcap : Spec.Wal.align8 carry.length > 8192 - hdrSize k
    · rw [if_pos hcap]
      simp only []
      apply ih
      rw [List.length_drop]
      simp only [Spec.Wal.align8] at hcap hfuel ⊢; omega
    · rw [if_neg hcap]
      obtain ⟨c1, c2⟩ := fillPage_conserve (s.startAddr + 8192 * k) rs (hdrSize k + Spec.Wal.align8 carry.length) (by omega)
        (by simp only [Spec.Wal.align8]; omega)
      by_cases hfin : ((fillPage (s.startAddr + 8192 * k) (hdrSize k + Spec.Wal.align8 carry.length) rs).carry.isEmpty &&
          (fillPage (s.startAddr + 8192 * k) (hdrSize k + Spec.Wal.align8 carry.length) rs).rest.isEmpty) = true
      · rw [if_pos hfin]
        simp only [Bool.and_eq_true, List.isEmpty_iff] at hfin
        simp only []
        rw [hfin.2, List.append_nil] at c1
        exact c1
      · rw [if_neg hfin]
        simp only []
        have hne : (fillPage (s.startAddr + 8192 * k) (hdrSize k + Spec.Wal.align8 carry.length) rs).carry ≠ [] ∨
            (fillPage (s.startAddr + 8192 * k) (hdrSize k + Spec.Wal.align8 carry.length) rs).rest ≠ [] := by
          simp only [Bool.and_eq_true, List.isEmpty_iff] at hfin
          by_cases hc0 : (fillPage (s.startAddr + 8192 * k) (hdrSize k + Spec.Wal.align8 carry.length) rs).carry = []
          · exact .inr (fun hr => hfin ⟨hc0, hr⟩)
          · exact .inl hc0
        have hc := c2 hne
        rw [List.map_append, ih (k + 1) _ _ (by omega)]
        exact c1

theorem layout_complete (s : Spec.Wal.WalSegment) : s.layout.placed.map Placed.record = s.records := by
  unfold Spec.Wal.WalSegment.layout
  apply layoutPages_complete
  have : s.streamLen = Spec.Wal.align8 s.pre.length + recsLen s.records := rfl
  omega

end PgVerif.Proofs.Wal
