/-
  Helper lemmas about the models of area block (blockrange.go, segment.go, checksum.go).
-/
import PgVerif.Model.Block
import PgVerif.Model.Segment
import PgVerif.Model.Checksum
import PgVerif.Spec.Block
namespace PgVerif.Proofs.Block
open PgVerif PgVerif.Model

/-! ### the cursor primitives are the index primitives of Basic -/

/-- `takeM` on the cursor `data[off:]` is the slice `data[off : off+n]` (same result, same fault) -/
theorem takeM_eq_slice (data : Bytes) (off n : Nat) (h : off ≤ data.length) :
    takeM (data.drop off) n = slice data off (off + n) := by
  unfold takeM slice
  simp only [List.length_take, List.length_drop]
  by_cases hn : off + n ≤ data.length
  · rw [if_neg (by omega), if_neg (by omega), List.take_drop]
  · rw [if_pos (by omega), if_pos (by omega)]

theorem takeM_ok (rest : Bytes) (n : Nat) (h : n ≤ rest.length) : takeM rest n = .ok (rest.take n) := by
  unfold takeM
  simp only [List.length_take]
  rw [if_neg (by omega)]; rfl

/-- `uNf` is `Basic.uN` -/
theorem uNf_eq_uN (n : Nat) (data : Bytes) (off : Nat) : uNf n data off = uN n data off := by
  unfold uNf uN
  simp only [List.length_take, List.length_drop]
  by_cases h1 : off > data.length
  · have : (decide (off > 0) && (data.drop (off - 1)).isEmpty) = true := by
      have h0 : data.drop (off - 1) = [] := List.drop_eq_nil_iff.mpr (by omega)
      have h3 : off > 0 := by omega
      simp [h0, h3]
    rw [if_pos this, if_pos h1]
  · have : ¬ ((decide (off > 0) && (data.drop (off - 1)).isEmpty) = true) := by
      intro hc
      simp only [Bool.and_eq_true, decide_eq_true_eq, List.isEmpty_iff, List.drop_eq_nil_iff] at hc
      omega
    rw [if_neg this, if_neg h1]
    by_cases h2 : data.length - off < n
    · rw [if_pos (by omega), if_pos h2]
    · rw [if_neg (by omega), if_neg h2]

theorem uNf_ok (n : Nat) (data : Bytes) (off : Nat) (h : off + n ≤ data.length) :
    uNf n data off = .ok (rd n (data.drop off)) := by
  rw [uNf_eq_uN]; exact uN_ok n data off h

/-! ### files made of whole blocks: lengths, drop and take at block boundaries -/

open PgVerif.Spec.BlockAddr in
theorem flatMap_encBlock_length (bs : List RawBlock) (h : ∀ b ∈ bs, b.WF) :
    (bs.flatMap encBlock).length = 8192 * bs.length := by
  induction bs with
  | nil => rfl
  | cons b bs ih =>
    simp only [List.flatMap_cons, List.length_append, List.length_cons]
    rw [encBlock_length b (h b (by simp)), ih (fun x hx => h x (by simp [hx]))]
    omega

open PgVerif.Spec.BlockAddr in
theorem encFile_length (f : RelFile) (h : f.WF) : (encFile f).length = 8192 * f.blocks.length + f.tail.length := by
  simp [encFile, flatMap_encBlock_length f.blocks h.1]

open PgVerif.Spec.BlockAddr in
/-- the number of whole blocks of an encoded file -/
theorem encFile_blocks (f : RelFile) (h : f.WF) : (encFile f).length / 8192 = f.blocks.length := by
  rw [encFile_length f h]; have := h.2; omega

open PgVerif.Spec.BlockAddr in
/-- dropping `k` whole blocks of the bytes = dropping `k` blocks -/
theorem drop_blocks (bs : List RawBlock) (h : ∀ b ∈ bs, b.WF) (tail : Bytes) (k : Nat) (hk : k ≤ bs.length) :
    (bs.flatMap encBlock ++ tail).drop (k * 8192) = (bs.drop k).flatMap encBlock ++ tail := by
  induction k generalizing bs with
  | zero => simp
  | succ k ih =>
    cases bs with
    | nil => simp at hk
    | cons b bs =>
      have hb := encBlock_length b (h b (by simp))
      simp only [List.flatMap_cons, List.append_assoc, List.drop_succ_cons]
      rw [show (k + 1) * 8192 = (encBlock b).length + k * 8192 by rw [hb]; omega, ← List.drop_drop, List.drop_left]
      exact ih bs (fun x hx => h x (by simp [hx])) (by simpa using hk)

open PgVerif.Spec.BlockAddr in
/-- taking `k` whole blocks of the bytes = taking `k` blocks -/
theorem take_blocks (bs : List RawBlock) (h : ∀ b ∈ bs, b.WF) (tail : Bytes) (k : Nat) (hk : k ≤ bs.length) :
    (bs.flatMap encBlock ++ tail).take (k * 8192) = (bs.take k).flatMap encBlock := by
  induction k generalizing bs with
  | zero => simp
  | succ k ih =>
    cases bs with
    | nil => simp at hk
    | cons b bs =>
      have hb := encBlock_length b (h b (by simp))
      simp only [List.flatMap_cons, List.append_assoc, List.take_succ_cons]
      rw [show (k + 1) * 8192 = (encBlock b).length + k * 8192 by rw [hb]; omega, List.take_length_add_append]
      rw [ih bs (fun x hx => h x (by simp [hx])) (by simpa using hk)]

/-! ### ParseBlockRange -/

/-- strings.SplitN(s, ":", 2) has two parts when s contains ':' -/
theorem splitColon2_two (s : Bytes) (h : s.contains 58 = true) : ∃ l r, splitColon2 s = [l, r] := by
  induction s with
  | nil => simp at h
  | cons b rest ih =>
    unfold splitColon2
    by_cases hb : b = 58
    · subst hb; exact ⟨[], rest, by rw [if_pos (by decide)]⟩
    · have hb' : (b == 58) = false := by simpa using hb
      have hr : rest.contains 58 = true := by
        simp only [List.contains_cons, Bool.or_eq_true] at h
        rcases h with h | h
        · exact absurd (beq_iff_eq.mp h).symm hb
        · exact h
      obtain ⟨l, r, e⟩ := ih hr
      exact ⟨b :: l, r, by rw [if_neg (by simp [hb']), e]⟩

theorem parseBlockRange_total (s : Bytes) : ∃ r, parseBlockRange s = .ok r := by
  unfold parseBlockRange
  split
  · exact ⟨_, rfl⟩
  · split
    · rename_i hc
      obtain ⟨l, r, e⟩ := splitColon2_two s hc
      simp only [e, part, List.getElem?_cons_zero, List.getElem?_cons_succ, ok_bind, pure_eq_ok]
      exact ⟨_, rfl⟩
    · exact ⟨_, rfl⟩

end PgVerif.Proofs.Block
