/-
  The null bitmap of an array (bit set = present, LSB first) and the loop's NULL test on it.
-/
import PgVerif.Model.Arrays
import PgVerif.Spec.Arrays
namespace PgVerif.Proofs.Arrays
open PgVerif PgVerif.Model.Arrays PgVerif.Spec.Arrays

/-! ### the null bitmap -/

theorem bits8_lt (x0 x1 x2 x3 x4 x5 x6 x7 : Bool) : bits8 x0 x1 x2 x3 x4 x5 x6 x7 < 256 := by
  cases x0 <;> cases x1 <;> cases x2 <;> cases x3 <;> cases x4 <;> cases x5 <;> cases x6 <;> cases x7 <;> decide

theorem bits8_test (x0 x1 x2 x3 x4 x5 x6 x7 : Bool) (b : Nat) (hb : b < 8) :
    (bits8 x0 x1 x2 x3 x4 x5 x6 x7 &&& (1 <<< b) == 0) = !([x0, x1, x2, x3, x4, x5, x6, x7].getD b false) := by
  have : b = 0 ∨ b = 1 ∨ b = 2 ∨ b = 3 ∨ b = 4 ∨ b = 5 ∨ b = 6 ∨ b = 7 := by omega
  rcases this with h | h | h | h | h | h | h | h <;> subst h <;>
    cases x0 <;> cases x1 <;> cases x2 <;> cases x3 <;> cases x4 <;> cases x5 <;> cases x6 <;> cases x7 <;> rfl

theorem bitmapByte_test (bits : List Bool) (j b : Nat) (hb : b < 8) :
    (bitmapByte bits j &&& (1 <<< b) == 0) = !(bits.getD (8 * j + b) false) := by
  unfold bitmapByte
  simp only []
  rw [bits8_test _ _ _ _ _ _ _ _ b hb]
  have : b = 0 ∨ b = 1 ∨ b = 2 ∨ b = 3 ∨ b = 4 ∨ b = 5 ∨ b = 6 ∨ b = 7 := by omega
  rcases this with h | h | h | h | h | h | h | h <;> subst h <;> rfl

@[simp] theorem encBitmap_length (bits : List Bool) : (encBitmap bits).length = (bits.length + 7) / 8 := by
  simp [encBitmap]

/-- the loop's NULL test on PostgreSQL's bitmap: element `i` is NULL iff its bit is clear -/
theorem nullAt_enc (bits : List Bool) (i : Nat) (hi : i < bits.length) :
    nullAt (some (encBitmap bits)) i = .ok (!(bits.getD i false)) := by
  simp only [nullAt]
  have hj : i / 8 < (bits.length + 7) / 8 := by omega
  have hget : (encBitmap bits)[i / 8]? = some (UInt8.ofNat (bitmapByte bits (i / 8))) := by
    unfold encBitmap
    rw [List.getElem?_map, List.getElem?_range hj]; rfl
  have hidx : idx (encBitmap bits) (i / 8) = .ok (UInt8.ofNat (bitmapByte bits (i / 8))) := by
    unfold idx; rw [hget]; rfl
  rw [hidx]
  simp only [ok_bind]
  have hlt : bitmapByte bits (i / 8) < 256 := by unfold bitmapByte; exact bits8_lt ..
  have hto : (UInt8.ofNat (bitmapByte bits (i / 8))).toNat = bitmapByte bits (i / 8) := by
    simp [UInt8.toNat_ofNat']; omega
  rw [hto, bitmapByte_test bits (i / 8) (i % 8) (Nat.mod_lt _ (by decide))]
  have : 8 * (i / 8) + i % 8 = i := Nat.div_add_mod i 8
  rw [this]
  rfl

end PgVerif.Proofs.Arrays
