/-
  decompressLZ4 on rendered blocks: length extension bytes, the token, one sequence, the last sequence,
  the whole block.
-/
import PgVerif.Proofs.Pglz
import PgVerif.Model.Lz4
import PgVerif.Spec.Lz4
namespace PgVerif.Proofs.Lz4
open PgVerif PgVerif.Model.Lz4 PgVerif.Spec.Lz4
set_option linter.unusedVariables false

/-! ### length extension -/

theorem readExt_255 (rest : Bytes) (acc : Nat) : readExt (255 :: rest) acc = readExt rest (acc + 255) := by
  simp [readExt]

theorem readExt_small (b : UInt8) (rest : Bytes) (acc : Nat) (h : b.toNat ≠ 255) :
    readExt (b :: rest) acc = (acc + b.toNat, rest) := by
  simp [readExt, h]

theorem readExt_extBytes (fuel : Nat) : ∀ (n acc : Nat) (rest : Bytes), n ≤ 254 * fuel →
    readExt (extBytes fuel n ++ rest) acc = (acc + n, rest) := by
  induction fuel with
  | zero =>
    intro n acc rest h
    have : n = 0 := by omega
    subst this
    simp only [extBytes, List.cons_append, List.nil_append]
    rw [readExt_small _ _ _ (by simp)]
    simp
  | succ fuel ih =>
    intro n acc rest h
    simp only [extBytes]
    by_cases hn : n < 255
    · rw [if_pos hn]
      have : (UInt8.ofNat n).toNat = n := by simp [UInt8.toNat_ofNat']; omega
      simp only [List.cons_append, List.nil_append]
      rw [readExt_small _ _ _ (by omega), this]
    · rw [if_neg hn]
      simp only [List.cons_append]
      rw [readExt_255, ih (n - 255) (acc + 255) rest (by omega)]
      have e : acc + 255 + (n - 255) = acc + n := by omega
      rw [e]

/-- reading a literal length: nibble, then extension bytes iff the nibble is 15 -/
theorem read_len (n base : Nat) (rest : Bytes) :
    (if nib n = 15 then readExt (lenExt n ++ rest) (15 + base) else (nib n + base, lenExt n ++ rest)) = (n + base, rest) := by
  unfold nib lenExt
  by_cases h : n < 15
  · simp only [h, if_true]
    rw [if_neg (by omega)]; rfl
  · simp only [h, if_false, if_true]
    rw [readExt_extBytes _ _ _ _ (by omega)]
    congr 1; omega

theorem nib_le (n : Nat) : nib n ≤ 15 := by unfold nib; split <;> omega

theorem token_fields (a b : Nat) (ha : a ≤ 15) (hb : b ≤ 15) :
    (UInt8.ofNat (a * 16 + b)).toNat >>> 4 = a ∧ (UInt8.ofNat (a * 16 + b)).toNat &&& 0x0F = b := by
  have h1 : (UInt8.ofNat (a * 16 + b)).toNat = a * 16 + b := by simp [UInt8.toNat_ofNat']; omega
  rw [h1, Pglz.and15, Nat.shiftRight_eq_div_pow]
  constructor <;> omega

theorem le2_bytes (v : Nat) (rest : Bytes) : le 2 v ++ rest = UInt8.ofNat (v % 256) :: UInt8.ofNat (v / 256 % 256) :: rest := by
  simp [le]

theorem off_decode (v : Nat) (h : v < 65536) :
    (UInt8.ofNat (v % 256)).toNat ||| ((UInt8.ofNat (v / 256 % 256)).toNat <<< 8) = v := by
  have h1 : (UInt8.ofNat (v % 256)).toNat = v % 256 := by simp [UInt8.toNat_ofNat']
  have h2 : (UInt8.ofNat (v / 256 % 256)).toNat = v / 256 := by simp [UInt8.toNat_ofNat']; omega
  rw [h1, h2, Nat.or_comm, ← Nat.shiftLeft_add_eq_or_of_lt (i := 8) (by omega : v % 256 < 2 ^ 8) (v / 256), Nat.shiftLeft_eq]
  omega

/-! ### lengths on the spec side -/

theorem expandSeq_length (out : Bytes) (s : Seq) : (expandSeq out s).length = out.length + s.produces := by
  simp [expandSeq, Pglz.expandMatch_length, Seq.produces]; omega

def producesAll (ss : List Seq) : Nat := (ss.map Seq.produces).sum

theorem expandFrom_length (ss : List Seq) (out : Bytes) : (expandFrom ss out).length = out.length + producesAll ss := by
  induction ss generalizing out with
  | nil => simp [expandFrom, producesAll]
  | cons s ss ih =>
    simp only [expandFrom, List.foldl_cons] at ih ⊢
    rw [ih, expandSeq_length]; simp [producesAll]; omega

/-! ### one sequence -/

theorem loop_seq (raw f : Nat) (s : Seq) (rest out : Bytes) (hwf : s.WF out.length)
    (hraw : out.length + s.produces ≤ raw) :
    loop raw (f+1) (renderSeq s ++ rest) out = loop raw f rest (expandSeq out s) := by
  obtain ⟨h1, h2, h3, h4⟩ := hwf
  simp only [Seq.produces] at hraw
  obtain ⟨t1, t2⟩ := token_fields (nib s.lits.length) (nib (s.len - 4)) (nib_le _) (nib_le _)
  have hl := read_len s.lits.length 0 (s.lits ++ (le 2 s.off ++ (lenExt (s.len - 4) ++ rest)))
  simp only [Nat.add_zero] at hl
  have hm := read_len (s.len - 4) 4 rest
  simp only [loop, renderSeq, List.cons_append, List.append_assoc]
  rw [if_neg (by simp; omega)]
  simp only [t1, t2, hl]
  have hlit : (if s.lits.length > (s.lits ++ (le 2 s.off ++ (lenExt (s.len - 4) ++ rest))).length
      then (s.lits ++ (le 2 s.off ++ (lenExt (s.len - 4) ++ rest))).length else s.lits.length) = s.lits.length :=
    if_neg (by simp)
  simp only [hlit]
  rw [List.take_left' rfl, List.drop_left' rfl, le2_bytes]
  rw [if_neg (by simp; omega)]
  simp only [off_decode s.off (by omega)]
  rw [if_neg (by omega)]
  have e19 : (nib (s.len - 4) + 4 = 19) = (nib (s.len - 4) = 15) := by
    apply propext; constructor <;> intro h <;> omega
  simp only [e19, show 19 = 15 + 4 from rfl, hm]
  rw [if_neg (by simp; omega), show s.len - 4 + 4 = s.len by omega]
  have := Pglz.copyLoop_match (out ++ s.lits) s.off s.len raw h1 (by simp; omega) (by simp; omega)
  rw [this]
  rfl

/-! ### the last sequence, the whole block -/

theorem loop_last (raw f : Nat) (l out : Bytes) (hraw : raw = out.length + l.length) :
    loop raw (f+1) (renderLast l) out = .ok (some (out ++ l)) := by
  by_cases hl : l = []
  · subst hl
    simp only [loop, renderLast]
    rw [if_pos (by simp at hraw; omega)]
    simp
  · have hpos : 0 < l.length := List.length_pos_iff.mpr hl
    obtain ⟨t1, _⟩ := token_fields (nib l.length) 0 (nib_le _) (by omega)
    have hr := read_len l.length 0 l
    simp only [Nat.add_zero] at hr t1
    simp only [loop, renderLast, List.cons_append]
    rw [if_neg (by simp; omega)]
    simp only [t1, hr]
    have hlit : (if l.length > l.length then l.length else l.length) = l.length := if_neg (by omega)
    simp only [hlit]
    rw [List.take_of_length_le (by omega), List.drop_of_length_le (by omega)]
    simp

theorem loop_block (raw : Nat) (ss : List Seq) : ∀ (f : Nat) (out last : Bytes), ss.length + 1 ≤ f →
    SeqsWF ss out.length → raw = out.length + producesAll ss + last.length →
    loop raw f (ss.flatMap renderSeq ++ renderLast last) out = .ok (some (expandFrom ss out ++ last)) := by
  induction ss with
  | nil =>
    intro f out last hf _ hraw
    cases f with
    | zero => omega
    | succ f =>
      simp only [List.flatMap_nil, List.nil_append, expandFrom, List.foldl_nil]
      exact loop_last raw f last out (by simpa [producesAll] using hraw)
  | cons s ss ih =>
    intro f out last hf hwf hraw
    obtain ⟨hs, hrest⟩ := hwf
    cases f with
    | zero => omega
    | succ f =>
      have hp : producesAll (s :: ss) = s.produces + producesAll ss := by simp [producesAll]
      simp only [List.flatMap_cons, List.append_assoc]
      rw [loop_seq raw f s _ out hs (by omega)]
      rw [ih f (expandSeq out s) last (by simpa using hf) (by rw [expandSeq_length]; exact hrest)
        (by rw [expandSeq_length]; omega)]
      rfl

/-- decompressLZ4 on the rendering of any valid block returns exactly the bytes the block stands for. -/
theorem decompressLZ4_render (b : Block) (h : Lz4WF b) :
    decompressLZ4 (render b) (expand b).length = .ok (some (expand b)) := by
  unfold decompressLZ4
  have hlen : 1 ≤ (render b).length := by simp [render, renderLast]; omega
  rw [if_neg (by omega)]
  have hfuel : b.seqs.length ≤ (b.seqs.flatMap renderSeq).length := by
    clear h hlen
    induction b.seqs with
    | nil => simp
    | cons s ss ih => simp only [List.flatMap_cons, List.length_append, List.length_cons, renderSeq]; omega
  unfold render expand
  exact loop_block _ b.seqs _ [] b.last
    (by simp only [List.length_append, renderLast, List.length_cons]; omega) h
    (by simp [expandFrom_length])

end PgVerif.Proofs.Lz4
