/-
  Helper lemmas for the dump modes of the command-line program (Props/C12Cli.lean, `C12_cli_dump_*`):
    * what `cliRun` does on `.dump dir opts fmt`, case by case on the result of the library call;
    * the struct → JSON value map of the dump (`Model.CliRender.dumpJV`) loses nothing: the JSON value determines the
      dump up to the order in which a row's map lists its keys (`normDump`: every map with its keys sorted).
-/
import PgVerif.Proofs.CliRender
namespace PgVerif.Proofs.CliDump
open PgVerif PgVerif.Export PgVerif.Model PgVerif.Model.CliRender PgVerif.Proofs.CliRender

/-! ### the run -/

theorem cliRun_dump_ok (L : Lib) (dir : Bytes) (opts : Spec.Options) (fmt : Format) (r : Spec.DumpResult)
    (h : L.dumpDataDir dir opts = .ok (some r)) : cliRun L (.dump dir opts fmt) = .ok (renderDump L fmt r) := by
  simp only [cliRun, h, ok_bind, pure_eq_ok]

theorem cliRun_dump_err (L : Lib) (dir : Bytes) (opts : Spec.Options) (fmt : Format)
    (h : L.dumpDataDir dir opts = .ok none) : cliRun L (.dump dir opts fmt) = .ok (.out (errOut "Error: ")) := by
  simp only [cliRun, h, ok_bind, pure_eq_ok]

theorem cliRun_dump_fault (L : Lib) (dir : Bytes) (opts : Spec.Options) (fmt : Format) (e : Fault)
    (h : L.dumpDataDir dir opts = .error e) : cliRun L (.dump dir opts fmt) = .error e := by
  simp only [cliRun, h]; rfl

/-- a rendered dump: exit code 0, nothing on stderr -/
theorem renderDump_out (L : Lib) (fmt : Format) (r : Spec.DumpResult) (o : Out) (h : renderDump L fmt r = .out o) :
    o.exit = 0 ∧ o.stderr = [] ∧ o.stderrMore = false := by
  unfold renderDump at h
  cases fmt with
  | sql => simp only [Run.out.injEq] at h; subst h; simp [okOut]
  | csv => simp only [Run.out.injEq] at h; subst h; simp [okOut]
  | json =>
    cases hv : dumpJV r with
    | none => rw [hv] at h; simp at h
    | some v => rw [hv] at h; simp only [Run.out.injEq] at h; subst h; simp [okOut]

/-! ### every map with its keys sorted -/

def normTable (t : Spec.TableDump) : Spec.TableDump := { t with rows := t.rows.map normRow }

def normDb (d : Spec.DatabaseDump) : Spec.DatabaseDump := { d with tables := d.tables.map normTable }

/-- the dump with the keys of every row (and of every map nested in a cell) in byte-wise sorted order: what a Go map
is, as far as any reader of it can tell (a Go map has no key order; its keys are distinct) -/
def normDump (r : Spec.DumpResult) : Spec.DumpResult := r.map normDb

/-! ### the JSON value back to a Go value -/

mutual
def jvGo : JV → GoVal
  | .null => .nil
  | .bool b => .bool b
  | .int i => .int i
  | .str s => .str s
  | .arr xs => .arr (jvGoList xs)
  | .obj kvs => .obj (jvGoKvs kvs)
def jvGoList : List JV → List GoVal
  | [] => []
  | x :: xs => jvGo x :: jvGoList xs
def jvGoKvs : List (Bytes × JV) → List (Bytes × GoVal)
  | [] => []
  | (k, v) :: rest => (k, jvGo v) :: jvGoKvs rest
end

theorem jvGoKvs_insert (x : Bytes × JV) : ∀ l : List (Bytes × JV),
    jvGoKvs (insertBy keyLe x l) = insertBy goKeyLe (x.1, jvGo x.2) (jvGoKvs l)
  | [] => by obtain ⟨k, v⟩ := x; simp [insertBy, jvGoKvs]
  | (k2, v2) :: ys => by
    obtain ⟨k, v⟩ := x
    have e : keyLe (k, v) (k2, v2) = goKeyLe (k, jvGo v) (k2, jvGo v2) := rfl
    cases hle : keyLe (k, v) (k2, v2) with
    | true =>
      have hle' := hle; rw [e] at hle'
      simp only [insertBy, jvGoKvs, hle, hle', if_true]
    | false =>
      have hle' := hle; rw [e] at hle'
      have ih := jvGoKvs_insert (k, v) ys
      simp only [insertBy, jvGoKvs, hle, hle', Bool.false_eq_true, if_false]
      rw [ih]

theorem jvGoKvs_sort : ∀ l : List (Bytes × JV), jvGoKvs (sortBy keyLe l) = sortBy goKeyLe (jvGoKvs l)
  | [] => rfl
  | (k, v) :: rest => by
    have ih := jvGoKvs_sort rest
    simp only [sortBy, List.foldr_cons, jvGoKvs] at ih ⊢
    rw [jvGoKvs_insert, ih]

mutual
/-- `goValJV` loses nothing but the key order of maps -/
theorem goValJV_inv : ∀ (v : GoVal) (j : JV), goValJV v = some j → jvGo j = normVal v
  | .nil, j, h => by simp only [goValJV, Option.some.injEq] at h; subst h; rfl
  | .bool b, j, h => by simp only [goValJV, Option.some.injEq] at h; subst h; rfl
  | .int i, j, h => by simp only [goValJV, Option.some.injEq] at h; subst h; rfl
  | .f64 _, j, h => by simp [goValJV] at h
  | .f32 _, j, h => by simp [goValJV] at h
  | .str s, j, h => by simp only [goValJV, Option.some.injEq] at h; subst h; rfl
  | .arr xs, j, h => by
    cases hx : goValsJV xs with
    | none => simp [goValJV, hx] at h
    | some l =>
      simp only [goValJV, hx, Option.some.injEq] at h
      subst h
      simp only [jvGo, normVal, goValsJV_inv xs l hx]
  | .obj kvs, j, h => by
    cases hx : goKvsJV kvs with
    | none => simp [goValJV, hx] at h
    | some l =>
      simp only [goValJV, hx, Option.some.injEq] at h
      subst h
      simp only [jvGo, normVal, jvGoKvs_sort, goKvsJV_inv kvs l hx]
theorem goValsJV_inv : ∀ (xs : List GoVal) (l : List JV), goValsJV xs = some l → jvGoList l = normVals xs
  | [], l, h => by simp only [goValsJV, Option.some.injEq] at h; subst h; rfl
  | x :: xs, l, h => by
    cases hx : goValJV x with
    | none => simp [goValsJV, hx] at h
    | some a =>
      cases hxs : goValsJV xs with
      | none => simp [goValsJV, hx, hxs] at h
      | some b =>
        simp only [goValsJV, hx, hxs, Option.some.injEq] at h
        subst h
        simp only [jvGoList, normVals, goValJV_inv x a hx, goValsJV_inv xs b hxs]
theorem goKvsJV_inv : ∀ (kvs : List (Bytes × GoVal)) (l : List (Bytes × JV)), goKvsJV kvs = some l → jvGoKvs l = normKvs kvs
  | [], l, h => by simp only [goKvsJV, Option.some.injEq] at h; subst h; rfl
  | (k, v) :: rest, l, h => by
    cases hx : goValJV v with
    | none => simp [goKvsJV, hx] at h
    | some a =>
      cases hxs : goKvsJV rest with
      | none => simp [goKvsJV, hx, hxs] at h
      | some b =>
        simp only [goKvsJV, hx, hxs, Option.some.injEq] at h
        subst h
        simp only [jvGoKvs, normKvs, goValJV_inv v a hx, goKvsJV_inv rest b hxs]
end

/-- the JSON object of a row determines the row with its keys sorted -/
theorem rowJV_rel (a b : Spec.DRow) (j : JV) (ha : rowJV a = some j) (hb : rowJV b = some j) : normRow a = normRow b := by
  have h1 := goValJV_inv (.obj a) j ha
  have h2 := goValJV_inv (.obj b) j hb
  rw [h1] at h2
  simp only [normVal, GoVal.obj.injEq] at h2
  exact h2

/-! ### lists rendered element by element -/

/-- `F` renders a list element by element with `f`, failing when an element fails (`rowsJV`, `tablesJV`, `dbsJV`) -/
def ElemWise {α β} (f : α → Option β) (F : List α → Option (List β)) : Prop :=
  F [] = some [] ∧ ∀ x xs, F (x :: xs) = (f x).bind fun a => (F xs).map fun b => a :: b

theorem elemwise_rel {α β γ} (f : α → Option β) (F : List α → Option (List β)) (g : α → γ) (hF : ElemWise f F)
    (hrel : ∀ a b j, f a = some j → f b = some j → g a = g b) :
    ∀ (l₁ l₂ : List α) (js : List β), F l₁ = some js → F l₂ = some js → l₁.map g = l₂.map g
  | [], [], _, _, _ => rfl
  | [], y :: ys, js, h1, h2 => by
    rw [hF.1] at h1
    rw [hF.2] at h2
    cases hy : f y <;> cases hys : F ys <;> simp [hy, hys] at h2
    simp only [Option.some.injEq] at h1
    subst h1; simp at h2
  | x :: xs, [], js, h1, h2 => by
    rw [hF.1] at h2
    rw [hF.2] at h1
    cases hx : f x <;> cases hxs : F xs <;> simp [hx, hxs] at h1
    simp only [Option.some.injEq] at h2
    subst h2; simp at h1
  | x :: xs, y :: ys, js, h1, h2 => by
    rw [hF.2] at h1 h2
    cases hx : f x with
    | none => simp [hx] at h1
    | some a =>
      cases hxs : F xs with
      | none => simp [hx, hxs] at h1
      | some as =>
        cases hy : f y with
        | none => simp [hy] at h2
        | some b =>
          cases hys : F ys with
          | none => simp [hy, hys] at h2
          | some bs =>
            simp [hx, hxs] at h1
            simp [hy, hys] at h2
            subst h1
            simp only [List.cons.injEq] at h2
            obtain ⟨e1, e2⟩ := h2
            subst e1; subst e2
            simp only [List.map_cons, List.cons.injEq]
            exact ⟨hrel x y _ hx hy, elemwise_rel f F g hF hrel xs ys _ hxs hys⟩

theorem elemwise_nil {α β} (f : α → Option β) (F : List α → Option (List β)) (hF : ElemWise f F) (l : List α)
    (h : F l = some []) : l = [] := by
  cases l with
  | nil => rfl
  | cons x xs =>
    rw [hF.2] at h
    cases hx : f x <;> cases hxs : F xs <;> simp [hx, hxs] at h

theorem rowsJV_elemwise : ElemWise rowJV rowsJV :=
  ⟨rfl, fun x xs => by simp only [rowsJV]; cases rowJV x <;> cases rowsJV xs <;> rfl⟩
theorem tablesJV_elemwise : ElemWise tableJV tablesJV :=
  ⟨rfl, fun x xs => by simp only [tablesJV]; cases tableJV x <;> cases tablesJV xs <;> rfl⟩
theorem dbsJV_elemwise : ElemWise dbJV dbsJV :=
  ⟨rfl, fun x xs => by simp only [dbsJV]; cases dbJV x <;> cases dbsJV xs <;> rfl⟩

/-! ### the structs -/

theorem columnJV_inj (a b : Spec.ColumnInfo) (h : columnJV a = columnJV b) : a = b := by
  cases a; cases b
  simp only [columnJV, JV.obj.injEq, List.cons.injEq, Prod.mk.injEq, true_and, and_true, JV.str.injEq, JV.int.injEq] at h
  simp [h.1, h.2.1, h.2.2]

theorem table_keys_ne : key "columns" ≠ key "rows" ∧ key "columns" ≠ key "row_count" ∧ key "rows" ≠ key "row_count" := by decide

theorem isEmpty_false_of_ne {α} (l : List α) (h : l ≠ []) : l.isEmpty = false := by
  cases l with
  | nil => exact absurd rfl h
  | cons _ _ => rfl

/-- the JSON object of a table determines its oid, name, filenode, relkind, the columns in order (an omitted `columns`
is the empty list), the row count and the rows in order (an omitted `rows` is the empty list), each row up to the order
of its keys -/
theorem tableJV_rel (a b : Spec.TableDump) (j : JV) (ha : tableJV a = some j) (hb : tableJV b = some j) :
    normTable a = normTable b := by
  obtain ⟨k1, k2, k3⟩ := table_keys_ne
  unfold tableJV at ha hb
  cases hra : rowsJV a.rows with
  | none => simp [hra] at ha
  | some ra =>
    cases hrb : rowsJV b.rows with
    | none => simp [hrb] at hb
    | some rb =>
      simp only [hra, Option.some.injEq] at ha
      simp only [hrb, Option.some.injEq] at hb
      rw [← hb] at ha
      clear hb
      have hrows : ra = rb → a.rows.map normRow = b.rows.map normRow := by
        intro e; subst e
        exact elemwise_rel rowJV rowsJV normRow rowsJV_elemwise rowJV_rel a.rows b.rows ra hra hrb
      cases a; cases b
      rename_i ao an af ak ac ar an' bo bn bf bk bc br bn'
      simp only at ha hra hrb hrows
      have cj : ∀ l₁ l₂ : List Spec.ColumnInfo, l₁.map columnJV = l₂.map columnJV → l₁ = l₂ :=
        map_inj_of_inj columnJV columnJV_inj
      simp only [normTable, Spec.TableDump.mk.injEq]
      cases ac <;> cases bc <;> cases ra <;> cases rb <;>
        simp only [List.isEmpty_nil, List.isEmpty_cons, if_true, Bool.false_eq_true, if_false, List.cons_append, List.nil_append,
          List.append_nil, JV.obj.injEq, List.cons.injEq, Prod.mk.injEq, true_and, and_true, jnat, JV.int.injEq, JV.str.injEq,
          JV.arr.injEq, Int.ofNat_inj, k1, k2, k3, Ne.symm k1, Ne.symm k2, Ne.symm k3, and_false, false_and, reduceCtorEq,
          List.map_nil, List.map_cons] at ha
      all_goals (
        obtain ⟨e1, e2, e3, e4, rest⟩ := ha
        refine ⟨e1, e2, e3, e4, ?_⟩
        first
          | exact ⟨rfl, hrows rfl, rest⟩
          | exact ⟨rfl, hrows (by rw [rest.1.1, rest.1.2]), rest.2⟩
          | exact ⟨by rw [columnJV_inj _ _ rest.1.1, cj _ _ rest.1.2], hrows rfl, rest.2⟩
          | exact ⟨by rw [columnJV_inj _ _ rest.1.1, cj _ _ rest.1.2], hrows (by rw [rest.2.1.1, rest.2.1.2]), rest.2.2⟩)

theorem optList_inj (l₁ l₂ : List JV)
    (h : (if l₁.isEmpty then JV.null else JV.arr l₁) = (if l₂.isEmpty then JV.null else JV.arr l₂)) : l₁ = l₂ := by
  cases l₁ <;> cases l₂ <;> simp at h ⊢
  exact h

/-- the JSON object of a database determines its oid, its name and its tables in order (`null` = no table) -/
theorem dbJV_rel (a b : Spec.DatabaseDump) (j : JV) (ha : dbJV a = some j) (hb : dbJV b = some j) : normDb a = normDb b := by
  unfold dbJV at ha hb
  cases hta : tablesJV a.tables with
  | none => simp [hta] at ha
  | some ta =>
    cases htb : tablesJV b.tables with
    | none => simp [htb] at hb
    | some tb =>
      simp only [hta, Option.some.injEq] at ha
      simp only [htb, Option.some.injEq] at hb
      rw [← hb] at ha
      simp only [JV.obj.injEq, List.cons.injEq, Prod.mk.injEq, true_and, and_true, jnat, JV.int.injEq, JV.str.injEq,
        Int.ofNat_inj] at ha
      obtain ⟨e1, e2, e3⟩ := ha
      have e := optList_inj ta tb e3
      subst e
      have ht := elemwise_rel tableJV tablesJV normTable tablesJV_elemwise tableJV_rel a.tables b.tables ta hta htb
      cases a; cases b
      simp only at e1 e2 ht
      simp only [normDb, Spec.DatabaseDump.mk.injEq]
      exact ⟨e1, e2, ht⟩

/-- the JSON value of a dump determines the dump: the databases in order, each with its oid, name and tables in order,
each table with oid, name, filenode, relkind, columns, row count and rows in order — everything but the order in which
a row's map lists its keys -/
theorem dumpJV_rel (r₁ r₂ : Spec.DumpResult) (v : JV) (h₁ : dumpJV r₁ = some v) (h₂ : dumpJV r₂ = some v) :
    normDump r₁ = normDump r₂ := by
  unfold dumpJV at h₁ h₂
  cases ha : dbsJV r₁ with
  | none => simp [ha] at h₁
  | some da =>
    cases hb : dbsJV r₂ with
    | none => simp [hb] at h₂
    | some db =>
      simp only [ha, Option.some.injEq] at h₁
      simp only [hb, Option.some.injEq] at h₂
      rw [← h₂] at h₁
      simp only [JV.obj.injEq, List.cons.injEq, Prod.mk.injEq, true_and, and_true] at h₁
      have e := optList_inj da db h₁
      subst e
      exact elemwise_rel dbJV dbsJV normDb dbsJV_elemwise dbJV_rel r₁ r₂ da ha hb

/-! ### a dump without floats has a JSON value -/

mutual
/-- no float32 / float64 anywhere in the value -/
def floatFree : GoVal → Bool
  | .f64 _ => false
  | .f32 _ => false
  | .arr xs => floatFreeList xs
  | .obj kvs => floatFreeKvs kvs
  | _ => true
def floatFreeList : List GoVal → Bool
  | [] => true
  | x :: xs => floatFree x && floatFreeList xs
def floatFreeKvs : List (Bytes × GoVal) → Bool
  | [] => true
  | (_, v) :: rest => floatFree v && floatFreeKvs rest
end

mutual
theorem goValJV_isSome : ∀ v : GoVal, (goValJV v).isSome = floatFree v
  | .nil => rfl
  | .bool _ => rfl
  | .int _ => rfl
  | .f64 _ => rfl
  | .f32 _ => rfl
  | .str _ => rfl
  | .arr xs => by
    have := goValsJV_isSome xs
    cases hx : goValsJV xs <;> simp [goValJV, floatFree, hx] at this ⊢ <;> exact this
  | .obj kvs => by
    have := goKvsJV_isSome kvs
    cases hx : goKvsJV kvs <;> simp [goValJV, floatFree, hx] at this ⊢ <;> exact this
theorem goValsJV_isSome : ∀ xs : List GoVal, (goValsJV xs).isSome = floatFreeList xs
  | [] => rfl
  | x :: xs => by
    have h1 := goValJV_isSome x
    have h2 := goValsJV_isSome xs
    cases hx : goValJV x <;> cases hxs : goValsJV xs <;> simp [goValsJV, floatFreeList, hx, hxs] at h1 h2 ⊢ <;> simp [h1, h2]
theorem goKvsJV_isSome : ∀ kvs : List (Bytes × GoVal), (goKvsJV kvs).isSome = floatFreeKvs kvs
  | [] => rfl
  | (k, v) :: rest => by
    have h1 := goValJV_isSome v
    have h2 := goKvsJV_isSome rest
    cases hx : goValJV v <;> cases hxs : goKvsJV rest <;> simp [goKvsJV, floatFreeKvs, hx, hxs] at h1 h2 ⊢ <;> simp [h1, h2]
end

/-- no cell of the dump holds a float -/
def dumpFloatFree (r : Spec.DumpResult) : Bool :=
  r.all fun d => d.tables.all fun t => t.rows.all fun row => floatFreeKvs row

theorem elemwise_isSome {α β} (f : α → Option β) (F : List α → Option (List β)) (hF : ElemWise f F) :
    ∀ l : List α, (F l).isSome = l.all fun x => (f x).isSome
  | [] => by rw [hF.1]; rfl
  | x :: xs => by
    have ih := elemwise_isSome f F hF xs
    rw [hF.2]
    cases hx : f x <;> cases hxs : F xs <;> simp [hx, hxs] at ih ⊢ <;> exact ih

theorem rowJV_isSome (r : Spec.DRow) : (rowJV r).isSome = floatFreeKvs r := by
  have := goValJV_isSome (.obj r)
  simpa [rowJV, floatFree] using this

theorem tableJV_isSome (t : Spec.TableDump) : (tableJV t).isSome = t.rows.all fun row => floatFreeKvs row := by
  have h := elemwise_isSome rowJV rowsJV rowsJV_elemwise t.rows
  simp only [rowJV_isSome] at h
  unfold tableJV
  cases hr : rowsJV t.rows <;> simp [hr] at h ⊢ <;> exact h

theorem dbJV_isSome (d : Spec.DatabaseDump) : (dbJV d).isSome = d.tables.all fun t => t.rows.all fun row => floatFreeKvs row := by
  have h := elemwise_isSome tableJV tablesJV tablesJV_elemwise d.tables
  simp only [tableJV_isSome] at h
  unfold dbJV
  cases hr : tablesJV d.tables <;> simp [hr] at h ⊢ <;> exact h

/-- the JSON dump is rendered exactly for the dumps without a float cell -/
theorem dumpJV_isSome (r : Spec.DumpResult) : (dumpJV r).isSome = dumpFloatFree r := by
  have h := elemwise_isSome dbJV dbsJV dbsJV_elemwise r
  simp only [dbJV_isSome] at h
  unfold dumpJV dumpFloatFree
  cases hr : dbsJV r <;> simp [hr] at h ⊢ <;> exact h

end PgVerif.Proofs.CliDump
