/-
  detectIndexType as a pure function of the page (no fault can occur), and the facts about it used by
  C18_classify / C18_no_confusion.
-/
import PgVerif.Proofs.IndexEnc
namespace PgVerif.Proofs.Index
open PgVerif PgVerif.Model.Index PgVerif.Spec.Index

/-- the GIN test as a pure function -/
def ginP (ss : Nat) (sd : Bytes) : Nat :=
  if ss ≥ 8 then
    if rd 2 (sd.drop 6) &&& 8 != 0 || rd 2 (sd.drop 6) &&& 1 != 0 || rd 2 (sd.drop 6) &&& 16 != 0 then 4
    else if ss = 8 ∧ rd 2 (sd.drop 6) &&& 0xFF00 = 0 then 4
    else 0
  else 0

theorem detectGIN_eq (ss : Nat) (sd : Bytes) (h : ss ≤ sd.length) : detectGIN ss sd = .ok (ginP ss sd) := by
  unfold detectGIN ginP
  simp only [apply_ite (Except.ok (ε := Fault))]
  split
  · simp (disch := omega) only [uN_ok, ok_bind, pure_eq_ok]
  · rfl

/-- the B-tree test as a pure function -/
def btreeP (page : Bytes) (ss : Nat) (sd : Bytes) : Nat :=
  if ss ≥ 16 then
    if rd 2 (sd.drop 14) ≤ BTMaxCycleID then
      if rd 2 (sd.drop 12) &&& 8 != 0 then
        if rd 4 (page.drop 24) = 0x053162 then 1 else ginP ss sd
      else 1
    else ginP ss sd
  else ginP ss sd

theorem detectBTree_eq (page : Bytes) (ss : Nat) (sd : Bytes) (hp : 28 ≤ page.length) (h : ss ≤ sd.length) :
    detectBTree page ss sd = .ok (btreeP page ss sd) := by
  unfold detectBTree btreeP
  simp only [apply_ite (Except.ok (ε := Fault)), detectGIN_eq ss sd h]
  split
  · simp (disch := omega) only [uN_ok, ok_bind, pure_eq_ok]
  · rfl

/-- detectIndexType as a pure function of the page -/
def detectP (page : Bytes) : Nat :=
  if page.length < 8192 then 0
  else if rd 2 (page.drop 16) = 0 ∨ rd 2 (page.drop 16) ≥ 8192 then 0
  else if 8192 - rd 2 (page.drop 16) ≥ 2 then
    if rd 2 (page.drop 8190) = 0xFF80 then 2
    else if rd 2 (page.drop 8190) = 0xFF81 then 3
    else if rd 2 (page.drop 8190) = 0xFF82 then 5
    else if 8192 - rd 2 (page.drop 16) = 8 ∧ rd 2 (page.drop 8190) ≥ 0xF091 ∧ rd 2 (page.drop 8190) ≤ 0xF093 then 6
    else btreeP page (8192 - rd 2 (page.drop 16)) (page.drop (rd 2 (page.drop 16)))
  else btreeP page (8192 - rd 2 (page.drop 16)) (page.drop (rd 2 (page.drop 16)))

theorem detect_eq (page : Bytes) : detectIndexType page = .ok (detectP page) := by
  unfold detectIndexType detectP
  simp only [apply_ite (Except.ok (ε := Fault))]
  split
  · rfl
  · simp (disch := omega) only [uN_ok, ok_bind, pure_eq_ok]
    split
    · rfl
    · rename_i hl hs
      have hs' : rd 2 (page.drop 16) < 8192 := by omega
      have hb := detectBTree_eq page (8192 - rd 2 (page.drop 16)) (page.drop (rd 2 (page.drop 16))) (by omega)
        (by simp only [List.length_drop]; omega)
      simp (disch := omega) only [sliceFrom_ok, ok_bind, hb]

end PgVerif.Proofs.Index

namespace PgVerif.Proofs.Index
open PgVerif PgVerif.Model.Index PgVerif.Spec.Index

/-- detectIndexType on a page whose special space has one of the two real sizes, as a function of `pd_special`, the last
16 bytes of the page and the first word after the page header -/
def detectFn (s : Nat) (l16 : Bytes) (magic : Nat) : Nat :=
  if rd 2 (l16.drop 14) = 0xFF80 then 2
  else if rd 2 (l16.drop 14) = 0xFF81 then 3
  else if rd 2 (l16.drop 14) = 0xFF82 then 5
  else if s = 8184 ∧ rd 2 (l16.drop 14) ≥ 0xF091 ∧ rd 2 (l16.drop 14) ≤ 0xF093 then 6
  else if s = 8176 then
    if rd 2 (l16.drop 14) ≤ BTMaxCycleID then
      if rd 2 (l16.drop 12) &&& 8 != 0 then
        if magic = 0x053162 then 1 else ginP 16 l16
      else 1
    else ginP 16 l16
  else ginP 8 (l16.drop 8)

theorem detectP_fn (page : Bytes) (hl : page.length = 8192)
    (hs : rd 2 (page.drop 16) = 8176 ∨ rd 2 (page.drop 16) = 8184) :
    detectP page = detectFn (rd 2 (page.drop 16)) (page.drop 8176) (rd 4 (page.drop 24)) := by
  unfold detectP detectFn
  rcases hs with hs | hs
  · simp [hs, hl, btreeP, List.drop_drop]
  · simp [hs, hl, btreeP, List.drop_drop]

theorem and_ff00 : ∀ x, x < 256 → x &&& 0xFF00 = 0 := by decide +kernel

theorem ginP8_small (sd : Bytes) (h : rd 2 (sd.drop 6) < 256) : ginP 8 sd = 4 := by
  have hz := and_ff00 _ h
  simp [ginP, hz]

/-- the tool's decision is the Spec's decision wherever the Spec decides -/
theorem detectFn_classify (s : Nat) (l16 : Bytes) (w : Nat) (am : AM) (h : classify s l16 w = some am) :
    detectFn s l16 w = code am := by
  unfold classify at h
  unfold detectFn
  by_cases hs : s = 8176
  · subst hs
    simp only [if_true] at h
    by_cases h1 : rd 2 (l16.drop 14) = 0xFF80
    · simp only [h1, if_true] at h ⊢; injection h with h; subst h; rfl
    · simp only [h1, if_false] at h ⊢
      by_cases h2 : rd 2 (l16.drop 14) = 0xFF81
      · simp only [h2, if_true] at h ⊢; injection h with h; subst h; rfl
      · simp only [h2, if_false] at h ⊢
        by_cases h3 : rd 2 (l16.drop 14) ≤ 0xFF7F ∧ ((rd 2 (l16.drop 12)).testBit 3 = true → w = 0x053162)
        · rw [if_pos h3] at h; injection h with h; subst h
          obtain ⟨hc, hm⟩ := h3
          have n1 : rd 2 (l16.drop 14) ≠ 0xFF82 := by omega
          have hc' : rd 2 (l16.drop 14) ≤ BTMaxCycleID := by unfold BTMaxCycleID; exact hc
          simp only [n1, if_false, hc', if_true, bit3, code]
          simp only [show (8176 = 8184) = False by simp, false_and, if_false]
          cases hb : (rd 2 (l16.drop 12)).testBit 3
          · simp
          · simp [hm hb]
        · rw [if_neg h3] at h; cases h
  · simp only [hs, if_false] at h
    by_cases hs2 : s = 8184
    · subst hs2
      simp only [if_true] at h
      by_cases h1 : rd 2 (l16.drop 14) = 0xFF82
      · simp only [h1, if_true] at h; injection h with h; subst h; simp [h1, code]
      · simp only [h1, if_false] at h
        by_cases h2 : rd 2 (l16.drop 14) = 0xF091 ∨ rd 2 (l16.drop 14) = 0xF092 ∨ rd 2 (l16.drop 14) = 0xF093
        · simp only [h2, if_true] at h; injection h with h; subst h
          have n1 : rd 2 (l16.drop 14) ≠ 0xFF80 := by omega
          have n2 : rd 2 (l16.drop 14) ≠ 0xFF81 := by omega
          have c : rd 2 (l16.drop 14) ≥ 0xF091 ∧ rd 2 (l16.drop 14) ≤ 0xF093 := by omega
          simp [n1, n2, h1, c, code]
        · simp only [h2, if_false] at h
          by_cases h3 : rd 2 (l16.drop 14) < 256
          · simp only [h3, if_true] at h; injection h with h; subst h
            have n1 : rd 2 (l16.drop 14) ≠ 0xFF80 := by omega
            have n2 : rd 2 (l16.drop 14) ≠ 0xFF81 := by omega
            have n3 : ¬ (rd 2 (l16.drop 14) ≥ 0xF091 ∧ rd 2 (l16.drop 14) ≤ 0xF093) := by omega
            have hg : ginP 8 (l16.drop 8) = 4 := ginP8_small _ (by rw [List.drop_drop]; exact h3)
            simp [n1, n2, h1, n3, hg, code]
          · simp only [h3, if_false] at h; cases h
    · simp only [hs2, if_false] at h; cases h

/-! ### the Spec's decision on encoded pages -/

theorem rd_op (fs : List Field) (i : Nat) (hi : i < fs.length) (hv : fs[i].2 < 256 ^ fs[i].1) :
    rd fs[i].1 ((encFields fs).drop (offsetOf fs i)) = fs[i].2 := by
  have := read_field fs [] i hi hv; simpa using this

theorem drop_tail (p : Page) (h : p.WF) (k : Nat) :
    (encPage p).drop (p.special + k) = (encOpaque p.op).drop k := by
  rw [← encPage_drop_special p h, List.drop_drop]

/-- a B-tree page flagged BTP_META carries BTREE_MAGIC in the first word after the page header -/
def MagicOK (p : Page) : Prop :=
  ∀ pr nx lv f c, p.op = .btree pr nx lv f c → f.testBit 3 = true → rd 4 ((encPage p).drop 24) = btMagic

theorem classify_enc (p : Page) (h : p.WF) (hm : MagicOK p) :
    classify p.special ((encPage p).drop 8176) (rd 4 ((encPage p).drop 24)) = some p.op.am := by
  have hop : p.op.WF := h.2.2.2.2.2.2.2.2.2.2
  unfold classify
  simp only [List.drop_drop]
  cases hp : p.op with
  | btree pr nx lv f c =>
    have hs : p.special = 8176 := by simp [Page.special, hp, Opaque.size, Opaque.am, AM.opaqueSize]
    rw [hp] at hop
    obtain ⟨h1, h2, h3, h4, h5⟩ := hop
    have e14 : (encPage p).drop (8176 + 14) = (encOpaque p.op).drop 14 := by rw [← hs]; exact drop_tail p h 14
    have e12 : (encPage p).drop (8176 + 12) = (encOpaque p.op).drop 12 := by rw [← hs]; exact drop_tail p h 12
    have r4 := rd_op (opFields (.btree pr nx lv f c)) 4 (by simp [opFields]) (by simp [opFields]; omega)
    have r3 := rd_op (opFields (.btree pr nx lv f c)) 3 (by simp [opFields]) (by simpa [opFields] using h4)
    simp [opFields, offsetOf] at r3 r4
    rw [hs, e14, e12, hp, encOpaque_fields]
    simp only [opFields, r3, r4, if_true]
    have n1 : c ≠ hashPageId := by simp only [hashPageId]; omega
    have n2 : c ≠ gistPageId := by simp only [gistPageId]; omega
    rw [if_neg n1, if_neg n2, if_pos ⟨h5, hm pr nx lv f c hp⟩]; rfl
  | hash pr nx b f =>
    have hs : p.special = 8176 := by simp [Page.special, hp, Opaque.size, Opaque.am, AM.opaqueSize]
    have e14 : (encPage p).drop (8176 + 14) = (encOpaque p.op).drop 14 := by rw [← hs]; exact drop_tail p h 14
    have r4 := rd_op (opFields (.hash pr nx b f)) 4 (by simp [opFields]) (by simp [opFields, hashPageId])
    simp [opFields, offsetOf] at r4
    rw [hs, e14, hp, encOpaque_fields]
    simp only [opFields, r4, if_true]; rfl
  | gist nsn r f =>
    have hs : p.special = 8176 := by simp [Page.special, hp, Opaque.size, Opaque.am, AM.opaqueSize]
    have e14 : (encPage p).drop (8176 + 14) = (encOpaque p.op).drop 14 := by rw [← hs]; exact drop_tail p h 14
    have r3 := rd_op (opFields (.gist nsn r f)) 3 (by simp [opFields]) (by simp [opFields, gistPageId])
    simp [opFields, offsetOf] at r3
    rw [hs, e14, hp, encOpaque_fields]
    simp only [opFields, r3, if_true]; rfl
  | gin r m f =>
    have hs : p.special = 8184 := by simp [Page.special, hp, Opaque.size, Opaque.am, AM.opaqueSize]
    rw [hp] at hop
    obtain ⟨h1, h2, h3⟩ := hop
    have e14 : (encPage p).drop (8176 + 14) = (encOpaque p.op).drop 6 := by
      rw [show 8176 + 14 = 8184 + 6 by rfl, ← hs]; exact drop_tail p h 6
    have r2 := rd_op (opFields (.gin r m f)) 2 (by simp [opFields]) (by simp [opFields]; omega)
    simp [opFields, offsetOf] at r2
    rw [hs, e14, hp, encOpaque_fields]
    simp only [opFields, r2]
    have h3' : f < 256 := h3
    have n1 : f ≠ spgistPageId := by simp only [spgistPageId]; omega
    have n2 : ¬ (f = brinMeta ∨ f = brinRevmap ∨ f = brinRegular) := by simp only [brinMeta, brinRevmap, brinRegular]; omega
    simp [n1, n2, h3', Opaque.am]
  | spgist f a b =>
    have hs : p.special = 8184 := by simp [Page.special, hp, Opaque.size, Opaque.am, AM.opaqueSize]
    have e14 : (encPage p).drop (8176 + 14) = (encOpaque p.op).drop 6 := by
      rw [show 8176 + 14 = 8184 + 6 by rfl, ← hs]; exact drop_tail p h 6
    have r3 := rd_op (opFields (.spgist f a b)) 3 (by simp [opFields]) (by simp [opFields, spgistPageId])
    simp [opFields, offsetOf] at r3
    rw [hs, e14, hp, encOpaque_fields]
    simp [opFields, r3, Opaque.am]
  | brin a b f t =>
    have hs : p.special = 8184 := by simp [Page.special, hp, Opaque.size, Opaque.am, AM.opaqueSize]
    rw [hp] at hop
    obtain ⟨h1, h2, h3, h4⟩ := hop
    have ht : t < 2 ^ 16 := by rcases h4 with h | h | h <;> omega
    have e14 : (encPage p).drop (8176 + 14) = (encOpaque p.op).drop 6 := by
      rw [show 8176 + 14 = 8184 + 6 by rfl, ← hs]; exact drop_tail p h 6
    have r3 := rd_op (opFields (.brin a b f t)) 3 (by simp [opFields]) (by simpa [opFields] using ht)
    simp [opFields, offsetOf] at r3
    rw [hs, e14, hp, encOpaque_fields]
    simp only [opFields, r3]
    have n1 : t ≠ spgistPageId := by simp only [spgistPageId]; omega
    have c : t = brinMeta ∨ t = brinRevmap ∨ t = brinRegular := h4
    simp [n1, c, Opaque.am]

/-- detectIndexType on an encoded well-formed page returns the tool's number of the page's access method -/
theorem detect_enc (p : Page) (h : p.WF) (hm : MagicOK p) : detectIndexType (encPage p) = .ok (code p.op.am) := by
  rw [detect_eq, detectP_fn _ (encPage_length p h) (by rw [rd_special]; exact special_cases p), rd_special,
    detectFn_classify _ _ _ _ (classify_enc p h hm)]

end PgVerif.Proofs.Index
