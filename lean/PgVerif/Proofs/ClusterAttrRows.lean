/-
  Helper lemmas for C01: pg_attribute in PostgreSQL's three real layouts (12–13, 14–15, 16) read with the tool's three
  schemas (dropped.go: schemaPGAttrDropped / …V15 / …V12, which catalog.go:readAttrRows uses since fixes/cluster/08).
  Each schema is a prefix of "its" real layout (readings R16, R14, R12: every field from the right bytes).  Without a
  version hint the tool reads the file under all three schemas and keeps the one with the most plausible rows; the
  lemmas here say what a schema sees in a row of ANOTHER layout, as far as the choice needs it: the 16 schema on a
  12–15 row (reading D: its `attalign` is the high byte of attcacheoff, 0xFF), the 14–15 schema on a 12–13 row (reading
  E: its `attstorage` is the row's attalign), and that every schema decodes every row (`decodeTuple_catSchema`).
-/
import PgVerif.Proofs.ClusterAttrs
namespace PgVerif.Proofs.Cluster
open PgVerif PgVerif.Model PgVerif.Spec PgVerif.Proofs PgVerif.Proofs.Rows List

/-! ### arithmetic -/

theorem ofSigned32_neg1 : ofSigned 32 (-1) = 4294967295 := by decide

theorem toSigned_ofSigned16 (v : Int) (h1 : -32768 ≤ v) (h2 : v < 32768) : toSigned 16 (ofSigned 16 v) = v := by
  unfold toSigned ofSigned
  simp only [Nat.reducePow, Nat.reduceSub]
  split <;> omega

theorem ofSigned16_lt (v : Int) : ofSigned 16 v < 65536 := by
  unfold ofSigned
  simp only [Nat.reducePow]
  omega

theorem ofSigned32_lt (v : Int) : ofSigned 32 v < 4294967296 := by
  unfold ofSigned
  simp only [Nat.reducePow]
  omega

/-- the four bytes of a little-endian 32-bit field -/
def b0 (x : Nat) : UInt8 := UInt8.ofNat (x % 256)
def b1 (x : Nat) : UInt8 := UInt8.ofNat (x / 256 % 256)
def b2 (x : Nat) : UInt8 := UInt8.ofNat (x / 256 / 256 % 256)
def b3 (x : Nat) : UInt8 := UInt8.ofNat (x / 256 / 256 / 256 % 256)
theorem le4_split (x : Nat) : le 4 x = le 2 x ++ ([b2 x] ++ [b3 x]) := rfl
theorem le4_split2 (x : Nat) : le 4 x = le 2 x ++ le 2 (x / 256 / 256) := rfl
theorem le4_bytes (x : Nat) : le 4 x = [b0 x] ++ ([b1 x] ++ ([b2 x] ++ [b3 x])) := rfl

/-! ### a run of fixed-width attributes without padding -/

def Aligned : Nat → List Col → List Bytes → Prop
  | _, [], [] => True
  | o, c :: cs, bs :: bss => alignUp o c.align = o ∧ Aligned (o + bs.length) cs bss
  | _, _, _ => False

theorem form_flat : ∀ (o : Nat) (cols : List Col) (bss : List Bytes), Aligned o cols bss →
    form cols (bss.map fun bs => some (Datum.fixed bs)) o = bss.flatten
  | _, [], [], _ => rfl
  | _, [], _ :: _, h => h.elim
  | _, _ :: _, [], h => h.elim
  | o, c :: cs, bs :: bss, h => by
    have hp : pad o c.align = [] := by simp [pad, h.1, zeros]
    simp only [map_cons, form, formDatum, hp, nil_append, flatten_cons]
    rw [form_flat (o + bs.length) cs bss h.2]

/-! ### well-formedness of pg_attribute rows -/

theorem attrVals_OK (l : Layout) (a : AttrRow) (hn : a.name.length ≤ 64) : AllOK (pgAttributeCols l) (attrVals l a) := by
  cases l
  · simp only [AllOK, pgAttributeCols, attrVals, cons_append, nil_append, and_true]
    exact ⟨pairOK_oid _ _, pairOK_name _ _ hn, pairOK_oid _ _, pairOK_i4 _ _, pairOK_i2 _ _, pairOK_i2 _ _,
      pairOK_i4 _ _, pairOK_i4 _ _, pairOK_i4 _ _, pairOK_bool _ _, pairOK_char _ _, pairOK_char _ _,
      pairOK_bool _ _, pairOK_bool _ _, pairOK_bool _ _, pairOK_char _ _, pairOK_char _ _,
      pairOK_bool _ _, pairOK_bool _ _, pairOK_i4 _ _, pairOK_oid _ _,
      pairOK_none _ (by simp [cArr]), pairOK_none _ (by simp [cArr]), pairOK_none _ (by simp [cArr]), pairOK_none _ (by simp [cArr])⟩
  · simp only [AllOK, pgAttributeCols, attrVals, cons_append, nil_append, and_true]
    exact ⟨pairOK_oid _ _, pairOK_name _ _ hn, pairOK_oid _ _, pairOK_i4 _ _, pairOK_i2 _ _, pairOK_i2 _ _,
      pairOK_i4 _ _, pairOK_i4 _ _, pairOK_i4 _ _, pairOK_bool _ _, pairOK_char _ _, pairOK_char _ _,
      pairOK_char _ _, pairOK_bool _ _, pairOK_bool _ _, pairOK_bool _ _, pairOK_char _ _,
      pairOK_char _ _, pairOK_bool _ _, pairOK_bool _ _, pairOK_i4 _ _, pairOK_oid _ _,
      pairOK_none _ (by simp [cArr]), pairOK_none _ (by simp [cArr]), pairOK_none _ (by simp [cArr]), pairOK_none _ (by simp [cArr])⟩
  · simp only [AllOK, pgAttributeCols, attrVals, cons_append, nil_append, and_true]
    exact ⟨pairOK_oid _ _, pairOK_name _ _ hn, pairOK_oid _ _, pairOK_i2 _ _, pairOK_i2 _ _, pairOK_i4 _ _,
      pairOK_i4 _ _, pairOK_i2 _ _, pairOK_bool _ _, pairOK_char _ _, pairOK_char _ _,
      pairOK_char _ _, pairOK_bool _ _, pairOK_bool _ _, pairOK_bool _ _, pairOK_char _ _,
      pairOK_char _ _, pairOK_bool _ _, pairOK_bool _ _, pairOK_i2 _ _, pairOK_i2 _ _,
      pairOK_oid _ _,
      pairOK_none _ (by simp [cArr]), pairOK_none _ (by simp [cArr]), pairOK_none _ (by simp [cArr]), pairOK_none _ (by simp [cArr])⟩

theorem attrCols_length (l : Layout) : 19 ≤ (pgAttributeCols l).length ∧ (pgAttributeCols l).length ≤ 1600 := by
  cases l <;> decide

theorem attr_WF (l : Layout) (a : AttrRow) (im : Nat) (hn : a.name.length ≤ 64) (him : im < 65536) :
    RowV.WF (pgAttributeCols l) ⟨attrVals l a, (pgAttributeCols l).length, im⟩ :=
  catalog_WF _ _ _ (attrVals_OK l a hn) (attrCols_length l).2 him

/-! ### the tool's three schemas as column layouts: prefixes of the real layouts -/

def attrCols16 : List Col := (pgAttributeCols .v16).take 18
def attrCols14 : List Col := (pgAttributeCols .v14).take 19
def attrCols12 : List Col := (pgAttributeCols .v12).take 18

theorem attrCols16_match : ColsMatch 0 catSchemaAttr16 attrCols16 := by
  simp only [ColsMatch, ColMatch, catSchemaAttr16, mkSchema, Generated.Cluster.schemaPGAttrDropped, attrCols16, pgAttributeCols,
    List.map, List.take, cOid, cName, cInt4, cInt2, cBool, cChar, true_and, and_true]
  repeat' apply And.intro
  all_goals decide

theorem attrCols14_match : ColsMatch 0 catSchemaAttr14 attrCols14 := by
  simp only [ColsMatch, ColMatch, catSchemaAttr14, mkSchema, Generated.Cluster.schemaPGAttrDroppedV15, attrCols14, pgAttributeCols,
    List.map, List.take, cOid, cName, cInt4, cInt2, cBool, cChar, true_and, and_true]
  repeat' apply And.intro
  all_goals decide

theorem attrCols12_match : ColsMatch 0 catSchemaAttr12 attrCols12 := by
  simp only [ColsMatch, ColMatch, catSchemaAttr12, mkSchema, Generated.Cluster.schemaPGAttrDroppedV12, attrCols12, pgAttributeCols,
    List.map, List.take, cOid, cName, cInt4, cInt2, cBool, cChar, true_and, and_true]
  repeat' apply And.intro
  all_goals decide

theorem schema16_ne : catSchemaAttr16 ≠ [] := by simp [catSchemaAttr16, mkSchema, Generated.Cluster.schemaPGAttrDropped]
theorem schema14_ne : catSchemaAttr14 ≠ [] := by simp [catSchemaAttr14, mkSchema, Generated.Cluster.schemaPGAttrDroppedV15]
theorem schema12_ne : catSchemaAttr12 ≠ [] := by simp [catSchemaAttr12, mkSchema, Generated.Cluster.schemaPGAttrDroppedV12]

/-- the padded `name` field -/
def nameField (n : Bytes) : Bytes := n ++ zeros (64 - n.length)
theorem nameField_length (n : Bytes) (h : n.length ≤ 64) : (nameField n).length = 64 := by simp [nameField]; omega

def bBool (b : Bool) : Bytes := [if b then 1 else 0]
def bByte (v : Nat) : Bytes := [UInt8.ofNat v]

/-- the first 18 attributes of a 16 row (up to attisdropped), as fixed-width byte strings -/
def realBss16 (a : AttrRow) : List Bytes :=
  [le 4 a.relid, nameField a.name, le 4 a.typid, le 2 (ofSigned 16 a.len), le 2 (ofSigned 16 a.num),
   le 4 (ofSigned 32 (-1)), le 4 (ofSigned 32 a.typmod), le 2 (ofSigned 16 a.ndims), bBool a.byval, bByte (alignCh a.align),
   bByte a.storage, bByte 0, bBool a.notnull, bBool false, bBool false, bByte 0, bByte 0, bBool a.dropped]

/-- the first 19 attributes of a 14–15 row (up to attisdropped) -/
def realBss14 (a : AttrRow) : List Bytes :=
  [le 4 a.relid, nameField a.name, le 4 a.typid, le 4 (ofSigned 32 a.stattarget), le 2 (ofSigned 16 a.len),
   le 2 (ofSigned 16 a.num), le 4 (ofSigned 32 a.ndims), le 4 (ofSigned 32 (-1)), le 4 (ofSigned 32 a.typmod), bBool a.byval,
   bByte (alignCh a.align), bByte a.storage, bByte 0, bBool a.notnull, bBool false, bBool false, bByte 0, bByte 0, bBool a.dropped]

/-- the first 19 attributes of a 12–13 row (up to attislocal; attisdropped is the 18th) -/
def realBss12 (a : AttrRow) : List Bytes :=
  [le 4 a.relid, nameField a.name, le 4 a.typid, le 4 (ofSigned 32 a.stattarget), le 2 (ofSigned 16 a.len),
   le 2 (ofSigned 16 a.num), le 4 (ofSigned 32 a.ndims), le 4 (ofSigned 32 (-1)), le 4 (ofSigned 32 a.typmod), bBool a.byval,
   bByte a.storage, bByte (alignCh a.align), bBool a.notnull, bBool false, bBool false, bByte 0, bByte 0, bBool a.dropped, bBool true]

theorem realVals16 (a : AttrRow) : (attrVals .v16 a).take 18 = (realBss16 a).map fun bs => some (Datum.fixed bs) := rfl
theorem realVals14 (a : AttrRow) : (attrVals .v14 a).take 19 = (realBss14 a).map fun bs => some (Datum.fixed bs) := rfl
theorem realVals12 (a : AttrRow) : (attrVals .v12 a).take 19 = (realBss12 a).map fun bs => some (Datum.fixed bs) := rfl
theorem realVals12_18 (a : AttrRow) : (attrVals .v12 a).take 18 = ((realBss12 a).take 18).map fun bs => some (Datum.fixed bs) := rfl

theorem fixed_16 (a : AttrRow) (hn : a.name.length ≤ 64) : AllFixed attrCols16 (realBss16 a) := by
  have hN := nameField_length a.name hn
  simp only [AllFixed, FixedOK, attrCols16, pgAttributeCols, List.take, realBss16, bBool, bByte, cOid, cName, cInt4, cInt2, cBool, cChar,
    le_length, hN, length_cons, length_nil, and_true]
  repeat' apply And.intro
  all_goals first | decide | (unfold Pow2Align; decide)

theorem fixed_14 (a : AttrRow) (hn : a.name.length ≤ 64) : AllFixed attrCols14 (realBss14 a) := by
  have hN := nameField_length a.name hn
  simp only [AllFixed, FixedOK, attrCols14, pgAttributeCols, List.take, realBss14, bBool, bByte, cOid, cName, cInt4, cInt2, cBool, cChar,
    le_length, hN, length_cons, length_nil, and_true]
  repeat' apply And.intro
  all_goals first | decide | (unfold Pow2Align; decide)

theorem fixed_12 (a : AttrRow) (hn : a.name.length ≤ 64) : AllFixed attrCols12 ((realBss12 a).take 18) := by
  have hN := nameField_length a.name hn
  simp only [AllFixed, FixedOK, attrCols12, pgAttributeCols, List.take, realBss12, bBool, bByte, cOid, cName, cInt4, cInt2, cBool, cChar,
    le_length, hN, length_cons, length_nil, and_true]
  repeat' apply And.intro
  all_goals first | decide | (unfold Pow2Align; decide)

/-- reading E: the 14–15 schema over the first 19 attributes of a 12–13 row (the same widths under other names) -/
theorem fixed_E (a : AttrRow) (hn : a.name.length ≤ 64) : AllFixed attrCols14 (realBss12 a) := by
  have hN := nameField_length a.name hn
  simp only [AllFixed, FixedOK, attrCols14, pgAttributeCols, List.take, realBss12, bBool, bByte, cOid, cName, cInt4, cInt2, cBool, cChar,
    le_length, hN, length_cons, length_nil, and_true]
  repeat' apply And.intro
  all_goals first | decide | (unfold Pow2Align; decide)

theorem aligned_12real (a : AttrRow) (hn : a.name.length ≤ 64) : Aligned 0 ((pgAttributeCols .v12).take 19) (realBss12 a) := by
  have hN := nameField_length a.name hn
  simp only [Aligned, pgAttributeCols, realBss12, bBool, bByte, List.take, cOid, cName, cInt4, cInt2, cBool, cChar, le_length, hN, alignUp,
    length_cons, length_nil, and_true]

theorem aligned_E (a : AttrRow) (hn : a.name.length ≤ 64) : Aligned 0 attrCols14 (realBss12 a) := by
  have hN := nameField_length a.name hn
  simp only [Aligned, attrCols14, pgAttributeCols, realBss12, bBool, bByte, List.take, cOid, cName, cInt4, cInt2, cBool, cChar, le_length, hN,
    alignUp, length_cons, length_nil, and_true]

/-! ### reading D: the 16 schema over a 12–15 row -/

/-- the first 13 attributes (96 bytes) of a 12–13 or 14–15 row -/
def realBssOld (l : Layout) (a : AttrRow) : List Bytes :=
  match l with
  | .v12 => (realBss12 a).take 13
  | _ => (realBss14 a).take 13

/-- what the 16 schema sees in them: `attlen`/`attnum` are the halves of attstattarget, `attcacheoff` is attlen+attnum,
`atttypmod` is attndims, `attndims`/`attbyval`/`attalign` are the bytes of attcacheoff (= −1, so `attalign` = 0xFF),
`attstorage` … `atthasdef` the bytes of atttypmod, the last four the row's four one-byte attributes after atttypmod -/
def attrBssD (l : Layout) (a : AttrRow) : List Bytes :=
  [le 4 a.relid, nameField a.name, le 4 a.typid, le 2 (ofSigned 32 a.stattarget), le 2 (ofSigned 32 a.stattarget / 256 / 256),
   le 2 (ofSigned 16 a.len) ++ le 2 (ofSigned 16 a.num), le 4 (ofSigned 32 a.ndims),
   le 2 (ofSigned 32 (-1)), [b2 (ofSigned 32 (-1))], [b3 (ofSigned 32 (-1))],
   [b0 (ofSigned 32 a.typmod)], [b1 (ofSigned 32 a.typmod)], [b2 (ofSigned 32 a.typmod)], [b3 (ofSigned 32 a.typmod)]] ++
  ((realBssOld l a).drop 9)

theorem realValsOld (l : Layout) (hl : l ≠ .v16) (a : AttrRow) :
    (attrVals l a).take 13 = (realBssOld l a).map fun bs => some (Datum.fixed bs) := by
  cases l
  · rfl
  · rfl
  · exact absurd rfl hl

theorem aligned_realOld (l : Layout) (hl : l ≠ .v16) (a : AttrRow) (hn : a.name.length ≤ 64) :
    Aligned 0 ((pgAttributeCols l).take 13) (realBssOld l a) := by
  have hN := nameField_length a.name hn
  cases l
  · simp only [Aligned, pgAttributeCols, realBssOld, realBss12, bBool, bByte, List.take, cOid, cName, cInt4, cInt2, cBool, cChar, le_length, hN,
      alignUp, length_cons, length_nil, and_true]
  · simp only [Aligned, pgAttributeCols, realBssOld, realBss14, bBool, bByte, List.take, cOid, cName, cInt4, cInt2, cBool, cChar, le_length, hN,
      alignUp, length_cons, length_nil, and_true]
  · exact absurd rfl hl

theorem aligned_D (l : Layout) (hl : l ≠ .v16) (a : AttrRow) (hn : a.name.length ≤ 64) : Aligned 0 attrCols16 (attrBssD l a) := by
  have hN := nameField_length a.name hn
  cases l
  · simp only [Aligned, attrCols16, pgAttributeCols, attrBssD, realBssOld, realBss12, bBool, bByte, List.take, List.drop, cons_append, nil_append,
      cOid, cName, cInt4, cInt2, cBool, cChar, le_length, hN, alignUp, length_cons, length_nil, length_append, and_true]
  · simp only [Aligned, attrCols16, pgAttributeCols, attrBssD, realBssOld, realBss14, bBool, bByte, List.take, List.drop, cons_append, nil_append,
      cOid, cName, cInt4, cInt2, cBool, cChar, le_length, hN, alignUp, length_cons, length_nil, length_append, and_true]
  · exact absurd rfl hl

theorem fixed_D (l : Layout) (hl : l ≠ .v16) (a : AttrRow) (hn : a.name.length ≤ 64) : AllFixed attrCols16 (attrBssD l a) := by
  have hN := nameField_length a.name hn
  cases l
  · simp only [AllFixed, FixedOK, attrCols16, pgAttributeCols, attrBssD, realBssOld, realBss12, bBool, bByte, List.take, List.drop, cons_append,
      nil_append, cOid, cName, cInt4, cInt2, cBool, cChar, le_length, hN, length_cons, length_nil, length_append, and_true]
    repeat' apply And.intro
    all_goals first | decide | (unfold Pow2Align; decide)
  · simp only [AllFixed, FixedOK, attrCols16, pgAttributeCols, attrBssD, realBssOld, realBss14, bBool, bByte, List.take, List.drop, cons_append,
      nil_append, cOid, cName, cInt4, cInt2, cBool, cChar, le_length, hN, length_cons, length_nil, length_append, and_true]
    repeat' apply And.intro
    all_goals first | decide | (unfold Pow2Align; decide)
  · exact absurd rfl hl

theorem flat_D (l : Layout) (hl : l ≠ .v16) (a : AttrRow) : (realBssOld l a).flatten = (attrBssD l a).flatten := by
  cases l
  · simp only [realBssOld, realBss12, attrBssD, List.take, List.drop, cons_append, nil_append, flatten_cons, flatten_nil, append_nil]
    rw [le4_split2 (ofSigned 32 a.stattarget), le4_split (ofSigned 32 (-1)), le4_bytes (ofSigned 32 a.typmod)]
    simp only [append_assoc, cons_append, nil_append]
  · simp only [realBssOld, realBss14, attrBssD, List.take, List.drop, cons_append, nil_append, flatten_cons, flatten_nil, append_nil]
    rw [le4_split2 (ofSigned 32 a.stattarget), le4_split (ofSigned 32 (-1)), le4_bytes (ofSigned 32 a.typmod)]
    simp only [append_assoc, cons_append, nil_append]
  · exact absurd rfl hl

/-! ### the data area of a row starts with what each reading sees -/

theorem data_16 (a : AttrRow) :
    ∃ rest, form (pgAttributeCols .v16) (attrVals .v16 a) 0 = form attrCols16 ((realBss16 a).map fun bs => some (Datum.fixed bs)) 0 ++ rest := by
  have h := form_split 18 (pgAttributeCols .v16) (attrVals .v16 a) 0
  rw [realVals16 a] at h
  exact ⟨_, h⟩

theorem data_14 (a : AttrRow) :
    ∃ rest, form (pgAttributeCols .v14) (attrVals .v14 a) 0 = form attrCols14 ((realBss14 a).map fun bs => some (Datum.fixed bs)) 0 ++ rest := by
  have h := form_split 19 (pgAttributeCols .v14) (attrVals .v14 a) 0
  rw [realVals14 a] at h
  exact ⟨_, h⟩

theorem data_12 (a : AttrRow) :
    ∃ rest, form (pgAttributeCols .v12) (attrVals .v12 a) 0 =
      form attrCols12 (((realBss12 a).take 18).map fun bs => some (Datum.fixed bs)) 0 ++ rest := by
  have h := form_split 18 (pgAttributeCols .v12) (attrVals .v12 a) 0
  rw [realVals12_18 a] at h
  exact ⟨_, h⟩

theorem data_E (a : AttrRow) (hn : a.name.length ≤ 64) :
    ∃ rest, form (pgAttributeCols .v12) (attrVals .v12 a) 0 = form attrCols14 ((realBss12 a).map fun bs => some (Datum.fixed bs)) 0 ++ rest := by
  have h := form_split 19 (pgAttributeCols .v12) (attrVals .v12 a) 0
  rw [realVals12 a, form_flat _ _ _ (aligned_12real a hn), ← form_flat _ _ _ (aligned_E a hn)] at h
  exact ⟨_, h⟩

theorem data_D (l : Layout) (hl : l ≠ .v16) (a : AttrRow) (hn : a.name.length ≤ 64) :
    ∃ rest, form (pgAttributeCols l) (attrVals l a) 0 = form attrCols16 ((attrBssD l a).map fun bs => some (Datum.fixed bs)) 0 ++ rest := by
  have h := form_split 13 (pgAttributeCols l) (attrVals l a) 0
  rw [realValsOld l hl a, form_flat _ _ _ (aligned_realOld l hl a hn), flat_D l hl, ← form_flat _ _ _ (aligned_D l hl a hn)] at h
  exact ⟨_, h⟩

/-! ### the readings of a pg_attribute row -/

theorem attrVals_some (l : Layout) (a : AttrRow) : ((attrVals l a).take 19).all Option.isSome = true := by
  cases l <;> rfl

theorem isSome_of_all (vals : List (Option Datum)) (m : Nat) (h : (vals.take m).all Option.isSome = true) (hm : m ≤ vals.length) :
    ∀ j, j < m → (vals.getD j none).isSome = true := by
  intro j hj
  have h1 : (vals.take m)[j]? = vals[j]? := getElem?_take_of_lt hj
  have hj' : j < vals.length := by omega
  rw [getElem?_eq_getElem hj'] at h1
  have hmem : vals[j] ∈ vals.take m := mem_of_getElem? h1
  have := all_eq_true.mp h _ hmem
  simp [List.getD, getElem?_eq_getElem hj', this]

theorem attrVals_length (l : Layout) (a : AttrRow) : 19 ≤ (attrVals l a).length := by
  cases l <;> simp [attrVals]

theorem attrVals_isSome (l : Layout) (a : AttrRow) (j : Nat) (hj : j < 19) : ((attrVals l a).getD j none).isSome = true :=
  isSome_of_all _ 19 (attrVals_some l a) (attrVals_length l a) j hj

def attrRow16 (dec : Dec) (a : AttrRow) : Row := catalogRow dec attrCols16 (realBss16 a)
def attrRow14 (dec : Dec) (a : AttrRow) : Row := catalogRow dec attrCols14 (realBss14 a)
def attrRow12 (dec : Dec) (a : AttrRow) : Row := catalogRow dec attrCols12 ((realBss12 a).take 18)
def attrRowD (dec : Dec) (l : Layout) (a : AttrRow) : Row := catalogRow dec attrCols16 (attrBssD l a)
def attrRowE (dec : Dec) (a : AttrRow) : Row := catalogRow dec attrCols14 (realBss12 a)

theorem attr_decode_16 (dec : Dec) (hd : CatDec dec) (a : AttrRow) (im : Nat) (hn : a.name.length ≤ 64) (him : im < 65536) :
    decodeTuple dec (mtuple (formRow (pgAttributeCols .v16) (attrVals .v16 a) im)) catSchemaAttr16 = .ok (some (toRow (attrRow16 dec a))) := by
  obtain ⟨rest, hdata⟩ := data_16 a
  exact decodeTuple_catalog dec hd _ _ im catSchemaAttr16 attrCols16 (realBss16 a) rest (attr_WF .v16 a im hn him)
    attrCols16_match (fixed_16 a hn) schema16_ne
    (fun j hj => attrVals_isSome .v16 a j (by simp [attrCols16, pgAttributeCols] at hj; omega)) (by decide) hdata

theorem attr_decode_14 (dec : Dec) (hd : CatDec dec) (a : AttrRow) (im : Nat) (hn : a.name.length ≤ 64) (him : im < 65536) :
    decodeTuple dec (mtuple (formRow (pgAttributeCols .v14) (attrVals .v14 a) im)) catSchemaAttr14 = .ok (some (toRow (attrRow14 dec a))) := by
  obtain ⟨rest, hdata⟩ := data_14 a
  exact decodeTuple_catalog dec hd _ _ im catSchemaAttr14 attrCols14 (realBss14 a) rest (attr_WF .v14 a im hn him)
    attrCols14_match (fixed_14 a hn) schema14_ne
    (fun j hj => attrVals_isSome .v14 a j (by simp [attrCols14, pgAttributeCols] at hj; omega)) (by decide) hdata

theorem attr_decode_12 (dec : Dec) (hd : CatDec dec) (a : AttrRow) (im : Nat) (hn : a.name.length ≤ 64) (him : im < 65536) :
    decodeTuple dec (mtuple (formRow (pgAttributeCols .v12) (attrVals .v12 a) im)) catSchemaAttr12 = .ok (some (toRow (attrRow12 dec a))) := by
  obtain ⟨rest, hdata⟩ := data_12 a
  exact decodeTuple_catalog dec hd _ _ im catSchemaAttr12 attrCols12 ((realBss12 a).take 18) rest (attr_WF .v12 a im hn him)
    attrCols12_match (fixed_12 a hn) schema12_ne
    (fun j hj => attrVals_isSome .v12 a j (by simp [attrCols12, pgAttributeCols] at hj; omega)) (by decide) hdata

theorem attr_decode_E (dec : Dec) (hd : CatDec dec) (a : AttrRow) (im : Nat) (hn : a.name.length ≤ 64) (him : im < 65536) :
    decodeTuple dec (mtuple (formRow (pgAttributeCols .v12) (attrVals .v12 a) im)) catSchemaAttr14 = .ok (some (toRow (attrRowE dec a))) := by
  obtain ⟨rest, hdata⟩ := data_E a hn
  exact decodeTuple_catalog dec hd _ _ im catSchemaAttr14 attrCols14 (realBss12 a) rest (attr_WF .v12 a im hn him)
    attrCols14_match (fixed_E a hn) schema14_ne
    (fun j hj => attrVals_isSome .v12 a j (by simp [attrCols14, pgAttributeCols] at hj; omega)) (by decide) hdata

theorem attr_decode_D (dec : Dec) (hd : CatDec dec) (l : Layout) (hl : l ≠ .v16) (a : AttrRow) (im : Nat) (hn : a.name.length ≤ 64)
    (him : im < 65536) :
    decodeTuple dec (mtuple (formRow (pgAttributeCols l) (attrVals l a) im)) catSchemaAttr16 = .ok (some (toRow (attrRowD dec l a))) := by
  obtain ⟨rest, hdata⟩ := data_D l hl a hn
  exact decodeTuple_catalog dec hd _ _ im catSchemaAttr16 attrCols16 (attrBssD l a) rest (attr_WF l a im hn him)
    attrCols16_match (fixed_D l hl a hn) schema16_ne
    (fun j hj => attrVals_isSome l a j (by simp [attrCols16, pgAttributeCols] at hj; omega))
    (by have := (attrCols_length l).1; have h18 : attrCols16.length = 18 := rfl; omega) hdata

/-! ### every schema decodes every tuple (what the automatic choice needs of the layouts it does not pick) -/

/-- a column of a catalog schema: one of the seven fixed-width catalog column types -/
def catKindM (c : Column) : Prop := (c.typid, c.len) ∈ catKinds
instance (c : Column) : Decidable (catKindM c) := by unfold catKindM; infer_instance

theorem catKindM_pos (c : Column) (h : catKindM c) : 0 < c.len ∧ c.len ≠ -1 := by
  unfold catKindM catKinds at h
  simp only [mem_cons, Prod.mk.injEq, not_mem_nil, or_false] at h
  rcases h with ⟨_, h⟩ | ⟨_, h⟩ | ⟨_, h⟩ | ⟨_, h⟩ | ⟨_, h⟩ | ⟨_, h⟩ | ⟨_, h⟩ <;> rw [h] <;> decide

theorem readValue_cat (dec : Dec) (hd : CatDec dec) (data : Bytes) (off : Nat) (c : Column) (hk : catKindM c) :
    ∃ r, readValue dec data off c.typid c.len = .ok r := by
  obtain ⟨hpos, _⟩ := catKindM_pos c hk
  unfold readValue
  by_cases hoff : off ≥ data.length
  · rw [if_pos hoff]; exact ⟨_, rfl⟩
  · rw [if_neg hoff, sliceFrom_ok data off (by omega)]
    simp only [ok_bind]
    rw [if_pos hpos]
    by_cases hshort : ((data.drop off).length : Int) < c.len
    · rw [if_pos hshort]; exact ⟨_, rfl⟩
    · rw [if_neg hshort, sliceTo_ok (data.drop off) c.len.toNat (by omega)]
      simp only [ok_bind]
      have hlen : (((data.drop off).take c.len.toNat).length : Int) = c.len := by
        rw [length_take]; omega
      obtain ⟨v, hv⟩ := catDec_total dec hd ⟨c.name, c.typid, c.len, 1⟩ hk _ hlen
      simp only at hv
      rw [hv]
      exact ⟨_, rfl⟩

theorem decodeCols_cat (dec : Dec) (hd : CatDec dec) (t : HeapTuple) : ∀ (S : List Column) (i off : Nat), (∀ c ∈ S, catKindM c) →
    ∃ ps, decodeCols dec t S i off = .ok ps
  | [], _, _, _ => ⟨_, rfl⟩
  | c :: cs, i, off, h => by
    have hk := h c (by simp)
    obtain ⟨_, hne⟩ := catKindM_pos c hk
    simp only [decodeCols]
    by_cases hn : t.isNull (if c.num = 0 then (i : Int) + 1 else c.num) = true
    · rw [if_pos hn]
      obtain ⟨ps, hps⟩ := decodeCols_cat dec hd t cs (i + 1) off (fun x hx => h x (by simp [hx]))
      rw [hps]; exact ⟨_, rfl⟩
    · rw [if_neg hn]
      have hca : chooseAlign c t.data off = .ok (colAlign c) := by
        unfold chooseAlign
        rw [if_neg (by intro hh; exact hne hh.1)]
        rfl
      rw [hca]
      simp only [ok_bind]
      obtain ⟨r, hr⟩ := readValue_cat dec hd t.data (align off (colAlign c)) c hk
      rw [hr]
      simp only [ok_bind]
      obtain ⟨ps, hps⟩ := decodeCols_cat dec hd t cs (i + 1) (align off (colAlign c) + r.2) (fun x hx => h x (by simp [hx]))
      rw [hps]; exact ⟨_, rfl⟩

/-- DecodeTuple with a non-empty schema of catalog columns returns a row for every tuple whatsoever -/
theorem decodeTuple_catSchema (dec : Dec) (hd : CatDec dec) (t : HeapTuple) (S : List Column) (hne : S ≠ [])
    (hS : ∀ c ∈ S, catKindM c) : ∃ row, decodeTuple dec t S = .ok (some row) := by
  unfold decodeTuple
  have : ¬ (t.data.length = 0 ∧ S.length = 0) := by
    intro ⟨_, h⟩; exact hne (length_eq_zero_iff.mp h)
  rw [if_neg this]
  obtain ⟨ps, hps⟩ := decodeCols_cat dec hd t S 0 0 hS
  rw [hps]
  exact ⟨_, rfl⟩

theorem schema16_cat : ∀ c ∈ catSchemaAttr16, catKindM c := by
  simp only [catSchemaAttr16, mkSchema, Generated.Cluster.schemaPGAttrDropped, List.map]
  decide
theorem schema14_cat : ∀ c ∈ catSchemaAttr14, catKindM c := by
  simp only [catSchemaAttr14, mkSchema, Generated.Cluster.schemaPGAttrDroppedV15, List.map]
  decide
theorem schema12_cat : ∀ c ∈ catSchemaAttr12, catKindM c := by
  simp only [catSchemaAttr12, mkSchema, Generated.Cluster.schemaPGAttrDroppedV12, List.map]
  decide

/-! ### the fields ParsePGAttribute and the layout choice take from a decoded row -/

/-- the attalign character of an attribute as a byte -/
def alignByte (a : AttrRow) : UInt8 := UInt8.ofNat (alignCh a.align)

structure AttrFields (row : Row) (a : AttrRow) : Prop where
  relid : getOID row "attrelid" = a.relid
  name : getString row "attname" = a.name
  typid : getOID row "atttypid" = a.typid
  len : getInt row "attlen" = a.len
  num : getInt row "attnum" = a.num
  align : getString row "attalign" = [alignByte a]
  storage : getString row "attstorage" = [UInt8.ofNat a.storage]

structure AttrWF (a : AttrRow) : Prop where
  name : nameOK a.name
  relid : a.relid < 2 ^ 32
  typid : a.typid < 2 ^ 32
  num : -32768 ≤ a.num ∧ a.num < 32768
  len : -32768 ≤ a.len ∧ a.len < 32768
  align : a.align = 1 ∨ a.align = 2 ∨ a.align = 4 ∨ a.align = 8

theorem idx16 : (attrCols16.map (·.name)).Nodup ∧ (attrCols16.map (·.name)).idxOf (strBytes "attrelid") = 0 ∧
    (attrCols16.map (·.name)).idxOf (strBytes "attname") = 1 ∧ (attrCols16.map (·.name)).idxOf (strBytes "atttypid") = 2 ∧
    (attrCols16.map (·.name)).idxOf (strBytes "attlen") = 3 ∧ (attrCols16.map (·.name)).idxOf (strBytes "attnum") = 4 ∧
    (attrCols16.map (·.name)).idxOf (strBytes "attalign") = 9 ∧ (attrCols16.map (·.name)).idxOf (strBytes "attstorage") = 10 := by
  simp only [attrCols16, pgAttributeCols, List.take, List.map, cOid, cName, cInt4, cInt2, cBool, cChar, strBytes_eq]
  decide

theorem idx14 : (attrCols14.map (·.name)).Nodup ∧ (attrCols14.map (·.name)).idxOf (strBytes "attrelid") = 0 ∧
    (attrCols14.map (·.name)).idxOf (strBytes "attname") = 1 ∧ (attrCols14.map (·.name)).idxOf (strBytes "atttypid") = 2 ∧
    (attrCols14.map (·.name)).idxOf (strBytes "attlen") = 4 ∧ (attrCols14.map (·.name)).idxOf (strBytes "attnum") = 5 ∧
    (attrCols14.map (·.name)).idxOf (strBytes "attalign") = 10 ∧ (attrCols14.map (·.name)).idxOf (strBytes "attstorage") = 11 := by
  simp only [attrCols14, pgAttributeCols, List.take, List.map, cOid, cName, cInt4, cInt2, cBool, cChar, strBytes_eq]
  decide

theorem idx12 : (attrCols12.map (·.name)).Nodup ∧ (attrCols12.map (·.name)).idxOf (strBytes "attrelid") = 0 ∧
    (attrCols12.map (·.name)).idxOf (strBytes "attname") = 1 ∧ (attrCols12.map (·.name)).idxOf (strBytes "atttypid") = 2 ∧
    (attrCols12.map (·.name)).idxOf (strBytes "attlen") = 4 ∧ (attrCols12.map (·.name)).idxOf (strBytes "attnum") = 5 ∧
    (attrCols12.map (·.name)).idxOf (strBytes "attalign") = 11 ∧ (attrCols12.map (·.name)).idxOf (strBytes "attstorage") = 10 := by
  simp only [attrCols12, pgAttributeCols, List.take, List.map, cOid, cName, cInt4, cInt2, cBool, cChar, strBytes_eq]
  decide

theorem dec_oid (dec : Dec) (hd : CatDec dec) (v : Nat) (hv : v < 2 ^ 32) : okVal (dec (le 4 v) 26) = .int v := by
  rw [hd.oid _ (by simp), okVal_ok]
  have := rd_le 4 v [] (by omega)
  simp only [append_nil] at this
  rw [this]

theorem dec_name (dec : Dec) (hd : CatDec dec) (n : Bytes) (hn : nameOK n) : okVal (dec (nameField n) 19) = .str n := by
  rw [hd.name _ (nameField_length n (by have := hn.2.1; omega)), okVal_ok]
  unfold nameField
  rw [cstring_name' n hn.2.2 hn.2.1]

theorem dec_int2 (dec : Dec) (hd : CatDec dec) (v : Int) (h1 : -32768 ≤ v) (h2 : v < 32768) :
    okVal (dec (le 2 (ofSigned 16 v)) 21) = .int v := by
  rw [hd.int2 _ (by simp), okVal_ok]
  have := rd_le 2 (ofSigned 16 v) [] (by have := ofSigned16_lt v; omega)
  simp only [append_nil] at this
  rw [this, toSigned_ofSigned16 v h1 h2]

theorem dec_char (dec : Dec) (hd : CatDec dec) (b : UInt8) : okVal (dec [b] 18) = .str [b] := by
  rw [hd.char _ rfl, okVal_ok]

theorem attrRow16_toRow (dec : Dec) (a : AttrRow) : toRow (attrRow16 dec a) = attrRow16 dec a := by
  apply PgVerif.Props.C03.C03_entries
  unfold attrRow16
  rw [catalogRow_names dec _ _ rfl]
  exact idx16.1

theorem attrRow14_toRow (dec : Dec) (a : AttrRow) : toRow (attrRow14 dec a) = attrRow14 dec a := by
  apply PgVerif.Props.C03.C03_entries
  unfold attrRow14
  rw [catalogRow_names dec _ _ rfl]
  exact idx14.1

theorem attrRow12_toRow (dec : Dec) (a : AttrRow) : toRow (attrRow12 dec a) = attrRow12 dec a := by
  apply PgVerif.Props.C03.C03_entries
  unfold attrRow12
  rw [catalogRow_names dec _ _ rfl]
  exact idx12.1

theorem attrRowE_toRow (dec : Dec) (a : AttrRow) : toRow (attrRowE dec a) = attrRowE dec a := by
  apply PgVerif.Props.C03.C03_entries
  unfold attrRowE
  rw [catalogRow_names dec _ _ rfl]
  exact idx14.1

theorem attrBssD_length (l : Layout) (hl : l ≠ .v16) (a : AttrRow) : (attrBssD l a).length = attrCols16.length := by
  cases l
  · rfl
  · rfl
  · exact absurd rfl hl

theorem attrRowD_toRow (dec : Dec) (l : Layout) (hl : l ≠ .v16) (a : AttrRow) : toRow (attrRowD dec l a) = attrRowD dec l a := by
  apply PgVerif.Props.C03.C03_entries
  unfold attrRowD
  rw [catalogRow_names dec _ _ (attrBssD_length l hl a)]
  exact idx16.1

/-- **a 16 row under the 16 schema**: every field ParsePGAttribute takes comes from its own bytes -/
theorem fields_16 (dec : Dec) (hd : CatDec dec) (a : AttrRow) (hw : AttrWF a) : AttrFields (toRow (attrRow16 dec a)) a := by
  rw [attrRow16_toRow]
  obtain ⟨_, i0, i1, i2, i3, i4, i9, i10⟩ := idx16
  have l0 := catalogRow_lookup dec attrCols16 (realBss16 a) _ 0 i0 (by decide) rfl
  have l1 := catalogRow_lookup dec attrCols16 (realBss16 a) _ 1 i1 (by decide) rfl
  have l2 := catalogRow_lookup dec attrCols16 (realBss16 a) _ 2 i2 (by decide) rfl
  have l3 := catalogRow_lookup dec attrCols16 (realBss16 a) _ 3 i3 (by decide) rfl
  have l4 := catalogRow_lookup dec attrCols16 (realBss16 a) _ 4 i4 (by decide) rfl
  have l9 := catalogRow_lookup dec attrCols16 (realBss16 a) _ 9 i9 (by decide) rfl
  have l10 := catalogRow_lookup dec attrCols16 (realBss16 a) _ 10 i10 (by decide) rfl
  have e0 : okVal (dec ((realBss16 a).getD 0 []) (attrCols16.getD 0 default).typid) = .int a.relid := dec_oid dec hd _ hw.relid
  have e1 : okVal (dec ((realBss16 a).getD 1 []) (attrCols16.getD 1 default).typid) = .str a.name := dec_name dec hd _ hw.name
  have e2 : okVal (dec ((realBss16 a).getD 2 []) (attrCols16.getD 2 default).typid) = .int a.typid := dec_oid dec hd _ hw.typid
  have e3 : okVal (dec ((realBss16 a).getD 3 []) (attrCols16.getD 3 default).typid) = .int a.len := dec_int2 dec hd _ hw.len.1 hw.len.2
  have e4 : okVal (dec ((realBss16 a).getD 4 []) (attrCols16.getD 4 default).typid) = .int a.num := dec_int2 dec hd _ hw.num.1 hw.num.2
  have e9 : okVal (dec ((realBss16 a).getD 9 []) (attrCols16.getD 9 default).typid) = .str [alignByte a] := dec_char dec hd _
  have e10 : okVal (dec ((realBss16 a).getD 10 []) (attrCols16.getD 10 default).typid) = .str [UInt8.ofNat a.storage] := dec_char dec hd _
  rw [e0] at l0; rw [e1] at l1; rw [e2] at l2; rw [e3] at l3; rw [e4] at l4; rw [e9] at l9; rw [e10] at l10
  unfold attrRow16
  exact ⟨getOID_int _ _ _ hw.relid l0, getString_str _ _ _ l1, getOID_int _ _ _ hw.typid l2, getInt_int _ _ _ l3,
    getInt_int _ _ _ l4, getString_str _ _ _ l9, getString_str _ _ _ l10⟩

/-- **a 14–15 row under the 14–15 schema** -/
theorem fields_14 (dec : Dec) (hd : CatDec dec) (a : AttrRow) (hw : AttrWF a) : AttrFields (toRow (attrRow14 dec a)) a := by
  rw [attrRow14_toRow]
  obtain ⟨_, i0, i1, i2, i4, i5, i10, i11⟩ := idx14
  have l0 := catalogRow_lookup dec attrCols14 (realBss14 a) _ 0 i0 (by decide) rfl
  have l1 := catalogRow_lookup dec attrCols14 (realBss14 a) _ 1 i1 (by decide) rfl
  have l2 := catalogRow_lookup dec attrCols14 (realBss14 a) _ 2 i2 (by decide) rfl
  have l4 := catalogRow_lookup dec attrCols14 (realBss14 a) _ 4 i4 (by decide) rfl
  have l5 := catalogRow_lookup dec attrCols14 (realBss14 a) _ 5 i5 (by decide) rfl
  have l10 := catalogRow_lookup dec attrCols14 (realBss14 a) _ 10 i10 (by decide) rfl
  have l11 := catalogRow_lookup dec attrCols14 (realBss14 a) _ 11 i11 (by decide) rfl
  have e0 : okVal (dec ((realBss14 a).getD 0 []) (attrCols14.getD 0 default).typid) = .int a.relid := dec_oid dec hd _ hw.relid
  have e1 : okVal (dec ((realBss14 a).getD 1 []) (attrCols14.getD 1 default).typid) = .str a.name := dec_name dec hd _ hw.name
  have e2 : okVal (dec ((realBss14 a).getD 2 []) (attrCols14.getD 2 default).typid) = .int a.typid := dec_oid dec hd _ hw.typid
  have e4 : okVal (dec ((realBss14 a).getD 4 []) (attrCols14.getD 4 default).typid) = .int a.len := dec_int2 dec hd _ hw.len.1 hw.len.2
  have e5 : okVal (dec ((realBss14 a).getD 5 []) (attrCols14.getD 5 default).typid) = .int a.num := dec_int2 dec hd _ hw.num.1 hw.num.2
  have e10 : okVal (dec ((realBss14 a).getD 10 []) (attrCols14.getD 10 default).typid) = .str [alignByte a] := dec_char dec hd _
  have e11 : okVal (dec ((realBss14 a).getD 11 []) (attrCols14.getD 11 default).typid) = .str [UInt8.ofNat a.storage] := dec_char dec hd _
  rw [e0] at l0; rw [e1] at l1; rw [e2] at l2; rw [e4] at l4; rw [e5] at l5; rw [e10] at l10; rw [e11] at l11
  unfold attrRow14
  exact ⟨getOID_int _ _ _ hw.relid l0, getString_str _ _ _ l1, getOID_int _ _ _ hw.typid l2, getInt_int _ _ _ l4,
    getInt_int _ _ _ l5, getString_str _ _ _ l10, getString_str _ _ _ l11⟩

/-- **a 12–13 row under the 12–13 schema** -/
theorem fields_12 (dec : Dec) (hd : CatDec dec) (a : AttrRow) (hw : AttrWF a) : AttrFields (toRow (attrRow12 dec a)) a := by
  rw [attrRow12_toRow]
  obtain ⟨_, i0, i1, i2, i4, i5, i11, i10⟩ := idx12
  have l0 := catalogRow_lookup dec attrCols12 ((realBss12 a).take 18) _ 0 i0 (by decide) rfl
  have l1 := catalogRow_lookup dec attrCols12 ((realBss12 a).take 18) _ 1 i1 (by decide) rfl
  have l2 := catalogRow_lookup dec attrCols12 ((realBss12 a).take 18) _ 2 i2 (by decide) rfl
  have l4 := catalogRow_lookup dec attrCols12 ((realBss12 a).take 18) _ 4 i4 (by decide) rfl
  have l5 := catalogRow_lookup dec attrCols12 ((realBss12 a).take 18) _ 5 i5 (by decide) rfl
  have l11 := catalogRow_lookup dec attrCols12 ((realBss12 a).take 18) _ 11 i11 (by decide) rfl
  have l10 := catalogRow_lookup dec attrCols12 ((realBss12 a).take 18) _ 10 i10 (by decide) rfl
  have e0 : okVal (dec (((realBss12 a).take 18).getD 0 []) (attrCols12.getD 0 default).typid) = .int a.relid := dec_oid dec hd _ hw.relid
  have e1 : okVal (dec (((realBss12 a).take 18).getD 1 []) (attrCols12.getD 1 default).typid) = .str a.name := dec_name dec hd _ hw.name
  have e2 : okVal (dec (((realBss12 a).take 18).getD 2 []) (attrCols12.getD 2 default).typid) = .int a.typid := dec_oid dec hd _ hw.typid
  have e4 : okVal (dec (((realBss12 a).take 18).getD 4 []) (attrCols12.getD 4 default).typid) = .int a.len := dec_int2 dec hd _ hw.len.1 hw.len.2
  have e5 : okVal (dec (((realBss12 a).take 18).getD 5 []) (attrCols12.getD 5 default).typid) = .int a.num := dec_int2 dec hd _ hw.num.1 hw.num.2
  have e11 : okVal (dec (((realBss12 a).take 18).getD 11 []) (attrCols12.getD 11 default).typid) = .str [alignByte a] := dec_char dec hd _
  have e10 : okVal (dec (((realBss12 a).take 18).getD 10 []) (attrCols12.getD 10 default).typid) = .str [UInt8.ofNat a.storage] := dec_char dec hd _
  rw [e0] at l0; rw [e1] at l1; rw [e2] at l2; rw [e4] at l4; rw [e5] at l5; rw [e11] at l11; rw [e10] at l10
  unfold attrRow12
  exact ⟨getOID_int _ _ _ hw.relid l0, getString_str _ _ _ l1, getOID_int _ _ _ hw.typid l2, getInt_int _ _ _ l4,
    getInt_int _ _ _ l5, getString_str _ _ _ l11, getString_str _ _ _ l10⟩

/-- a 12–15 row under the 16 schema: `attalign` is the high byte of attcacheoff (−1), 0xFF -/
theorem align_D (dec : Dec) (hd : CatDec dec) (l : Layout) (hl : l ≠ .v16) (a : AttrRow) :
    getString (toRow (attrRowD dec l a)) "attalign" = [255] := by
  rw [attrRowD_toRow dec l hl]
  obtain ⟨_, _, _, _, _, _, i9, _⟩ := idx16
  have l9 := catalogRow_lookup dec attrCols16 (attrBssD l a) _ 9 i9 (by decide) (attrBssD_length l hl a)
  have e9 : okVal (dec ((attrBssD l a).getD 9 []) (attrCols16.getD 9 default).typid) = .str [255] := by
    have hb : (attrBssD l a).getD 9 [] = [b3 (ofSigned 32 (-1))] := rfl
    rw [hb, ofSigned32_neg1]
    exact dec_char dec hd _
  rw [e9] at l9
  unfold attrRowD
  exact getString_str _ _ _ l9

/-- a 12–13 row under the 14–15 schema: `attstorage` is the row's attalign (and `attalign` its attstorage) -/
theorem storage_E (dec : Dec) (hd : CatDec dec) (a : AttrRow) :
    getString (toRow (attrRowE dec a)) "attstorage" = [alignByte a] := by
  rw [attrRowE_toRow]
  obtain ⟨_, _, _, _, _, _, _, i11⟩ := idx14
  have l11 := catalogRow_lookup dec attrCols14 (realBss12 a) _ 11 i11 (by decide) rfl
  have e11 : okVal (dec ((realBss12 a).getD 11 []) (attrCols14.getD 11 default).typid) = .str [alignByte a] := dec_char dec hd _
  rw [e11] at l11
  unfold attrRowE
  exact getString_str _ _ _ l11

end PgVerif.Proofs.Cluster
