/-
  Helper lemmas for C01: pg_attribute in PostgreSQL's three real layouts (12–13, 14–15, 16) read with the tool's two
  schemas (catalog.go: schemaPGAttrV15, schemaPGAttrV16).  The schemas agree with the real layouts up to `attnum`;
  after that the tool's columns fall on other attributes' bytes (finding A03: its `attalign` is the high byte of
  `attcacheoff` / `atttypmod`), which is modelled here byte for byte.
-/
import PgVerif.Proofs.ClusterAttrs
namespace PgVerif.Proofs.Cluster
open PgVerif PgVerif.Model PgVerif.Spec PgVerif.Proofs PgVerif.Proofs.Rows List

/-! ### arithmetic -/

theorem ofSigned32_neg1 : ofSigned 32 (-1) = 4294967295 := by decide

theorem toSigned_ofSigned16 (v : Int) (h1 : -32768 ≤ v) (h2 : v < 32768) : toSigned 16 (ofSigned 16 v) = v := by
  unfold toSigned ofSigned
  simp only [Nat.reducePow, Nat.reduceSub]
  split <;> omega

theorem ofSigned16_lt (v : Int) : ofSigned 16 v < 65536 := by
  unfold ofSigned
  simp only [Nat.reducePow]
  omega

theorem ofSigned32_lt (v : Int) : ofSigned 32 v < 4294967296 := by
  unfold ofSigned
  simp only [Nat.reducePow]
  omega

/-- third and fourth byte of a little-endian 32-bit field -/
def b2 (x : Nat) : UInt8 := UInt8.ofNat (x / 256 / 256 % 256)
def b3 (x : Nat) : UInt8 := UInt8.ofNat (x / 256 / 256 / 256 % 256)
theorem le4_split (x : Nat) : le 4 x = le 2 x ++ ([b2 x] ++ [b3 x]) := rfl
theorem le4_split2 (x : Nat) : le 4 x = le 2 x ++ le 2 (x / 256 / 256) := rfl

/-! ### a run of fixed-width attributes without padding -/

def Aligned : Nat → List Col → List Bytes → Prop
  | _, [], [] => True
  | o, c :: cs, bs :: bss => alignUp o c.align = o ∧ Aligned (o + bs.length) cs bss
  | _, _, _ => False

theorem form_flat : ∀ (o : Nat) (cols : List Col) (bss : List Bytes), Aligned o cols bss →
    form cols (bss.map fun bs => some (Datum.fixed bs)) o = bss.flatten
  | _, [], [], _ => rfl
  | _, [], _ :: _, h => h.elim
  | _, _ :: _, [], h => h.elim
  | o, c :: cs, bs :: bss, h => by
    have hp : pad o c.align = [] := by simp [pad, h.1, zeros]
    simp only [map_cons, form, formDatum, hp, nil_append, flatten_cons]
    rw [form_flat (o + bs.length) cs bss h.2]

/-! ### well-formedness of pg_attribute rows -/

theorem attrVals_OK (l : Layout) (a : AttrRow) (hn : a.name.length ≤ 64) : AllOK (pgAttributeCols l) (attrVals l a) := by
  cases l
  · simp only [AllOK, pgAttributeCols, attrVals, cons_append, nil_append, and_true]
    exact ⟨pairOK_oid _ _, pairOK_name _ _ hn, pairOK_oid _ _, pairOK_i4 _ _, pairOK_i2 _ _, pairOK_i2 _ _,
      pairOK_i4 _ _, pairOK_i4 _ _, pairOK_i4 _ _, pairOK_bool _ _, pairOK_char _ _, pairOK_char _ _,
      pairOK_bool _ _, pairOK_bool _ _, pairOK_bool _ _, pairOK_char _ _, pairOK_char _ _,
      pairOK_bool _ _, pairOK_bool _ _, pairOK_i4 _ _, pairOK_oid _ _,
      pairOK_none _ (by simp [cArr]), pairOK_none _ (by simp [cArr]), pairOK_none _ (by simp [cArr]), pairOK_none _ (by simp [cArr])⟩
  · simp only [AllOK, pgAttributeCols, attrVals, cons_append, nil_append, and_true]
    exact ⟨pairOK_oid _ _, pairOK_name _ _ hn, pairOK_oid _ _, pairOK_i4 _ _, pairOK_i2 _ _, pairOK_i2 _ _,
      pairOK_i4 _ _, pairOK_i4 _ _, pairOK_i4 _ _, pairOK_bool _ _, pairOK_char _ _, pairOK_char _ _,
      pairOK_char _ _, pairOK_bool _ _, pairOK_bool _ _, pairOK_bool _ _, pairOK_char _ _,
      pairOK_char _ _, pairOK_bool _ _, pairOK_bool _ _, pairOK_i4 _ _, pairOK_oid _ _,
      pairOK_none _ (by simp [cArr]), pairOK_none _ (by simp [cArr]), pairOK_none _ (by simp [cArr]), pairOK_none _ (by simp [cArr])⟩
  · simp only [AllOK, pgAttributeCols, attrVals, cons_append, nil_append, and_true]
    exact ⟨pairOK_oid _ _, pairOK_name _ _ hn, pairOK_oid _ _, pairOK_i2 _ _, pairOK_i2 _ _, pairOK_i4 _ _,
      pairOK_i4 _ _, pairOK_i2 _ _, pairOK_bool _ _, pairOK_char _ _, pairOK_char _ _,
      pairOK_char _ _, pairOK_bool _ _, pairOK_bool _ _, pairOK_bool _ _, pairOK_char _ _,
      pairOK_char _ _, pairOK_bool _ _, pairOK_bool _ _, pairOK_i2 _ _, pairOK_i2 _ _,
      pairOK_oid _ _,
      pairOK_none _ (by simp [cArr]), pairOK_none _ (by simp [cArr]), pairOK_none _ (by simp [cArr]), pairOK_none _ (by simp [cArr])⟩

theorem attrCols_length (l : Layout) : 10 ≤ (pgAttributeCols l).length ∧ (pgAttributeCols l).length ≤ 1600 := by
  cases l <;> decide

theorem attr_WF (l : Layout) (a : AttrRow) (im : Nat) (hn : a.name.length ≤ 64) (him : im < 65536) :
    RowV.WF (pgAttributeCols l) ⟨attrVals l a, (pgAttributeCols l).length, im⟩ :=
  catalog_WF _ _ _ (attrVals_OK l a hn) (attrCols_length l).2 him

/-! ### the tool's two schemas as column layouts -/

def attrColsV15 : List Col :=
  [cOid "attrelid", cName "attname", cOid "atttypid", cInt4 "attstattarget", cInt2 "attlen", cInt2 "attnum",
   cInt4 "atttypmod", cInt2 "attndims", cBool "attbyval", cChar "attalign"]

def attrColsV16 : List Col :=
  [cOid "attrelid", cName "attname", cOid "atttypid", cInt2 "attlen", cInt2 "attnum",
   cInt4 "atttypmod", cInt2 "attndims", cBool "attbyval", cChar "attalign"]

theorem attrColsV15_match : ColsMatch 0 schemaPGAttrV15 attrColsV15 := by
  simp only [ColsMatch, ColMatch, schemaPGAttrV15, mkSchema, Generated.Cluster.schemaPGAttrV15, attrColsV15, List.map,
    cOid, cName, cInt4, cInt2, cBool, cChar, true_and, and_true]
  repeat' apply And.intro
  all_goals decide

theorem attrColsV16_match : ColsMatch 0 schemaPGAttrV16 attrColsV16 := by
  simp only [ColsMatch, ColMatch, schemaPGAttrV16, mkSchema, Generated.Cluster.schemaPGAttrV16, attrColsV16, List.map,
    cOid, cName, cInt4, cInt2, cBool, cChar, true_and, and_true]
  repeat' apply And.intro
  all_goals decide

theorem schemaV15_ne : schemaPGAttrV15 ≠ [] := by simp [schemaPGAttrV15, mkSchema, Generated.Cluster.schemaPGAttrV15]
theorem schemaV16_ne : schemaPGAttrV16 ≠ [] := by simp [schemaPGAttrV16, mkSchema, Generated.Cluster.schemaPGAttrV16]

/-- the padded `name` field -/
def nameField (n : Bytes) : Bytes := n ++ zeros (64 - n.length)
theorem nameField_length (n : Bytes) (h : n.length ≤ 64) : (nameField n).length = 64 := by simp [nameField]; omega

/-- what the V15 schema sees in a 12–15 row (A): its last three columns are bytes of attcacheoff (= −1) -/
def attrBssA (a : AttrRow) : List Bytes :=
  [le 4 a.relid, nameField a.name, le 4 a.typid, le 4 (ofSigned 32 a.stattarget), le 2 (ofSigned 16 a.len),
   le 2 (ofSigned 16 a.num), le 4 (ofSigned 32 a.ndims), le 2 (ofSigned 32 (-1)), [b2 (ofSigned 32 (-1))], [b3 (ofSigned 32 (-1))]]

/-- what the V16 schema sees in a 16 row (B): its `atttypmod` is attcacheoff, its last three columns are bytes of atttypmod -/
def attrBssB (a : AttrRow) : List Bytes :=
  [le 4 a.relid, nameField a.name, le 4 a.typid, le 2 (ofSigned 16 a.len), le 2 (ofSigned 16 a.num),
   le 4 (ofSigned 32 (-1)), le 2 (ofSigned 32 a.typmod), [b2 (ofSigned 32 a.typmod)], [b3 (ofSigned 32 a.typmod)]]

/-- what the V16 schema sees in a 12–15 row (C, auto-detection probing): `attlen`/`attnum` are the halves of
attstattarget, `atttypmod` is attlen+attnum, the last three columns are bytes of attndims -/
def attrBssC (a : AttrRow) : List Bytes :=
  [le 4 a.relid, nameField a.name, le 4 a.typid, le 2 (ofSigned 32 a.stattarget), le 2 (ofSigned 32 a.stattarget / 256 / 256),
   le 2 (ofSigned 16 a.len) ++ le 2 (ofSigned 16 a.num), le 2 (ofSigned 32 a.ndims), [b2 (ofSigned 32 a.ndims)], [b3 (ofSigned 32 a.ndims)]]

/-- the first attributes of the real rows, as fixed-width byte strings -/
def realBss15 (a : AttrRow) : List Bytes :=
  [le 4 a.relid, nameField a.name, le 4 a.typid, le 4 (ofSigned 32 a.stattarget), le 2 (ofSigned 16 a.len),
   le 2 (ofSigned 16 a.num), le 4 (ofSigned 32 a.ndims), le 4 (ofSigned 32 (-1))]
def realBss16 (a : AttrRow) : List Bytes :=
  [le 4 a.relid, nameField a.name, le 4 a.typid, le 2 (ofSigned 16 a.len), le 2 (ofSigned 16 a.num),
   le 4 (ofSigned 32 (-1)), le 4 (ofSigned 32 a.typmod)]

theorem realVals15 (l : Layout) (hl : l ≠ .v16) (a : AttrRow) :
    (attrVals l a).take 8 = (realBss15 a).map fun bs => some (Datum.fixed bs) := by
  cases l
  · rfl
  · rfl
  · exact absurd rfl hl

theorem realVals16 (a : AttrRow) : (attrVals .v16 a).take 7 = (realBss16 a).map fun bs => some (Datum.fixed bs) := rfl

theorem aligned_real15 (l : Layout) (hl : l ≠ .v16) (a : AttrRow) (hn : a.name.length ≤ 64) :
    Aligned 0 ((pgAttributeCols l).take 8) (realBss15 a) := by
  have hN := nameField_length a.name hn
  cases l
  · simp only [Aligned, pgAttributeCols, realBss15, List.take, cOid, cName, cInt4, cInt2, le_length, hN, alignUp, and_true]
  · simp only [Aligned, pgAttributeCols, realBss15, List.take, cOid, cName, cInt4, cInt2, le_length, hN, alignUp, and_true]
  · exact absurd rfl hl

theorem aligned_real16 (a : AttrRow) (hn : a.name.length ≤ 64) : Aligned 0 ((pgAttributeCols .v16).take 7) (realBss16 a) := by
  have hN := nameField_length a.name hn
  simp only [Aligned, pgAttributeCols, realBss16, List.take, cOid, cName, cInt4, cInt2, le_length, hN, alignUp, and_true]

theorem aligned_A (a : AttrRow) (hn : a.name.length ≤ 64) : Aligned 0 attrColsV15 (attrBssA a) := by
  have hN := nameField_length a.name hn
  simp only [Aligned, attrColsV15, attrBssA, cOid, cName, cInt4, cInt2, cBool, cChar, le_length, hN, alignUp, length_cons, length_nil, and_true]

theorem aligned_B (a : AttrRow) (hn : a.name.length ≤ 64) : Aligned 0 attrColsV16 (attrBssB a) := by
  have hN := nameField_length a.name hn
  simp only [Aligned, attrColsV16, attrBssB, cOid, cName, cInt4, cInt2, cBool, cChar, le_length, hN, alignUp, length_cons, length_nil, and_true]

theorem aligned_C (a : AttrRow) (hn : a.name.length ≤ 64) : Aligned 0 attrColsV16 (attrBssC a) := by
  have hN := nameField_length a.name hn
  simp only [Aligned, attrColsV16, attrBssC, cOid, cName, cInt4, cInt2, cBool, cChar, le_length, hN, alignUp, length_cons, length_nil,
    length_append, and_true]

theorem flat_A (a : AttrRow) : (realBss15 a).flatten = (attrBssA a).flatten := by
  simp only [realBss15, attrBssA, flatten_cons, flatten_nil, append_nil]
  rw [le4_split (ofSigned 32 (-1))]

theorem flat_B (a : AttrRow) : (realBss16 a).flatten = (attrBssB a).flatten := by
  simp only [realBss16, attrBssB, flatten_cons, flatten_nil, append_nil]
  rw [le4_split (ofSigned 32 a.typmod)]

theorem flat_C (a : AttrRow) : ((realBss15 a).take 7).flatten = (attrBssC a).flatten := by
  simp only [realBss15, attrBssC, List.take, flatten_cons, flatten_nil, append_nil, append_assoc]
  rw [le4_split2 (ofSigned 32 a.stattarget), le4_split (ofSigned 32 a.ndims)]
  simp only [append_assoc]



/-! ### the three readings of a pg_attribute row -/

theorem attrVals_some (l : Layout) (a : AttrRow) : ((attrVals l a).take 10).all Option.isSome = true := by
  cases l <;> rfl

theorem isSome_of_all (vals : List (Option Datum)) (m : Nat) (h : (vals.take m).all Option.isSome = true) (hm : m ≤ vals.length) :
    ∀ j, j < m → (vals.getD j none).isSome = true := by
  intro j hj
  have h1 : (vals.take m)[j]? = vals[j]? := getElem?_take_of_lt hj
  have hj' : j < vals.length := by omega
  rw [getElem?_eq_getElem hj'] at h1
  have hmem : vals[j] ∈ vals.take m := mem_of_getElem? h1
  have := all_eq_true.mp h _ hmem
  simp [List.getD, getElem?_eq_getElem hj', this]

theorem attrVals_length (l : Layout) (a : AttrRow) : 10 ≤ (attrVals l a).length := by
  cases l <;> simp [attrVals]

theorem fixed_A (a : AttrRow) (hn : a.name.length ≤ 64) : AllFixed attrColsV15 (attrBssA a) := by
  have hN := nameField_length a.name hn
  simp only [AllFixed, FixedOK, attrColsV15, attrBssA, cOid, cName, cInt4, cInt2, cBool, cChar, le_length, hN, length_cons, length_nil, and_true]
  repeat' apply And.intro
  all_goals first | decide | (unfold Pow2Align; decide)

theorem fixed_B (a : AttrRow) (hn : a.name.length ≤ 64) : AllFixed attrColsV16 (attrBssB a) := by
  have hN := nameField_length a.name hn
  simp only [AllFixed, FixedOK, attrColsV16, attrBssB, cOid, cName, cInt4, cInt2, cBool, cChar, le_length, hN, length_cons, length_nil, and_true]
  repeat' apply And.intro
  all_goals first | decide | (unfold Pow2Align; decide)

theorem fixed_C (a : AttrRow) (hn : a.name.length ≤ 64) : AllFixed attrColsV16 (attrBssC a) := by
  have hN := nameField_length a.name hn
  simp only [AllFixed, FixedOK, attrColsV16, attrBssC, cOid, cName, cInt4, cInt2, cBool, cChar, le_length, hN, length_cons, length_nil,
    length_append, and_true]
  repeat' apply And.intro
  all_goals first | decide | (unfold Pow2Align; decide)

theorem data_A (l : Layout) (hl : l ≠ .v16) (a : AttrRow) (hn : a.name.length ≤ 64) :
    ∃ rest, form (pgAttributeCols l) (attrVals l a) 0 = form attrColsV15 ((attrBssA a).map fun bs => some (Datum.fixed bs)) 0 ++ rest := by
  have h := form_split 8 (pgAttributeCols l) (attrVals l a) 0
  rw [realVals15 l hl a, form_flat _ _ _ (aligned_real15 l hl a hn), flat_A, ← form_flat _ _ _ (aligned_A a hn)] at h
  exact ⟨_, h⟩

theorem data_B (a : AttrRow) (hn : a.name.length ≤ 64) :
    ∃ rest, form (pgAttributeCols .v16) (attrVals .v16 a) 0 = form attrColsV16 ((attrBssB a).map fun bs => some (Datum.fixed bs)) 0 ++ rest := by
  have h := form_split 7 (pgAttributeCols .v16) (attrVals .v16 a) 0
  rw [realVals16 a, form_flat _ _ _ (aligned_real16 a hn), flat_B, ← form_flat _ _ _ (aligned_B a hn)] at h
  exact ⟨_, h⟩

theorem realVals15_7 (l : Layout) (hl : l ≠ .v16) (a : AttrRow) :
    (attrVals l a).take 7 = ((realBss15 a).take 7).map fun bs => some (Datum.fixed bs) := by
  cases l
  · rfl
  · rfl
  · exact absurd rfl hl

theorem aligned_real15_7 (l : Layout) (hl : l ≠ .v16) (a : AttrRow) (hn : a.name.length ≤ 64) :
    Aligned 0 ((pgAttributeCols l).take 7) ((realBss15 a).take 7) := by
  have hN := nameField_length a.name hn
  cases l
  · simp only [Aligned, pgAttributeCols, realBss15, List.take, cOid, cName, cInt4, cInt2, le_length, hN, alignUp, and_true]
  · simp only [Aligned, pgAttributeCols, realBss15, List.take, cOid, cName, cInt4, cInt2, le_length, hN, alignUp, and_true]
  · exact absurd rfl hl

theorem data_C (l : Layout) (hl : l ≠ .v16) (a : AttrRow) (hn : a.name.length ≤ 64) :
    ∃ rest, form (pgAttributeCols l) (attrVals l a) 0 = form attrColsV16 ((attrBssC a).map fun bs => some (Datum.fixed bs)) 0 ++ rest := by
  have h := form_split 7 (pgAttributeCols l) (attrVals l a) 0
  rw [realVals15_7 l hl a, form_flat _ _ _ (aligned_real15_7 l hl a hn), flat_C, ← form_flat _ _ _ (aligned_C a hn)] at h
  exact ⟨_, h⟩

def attrRowA (dec : Dec) (a : AttrRow) : Row := catalogRow dec attrColsV15 (attrBssA a)
def attrRowB (dec : Dec) (a : AttrRow) : Row := catalogRow dec attrColsV16 (attrBssB a)
def attrRowC (dec : Dec) (a : AttrRow) : Row := catalogRow dec attrColsV16 (attrBssC a)

theorem attr_decode_A (dec : Dec) (hd : CatDec dec) (l : Layout) (hl : l ≠ .v16) (a : AttrRow) (im : Nat) (hn : a.name.length ≤ 64)
    (him : im < 65536) :
    decodeTuple dec (mtuple (formRow (pgAttributeCols l) (attrVals l a) im)) schemaPGAttrV15 = .ok (some (toRow (attrRowA dec a))) := by
  obtain ⟨rest, hdata⟩ := data_A l hl a hn
  exact decodeTuple_catalog dec hd _ _ im schemaPGAttrV15 attrColsV15 (attrBssA a) rest (attr_WF l a im hn him)
    attrColsV15_match (fixed_A a hn) schemaV15_ne
    (isSome_of_all _ 10 (attrVals_some l a) (attrVals_length l a)) (by have := (attrCols_length l).1; simp [attrColsV15]; omega) hdata

theorem attr_decode_B (dec : Dec) (hd : CatDec dec) (a : AttrRow) (im : Nat) (hn : a.name.length ≤ 64) (him : im < 65536) :
    decodeTuple dec (mtuple (formRow (pgAttributeCols .v16) (attrVals .v16 a) im)) schemaPGAttrV16 = .ok (some (toRow (attrRowB dec a))) := by
  obtain ⟨rest, hdata⟩ := data_B a hn
  exact decodeTuple_catalog dec hd _ _ im schemaPGAttrV16 attrColsV16 (attrBssB a) rest (attr_WF .v16 a im hn him)
    attrColsV16_match (fixed_B a hn) schemaV16_ne
    (fun j hj => isSome_of_all _ 10 (attrVals_some .v16 a) (attrVals_length .v16 a) j (by simp [attrColsV16] at hj; omega))
    (by decide) hdata

theorem attr_decode_C (dec : Dec) (hd : CatDec dec) (l : Layout) (hl : l ≠ .v16) (a : AttrRow) (im : Nat) (hn : a.name.length ≤ 64)
    (him : im < 65536) :
    decodeTuple dec (mtuple (formRow (pgAttributeCols l) (attrVals l a) im)) schemaPGAttrV16 = .ok (some (toRow (attrRowC dec a))) := by
  obtain ⟨rest, hdata⟩ := data_C l hl a hn
  exact decodeTuple_catalog dec hd _ _ im schemaPGAttrV16 attrColsV16 (attrBssC a) rest (attr_WF l a im hn him)
    attrColsV16_match (fixed_C a hn) schemaV16_ne
    (fun j hj => isSome_of_all _ 10 (attrVals_some l a) (attrVals_length l a) j (by simp [attrColsV16] at hj; omega))
    (by have := (attrCols_length l).1; simp [attrColsV16]; omega) hdata



/-! ### the fields ParsePGAttribute takes from a decoded row -/

/-- what the tool's `attalign` byte really is (finding A03): the high byte of attcacheoff (−1 → 0xFF) in the 12–15
layouts, the high byte of atttypmod in the 16 layout -/
def toolAlignByte (l : Layout) (a : AttrRow) : UInt8 :=
  match l with
  | .v16 => b3 (ofSigned 32 a.typmod)
  | _ => b3 (ofSigned 32 (-1))

structure AttrFields (row : Row) (a : AttrRow) (ab : UInt8) : Prop where
  relid : getOID row "attrelid" = a.relid
  name : getString row "attname" = a.name
  typid : getOID row "atttypid" = a.typid
  len : getInt row "attlen" = a.len
  num : getInt row "attnum" = a.num
  align : getString row "attalign" = [ab]

structure AttrWF (a : AttrRow) : Prop where
  name : nameOK a.name
  relid : a.relid < 2 ^ 32
  typid : a.typid < 2 ^ 32
  num : -32768 ≤ a.num ∧ a.num < 32768
  len : -32768 ≤ a.len ∧ a.len < 32768

theorem idxV15 : (attrColsV15.map (·.name)).Nodup ∧ (attrColsV15.map (·.name)).idxOf (strBytes "attrelid") = 0 ∧
    (attrColsV15.map (·.name)).idxOf (strBytes "attname") = 1 ∧ (attrColsV15.map (·.name)).idxOf (strBytes "atttypid") = 2 ∧
    (attrColsV15.map (·.name)).idxOf (strBytes "attlen") = 4 ∧ (attrColsV15.map (·.name)).idxOf (strBytes "attnum") = 5 ∧
    (attrColsV15.map (·.name)).idxOf (strBytes "attalign") = 9 := by
  simp only [attrColsV15, List.map, cOid, cName, cInt4, cInt2, cBool, cChar, strBytes_eq]
  decide

theorem idxV16 : (attrColsV16.map (·.name)).Nodup ∧ (attrColsV16.map (·.name)).idxOf (strBytes "attrelid") = 0 ∧
    (attrColsV16.map (·.name)).idxOf (strBytes "attname") = 1 ∧ (attrColsV16.map (·.name)).idxOf (strBytes "atttypid") = 2 ∧
    (attrColsV16.map (·.name)).idxOf (strBytes "attlen") = 3 ∧ (attrColsV16.map (·.name)).idxOf (strBytes "attnum") = 4 ∧
    (attrColsV16.map (·.name)).idxOf (strBytes "attalign") = 8 := by
  simp only [attrColsV16, List.map, cOid, cName, cInt4, cInt2, cBool, cChar, strBytes_eq]
  decide

theorem dec_oid (dec : Dec) (hd : CatDec dec) (v : Nat) (hv : v < 2 ^ 32) : okVal (dec (le 4 v) 26) = .int v := by
  rw [hd.oid _ (by simp), okVal_ok]
  have := rd_le 4 v [] (by omega)
  simp only [append_nil] at this
  rw [this]

theorem dec_name (dec : Dec) (hd : CatDec dec) (n : Bytes) (hn : nameOK n) : okVal (dec (nameField n) 19) = .str n := by
  rw [hd.name _ (nameField_length n (by have := hn.2.1; omega)), okVal_ok]
  unfold nameField
  rw [cstring_name' n hn.2.2 hn.2.1]

theorem dec_int2 (dec : Dec) (hd : CatDec dec) (v : Int) (h1 : -32768 ≤ v) (h2 : v < 32768) :
    okVal (dec (le 2 (ofSigned 16 v)) 21) = .int v := by
  rw [hd.int2 _ (by simp), okVal_ok]
  have := rd_le 2 (ofSigned 16 v) [] (by have := ofSigned16_lt v; omega)
  simp only [append_nil] at this
  rw [this, toSigned_ofSigned16 v h1 h2]

theorem attrRowA_toRow (dec : Dec) (a : AttrRow) : toRow (attrRowA dec a) = attrRowA dec a := by
  apply PgVerif.Props.C03.C03_entries
  unfold attrRowA
  rw [catalogRow_names dec _ _ rfl]
  exact idxV15.1

theorem attrRowB_toRow (dec : Dec) (a : AttrRow) : toRow (attrRowB dec a) = attrRowB dec a := by
  apply PgVerif.Props.C03.C03_entries
  unfold attrRowB
  rw [catalogRow_names dec _ _ rfl]
  exact idxV16.1

theorem attrRowC_toRow (dec : Dec) (a : AttrRow) : toRow (attrRowC dec a) = attrRowC dec a := by
  apply PgVerif.Props.C03.C03_entries
  unfold attrRowC
  rw [catalogRow_names dec _ _ rfl]
  exact idxV16.1

theorem fields_A (dec : Dec) (hd : CatDec dec) (a : AttrRow) (hw : AttrWF a) :
    AttrFields (toRow (attrRowA dec a)) a (b3 (ofSigned 32 (-1))) := by
  rw [attrRowA_toRow]
  obtain ⟨_, i0, i1, i2, i4, i5, i9⟩ := idxV15
  have l0 := catalogRow_lookup dec attrColsV15 (attrBssA a) _ 0 i0 (by decide) rfl
  have l1 := catalogRow_lookup dec attrColsV15 (attrBssA a) _ 1 i1 (by decide) rfl
  have l2 := catalogRow_lookup dec attrColsV15 (attrBssA a) _ 2 i2 (by decide) rfl
  have l4 := catalogRow_lookup dec attrColsV15 (attrBssA a) _ 4 i4 (by decide) rfl
  have l5 := catalogRow_lookup dec attrColsV15 (attrBssA a) _ 5 i5 (by decide) rfl
  have l9 := catalogRow_lookup dec attrColsV15 (attrBssA a) _ 9 i9 (by decide) rfl
  have e0 : okVal (dec ((attrBssA a).getD 0 []) (attrColsV15.getD 0 default).typid) = .int a.relid := dec_oid dec hd _ hw.relid
  have e1 : okVal (dec ((attrBssA a).getD 1 []) (attrColsV15.getD 1 default).typid) = .str a.name := dec_name dec hd _ hw.name
  have e2 : okVal (dec ((attrBssA a).getD 2 []) (attrColsV15.getD 2 default).typid) = .int a.typid := dec_oid dec hd _ hw.typid
  have e4 : okVal (dec ((attrBssA a).getD 4 []) (attrColsV15.getD 4 default).typid) = .int a.len := dec_int2 dec hd _ hw.len.1 hw.len.2
  have e5 : okVal (dec ((attrBssA a).getD 5 []) (attrColsV15.getD 5 default).typid) = .int a.num := dec_int2 dec hd _ hw.num.1 hw.num.2
  have e9 : okVal (dec ((attrBssA a).getD 9 []) (attrColsV15.getD 9 default).typid) = .str [b3 (ofSigned 32 (-1))] := by
    show okVal (dec [b3 (ofSigned 32 (-1))] 18) = _
    rw [hd.char _ rfl, okVal_ok]
  rw [e0] at l0; rw [e1] at l1; rw [e2] at l2; rw [e4] at l4; rw [e5] at l5; rw [e9] at l9
  unfold attrRowA
  exact ⟨getOID_int _ _ _ hw.relid l0, getString_str _ _ _ l1, getOID_int _ _ _ hw.typid l2, getInt_int _ _ _ l4,
    getInt_int _ _ _ l5, getString_str _ _ _ l9⟩

theorem fields_B (dec : Dec) (hd : CatDec dec) (a : AttrRow) (hw : AttrWF a) :
    AttrFields (toRow (attrRowB dec a)) a (b3 (ofSigned 32 a.typmod)) := by
  rw [attrRowB_toRow]
  obtain ⟨_, i0, i1, i2, i3, i4, i8⟩ := idxV16
  have l0 := catalogRow_lookup dec attrColsV16 (attrBssB a) _ 0 i0 (by decide) rfl
  have l1 := catalogRow_lookup dec attrColsV16 (attrBssB a) _ 1 i1 (by decide) rfl
  have l2 := catalogRow_lookup dec attrColsV16 (attrBssB a) _ 2 i2 (by decide) rfl
  have l3 := catalogRow_lookup dec attrColsV16 (attrBssB a) _ 3 i3 (by decide) rfl
  have l4 := catalogRow_lookup dec attrColsV16 (attrBssB a) _ 4 i4 (by decide) rfl
  have l8 := catalogRow_lookup dec attrColsV16 (attrBssB a) _ 8 i8 (by decide) rfl
  have e0 : okVal (dec ((attrBssB a).getD 0 []) (attrColsV16.getD 0 default).typid) = .int a.relid := dec_oid dec hd _ hw.relid
  have e1 : okVal (dec ((attrBssB a).getD 1 []) (attrColsV16.getD 1 default).typid) = .str a.name := dec_name dec hd _ hw.name
  have e2 : okVal (dec ((attrBssB a).getD 2 []) (attrColsV16.getD 2 default).typid) = .int a.typid := dec_oid dec hd _ hw.typid
  have e3 : okVal (dec ((attrBssB a).getD 3 []) (attrColsV16.getD 3 default).typid) = .int a.len := dec_int2 dec hd _ hw.len.1 hw.len.2
  have e4 : okVal (dec ((attrBssB a).getD 4 []) (attrColsV16.getD 4 default).typid) = .int a.num := dec_int2 dec hd _ hw.num.1 hw.num.2
  have e8 : okVal (dec ((attrBssB a).getD 8 []) (attrColsV16.getD 8 default).typid) = .str [b3 (ofSigned 32 a.typmod)] := by
    show okVal (dec [b3 (ofSigned 32 a.typmod)] 18) = _
    rw [hd.char _ rfl, okVal_ok]
  rw [e0] at l0; rw [e1] at l1; rw [e2] at l2; rw [e3] at l3; rw [e4] at l4; rw [e8] at l8
  unfold attrRowB
  exact ⟨getOID_int _ _ _ hw.relid l0, getString_str _ _ _ l1, getOID_int _ _ _ hw.typid l2, getInt_int _ _ _ l3,
    getInt_int _ _ _ l4, getString_str _ _ _ l8⟩

/-- probing a 12–15 row with the V16 schema: `attnum` is the high half of attstattarget — 0 or −1 for every
statistics target PostgreSQL accepts (−1 … 10000), never 1 -/
theorem attnum_C (dec : Dec) (hd : CatDec dec) (a : AttrRow) (hs : -65536 ≤ a.stattarget ∧ a.stattarget < 65536) :
    getInt (toRow (attrRowC dec a)) "attnum" ≠ 1 := by
  rw [attrRowC_toRow]
  obtain ⟨_, _, _, _, _, i4, _⟩ := idxV16
  have l4 := catalogRow_lookup dec attrColsV16 (attrBssC a) _ 4 i4 (by decide) rfl
  have e4 : okVal (dec ((attrBssC a).getD 4 []) (attrColsV16.getD 4 default).typid) =
      .int (toSigned 16 (ofSigned 32 a.stattarget / 256 / 256)) := by
    show okVal (dec (le 2 (ofSigned 32 a.stattarget / 256 / 256)) 21) = _
    rw [hd.int2 _ (by simp), okVal_ok]
    have := rd_le 2 (ofSigned 32 a.stattarget / 256 / 256) [] (by have := ofSigned32_lt a.stattarget; omega)
    simp only [append_nil] at this
    rw [this]
  rw [e4] at l4
  unfold attrRowC
  rw [getInt_int _ _ _ l4]
  unfold toSigned ofSigned
  simp only [Nat.reducePow, Nat.reduceSub]
  split <;> omega

end PgVerif.Proofs.Cluster
