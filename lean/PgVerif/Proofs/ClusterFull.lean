/-
  Helper lemmas for the full C01 theorem: DumpDatabaseFromFiles / DumpDataDir (pgdump.go) with the real row reader
  `Model.readRows` on the files of a `Spec.Cluster`, against `Spec.expectedDump`.
-/
import PgVerif.Proofs.ClusterAttrParse
namespace PgVerif.Proofs.Cluster
open PgVerif PgVerif.Model PgVerif.Spec PgVerif.Proofs PgVerif.Proofs.Rows List
open PgVerif.Spec (TableDump DatabaseDump DumpResult Options ClassRow)

/-! ### collectM -/

/-- the results of a `collectM`, mapped, are the expected values of the inputs that yield one -/
theorem collectM_filterMap_spec {α β γ} (f : α → M (Option β)) (G : β → γ) (E : α → Option γ) (xs : List α) (ys : List β)
    (h : collectM f xs = .ok ys) (hf : ∀ x ∈ xs, ∀ y, f x = .ok y → y.map G = E x) : ys.map G = xs.filterMap E := by
  induction xs generalizing ys with
  | nil => simp [collectM] at h; subst h; rfl
  | cons x xs ih =>
    simp only [collectM] at h
    cases hx : f x with
    | error e => simp [hx] at h
    | ok r =>
      simp only [hx, ok_bind] at h
      cases hr : collectM f xs with
      | error e => simp [hr] at h
      | ok rest =>
        simp only [hr, ok_bind, pure_eq_ok] at h
        injection h with h
        subst h
        have h1 := hf x (by simp) r hx
        have h2 := ih rest hr (fun y hy => hf y (by simp [hy]))
        rw [filterMap_cons, ← h1, ← h2]
        cases r <;> rfl

theorem collectM_some_spec {α β γ} (F : α → M β) (G : β → γ) (E : α → γ) (xs : List α) (ys : List β)
    (h : collectM (fun x => do let t ← F x; pure (some t)) xs = .ok ys) (hf : ∀ x ∈ xs, ∀ t, F x = .ok t → G t = E x) :
    ys.map G = xs.map E := by
  have := collectM_filterMap_spec _ G (fun x => some (E x)) xs ys h ?_
  · rw [this]; simp
  · intro x hx y hy
    cases hF : F x with
    | error e => simp [hF] at hy
    | ok t =>
      simp only [hF, ok_bind, pure_eq_ok] at hy
      injection hy with hy
      subst hy
      simp [hf x hx t hF]

/-! ### the table loop, in full -/

/-- the loop over the sorted filenodes is the loop over the kept TableInfos -/
theorem dumpLoop_eq (rr : RowReader) (tables : List (Nat × TableInfo)) (attrs : List (Nat × List AttrInfo))
    (reader : Option FileReader) (o : Options) (hk : ∀ e ∈ tables, e.2.filenode = e.1) (keys : List Nat) :
    collectM (dumpOne rr tables attrs reader o) keys =
      collectM (fun info : TableInfo => do
          let t ← dumpTable rr info.filenode info ((mapGet attrs info.oid).getD []) reader o
          pure (some t))
        ((keys.filterMap fun k => mapGet tables k).filter (keepTable o)) := by
  induction keys with
  | nil => rfl
  | cons k ks ih =>
    simp only [collectM, filterMap_cons]
    unfold dumpOne
    cases hg : mapGet tables k with
    | none =>
      simp only [ok_bind, pure_eq_ok]
      rw [ih]
      cases collectM _ _ <;> rfl
    | some info =>
      have hfn : info.filenode = k := hk _ (lookup_mem tables k info hg)
      simp only
      by_cases hkeep : keepTable o info = true
      · rw [if_pos hkeep, filter_cons, if_pos hkeep]
        simp only [collectM, hfn]
        rw [ih]
      · rw [if_neg hkeep, filter_cons, if_neg hkeep]
        simp only [ok_bind, pure_eq_ok]
        rw [ih]
        cases collectM _ _ <;> rfl

/-- the kept TableInfos of a database whose pg_class map holds the live rows with storage: the ordinary tables
passing the filters, in filenode order -/
theorem kept_infos (π : MapOrder TableInfo) (hπ : ∀ l, π l ~ l) (o : Options) (tables : List (Nat × TableInfo))
    (hk : KeysOK tables) (live : List ClassRow) (hvals : tables.map (·.2) = (live.filter (·.filenode != 0)).map infoOfRel)
    (hnd : ((live.filter (·.filenode != 0)).map (·.filenode)).Nodup) (hkind : ∀ r ∈ live, r.kind < 256) :
    ((sortNat ((π tables).map (·.1))).filterMap fun k => mapGet tables k).filter (keepTable o) =
      (sortBy ClassRow.filenode (live.filter (Spec.selectedRel o))).map infoOfRel := by
  rw [sorted_lookup tables hk _ ((hπ tables).map _), hvals, sortByFilenode_eq,
    sortBy_map infoOfRel ClassRow.filenode TableInfo.filenode (fun _ => rfl), filter_map]
  have hinj := nodup_map_inj ClassRow.filenode _ hnd
  have hmemNZ : ∀ r ∈ sortBy ClassRow.filenode (live.filter (·.filenode != 0)), r ∈ live ∧ r.filenode ≠ 0 := by
    intro r hr'
    have := mem_filter.mp ((sortBy_perm _ _).subset hr')
    exact ⟨this.1, by simpa using this.2⟩
  have hf : (sortBy ClassRow.filenode (live.filter (·.filenode != 0))).filter (keepTable o ∘ infoOfRel) =
      (sortBy ClassRow.filenode (live.filter (·.filenode != 0))).filter (Spec.selectedRel o) := by
    apply filter_congr
    intro r hr'
    obtain ⟨h1, h2⟩ := hmemNZ r hr'
    exact keepTable_selected o r (hkind r h1) h2
  rw [hf, sortBy_filter ClassRow.filenode (Spec.selectedRel o) _ hinj, filter_filter]
  have hsel : (live.filter fun r => Spec.selectedRel o r && (r.filenode != 0)) = live.filter (Spec.selectedRel o) := by
    apply filter_congr
    intro r _
    unfold Spec.selectedRel
    cases (r.filenode != 0) <;> simp
  rw [hsel]

end PgVerif.Proofs.Cluster
