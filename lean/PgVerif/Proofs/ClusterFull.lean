/-
  Helper lemmas for the full C01 theorem: DumpDatabaseFromFiles / DumpDataDir (pgdump.go) with the real row reader
  `Model.readRows` on the files of a `Spec.Cluster`, against `Spec.expectedDump`.
-/
import PgVerif.Proofs.ClusterAttrParse
namespace PgVerif.Proofs.Cluster
open PgVerif PgVerif.Model PgVerif.Spec PgVerif.Proofs PgVerif.Proofs.Rows List
open PgVerif.Spec (TableDump DatabaseDump DumpResult Options ClassRow)

/-! ### collectM -/

/-- the results of a `collectM`, mapped, are the expected values of the inputs that yield one -/
theorem collectM_filterMap_spec {α β γ} (f : α → M (Option β)) (G : β → γ) (E : α → Option γ) (xs : List α) (ys : List β)
    (h : collectM f xs = .ok ys) (hf : ∀ x ∈ xs, ∀ y, f x = .ok y → y.map G = E x) : ys.map G = xs.filterMap E := by
  induction xs generalizing ys with
  | nil => simp [collectM] at h; subst h; rfl
  | cons x xs ih =>
    simp only [collectM] at h
    cases hx : f x with
    | error e => simp [hx] at h
    | ok r =>
      simp only [hx, ok_bind] at h
      cases hr : collectM f xs with
      | error e => simp [hr] at h
      | ok rest =>
        simp only [hr, ok_bind, pure_eq_ok] at h
        injection h with h
        subst h
        have h1 := hf x (by simp) r hx
        have h2 := ih rest hr (fun y hy => hf y (by simp [hy]))
        rw [filterMap_cons, ← h1, ← h2]
        cases r <;> rfl

theorem collectM_some_spec {α β γ} (F : α → M β) (G : β → γ) (E : α → γ) (xs : List α) (ys : List β)
    (h : collectM (fun x => do let t ← F x; pure (some t)) xs = .ok ys) (hf : ∀ x ∈ xs, ∀ t, F x = .ok t → G t = E x) :
    ys.map G = xs.map E := by
  have := collectM_filterMap_spec _ G (fun x => some (E x)) xs ys h ?_
  · rw [this]; simp
  · intro x hx y hy
    cases hF : F x with
    | error e => simp [hF] at hy
    | ok t =>
      simp only [hF, ok_bind, pure_eq_ok] at hy
      injection hy with hy
      subst hy
      simp [hf x hx t hF]

/-! ### the table loop, in full -/

/-- the loop over the sorted filenodes is the loop over the kept TableInfos -/
theorem dumpLoop_eq (rr : RowReader) (tables : List (Nat × TableInfo)) (attrs : List (Nat × List AttrInfo))
    (reader : Option FileReader) (o : Options) (hk : ∀ e ∈ tables, e.2.filenode = e.1) (keys : List Nat) :
    collectM (dumpOne rr tables attrs reader o) keys =
      collectM (fun info : TableInfo => do
          let t ← dumpTable rr info.filenode info ((mapGet attrs info.oid).getD []) reader o
          pure (some t))
        ((keys.filterMap fun k => mapGet tables k).filter (keepTable o)) := by
  induction keys with
  | nil => rfl
  | cons k ks ih =>
    simp only [collectM, filterMap_cons]
    rw [ih]
    cases hg : mapGet tables k with
    | none =>
      have hstep : dumpOne rr tables attrs reader o k = .ok none := by unfold dumpOne; rw [hg]; rfl
      rw [hstep]
      simp only [ok_bind, pure_eq_ok]
      generalize collectM _ _ = X
      cases X <;> rfl
    | some info =>
      have hfn : info.filenode = k := hk _ (lookup_mem tables k info hg)
      by_cases hkeep : keepTable o info = true
      · have hstep : dumpOne rr tables attrs reader o k =
            (do let t ← dumpTable rr k info ((mapGet attrs info.oid).getD []) reader o; pure (some t)) := by
          unfold dumpOne; rw [hg]; simp only; rw [if_pos hkeep]
        rw [hstep]
        simp only [filter_cons, hkeep, if_true, collectM, hfn]
      · have hstep : dumpOne rr tables attrs reader o k = .ok none := by
          unfold dumpOne; rw [hg]; simp only; rw [if_neg hkeep]; rfl
        rw [hstep, filter_cons, if_neg hkeep]
        simp only [ok_bind, pure_eq_ok]
        generalize collectM _ _ = X
        cases X <;> rfl

/-- the kept TableInfos of a database whose pg_class map holds the live rows with storage: the ordinary tables
passing the filters, in filenode order -/
theorem kept_infos (π : MapOrder TableInfo) (hπ : ∀ l, π l ~ l) (o : Options) (tables : List (Nat × TableInfo))
    (hk : KeysOK tables) (live : List ClassRow) (hvals : tables.map (·.2) = (live.filter (·.filenode != 0)).map infoOfRel)
    (hnd : ((live.filter (·.filenode != 0)).map (·.filenode)).Nodup) (hkind : ∀ r ∈ live, r.kind < 256)
    (hasc : GoCase.FilterStable o live) :
    ((sortNat ((π tables).map (·.1))).filterMap fun k => mapGet tables k).filter (keepTable o) =
      (sortBy ClassRow.filenode (live.filter (Spec.selectedRel o))).map infoOfRel := by
  rw [sorted_lookup tables hk _ ((hπ tables).map _), hvals, sortByFilenode_eq,
    sortBy_map infoOfRel ClassRow.filenode TableInfo.filenode (fun _ => rfl), filter_map]
  have hinj := nodup_map_inj ClassRow.filenode _ hnd
  have hmemNZ : ∀ r ∈ sortBy ClassRow.filenode (live.filter (·.filenode != 0)), r ∈ live ∧ r.filenode ≠ 0 := by
    intro r hr'
    have := mem_filter.mp ((sortBy_perm _ _).subset hr')
    exact ⟨this.1, by simpa using this.2⟩
  have hf : (sortBy ClassRow.filenode (live.filter (·.filenode != 0))).filter (keepTable o ∘ infoOfRel) =
      (sortBy ClassRow.filenode (live.filter (·.filenode != 0))).filter (Spec.selectedRel o) := by
    apply filter_congr
    intro r hr'
    obtain ⟨h1, h2⟩ := hmemNZ r hr'
    exact keepTable_selected o r (hkind r h1) h2 (filterAscii_at hasc r h1)
  rw [hf, sortBy_filter ClassRow.filenode (Spec.selectedRel o) _ hinj, filter_filter]
  have hsel : (live.filter fun r => Spec.selectedRel o r && (r.filenode != 0)) = live.filter (Spec.selectedRel o) := by
    apply filter_congr
    intro r _
    unfold Spec.selectedRel
    cases (r.filenode != 0) <;> simp
  rw [hsel]



/-! ### type names -/

/-- **The tool's type names are PostgreSQL's** for every type oid the specification names. -/
theorem typeNames_agree : ∀ p ∈ Spec.typeNames, Model.typeName (p.1 : Int) = strBytes p.2 := by
  simp only [Model.typeName, Model.typeName.lookupOid', strBytes_eq]
  decide

theorem typeName_spec (n : Nat) (x : Bytes) (h : Spec.typeName n = some x) : Model.typeName (n : Int) = x := by
  unfold Spec.typeName at h
  cases hl : Spec.typeNames.lookup n with
  | none => simp [hl] at h
  | some s =>
    simp only [hl, Option.map_some, Option.some.injEq] at h
    subst h
    exact typeNames_agree (n, s) (lookup_mem _ n s hl)

/-- does the specification name this type oid?  (for the others `Spec.expectedTable` leaves the type name empty and
the comparison ignores the tool's text) -/
def specKnows (typid : Int) : Bool := decide (typid ≥ 0) && (Spec.typeName typid.toNat).isSome

def normCol (c : ColumnInfo) : ColumnInfo := { c with typ := if specKnows c.typid then c.typ else [] }
def normTable (t : TableDump) : TableDump := { t with columns := t.columns.map normCol }
def normDb (d : DatabaseDump) : DatabaseDump := { d with tables := d.tables.map normTable }

theorem normCol_attr (a : AttrRow) :
    normCol ⟨(attrInfoOf a).name, Model.typeName (attrInfoOf a).typid, (attrInfoOf a).typid⟩ =
      ⟨a.name, (Spec.typeName a.typid).getD [], a.typid⟩ := by
  unfold normCol specKnows attrInfoOf
  simp only [Int.toNat_natCast]
  have h0 : decide ((a.typid : Int) ≥ 0) = true := by simp
  rw [h0, Bool.true_and]
  cases hx : Spec.typeName a.typid with
  | none => simp
  | some x => simp [typeName_spec a.typid x hx]

/-! ### user heaps through ReadRows -/

theorem expectedCols_cons (val : Bytes → Int → M GoVal) (c : Col) (cs : List Col) (v : Option Datum) (vs : List (Option Datum)) (k : Nat) :
    expectedCols val (c :: cs) (v :: vs) k =
      ((match k, v with | _ + 1, some d => expectedVal val c d | _, _ => pure GoVal.nil) >>= fun x =>
        expectedCols val cs vs (k - 1) >>= fun rest => pure ((c.name, x) :: rest)) := by
  cases k <;> cases v <;> rfl

theorem expectedCols_names (val : Bytes → Int → M GoVal) : ∀ (cols : List Col) (vals : List (Option Datum)) (k : Nat)
    (ps : List (Bytes × GoVal)), vals.length = cols.length → expectedCols val cols vals k = .ok ps →
    ps.map (·.1) = cols.map (·.name)
  | [], [], _, ps, _, h => by simp [expectedCols] at h; subst h; rfl
  | [], _ :: _, _, _, hl, _ => by simp at hl
  | _ :: _, [], _, _, hl, _ => by simp at hl
  | c :: cs, v :: vs, k, ps, hl, h => by
    rw [expectedCols_cons] at h
    generalize (match k, v with | _ + 1, some d => expectedVal val c d | _, _ => pure GoVal.nil) = X at h
    cases X with
    | error e => simp at h
    | ok x =>
      simp only [ok_bind] at h
      cases hr : expectedCols val cs vs (k - 1) with
      | error e => simp [hr] at h
      | ok rest =>
        simp only [hr, ok_bind, pure_eq_ok] at h
        injection h with h
        subst h
        simp only [map_cons]
        rw [expectedCols_names val cs vs (k - 1) rest (by simpa using hl) hr]

theorem storedCols_cons (val : Bytes → Int → M GoVal) (tbl : List (Datum × Bytes)) (c : Col) (cs : List Col) (v : Option Datum)
    (vs : List (Option Datum)) (k : Nat) :
    storedCols val tbl (c :: cs) (v :: vs) k =
      ((match k, v with | _ + 1, some d => storedVal val tbl c d | _, _ => pure GoVal.nil) >>= fun x =>
        storedCols val tbl cs vs (k - 1) >>= fun rest => pure ((c.name, x) :: rest)) := by
  cases k <;> cases v <;> rfl

/-- on a row without out-of-line values (inline-compressed ones included since fixes/rows/09) "what was stored" is what C03's view reads from the row's bytes -/
theorem storedCols_inline (val : Bytes → Int → M GoVal) (tbl : List (Datum × Bytes)) : ∀ (cols : List Col)
    (vals : List (Option Datum)) (k : Nat), vals.all inlineDatum = true → storedCols val tbl cols vals k = expectedCols val cols vals k
  | [], _, _, _ => by simp [storedCols, expectedCols]
  | _ :: _, [], _, _ => by simp [storedCols, expectedCols]
  | c :: cs, v :: vs, k, h => by
    simp only [all_cons, Bool.and_eq_true] at h
    have ih := storedCols_inline val tbl cs vs (k - 1) h.2
    rw [storedCols_cons, expectedCols_cons, ih]
    have h1 := h.1
    clear ih h
    cases k with
    | zero => rfl
    | succ k =>
      cases v with
      | none => rfl
      | some d => cases d <;> first | rfl | (simp [inlineDatum] at h1)

theorem storedRow_inline (val : Bytes → Int → M GoVal) (tbl : List (Datum × Bytes)) (cols : List Col) (r : RowV)
    (h : r.vals.all inlineDatum = true) : storedRow val tbl cols r = rowOf val cols r := by
  unfold storedRow rowOf rowView
  rw [storedCols_inline val tbl cols r.vals r.natts h]

theorem storedRow_nil (val : Bytes → Int → M GoVal) (tbl : List (Datum × Bytes)) (r : RowV) : storedRow val tbl [] r = [] := by
  unfold storedRow
  cases r.vals <;> rfl

theorem heap_flatten (cols : List Col) (pages : List (List RowV)) :
    (pages.map fun pg => pg.map (formTuple cols)).flatten = pages.flatten.map (formTuple cols) := by
  rw [map_flatten]

theorem heap_tuples_WF (cols : List Col) (pages : List (List RowV)) (hwf : ∀ pg ∈ pages, ∀ r ∈ pg, r.WF cols) :
    ∀ ts ∈ (pages.map fun pg => pg.map (formTuple cols)), ∀ t ∈ ts, t.WF := by
  intro ts hts t ht
  obtain ⟨pg, hpg, rfl⟩ := mem_map.mp hts
  obtain ⟨r, hr, rfl⟩ := mem_map.mp ht
  exact formTuple_WF cols r (hwf pg hpg r hr)

/-- **ReadRows on a user heap**: the live row versions, each decoded to the expected row -/
theorem readRows_heap (dec : Dec) (cols : List Col) (mcols : List Column) (pages : List (List RowV))
    (hm : ColsMatch 0 mcols cols) (hne : mcols ≠ []) (hwf : ∀ pg ∈ pages, ∀ r ∈ pg, r.WF cols)
    (hfit : pagesFit (pages.map fun pg => pg.map (formTuple cols))) (hnd : (cols.map (·.name)).Nodup)
    (rows : List Row) (h : readRows dec (encRowPages cols pages) mcols true = .ok rows) :
    rows = (liveRows pages cols).map (rowOf (varlenaVal dec) cols) := by
  unfold encRowPages at h
  rw [readRows_pages dec _ mcols true (heap_tuples_WF cols pages hwf) hfit, heap_flatten, filter_map,
    ← PgVerif.Proofs.Rows.collectM_map] at h
  have hf : ((fun t : Tuple => !true || liveBits t.infomask) ∘ formTuple cols) = fun r => liveBits (formTuple cols r).infomask := by
    funext r; simp [Function.comp]
  rw [hf] at h
  have := collectM_filterMap_spec _ id (fun r => some (rowOf (varlenaVal dec) cols r)) _ rows h ?_
  · simpa [liveRows] using this
  · intro r hr y hy
    have hw : r.WF cols := by
      obtain ⟨pg, hpg, hrp⟩ := mem_flatten.mp (mem_filter.mp hr).1
      exact hwf pg hpg r hrp
    rw [mtuple_formTuple cols r hw, PgVerif.Props.C03.C03_decodeTuple dec cols mcols r _ hm hw hne] at hy
    cases he : expectedCols (varlenaVal dec) cols r.vals r.natts with
    | error e => simp [he] at hy
    | ok ps =>
      simp only [he, ok_bind, pure_eq_ok] at hy
      injection hy with hy
      subst hy
      have hn := expectedCols_names _ cols r.vals r.natts ps hw.1 he
      rw [PgVerif.Props.C03.C03_entries ps (by rw [hn]; exact hnd)]
      simp [rowOf, rowView, he]

/-- a heap without live rows read with any schema gives no rows -/
theorem readRows_nolive (dec : Dec) (cols : List Col) (mcols : List Column) (pages : List (List RowV))
    (hwf : ∀ pg ∈ pages, ∀ r ∈ pg, r.WF cols) (hfit : pagesFit (pages.map fun pg => pg.map (formTuple cols)))
    (hlive : liveRows pages cols = []) : readRows dec (encRowPages cols pages) mcols true = .ok [] := by
  unfold encRowPages
  rw [readRows_pages dec _ mcols true (heap_tuples_WF cols pages hwf) hfit, heap_flatten, filter_map]
  have hf : ((fun t : Tuple => !true || liveBits t.infomask) ∘ formTuple cols) = fun r => liveBits (formTuple cols r).infomask := by
    funext r; simp [Function.comp]
  rw [hf]
  unfold liveRows at hlive
  rw [hlive]
  rfl

theorem encRowPages_length (cols : List Col) (pages : List (List RowV)) (hwf : ∀ pg ∈ pages, ∀ r ∈ pg, r.WF cols)
    (hfit : pagesFit (pages.map fun pg => pg.map (formTuple cols))) : (encRowPages cols pages).length = 8192 * pages.length := by
  unfold encRowPages
  rw [encTuplePages_length _ (heap_tuples_WF cols pages hwf) hfit, length_map]

/-! ### the columns handed to ReadRows -/

/-- attnums 1, 2, 3, … without gaps (every real relation: dropped columns keep their pg_attribute row) -/
def DenseFrom : Nat → List AttrRow → Prop
  | _, [] => True
  | i, a :: as => a.num = (i : Int) + 1 ∧ DenseFrom (i + 1) as

/-- the `Column` dumpTable builds for an attribute: `Align` is the attalign character ParsePGAttribute read -/
def toolColumn (a : AttrRow) : Column := ⟨a.name, a.typid, a.len, a.num, (alignByte a).toNat⟩

/-- **DecodeTuple gets the true alignment** (fixes/cluster/08): the attalign character of the catalog row, turned back
into bytes by `alignFromChar`, is the attribute's alignment — for every type, known to `typeAlign` or not, dropped or not -/
theorem toolColumn_align (a : AttrRow) (h : a.align = 1 ∨ a.align = 2 ∨ a.align = 4 ∨ a.align = 8) :
    colAlign (toolColumn a) = a.align := by
  have hc : alignFromChar (UInt8.ofNat (alignCh a.align)).toNat = a.align := by
    rcases h with h | h | h | h <;> rw [h] <;> decide
  unfold colAlign toolColumn alignByte
  simp only [hc]
  rw [if_neg (by omega)]

theorem colsMatch_attrs : ∀ (i : Nat) (as : List AttrRow), DenseFrom i as →
    (∀ a ∈ as, a.align = 1 ∨ a.align = 2 ∨ a.align = 4 ∨ a.align = 8) → ColsMatch i (as.map toolColumn) (as.map attrCol)
  | _, [], _, _ => trivial
  | i, a :: as, hd, ha => by
    refine ⟨⟨rfl, rfl, rfl, Or.inr hd.1, toolColumn_align a (ha a (by simp))⟩, colsMatch_attrs (i + 1) as hd.2 (fun x hx => ha x (by simp [hx]))⟩



/-! ### one table -/

theorem relOfFilenode_eq (cls : HeapOf ClassRow) (r : ClassRow) (hr : r ∈ cls.live) (hf : r.filenode ≠ 0)
    (hnd : ((cls.live.filter (·.filenode != 0)).map (·.filenode)).Nodup) : relOfFilenode cls r.filenode = some r := by
  unfold relOfFilenode
  cases hfind : cls.live.find? (fun x => decide (x.filenode = r.filenode)) with
  | none =>
    have := find?_eq_none.mp hfind r hr
    simp at this
  | some r' =>
    have hp : r'.filenode = r.filenode := by simpa using find?_some hfind
    have hm : r' ∈ cls.live := mem_of_find?_eq_some hfind
    have hinj := nodup_map_inj ClassRow.filenode _ hnd
    have h1 : r' ∈ cls.live.filter (·.filenode != 0) := mem_filter.mpr ⟨hm, by simpa [hp] using hf⟩
    have h2 : r ∈ cls.live.filter (·.filenode != 0) := mem_filter.mpr ⟨hr, by simpa using hf⟩
    rw [hinj r' h1 r h2 hp]

/-- what the tool needs of relation `r` to read its heap with the catalog's columns: attnums 1..n without gaps (every real
relation: a dropped column keeps its pg_attribute row) -/
structure RelReadable (d : DbContent) (r : ClassRow) : Prop where
  dense : DenseFrom 0 (userAttrs d.att r.oid)

/-- **a table without columns** (fixes/cluster/09): readTableRows gives one empty row per live row version -/
theorem readTableRows_nocols (dec : Dec) (pages : List (List RowV)) (hwf : ∀ pg ∈ pages, ∀ r ∈ pg, r.WF [])
    (hfit : pagesFit (pages.map fun pg => pg.map (formTuple []))) :
    readTableRows (readRows dec) (encRowPages [] pages) [] = .ok ((liveRows pages []).map (fun _ => ([] : DRow))) := by
  unfold readTableRows
  rw [if_neg (by simp)]
  unfold encRowPages
  rw [encTuplePages_eq]
  obtain ⟨es, hes, hmap⟩ := scan_tuples (blocksOf (pages.map fun pg => pg.map (formTuple []))) [] true
    (blocksOf_WF _ (heap_tuples_WF [] pages hwf) hfit) (by simp)
  rw [hes]
  simp only [ok_bind, pure_eq_ok]
  have hlen : es.length = (liveRows pages []).length := by
    have h1 := congrArg List.length hmap
    rw [length_map, length_map, fileTuples_blocksOf, heap_flatten, filter_map, length_map] at h1
    rw [h1]
    unfold liveRows
    congr 1
  congr 1
  rw [map_const', map_const', hlen]

/-- without recorded fast defaults a row reads as its own bytes give it -/
theorem fillMissing_nil (val : Spec.Val) : ∀ (attrs : List AttrRow) (n : Nat) (row : DRow), fillMissing val [] attrs n row = row
  | [], _, _ => by simp [fillMissing]
  | _ :: _, _, [] => by simp [fillMissing]
  | a :: as, n, kv :: row => by
    simp only [fillMissing, List.lookup_nil]
    rw [fillMissing_nil val as (n - 1) row]

/-- the rows the specification expects for relation `r` -/
def specRows (val : Spec.Val) (d : DbContent) (o : Options) (r : ClassRow) : List DRow :=
  if o.listOnly then []
  else match d.heaps.lookup r.filenode with
    | some pages => (liveRows pages ((userAttrs d.att r.oid).map attrCol)).map fun row =>
        fillMissing val d.missing (userAttrs d.att r.oid) row.natts (storedRow val d.detoast ((userAttrs d.att r.oid).map attrCol) row)
    | none => []

def specCols (d : DbContent) (r : ClassRow) : List ColumnInfo :=
  (userAttrs d.att r.oid).map fun a => ⟨a.name, (Spec.typeName a.typid).getD [], a.typid⟩

theorem expectedTable_eq (val : Spec.Val) (d : DbContent) (o : Options) (r : ClassRow) :
    expectedTable val d o r =
      { oid := r.oid, name := r.name, filenode := r.filenode, kind := [114], columns := specCols d r,
        rows := specRows val d o r, rowCount := (specRows val d o r).length } := rfl

theorem table_eq (r : ClassRow) (hk : r.kind = 114) (colsM : List ColumnInfo) (sc : List ColumnInfo) (R R' : List DRow)
    (hc : colsM.map normCol = sc) (hR : R = R') :
    normTable { oid := (infoOfRel r).oid, name := (infoOfRel r).name, filenode := r.filenode, kind := (infoOfRel r).kind,
                columns := colsM, rows := R, rowCount := R.length } =
      { oid := r.oid, name := r.name, filenode := r.filenode, kind := [114], columns := sc, rows := R', rowCount := R'.length } := by
  subst hR hc
  simp only [normTable, infoOfRel, hk]
  rfl

theorem modelCols_norm (as : List AttrRow) :
    (((as.map attrInfoOf).map fun a => (⟨a.name, Model.typeName a.typid, a.typid⟩ : ColumnInfo)).map normCol) =
      as.map fun a => ⟨a.name, (Spec.typeName a.typid).getD [], a.typid⟩ := by
  rw [map_map, map_map]
  apply map_congr_left
  intro a _
  exact normCol_attr a

theorem lookup_mem' {β} (m : List (Nat × β)) (k : Nat) (v : β) (h : m.lookup k = some v) : (k, v) ∈ m :=
  lookup_mem m k v h

/-- **One table, in full.**  For a live ordinary table `r` of a well-formed database whose columns the catalog pass
got right, dumpTable with the real row reader returns the specification's table: oid, name, filenode, kind, the
columns (name, type oid; type name where the specification has one) and — unless schema-only — exactly the live rows
of its heap file, decoded. -/
theorem dumpTable_spec (dec : Dec) (l : Layout) (d : DbContent) (o : Options) (r : ClassRow) (rd : FileReader)
    (hr : r ∈ d.cls.live) (hkind : r.kind = 114) (hfn : r.filenode ≠ 0) (hwf : d.WF l)
    (hreader : o.listOnly = false →
      rd r.filenode = (d.heaps.lookup r.filenode).map (encRowPages (colsOfFilenode d r.filenode)))
    (hok : ∀ pages, d.heaps.lookup r.filenode = some pages → o.listOnly = false → pages ≠ [] → RelReadable d r)
    (hinl : ∀ pages, d.heaps.lookup r.filenode = some pages → o.listOnly = false →
      ∀ pg ∈ pages, ∀ row ∈ pg, row.vals.all inlineDatum = true)
    (hmiss : d.missing = [])
    (t : TableDump)
    (h : dumpTable (readRows dec) r.filenode (infoOfRel r) ((userAttrs d.att r.oid).map attrInfoOf) (some rd) o = .ok t) :
    normTable t = expectedTable (varlenaVal dec) d o r := by
  have hfm : ∀ attrs n row, fillMissing (varlenaVal dec) d.missing attrs n row = row := by
    rw [hmiss]; exact fillMissing_nil _
  have halign : ∀ a ∈ userAttrs d.att r.oid, a.align = 1 ∨ a.align = 2 ∨ a.align = 4 ∨ a.align = 8 := by
    intro a ha
    have ha' : a ∈ d.att.live := (mem_filter.mp ((mem_sortAttrs a _).mp ha)).1
    obtain ⟨s, hs, rfl⟩ := live_mem_versions d.att a ha'
    exact (hwf.2.2.2.2.2.1 s hs).2.2.2.2.2.2.2.2.2
  have hinl' := hinl
  obtain ⟨_, _, hfnd, _, _, _, _, _, _, hheaps⟩ := hwf
  rw [expectedTable_eq]
  have hcols := modelCols_norm (userAttrs d.att r.oid)
  have hcf : colsOfFilenode d r.filenode = (userAttrs d.att r.oid).map attrCol := by
    unfold colsOfFilenode
    rw [relOfFilenode_eq d.cls r hr hfn hfnd]
  unfold dumpTable at h
  simp only at h
  cases hl : o.listOnly with
  | true =>
    simp only [hl, if_true] at h
    injection h with h; subst h
    exact table_eq r hkind _ _ [] _ hcols (by simp [specRows, hl])
  | false =>
    simp only [hl, Bool.false_eq_true, if_false] at h
    · have hrd := hreader hl
      cases hlk : d.heaps.lookup r.filenode with
      | none =>
        rw [hlk] at hrd
        simp only [Option.map_none] at hrd
        simp only [hrd] at h
        injection h with h; subst h
        exact table_eq r hkind _ _ [] _ hcols (by simp [specRows, hl, hlk])
      | some pages =>
        rw [hlk] at hrd
        simp only [Option.map_some] at hrd
        simp only [hrd] at h
        obtain ⟨_, hnames, hrows, hfit⟩ := hheaps (r.filenode, pages) (lookup_mem' _ _ _ hlk)
        simp only at hnames hrows hfit
        rw [hcf] at hnames hrows hfit h
        have hlen := encRowPages_length _ pages (fun pg hpg r' hr' => (hrows pg hpg r' hr').1) hfit
        by_cases hd0 : (encRowPages ((userAttrs d.att r.oid).map attrCol) pages).length = 0
        · rw [if_pos hd0] at h
          injection h with h; subst h
          have hp : pages = [] := by
            rw [hlen] at hd0
            cases pages with
            | nil => rfl
            | cons _ _ => simp at hd0
          exact table_eq r hkind _ _ [] _ hcols (by simp [specRows, hl, hlk, hp, liveRows])
        · rw [if_neg hd0] at h
          have hpne : pages ≠ [] := by
            intro hp; apply hd0; rw [hlen, hp]; rfl
          have hrd' := hok pages hlk hl hpne
          have hmc : ((userAttrs d.att r.oid).map attrInfoOf).map
              (fun a => (⟨a.name, a.typid, a.len, a.num, a.align⟩ : Column)) =
              (userAttrs d.att r.oid).map toolColumn := by
            rw [map_map]; rfl
          rw [hmc] at h
          cases hrr : readTableRows (readRows dec) (encRowPages ((userAttrs d.att r.oid).map attrCol) pages)
              ((userAttrs d.att r.oid).map toolColumn) with
          | error e => simp [hrr] at h
          | ok rows =>
            simp only [hrr, ok_bind, pure_eq_ok] at h
            injection h with h; subst h
            refine table_eq r hkind _ _ rows _ hcols ?_
            simp only [specRows, hl, hlk, Bool.false_eq_true, if_false, hfm]
            by_cases hempty : userAttrs d.att r.oid = []
            · rw [hempty] at hrr ⊢
              simp only [map_nil] at hrr ⊢
              rw [hempty] at hrows hfit
              rw [readTableRows_nocols dec pages (fun pg hpg r' hr' => (hrows pg hpg r' hr').1) hfit] at hrr
              injection hrr with hrr
              rw [← hrr]
              apply map_congr_left
              intro r' _
              exact (storedRow_nil _ _ r').symm
            · have hne : (userAttrs d.att r.oid).map toolColumn ≠ [] := by
                intro hm; exact hempty (map_eq_nil_iff.mp hm)
              unfold readTableRows at hrr
              rw [if_pos (by exact length_pos_iff.mpr hne)] at hrr
              rw [readRows_heap dec _ _ pages
                (colsMatch_attrs 0 _ hrd'.dense halign)
                hne
                (fun pg hpg r' hr' => (hrows pg hpg r' hr').1) hfit hnames rows hrr]
              apply map_congr_left
              intro r' hr'
              obtain ⟨pg, hpg, hrp⟩ := mem_flatten.mp (mem_filter.mp hr').1
              exact (storedRow_inline _ _ _ r' (hinl' pages hlk hl pg hpg r' hrp)).symm



/-! ### one database -/

theorem selectedRel_kind (o : Options) (r : ClassRow) (h : selectedRel o r = true) : r.kind = 114 ∧ r.filenode ≠ 0 := by
  unfold selectedRel at h
  simp only [Bool.and_eq_true, beq_iff_eq, bne_iff_ne] at h
  exact ⟨h.1.1.1, h.1.1.2⟩

theorem expectedDb_tables (val : Spec.Val) (o : Options) (db : DbRow) (d : DbContent) :
    (expectedDb val o db d).tables =
      (sortBy ClassRow.filenode (d.cls.live.filter (selectedRel o))).map (expectedTable val d o) := by
  unfold expectedDb
  simp only
  rw [sortTables_eq, sortBy_map (expectedTable val d o) ClassRow.filenode TableDump.filenode (fun _ => rfl)]

/-- the pg_class / pg_attribute side conditions of `DbContent.WF`, in the form the catalog lemmas take them -/
theorem dbWF_parts (l : Layout) (d : DbContent) (hwf : d.WF l) :
    (∀ s ∈ d.cls.versions, nameOK s.val.name ∧ s.val.oid < 2 ^ 32 ∧ s.val.filenode < 2 ^ 32 ∧ s.infomask < 65536) ∧
    AttHeapWF l d.att ∧ (∀ r ∈ d.cls.live, r.kind < 256) ∧ (∀ r ∈ d.cls.live, 0 < r.oid) := by
  obtain ⟨_, _, _, hcls, _, hatt, _, hfita, _, _⟩ := hwf
  refine ⟨fun s hs => ⟨(hcls s hs).1, (hcls s hs).2.1, (hcls s hs).2.2.2.1, (hcls s hs).2.2.2.2.2.1⟩, ⟨fun s hs => ?_, hfita⟩, ?_, ?_⟩
  · obtain ⟨h1, _, h3, h4, h5, h6, h7, h8, h9, h10⟩ := hatt s hs
    exact ⟨⟨h1, h3, h4, ⟨h5, h6⟩, ⟨h7, h8⟩, h10⟩, h9⟩
  · intro r hr
    obtain ⟨s, hs, rfl⟩ := live_mem_versions d.cls r hr
    exact (hcls s hs).2.2.2.2.1
  · intro r hr
    obtain ⟨s, hs, rfl⟩ := live_mem_versions d.cls r hr
    exact (hcls s hs).2.2.1

/-- **The catalog pass of DumpDatabaseFromFiles.**  On the encoded pg_class / pg_attribute of a well-formed database,
with the real row reader, the function is the loop of dumpTable over the ordinary tables passing the filters — each
once, in filenode order — each called with the relation's columns: the live pg_attribute rows of its oid with
attnum > 0, in attnum order.  For every file reader (or none), every iteration order of the table map. -/
theorem dumpDatabase_tables (dec : Dec) (hd : CatDec dec) (π : MapOrder TableInfo) (hπ : ∀ l, π l ~ l) (l : Layout)
    (d : DbContent) (o : Options) (reader : Option FileReader) (hwf : d.WF l) (hs : SchemaOK l d.att o.pgVersion)
    (hasc : GoCase.FilterStable o d.cls.live) :
    dumpDatabaseFromFiles (readRows dec) π (encHeapOf pgClassCols classVals d.cls)
        (encHeapOf (pgAttributeCols l) (attrVals l) d.att) reader o =
      collectM (fun r : ClassRow => do
          let t ← dumpTable (readRows dec) r.filenode (infoOfRel r)
            ((userAttrs d.att r.oid).map attrInfoOf) reader o
          pure (some t))
        (sortBy ClassRow.filenode (d.cls.live.filter (selectedRel o))) := by
  obtain ⟨hcls, haw, hkind, hoid⟩ := dbWF_parts l d hwf
  obtain ⟨_, _, hfnd, _, hattnd, _, hfitc, _, _, _⟩ := hwf
  obtain ⟨rows, hrows_ok, hrows⟩ := readRows_class dec hd d.cls hcls hfitc
  obtain ⟨tables, ht, hvals⟩ := parsePGClass_live (readRows dec) _ rows d.cls.live hrows_ok hrows hfnd
  have hk := parsePGClass_keysOK (readRows dec) _ tables ht
  obtain ⟨attrs, ha, hattrs⟩ := parsePGAttribute_enc dec hd l d.att o.pgVersion haw hs hattnd
  unfold dumpDatabaseFromFiles
  simp only [ht, ha, ok_bind]
  rw [dumpLoop_eq _ tables attrs reader o hk.2, kept_infos π hπ o tables hk d.cls.live hvals hfnd hkind hasc,
    ← PgVerif.Proofs.Rows.collectM_map infoOfRel]
  apply collectM_congr
  intro r hr
  have hmem := mem_filter.mp ((sortBy_perm _ _).subset hr)
  have hat : (mapGet attrs (infoOfRel r).oid).getD [] = (userAttrs d.att r.oid).map attrInfoOf :=
    hattrs r.oid (hoid r hmem.1)
  rw [hat]
  rfl

/-- **One database, in full.**  DumpDatabaseFromFiles with the real row reader on the encoded pg_class / pg_attribute
of a well-formed database and a file reader that serves the encoded heaps returns the specification's tables —
which, in which order, with which columns and rows. -/
theorem dumpDatabase_spec (dec : Dec) (hd : CatDec dec) (π : MapOrder TableInfo) (hπ : ∀ l, π l ~ l) (l : Layout)
    (d : DbContent) (o : Options) (db : DbRow) (rd : FileReader) (hwf : d.WF l) (hs : SchemaOK l d.att o.pgVersion)
    (hasc : GoCase.FilterStable o d.cls.live) (hA02 : A02Free d o) (hmiss : d.missing = [])
    (hreader : ∀ r ∈ d.cls.live, selectedRel o r = true → o.listOnly = false →
      rd r.filenode = (d.heaps.lookup r.filenode).map (encRowPages (colsOfFilenode d r.filenode)))
    (hok : ∀ r ∈ d.cls.live, selectedRel o r = true → ∀ pages, d.heaps.lookup r.filenode = some pages →
      o.listOnly = false → pages ≠ [] → RelReadable d r)
    (ts : List TableDump)
    (h : dumpDatabaseFromFiles (readRows dec) π (encHeapOf pgClassCols classVals d.cls)
          (encHeapOf (pgAttributeCols l) (attrVals l) d.att) (some rd) o = .ok ts) :
    ts.map normTable = (expectedDb (varlenaVal dec) o db d).tables := by
  rw [dumpDatabase_tables dec hd π hπ l d o (some rd) hwf hs hasc] at h
  rw [expectedDb_tables]
  refine collectM_some_spec _ normTable (expectedTable (varlenaVal dec) d o) _ ts h ?_
  intro r hr t ht'
  have hmem := mem_filter.mp ((sortBy_perm _ _).subset hr)
  obtain ⟨hk114, hfn0⟩ := selectedRel_kind o r hmem.2
  exact dumpTable_spec dec l d o r rd hmem.1 hk114 hfn0 hwf (hreader r hmem.1 hmem.2) (hok r hmem.1 hmem.2)
    (fun pages hlk hl => hA02 hl r hmem.1 hmem.2 pages hlk) hmiss t ht'

/-- the identity and the columns of a dumped table, type names the specification does not have blanked -/
def tableCols (t : TableDump) : (Nat × Bytes × Nat × Bytes) × List ColumnInfo := (tableKey t, t.columns.map normCol)

/-- **The columns of every dumped table** — no assumption on the heap files or the file reader. -/
theorem dumpDatabase_columns (dec : Dec) (hd : CatDec dec) (π : MapOrder TableInfo) (hπ : ∀ l, π l ~ l) (l : Layout)
    (d : DbContent) (o : Options) (db : DbRow) (val : Spec.Val) (reader : Option FileReader) (hwf : d.WF l)
    (hs : SchemaOK l d.att o.pgVersion) (hasc : GoCase.FilterStable o d.cls.live) (ts : List TableDump)
    (h : dumpDatabaseFromFiles (readRows dec) π (encHeapOf pgClassCols classVals d.cls)
          (encHeapOf (pgAttributeCols l) (attrVals l) d.att) reader o = .ok ts) :
    ts.map tableCols = (expectedDb val o db d).tables.map fun t => (tableKey t, t.columns) := by
  rw [dumpDatabase_tables dec hd π hπ l d o reader hwf hs hasc] at h
  rw [expectedDb_tables, map_map]
  refine collectM_some_spec _ tableCols _ _ ts h ?_
  intro r hr t ht'
  have hmem := mem_filter.mp ((sortBy_perm _ _).subset hr)
  obtain ⟨hk114, _⟩ := selectedRel_kind o r hmem.2
  obtain ⟨s1, s2, s3, s4, s5, _, _⟩ := dumpTable_shape _ _ _ _ reader o t ht'
  simp only [Function.comp, tableCols, tableKey, s1, s2, s3, s4, s5, expectedTable_eq, infoOfRel, hk114]
  rw [modelCols_norm]
  rfl

/-! ### the data directory -/

/-- the file tree a reader sees is the one the cluster is encoded into (`Spec.fsOf c` is one, see `treeOf_fsOf`) -/
structure TreeOf (c : Cluster) (fs : Bytes → Option Bytes) : Prop where
  global : fs pathGlobal1262 = some (encHeapOf (pgDatabaseCols c.pgVersion) (dbVals c.pgVersion) c.dbs)
  cls : ∀ oid d, c.content.lookup oid = some d → fs (basePath oid 1259) = some (encHeapOf pgClassCols classVals d.cls)
  att : ∀ oid d, c.content.lookup oid = some d →
    fs (basePath oid 1249) = some (encHeapOf (pgAttributeCols c.layout) (attrVals c.layout) d.att)
  heap : ∀ oid d, c.content.lookup oid = some d → ∀ fn, fn ≠ 1259 → fn ≠ 1249 → d.raws.lookup fn = none →
    fs (basePath oid fn) = (d.heaps.lookup fn).map (encRowPages (colsOfFilenode d fn))
  missing : ∀ oid, c.content.lookup oid = none → fs (basePath oid 1259) = none

/-- what the tool needs of a database (beyond `DbContent.WF`) to dump it under options `o` — conditions every real cluster
meets but `DbContent.WF` does not state: the version hint (if any) names the layout and the attstorage characters are legal
ones (`SchemaOK`), the ordinary tables it dumps do not share a file name with a catalog or a non-heap relation, and their
attnums have no gaps — and the table filter, if any, and the relation names are strings on which Go's `ToLower` is the Spec's
ASCII lower-casing (`GoCase.FilterStable`: every ASCII string, `été`, `日本`; not `ÉTÉ`) -/
structure DbDumpable (l : Layout) (d : DbContent) (o : Options) : Prop where
  schema : SchemaOK l d.att o.pgVersion
  ascii : GoCase.FilterStable o d.cls.live
  files : ∀ r ∈ d.cls.live, selectedRel o r = true → r.filenode ≠ 1259 ∧ r.filenode ≠ 1249 ∧ d.raws.lookup r.filenode = none
  readable : ∀ r ∈ d.cls.live, selectedRel o r = true → ∀ pages, d.heaps.lookup r.filenode = some pages →
    o.listOnly = false → pages ≠ [] → RelReadable d r

theorem encHeapOf_length {α} (cols : List Col) (vals : α → List (Option Datum)) (h : HeapOf α)
    (hwf : ∀ s ∈ h.versions, RowV.WF cols ⟨vals s.val, cols.length, s.infomask⟩)
    (hfit : pagesFit (h.map fun pg => pg.map fun s => formRow cols (vals s.val) s.infomask)) :
    (encHeapOf cols vals h).length = 8192 * h.length := by
  unfold encHeapOf
  rw [encTuplePages_length _ ?_ hfit, length_map]
  intro ts hts t ht
  obtain ⟨pg, hpg, rfl⟩ := mem_map.mp hts
  obtain ⟨s, hs, rfl⟩ := mem_map.mp ht
  exact formTuple_WF cols _ (hwf s (by unfold HeapOf.versions; exact mem_flatten.mpr ⟨pg, hpg, hs⟩))

theorem lookup_mem_pair {β} (m : List (Nat × β)) (k : Nat) (v : β) (h : m.lookup k = some v) : (k, v) ∈ m :=
  lookup_mem m k v h

/-- the loop body of DumpDataDir for one database: skipped, or the tables of DumpDatabaseFromFiles on its files -/
theorem dumpDb_cases (rr : RowReader) (π : MapOrder TableInfo) (fs : Bytes → Option Bytes) (o : Options) (db : DbRow)
    (htpl : isTemplateName db.name = db.isTemplate)
    (y : Option DatabaseDump) (h : dumpDb rr π fs o ⟨db.oid, db.name⟩ = .ok y) :
    (selectedDb o db = true ∧ ((fs (basePath db.oid 1259)).getD []).length ≠ 0 ∧
      ∃ ts, dumpDatabaseFromFiles rr π ((fs (basePath db.oid 1259)).getD []) ((fs (basePath db.oid 1249)).getD [])
        (some fun fn => fs (basePath db.oid fn)) o = .ok ts ∧ y = some ⟨db.oid, db.name, ts⟩) ∨
    ((selectedDb o db = false ∨ ((fs (basePath db.oid 1259)).getD []).length = 0) ∧ y = none) := by
  unfold dumpDb at h
  simp only at h
  unfold selectedDb
  rw [← htpl]
  unfold isTemplateName
  by_cases ht : isPrefixB (strBytes "template") db.name = true
  · rw [if_pos ht] at h
    injection h with h; subst h
    exact Or.inr ⟨Or.inl (by simp [ht]), rfl⟩
  · rw [if_neg ht] at h
    have ht' : isPrefixB (strBytes "template") db.name = false := by simpa using ht
    by_cases hf : (o.dbFilter != [] && db.name != o.dbFilter) = true
    · rw [if_pos hf] at h
      injection h with h; subst h
      have : (o.dbFilter.isEmpty || db.name == o.dbFilter) = false := by
        simp only [Bool.and_eq_true, bne_iff_ne, ne_eq] at hf
        cases hdf : o.dbFilter with
        | nil => exact absurd hdf hf.1
        | cons x xs =>
          have := hf.2
          rw [hdf] at this
          simp [this]
      exact Or.inr ⟨Or.inl (by simp [this]), rfl⟩
    · rw [if_neg hf] at h
      have hsel : (o.dbFilter.isEmpty || db.name == o.dbFilter) = true := by
        cases hdf : o.dbFilter with
        | nil => rfl
        | cons x xs =>
          rw [hdf] at hf
          simp only [Bool.and_eq_true, bne_iff_ne, ne_eq, not_and, Decidable.not_not] at hf
          have := hf (by simp)
          simp [this]
      by_cases hlen : ((fs (basePath db.oid 1259)).getD []).length = 0
      · rw [if_pos hlen] at h
        injection h with h; subst h
        exact Or.inr ⟨Or.inr hlen, rfl⟩
      · rw [if_neg hlen] at h
        cases hdf : dumpDatabaseFromFiles rr π ((fs (basePath db.oid 1259)).getD []) ((fs (basePath db.oid 1249)).getD [])
            (some fun fn => fs (basePath db.oid fn)) o with
        | error e => simp [hdf] at h
        | ok ts =>
          simp only [hdf, ok_bind, pure_eq_ok] at h
          injection h with h; subst h
          exact Or.inl ⟨by rw [ht', hsel]; rfl, hlen, ts, rfl, rfl⟩

theorem classFile_length (l : Layout) (d : DbContent) (hwf : d.WF l) :
    (encHeapOf pgClassCols classVals d.cls).length ≠ 0 := by
  obtain ⟨hne, _, _, hcls, _, _, hfitc, _, _, _⟩ := hwf
  have hlen := encHeapOf_length pgClassCols classVals d.cls (fun s hs =>
    catalog_WF pgClassCols (classVals s.val) s.infomask (classVals_OK s.val (by have := (hcls s hs).1.2.1; omega))
      (by decide) (hcls s hs).2.2.2.2.2.1) hfitc
  rw [hlen]
  cases hc : d.cls with
  | nil => exact absurd hc hne
  | cons _ _ => simp

/-- the loop body of DumpDataDir for one live database -/
theorem dumpDb_spec (dec : Dec) (hd : CatDec dec) (π : MapOrder TableInfo) (hπ : ∀ l, π l ~ l) (c : Cluster) (o : Options)
    (fs : Bytes → Option Bytes) (hwf : c.WF) (htree : TreeOf c fs) (db : DbRow)
    (htpl : isTemplateName db.name = db.isTemplate)
    (hdump : selectedDb o db = true → ∀ d, c.content.lookup db.oid = some d → DbDumpable c.layout d o ∧ A02Free d o)
    (hnm : c.NoFastDefaults)
    (y : Option DatabaseDump) (h : dumpDb (readRows dec) π fs o ⟨db.oid, db.name⟩ = .ok y) :
    y.map normDb = if selectedDb o db = true then (c.content.lookup db.oid).map (expectedDb (varlenaVal dec) o db) else none := by
  rcases dumpDb_cases _ π fs o db htpl y h with ⟨hsel, hlen, ts, hdf, rfl⟩ | ⟨hcase, rfl⟩
  · rw [if_pos hsel]
    cases hlk : c.content.lookup db.oid with
    | none => rw [htree.missing db.oid hlk] at hlen; simp at hlen
    | some d =>
      have hdwf : d.WF c.layout := hwf.2.2.2.2.2.2 (db.oid, d) (lookup_mem_pair _ _ _ hlk)
      obtain ⟨hdd, hA02⟩ := hdump hsel d hlk
      rw [htree.cls db.oid d hlk, htree.att db.oid d hlk] at hdf
      simp only [Option.getD_some] at hdf
      have := dumpDatabase_spec dec hd π hπ c.layout d o db (fun fn => fs (basePath db.oid fn)) hdwf hdd.schema hdd.ascii hA02
        (hnm (db.oid, d) (lookup_mem_pair _ _ _ hlk))
        (fun r hr hs _ => by
          obtain ⟨h1, h2, h3⟩ := hdd.files r hr hs
          exact htree.heap db.oid d hlk r.filenode h1 h2 h3)
        hdd.readable ts hdf
      simp only [Option.map_some, normDb, this]
      rfl
  · rcases hcase with hsel | hlen
    · simp [hsel]
    · cases hlk : c.content.lookup db.oid with
      | none => simp
      | some d =>
        have hdwf : d.WF c.layout := hwf.2.2.2.2.2.2 (db.oid, d) (lookup_mem_pair _ _ _ hlk)
        rw [htree.cls db.oid d hlk] at hlen
        exact absurd hlen (classFile_length c.layout d hdwf)

def dbKey (d : DatabaseDump) : Nat × Bytes := (d.oid, d.name)

/-- which database entries the loop body yields — no assumption beyond the catalog files being the encoded ones -/
theorem dumpDb_key (dec : Dec) (π : MapOrder TableInfo) (c : Cluster) (o : Options) (val : Spec.Val)
    (fs : Bytes → Option Bytes) (hwf : c.WF) (htree : TreeOf c fs) (db : DbRow)
    (htpl : isTemplateName db.name = db.isTemplate)
    (y : Option DatabaseDump) (h : dumpDb (readRows dec) π fs o ⟨db.oid, db.name⟩ = .ok y) :
    y.map dbKey = (if selectedDb o db = true then (c.content.lookup db.oid).map (expectedDb val o db) else none).map dbKey := by
  rcases dumpDb_cases _ π fs o db htpl y h with ⟨hsel, hlen, ts, _, rfl⟩ | ⟨hcase, rfl⟩
  · rw [if_pos hsel]
    cases hlk : c.content.lookup db.oid with
    | none => rw [htree.missing db.oid hlk] at hlen; simp at hlen
    | some d => rfl
  · rcases hcase with hsel | hlen
    · simp [hsel]
    · cases hlk : c.content.lookup db.oid with
      | none => simp
      | some d =>
        have hdwf : d.WF c.layout := hwf.2.2.2.2.2.2 (db.oid, d) (lookup_mem_pair _ _ _ hlk)
        rw [htree.cls db.oid d hlk] at hlen
        exact absurd hlen (classFile_length c.layout d hdwf)

theorem expectedDump_eq (val : Spec.Val) (c : Cluster) (o : Options) :
    expectedDump val c o = c.dbs.live.filterMap fun db =>
      if selectedDb o db = true then (c.content.lookup db.oid).map (expectedDb val o db) else none := by
  unfold expectedDump
  induction c.dbs.live with
  | nil => rfl
  | cons db rest ih =>
    rw [filter_cons, filterMap_cons]
    by_cases hs : selectedDb o db = true
    · rw [if_pos hs, if_pos hs, filterMap_cons, ih]
    · rw [if_neg hs, if_neg hs, ih]

/-- **The whole data directory.** -/
theorem dumpDataDir_spec (dec : Dec) (hd : CatDec dec) (π : MapOrder TableInfo) (hπ : ∀ l, π l ~ l) (c : Cluster) (o : Options)
    (fs : Bytes → Option Bytes) (hwf : c.WF) (htree : TreeOf c fs) (htpl : TemplatesByName c)
    (hdump : ∀ db ∈ c.dbs.live, selectedDb o db = true → ∀ d, c.content.lookup db.oid = some d →
      DbDumpable c.layout d o ∧ A02Free d o)
    (hnm : c.NoFastDefaults)
    (r : DumpResult) (h : dumpDataDir (readRows dec) π fs o = .ok (some r)) :
    r.map normDb = expectedDump (varlenaVal dec) c o := by
  unfold dumpDataDir at h
  rw [htree.global] at h
  simp only at h
  have hwf0 := hwf
  obtain ⟨_, _, _, hdbs, hfit, _, _⟩ := hwf0
  rw [parsePGDatabase_enc dec hd c.pgVersion c.dbs hdbs hfit] at h
  simp only [ok_bind] at h
  cases hc : collectM (dumpDb (readRows dec) π fs o) (c.dbs.live.map fun d => (⟨d.oid, d.name⟩ : DatabaseInfo)) with
  | error e => simp [hc] at h
  | ok r' =>
    simp only [hc, ok_bind, pure_eq_ok] at h
    injection h with h; injection h with h; subst h
    rw [← PgVerif.Proofs.Rows.collectM_map (fun d : DbRow => (⟨d.oid, d.name⟩ : DatabaseInfo))] at hc
    rw [expectedDump_eq]
    exact collectM_filterMap_spec _ normDb _ c.dbs.live r' hc
      (fun db hdb y hy => dumpDb_spec dec hd π hπ c o fs hwf htree db (htpl db hdb) (hdump db hdb) hnm y hy)



/-- **Which databases are dumped.** -/
theorem dumpDataDir_databases (dec : Dec) (hd : CatDec dec) (π : MapOrder TableInfo) (c : Cluster) (o : Options) (val : Spec.Val)
    (fs : Bytes → Option Bytes) (hwf : c.WF) (htree : TreeOf c fs) (htpl : TemplatesByName c)
    (r : DumpResult) (h : dumpDataDir (readRows dec) π fs o = .ok (some r)) :
    r.map dbKey = (expectedDump val c o).map dbKey := by
  unfold dumpDataDir at h
  rw [htree.global] at h
  simp only at h
  have hwf0 := hwf
  obtain ⟨_, _, _, hdbs, hfit, _, _⟩ := hwf0
  rw [parsePGDatabase_enc dec hd c.pgVersion c.dbs hdbs hfit] at h
  simp only [ok_bind] at h
  cases hc : collectM (dumpDb (readRows dec) π fs o) (c.dbs.live.map fun d => (⟨d.oid, d.name⟩ : DatabaseInfo)) with
  | error e => simp [hc] at h
  | ok r' =>
    simp only [hc, ok_bind, pure_eq_ok] at h
    injection h with h; injection h with h; subst h
    rw [← PgVerif.Proofs.Rows.collectM_map (fun d : DbRow => (⟨d.oid, d.name⟩ : DatabaseInfo))] at hc
    rw [expectedDump_eq]
    have := collectM_filterMap_spec _ dbKey
      (fun db => (if selectedDb o db = true then (c.content.lookup db.oid).map (expectedDb val o db) else none).map dbKey)
      c.dbs.live r' hc (fun db hdb y hy => dumpDb_key dec π c o val fs hwf htree db (htpl db hdb) y hy)
    rw [this, map_filterMap]



end PgVerif.Proofs.Cluster
