/-
  ReadTOASTTable on encoded TOAST relations and ReassembleTOAST on the chunks it returns (used by Props/C08).
-/
import PgVerif.Proofs.HeapFile
import PgVerif.Proofs.ToastPtr
import PgVerif.Proofs.Pglz
import PgVerif.Proofs.Lz4
namespace PgVerif.Proofs.Toast
open PgVerif PgVerif.Model PgVerif.Model.Toast PgVerif.Spec PgVerif.Spec.Toast PgVerif.Proofs
set_option linter.unusedVariables false

def toChunk (r : Row) : Chunk := ⟨r.id, (r.seq : Int), r.data⟩

/-! ### chunk_data varlena, one tuple -/

theorem readVarlena_enc (short : Bool) (d : Bytes) (h1 : 1 ≤ d.length) (h2 : d.length + 4 < 2 ^ 30)
    (hs : short = true → d.length ≤ 126) :
    ∃ n, readVarlena (encVarlena short d) = .ok (some d, n) := by
  cases short with
  | true =>
    have hd := hs rfl
    have hf : (UInt8.ofNat (2 * (d.length + 1) + 1)).toNat = 2 * (d.length + 1) + 1 := by
      rw [UInt8.toNat_ofNat']; exact Nat.mod_eq_of_lt (by omega)
    have h0 : idx (UInt8.ofNat (2 * (d.length + 1) + 1) :: d) 0 = .ok (UInt8.ofNat (2 * (d.length + 1) + 1)) := rfl
    have hm : (2 * (d.length + 1) + 1) &&& 1 = 1 := by
      have := land_mask (2 * (d.length + 1) + 1) 1
      rw [show (2 : Nat) ^ 1 - 1 = 1 from rfl] at this
      rw [this]; omega
    have hne : (UInt8.ofNat (2 * (d.length + 1) + 1) != 1) = true := by
      simp only [bne_iff_ne, ne_eq]
      intro e
      have := congrArg UInt8.toNat e
      rw [hf] at this
      simp at this
    simp only [encVarlena, if_true, readVarlena, List.length_cons]
    rw [if_neg (by omega)]
    simp only [h0, ok_bind, pure_eq_ok, hf, hm, hne, beq_self_eq_true, Bool.and_self, if_true,
      Nat.shiftRight_eq_div_pow]
    have e1 : (2 * (d.length + 1) + 1) / 2 ^ 1 = d.length + 1 := by omega
    rw [e1]
    have c : (decide (d.length + 1 < 1) || decide (d.length + 1 < d.length + 1)) = false := by
      have a : ¬ d.length + 1 < 1 := by omega
      simp [a]
    simp only [c, Bool.false_eq_true, if_false]
    rw [slice_ok _ _ _ (by simp) (by omega)]
    have ht : ((UInt8.ofNat (2 * (d.length + 1) + 1) :: d).take (d.length + 1)).drop 1 = d := by simp
    simp only [ok_bind, ht]
    exact ⟨_, rfl⟩
  | false =>
    have hlen : (le 4 (4 * (d.length + 4)) ++ d).length = d.length + 4 := by simp; omega
    have h0 : idx (le 4 (4 * (d.length + 4)) ++ d) 0 = .ok (UInt8.ofNat (4 * (d.length + 4) % 256)) := rfl
    have hf : (UInt8.ofNat (4 * (d.length + 4) % 256)).toNat = 4 * (d.length + 4) % 256 := by
      simp [UInt8.toNat_ofNat']
    have hm : (4 * (d.length + 4) % 256) &&& 1 = 0 := by
      have := land_mask (4 * (d.length + 4) % 256) 1
      rw [show (2 : Nat) ^ 1 - 1 = 1 from rfl] at this
      rw [this]; omega
    have hne : (UInt8.ofNat (4 * (d.length + 4) % 256) == 1) = false := by
      simp only [beq_eq_false_iff_ne, ne_eq]
      intro e
      have := congrArg UInt8.toNat e
      rw [hf] at this
      simp at this
      omega
    have hu : uN 4 (le 4 (4 * (d.length + 4)) ++ d) 0 = .ok (4 * (d.length + 4)) := by
      rw [uN_ok _ _ _ (by omega)]
      simp only [List.drop_zero]
      rw [rd_le _ _ _ (by omega)]
    simp only [encVarlena, Bool.false_eq_true, if_false, readVarlena, hlen]
    rw [if_neg (by omega)]
    simp only [h0, ok_bind, pure_eq_ok, hf, hm, hne]
    simp only [show ((0 : Nat) == 1) = false from rfl, Bool.false_and, Bool.false_eq_true, if_false]
    rw [if_neg (by omega)]
    simp only [hu, ok_bind, Nat.shiftRight_eq_div_pow]
    have e1 : 4 * (d.length + 4) / 2 ^ 2 = d.length + 4 := by omega
    rw [e1]
    have c : (decide (d.length + 4 < 4) || decide (d.length + 4 < d.length + 4)) = false := by
      have a : ¬ d.length + 4 < 4 := by omega
      simp [a]
    simp only [c, Bool.false_eq_true, if_false]
    rw [slice_ok _ _ _ (by omega) (by omega)]
    have ht : ((le 4 (4 * (d.length + 4)) ++ d).take (d.length + 4)).drop 4 = d := by
      rw [List.take_of_length_le (by omega), List.drop_left' (by simp)]
    simp only [ok_bind, ht]
    exact ⟨_, rfl⟩

theorem toSigned_small (v : Nat) (h : v < 2 ^ 31) : toSigned 32 v = (v : Int) := by
  unfold toSigned; rw [if_pos (by simpa using h)]

theorem chunkOf_row (r : Row) (h : r.WF) : chunkOf (rowData r) = .ok (some (toChunk r)) := by
  obtain ⟨h1, h2, h3, h4, h5⟩ := h
  obtain ⟨n, hv⟩ := readVarlena_enc r.short r.data h3 h4 h5
  have hvl : 1 ≤ (encVarlena r.short r.data).length := by
    unfold encVarlena; split <;> simp <;> omega
  have hlen : (rowData r).length = 8 + (encVarlena r.short r.data).length := by simp [rowData]; omega
  have u0 : uN 4 (rowData r) 0 = .ok r.id := by
    rw [uN_ok _ _ _ (by omega)]
    simp only [rowData, List.append_assoc, List.drop_zero]
    rw [rd_le _ _ _ (by omega)]
  have u4 : uN 4 (rowData r) 4 = .ok r.seq := by
    rw [uN_ok _ _ _ (by omega)]
    simp only [rowData, List.append_assoc]
    rw [List.drop_left' (by simp), rd_le _ _ _ (by omega)]
  have hal : align 8 4 = 8 := by decide
  have hsl : sliceFrom (rowData r) 8 = .ok (encVarlena r.short r.data) := by
    rw [sliceFrom_ok _ _ (by omega)]
    simp only [rowData]
    rw [List.drop_left' (by simp)]
  unfold chunkOf
  rw [if_neg (by omega)]
  simp only [u0, u4, ok_bind, hal, pure_eq_ok]
  rw [if_pos (by omega)]
  simp only [hsl, ok_bind, hv, Option.getD_some]
  rw [if_pos (by omega), toSigned_small _ h2]
  rfl

theorem collectM_rows (rows : List Row) (h : ∀ r ∈ rows, r.WF) :
    collectM chunkOf (rows.map rowData) = .ok (rows.map toChunk) := by
  induction rows with
  | nil => rfl
  | cons r rs ih =>
    simp only [List.map_cons, collectM, chunkOf_row r (h r (by simp)), ok_bind,
      ih (fun x hx => h x (by simp [hx])), pure_eq_ok]

/-! ### ReadTOASTTable on any well-formed heap file -/

/-- the data areas of the live tuples, in scan order -/
def liveDatas (bs : List Block) : List Bytes :=
  ((scanView bs).filter fun v => liveBits v.infomask).map (·.data)

theorem collectM_comp {α β γ} (f : β → M (Option γ)) (g : α → β) (xs : List α) :
    collectM (fun x => f (g x)) xs = collectM f (xs.map g) := (collectM_map f g xs).symm

theorem readTOASTTable_heap (bs : List Block) (tail : Bytes) (hb : ∀ b ∈ bs, b.WF) (ht : tail.length < 8192) :
    readTOASTTable (encHeap bs tail) = collectM chunkOf (liveDatas bs) := by
  have hs := scan_enc bs tail true hb ht
  unfold readTOASTTable
  cases hr : readTuples (encHeap bs tail) true with
  | error e => rw [hr] at hs; simp [Except.map] at hs
  | ok es =>
    rw [hr] at hs
    simp only [Except.map, Except.ok.injEq] at hs
    simp only [ok_bind]
    rw [collectM_comp chunkOf (fun e : TupleEntry => e.tuple.data) es]
    congr 1
    have : es.map (fun e => e.tuple.data) = (es.map viewOf).map (·.data) := by
      simp [List.map_map, Function.comp_def, viewOf]
    rw [this, hs]
    simp [liveDatas, scanViewVis, scanView]

/-! ### the pages of a layout -/

theorem range'_filterMap {α β} (f : α → β) (pre l : List α) :
    (List.range' pre.length l.length).filterMap (fun k => ((pre ++ l)[k]?).map f) = l.map f := by
  induction l generalizing pre with
  | nil => rfl
  | cons a l ih =>
    simp only [List.length_cons, List.range'_succ, List.filterMap_cons]
    have h0 : (pre ++ a :: l)[pre.length]? = some a := by simp
    rw [h0]
    have := ih (pre ++ [a])
    simp only [List.length_append, List.length_cons, List.length_nil, Nat.zero_add, List.append_assoc,
      List.cons_append, List.nil_append] at this
    simp [this]

theorem range_filterMap {α β} (f : α → β) (l : List α) :
    (List.range l.length).filterMap (fun k => (l[k]?).map f) = l.map f := by
  have := range'_filterMap f [] l
  simpa [List.range_eq_range'] using this

theorem toastPage_tuples (es : List Entry) : (toastPage es).normalTuples = es.map Entry.tuple := by
  unfold Page.normalTuples toastPage
  simp only [List.filterMap_map]
  have := range_filterMap (fun s : Bytes × Tuple => s.2) (es.map fun e => (([] : Bytes), e.tuple))
  simp only [List.length_map, List.map_map] at this
  rw [← List.map_map] at this
  simpa [Function.comp_def] using this

theorem entry_tuple_wf (e : Entry) (h : e.WF) : e.tuple.WF := by
  obtain ⟨_, h2, h3, _, _⟩ := h
  refine ⟨by simp [Entry.tuple, rowTuple], by simp [Entry.tuple, rowTuple], by simpa [Entry.tuple, rowTuple] using h2,
    by simp [Entry.tuple, rowTuple, Tuple.hoff], ?_⟩
  intro hn
  simp [Tuple.hasNull, Entry.tuple, rowTuple, h3] at hn

theorem slots_sum (es : List Entry) :
    ((es.map fun e => (([] : Bytes), e.tuple)).map slotLen).sum = (es.map fun e => e.len).sum := by
  simp [List.map_map, Function.comp_def, slotLen, Entry.len]

theorem toastPage_wf (es : List Entry) (hf : pageFits es) (he : ∀ e ∈ es, e.WF) : (toastPage es).WF := by
  unfold pageFits at hf
  refine ⟨by simp [toastPage], by simp [toastPage], by simp [toastPage], by simp [toastPage], by simp [toastPage], ?_, ?_, ?_⟩
  · intro l hl
    simp only [toastPage, List.mem_map, List.mem_range] at hl
    obtain ⟨k, hk, rfl⟩ := hl
    simp [LP.WF, toastPage, hk]
  · intro s hs
    simp only [toastPage, List.mem_map] at hs
    obtain ⟨e, hem, rfl⟩ := hs
    exact entry_tuple_wf e (he e hem)
  · have := slots_sum es
    simp only [toastPage, Page.upper, Page.lower, List.length_map, List.length_range, zeros_length, List.length_nil] at this ⊢
    rw [this]
    omega

theorem liveDatas_layout_from (lay : Layout) (off : Nat) :
    ((scanViewFrom off (lay.map fun pg => Block.page (toastPage pg))).filter fun v => liveBits v.infomask).map (·.data)
      = ((lay.flatten.filter (·.live)).map fun e => rowData e.row) := by
  induction lay generalizing off with
  | nil => rfl
  | cons pg lay ih =>
    simp only [List.map_cons, scanViewFrom, Block.tuples, toastPage_tuples, List.filter_append, List.map_append,
      List.flatten_cons, ih (off + 8192)]
    congr 1
    simp only [List.map_map, List.filter_map, Function.comp_def]
    rfl

theorem readTOASTTable_layout (lay : Layout) (h : lay.WF) :
    readTOASTTable (encToastRel lay) = .ok (lay.liveRows.map toChunk) := by
  unfold encToastRel
  rw [readTOASTTable_heap _ _ (by
    intro b hb
    simp only [List.mem_map] at hb
    obtain ⟨pg, hpg, rfl⟩ := hb
    exact toastPage_wf pg (h pg hpg).1 (h pg hpg).2) (by simp)]
  have := liveDatas_layout_from lay 0
  unfold liveDatas scanView
  rw [this]
  have e : (lay.flatten.filter (·.live)).map (fun e => rowData e.row) = lay.liveRows.map rowData := by
    simp [Layout.liveRows, List.map_map, Function.comp_def]
  rw [e]
  apply collectM_rows
  intro r hr
  simp only [Layout.liveRows, List.mem_map, List.mem_filter, List.mem_flatten] at hr
  obtain ⟨e, ⟨⟨pg, hpg, hem⟩, _⟩, rfl⟩ := hr
  exact ((h pg hpg).2 e hem).1

end PgVerif.Proofs.Toast
