/-
  ReadTOASTTable on encoded TOAST relations (used by Props/C08): the chunk_data varlena, PostgreSQL's TOAST visibility
  rule on encoded tuples / pages / files (toast.go:toastVisible, readTOASTTuples — fixes/toast/21), layouts.
-/
import PgVerif.Proofs.HeapFile
import PgVerif.Proofs.ToastPtr
import PgVerif.Proofs.Pglz
import PgVerif.Proofs.Lz4
namespace PgVerif.Proofs.Toast
open PgVerif PgVerif.Model PgVerif.Model.Toast PgVerif.Spec PgVerif.Spec.Toast PgVerif.Proofs
set_option linter.unusedVariables false

def toChunk (r : Row) : Chunk := ⟨r.id, (r.seq : Int), r.data⟩

/-! ### chunk_data varlena, one tuple -/

theorem readVarlena_enc (short : Bool) (d : Bytes) (h1 : 1 ≤ d.length) (h2 : d.length + 4 < 2 ^ 30)
    (hs : short = true → d.length ≤ 126) :
    ∃ n, readVarlena (encVarlena short d) = .ok (some d, n) := by
  cases short with
  | true =>
    have hd := hs rfl
    have hf : (UInt8.ofNat (2 * (d.length + 1) + 1)).toNat = 2 * (d.length + 1) + 1 := by
      rw [UInt8.toNat_ofNat']; exact Nat.mod_eq_of_lt (by omega)
    have h0 : idx (UInt8.ofNat (2 * (d.length + 1) + 1) :: d) 0 = .ok (UInt8.ofNat (2 * (d.length + 1) + 1)) := rfl
    have hm : (2 * (d.length + 1) + 1) &&& 1 = 1 := by
      have := land_mask (2 * (d.length + 1) + 1) 1
      rw [show (2 : Nat) ^ 1 - 1 = 1 from rfl] at this
      rw [this]; omega
    have hne : (UInt8.ofNat (2 * (d.length + 1) + 1) != 1) = true := by
      simp only [bne_iff_ne, ne_eq]
      intro e
      have := congrArg UInt8.toNat e
      rw [hf] at this
      simp at this
    simp only [encVarlena, if_true, readVarlena, List.length_cons]
    rw [if_neg (by omega)]
    simp only [h0, ok_bind, pure_eq_ok, hf, hm, hne, beq_self_eq_true, Bool.and_self, if_true,
      Nat.shiftRight_eq_div_pow]
    have e1 : (2 * (d.length + 1) + 1) / 2 ^ 1 = d.length + 1 := by omega
    rw [e1]
    have c : (decide (d.length + 1 < 1) || decide (d.length + 1 < d.length + 1)) = false := by
      have a : ¬ d.length + 1 < 1 := by omega
      simp [a]
    simp only [c, Bool.false_eq_true, if_false]
    rw [slice_ok _ _ _ (by simp) (by omega)]
    have ht : ((UInt8.ofNat (2 * (d.length + 1) + 1) :: d).take (d.length + 1)).drop 1 = d := by simp
    simp only [ok_bind, ht]
    exact ⟨_, rfl⟩
  | false =>
    have hlen : (le 4 (4 * (d.length + 4)) ++ d).length = d.length + 4 := by simp; omega
    have h0 : idx (le 4 (4 * (d.length + 4)) ++ d) 0 = .ok (UInt8.ofNat (4 * (d.length + 4) % 256)) := rfl
    have hf : (UInt8.ofNat (4 * (d.length + 4) % 256)).toNat = 4 * (d.length + 4) % 256 := by
      simp [UInt8.toNat_ofNat']
    have hm : (4 * (d.length + 4) % 256) &&& 1 = 0 := by
      have := land_mask (4 * (d.length + 4) % 256) 1
      rw [show (2 : Nat) ^ 1 - 1 = 1 from rfl] at this
      rw [this]; omega
    have hne : (UInt8.ofNat (4 * (d.length + 4) % 256) == 1) = false := by
      simp only [beq_eq_false_iff_ne, ne_eq]
      intro e
      have := congrArg UInt8.toNat e
      rw [hf] at this
      simp at this
      omega
    have hu : uN 4 (le 4 (4 * (d.length + 4)) ++ d) 0 = .ok (4 * (d.length + 4)) := by
      rw [uN_ok _ _ _ (by omega)]
      simp only [List.drop_zero]
      rw [rd_le _ _ _ (by omega)]
    simp only [encVarlena, Bool.false_eq_true, if_false, readVarlena, hlen]
    rw [if_neg (by omega)]
    simp only [h0, ok_bind, pure_eq_ok, hf, hm, hne]
    simp only [show ((0 : Nat) == 1) = false from rfl, Bool.false_and, Bool.false_eq_true, if_false]
    rw [if_neg (by omega)]
    simp only [hu, ok_bind, Nat.shiftRight_eq_div_pow]
    have e1 : 4 * (d.length + 4) / 2 ^ 2 = d.length + 4 := by omega
    rw [e1]
    have c : (decide (d.length + 4 < 4) || decide (d.length + 4 < d.length + 4)) = false := by
      have a : ¬ d.length + 4 < 4 := by omega
      simp [a]
    simp only [c, Bool.false_eq_true, if_false]
    have c2 : (4 * (d.length + 4) % 4 == 2) = false := by
      rw [show 4 * (d.length + 4) % 4 = 0 by omega]; rfl
    simp only [c2, Bool.false_and, Bool.false_eq_true, if_false]
    rw [slice_ok _ _ _ (by omega) (by omega)]
    have ht : ((le 4 (4 * (d.length + 4)) ++ d).take (d.length + 4)).drop 4 = d := by
      rw [List.take_of_length_le (by omega), List.drop_left' (by simp)]
    simp only [ok_bind, ht]
    exact ⟨_, rfl⟩

theorem toSigned_small (v : Nat) (h : v < 2 ^ 31) : toSigned 32 v = (v : Int) := by
  unfold toSigned; rw [if_pos (by simpa using h)]

theorem chunkOf_row (r : Row) (h : r.WF) : chunkOf (rowData r) = .ok (some (toChunk r)) := by
  obtain ⟨h1, h2, h3, h4, h5⟩ := h
  obtain ⟨n, hv⟩ := readVarlena_enc r.short r.data h3 h4 h5
  have hvl : 1 ≤ (encVarlena r.short r.data).length := by
    unfold encVarlena; split <;> simp <;> omega
  have hlen : (rowData r).length = 8 + (encVarlena r.short r.data).length := by simp [rowData]; omega
  have u0 : uN 4 (rowData r) 0 = .ok r.id := by
    rw [uN_ok _ _ _ (by omega)]
    simp only [rowData, List.append_assoc, List.drop_zero]
    rw [rd_le _ _ _ (by omega)]
  have u4 : uN 4 (rowData r) 4 = .ok r.seq := by
    rw [uN_ok _ _ _ (by omega)]
    simp only [rowData, List.append_assoc]
    rw [List.drop_left' (by simp), rd_le _ _ _ (by omega)]
  have hal : align 8 4 = 8 := by decide
  have hsl : sliceFrom (rowData r) 8 = .ok (encVarlena r.short r.data) := by
    rw [sliceFrom_ok _ _ (by omega)]
    simp only [rowData]
    rw [List.drop_left' (by simp)]
  unfold chunkOf
  rw [if_neg (by omega)]
  simp only [u0, u4, ok_bind, hal, pure_eq_ok]
  rw [if_pos (by omega)]
  simp only [hsl, ok_bind, hv, Option.getD_some]
  rw [if_pos (by omega), toSigned_small _ h2]
  rfl

theorem collectM_rows (rows : List Row) (h : ∀ r ∈ rows, r.WF) :
    collectM chunkOf (rows.map rowData) = .ok (rows.map toChunk) := by
  induction rows with
  | nil => rfl
  | cons r rs ih =>
    simp only [List.map_cons, collectM, chunkOf_row r (h r (by simp)), ok_bind,
      ih (fun x hx => h x (by simp [hx])), pure_eq_ok]

/-! ### the TOAST visibility rule on encoded tuples, pages and files (fixes/toast/21) -/

theorem mask9 (m : Nat) : (m &&& 0x0200 != 0) = m.testBit 9 := by
  have := land_pow_ne_zero m 9; simpa using this

/-- the Spec's rule on a spec tuple -/
def tvis (t : Tuple) : Bool := Spec.Toast.toastVisible t.infomask t.xmin

/-- toast.go:toastVisible reads t_infomask and t_xmin of an encoded tuple and decides as HeapTupleSatisfiesToast does -/
theorem toastVisible_enc (t : Tuple) (h : t.WF) (hx : t.xmin < 2 ^ 32) :
    Model.Toast.toastVisible (encTuple t) = .ok (tvis t) := by
  obtain ⟨hc, h2, h1, hh, hb⟩ := h
  have hlen : (encTuple t).length = 23 + t.mid.length + t.data.length := by
    rw [encTuple_length]; simp [Tuple.len, hc]
  have him : rd 2 ((encTuple t).drop 20) = t.infomask := by
    have := rdAt_append' 2 t.infomask 20 (le 4 t.xmin ++ le 4 t.xmax ++ le 4 t.cid ++ t.ctid ++ le 2 t.infomask2)
      ([UInt8.ofNat t.hoff] ++ t.mid ++ t.data) (by simp [hc]) (by simpa using h1)
    simpa [rdAt, encTuple, List.append_assoc] using this
  have hxm : rd 4 ((encTuple t).drop 0) = t.xmin := by
    simp only [List.drop_zero, encTuple, List.append_assoc]
    exact rd_le 4 t.xmin _ (by simpa using hx)
  unfold Model.Toast.toastVisible
  rw [uN_ok _ _ _ (by omega)]
  simp only [ok_bind, him, mask8, mask9]
  unfold tvis Spec.Toast.toastVisible
  cases h8 : t.infomask.testBit 8
  · cases h9 : t.infomask.testBit 9
    · simp only [Bool.false_eq_true, if_false]
      rw [uN_ok _ _ _ (by omega)]
      simp only [ok_bind, hxm, pure_eq_ok, Bool.false_or, Bool.not_false, Bool.true_and]
    · simp [pure_eq_ok]
  · simp [pure_eq_ok]

/-- the tuple (if any) a pointer contributes to the TOAST scan -/
def lpToast (p : Page) (l : LP) : Option Tuple := (lpTuple p l).filter tvis

theorem toastPageItem_enc (p : Page) (h : p.WF) (hx : ∀ s ∈ p.slots, s.2.xmin < 2 ^ 32) (l : LP) (hl : l ∈ p.lps) :
    toastPageItem (encPage p) p.upper (decItem (lpRaw p l)) = .ok ((lpToast p l).map mtuple) := by
  have hw := h.2.2.2.2.2.1 l hl
  cases l with
  | normal k =>
    have hk : k < p.slots.length := hw
    have hb := slot_bounds p h k hk
    have hlp := tuple_len_pos (p.slots.getD k default).2
    have hs := slot_slice p h k hk
    have hg : (p.slots.getD k default) = p.slots[k] := by simp [List.getD, hk]
    have hwf : (p.slots.getD k default).2.WF := by
      rw [hg]; exact h.2.2.2.2.2.2.1 _ (List.getElem_mem hk)
    have hxk : (p.slots.getD k default).2.xmin < 2 ^ 32 := by
      rw [hg]; exact hx _ (List.getElem_mem hk)
    have hres : (lpToast p (.normal k)).map mtuple =
        (if tvis (p.slots.getD k default).2 then some (mtuple (p.slots.getD k default).2) else none) := by
      simp only [lpToast, lpTuple, List.getElem?_eq_getElem hk, Option.map_some, hg, Option.filter]
      split <;> rfl
    rw [hres]
    simp only [lpRaw]
    generalize (p.slots.getD k default).2 = T at *
    generalize p.slotOff k = O at *
    rw [decItem_raw _ _ _ (by omega) (by omega) (by omega)]
    unfold toastPageItem
    have c1 : ((1 : Nat) != 1 || T.len == 0) = false := by
      have : T.len ≠ 0 := by omega
      simp [this]
    have c2 : (decide (O < p.upper) || decide (O + T.len > 8192)) = false := by
      have a : ¬ O < p.upper := by omega
      have b : ¬ O + T.len > 8192 := by omega
      simp [a, b]
    simp only [c1, c2, Bool.false_eq_true, if_false, hs, ok_bind, parseHeapTuple_enc T hwf, toastVisible_enc T hwf hxk,
      pure_eq_ok]
  | other off flags len =>
    obtain ⟨h1, h2, h3, h4⟩ := hw
    simp only [lpRaw]
    rw [decItem_raw _ _ _ h1 h3 h2]
    unfold toastPageItem
    have : (flags != 1) = true := by simp [h4]
    simp [this, lpToast, lpTuple]

/-- one page of readTOASTTuples on the encoding of a well-formed page: exactly the tuples behind NORMAL pointers that
PostgreSQL's TOAST snapshot sees, in pointer order -/
theorem toastPageTuples_enc (p : Page) (h : p.WF) (hx : ∀ s ∈ p.slots, s.2.xmin < 2 ^ 32) :
    toastPageTuples (encPage p) = .ok ((p.normalTuples.filter tvis).map mtuple) := by
  unfold toastPageTuples
  rw [parseHeader_enc p h]
  simp only [ok_bind, validHeader_enc p h, Bool.not_true, Bool.false_eq_true, if_false, parseItems_enc p h]
  rw [collectM_map, collectM_map_ok _ (fun l => (lpToast p l).map mtuple) _ (fun l hl => toastPageItem_enc p h hx l hl),
    normalTuples_eq]
  congr 1
  induction p.lps with
  | nil => rfl
  | cons l ls ih =>
    rw [List.filterMap_cons, List.filterMap_cons]
    have e : lpToast p l = (lpTuple p l).filter tvis := rfl
    rw [e]
    cases hl : lpTuple p l with
    | none => simpa [Option.filter] using ih
    | some t =>
      cases ht : tvis t <;> simp [Option.filter, ht, ih]

theorem toastPageTuples_zero : toastPageTuples (zeros 8192) = .ok [] := by
  unfold toastPageTuples parseHeader
  simp (disch := simp) only [uN_ok, drop_zeros, rd_zeros, ok_bind, pure_eq_ok]
  rfl

/-- every stored tuple of the block has a 32-bit t_xmin (what its 4 bytes can hold) -/
def xminOK : Block → Prop
  | .page p => ∀ s ∈ p.slots, s.2.xmin < 2 ^ 32
  | .zero => True

theorem toastBlock (b : Block) (h : b.WF) (hx : xminOK b) :
    toastPageTuples (encBlock b) = .ok ((b.tuples.filter tvis).map mtuple) := by
  cases b with
  | page p => exact toastPageTuples_enc p h hx
  | zero => exact toastPageTuples_zero

theorem readTOASTTuplesFrom_succ (data : Bytes) (n off : Nat) :
    readTOASTTuplesFrom data (n + 1) off =
      if off + 8192 ≤ data.length then do
        let pg ← slice data off (off + 8192)
        let ts ← toastPageTuples pg
        let rest ← readTOASTTuplesFrom data n (off + 8192)
        pure (ts ++ rest)
      else pure [] := rfl

/-- reading beyond a prefix = reading the rest -/
theorem readTOASTTuplesFrom_shift (pre b : Bytes) (n off : Nat) :
    readTOASTTuplesFrom (pre ++ b) n (pre.length + off) = readTOASTTuplesFrom b n off := by
  induction n generalizing off with
  | zero => rfl
  | succ n ih =>
    simp only [readTOASTTuplesFrom_succ]
    by_cases hc : off + 8192 ≤ b.length
    · rw [if_pos (by simp; omega), if_pos hc]
      rw [show pre.length + off + 8192 = pre.length + (off + 8192) by omega,
        slice_append_shift pre b off (off + 8192) hc (by omega), ih (off + 8192)]
    · rw [if_neg (by simp; omega), if_neg hc]

theorem readTOASTTuples_cons (pg rest : Bytes) (h : pg.length = 8192) :
    readTOASTTuples (pg ++ rest) =
      (do let ts ← toastPageTuples pg
          let r ← readTOASTTuples rest
          pure (ts ++ r)) := by
  unfold readTOASTTuples
  have hl : (pg ++ rest).length / 8192 + 1 = (rest.length / 8192 + 1) + 1 := by simp [h]
  rw [hl, readTOASTTuplesFrom_succ]
  rw [if_pos (by simp [h])]
  rw [slice_ok _ _ _ (by simp [h]) (by omega)]
  have : ((pg ++ rest).take (0 + 8192)).drop 0 = pg := by simp [← h]
  simp only [this, ok_bind]
  have hs := readTOASTTuplesFrom_shift pg rest (rest.length / 8192 + 1) 0
  simp only [h, Nat.add_zero] at hs
  rw [show 0 + 8192 = 8192 by rfl, hs]

theorem readTOASTTuples_short (tail : Bytes) (h : tail.length < 8192) : readTOASTTuples tail = .ok [] := by
  unfold readTOASTTuples
  have : tail.length / 8192 = 0 := by omega
  rw [this, readTOASTTuplesFrom_succ, if_neg (by omega)]
  rfl

/-- the tuples of a heap file PostgreSQL's TOAST snapshot sees, in scan order -/
def toastTuples (bs : List Block) : List Tuple := (bs.flatMap Block.tuples).filter tvis

/-- readTOASTTuples on ANY well-formed heap file: exactly the TOAST-visible tuples behind NORMAL pointers, in scan order -/
theorem readTOASTTuples_enc (bs : List Block) (tail : Bytes) (hb : ∀ b ∈ bs, b.WF) (hx : ∀ b ∈ bs, xminOK b)
    (ht : tail.length < 8192) :
    readTOASTTuples (encHeap bs tail) = .ok ((toastTuples bs).map mtuple) := by
  induction bs with
  | nil =>
    simp only [encHeap, List.flatMap_nil, List.nil_append]
    rw [readTOASTTuples_short tail ht]; rfl
  | cons b bs ih =>
    have hbw := hb b (by simp)
    have := ih (fun x hx' => hb x (by simp [hx'])) (fun x hx' => hx x (by simp [hx']))
    simp only [encHeap, List.flatMap_cons, List.append_assoc] at this ⊢
    rw [readTOASTTuples_cons _ _ (encBlock_length b hbw), toastBlock b hbw (hx b (by simp)), this]
    simp [toastTuples, pure_eq_ok]

/-! ### ReadTOASTTable on any well-formed heap file -/

/-- the data areas of the tuples PostgreSQL's TOAST snapshot sees, in scan order -/
def liveDatas (bs : List Block) : List Bytes := (toastTuples bs).map (·.data)

theorem collectM_comp {α β γ} (f : β → M (Option γ)) (g : α → β) (xs : List α) :
    collectM (fun x => f (g x)) xs = collectM f (xs.map g) := (collectM_map f g xs).symm

theorem readTOASTTable_heap (bs : List Block) (tail : Bytes) (hb : ∀ b ∈ bs, b.WF) (hx : ∀ b ∈ bs, xminOK b)
    (ht : tail.length < 8192) :
    readTOASTTable (encHeap bs tail) = collectM chunkOf (liveDatas bs) := by
  unfold readTOASTTable
  rw [readTOASTTuples_enc bs tail hb hx ht]
  simp only [ok_bind]
  rw [collectM_comp chunkOf (fun t : HeapTuple => t.data)]
  congr 1
  simp [liveDatas, List.map_map, Function.comp_def, mtuple]

/-! ### the pages of a layout -/

theorem range'_filterMap {α β} (f : α → β) (pre l : List α) :
    (List.range' pre.length l.length).filterMap (fun k => ((pre ++ l)[k]?).map f) = l.map f := by
  induction l generalizing pre with
  | nil => rfl
  | cons a l ih =>
    simp only [List.length_cons, List.range'_succ, List.filterMap_cons]
    have h0 : (pre ++ a :: l)[pre.length]? = some a := by simp
    rw [h0]
    have := ih (pre ++ [a])
    simp only [List.length_append, List.length_cons, List.length_nil, Nat.zero_add, List.append_assoc,
      List.cons_append, List.nil_append] at this
    simp [this]

theorem range_filterMap {α β} (f : α → β) (l : List α) :
    (List.range l.length).filterMap (fun k => (l[k]?).map f) = l.map f := by
  have := range'_filterMap f [] l
  simpa [List.range_eq_range'] using this

theorem toastPage_tuples (es : List Entry) : (toastPage es).normalTuples = es.map Entry.tuple := by
  unfold Page.normalTuples toastPage
  simp only [List.filterMap_map]
  have := range_filterMap (fun s : Bytes × Tuple => s.2) (es.map fun e => (([] : Bytes), e.tuple))
  simp only [List.length_map, List.map_map] at this
  rw [← List.map_map] at this
  simpa [Function.comp_def] using this

theorem entry_tuple_wf (e : Entry) (h : e.WF) : e.tuple.WF := by
  obtain ⟨_, h2, h3, _, _⟩ := h
  refine ⟨by simp [Entry.tuple, rowTuple], by simp [Entry.tuple, rowTuple], by simpa [Entry.tuple, rowTuple] using h2,
    by simp [Entry.tuple, rowTuple, Tuple.hoff], ?_⟩
  intro hn
  simp [Tuple.hasNull, Entry.tuple, rowTuple, h3] at hn

theorem slots_sum (es : List Entry) :
    ((es.map fun e => (([] : Bytes), e.tuple)).map slotLen).sum = (es.map fun e => e.len).sum := by
  simp [List.map_map, Function.comp_def, slotLen, Entry.len]

theorem toastPage_wf (es : List Entry) (hf : pageFits es) (he : ∀ e ∈ es, e.WF) : (toastPage es).WF := by
  unfold pageFits at hf
  refine ⟨by simp [toastPage], by simp [toastPage], by simp [toastPage], by simp [toastPage], by simp [toastPage], ?_, ?_, ?_,
    normalSlots_nodup_of_range _ es.length rfl⟩
  · intro l hl
    simp only [toastPage, List.mem_map, List.mem_range] at hl
    obtain ⟨k, hk, rfl⟩ := hl
    simp [LP.WF, toastPage, hk]
  · intro s hs
    simp only [toastPage, List.mem_map] at hs
    obtain ⟨e, hem, rfl⟩ := hs
    exact entry_tuple_wf e (he e hem)
  · have := slots_sum es
    simp only [toastPage, Page.upper, Page.lower, List.length_map, List.length_range, zeros_length, List.length_nil] at this ⊢
    rw [this]
    omega

theorem xminOK_toastPage (es : List Entry) (he : ∀ e ∈ es, e.WF) : xminOK (Block.page (toastPage es)) := by
  intro s hs
  simp only [toastPage, List.mem_map] at hs
  obtain ⟨e, hem, rfl⟩ := hs
  exact (he e hem).2.2.2.1

theorem tvis_entry (e : Entry) : tvis e.tuple = e.live := rfl

theorem liveDatas_layout (lay : Layout) :
    liveDatas (lay.map fun pg => Block.page (toastPage pg)) = ((lay.flatten.filter (·.live)).map fun e => rowData e.row) := by
  have ht : (lay.map fun pg => Block.page (toastPage pg)).flatMap Block.tuples = lay.flatten.map Entry.tuple := by
    induction lay with
    | nil => rfl
    | cons pg lay ih =>
      simp only [List.map_cons, List.flatMap_cons, Block.tuples, toastPage_tuples, List.flatten_cons, List.map_append, ih]
  simp only [liveDatas, toastTuples, ht, List.filter_map, List.map_map, Function.comp_def]
  rfl

theorem readTOASTTable_layout (lay : Layout) (h : lay.WF) :
    readTOASTTable (encToastRel lay) = .ok (lay.liveRows.map toChunk) := by
  unfold encToastRel
  rw [readTOASTTable_heap _ _ (by
    intro b hb
    simp only [List.mem_map] at hb
    obtain ⟨pg, hpg, rfl⟩ := hb
    exact toastPage_wf pg (h pg hpg).1 (h pg hpg).2) (by
    intro b hb
    simp only [List.mem_map] at hb
    obtain ⟨pg, hpg, rfl⟩ := hb
    exact xminOK_toastPage pg (h pg hpg).2) (by simp)]
  rw [liveDatas_layout lay]
  have e : (lay.flatten.filter (·.live)).map (fun e => rowData e.row) = lay.liveRows.map rowData := by
    simp [Layout.liveRows, List.map_map, Function.comp_def]
  rw [e]
  apply collectM_rows
  intro r hr
  simp only [Layout.liveRows, List.mem_map, List.mem_filter, List.mem_flatten] at hr
  obtain ⟨e, ⟨⟨pg, hpg, hem⟩, _⟩, rfl⟩ := hr
  exact ((h pg hpg).2 e hem).1

end PgVerif.Proofs.Toast
