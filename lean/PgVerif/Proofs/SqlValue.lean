/-
  C13_sql, value level: the text of formatSQLValue reads as the tokens `valueToks`, and the spec's decoder accepts exactly
  these tokens for the value.
-/
import PgVerif.Proofs.SqlCompose
import PgVerif.Proofs.ExportJson
namespace PgVerif.Proofs.SqlValue
open PgVerif PgVerif.Export PgVerif.Model.Export PgVerif.Proofs.SqlLex PgVerif.Proofs.SqlCompose
open PgVerif.Spec.SqlLex hiding asc
open PgVerif.Spec.SqlExport (one isWord isOp signedNum floatCell value values)

/-- what follows a value in the tool's text: a comma, a closing parenthesis or a closing bracket -/
def closeB : Bnd := fun o => ∀ c, o = some c → c = 44 ∨ c = 41 ∨ c = 93

theorem close_facts (c : UInt8) (h : c = 44 ∨ c = 41 ∨ c = 93) :
    isIdentCont c = false ∧ c ≠ 39 ∧ c ≠ 38 ∧ c ≠ 34 ∧ isSpace c = false ∧ c ≠ 46 ∧ c ≠ 45 := by
  rcases h with h | h | h <;> subst h <;> decide

theorem closeB_wordB : ∀ o, closeB o → wordB o := fun _ h c hc => by
  have := close_facts c (h c hc); exact ⟨this.1, this.2.1, this.2.2.1⟩
theorem closeB_strB : ∀ o, closeB o → strB o := fun _ h c hc => by
  have := close_facts c (h c hc); exact ⟨this.2.1, this.2.2.2.2.1, this.2.2.2.2.2.2⟩
theorem closeB_numB : ∀ o, closeB o → numB o := fun _ h c hc => by
  have := close_facts c (h c hc); exact ⟨this.1, this.2.2.2.2.2.1⟩

/-- tokens of a number text: `-` is an operator of its own -/
def numTextToks (text : Bytes) : List Tok :=
  match text with
  | c :: ds => if c = 45 then [.op [45], .num ds] else [.num text]
  | [] => [.num []]

/-- the contract on `%v` of finite floats, SQL side: the text is read as a number, optionally preceded by `-` -/
structure FloatSqlOK (F : FloatFmt) : Prop where
  r64 : ∀ b, isNonFiniteText (F.v64 b) = false → Reads numB (F.v64 b) (numTextToks (F.v64 b))
  r32 : ∀ b, isNonFiniteText (F.v32 b) = false → Reads numB (F.v32 b) (numTextToks (F.v32 b))

def floatToks (text : Bytes) : List Tok := if isNonFiniteText text then [.str text] else numTextToks text

mutual
def valueToks (F : FloatFmt) : GoVal → List Tok
  | .nil => [.word (asc "null")]
  | .bool b => [.word (if b then asc "true" else asc "false")]
  | .int i => intToks i
  | .f64 b => floatToks (F.v64 b)
  | .f32 b => floatToks (F.v32 b)
  | .str s => [.str s]
  | .arr [] => [.str (asc "{}")]
  | .arr (x :: xs) => .word (asc "array") :: .op [91] :: (elemsToks F (x :: xs) ++ [.op [93]])
  | .obj kvs => [.str (mapToJSON F kvs)]
def elemsToks (F : FloatFmt) : List GoVal → List Tok
  | [] => []
  | [x] => valueToks F x
  | x :: y :: rest => valueToks F x ++ .op [44] :: elemsToks F (y :: rest)
end

/-! ### reading -/

theorem Reads.cast' {B : Bnd} {t t' : Bytes} {k k' : List Tok} (h : Reads B t k) (ht : t = t') (hk : k = k') : Reads B t' k' := by
  subst ht; subst hk; exact h

theorem reads_kw (w : Bytes) (folded : Bytes) (hw : w ≠ []) (hstart : ∀ c, w.head? = some c → isIdentStart c = true)
    (hcont : ∀ d ∈ w, isIdentCont d = true) (hf : fold w = folded) : Reads wordB w [.word folded] := by
  cases w with
  | nil => exact absurd rfl hw
  | cons c t =>
    rw [← hf]
    exact reads_word c t (hstart c rfl) (fun d hd => hcont d (by simp [hd]))

theorem reads_floatText (F : FloatFmt) (text : Bytes) (h : isNonFiniteText text = false → Reads numB text (numTextToks text)) :
    Reads closeB (if isNonFiniteText text then quoteLiteral text else text) (floatToks text) := by
  unfold floatToks
  by_cases hs : isNonFiniteText text = true
  · simp only [hs, if_true]
    exact (reads_quoteLiteral text).weaken closeB_strB
  · have hs' : isNonFiniteText text = false := by simpa using hs
    simp only [hs', Bool.false_eq_true, if_false]
    exact (h hs').weaken closeB_numB

mutual
theorem reads_value (F : FloatFmt) (hS : FloatSqlOK F) : ∀ v : GoVal, Reads closeB (formatSQLValue F v) (valueToks F v)
  | .nil => by
    simp only [formatSQLValue, valueToks]
    exact (reads_kw (asc "NULL") (asc "null") (by decide) (by decide) (by decide) (by decide)).weaken closeB_wordB
  | .bool true => by
    simp only [formatSQLValue, valueToks, if_true]
    exact (reads_kw (asc "TRUE") (asc "true") (by decide) (by decide) (by decide) (by decide)).weaken closeB_wordB
  | .bool false => by
    simp only [formatSQLValue, valueToks, Bool.false_eq_true, if_false]
    exact (reads_kw (asc "FALSE") (asc "false") (by decide) (by decide) (by decide) (by decide)).weaken closeB_wordB
  | .int i => by
    simp only [formatSQLValue, valueToks]
    exact (reads_decInt i).weaken closeB_numB
  | .f64 b => by
    simp only [formatSQLValue, valueToks]
    exact reads_floatText F (F.v64 b) (hS.r64 b)
  | .f32 b => by
    simp only [formatSQLValue, valueToks]
    exact reads_floatText F (F.v32 b) (hS.r32 b)
  | .str s => by
    simp only [formatSQLValue, valueToks]
    exact (reads_quoteLiteral s).weaken closeB_strB
  | .obj kvs => by
    simp only [formatSQLValue, valueToks]
    exact (reads_quoteLiteral _).weaken closeB_strB
  | .arr [] => by
    simp only [formatSQLValue, valueToks]
    have h := (reads_quoteLiteral (asc "{}")).weaken closeB_strB
    exact Reads.cast' h (by decide) rfl
  | .arr (x :: xs') => by
    simp only [formatSQLValue, valueToks]
    generalize hxs : x :: xs' = xs
    have hkw := reads_kw (asc "ARRAY") (asc "array") (by decide) (by decide) (by decide) (by decide)
    have hopen := reads_self 91 (by decide) (by decide)
    have hclose := reads_self 93 (by decide) (by decide)
    have helems := reads_elems F hS xs
    -- ARRAY [ elems ]
    have h1 : Reads anyB (asc "ARRAY[") [.word (asc "array"), .op [91]] := by
      have := Reads.append_cons hkw hopen (by intro c hc; simp at hc; subst hc; decide)
      simpa [asc] using this
    have h2 : Reads anyB (sqlElems F xs ++ [93]) (elemsToks F xs ++ [.op [93]]) :=
      Reads.append_cons helems hclose (by intro c hc; simp at hc; subst hc; right; right; rfl)
    have h3 := Reads.append h1 h2 (fun _ _ => trivial)
    have h4 := h3.weaken (B2 := closeB) (fun _ _ => trivial)
    simpa [List.append_assoc] using h4
termination_by v => sizeOf v
decreasing_by all_goals (simp_wf; try omega)
theorem reads_elems (F : FloatFmt) (hS : FloatSqlOK F) : ∀ xs : List GoVal, Reads closeB (sqlElems F xs) (elemsToks F xs)
  | [] => by simp only [sqlElems, elemsToks]; exact Reads.nil _
  | [x] => by simp only [sqlElems, elemsToks]; exact reads_value F hS x
  | x :: y :: rest => by
    simp only [sqlElems, elemsToks]
    have hx := reads_value F hS x
    have hrest := reads_elems F hS (y :: rest)
    have hcomma := reads_self 44 (by decide) (by decide)
    have hsp := reads_space 32 (by decide)
    -- x , ␣ rest
    have h1 : Reads anyB [44, 32] [.op [44]] := by
      have := Reads.append_cons hcomma hsp trivial
      simpa using this
    have h2 : Reads closeB (44 :: 32 :: sqlElems F (y :: rest)) (.op [44] :: elemsToks F (y :: rest)) := by
      have := Reads.append h1 hrest (fun _ _ => trivial)
      simpa using this
    exact Reads.append_cons hx h2 (by intro c hc; simp at hc; subst hc; left; rfl)
termination_by xs => sizeOf xs
decreasing_by all_goals (simp_wf; try omega)
end


/-! ### decoding back -/

theorem one_cons (p : Tok → Bool) (t : Tok) (rest : List Tok) (h : p t = true) : one p (t :: rest) = some rest := by
  simp [one, h]

theorem isWord_asc (w : String) : isWord w (.word (Export.asc w)) = true := by
  simp [isWord, Spec.SqlLex.asc, Export.asc]

theorem signedNum_numTextToks (text : Bytes) (more : List Tok) : signedNum text (numTextToks text ++ more) = some more := by
  cases text with
  | nil => simp [signedNum, numTextToks, one]
  | cons c ds =>
    by_cases hc : c = 45
    · subst hc; simp [signedNum, numTextToks, one, isOp]
    · simp only [numTextToks, hc, if_false]
      unfold signedNum
      split
      · rename_i heq; simp at heq; exact absurd heq.1 hc
      · simp [one]

theorem intToks_eq (i : Int) : intToks i = numTextToks (decInt i) := by
  obtain ⟨h1, h2, _⟩ := ExportDec.dec_props i.natAbs
  unfold intToks decInt
  by_cases hi : i < 0
  · simp [hi, numTextToks]
  · simp only [hi, if_false]
    cases hd : dec i.natAbs with
    | nil => exact absurd hd h1
    | cons d ds =>
      have : d ≠ 45 := by
        intro h; have := h2 d (by rw [hd]; simp); subst h; simp [ExportDec.IsDig] at this
      simp [numTextToks, this]

theorem floatCell_floatToks (nf nan neg : Bool) (text : Bytes) (more : List Tok)
    (h1 : isNonFiniteText text = false → nf = false)
    (h2 : isNonFiniteText text = true → nf = true ∧ Spec.Json.nonFiniteSpelling nan neg text = true) :
    floatCell nf nan neg text (floatToks text ++ more) = some more := by
  unfold floatToks floatCell
  by_cases hs : isNonFiniteText text = true
  · simp [hs, (h2 hs).1, (h2 hs).2, one]
  · have hs' : isNonFiniteText text = false := by simpa using hs
    simp only [hs', h1 hs', Bool.false_eq_true, if_false]
    exact signedNum_numTextToks text more

mutual
theorem value_valueToks (F : FloatFmt) (hF : ExportJson.FloatOK F) : ∀ (v : GoVal) (more : List Tok),
    value F v (valueToks F v ++ more) = some more
  | .nil, more => by simp only [value, valueToks, List.cons_append, List.nil_append]; exact one_cons _ _ _ (isWord_asc "null")
  | .bool true, more => by
    simp only [value, valueToks, if_true, List.cons_append, List.nil_append]; exact one_cons _ _ _ (isWord_asc "true")
  | .bool false, more => by
    simp only [value, valueToks, Bool.false_eq_true, if_false, List.cons_append, List.nil_append]
    exact one_cons _ _ _ (isWord_asc "false")
  | .int i, more => by
    simp only [value, valueToks, intToks_eq]; exact signedNum_numTextToks _ more
  | .f64 b, more => by
    simp only [value, valueToks]
    exact floatCell_floatToks _ _ _ _ more (fun h => (hF.num64 b h).1) (hF.special64 b)
  | .f32 b, more => by
    simp only [value, valueToks]
    exact floatCell_floatToks _ _ _ _ more (fun h => (hF.num32 b h).1) (hF.special32 b)
  | .str s, more => by simp [value, valueToks, one]
  | .obj kvs, more => by
    simp only [value, valueToks, List.cons_append, List.nil_append]
    exact one_cons _ _ _ (ExportJson.textAgrees_mapToJSON F hF kvs)
  | .arr [], more => by simp [value, valueToks, one, Export.asc, Spec.SqlLex.asc]
  | .arr (x :: xs'), more => by
    have ih := values_elemsToks F hF (x :: xs') (by simp) (.op [93] :: more)
    simp only [value, valueToks, List.cons_append, List.append_assoc, List.nil_append]
    rw [one_cons _ _ _ (isWord_asc "array")]
    simp only [Option.bind_some, Option.bind_eq_bind]
    rw [one_cons _ _ _ (by simp [isOp])]
    simp only [Option.bind_some, Option.bind_eq_bind]
    rw [ih]
    simp [one, isOp]
termination_by v => sizeOf v
decreasing_by all_goals (simp_wf; try omega)
theorem values_elemsToks (F : FloatFmt) (hF : ExportJson.FloatOK F) : ∀ (xs : List GoVal), xs ≠ [] → ∀ (more : List Tok),
    values F xs (elemsToks F xs ++ more) = some more
  | [], h, _ => absurd rfl h
  | [x], _, more => by simp only [values, elemsToks]; exact value_valueToks F hF x more
  | x :: y :: rest, _, more => by
    have h1 := value_valueToks F hF x (.op [44] :: (elemsToks F (y :: rest) ++ more))
    have h2 := values_elemsToks F hF (y :: rest) (by simp) more
    simp only [values, elemsToks, List.append_assoc, List.cons_append]
    rw [h1]
    simp only [Option.bind_some, Option.bind_eq_bind]
    rw [one_cons _ _ _ (by simp [isOp])]
    simp only [Option.bind_some]
    exact h2
termination_by xs => sizeOf xs
decreasing_by all_goals (simp_wf; try omega)
end

end PgVerif.Proofs.SqlValue
