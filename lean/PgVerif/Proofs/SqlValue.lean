/-
  C13_sql, value level: the text of formatSQLValue (typID = the column's type, or the element type of its array type) reads
  as the tokens `valueToks`, and the spec's decoder accepts exactly these tokens for the value and that type.
-/
import PgVerif.Proofs.SqlArrayTypes
import PgVerif.Proofs.ExportJson
namespace PgVerif.Proofs.SqlValue
open PgVerif PgVerif.Export PgVerif.Model.Export PgVerif.Proofs.SqlLex PgVerif.Proofs.SqlCompose PgVerif.Proofs.SqlArrayTypes
open PgVerif.Spec.SqlLex hiding asc
open PgVerif.Spec.SqlExport (one isWord isOp signedNum floatCell value values jsonDoc elemType castOf isJsonType)

/-- what follows a value in the tool's text: a comma, a closing parenthesis or a closing bracket -/
def closeB : Bnd := fun o => ∀ c, o = some c → c = 44 ∨ c = 41 ∨ c = 93

theorem close_facts (c : UInt8) (h : c = 44 ∨ c = 41 ∨ c = 93) :
    isIdentCont c = false ∧ c ≠ 39 ∧ c ≠ 38 ∧ c ≠ 34 ∧ isSpace c = false ∧ c ≠ 46 ∧ c ≠ 45 := by
  rcases h with h | h | h <;> subst h <;> decide

theorem closeB_wordB : ∀ o, closeB o → wordB o := fun _ h c hc => by
  have := close_facts c (h c hc); exact ⟨this.1, this.2.1, this.2.2.1⟩
theorem closeB_strB : ∀ o, closeB o → strB o := fun _ h c hc => by
  have := close_facts c (h c hc); exact ⟨this.2.1, this.2.2.2.2.1, this.2.2.2.2.2.2⟩
theorem closeB_numB : ∀ o, closeB o → numB o := fun _ h c hc => by
  have := close_facts c (h c hc); exact ⟨this.1, this.2.2.2.2.2.1⟩

/-- tokens of a number text: `-` is an operator of its own -/
def numTextToks (text : Bytes) : List Tok :=
  match text with
  | c :: ds => if c = 45 then [.op [45], .num ds] else [.num text]
  | [] => [.num []]

/-- the contract on `%v` of finite floats, SQL side: the text is read as a number, optionally preceded by `-` -/
structure FloatSqlOK (F : FloatFmt) : Prop where
  r64 : ∀ b, isNonFiniteText (F.v64 b) = false → Reads numB (F.v64 b) (numTextToks (F.v64 b))
  r32 : ∀ b, isNonFiniteText (F.v32 b) = false → Reads numB (F.v32 b) (numTextToks (F.v32 b))
  /-- `%v` of a float never prints a NUL byte -/
  nul64 : ∀ b, (0 : UInt8) ∉ F.v64 b
  nul32 : ∀ b, (0 : UInt8) ∉ F.v32 b

def floatToks (text : Bytes) : List Tok := if isNonFiniteText text then [.str text] else numTextToks text

/-- the token of the JSON branch: one string constant holding the JSON text -/
def jsonTok (F : FloatFmt) (v : GoVal) : List Tok := [.str (writeJSONValue F v)]

mutual
/-- the tokens of `formatSQLValue F ty v` -/
def valueToks (F : FloatFmt) (ty : Int) : GoVal → List Tok
  | .nil => [.word (asc "null")]
  | .bool b => if isJsonOid ty then jsonTok F (.bool b) else [.word (if b then asc "true" else asc "false")]
  | .int i => if isJsonOid ty then jsonTok F (.int i) else intToks i
  | .f64 b => if isJsonOid ty then jsonTok F (.f64 b) else floatToks (F.v64 b)
  | .f32 b => if isJsonOid ty then jsonTok F (.f32 b) else floatToks (F.v32 b)
  | .str s => if isJsonOid ty then jsonTok F (.str s) else [.str (cstr s)]
  | .arr [] => if isJsonOid ty then jsonTok F (.arr []) else [.str (asc "{}")]
  | .arr (x :: xs) => if isJsonOid ty then jsonTok F (.arr (x :: xs)) else
      .word (asc "array") :: .op [91] :: (elemsToks F ((arrayElemType ty).getD 0) (x :: xs) ++ .op [93] :: castToks ty)
  | .obj kvs => jsonTok F (.obj kvs)
def elemsToks (F : FloatFmt) (ty : Int) : List GoVal → List Tok
  | [] => []
  | [x] => valueToks F ty x
  | x :: y :: rest => valueToks F ty x ++ .op [44] :: elemsToks F ty (y :: rest)
end

/-! ### the JSON text holds no NUL -/

theorem dec_noNul (n : Nat) : (0 : UInt8) ∉ dec n := by
  intro h
  have := (ExportDec.dec_props n).2.1 0 h
  simp [ExportDec.IsDig] at this

theorem decInt_noNul (i : Int) : (0 : UInt8) ∉ decInt i := by
  unfold decInt
  split
  · intro h
    simp only [List.mem_cons] at h
    rcases h with h | h
    · exact absurd h (by decide)
    · exact dec_noNul _ h
  · exact dec_noNul _

theorem hexLow_ne_zero (n : Nat) (h : n < 16) : hexLow n ≠ 0 := by
  have : ∀ k : Fin 16, hexLow k.val ≠ 0 := by decide
  exact this ⟨n, h⟩

theorem jsonString_noNul (s : Bytes) : (0 : UInt8) ∉ jsonString s := by
  unfold jsonString
  intro h
  simp only [List.mem_cons, List.mem_append, List.not_mem_nil, or_false] at h
  rcases h with h | h | h
  · exact absurd h (by decide)
  · rw [List.mem_flatMap] at h
    obtain ⟨c, _, hc⟩ := h
    unfold jsonByte at hc
    split at hc
    · rename_i h1
      simp only [List.mem_cons, List.not_mem_nil, or_false] at hc
      rcases hc with hc | hc
      · exact absurd hc (by decide)
      · rcases h1 with h1 | h1 <;> (rw [h1] at hc; exact absurd hc (by decide))
    · split at hc
      · rename_i h2
        have hlt : c.toNat < 32 := by simpa [UInt8.lt_iff_toNat_lt] using h2
        simp only [List.mem_cons, List.not_mem_nil, or_false] at hc
        rcases hc with hc | hc | hc | hc | hc | hc
        · exact absurd hc (by decide)
        · exact absurd hc (by decide)
        · exact absurd hc (by decide)
        · exact absurd hc (by decide)
        · exact hexLow_ne_zero _ (by omega) hc.symm
        · exact hexLow_ne_zero _ (by omega) hc.symm
      · rename_i h2
        simp only [List.mem_cons, List.not_mem_nil, or_false] at hc
        apply h2
        rw [← hc]; decide
  · exact absurd h (by decide)

theorem floatJson_noNul (text : Bytes) (h0 : (0 : UInt8) ∉ text) :
    (0 : UInt8) ∉ (if isNonFiniteText text then 34 :: (text ++ [34]) else text) := by
  split
  · intro h
    simp only [List.mem_cons, List.mem_append, List.not_mem_nil, or_false] at h
    rcases h with h | h | h
    · exact absurd h (by decide)
    · exact h0 h
    · exact absurd h (by decide)
  · exact h0

mutual
theorem json_noNul (F : FloatFmt) (hS : FloatSqlOK F) : ∀ v : GoVal, (0 : UInt8) ∉ writeJSONValue F v
  | .nil => by simp only [writeJSONValue]; decide
  | .bool true => by simp only [writeJSONValue, if_true]; decide
  | .bool false => by simp only [writeJSONValue, Bool.false_eq_true, if_false]; decide
  | .int i => by simp only [writeJSONValue]; exact decInt_noNul i
  | .f64 b => by simp only [writeJSONValue]; exact floatJson_noNul _ (hS.nul64 b)
  | .f32 b => by simp only [writeJSONValue]; exact floatJson_noNul _ (hS.nul32 b)
  | .str s => by simp only [writeJSONValue]; exact jsonString_noNul s
  | .arr xs => by
    have := jsonElems_noNul F hS xs
    simp only [writeJSONValue]
    intro h
    simp only [List.mem_cons, List.mem_append, List.not_mem_nil, or_false] at h
    rcases h with h | h | h
    · exact absurd h (by decide)
    · exact this h
    · exact absurd h (by decide)
  | .obj kvs => by
    have := jsonMembers_noNul F hS kvs
    simp only [writeJSONValue]
    intro h
    simp only [List.mem_cons, List.mem_append, List.not_mem_nil, or_false] at h
    rcases h with h | h | h
    · exact absurd h (by decide)
    · exact this h
    · exact absurd h (by decide)
theorem jsonElems_noNul (F : FloatFmt) (hS : FloatSqlOK F) : ∀ xs : List GoVal, (0 : UInt8) ∉ jsonElems F xs
  | [] => by simp [jsonElems]
  | [x] => by simp only [jsonElems]; exact json_noNul F hS x
  | x :: y :: ys => by
    have h1 := json_noNul F hS x
    have h2 := jsonElems_noNul F hS (y :: ys)
    simp only [jsonElems]
    intro h
    simp only [List.mem_cons, List.mem_append] at h
    rcases h with h | h | h
    · exact h1 h
    · exact absurd h (by decide)
    · exact h2 h
theorem jsonMembers_noNul (F : FloatFmt) (hS : FloatSqlOK F) : ∀ kvs : List (Bytes × GoVal), (0 : UInt8) ∉ jsonMembers F kvs
  | [] => by simp [jsonMembers]
  | [(k, v)] => by
    have h1 := json_noNul F hS v
    simp only [jsonMembers]
    intro h
    simp only [List.mem_cons, List.mem_append] at h
    rcases h with h | h | h
    · exact jsonString_noNul k h
    · exact absurd h (by decide)
    · exact h1 h
  | (k, v) :: kv2 :: rest => by
    have h1 := json_noNul F hS v
    have h2 := jsonMembers_noNul F hS (kv2 :: rest)
    simp only [jsonMembers]
    intro h
    simp only [List.mem_cons, List.mem_append] at h
    rcases h with (h | h | h) | h | h
    · exact jsonString_noNul k h
    · exact absurd h (by decide)
    · exact h1 h
    · exact absurd h (by decide)
    · exact h2 h
end

/-! ### reading -/

theorem Reads.cast' {B : Bnd} {t t' : Bytes} {k k' : List Tok} (h : Reads B t k) (ht : t = t') (hk : k = k') : Reads B t' k' := by
  subst ht; subst hk; exact h

theorem reads_kw (w : Bytes) (folded : Bytes) (hw : w ≠ []) (hstart : ∀ c, w.head? = some c → isIdentStart c = true)
    (hcont : ∀ d ∈ w, isIdentCont d = true) (hf : fold w = folded) : Reads wordB w [.word folded] := by
  cases w with
  | nil => exact absurd rfl hw
  | cons c t =>
    rw [← hf]
    exact reads_word c t (hstart c rfl) (fun d hd => hcont d (by simp [hd]))

theorem nonFinite_cstr (text : Bytes) (h : isNonFiniteText text = true) : cstr text = text := by
  simp only [isNonFiniteText, Bool.or_eq_true, beq_iff_eq] at h
  rcases h with (h | h) | h <;> subst h <;> decide

theorem reads_floatText (F : FloatFmt) (text : Bytes) (h : isNonFiniteText text = false → Reads numB text (numTextToks text)) :
    Reads closeB (if isNonFiniteText text then quoteLiteral text else text) (floatToks text) := by
  unfold floatToks
  by_cases hs : isNonFiniteText text = true
  · simp only [hs, if_true]
    have := (reads_quoteLiteral text).weaken closeB_strB
    rw [nonFinite_cstr text hs] at this
    exact this
  · have hs' : isNonFiniteText text = false := by simpa using hs
    simp only [hs', Bool.false_eq_true, if_false]
    exact (h hs').weaken closeB_numB

/-- the JSON branch: one string constant holding the JSON text (which holds no NUL) -/
theorem reads_jsonLiteral (F : FloatFmt) (hS : FloatSqlOK F) (v : GoVal) : Reads closeB (jsonLiteral F v) (jsonTok F v) := by
  have := (reads_quoteLiteral (writeJSONValue F v)).weaken closeB_strB
  rw [cstr_of_noNul _ (json_noNul F hS v)] at this
  exact this

theorem mapToJSON_eq (F : FloatFmt) (kvs : List (Bytes × GoVal)) : mapToJSON F kvs = writeJSONValue F (.obj kvs) := by
  simp [writeJSONValue, mapToJSON]

theorem reads_cast (st mt : Int) (hp : Pair st mt) : Reads closeB (arrayCast mt) (castToks mt) := by
  rcases hp.reads with h | ⟨h1, h2⟩
  · exact h.weaken closeB_wordB
  · rw [h1, h2]; exact Reads.nil _

mutual
theorem reads_value (F : FloatFmt) (hS : FloatSqlOK F) : ∀ (v : GoVal) (st mt : Int), Pair st mt →
    Reads closeB (formatSQLValue F mt v) (valueToks F mt v)
  | .nil, _, _, _ => by
    simp only [formatSQLValue, valueToks]
    exact (reads_kw (asc "NULL") (asc "null") (by decide) (by decide) (by decide) (by decide)).weaken closeB_wordB
  | .bool true, _, mt, _ => by
    simp only [formatSQLValue, valueToks, if_true]
    split
    · exact reads_jsonLiteral F hS _
    · exact (reads_kw (asc "TRUE") (asc "true") (by decide) (by decide) (by decide) (by decide)).weaken closeB_wordB
  | .bool false, _, mt, _ => by
    simp only [formatSQLValue, valueToks, Bool.false_eq_true, if_false]
    split
    · exact reads_jsonLiteral F hS _
    · exact (reads_kw (asc "FALSE") (asc "false") (by decide) (by decide) (by decide) (by decide)).weaken closeB_wordB
  | .int i, _, mt, _ => by
    simp only [formatSQLValue, valueToks]
    split
    · exact reads_jsonLiteral F hS _
    · exact (reads_decInt i).weaken closeB_numB
  | .f64 b, _, mt, _ => by
    simp only [formatSQLValue, valueToks]
    split
    · exact reads_jsonLiteral F hS _
    · exact reads_floatText F (F.v64 b) (hS.r64 b)
  | .f32 b, _, mt, _ => by
    simp only [formatSQLValue, valueToks]
    split
    · exact reads_jsonLiteral F hS _
    · exact reads_floatText F (F.v32 b) (hS.r32 b)
  | .str s, _, mt, _ => by
    simp only [formatSQLValue, valueToks]
    split
    · exact reads_jsonLiteral F hS _
    · exact (reads_quoteLiteral s).weaken closeB_strB
  | .obj kvs, _, mt, _ => by
    simp only [formatSQLValue, valueToks, mapToJSON_eq]
    split
    · exact reads_jsonLiteral F hS _
    · exact reads_jsonLiteral F hS _
  | .arr [], _, mt, _ => by
    simp only [formatSQLValue, valueToks]
    split
    · exact reads_jsonLiteral F hS _
    · have h := (reads_quoteLiteral (asc "{}")).weaken closeB_strB
      exact Reads.cast' h (by decide) (by decide)
  | .arr (x :: xs'), st, mt, hp => by
    simp only [formatSQLValue, valueToks]
    split
    · exact reads_jsonLiteral F hS _
    · generalize hxs : x :: xs' = xs
      have hkw := reads_kw (asc "ARRAY") (asc "array") (by decide) (by decide) (by decide) (by decide)
      have hopen := reads_self 91 (by decide) (by decide)
      have hclose := reads_self 93 (by decide) (by decide)
      have helems := reads_elems F hS xs _ _ hp.elem
      have hcast := reads_cast st mt hp
      -- ARRAY [ elems ] cast
      have h1 : Reads anyB (asc "ARRAY[") [.word (asc "array"), .op [91]] := by
        have := Reads.append_cons hkw hopen (by intro c hc; simp at hc; subst hc; decide)
        simpa [asc] using this
      have h2 : Reads anyB (sqlElems F ((arrayElemType mt).getD 0) xs ++ [93]) (elemsToks F ((arrayElemType mt).getD 0) xs ++ [.op [93]]) :=
        Reads.append_cons helems hclose (by intro c hc; simp at hc; subst hc; right; right; rfl)
      have h3 := Reads.append h1 h2 (fun _ _ => trivial)
      have h4 := Reads.append h3 hcast (fun _ _ => trivial)
      exact Reads.cast' h4 (by simp [List.append_assoc]) (by simp [List.append_assoc])
termination_by v => sizeOf v
decreasing_by all_goals (simp_wf; try omega)
theorem reads_elems (F : FloatFmt) (hS : FloatSqlOK F) : ∀ (xs : List GoVal) (st mt : Int), Pair st mt →
    Reads closeB (sqlElems F mt xs) (elemsToks F mt xs)
  | [], _, _, _ => by simp only [sqlElems, elemsToks]; exact Reads.nil _
  | [x], st, mt, hp => by simp only [sqlElems, elemsToks]; exact reads_value F hS x st mt hp
  | x :: y :: rest, st, mt, hp => by
    simp only [sqlElems, elemsToks]
    have hx := reads_value F hS x st mt hp
    have hrest := reads_elems F hS (y :: rest) st mt hp
    have hcomma := reads_self 44 (by decide) (by decide)
    have hsp := reads_space 32 (by decide)
    -- x , ␣ rest
    have h1 : Reads anyB [44, 32] [.op [44]] := by
      have := Reads.append_cons hcomma hsp trivial
      simpa using this
    have h2 : Reads closeB (44 :: 32 :: sqlElems F mt (y :: rest)) (.op [44] :: elemsToks F mt (y :: rest)) := by
      have := Reads.append h1 hrest (fun _ _ => trivial)
      simpa using this
    exact Reads.append_cons hx h2 (by intro c hc; simp at hc; subst hc; left; rfl)
termination_by xs => sizeOf xs
decreasing_by all_goals (simp_wf; try omega)
end


/-! ### decoding back -/

theorem one_cons (p : Tok → Bool) (t : Tok) (rest : List Tok) (h : p t = true) : one p (t :: rest) = some rest := by
  simp [one, h]

theorem isWord_asc (w : String) : isWord w (.word (Export.asc w)) = true := by
  simp [isWord, Spec.SqlLex.asc, Export.asc]

theorem signedNum_numTextToks (text : Bytes) (more : List Tok) : signedNum text (numTextToks text ++ more) = some more := by
  cases text with
  | nil => simp [signedNum, numTextToks, one]
  | cons c ds =>
    by_cases hc : c = 45
    · subst hc; simp [signedNum, numTextToks, one, isOp]
    · simp only [numTextToks, hc, if_false]
      unfold signedNum
      split
      · rename_i heq; simp at heq; exact absurd heq.1 hc
      · simp [one]

theorem intToks_eq (i : Int) : intToks i = numTextToks (decInt i) := by
  obtain ⟨h1, h2, _⟩ := ExportDec.dec_props i.natAbs
  unfold intToks decInt
  by_cases hi : i < 0
  · simp [hi, numTextToks]
  · simp only [hi, if_false]
    cases hd : dec i.natAbs with
    | nil => exact absurd hd h1
    | cons d ds =>
      have : d ≠ 45 := by
        intro h; have := h2 d (by rw [hd]; simp); subst h; simp [ExportDec.IsDig] at this
      simp [numTextToks, this]

theorem floatCell_floatToks (nf nan neg : Bool) (text : Bytes) (more : List Tok)
    (h1 : isNonFiniteText text = false → nf = false)
    (h2 : isNonFiniteText text = true → nf = true ∧ Spec.Json.nonFiniteSpelling nan neg text = true) :
    floatCell nf nan neg text (floatToks text ++ more) = some more := by
  unfold floatToks floatCell
  by_cases hs : isNonFiniteText text = true
  · simp [hs, (h2 hs).1, (h2 hs).2, one]
  · have hs' : isNonFiniteText text = false := by simpa using hs
    simp only [hs', h1 hs', Bool.false_eq_true, if_false]
    exact signedNum_numTextToks text more

theorem jsonDoc_jsonTok (F : FloatFmt) (hF : ExportJson.FloatOK F) (v : GoVal) (more : List Tok) :
    jsonDoc F v (jsonTok F v ++ more) = some more := by
  simp only [jsonDoc, jsonTok, List.cons_append, List.nil_append]
  apply one_cons
  simp only [Spec.Json.textAgrees, ExportJson.parse_value F hF v]
  exact ExportJson.agrees_jsonOf F hF v

theorem cstr_same (s : Bytes) : Spec.SqlExport.cstr s = cstr s := rfl

mutual
theorem value_valueToks (F : FloatFmt) (hF : ExportJson.FloatOK F) : ∀ (v : GoVal) (st mt : Int), Pair st mt → ∀ more : List Tok,
    value F st v (valueToks F mt v ++ more) = some more
  | .nil, _, _, _, more => by simp only [value, valueToks, List.cons_append, List.nil_append]; exact one_cons _ _ _ (isWord_asc "null")
  | .bool true, st, mt, hp, more => by
    simp only [value, valueToks, hp.json, if_true]
    split
    · exact jsonDoc_jsonTok F hF _ more
    · simp only [List.cons_append, List.nil_append]; exact one_cons _ _ _ (isWord_asc "true")
  | .bool false, st, mt, hp, more => by
    simp only [value, valueToks, hp.json, Bool.false_eq_true, if_false]
    split
    · exact jsonDoc_jsonTok F hF _ more
    · simp only [List.cons_append, List.nil_append]; exact one_cons _ _ _ (isWord_asc "false")
  | .int i, st, mt, hp, more => by
    simp only [value, valueToks, hp.json]
    split
    · exact jsonDoc_jsonTok F hF _ more
    · simp only [intToks_eq]; exact signedNum_numTextToks _ more
  | .f64 b, st, mt, hp, more => by
    simp only [value, valueToks, hp.json]
    split
    · exact jsonDoc_jsonTok F hF _ more
    · exact floatCell_floatToks _ _ _ _ more (fun h => (hF.num64 b h).1) (hF.special64 b)
  | .f32 b, st, mt, hp, more => by
    simp only [value, valueToks, hp.json]
    split
    · exact jsonDoc_jsonTok F hF _ more
    · exact floatCell_floatToks _ _ _ _ more (fun h => (hF.num32 b h).1) (hF.special32 b)
  | .str s, st, mt, hp, more => by
    simp only [value, valueToks, hp.json]
    split
    · exact jsonDoc_jsonTok F hF _ more
    · simp [one, cstr_same]
  | .obj kvs, st, mt, hp, more => by
    simp only [value, valueToks]
    exact jsonDoc_jsonTok F hF _ more
  | .arr [], st, mt, hp, more => by
    simp only [value, valueToks, hp.json]
    split
    · exact jsonDoc_jsonTok F hF _ more
    · simp [one, Export.asc, Spec.SqlLex.asc]
  | .arr (x :: xs'), st, mt, hp, more => by
    simp only [value, valueToks, hp.json]
    split
    · exact jsonDoc_jsonTok F hF _ more
    · have ih := values_elemsToks F hF (x :: xs') (by simp) _ _ hp.elem (.op [93] :: (castToks mt ++ more))
      simp only [List.cons_append, List.append_assoc, List.nil_append]
      rw [one_cons _ _ _ (isWord_asc "array")]
      simp only [Option.bind_some, Option.bind_eq_bind]
      rw [one_cons _ _ _ (by simp [isOp])]
      simp only [Option.bind_some, Option.bind_eq_bind]
      rw [ih]
      simp only [Option.bind_some]
      rw [one_cons _ _ _ (by simp [isOp])]
      simp only [Option.bind_some]
      exact hp.cast more
termination_by v => sizeOf v
decreasing_by all_goals (simp_wf; try omega)
theorem values_elemsToks (F : FloatFmt) (hF : ExportJson.FloatOK F) : ∀ (xs : List GoVal), xs ≠ [] → ∀ (st mt : Int), Pair st mt →
    ∀ (more : List Tok), values F st xs (elemsToks F mt xs ++ more) = some more
  | [], h, _, _, _, _ => absurd rfl h
  | [x], _, st, mt, hp, more => by simp only [values, elemsToks]; exact value_valueToks F hF x st mt hp more
  | x :: y :: rest, _, st, mt, hp, more => by
    have h1 := value_valueToks F hF x st mt hp (.op [44] :: (elemsToks F mt (y :: rest) ++ more))
    have h2 := values_elemsToks F hF (y :: rest) (by simp) st mt hp more
    simp only [values, elemsToks, List.append_assoc, List.cons_append]
    rw [h1]
    simp only [Option.bind_some, Option.bind_eq_bind]
    rw [one_cons _ _ _ (by simp [isOp])]
    simp only [Option.bind_some]
    exact h2
termination_by xs => sizeOf xs
decreasing_by all_goals (simp_wf; try omega)
end

end PgVerif.Proofs.SqlValue
