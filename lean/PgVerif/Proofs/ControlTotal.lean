/-
  Totality of the parsers of area `control` (helper lemmas for Props/C10/Control.lean).
-/
import PgVerif.Model.Control
import PgVerif.Model.SequenceOrig
import PgVerif.Model.Relmap
namespace PgVerif.Proofs
open PgVerif

/-- decidable equality of model results (kept as a named definition, made a local instance where a witness is
evaluated, so that no global instance can clash with another area's) -/
@[instance_reducible] def exceptDecEq {ε α : Type} [DecidableEq ε] [DecidableEq α] : DecidableEq (Except ε α)
  | .ok a, .ok b => if h : a = b then isTrue (by rw [h]) else isFalse (fun e => h (Except.ok.inj e))
  | .error a, .error b => if h : a = b then isTrue (by rw [h]) else isFalse (fun e => h (Except.error.inj e))
  | .ok _, .error _ => isFalse (fun e => nomatch e)
  | .error _, .ok _ => isFalse (fun e => nomatch e)

theorem formatWALFilename_total (lsn tli seg : Nat) (h0 : seg ≠ 0) (h1 : seg < 2 ^ 32) :
    ∃ s, Model.formatWALFilename lsn tli seg = .ok s := by
  unfold Model.formatWALFilename
  rw [if_neg h0]
  have : 0x100000000 / seg ≠ 0 := by
    have : seg ≤ 0x100000000 := by omega
    have := Nat.div_pos this (by omega : 0 < seg)
    omega
  simp only [this, if_false]
  exact ⟨_, rfl⟩

theorem parseControlFile_total (bs : Bytes) : ∃ r, Model.parseControlFile bs = .ok r := by
  unfold Model.parseControlFile
  by_cases h : bs.length < 296
  · simp [h]
  · simp (disch := omega) only [h, if_false, uN_ok, sliceTo_ok, ok_bind, pure_eq_ok]
    have hseg : ∀ v : Nat, v < 2 ^ 32 → ∃ s, Model.formatWALFilename (rd 8 (List.drop 40 bs)) (rd 4 (List.drop 48 bs))
        (if v = 0 then 16 * 1024 * 1024 else v) = .ok s := by
      intro v hv
      apply formatWALFilename_total
      · split <;> omega
      · split <;> omega
    obtain ⟨s, hs⟩ := hseg (rd 4 (List.drop 228 bs)) (by have := rd_lt 4 (List.drop 228 bs); omega)
    rw [hs]
    simp only [ok_bind]
    split
    · simp only [ok_bind]; exact ⟨_, rfl⟩
    · simp only [ok_bind]; exact ⟨_, rfl⟩

theorem parseSequenceTuple_total (d : Bytes) : ∃ r, Model.parseSequenceTuple d = .ok r := by
  unfold Model.parseSequenceTuple Model.i64At
  by_cases h8 : d.length < 8
  · simp [h8]
  · by_cases h57 : d.length < 57
    · simp (disch := omega) only [h8, h57, if_false, if_true, uN_ok, ok_bind, pure_eq_ok]
      by_cases h17 : d.length ≥ 17
      · simp (disch := omega) only [h17, if_true, uN_ok, ok_bind]; exact ⟨_, rfl⟩
      · simp only [h17, if_false, ok_bind]; exact ⟨_, rfl⟩
    · have h56 : d.length > 56 := by omega
      have h57' : d.length > 57 ∨ ¬ d.length > 57 := by omega
      simp (disch := omega) only [h8, h57, h56, if_false, if_true, uN_ok, ok_bind, pure_eq_ok]
      rcases h57' with h | h
      · simp (disch := omega) only [h, if_true, uN_ok, ok_bind]; exact ⟨_, rfl⟩
      · simp only [h, if_false, ok_bind]; exact ⟨_, rfl⟩

theorem and7fff_lt (x : Nat) : x &&& 0x7FFF < 32768 := by
  have := land_mask x 15
  simp only [show (2 ^ 15 - 1 : Nat) = 0x7FFF from rfl] at this
  rw [this]; omega

theorem parseSequenceFile_total (bs : Bytes) : ∃ r, Model.parseSequenceFile bs = .ok r := by
  unfold Model.parseSequenceFile
  by_cases h : bs.length < 8192
  · simp [h]
  · simp (disch := omega) only [h, if_false, uN_ok, ok_bind, pure_eq_ok]
    split
    · exact ⟨_, rfl⟩
    · rename_i hsp
      simp (disch := omega) only [uN_ok, ok_bind]
      split
      · exact ⟨_, rfl⟩
      · split
        · exact ⟨_, rfl⟩
        · split
          · exact ⟨_, rfl⟩
          · rename_i hit
            simp (disch := omega) only [slice_ok, ok_bind]
            split
            · exact ⟨_, rfl⟩
            · rename_i hl
              simp (disch := omega) only [idx_ok, ok_bind]
              split
              · split
                · exact ⟨_, rfl⟩
                · simp (disch := omega) only [sliceFrom_ok, ok_bind]
                  exact parseSequenceTuple_total _
              · split
                · exact ⟨_, rfl⟩
                · simp (disch := omega) only [sliceFrom_ok, ok_bind]
                  exact parseSequenceTuple_total _

theorem isSequenceFile_total (bs : Bytes) : ∃ r, Model.isSequenceFile bs = .ok r := by
  unfold Model.isSequenceFile
  by_cases h : bs.length < 8192
  · simp [h]
  · simp (disch := omega) only [h, if_false, uN_ok, ok_bind, pure_eq_ok]
    split
    · exact ⟨_, rfl⟩
    · simp (disch := omega) only [uN_ok, ok_bind]; exact ⟨_, rfl⟩

theorem relMapLoop_total (bs : Bytes) (n off : Nat) : ∃ r, Model.relMapLoop bs n off = .ok r := by
  induction n generalizing off with
  | zero => exact ⟨_, rfl⟩
  | succ n ih =>
    unfold Model.relMapLoop
    by_cases h : off + 8 > bs.length
    · simp [h]
    · obtain ⟨r, hr⟩ := ih (off + 8)
      simp (disch := omega) only [h, if_false, uN_ok, ok_bind, pure_eq_ok, hr]
      exact ⟨_, rfl⟩

/-- relMapIsV16 returns on every byte string and count, and answers "16" only when the 16 struct fits -/
theorem relMapIsV16_total (bs : Bytes) (n : Int) :
    ∃ b, Model.relMapIsV16 bs n = .ok b ∧ (b = true → 524 ≤ bs.length) := by
  unfold Model.relMapIsV16
  by_cases h : bs.length < 524
  · rw [if_pos h]; exact ⟨false, rfl, by simp⟩
  · rw [if_neg h]
    simp (disch := omega) only [slice_ok, uN_ok, ok_bind, pure_eq_ok]
    split
    · exact ⟨true, rfl, fun _ => by omega⟩
    · split
      · exact ⟨true, rfl, fun _ => by omega⟩
      · split
        · exact ⟨false, rfl, by simp⟩
        · exact ⟨_, rfl, fun _ => by omega⟩

theorem parseRelMapFile_total (bs : Bytes) : ∃ r, Model.parseRelMapFile bs = .ok r := by
  unfold Model.parseRelMapFile
  by_cases h : bs.length < 512
  · simp [h]
  · simp (disch := omega) only [h, if_false, uN_ok, ok_bind, pure_eq_ok]
    split
    · exact ⟨_, rfl⟩
    · obtain ⟨v, hv, hlen⟩ := relMapIsV16_total bs (toSigned 32 (rd 4 (List.drop 4 bs)))
      rw [hv]
      obtain ⟨r, hr⟩ := relMapLoop_total bs (toSigned 32 (rd 4 (List.drop 4 bs))).toNat 8
      cases v with
      | true =>
        have := hlen rfl
        simp only [ok_bind, if_true]
        split
        · exact ⟨_, rfl⟩
        · rw [hr]
          simp (disch := omega) only [uN_ok, ok_bind]
          exact ⟨_, rfl⟩
      | false =>
        simp only [ok_bind, Bool.false_eq_true, if_false]
        split
        · exact ⟨_, rfl⟩
        · rw [hr]
          simp only [ok_bind]
          exact ⟨_, rfl⟩

/-- a page with the sequence magic whose only tuple is 23 bytes long with t_hoff = 0 -/
def seqPanicWitness : Bytes :=
  zeros 12 ++ le 2 28 ++ le 2 8160 ++ le 2 8184 ++ le 2 8196 ++ le 4 0 ++ le 4 (8160 + 2 ^ 15 + 2 ^ 17 * 23) ++
    zeros (8184 - 28) ++ le 4 0x1717 ++ zeros 4

end PgVerif.Proofs
