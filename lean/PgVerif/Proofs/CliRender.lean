/-
  Helper lemmas for Props/C12Cli.lean: the text main.go prints for the JSON modes (`Model.CliRender.encodeJSON`:
  encoding/json with two-space indentation) is valid JSON that the neutral RFC 8259 parser `Spec.Json.parse`
  reads back to the value it was rendered from; decimal text determines the number.
-/
import PgVerif.Model.CliRender
import PgVerif.Spec.ExportJson
import PgVerif.Proofs.ExportJson
namespace PgVerif.Proofs.CliRender
open PgVerif PgVerif.Export PgVerif.Model.CliRender PgVerif.Spec.Json
open PgVerif.Proofs.ExportJson (skipWs_nonws isDigit_of_isDig spanDigits_all decInt_head digit_or_minus_facts digit_not)

/-! ### decimal text determines the number -/

def digitsVal (ds : Bytes) : Nat := ds.foldl (fun acc d => acc * 10 + (d.toNat - 48)) 0

theorem digitsVal_append (a : Bytes) (d : UInt8) : digitsVal (a ++ [d]) = digitsVal a * 10 + (d.toNat - 48) := by
  simp [digitsVal, List.foldl_append]

theorem ofNat48 (k : Nat) (h : k < 10) : (UInt8.ofNat (48 + k)).toNat - 48 = k := by
  have : (UInt8.ofNat (48 + k)).toNat = 48 + k := by
    simp only [UInt8.toNat_ofNat']; omega
  omega

theorem digitsVal_decAux (f n : Nat) (h : n < f) : digitsVal (decAux f n []) = n := by
  induction f generalizing n with
  | zero => omega
  | succ f ih =>
    unfold decAux
    by_cases hn : n < 10
    · rw [if_pos hn]; simp [digitsVal]; omega
    · rw [if_neg hn, ExportDec.decAux_acc, digitsVal_append, ih (n / 10) (by omega), ofNat48 (n % 10) (by omega)]
      omega

theorem digitsVal_dec (n : Nat) : digitsVal (dec n) = n := digitsVal_decAux (n + 1) n (by omega)

theorem dec_injective (a b : Nat) (h : dec a = dec b) : a = b := by
  have := congrArg digitsVal h
  rwa [digitsVal_dec, digitsVal_dec] at this

theorem dec_head_ne_minus (n : Nat) : ∀ c t, dec n = c :: t → c ≠ 45 := by
  intro c t h e
  have := (ExportDec.dec_props n).2.1 c (by rw [h]; simp)
  subst e
  simp [ExportDec.IsDig] at this

/-- Go's `%d`: different integers have different texts -/
theorem decInt_injective (a b : Int) (h : decInt a = decInt b) : a = b := by
  unfold decInt at h
  by_cases ha : a < 0 <;> by_cases hb : b < 0
  · simp only [ha, hb, if_true, List.cons.injEq, true_and] at h
    have := dec_injective _ _ h; omega
  · simp only [ha, hb, if_true, if_false] at h
    cases hd : dec b.natAbs with
    | nil => exact absurd hd (ExportDec.dec_props _).1
    | cons c t => rw [hd] at h; exact absurd (List.cons.inj h).1.symm (dec_head_ne_minus _ c t hd)
  · simp only [ha, hb, if_true, if_false] at h
    cases hd : dec a.natAbs with
    | nil => exact absurd hd (ExportDec.dec_props _).1
    | cons c t => rw [hd] at h; exact absurd (List.cons.inj h).1 (dec_head_ne_minus _ c t hd)
  · simp only [ha, hb, if_false] at h
    have := dec_injective _ _ h; omega

/-! ### numbers followed by a comma, a closing bracket or a newline -/

/-- what follows a value in the indented text: the end, `,`, `]`, `}` or a newline -/
def Follows (rest : Bytes) : Prop := ∀ c, rest.head? = some c → c = 44 ∨ c = 93 ∨ c = 125 ∨ c = 10

theorem follows_facts (c : UInt8) (h : c = 44 ∨ c = 93 ∨ c = 125 ∨ c = 10) :
    isDigit c = false ∧ c ≠ 46 ∧ c ≠ 101 ∧ c ≠ 69 := by
  rcases h with h | h | h | h <;> subst h <;> decide

theorem scanNum_digits' (ds rest : Bytes) (hne : ds ≠ []) (hd : ∀ c ∈ ds, ExportDec.IsDig c)
    (hz : 1 < ds.length → ds.head? ≠ some 48) (hr : Follows rest) (neg : Bool) :
    scanNum ((if neg then [45] else []) ++ ds ++ rest) = some ((if neg then [45] else []) ++ ds, rest) := by
  have hdig : ∀ c ∈ ds, isDigit c = true := fun c hc => isDigit_of_isDig c (hd c hc)
  have hrest : ∀ c, rest.head? = some c → isDigit c = false := fun c hc => (follows_facts c (hr c hc)).1
  have hspan := spanDigits_all ds rest hdig hrest
  have hl2 : ¬ (1 < ds.length ∧ ds.head? = some 48) := fun h => hz h.1 h.2
  have hspan0 : spanDigits ds = (ds, []) := by simpa using spanDigits_all ds [] hdig (by simp)
  cases neg with
  | true =>
    cases rest with
    | nil => simp [scanNum, hspan0, hne, hl2]
    | cons c t =>
      have := follows_facts c (hr c rfl)
      simp [scanNum, hspan, hne, hl2, this.2.1, this.2.2.1, this.2.2.2]
  | false =>
    cases ds with
    | nil => exact absurd rfl hne
    | cons d ds' =>
      have hd45 : d ≠ 45 := by
        intro h; have := hd d (by simp); subst h; simp [ExportDec.IsDig] at this
      rw [List.cons_append] at hspan
      have hl3 : 0 < ds'.length → ¬ d = 48 := by
        intro h e; exact hz (by simp only [List.length_cons]; omega) (by simp [e])
      cases rest with
      | nil => simp [scanNum, hd45, hspan0]; exact hl3
      | cons c t =>
        have := follows_facts c (hr c rfl)
        simp [scanNum, hd45, hspan, this.2.1, this.2.2.1, this.2.2.2]; exact hl3

theorem scanNum_decInt' (i : Int) (rest : Bytes) (hr : Follows rest) : scanNum (decInt i ++ rest) = some (decInt i, rest) := by
  obtain ⟨h1, h2, h3⟩ := ExportDec.dec_props i.natAbs
  unfold decInt
  by_cases hi : i < 0
  · simp only [hi, if_true]
    have := scanNum_digits' (dec i.natAbs) rest h1 h2 h3 hr true
    simpa using this
  · simp only [hi, if_false]
    have := scanNum_digits' (dec i.natAbs) rest h1 h2 h3 hr false
    simpa using this

theorem parseV_decInt (i : Int) (rest : Bytes) (f : Nat) (hr : Follows rest) :
    parseV (f + 1) (decInt i ++ rest) = some (.num (decInt i), rest) := by
  obtain ⟨c, t, hct, hc⟩ := decInt_head i
  have hscan := scanNum_decInt' i rest hr
  have hws := (digit_or_minus_facts c hc).1
  have hne := (digit_or_minus_facts c hc).2
  rw [hct] at hscan ⊢
  simp only [List.cons_append] at hscan ⊢
  simp only [parseV, skipWs_nonws c _ hws, hne.1, hne.2.1, hne.2.2.1, hne.2.2.2.1, hne.2.2.2.2.1,
    hne.2.2.2.2.2, if_false, hc, if_true]
  rw [hscan]; rfl

/-! ### strings: Go's escaping read back by the RFC 8259 scanner -/

theorem hexVal_hexCh : ∀ n : Fin 16, Spec.Json.hexVal (Txt.hexCh false n.val) = some n.val := by decide

theorem u00_scan (c : UInt8) (hlt : c.toNat < 128) (tail : Bytes) (r : Bytes × Bytes) (h : scanStr tail = some r) :
    scanStr ([92, 117, 48, 48, Txt.hexCh false (c.toNat / 16), Txt.hexCh false (c.toNat % 16)] ++ tail) = some (c :: r.1, r.2) := by
  have e1 := hexVal_hexCh ⟨c.toNat / 16, by omega⟩
  have e2 := hexVal_hexCh ⟨c.toNat % 16, by omega⟩
  simp only at e1 e2
  have e0 : Spec.Json.hexVal 48 = some 0 := by decide
  have hx : hex4 48 48 (Txt.hexCh false (c.toNat / 16)) (Txt.hexCh false (c.toNat % 16)) = some c.toNat := by
    simp only [hex4, e0, e1, e2]; congr 1; omega
  have henc : utf8Enc c.toNat = [c] := by
    have : c.toNat < 0x80 := by omega
    simp [utf8Enc, this]
  simp only [List.cons_append, List.nil_append, scanStr]
  simp only [show ((92 : UInt8) = 34) = False by decide, if_false, if_true, hx]
  have n1 : ¬ (0xD800 ≤ c.toNat ∧ c.toNat < 0xDC00) := by omega
  have n2 : ¬ (0xDC00 ≤ c.toNat ∧ c.toNat < 0xE000) := by omega
  simp only [n1, n2, if_false, h, Option.map_some, henc, List.cons_append, List.nil_append]

theorem esc2_scan (c e : UInt8) (he : escLit e = some c) (h117 : e ≠ 117) (tail : Bytes) (r : Bytes × Bytes)
    (h : scanStr tail = some r) : scanStr ([92, e] ++ tail) = some (c :: r.1, r.2) := by
  simp only [List.cons_append, List.nil_append]
  rw [scanStr.eq_def]
  simp only [show ((92 : UInt8) = 34) = False by decide, if_false, if_true]
  split
  · rename_i heq; simp at heq; exact absurd heq.1 h117
  · rename_i heq
    simp only [List.cons.injEq] at heq
    obtain ⟨h1, h2⟩ := heq
    subst h1; subst h2
    simp [he, h]
  · rename_i heq; simp at heq

theorem goAsciiByte_scan (c : UInt8) (hc : c < 0x80) (tail : Bytes) (r : Bytes × Bytes) (h : scanStr tail = some r) :
    scanStr (goAsciiByte c ++ tail) = some (c :: r.1, r.2) := by
  have hlt : c.toNat < 128 := by simpa [UInt8.lt_iff_toNat_lt] using hc
  unfold goAsciiByte
  by_cases h1 : c = 34 ∨ c = 92
  · rw [if_pos h1]
    rcases h1 with h1 | h1 <;> subst h1
    · exact esc2_scan 34 34 (by decide) (by decide) tail r h
    · exact esc2_scan 92 92 (by decide) (by decide) tail r h
  rw [if_neg h1]
  by_cases h2 : c = 8
  · rw [if_pos h2]; subst h2; exact esc2_scan 8 98 (by decide) (by decide) tail r h
  rw [if_neg h2]
  by_cases h3 : c = 12
  · rw [if_pos h3]; subst h3; exact esc2_scan 12 102 (by decide) (by decide) tail r h
  rw [if_neg h3]
  by_cases h4 : c = 10
  · rw [if_pos h4]; subst h4; exact esc2_scan 10 110 (by decide) (by decide) tail r h
  rw [if_neg h4]
  by_cases h5 : c = 13
  · rw [if_pos h5]; subst h5; exact esc2_scan 13 114 (by decide) (by decide) tail r h
  rw [if_neg h5]
  by_cases h6 : c = 9
  · rw [if_pos h6]; subst h6; exact esc2_scan 9 116 (by decide) (by decide) tail r h
  rw [if_neg h6]
  by_cases h7 : c < 32 ∨ c = 60 ∨ c = 62 ∨ c = 38
  · rw [if_pos h7]; exact u00_scan c hlt tail r h
  rw [if_neg h7]
  have h34 : c ≠ 34 := fun e => h1 (Or.inl e)
  have h92 : c ≠ 92 := fun e => h1 (Or.inr e)
  have h32 : ¬ c < 32 := fun e => h7 (Or.inl e)
  simp only [List.cons_append, List.nil_append]
  rw [scanStr.eq_def]
  simp only [h34, h92, h32, if_false, h, Option.map_some]

/-- bytes ≥ 0x80 pass through the scanner unchanged -/
theorem scanStr_high (p tail : Bytes) (r : Bytes × Bytes) (hp : ∀ c ∈ p, (0x80 : UInt8) ≤ c) (h : scanStr tail = some r) :
    scanStr (p ++ tail) = some (p ++ r.1, r.2) := by
  induction p with
  | nil => simpa using h
  | cons c p ih =>
    have hc : c.toNat ≥ 128 := by
      have := hp c (by simp); simpa [UInt8.le_iff_toNat_le] using this
    have h34 : c ≠ 34 := by intro e; subst e; simp at hc
    have h92 : c ≠ 92 := by intro e; subst e; simp at hc
    have h32 : ¬ c < 32 := by simp only [UInt8.lt_iff_toNat_lt]; simp; omega
    simp only [List.cons_append]
    rw [scanStr.eq_def]
    simp only [h34, h92, h32, if_false, ih (fun d hd => hp d (by simp [hd])), Option.map_some]

theorem isCont_high (b : UInt8) (h : isCont b = true) : (0x80 : UInt8) ≤ b := by
  simp only [isCont, Bool.and_eq_true, decide_eq_true_eq] at h; exact h.1

def loOf (b0 : UInt8) : UInt8 := if b0 = 0xE0 then 0xA0 else if b0 = 0xF0 then 0x90 else 0x80
def hiOf (b0 : UInt8) : UInt8 := if b0 = 0xED then 0x9F else if b0 = 0xF4 then 0x8F else 0xBF

theorem loOf_high (b0 b1 : UInt8) (h : loOf b0 ≤ b1) : (0x80 : UInt8) ≤ b1 := by
  unfold loOf at h
  simp only [UInt8.le_iff_toNat_le] at h ⊢
  split at h
  · have : (0xA0 : UInt8).toNat = 160 := rfl
    have e : (0x80 : UInt8).toNat = 128 := rfl
    omega
  · split at h
    · have : (0x90 : UInt8).toNat = 144 := rfl
      have e : (0x80 : UInt8).toNat = 128 := rfl
      omega
    · exact h

theorem utf8Width_cases (b0 b1 : UInt8) (rest : Bytes) :
    utf8Width (b0 :: b1 :: rest) =
      if 0xC2 ≤ b0 ∧ b0 ≤ 0xDF then (if isCont b1 then 2 else 0)
      else if 0xE0 ≤ b0 ∧ b0 ≤ 0xEF then
        (match rest with
         | b2 :: _ => if loOf b0 ≤ b1 ∧ b1 ≤ hiOf b0 ∧ isCont b2 then 3 else 0
         | [] => 0)
      else if 0xF0 ≤ b0 ∧ b0 ≤ 0xF4 then
        (match rest with
         | b2 :: b3 :: _ => if loOf b0 ≤ b1 ∧ b1 ≤ hiOf b0 ∧ isCont b2 ∧ isCont b3 then 4 else 0
         | _ => 0)
      else 0 := by
  simp only [utf8Width, loOf, hiOf]
  rfl

theorem high_of_ge (b0 : UInt8) (k : UInt8) (hk : (0x80 : UInt8) ≤ k) (h : k ≤ b0) : (0x80 : UInt8) ≤ b0 := by
  simp only [UInt8.le_iff_toNat_le] at *; omega

/-- a valid multi-byte encoding at the head: its bytes are all ≥ 0x80 and it fits in the string -/
theorem utf8Width_spec (s : Bytes) (h : utf8Width s ≠ 0) :
    (∀ c ∈ s.take (utf8Width s), (0x80 : UInt8) ≤ c) ∧ 1 ≤ utf8Width s ∧ utf8Width s ≤ s.length := by
  match s with
  | [] => exact absurd (by simp [utf8Width]) h
  | [_] => exact absurd (by simp [utf8Width]) h
  | b0 :: b1 :: rest =>
    rw [utf8Width_cases] at h ⊢
    by_cases c2 : 0xC2 ≤ b0 ∧ b0 ≤ 0xDF
    · rw [if_pos c2] at h ⊢
      by_cases hb1 : isCont b1 = true
      · rw [if_pos hb1]
        refine ⟨?_, by omega, by simp⟩
        intro c hc
        simp only [List.take_succ_cons, List.take_zero, List.mem_cons, List.not_mem_nil, or_false] at hc
        rcases hc with hc | hc
        · subst hc; exact high_of_ge _ 0xC2 (by decide) c2.1
        · subst hc; exact isCont_high _ hb1
      · rw [if_neg hb1] at h; exact absurd rfl h
    · rw [if_neg c2] at h ⊢
      by_cases c3 : 0xE0 ≤ b0 ∧ b0 ≤ 0xEF
      · rw [if_pos c3] at h ⊢
        cases rest with
        | nil => exact absurd rfl h
        | cons b2 rest' =>
          simp only at h ⊢
          by_cases hv : loOf b0 ≤ b1 ∧ b1 ≤ hiOf b0 ∧ isCont b2 = true
          · rw [if_pos hv]
            refine ⟨?_, by omega, by simp⟩
            intro c hc
            simp only [List.take_succ_cons, List.take_zero, List.mem_cons, List.not_mem_nil, or_false] at hc
            rcases hc with hc | hc | hc
            · subst hc; exact high_of_ge _ 0xE0 (by decide) c3.1
            · subst hc; exact loOf_high b0 _ hv.1
            · subst hc; exact isCont_high _ hv.2.2
          · rw [if_neg hv] at h; exact absurd rfl h
      · rw [if_neg c3] at h ⊢
        by_cases c4 : 0xF0 ≤ b0 ∧ b0 ≤ 0xF4
        · rw [if_pos c4] at h ⊢
          match rest with
          | [] => exact absurd rfl h
          | [_] => exact absurd rfl h
          | b2 :: b3 :: rest' =>
            simp only at h ⊢
            by_cases hv : loOf b0 ≤ b1 ∧ b1 ≤ hiOf b0 ∧ isCont b2 = true ∧ isCont b3 = true
            · rw [if_pos hv]
              refine ⟨?_, by omega, by simp⟩
              intro c hc
              simp only [List.take_succ_cons, List.take_zero, List.mem_cons, List.not_mem_nil, or_false] at hc
              rcases hc with hc | hc | hc | hc
              · subst hc; exact high_of_ge _ 0xF0 (by decide) c4.1
              · subst hc; exact loOf_high b0 _ hv.1
              · subst hc; exact isCont_high _ hv.2.2.1
              · subst hc; exact isCont_high _ hv.2.2.2
            · rw [if_neg hv] at h; exact absurd rfl h
        · rw [if_neg c4] at h; exact absurd rfl h

theorem lineSep_cases (s : Bytes) (d : UInt8) (h : lineSepDigit s = some d) :
    ∃ t', (s = 0xE2 :: 0x80 :: 0xA8 :: t' ∧ d = 56) ∨ (s = 0xE2 :: 0x80 :: 0xA9 :: t' ∧ d = 57) := by
  unfold lineSepDigit at h
  split at h
  · rename_i t'; exact ⟨t', Or.inl ⟨rfl, by simpa using h.symm⟩⟩
  · rename_i t'; exact ⟨t', Or.inr ⟨rfl, by simpa using h.symm⟩⟩
  · simp at h

theorem u2028_scan (tail : Bytes) (r : Bytes × Bytes) (h : scanStr tail = some r) :
    scanStr ([92, 117, 50, 48, 50, 56] ++ tail) = some ([0xE2, 0x80, 0xA8] ++ r.1, r.2) := by
  have hx : hex4 50 48 50 56 = some 0x2028 := by decide
  have henc : utf8Enc 0x2028 = [0xE2, 0x80, 0xA8] := by decide
  simp only [List.cons_append, List.nil_append, scanStr]
  simp only [show ((92 : UInt8) = 34) = False by decide, if_false, if_true, hx]
  simp only [show ¬ (0xD800 ≤ 0x2028 ∧ 0x2028 < 0xDC00) by omega, show ¬ (0xDC00 ≤ 0x2028 ∧ 0x2028 < 0xE000) by omega,
    if_false, h, Option.map_some, henc, List.cons_append, List.nil_append]

theorem u2029_scan (tail : Bytes) (r : Bytes × Bytes) (h : scanStr tail = some r) :
    scanStr ([92, 117, 50, 48, 50, 57] ++ tail) = some ([0xE2, 0x80, 0xA9] ++ r.1, r.2) := by
  have hx : hex4 50 48 50 57 = some 0x2029 := by decide
  have henc : utf8Enc 0x2029 = [0xE2, 0x80, 0xA9] := by decide
  simp only [List.cons_append, List.nil_append, scanStr]
  simp only [show ((92 : UInt8) = 34) = False by decide, if_false, if_true, hx]
  simp only [show ¬ (0xD800 ≤ 0x2029 ∧ 0x2029 < 0xDC00) by omega, show ¬ (0xDC00 ≤ 0x2029 ∧ 0x2029 < 0xE000) by omega,
    if_false, h, Option.map_some, henc, List.cons_append, List.nil_append]

theorem scanStr_quote (rest : Bytes) : scanStr (34 :: rest) = some ([], rest) := by
  rw [scanStr.eq_def]; simp

/-- the body of a Go JSON string of valid UTF-8, followed by the closing quote, scans back to the string -/
theorem goStrBody_scan : ∀ (f : Nat) (s rest : Bytes), s.length ≤ f → goStrClean f s = true →
    scanStr (goStrBody f s ++ 34 :: rest) = some (s, rest)
  | 0, s, rest, hl, _ => by
    have : s = [] := List.eq_nil_of_length_eq_zero (by omega)
    subst this
    simp only [goStrBody, List.nil_append]; exact scanStr_quote rest
  | f + 1, [], rest, _, _ => by
    simp only [goStrBody, List.nil_append]; exact scanStr_quote rest
  | f + 1, b :: t, rest, hl, hc => by
    have hl' : t.length ≤ f := by simp only [List.length_cons] at hl; omega
    by_cases hb : b < 0x80
    · simp only [goStrClean, hb, if_true] at hc
      simp only [goStrBody, hb, if_true, List.append_assoc]
      exact goAsciiByte_scan b hb _ (t, rest) (goStrBody_scan f t rest hl' hc)
    · simp only [goStrClean, hb, if_false] at hc
      simp only [goStrBody, hb, if_false]
      by_cases hw : utf8Width (b :: t) = 0
      · simp [hw] at hc
      · simp only [hw, if_false] at hc ⊢
        obtain ⟨hhigh, hw1, hwl⟩ := utf8Width_spec (b :: t) hw
        cases hls : lineSepDigit (b :: t) with
        | some d =>
          obtain ⟨t', hcase⟩ := lineSep_cases (b :: t) d hls
          rcases hcase with ⟨hs, hd⟩ | ⟨hs, hd⟩
          · have hbt : b = 0xE2 ∧ t = 0x80 :: 0xA8 :: t' := by simpa using hs
            obtain ⟨hb0, ht⟩ := hbt
            subst hb0; subst ht; subst hd
            have hwv : utf8Width (0xE2 :: 0x80 :: 0xA8 :: t') = 3 := by
              rw [utf8Width_cases, if_neg (by decide), if_pos (by decide)]; exact if_pos (by decide)
            rw [hwv] at hc
            have ih := goStrBody_scan f t' rest (by simp only [List.length_cons] at hl'; omega) (by simpa using hc)
            simp only [List.drop_succ_cons, List.drop_zero, List.append_assoc]
            exact u2028_scan _ (t', rest) ih
          · have hbt : b = 0xE2 ∧ t = 0x80 :: 0xA9 :: t' := by simpa using hs
            obtain ⟨hb0, ht⟩ := hbt
            subst hb0; subst ht; subst hd
            have hwv : utf8Width (0xE2 :: 0x80 :: 0xA9 :: t') = 3 := by
              rw [utf8Width_cases, if_neg (by decide), if_pos (by decide)]; exact if_pos (by decide)
            rw [hwv] at hc
            have ih := goStrBody_scan f t' rest (by simp only [List.length_cons] at hl'; omega) (by simpa using hc)
            simp only [List.drop_succ_cons, List.drop_zero, List.append_assoc]
            exact u2029_scan _ (t', rest) ih
        | none =>
          simp only []
          have hdl : (t.drop (utf8Width (b :: t) - 1)).length ≤ f := by simp only [List.length_drop]; omega
          have ih := goStrBody_scan f (t.drop (utf8Width (b :: t) - 1)) rest hdl hc
          have := scanStr_high ((b :: t).take (utf8Width (b :: t))) _ _ hhigh ih
          rw [List.append_assoc, this]
          have hsplit : (b :: t).take (utf8Width (b :: t)) ++ t.drop (utf8Width (b :: t) - 1) = b :: t := by
            obtain ⟨k, hk⟩ : ∃ k, utf8Width (b :: t) = k + 1 := ⟨utf8Width (b :: t) - 1, by omega⟩
            rw [hk]; simp
          simp only [hsplit]

theorem goString_scan (s rest : Bytes) (hc : utf8Clean s = true) :
    ∃ t, goString s ++ rest = 34 :: t ∧ scanStr t = some (s, rest) := by
  refine ⟨goStrBody s.length s ++ 34 :: rest, by simp [goString], goStrBody_scan s.length s rest (Nat.le_refl _) hc⟩

/-! ### the JSON value a rendered text denotes -/

mutual
def jOf : JV → J
  | .null => .null
  | .bool b => .bool b
  | .int i => .num (decInt i)
  | .str s => .str s
  | .arr xs => .arr (jOfList xs)
  | .obj kvs => .obj (jOfKvs kvs)
def jOfList : List JV → List J
  | [] => []
  | x :: xs => jOf x :: jOfList xs
def jOfKvs : List (Bytes × JV) → List (Bytes × J)
  | [] => []
  | (k, v) :: rest => (k, jOf v) :: jOfKvs rest
end

/-! `clean v`: every string and key of the value is valid UTF-8 (nothing is replaced by U+FFFD) -/
mutual
def clean : JV → Bool
  | .str s => utf8Clean s
  | .arr xs => cleanList xs
  | .obj kvs => cleanKvs kvs
  | _ => true
def cleanList : List JV → Bool
  | [] => true
  | x :: xs => clean x && cleanList xs
def cleanKvs : List (Bytes × JV) → Bool
  | [] => true
  | (k, v) :: rest => utf8Clean k && clean v && cleanKvs rest
end

mutual
def need : JV → Nat
  | .arr xs => 1 + needList xs
  | .obj kvs => 1 + needKvs kvs
  | _ => 1
def needList : List JV → Nat
  | [] => 0
  | x :: xs => 1 + max (need x) (needList xs)
def needKvs : List (Bytes × JV) → Nat
  | [] => 0
  | (_, v) :: rest => 1 + max (need v) (needKvs rest)
end

/-! white space in front of a token is invisible to the parser -/

theorem skipWs_spaces (n : Nat) (bs : Bytes) : skipWs (List.replicate n 32 ++ bs) = skipWs bs := by
  induction n with
  | zero => simp
  | succ n ih => simp only [List.replicate_succ, List.cons_append, skipWs, show isWs 32 = true by decide, if_true, ih]

theorem skipWs_nl (d : Nat) (bs : Bytes) : skipWs (nl d ++ bs) = skipWs bs := by
  simp only [nl, List.cons_append, skipWs, show isWs 10 = true by decide, if_true, skipWs_spaces]

theorem parseV_congr (f : Nat) (a b : Bytes) (h : skipWs a = skipWs b) : parseV f a = parseV f b := by
  cases f with
  | zero => simp [parseV]
  | succ f => simp only [parseV, h]

theorem parseElems_congr (f : Nat) (a b : Bytes) (h : skipWs a = skipWs b) : parseElems f a = parseElems f b := by
  cases f with
  | zero => simp [parseElems]
  | succ f => simp only [parseElems, parseV_congr f a b h]

theorem parseMembers_congr (f : Nat) (a b : Bytes) (h : skipWs a = skipWs b) : parseMembers f a = parseMembers f b := by
  cases f with
  | zero => simp [parseMembers]
  | succ f => simp only [parseMembers, h]

theorem follows_cons (c : UInt8) (t : Bytes) (h : c = 44 ∨ c = 93 ∨ c = 125 ∨ c = 10) : Follows (c :: t) := by
  intro d hd; simp at hd; subst hd; exact h

theorem follows_nl (d : Nat) (t : Bytes) : Follows (nl d ++ t) := by
  intro c hc; simp [nl] at hc; subst hc; exact Or.inr (Or.inr (Or.inr rfl))

/-- the first byte of a value's text: not white space and not a closing bracket -/
theorem value_head (d : Nat) (v : JV) : ∃ c t, renderIndent d v = c :: t ∧ isWs c = false ∧ c ≠ 93 ∧ c ≠ 125 := by
  cases v with
  | null => exact ⟨110, _, rfl, by decide, by decide, by decide⟩
  | bool b =>
    cases b
    · exact ⟨102, _, rfl, by decide, by decide, by decide⟩
    · exact ⟨116, _, rfl, by decide, by decide, by decide⟩
  | int i =>
    obtain ⟨c, t, h1, h2⟩ := decInt_head i
    refine ⟨c, t, by simp [renderIndent, h1], ?_⟩
    rcases h2 with h2 | h2
    · subst h2; decide
    · exact digit_not c h2
  | str s => exact ⟨34, _, by simp only [renderIndent, goString]; rfl, by decide, by decide, by decide⟩
  | arr xs =>
    cases xs with
    | nil => exact ⟨91, _, rfl, by decide, by decide, by decide⟩
    | cons x xs => exact ⟨91, _, by simp only [renderIndent]; rfl, by decide, by decide, by decide⟩
  | obj kvs =>
    cases kvs with
    | nil => exact ⟨123, _, rfl, by decide, by decide, by decide⟩
    | cons kv kvs => exact ⟨123, _, by simp only [renderIndent]; rfl, by decide, by decide, by decide⟩

theorem elems_head (d : Nat) (x : JV) (xs : List JV) (tail : Bytes) :
    ∃ c t, renderElems d (x :: xs) ++ tail = c :: t ∧ isWs c = false ∧ c ≠ 93 := by
  obtain ⟨c, t, hct, hws, h93, _⟩ := value_head d x
  cases xs with
  | nil => exact ⟨c, t ++ tail, by simp [renderElems, hct], hws, h93⟩
  | cons y ys => exact ⟨c, _, by simp only [renderElems, hct, List.cons_append]; rfl, hws, h93⟩

theorem members_head (d : Nat) (k : Bytes) (v : JV) (kvs : List (Bytes × JV)) (tail : Bytes) :
    ∃ t, renderMembers d ((k, v) :: kvs) ++ tail = 34 :: t := by
  cases kvs with
  | nil => exact ⟨_, by simp only [renderMembers, goString, List.cons_append]; rfl⟩
  | cons y ys => exact ⟨_, by simp only [renderMembers, goString, List.cons_append]; rfl⟩

theorem skipWs_sp (bs : Bytes) : skipWs (32 :: bs) = skipWs bs := by
  simp only [skipWs, show isWs 32 = true by decide, if_true]

theorem clean_cons (x : JV) (xs : List JV) (h : cleanList (x :: xs) = true) : clean x = true ∧ cleanList xs = true := by
  simpa [cleanList] using h

theorem cleanKvs_cons (k : Bytes) (v : JV) (rest : List (Bytes × JV)) (h : cleanKvs ((k, v) :: rest) = true) :
    utf8Clean k = true ∧ clean v = true ∧ cleanKvs rest = true := by
  simp only [cleanKvs, Bool.and_eq_true] at h; exact ⟨h.1.1, h.1.2, h.2⟩

mutual
/-- the indented text of a value, followed by a comma, a closing bracket or a newline, parses to the value it denotes
and stops exactly there -/
theorem parseV_indent : ∀ (v : JV) (d f : Nat) (rest : Bytes), need v ≤ f → clean v = true → Follows rest →
    parseV f (renderIndent d v ++ rest) = some (jOf v, rest)
  | .null, d, f, rest, hf, _, _ => by
    cases f with
    | zero => simp [need] at hf
    | succ f => simp [renderIndent, jOf, parseV, skipWs, isWs, Txt.asc]
  | .bool b, d, f, rest, hf, _, _ => by
    cases f with
    | zero => simp [need] at hf
    | succ f => cases b <;> simp [renderIndent, jOf, parseV, skipWs, isWs, Txt.asc]
  | .int i, d, f, rest, hf, _, hr => by
    cases f with
    | zero => simp [need] at hf
    | succ f =>
      simp only [renderIndent, jOf]
      exact parseV_decInt i rest f hr
  | .str s, d, f, rest, hf, hc, _ => by
    cases f with
    | zero => simp [need] at hf
    | succ f =>
      obtain ⟨t, ht, hs⟩ := goString_scan s rest (by simpa [clean] using hc)
      simp only [renderIndent, jOf]
      rw [ht]
      simp [parseV, skipWs, isWs, hs]
  | .arr [], d, f, rest, hf, _, _ => by
    cases f with
    | zero => simp [need] at hf
    | succ f => simp [renderIndent, jOf, jOfList, parseV, skipWs, isWs]
  | .arr (x :: xs), d, f, rest, hf, hc, _ => by
    cases f with
    | zero => simp [need] at hf
    | succ f =>
      have hfl : needList (x :: xs) ≤ f := by simp only [need] at hf; omega
      have ih := parseElems_indent x xs d f rest hfl (by simpa [clean] using hc)
      obtain ⟨c, t', ht', hws, h93⟩ := elems_head (d + 1) x xs (nl d ++ 93 :: rest)
      simp only [renderIndent, jOf, List.cons_append, List.append_assoc, List.nil_append, parseV]
      simp only [skipWs_nonws 91 _ (by decide), show ((91 : UInt8) = 110) = False by decide,
        show ((91 : UInt8) = 116) = False by decide, show ((91 : UInt8) = 102) = False by decide,
        show ((91 : UInt8) = 34) = False by decide, if_false, if_true]
      rw [skipWs_nl, parseElems_congr f _ _ (skipWs_nl (d + 1) _)]
      rw [ht'] at ih ⊢
      rw [skipWs_nonws c t' hws]
      split
      · rename_i heq; simp at heq; exact absurd heq.1 h93
      · rw [ih]; rfl
  | .obj [], d, f, rest, hf, _, _ => by
    cases f with
    | zero => simp [need] at hf
    | succ f => simp [renderIndent, jOf, jOfKvs, parseV, skipWs, isWs]
  | .obj ((k, v) :: kvs), d, f, rest, hf, hc, _ => by
    cases f with
    | zero => simp [need] at hf
    | succ f =>
      have hfl : needKvs ((k, v) :: kvs) ≤ f := by simp only [need] at hf; omega
      have ih := parseMembers_indent k v kvs d f rest hfl (by simpa [clean] using hc)
      obtain ⟨t', ht'⟩ := members_head (d + 1) k v kvs (nl d ++ 125 :: rest)
      simp only [renderIndent, jOf, List.cons_append, List.append_assoc, List.nil_append, parseV]
      simp only [skipWs_nonws 123 _ (by decide), show ((123 : UInt8) = 110) = False by decide,
        show ((123 : UInt8) = 116) = False by decide, show ((123 : UInt8) = 102) = False by decide,
        show ((123 : UInt8) = 34) = False by decide, show ((123 : UInt8) = 91) = False by decide, if_false, if_true]
      rw [skipWs_nl, parseMembers_congr f _ _ (skipWs_nl (d + 1) _)]
      rw [ht'] at ih ⊢
      rw [skipWs_nonws 34 t' (by decide)]
      split
      · rename_i heq; simp at heq
      · rw [ih]; rfl
termination_by v => sizeOf v
decreasing_by all_goals (simp_wf; try omega)
/-- one or more values separated by `,` newline indent, closed by newline indent `]` -/
theorem parseElems_indent : ∀ (x : JV) (xs : List JV) (d f : Nat) (rest : Bytes),
    needList (x :: xs) ≤ f → cleanList (x :: xs) = true →
    parseElems f (renderElems (d + 1) (x :: xs) ++ (nl d ++ 93 :: rest)) = some (jOfList (x :: xs), rest)
  | x, [], d, f, rest, hf, hc => by
    cases f with
    | zero => simp [needList] at hf
    | succ f =>
      have hx : need x ≤ f := by simp only [needList] at hf; omega
      have h1 := parseV_indent x (d + 1) f (nl d ++ 93 :: rest) hx (clean_cons x [] hc).1 (follows_nl d _)
      simp only [renderElems, parseElems, h1, skipWs_nl]
      simp [skipWs, isWs, jOfList]
  | x, y :: ys, d, f, rest, hf, hc => by
    cases f with
    | zero => simp [needList] at hf
    | succ f =>
      have hx : need x ≤ f := by simp only [needList] at hf; omega
      have hys : needList (y :: ys) ≤ f := by simp only [needList] at hf ⊢; omega
      have h1 := parseV_indent x (d + 1) f (44 :: (nl (d + 1) ++ (renderElems (d + 1) (y :: ys) ++ (nl d ++ 93 :: rest))))
        hx (clean_cons x _ hc).1 (follows_cons 44 _ (Or.inl rfl))
      have h2 := parseElems_indent y ys d f rest hys (clean_cons x _ hc).2
      simp only [renderElems, List.append_assoc, List.cons_append, parseElems, h1]
      simp only [skipWs_nonws 44 _ (by decide), parseElems_congr f _ _ (skipWs_nl (d + 1) _), h2, Option.map_some, jOfList]
termination_by x xs => sizeOf x + sizeOf xs
decreasing_by all_goals (simp_wf; try omega)
/-- one or more `"key": value` members separated by `,` newline indent, closed by newline indent `}` -/
theorem parseMembers_indent : ∀ (k : Bytes) (v : JV) (kvs : List (Bytes × JV)) (d f : Nat) (rest : Bytes),
    needKvs ((k, v) :: kvs) ≤ f → cleanKvs ((k, v) :: kvs) = true →
    parseMembers f (renderMembers (d + 1) ((k, v) :: kvs) ++ (nl d ++ 125 :: rest)) = some (jOfKvs ((k, v) :: kvs), rest)
  | k, v, [], d, f, rest, hf, hc => by
    cases f with
    | zero => simp [needKvs] at hf
    | succ f =>
      have hx : need v ≤ f := by simp only [needKvs] at hf; omega
      obtain ⟨hck, hcv, _⟩ := cleanKvs_cons k v [] hc
      have h1 := parseV_indent v (d + 1) f (nl d ++ 125 :: rest) hx hcv (follows_nl d _)
      obtain ⟨t, ht, hs⟩ := goString_scan k (58 :: 32 :: (renderIndent (d + 1) v ++ (nl d ++ 125 :: rest))) hck
      simp only [renderMembers, List.append_assoc, List.cons_append, List.nil_append]
      rw [ht]
      simp only [parseMembers, skipWs_nonws 34 _ (by decide), hs, skipWs_nonws 58 _ (by decide),
        parseV_congr f _ _ (skipWs_sp _), h1, skipWs_nl]
      simp [skipWs, isWs, jOfKvs]
  | k, v, (k2, v2) :: more, d, f, rest, hf, hc => by
    cases f with
    | zero => simp [needKvs] at hf
    | succ f =>
      have hx : need v ≤ f := by simp only [needKvs] at hf; omega
      have hys : needKvs ((k2, v2) :: more) ≤ f := by simp only [needKvs] at hf ⊢; omega
      obtain ⟨hck, hcv, hcr⟩ := cleanKvs_cons k v _ hc
      have h1 := parseV_indent v (d + 1) f (44 :: (nl (d + 1) ++ (renderMembers (d + 1) ((k2, v2) :: more) ++ (nl d ++ 125 :: rest))))
        hx hcv (follows_cons 44 _ (Or.inl rfl))
      have h2 := parseMembers_indent k2 v2 more d f rest hys hcr
      obtain ⟨t, ht, hs⟩ := goString_scan k (58 :: 32 :: (renderIndent (d + 1) v ++
        44 :: (nl (d + 1) ++ (renderMembers (d + 1) ((k2, v2) :: more) ++ (nl d ++ 125 :: rest))))) hck
      simp only [renderMembers, List.append_assoc, List.cons_append, List.nil_append]
      rw [ht]
      simp only [parseMembers, skipWs_nonws 34 _ (by decide), hs, skipWs_nonws 58 _ (by decide),
        parseV_congr f _ _ (skipWs_sp _), h1, skipWs_nonws 44 _ (by decide),
        parseMembers_congr f _ _ (skipWs_nl (d + 1) _), h2, Option.map_some, jOfKvs]
termination_by k v kvs => sizeOf v + sizeOf kvs
decreasing_by all_goals (simp_wf; try omega)
end

/-! ### the fuel of `parse` suffices -/

mutual
theorem need_le : ∀ (d : Nat) (v : JV), need v ≤ (renderIndent d v).length + 1
  | _, .null => by simp [need]
  | _, .bool _ => by simp [need]
  | _, .int _ => by simp [need]
  | _, .str _ => by simp [need]
  | _, .arr [] => by simp [need, needList]
  | d, .arr (x :: xs) => by
    have := needList_le (d + 1) (x :: xs)
    simp only [need, renderIndent, List.length_cons, List.length_append, List.length_nil]
    omega
  | _, .obj [] => by simp [need, needKvs]
  | d, .obj (kv :: kvs) => by
    have := needKvs_le (d + 1) (kv :: kvs)
    simp only [need, renderIndent, List.length_cons, List.length_append, List.length_nil]
    omega
theorem needList_le : ∀ (d : Nat) (xs : List JV), needList xs ≤ (renderElems d xs).length + 2
  | _, [] => by simp [needList]
  | d, [x] => by
    have := need_le d x
    simp only [needList, renderElems]; omega
  | d, x :: y :: ys => by
    have h1 := need_le d x
    have h2 := needList_le d (y :: ys)
    simp only [needList, renderElems, List.length_cons, List.length_append] at h2 ⊢
    omega
theorem needKvs_le : ∀ (d : Nat) (kvs : List (Bytes × JV)), needKvs kvs ≤ (renderMembers d kvs).length + 2
  | _, [] => by simp [needKvs]
  | d, [(k, v)] => by
    have := need_le d v
    simp only [needKvs, renderMembers, List.length_cons, List.length_append]; omega
  | d, (k, v) :: kv2 :: rest => by
    have h1 := need_le d v
    have h2 := needKvs_le d (kv2 :: rest)
    simp only [needKvs, renderMembers, List.length_cons, List.length_append] at h2 ⊢
    omega
end

/-- what `enc.Encode(v)` writes (indented text and a newline) is valid JSON denoting `jOf v` -/
theorem parse_encodeJSON (v : JV) (hc : clean v = true) : parse (encodeJSON v) = some (jOf v) := by
  unfold parse encodeJSON
  have hl := need_le 0 v
  have h := parseV_indent v 0 (2 * (renderIndent 0 v ++ [10]).length + 2) [10]
    (by simp only [List.length_append, List.length_cons, List.length_nil]; omega) hc
    (follows_cons 10 [] (Or.inr (Or.inr (Or.inr rfl))))
  rw [h]
  simp [skipWs, isWs]

/-! ### `jOf` loses nothing -/

mutual
theorem jOf_injective : ∀ (v w : JV), jOf v = jOf w → v = w
  | .null, w, h => by cases w <;> simp [jOf] at h ⊢
  | .bool b, w, h => by cases w <;> simp [jOf] at h ⊢; exact h
  | .int i, w, h => by
    cases w <;> simp [jOf] at h ⊢
    exact decInt_injective _ _ h
  | .str s, w, h => by cases w <;> simp [jOf] at h ⊢; exact h
  | .arr xs, w, h => by
    cases w <;> simp [jOf] at h ⊢
    exact jOfList_injective _ _ h
  | .obj kvs, w, h => by
    cases w <;> simp [jOf] at h ⊢
    exact jOfKvs_injective _ _ h
theorem jOfList_injective : ∀ (xs ys : List JV), jOfList xs = jOfList ys → xs = ys
  | [], ys, h => by cases ys <;> simp [jOfList] at h ⊢
  | x :: xs, ys, h => by
    cases ys with
    | nil => simp [jOfList] at h
    | cons y ys =>
      simp only [jOfList, List.cons.injEq] at h
      rw [jOf_injective x y h.1, jOfList_injective xs ys h.2]
theorem jOfKvs_injective : ∀ (xs ys : List (Bytes × JV)), jOfKvs xs = jOfKvs ys → xs = ys
  | [], ys, h => by
    cases ys with
    | nil => rfl
    | cons y ys => obtain ⟨k, v⟩ := y; simp [jOfKvs] at h
  | (k, v) :: xs, ys, h => by
    cases ys with
    | nil => simp [jOfKvs] at h
    | cons y ys =>
      obtain ⟨k2, v2⟩ := y
      simp only [jOfKvs, List.cons.injEq, Prod.mk.injEq] at h
      rw [h.1.1, jOf_injective v v2 h.1.2, jOfKvs_injective xs ys h.2]
end

/-- two values without invalid UTF-8 that print the same text are the same value -/
theorem encodeJSON_injective (v w : JV) (hv : clean v = true) (hw : clean w = true) (h : encodeJSON v = encodeJSON w) : v = w := by
  have h1 := parse_encodeJSON v hv
  have h2 := parse_encodeJSON w hw
  rw [h, h2] at h1
  exact (jOf_injective _ _ (Option.some.inj h1).symm)

/-! ### line-oriented text: records separated by a byte that does not occur inside them -/

theorem append_sep_inj {α} (c : α) : ∀ (x x' y y' : List α), c ∉ x → c ∉ x' → x ++ c :: y = x' ++ c :: y' → x = x' ∧ y = y'
  | [], [], y, y', _, _, h => by simpa using h
  | [], a :: t, y, y', _, h2, h => by
    simp only [List.nil_append, List.cons_append, List.cons.injEq] at h
    exact absurd (by simp [h.1]) h2
  | a :: t, [], y, y', h1, _, h => by
    simp only [List.nil_append, List.cons_append, List.cons.injEq] at h
    exact absurd (by simp [h.1]) h1
  | a :: t, b :: u, y, y', h1, h2, h => by
    simp only [List.cons_append, List.cons.injEq] at h
    have := append_sep_inj c t u y y' (fun m => h1 (by simp [m])) (fun m => h2 (by simp [m])) h.2
    exact ⟨by rw [h.1, this.1], this.2⟩

/-- lines `f a ++ "\n"` where no `f a` contains a newline: the text determines the list of lines -/
theorem lines_inj {α} (f : α → Bytes) : ∀ (l₁ l₂ : List α), (∀ a ∈ l₁, (10 : UInt8) ∉ f a) → (∀ a ∈ l₂, (10 : UInt8) ∉ f a) →
    l₁.flatMap (fun a => f a ++ [10]) = l₂.flatMap (fun a => f a ++ [10]) → l₁.map f = l₂.map f
  | [], [], _, _, _ => rfl
  | [], b :: u, _, _, h => by
    have := congrArg List.length h
    simp at this
  | a :: t, [], _, _, h => by
    have := congrArg List.length h
    simp at this
  | a :: t, b :: u, h1, h2, h => by
    simp only [List.flatMap_cons, List.append_assoc, List.cons_append, List.nil_append] at h
    have := append_sep_inj 10 (f a) (f b) _ _ (h1 a (by simp)) (h2 b (by simp)) h
    have ih := lines_inj f t u (fun x hx => h1 x (by simp [hx])) (fun x hx => h2 x (by simp [hx])) this.2
    simp only [List.map_cons, this.1, ih]

/-- tokens joined by single blanks -/
def joinSp : List Bytes → Bytes
  | [] => []
  | [x] => x
  | x :: y :: rest => x ++ 32 :: joinSp (y :: rest)

theorem joinSp_inj : ∀ (a b : List Bytes), a ≠ [] → b ≠ [] → (∀ t ∈ a, (32 : UInt8) ∉ t) → (∀ t ∈ b, (32 : UInt8) ∉ t) →
    joinSp a = joinSp b → a = b
  | [], _, h, _, _, _, _ => absurd rfl h
  | _ :: _, [], _, h, _, _, _ => absurd rfl h
  | [x], [y], _, _, _, _, h => by simpa [joinSp] using h
  | [x], y :: y2 :: rb, _, _, ha, _, h => by
    simp only [joinSp] at h
    exact absurd (by rw [h]; simp) (ha x (by simp))
  | x :: x2 :: ra, [y], _, _, _, hb, h => by
    simp only [joinSp] at h
    exact absurd (by rw [← h]; simp) (hb y (by simp))
  | x :: x2 :: ra, y :: y2 :: rb, _, _, ha, hb, h => by
    simp only [joinSp] at h
    have := append_sep_inj 32 x y _ _ (ha x (by simp)) (hb y (by simp)) h
    have ih := joinSp_inj (x2 :: ra) (y2 :: rb) (by simp) (by simp) (fun t ht => ha t (by simp [ht])) (fun t ht => hb t (by simp [ht])) this.2
    rw [this.1, ih]

theorem mem_joinSp (c : UInt8) : ∀ (l : List Bytes), c ∈ joinSp l → c = 32 ∨ ∃ t ∈ l, c ∈ t
  | [], h => by simp [joinSp] at h
  | [x], h => Or.inr ⟨x, by simp, by simpa [joinSp] using h⟩
  | x :: y :: rest, h => by
    simp only [joinSp, List.mem_append, List.mem_cons] at h
    rcases h with h | h | h
    · exact Or.inr ⟨x, by simp, h⟩
    · exact Or.inl h
    · rcases mem_joinSp c (y :: rest) h with h | ⟨t, ht, hc⟩
      · exact Or.inl h
      · exact Or.inr ⟨t, by simp only [List.mem_cons] at ht ⊢; exact Or.inr ht, hc⟩

/-! ### `-passwords`: one line per role -/

open PgVerif.Model (AuthInfo)

def tNo : Bytes := Txt.asc "(no"
def tPw : Bytes := Txt.asc "password)"
def tSu : Bytes := Txt.asc "[SUPERUSER]"
def tLo : Bytes := Txt.asc "[LOGIN]"

def pwTokens : Bytes → List Bytes
  | [] => [tNo, tPw]
  | c :: t => [c :: t]

def flagTokens (b : Bool) (x : Bytes) : List Bytes := if b then [x] else []

/-- the blank-separated words after `name:` -/
def authTokens (a : AuthInfo) : List Bytes := pwTokens a.password ++ flagTokens a.rolSuper tSu ++ flagTokens a.rolLogin tLo

theorem asc_nopw : Txt.asc ":(no password)" = 58 :: (tNo ++ 32 :: tPw) := by decide
theorem asc_su : Txt.asc " [SUPERUSER]" = 32 :: tSu := by decide
theorem asc_lo : Txt.asc " [LOGIN]" = 32 :: tLo := by decide

theorem authLine_eq (a : AuthInfo) : authLine a = (a.roleName ++ 58 :: joinSp (authTokens a)) ++ [10] := by
  unfold authLine authFlags authTokens flagTokens
  rw [asc_nopw, asc_su, asc_lo]
  rcases hp : a.password with _ | ⟨c, t⟩ <;> cases a.rolSuper <;> cases a.rolLogin <;> simp [pwTokens, joinSp]

theorem consts_nosp : (32 : UInt8) ∉ tNo ∧ (32 : UInt8) ∉ tPw ∧ (32 : UInt8) ∉ tSu ∧ (32 : UInt8) ∉ tLo := by decide
theorem consts_nonl : (10 : UInt8) ∉ tNo ∧ (10 : UInt8) ∉ tPw ∧ (10 : UInt8) ∉ tSu ∧ (10 : UInt8) ∉ tLo := by decide
theorem consts_ne : tPw ≠ tSu ∧ tPw ≠ tLo ∧ tSu ≠ tLo := by decide

/-- a role whose line can be read back: no `:` or newline in the name, no blank or newline in the verifier
(true of every md5 and SCRAM verifier) -/
def AuthPrintable (a : AuthInfo) : Prop :=
  (58 : UInt8) ∉ a.roleName ∧ (10 : UInt8) ∉ a.roleName ∧ (32 : UInt8) ∉ a.password ∧ (10 : UInt8) ∉ a.password

/-- what `-passwords` shows of a role (the OID is not printed) -/
def authView (a : AuthInfo) : Bytes × Bytes × Bool × Bool := (a.roleName, a.password, a.rolSuper, a.rolLogin)

theorem mem_flagTokens (b : Bool) (x t : Bytes) (h : t ∈ flagTokens b x) : t = x := by
  cases b
  · simp [flagTokens] at h
  · simpa [flagTokens] using h

theorem mem_pwTokens (p t : Bytes) (h : t ∈ pwTokens p) : t = p ∨ t = tNo ∨ t = tPw := by
  cases p with
  | nil => simp [pwTokens] at h; exact Or.inr h
  | cons c u => simp [pwTokens] at h; exact Or.inl h

theorem authTokens_ne (a : AuthInfo) : authTokens a ≠ [] := by
  unfold authTokens
  cases a.password <;> simp [pwTokens]

theorem authTokens_free (a : AuthInfo) (c : UInt8) (hp : c ∉ a.password)
    (hk : c ∉ tNo ∧ c ∉ tPw ∧ c ∉ tSu ∧ c ∉ tLo) : ∀ t ∈ authTokens a, c ∉ t := by
  intro t ht
  simp only [authTokens, List.mem_append] at ht
  rcases ht with (ht | ht) | ht
  · rcases mem_pwTokens _ _ ht with h | h | h <;> subst h
    · exact hp
    · exact hk.1
    · exact hk.2.1
  · rw [mem_flagTokens _ _ _ ht]; exact hk.2.2.1
  · rw [mem_flagTokens _ _ _ ht]; exact hk.2.2.2

theorem authTokens_inj (a b : AuthInfo) (h : authTokens a = authTokens b) :
    a.password = b.password ∧ a.rolSuper = b.rolSuper ∧ a.rolLogin = b.rolLogin := by
  obtain ⟨e1, e2, e3⟩ := consts_ne
  unfold authTokens flagTokens at h
  rcases hpa : a.password with _ | ⟨ca, ta⟩ <;> rcases hpb : b.password with _ | ⟨cb, tb⟩ <;>
    cases hsa : a.rolSuper <;> cases hsb : b.rolSuper <;> cases hla : a.rolLogin <;> cases hlb : b.rolLogin <;>
    simp [hpa, hpb, hsa, hsb, hla, hlb, pwTokens, e1, e2, e3, Ne.symm e1, Ne.symm e2, Ne.symm e3] at h ⊢ <;>
    first | exact h | skip

theorem authBody_nonl (a : AuthInfo) (h : AuthPrintable a) : (10 : UInt8) ∉ a.roleName ++ 58 :: joinSp (authTokens a) := by
  intro hm
  simp only [List.mem_append, List.mem_cons] at hm
  rcases hm with hm | hm | hm
  · exact h.2.1 hm
  · exact absurd hm (by decide)
  · rcases mem_joinSp 10 _ hm with hm | ⟨t, ht, hc⟩
    · exact absurd hm (by decide)
    · exact authTokens_free a 10 h.2.2.2 consts_nonl t ht hc

/-- a role's line determines its name, verifier (or that it has none) and its SUPERUSER / LOGIN marks -/
theorem authLine_inj (a b : AuthInfo) (ha : AuthPrintable a) (hb : AuthPrintable b)
    (h : a.roleName ++ 58 :: joinSp (authTokens a) = b.roleName ++ 58 :: joinSp (authTokens b)) : authView a = authView b := by
  have h1 := append_sep_inj 58 _ _ _ _ ha.1 hb.1 h
  have h2 := joinSp_inj _ _ (authTokens_ne a) (authTokens_ne b) (authTokens_free a 32 ha.2.2.1 consts_nosp)
    (authTokens_free b 32 hb.2.2.1 consts_nosp) h1.2
  obtain ⟨p, s, l⟩ := authTokens_inj a b h2
  simp only [authView, h1.1, p, s, l]

theorem map_inj_of_inj {α β} (f : α → β) (hf : ∀ a b, f a = f b → a = b) : ∀ (l₁ l₂ : List α), l₁.map f = l₂.map f → l₁ = l₂
  | [], [], _ => rfl
  | [], _ :: _, h => by simp at h
  | _ :: _, [], h => by simp at h
  | a :: t, b :: u, h => by
    simp only [List.map_cons, List.cons.injEq] at h
    rw [hf a b h.1, map_inj_of_inj f hf t u h.2]

/-! ### `-list-db` and `-f …/1262`: `name (OID n)` lines -/

open PgVerif.Model (DatabaseInfo)

theorem dec_no (n : Nat) (c : UInt8) (hc : c = 32 ∨ c = 10) : c ∉ dec n := by
  intro hm
  have := (ExportDec.dec_props n).2.1 c hm
  rcases hc with hc | hc <;> subst hc <;> simp [ExportDec.IsDig] at this

def oidOpen : Bytes := Txt.asc " (OID "

def dbBody (db : DatabaseInfo) : Bytes := db.name ++ oidOpen ++ dec db.oid ++ [41]

theorem listDbLine_eq (db : DatabaseInfo) : listDbLine db = dbBody db ++ [10] := by
  simp [listDbLine, dbBody, oidOpen, show Txt.asc ")\n" = [41, 10] by decide]

theorem oidOpen_rev : oidOpen.reverse = 32 :: [68, 73, 79, 40, 32] := by decide

/-- `name (OID n)` read from the right: the digits end at the blank of ` (OID `, whatever the name contains -/
theorem dbBody_inj (a b : DatabaseInfo) (h : dbBody a = dbBody b) : a = b := by
  have hr := congrArg List.reverse h
  simp only [dbBody, List.reverse_append, List.reverse_cons, List.reverse_nil, List.nil_append, List.append_assoc,
    List.cons_append, List.cons.injEq, true_and, oidOpen_rev] at hr
  have hda : (32 : UInt8) ∉ (dec a.oid).reverse := by simpa using dec_no a.oid 32 (Or.inl rfl)
  have hdb : (32 : UInt8) ∉ (dec b.oid).reverse := by simpa using dec_no b.oid 32 (Or.inl rfl)
  have := append_sep_inj 32 _ _ _ _ hda hdb hr
  have hoid : a.oid = b.oid := dec_injective _ _ (List.reverse_inj.mp this.1)
  have hname : a.name = b.name := by
    have h2 := this.2
    simp only [List.cons.injEq, true_and] at h2
    exact List.reverse_inj.mp h2
  cases a; cases b; simp_all

theorem dbBody_nonl (db : DatabaseInfo) (h : (10 : UInt8) ∉ db.name) : (10 : UInt8) ∉ dbBody db := by
  intro hm
  simp only [dbBody, List.mem_append, List.mem_singleton] at hm
  rcases hm with ((hm | hm) | hm) | hm
  · exact h hm
  · exact absurd hm (by decide)
  · exact dec_no _ 10 (Or.inr rfl) hm
  · exact absurd hm (by decide)

/-- the lines of `-list-db` determine the databases (names without a newline) -/
theorem listDbLines_inj (l₁ l₂ : List DatabaseInfo) (h₁ : ∀ d ∈ l₁, (10 : UInt8) ∉ d.name) (h₂ : ∀ d ∈ l₂, (10 : UInt8) ∉ d.name)
    (h : l₁.flatMap listDbLine = l₂.flatMap listDbLine) : l₁ = l₂ := by
  have e : listDbLine = fun d => dbBody d ++ [10] := funext listDbLine_eq
  rw [e] at h
  have := lines_inj dbBody l₁ l₂ (fun d hd => dbBody_nonl d (h₁ d hd)) (fun d hd => dbBody_nonl d (h₂ d hd)) h
  exact map_inj_of_inj dbBody dbBody_inj l₁ l₂ this

/-! ### the RFC 3339 text determines the second -/

theorem civilN_spec (n : Nat) : ∃ c400 c100 c4 c1 doy mp : Nat,
    civilN n = (400 * c400 + 100 * c100 + 4 * c4 + c1 + (if (if mp < 10 then mp + 3 else mp - 9) ≤ 2 then 1 else 0),
              (if mp < 10 then mp + 3 else mp - 9), doy - (153 * mp + 2) / 5 + 1) ∧
    n = 146097 * c400 + 36524 * c100 + 1461 * c4 + 365 * c1 + doy ∧ c100 ≤ 3 ∧ c4 ≤ 24 ∧ c1 ≤ 3 ∧ doy ≤ 365 ∧
    mp = (5 * doy + 2) / 153 := by
  refine ⟨n / 146097, min (n % 146097 / 36524) 3, (n % 146097 - min (n % 146097 / 36524) 3 * 36524) / 1461,
    min ((n % 146097 - min (n % 146097 / 36524) 3 * 36524) % 1461 / 365) 3,
    (n % 146097 - min (n % 146097 / 36524) 3 * 36524) % 1461 - min ((n % 146097 - min (n % 146097 / 36524) 3 * 36524) % 1461 / 365) 3 * 365,
    (5 * ((n % 146097 - min (n % 146097 / 36524) 3 * 36524) % 1461 - min ((n % 146097 - min (n % 146097 / 36524) 3 * 36524) % 1461 / 365) 3 * 365) + 2) / 153,
    rfl, ?_, ?_, ?_, ?_, ?_, rfl⟩ <;> omega

theorem civil_inj_core (a400 a100 a4 a1 adoy amp b400 b100 b4 b1 bdoy bmp : Nat)
    (ha : a100 ≤ 3 ∧ a4 ≤ 24 ∧ a1 ≤ 3 ∧ adoy ≤ 365 ∧ amp = (5 * adoy + 2) / 153)
    (hb : b100 ≤ 3 ∧ b4 ≤ 24 ∧ b1 ≤ 3 ∧ bdoy ≤ 365 ∧ bmp = (5 * bdoy + 2) / 153)
    (hy : 400 * a400 + 100 * a100 + 4 * a4 + a1 + (if (if amp < 10 then amp + 3 else amp - 9) ≤ 2 then 1 else 0) =
          400 * b400 + 100 * b100 + 4 * b4 + b1 + (if (if bmp < 10 then bmp + 3 else bmp - 9) ≤ 2 then 1 else 0))
    (hm : (if amp < 10 then amp + 3 else amp - 9) = (if bmp < 10 then bmp + 3 else bmp - 9))
    (hd : adoy - (153 * amp + 2) / 5 + 1 = bdoy - (153 * bmp + 2) / 5 + 1) :
    a400 = b400 ∧ a100 = b100 ∧ a4 = b4 ∧ a1 = b1 ∧ adoy = bdoy := by
  have hmp : amp = bmp := by
    by_cases h1 : amp < 10 <;> by_cases h2 : bmp < 10 <;> simp only [h1, h2, if_true, if_false] at hm <;> omega
  subst hmp
  have hdoy : adoy = bdoy := by omega
  subst hdoy
  omega

/-- different days have different civil dates -/
theorem civilN_inj (a b : Nat) (h : civilN a = civilN b) : a = b := by
  obtain ⟨a400, a100, a4, a1, adoy, amp, ea, na, ha⟩ := civilN_spec a
  obtain ⟨b400, b100, b4, b1, bdoy, bmp, eb, nb, hb⟩ := civilN_spec b
  rw [ea, eb] at h
  simp only [Prod.mk.injEq] at h
  have := civil_inj_core a400 a100 a4 a1 adoy amp b400 b100 b4 b1 bdoy bmp ha hb h.1 h.2.1 h.2.2
  omega

/-- the years 0..9999 (shifted by 400), months 1..12 and days 1..31 of the day numbers of the renderable range -/
theorem civilN_bounds (n : Nat) (lo : 146037 ≤ n) (hi : n ≤ 3798461) :
    400 ≤ (civilN n).1 ∧ (civilN n).1 ≤ 10399 ∧ (civilN n).2.1 ≤ 12 ∧ (civilN n).2.2 ≤ 31 := by
  obtain ⟨c400, c100, c4, c1, doy, mp, e, hn, h100, h4, h1, hdoy, hmp⟩ := civilN_spec n
  rw [e]
  simp only
  have hsum : 36524 * c100 + 1461 * c4 + 365 * c1 ≤ 145731 := by omega
  have ha : c400 ≤ 25 := by omega
  by_cases hm : mp < 10
  · simp only [hm, if_true]
    have : ¬ (mp + 3 ≤ 2) := by omega
    simp only [this, if_false]
    have hd : doy ≤ 305 := by omega
    have h0 : 1 ≤ c400 := by
      apply Nat.succ_le_of_lt; apply Nat.pos_of_ne_zero; intro h0; subst h0; omega
    refine ⟨by omega, by omega, by omega, by omega⟩
  · simp only [hm, if_false]
    have : mp - 9 ≤ 2 := by omega
    simp only [this, if_true]
    have hd : 306 ≤ doy := by omega
    have hmax : c400 = 25 → 100 * c100 + 4 * c4 + c1 ≤ 398 := by
      intro h25; subst h25
      have : 36524 * c100 + 1461 * c4 + 365 * c1 ≤ 145730 := by omega
      apply Nat.le_of_lt_succ
      apply Nat.lt_of_le_of_ne (by omega)
      intro h399
      have : c100 = 3 ∧ c4 = 24 ∧ c1 = 3 := by omega
      omega
    refine ⟨by omega, ?_, by omega, by omega⟩
    by_cases h25 : c400 = 25
    · have := hmax h25; omega
    · omega

theorem digitCh_inj (a b : Nat) (ha : a < 10) (hb : b < 10) (h : Txt.digitCh a = Txt.digitCh b) : a = b := by
  have := congrArg UInt8.toNat h
  simp only [Txt.digitCh, UInt8.toNat_ofNat'] at this
  omega

theorem d2_inj (a b : Nat) (ha : a < 100) (hb : b < 100) (h : d2 a = d2 b) : a = b := by
  simp only [d2, List.cons.injEq, and_true] at h
  have h1 := digitCh_inj _ _ (Nat.mod_lt _ (by omega)) (Nat.mod_lt _ (by omega)) h.1
  have h2 := digitCh_inj _ _ (Nat.mod_lt _ (by omega)) (Nat.mod_lt _ (by omega)) h.2
  omega

theorem d4_inj (a b : Nat) (ha : a < 10000) (hb : b < 10000) (h : d4 a = d4 b) : a = b := by
  simp only [d4, List.cons.injEq, and_true] at h
  have h1 := digitCh_inj _ _ (Nat.mod_lt _ (by omega)) (Nat.mod_lt _ (by omega)) h.1
  have h2 := digitCh_inj _ _ (Nat.mod_lt _ (by omega)) (Nat.mod_lt _ (by omega)) h.2.1
  have h3 := digitCh_inj _ _ (Nat.mod_lt _ (by omega)) (Nat.mod_lt _ (by omega)) h.2.2.1
  have h4 := digitCh_inj _ _ (Nat.mod_lt _ (by omega)) (Nat.mod_lt _ (by omega)) h.2.2.2
  omega

/-- within the years 0..9999 the RFC 3339 text determines the second -/
theorem rfc3339_inj (s t : Int) (hs : timeInRange s = true) (ht : timeInRange t = true) (h : rfc3339 s = rfc3339 t) : s = t := by
  simp only [timeInRange, Bool.and_eq_true, decide_eq_true_eq] at hs ht
  have ns : 146037 ≤ (s / 86400 + 865565).toNat ∧ (s / 86400 + 865565).toNat ≤ 3798461 := by omega
  have nt : 146037 ≤ (t / 86400 + 865565).toNat ∧ (t / 86400 + 865565).toNat ≤ 3798461 := by omega
  obtain ⟨ys1, ys2, ms, ds⟩ := civilN_bounds _ ns.1 ns.2
  obtain ⟨yt1, yt2, mt, dt⟩ := civilN_bounds _ nt.1 nt.2
  simp only [rfc3339, civilFromDays, d2, d4, List.cons_append, List.nil_append, List.cons.injEq, and_true, true_and] at h
  obtain ⟨y1, y2, y3, y4, m1, m2, e1, e2, H1, H2, M1, M2, S1, S2⟩ := h
  have hy := d4_inj ((civilN (s / 86400 + 865565).toNat).1 - 400 : Int).toNat ((civilN (t / 86400 + 865565).toNat).1 - 400 : Int).toNat
    (by omega) (by omega) (by simp only [d4, y1, y2, y3, y4])
  have hm := d2_inj _ _ (by omega) (by omega) (show d2 (civilN (s / 86400 + 865565).toNat).2.1 = d2 (civilN (t / 86400 + 865565).toNat).2.1 by
    simp only [d2, m1, m2])
  have hd := d2_inj _ _ (by omega) (by omega) (show d2 (civilN (s / 86400 + 865565).toNat).2.2 = d2 (civilN (t / 86400 + 865565).toNat).2.2 by
    simp only [d2, e1, e2])
  have hciv : civilN (s / 86400 + 865565).toNat = civilN (t / 86400 + 865565).toNat := by
    apply Prod.ext
    · omega
    · exact Prod.ext hm hd
  have hdays := civilN_inj _ _ hciv
  have hH := d2_inj ((s - s / 86400 * 86400).toNat / 3600) ((t - t / 86400 * 86400).toNat / 3600) (by omega) (by omega) (by simp only [d2, H1, H2])
  have hM := d2_inj ((s - s / 86400 * 86400).toNat / 60 % 60) ((t - t / 86400 * 86400).toNat / 60 % 60) (by omega) (by omega) (by simp only [d2, M1, M2])
  have hS := d2_inj ((s - s / 86400 * 86400).toNat % 60) ((t - t / 86400 * 86400).toNat % 60) (by omega) (by omega) (by simp only [d2, S1, S2])
  omega

/-! ### ASCII text is valid UTF-8 -/

theorem goStrClean_ascii : ∀ (f : Nat) (s : Bytes), s.length ≤ f → (∀ b ∈ s, b < 0x80) → goStrClean f s = true
  | 0, s, hl, _ => by
    have : s = [] := List.eq_nil_of_length_eq_zero (by omega)
    subst this; rfl
  | _ + 1, [], _, _ => rfl
  | f + 1, b :: t, hl, h => by
    have hb : b < 0x80 := h b (by simp)
    simp only [goStrClean, hb, if_true]
    exact goStrClean_ascii f t (by simp only [List.length_cons] at hl; omega) (fun c hc => h c (by simp [hc]))

theorem ascii_clean (s : Bytes) (h : ∀ b ∈ s, b < 0x80) : utf8Clean s = true := goStrClean_ascii _ s (Nat.le_refl _) h

theorem digitCh_ascii (k : Nat) : Txt.digitCh (k % 10) < 0x80 := by
  have : k % 10 < 10 := Nat.mod_lt _ (by omega)
  simp only [Txt.digitCh, UInt8.lt_iff_toNat_lt, UInt8.toNat_ofNat']
  have e : (0x80 : UInt8).toNat = 128 := rfl
  omega

theorem rfc3339_clean (t : Int) : utf8Clean (rfc3339 t) = true := by
  apply ascii_clean
  intro b hb
  simp only [rfc3339, d2, d4, List.cons_append, List.nil_append, List.mem_cons, List.not_mem_nil, or_false] at hb
  rcases hb with hb | hb | hb | hb | hb | hb | hb | hb | hb | hb | hb | hb | hb | hb | hb | hb | hb | hb | hb | hb <;> subst hb <;>
    first | exact digitCh_ascii _ | decide

/-! ### `hex.Dump`: the text determines the bytes -/

theorem hexCh_inj : ∀ a b : Fin 16, Txt.hexCh false a.val = Txt.hexCh false b.val → a = b := by decide

theorem hexCh_ne_sp : ∀ a : Fin 16, Txt.hexCh false a.val ≠ 32 := by decide

theorem hex2_inj (x y : UInt8) (h : hex2 x = hex2 y) : x = y := by
  simp only [hex2, List.cons.injEq, and_true] at h
  have hx : x.toNat < 256 := x.toNat_lt
  have hy : y.toNat < 256 := y.toNat_lt
  have h1 := hexCh_inj ⟨x.toNat / 16, by omega⟩ ⟨y.toNat / 16, by omega⟩ h.1
  have h2 := hexCh_inj ⟨x.toNat % 16, by omega⟩ ⟨y.toNat % 16, by omega⟩ h.2
  simp only [Fin.mk.injEq] at h1 h2
  exact UInt8.toNat_inj.mp (by omega)

theorem hexCells_length (n : Nat) : ∀ a b : Bytes, (hexCells n a).length = (hexCells n b).length := by
  induction n with
  | zero => intro a b; rfl
  | succ n ih =>
    intro a b
    simp only [hexCells, List.length_append]
    rw [ih (a.drop 1) (b.drop 1)]
    cases a <;> cases b <;> simp [hex2]

theorem hexCells_inj (n : Nat) : ∀ a b : Bytes, a.length ≤ n → b.length ≤ n → hexCells n a = hexCells n b → a = b := by
  induction n with
  | zero =>
    intro a b ha hb _
    rw [List.eq_nil_of_length_eq_zero (by omega : a.length = 0), List.eq_nil_of_length_eq_zero (by omega : b.length = 0)]
  | succ n ih =>
    intro a b ha hb h
    cases a with
    | nil =>
      cases b with
      | nil => rfl
      | cons y t =>
        simp only [hexCells, hex2, List.cons_append, List.nil_append, List.cons.injEq] at h
        exact absurd h.1.symm (hexCh_ne_sp ⟨y.toNat / 16, by have := y.toNat_lt; omega⟩)
    | cons x s =>
      cases b with
      | nil =>
        simp only [hexCells, hex2, List.cons_append, List.nil_append, List.cons.injEq] at h
        exact absurd h.1 (hexCh_ne_sp ⟨x.toNat / 16, by have := x.toNat_lt; omega⟩)
      | cons y t =>
        simp only [hexCells, hex2, List.cons_append, List.nil_append, List.cons.injEq, List.drop_succ_cons, List.drop_zero,
          true_and] at h
        have hxy : x = y := hex2_inj x y (by simp only [hex2, h.1, h.2.1])
        have hrest := List.append_cancel_left h.2.2
        rw [hxy, ih s t (by simp only [List.length_cons] at ha; omega) (by simp only [List.length_cons] at hb; omega) hrest]

theorem hexDumpLine_ne (off : Nat) (c : Bytes) : hexDumpLine off c ≠ [] := by
  intro h
  have := congrArg List.length h
  simp [hexDumpLine] at this

theorem hexDumpLoop_nil (f off : Nat) (b : Bytes) (hb : b.length ≤ 16 * f) (h : hexDumpLoop f off b = []) : b = [] := by
  cases f with
  | zero => exact List.eq_nil_of_length_eq_zero (by omega)
  | succ f =>
    cases b with
    | nil => rfl
    | cons y t =>
      simp only [hexDumpLoop, List.isEmpty_cons, Bool.false_eq_true, if_false] at h
      have := congrArg List.length h
      simp [hexDumpLine] at this

theorem hexDumpLoop_inj : ∀ (fa fb off : Nat) (a b : Bytes), a.length ≤ 16 * fa → b.length ≤ 16 * fb →
    hexDumpLoop fa off a = hexDumpLoop fb off b → a = b
  | 0, fb, off, a, b, ha, hb, h => by
    have ea : a = [] := List.eq_nil_of_length_eq_zero (by omega)
    subst ea
    simp only [hexDumpLoop] at h
    exact (hexDumpLoop_nil fb off b hb h.symm).symm
  | fa + 1, 0, off, a, b, ha, hb, h => by
    have eb : b = [] := List.eq_nil_of_length_eq_zero (by omega)
    subst eb
    simp only [hexDumpLoop] at h
    exact hexDumpLoop_nil (fa + 1) off a ha h
  | fa + 1, fb + 1, off, a, b, ha, hb, h => by
    cases a with
    | nil =>
      simp only [hexDumpLoop, List.isEmpty_nil, if_true] at h
      exact (hexDumpLoop_nil (fb + 1) off b hb h.symm).symm
    | cons x s =>
      cases b with
      | nil =>
        simp only [hexDumpLoop, List.isEmpty_nil, if_true] at h
        exact hexDumpLoop_nil (fa + 1) off (x :: s) ha (by simpa [hexDumpLoop] using h)
      | cons y t =>
        simp only [hexDumpLoop, List.isEmpty_cons, Bool.false_eq_true, if_false, hexDumpLine, List.append_assoc] at h
        have h1 := List.append_cancel_left (List.append_cancel_left h)
        have hl := hexCells_length 16 ((x :: s).take 16) ((y :: t).take 16)
        have h2 := List.append_inj h1 hl
        have hc := hexCells_inj 16 _ _ (by simp [List.length_take]; omega) (by simp [List.length_take]; omega) h2.1
        have h3 := h2.2
        rw [hc] at h3
        have h4 := List.append_cancel_left (List.append_cancel_left h3)
        simp only [List.cons_append, List.nil_append, List.cons.injEq, true_and] at h4
        have ih := hexDumpLoop_inj fa fb (off + 16) ((x :: s).drop 16) ((y :: t).drop 16)
          (by simp only [List.length_drop, List.length_cons] at ha ⊢; omega)
          (by simp only [List.length_drop, List.length_cons] at hb ⊢; omega) h4
        rw [← List.take_append_drop 16 (x :: s), ← List.take_append_drop 16 (y :: t), hc, ih]

/-- `encoding/hex.Dump` loses nothing: two byte strings with the same dump are equal -/
theorem hexDump_inj (a b : Bytes) (h : hexDump a = hexDump b) : a = b :=
  hexDumpLoop_inj _ _ 0 a b (by omega) (by omega) h

end PgVerif.Proofs.CliRender
