/-
  C12 helper lemmas: the cache-free meanings of the RemoteClient methods (Model/RemoteCold.lean) on the file tree of a
  `Spec.Cluster`, against the Spec views and against DumpDatabaseFromFiles / dumpTable (the directory-dump path).
-/
import PgVerif.Proofs.ClusterTree
import PgVerif.Proofs.RemoteCold
import PgVerif.Props.C10.Cluster
import PgVerif.Props.C10.Rows
namespace PgVerif.Proofs.Remote
open PgVerif PgVerif.Model PgVerif.Spec PgVerif.Proofs PgVerif.Proofs.Cluster List
open PgVerif.Spec (TableDump DatabaseDump DumpResult Options ClassRow)

/-! ### PG_VERSION -/

theorem fsOf_version (c : Cluster) : fsOf c (strBytes "PG_VERSION") = some (natBytes c.pgVersion ++ [10]) := by
  unfold fsOf filesOf
  simp only [cons_append, lookup_cons, beq_self_eq_true]

/-- the client's version hint on the tree of a cluster is the cluster's major version -/
theorem rcVersionInt_fsOf (c : Cluster) (h1 : 12 ≤ c.pgVersion) (h2 : c.pgVersion ≤ 16) : rcVersionInt (fsOf c) = (c.pgVersion : Int) := by
  unfold rcVersionInt
  rw [fsOf_version]
  have : c.pgVersion = 12 ∨ c.pgVersion = 13 ∨ c.pgVersion = 14 ∨ c.pgVersion = 15 ∨ c.pgVersion = 16 := by omega
  rcases this with h | h | h | h | h <;> rw [h] <;> simp only [natBytes, strBytes_eq] <;> decide

/-- PG_VERSION names the layout of the cluster's pg_attribute: the client's hint always satisfies `SchemaOK` -/
theorem schemaOK_version (c : Cluster) (h1 : 12 ≤ c.pgVersion) (att : HeapOf AttrRow) : SchemaOK c.layout att c.pgVersion := by
  unfold SchemaOK Cluster.layout
  by_cases h16 : c.pgVersion ≥ 16
  · rw [if_pos h16]; exact Or.inl ⟨h16, rfl⟩
  · rw [if_neg h16]
    by_cases h14 : c.pgVersion ≥ 14
    · rw [if_pos h14]; exact Or.inr (Or.inl ⟨h14, by omega, rfl⟩)
    · rw [if_neg h14]; exact Or.inr (Or.inr (Or.inl ⟨h1, by omega, rfl⟩))

/-! ### the loaders on the tree -/

theorem databasesCold_tree (dec : Dec) (hd : CatDec dec) (c : Cluster) (hwf : c.WF) (fs : Bytes → Option Bytes) (htree : TreeOf c fs) :
    databasesCold (readRows dec) fs = .ok (c.dbs.live.map fun d => ⟨d.oid, d.name⟩) := by
  unfold databasesCold
  rw [htree.global]
  obtain ⟨_, _, _, hdbs, hfit, _, _⟩ := hwf
  exact parsePGDatabase_enc dec hd c.pgVersion c.dbs hdbs hfit

theorem tablesOf_sorted (π : MapOrder TableInfo) (hπ : ∀ l, π l ~ l) (tables : List (Nat × TableInfo)) (hk : KeysOK tables) :
    tablesOf π tables = sortByFilenode (tables.map (·.2)) := by
  unfold tablesOf
  rw [sortByFilenode_eq, sortByFilenode_eq]
  apply sortBy_perm_invariant
  · exact (hπ tables).map _
  · intro a ha b hb hab
    exact keysOK_inj tables hk a (((hπ tables).map _).subset ha) b (((hπ tables).map _).subset hb) hab

/-- the catalog a client loads for a database of the cluster: the live pg_class rows with storage, and for every relation
oid its live user attributes in attnum order — read under the PG_VERSION hint, which always names the layout -/
theorem catalogCold_tree (dec : Dec) (hd : CatDec dec) (c : Cluster) (hwf : c.WF) (fs : Bytes → Option Bytes) (htree : TreeOf c fs)
    (hver : rcVersionInt fs = (c.pgVersion : Int)) (oid : Nat) (d : DbContent) (hl : c.content.lookup oid = some d) :
    ∃ tables attrs, catalogCold (readRows dec) fs oid = .ok (tables, attrs) ∧ KeysOK tables ∧
      tables.map (·.2) = (d.cls.live.filter (·.filenode != 0)).map infoOfRel ∧
      ∀ k, 0 < k → (mapGet attrs k).getD [] = (userAttrs d.att k).map attrInfoOf := by
  have hdwf : d.WF c.layout := hwf.2.2.2.2.2.2 (oid, d) (lookup_mem_pair _ _ _ hl)
  obtain ⟨hcls, haw, _, _⟩ := dbWF_parts c.layout d hdwf
  obtain ⟨_, _, hfnd, _, hattnd, _, hfitc, _, _, _⟩ := hdwf
  obtain ⟨rows, hrows_ok, hrows⟩ := readRows_class dec hd d.cls hcls hfitc
  obtain ⟨tables, ht, hvals⟩ := parsePGClass_live (readRows dec) _ rows d.cls.live hrows_ok hrows hfnd
  obtain ⟨attrs, ha, hattrs⟩ := parsePGAttribute_enc dec hd c.layout d.att c.pgVersion haw (schemaOK_version c hwf.1 d.att) hattnd
  refine ⟨tables, attrs, ?_, parsePGClass_keysOK (readRows dec) _ tables ht, hvals, hattrs⟩
  unfold catalogCold
  rw [htree.cls oid d hl, htree.att oid d hl]
  simp only [ht, ok_bind, hver, ha]
  rfl

theorem catalogCold_missing (rr : RowReader) (c : Cluster) (fs : Bytes → Option Bytes) (htree : TreeOf c fs) (oid : Nat)
    (hl : c.content.lookup oid = none) : catalogCold rr fs oid = .ok ([], []) := by
  unfold catalogCold
  rw [htree.missing oid hl]
  rfl

/-- the relations `Tables()` lists: every live relation with storage, in filenode order -/
def relsOf (d : DbContent) : List ClassRow := sortBy ClassRow.filenode (d.cls.live.filter (·.filenode != 0))

theorem tablesCold_tree (dec : Dec) (hd : CatDec dec) (π : MapOrder TableInfo) (hπ : ∀ l, π l ~ l) (c : Cluster) (hwf : c.WF)
    (fs : Bytes → Option Bytes) (htree : TreeOf c fs) (hver : rcVersionInt fs = (c.pgVersion : Int)) (oid : Nat) (d : DbContent)
    (hl : c.content.lookup oid = some d) : tablesCold (readRows dec) π fs oid = .ok ((relsOf d).map infoOfRel) := by
  obtain ⟨tables, attrs, hcat, hk, hvals, _⟩ := catalogCold_tree dec hd c hwf fs htree hver oid d hl
  unfold tablesCold
  simp only [hcat, ok_bind, pure_eq_ok]
  rw [tablesOf_sorted π hπ tables hk, hvals, sortByFilenode_eq,
    sortBy_map infoOfRel ClassRow.filenode TableInfo.filenode (fun _ => rfl)]
  rfl

theorem columnsCold_tree (dec : Dec) (hd : CatDec dec) (c : Cluster) (hwf : c.WF) (fs : Bytes → Option Bytes) (htree : TreeOf c fs)
    (hver : rcVersionInt fs = (c.pgVersion : Int)) (oid : Nat) (d : DbContent) (hl : c.content.lookup oid = some d)
    (k : Nat) (hk : 0 < k) : columnsCold (readRows dec) fs oid k = .ok ((userAttrs d.att k).map attrInfoOf) := by
  obtain ⟨tables, attrs, hcat, _, _, hattrs⟩ := catalogCold_tree dec hd c hwf fs htree hver oid d hl
  unfold columnsCold
  simp only [hcat, ok_bind, pure_eq_ok]
  rw [hattrs k hk]

/-! ### one table: DumpTable / Query read what dumpTable reads -/

theorem readTableRows_empty (dec : Dec) (cols : List Column) : readTableRows (readRows dec) [] cols = .ok [] := by
  unfold readTableRows
  split <;> rfl

theorem filter_num_pos (A : List AttrInfo) (h : ∀ a ∈ A, a.num > 0) : A.filter (·.num > 0) = A := by
  apply filter_eq_self.mpr
  intro a ha
  simpa using h a ha

/-- **RemoteClient.DumpTable = the directory dump's dumpTable** (model against model, for every row reader that returns no
rows on an empty file, every file system, every table with a file name of its own): the two code paths read the same file
with the same columns; the only difference — dumpTable does not call the row reader on an empty file — is immaterial. -/
theorem dumpTableCold_eq (rr : RowReader) (fs : RemoteReader) (oid : Nat) (t : TableInfo) (A : List AttrInfo)
    (hcol : columnsCold rr fs oid t.oid = .ok A) (hfn : t.filenode ≠ 0) (hnum : ∀ a ∈ A, a.num > 0)
    (hempty : ∀ cols, readTableRows rr [] cols = .ok []) :
    dumpTableCold rr fs oid t = dumpTable rr t.filenode t A (some fun fn => fs (basePath oid fn)) {} := by
  unfold dumpTableCold queryCold dumpTable
  simp only [if_neg hfn, Bool.false_eq_true, if_false]
  cases hf : fs (basePath oid t.filenode) with
  | none =>
    simp only [hcol, ok_bind, pure_eq_ok, filter_num_pos A hnum]
    rfl
  | some data =>
    simp only [hcol, ok_bind]
    unfold queryWith
    simp only [if_neg hfn, hf]
    by_cases hd : data.length = 0
    · have hnil : data = [] := length_eq_zero_iff.mp hd
      rw [if_pos hd, hnil, hempty]
      simp only [ok_bind, pure_eq_ok, filter_num_pos A hnum]
      rfl
    · rw [if_neg hd]
      cases readTableRows rr data (A.map fun a => ⟨a.name, a.typid, a.len, a.num, a.align⟩) with
      | error e => rfl
      | ok rows =>
        simp only [ok_bind, pure_eq_ok, filter_num_pos A hnum]

/-- the unrestricted Query returns the rows of DumpTable -/
theorem queryCold_rows (rr : RowReader) (fs : RemoteReader) (oid : Nat) (t : TableInfo) (td : TableDump)
    (h : dumpTableCold rr fs oid t = .ok td) : queryCold rr fs oid (some t) none = .ok td.rows := by
  unfold dumpTableCold at h
  cases hq : queryCold rr fs oid (some t) none with
  | error e => simp [hq] at h
  | ok rows =>
    simp only [hq, ok_bind] at h
    cases hc : columnsCold rr fs oid t.oid with
    | error e => simp [hc] at h
    | ok A =>
      simp only [hc, ok_bind, pure_eq_ok] at h
      injection h with h
      subst h
      rfl

/-! ### the table loop of DumpDatabase -/

/-- DumpDatabase's two `continue`s on a TableInfo: neither `pg_` nor `sql_` prefixed, relkind `r` (or unknown) -/
def remoteSel (t : TableInfo) : Bool :=
  !(isPrefixB (strBytes "pg_") t.name || isPrefixB (strBytes "sql_") t.name) && !(t.kind != [114] && t.kind != [])

/-- the loop is: DumpTable on the selected tables, then drop the tables without rows -/
theorem dumpTablesCold_collect (rr : RowReader) (fs : RemoteReader) (oid : Nat) : ∀ ts : List TableInfo,
    dumpTablesCold rr fs oid ts =
      Except.map (List.filter fun t : TableDump => decide (t.rows.length > 0))
        (collectM (fun t => do let td ← dumpTableCold rr fs oid t; pure (some td)) (ts.filter remoteSel))
  | [] => rfl
  | t :: ts => by
    unfold dumpTablesCold
    rw [dumpTablesCold_collect rr fs oid ts]
    by_cases h1 : (isPrefixB (strBytes "pg_") t.name || isPrefixB (strBytes "sql_") t.name) = true
    · rw [if_pos h1]
      have : remoteSel t = false := by simp [remoteSel, h1]
      rw [filter_cons, this]; rfl
    · rw [if_neg h1]
      by_cases h2 : (t.kind != [114] && t.kind != []) = true
      · rw [if_pos h2]
        have : remoteSel t = false := by simp [remoteSel, h2]
        rw [filter_cons, this]; rfl
      · rw [if_neg h2]
        have : remoteSel t = true := by
          simp only [Bool.not_eq_true] at h1 h2
          simp [remoteSel, h1, h2]
        rw [filter_cons, this]
        simp only [if_true, collectM]
        cases dumpTableCold rr fs oid t with
        | error e => rfl
        | ok td =>
          simp only [ok_bind]
          cases collectM (fun t => do let td ← dumpTableCold rr fs oid t; pure (some td)) (ts.filter remoteSel) with
          | error e => rfl
          | ok rest =>
            simp only [Except.map, ok_bind, pure_eq_ok]
            by_cases hr : td.rows.length > 0
            · simp [hr, filter_cons]
            · simp [hr, filter_cons]

/-- filtering the inputs of a loop that emits one value per input = filtering its outputs, when the loop returns -/
theorem collectM_filter_some {α β} (f : α → M (Option β)) (p : α → Bool) (q : β → Bool) : ∀ (xs : List α) (ys : List β),
    collectM f xs = .ok ys → (∀ x ∈ xs, ∀ y, f x = .ok y → ∃ t, y = some t ∧ q t = p x) →
    collectM f (xs.filter p) = .ok (ys.filter q)
  | [], ys, h, _ => by simp [collectM] at h; subst h; rfl
  | x :: xs, ys, h, hp => by
    simp only [collectM] at h
    cases hx : f x with
    | error e => simp [hx] at h
    | ok y =>
      simp only [hx, ok_bind] at h
      cases hr : collectM f xs with
      | error e => simp [hr] at h
      | ok rest =>
        simp only [hr, ok_bind, pure_eq_ok] at h
        injection h with h
        subst h
        have ih := collectM_filter_some f p q xs rest hr (fun z hz => hp z (by simp [hz]))
        obtain ⟨t, rfl, hq⟩ := hp x (by simp) y hx
        simp only [filter_cons, hq]
        by_cases hpx : p x = true
        · simp only [hpx, if_true, collectM, hx, ok_bind, ih, pure_eq_ok]
        · simp only [hpx, Bool.false_eq_true, if_false, ih]

/-! ### DumpDatabase against DumpDatabaseFromFiles -/

theorem remoteSel_infoOfRel (r : ClassRow) (hk : r.kind < 256) (hf : r.filenode ≠ 0) :
    remoteSel (infoOfRel r) = (selectedRel {} r && !isPrefixB (strBytes "sql_") r.name) := by
  rw [← keepTable_selected {} r hk hf (Or.inl rfl)]
  unfold remoteSel keepTable
  simp only [Bool.true_and, bne_self_eq_false, Bool.false_and, Bool.not_false, Bool.and_true, Bool.not_or]
  have hn : (infoOfRel r).name = r.name := rfl
  rw [hn]
  cases isPrefixB (strBytes "pg_") r.name <;> cases isPrefixB (strBytes "sql_") r.name <;>
    cases ((infoOfRel r).kind != [114] && (infoOfRel r).kind != []) <;> rfl

/-- the relations DumpDatabase (and the Summary) keep: the Spec's ordinary tables at default options, without the
`sql_`-prefixed ones, in filenode order -/
theorem remote_selected (l : Layout) (d : DbContent) (hdwf : d.WF l) :
    (relsOf d).filter (remoteSel ∘ infoOfRel) =
      (sortBy ClassRow.filenode (d.cls.live.filter (selectedRel {}))).filter fun r => !isPrefixB (strBytes "sql_") r.name := by
  obtain ⟨_, _, hkind, _⟩ := dbWF_parts l d hdwf
  have hfnd := hdwf.2.2.1
  have hinj := nodup_map_inj ClassRow.filenode _ hfnd
  have hmemNZ : ∀ r ∈ relsOf d, r ∈ d.cls.live ∧ r.filenode ≠ 0 := by
    intro r hr'
    have := mem_filter.mp ((sortBy_perm _ _).subset hr')
    exact ⟨this.1, by simpa using this.2⟩
  have h1 : (relsOf d).filter (remoteSel ∘ infoOfRel) =
      (relsOf d).filter fun r => !isPrefixB (strBytes "sql_") r.name && selectedRel {} r := by
    apply filter_congr
    intro r hr'
    obtain ⟨h1, h2⟩ := hmemNZ r hr'
    rw [Bool.and_comm]
    exact remoteSel_infoOfRel r (hkind r h1) h2
  rw [h1, ← filter_filter]
  congr 1
  unfold relsOf
  rw [sortBy_filter ClassRow.filenode (selectedRel {}) _ hinj, filter_filter]
  congr 1
  apply filter_congr
  intro r _
  unfold selectedRel
  cases (r.filenode != 0) <;> simp

theorem dumpTable_opts (rr : RowReader) (fn : Nat) (info : TableInfo) (attrs : List AttrInfo) (reader : Option FileReader)
    (o o' : Options) (h : o.listOnly = o'.listOnly) : dumpTable rr fn info attrs reader o = dumpTable rr fn info attrs reader o' := by
  unfold dumpTable
  rw [h]

theorem remoteKeeps_norm (t : TableDump) : remoteKeeps (normTable t) = remoteKeeps t := rfl

/-- **RemoteClient.DumpDatabase's tables = DumpDatabaseFromFiles' tables minus the documented omissions** — model against
model on the encoded catalogs of a well-formed database, whatever the heap files are: if the directory-dump path (run
with the client's version hint) returns the tables `ts`, the client's table loop returns `ts` without the tables that have no
rows and without the `sql_`-prefixed ones (`Spec.remoteKeeps`), in the same order. -/
theorem dumpTablesCold_vs_files (dec : Dec) (hd : CatDec dec) (π : MapOrder TableInfo) (hπ : ∀ l, π l ~ l) (c : Cluster) (hwf : c.WF)
    (fs : Bytes → Option Bytes) (htree : TreeOf c fs) (hver : rcVersionInt fs = (c.pgVersion : Int)) (oid : Nat) (d : DbContent)
    (hl : c.content.lookup oid = some d) (ts : List TableDump)
    (h : dumpDatabaseFromFiles (readRows dec) π (encHeapOf pgClassCols classVals d.cls)
          (encHeapOf (pgAttributeCols c.layout) (attrVals c.layout) d.att) (some fun fn => fs (basePath oid fn))
          { pgVersion := c.pgVersion } = .ok ts) :
    dumpTablesCold (readRows dec) fs oid ((relsOf d).map infoOfRel) = .ok (ts.filter remoteKeeps) := by
  have hdwf : d.WF c.layout := hwf.2.2.2.2.2.2 (oid, d) (lookup_mem_pair _ _ _ hl)
  obtain ⟨_, _, _, hoid⟩ := dbWF_parts c.layout d hdwf
  rw [dumpDatabase_tables dec hd π hπ c.layout d _ _ hdwf (schemaOK_version c hwf.1 d.att) (Or.inl rfl)] at h
  have hso : selectedRel ({ pgVersion := c.pgVersion } : Options) = selectedRel {} := rfl
  rw [hso] at h
  rw [dumpTablesCold_collect, filter_map, ← PgVerif.Proofs.Rows.collectM_map infoOfRel]
  have hsel := remote_selected c.layout d hdwf
  rw [hsel]
  -- each DumpTable is the directory dump's dumpTable
  have hstep : ∀ r ∈ (sortBy ClassRow.filenode (d.cls.live.filter (selectedRel {}))).filter (fun r => !isPrefixB (strBytes "sql_") r.name),
      (do let td ← dumpTableCold (readRows dec) fs oid (infoOfRel r); pure (some td)) =
      (do let t ← dumpTable (readRows dec) r.filenode (infoOfRel r) ((userAttrs d.att r.oid).map attrInfoOf)
            (some fun fn => fs (basePath oid fn)) { pgVersion := c.pgVersion }; pure (some t)) := by
    intro r hr'
    have hm := mem_filter.mp ((sortBy_perm _ _).subset (mem_filter.mp hr').1)
    obtain ⟨_, hfn0⟩ := selectedRel_kind {} r hm.2
    have hcol := columnsCold_tree dec hd c hwf fs htree hver oid d hl r.oid (hoid r hm.1)
    rw [dumpTableCold_eq (readRows dec) fs oid (infoOfRel r) _ hcol hfn0 ?_ (readTableRows_empty dec),
      dumpTable_opts _ _ _ _ _ {} { pgVersion := c.pgVersion } rfl]
    · rfl
    · intro a ha
      obtain ⟨a', ha', rfl⟩ := mem_map.mp ha
      have h2 := (mem_filter.mp ((mem_sortAttrs a' _).mp ha')).2
      simp only [decide_eq_true_eq] at h2
      exact h2.2
  rw [PgVerif.Proofs.Rows.collectM_congr _ _ _ hstep]
  have hf := collectM_filter_some _ (fun r : ClassRow => !isPrefixB (strBytes "sql_") r.name)
    (fun t : TableDump => !isPrefixB (strBytes "sql_") t.name) _ ts h ?_
  · rw [hf]
    simp only [Except.map, filter_filter]
    rfl
  · intro r _ y hy
    cases hdt : dumpTable (readRows dec) r.filenode (infoOfRel r) ((userAttrs d.att r.oid).map attrInfoOf)
        (some fun fn => fs (basePath oid fn)) { pgVersion := c.pgVersion } with
    | error e => simp [hdt] at hy
    | ok t =>
      simp only [hdt, ok_bind, pure_eq_ok] at hy
      injection hy with hy
      subst hy
      refine ⟨t, rfl, ?_⟩
      rw [(dumpTable_shape _ _ _ _ _ _ t hdt).2.1]
      rfl

/-! ### DumpDatabase and DumpAll on the tree, against the Spec -/

def toInfo (d : DbRow) : DatabaseInfo := ⟨d.oid, d.name⟩

theorem find_db : ∀ (dbs : List DbRow), (dbs.map (·.oid)).Nodup → ∀ db ∈ dbs,
    (dbs.map toInfo).find? (·.oid == db.oid) = some (toInfo db)
  | [], _, _, h => by simp at h
  | x :: xs, hnd, db, h => by
    simp only [map_cons, nodup_cons] at hnd
    simp only [map_cons, find?_cons]
    rcases mem_cons.mp h with rfl | h'
    · simp [toInfo]
    · have hne : ((toInfo x).oid == db.oid) = false := by
        simp only [toInfo, beq_eq_false_iff_ne, ne_eq]
        intro he
        exact hnd.1 (by rw [he]; exact mem_map_of_mem h')
      rw [hne]
      exact find_db xs hnd.2 db h'

theorem perm_nil_eq {β} (π : MapOrder β) (hπ : ∀ l, π l ~ l) : π [] = [] := (hπ []).eq_nil

/-- what the dump of a database needs (the `files` / `readable` parts of `DbDumpable` and `A02Free`, at default options) -/
structure RemoteDumpable (d : DbContent) : Prop where
  files : ∀ r ∈ d.cls.live, selectedRel {} r = true → r.filenode ≠ 1259 ∧ r.filenode ≠ 1249 ∧ d.raws.lookup r.filenode = none
  readable : ∀ r ∈ d.cls.live, selectedRel {} r = true → ∀ pages, d.heaps.lookup r.filenode = some pages → pages ≠ [] → RelReadable d r
  inline : A02Free d {}
  /-- carve-out of open finding C01-MISSINGVAL: the database records no fast default -/
  nofast : d.missing = []

theorem remoteDumpable_of (l : Layout) (d : DbContent) (h : DbDumpable l d {} ∧ A02Free d {}) (hm : d.missing = []) : RemoteDumpable d :=
  ⟨h.1.files, fun r hr hs pages hp hne => h.1.readable r hr hs pages hp rfl hne, h.2, hm⟩

/-- **DumpDatabase on the tree of a cluster.**  For a live database `db`: the client answers with the database's oid and
name and — if the database has a directory — the Spec's tables of the database at default options (ordinary tables, not
`pg_`-prefixed, in filenode order, with columns and live rows) minus the documented omissions (`Spec.remoteKeeps`: tables
without rows and `sql_`-prefixed tables); a database without a directory is answered with no tables. -/
theorem dumpDatabaseCold_tree (dec : Dec) (hd : CatDec dec) (htot : Props.C10.Rows.TotalDec dec) (π : MapOrder TableInfo)
    (hπ : ∀ l, π l ~ l) (c : Cluster) (hwf : c.WF) (fs : Bytes → Option Bytes) (htree : TreeOf c fs)
    (hver : rcVersionInt fs = (c.pgVersion : Int)) (db : DbRow) (hdb : db ∈ c.dbs.live)
    (hdump : ∀ d, c.content.lookup db.oid = some d → RemoteDumpable d) :
    ∃ D, dumpDatabaseCold (readRows dec) π fs db.oid = .ok (some D) ∧
      normDb D = expectedRemoteDb (varlenaVal dec) db (c.content.lookup db.oid) := by
  unfold dumpDatabaseCold
  rw [databasesCold_tree dec hd c hwf fs htree]
  simp only [ok_bind]
  have hf := find_db c.dbs.live hwf.2.2.1 db hdb
  unfold toInfo at hf
  rw [hf]
  simp only
  cases hl : c.content.lookup db.oid with
  | none =>
    unfold tablesCold
    rw [catalogCold_missing _ c fs htree db.oid hl]
    simp only [ok_bind, pure_eq_ok, tablesOf, perm_nil_eq π hπ, map_nil, sortByFilenode, foldr_nil, dumpTablesCold]
    exact ⟨_, rfl, rfl⟩
  | some d =>
    have hdwf : d.WF c.layout := hwf.2.2.2.2.2.2 (db.oid, d) (lookup_mem_pair _ _ _ hl)
    obtain ⟨hfiles, hread, hinl, hmiss⟩ := hdump d hl
    rw [tablesCold_tree dec hd π hπ c hwf fs htree hver db.oid d hl]
    simp only [ok_bind]
    obtain ⟨ts, hts⟩ := Props.C10.Cluster.C10_total_dumpDatabaseFromFiles (readRows dec)
      (fun data cols vis => Props.C10.Rows.C10_total_readRows dec htot data cols vis) π
      (encHeapOf pgClassCols classVals d.cls) (encHeapOf (pgAttributeCols c.layout) (attrVals c.layout) d.att)
      (some fun fn => fs (basePath db.oid fn)) { pgVersion := c.pgVersion }
    rw [dumpTablesCold_vs_files dec hd π hπ c hwf fs htree hver db.oid d hl ts hts]
    simp only [ok_bind, pure_eq_ok]
    refine ⟨_, rfl, ?_⟩
    have hspec := dumpDatabase_spec dec hd π hπ c.layout d { pgVersion := c.pgVersion } db (fun fn => fs (basePath db.oid fn)) hdwf
      (schemaOK_version c hwf.1 d.att) (Or.inl rfl) hinl hmiss
      (fun r hr hs _ => by
        obtain ⟨h1, h2, h3⟩ := hfiles r hr hs
        exact htree.heap db.oid d hl r.filenode h1 h2 h3)
      (fun r hr hs pages hp _ hne => hread r hr hs pages hp hne) ts hts
    have he : expectedDb (varlenaVal dec) { pgVersion := c.pgVersion } db d = expectedDb (varlenaVal dec) {} db d := rfl
    rw [he] at hspec
    unfold expectedRemoteDb normDb
    simp only
    rw [← hspec, filter_map]
    have : (remoteKeeps ∘ normTable) = remoteKeeps := funext remoteKeeps_norm
    rw [this]
    rfl

/-- **DumpAll on the tree of a cluster.** -/
theorem dumpAllLoopCold_tree (dec : Dec) (hd : CatDec dec) (htot : Props.C10.Rows.TotalDec dec) (π : MapOrder TableInfo)
    (hπ : ∀ l, π l ~ l) (c : Cluster) (hwf : c.WF) (fs : Bytes → Option Bytes) (htree : TreeOf c fs)
    (hver : rcVersionInt fs = (c.pgVersion : Int)) (htpl : TemplatesByName c)
    (hdump : ∀ db ∈ c.dbs.live, db.isTemplate = false → ∀ d, c.content.lookup db.oid = some d → RemoteDumpable d) :
    ∀ l : List DbRow, (∀ db ∈ l, db ∈ c.dbs.live) →
      ∃ R, dumpAllLoopCold (readRows dec) π fs (l.map toInfo) = .ok R ∧
        R.map normDb = (l.filter fun db => !db.isTemplate).map fun db => expectedRemoteDb (varlenaVal dec) db (c.content.lookup db.oid)
  | [], _ => ⟨[], rfl, rfl⟩
  | db :: rest, hl => by
    obtain ⟨R, hR, hRs⟩ := dumpAllLoopCold_tree dec hd htot π hπ c hwf fs htree hver htpl hdump rest (fun x hx => hl x (by simp [hx]))
    have hdb := hl db (by simp)
    have ht : isPrefixB (strBytes "template") (toInfo db).name = db.isTemplate := htpl db hdb
    simp only [map_cons]
    unfold dumpAllLoopCold
    rw [ht]
    cases hti : db.isTemplate with
    | true =>
      simp only [if_true, filter_cons, hti, Bool.not_true, Bool.false_eq_true, if_false]
      exact ⟨R, hR, hRs⟩
    | false =>
      simp only [Bool.false_eq_true, if_false, filter_cons, hti, Bool.not_false, if_true, map_cons]
      obtain ⟨D, hD, hDs⟩ := dumpDatabaseCold_tree dec hd htot π hπ c hwf fs htree hver db hdb (hdump db hdb hti)
      have : (toInfo db).oid = db.oid := rfl
      rw [this, hD, hR]
      exact ⟨D :: R, rfl, by simp only [map_cons, hDs, hRs]⟩

/-! ### the Summary -/

/-- the table names the Spec expects under a database in the Summary: its ordinary tables at default options (in filenode
order, tables without rows included) that are not `sql_`-prefixed -/
def summaryNames (val : Spec.Val) (db : DbRow) (d : Option DbContent) : List Bytes :=
  match d with
  | some d => (((expectedDb val {} db d).tables.filter fun t => !isPrefixB (strBytes "sql_") t.name).map (·.name))
  | none => []

theorem summaryKeep_eq (r : ClassRow) :
    (fun t : TableInfo => !isPrefixB (strBytes "pg_") t.name && !isPrefixB (strBytes "sql_") t.name && t.kind == [114]) (infoOfRel r) =
      remoteSel (infoOfRel r) := by
  unfold remoteSel infoOfRel
  simp only
  cases isPrefixB (strBytes "pg_") r.name <;> cases isPrefixB (strBytes "sql_") r.name <;>
    cases h : (([UInt8.ofNat r.kind] : Bytes) == [114]) <;> simp [bne, h]

theorem summaryLoopCold_tree (dec : Dec) (hd : CatDec dec) (π : MapOrder TableInfo) (hπ : ∀ l, π l ~ l) (c : Cluster) (hwf : c.WF)
    (fs : Bytes → Option Bytes) (htree : TreeOf c fs) (hver : rcVersionInt fs = (c.pgVersion : Int)) (htpl : TemplatesByName c)
    (val : Spec.Val) :
    ∀ l : List DbRow, (∀ db ∈ l, db ∈ c.dbs.live) →
      ∃ per, summaryLoopCold (readRows dec) π fs (l.map toInfo) = .ok per ∧
        per.map (fun (p : DatabaseInfo × List TableInfo) => (p.1.name,
          (p.2.filter fun t => !isPrefixB (strBytes "pg_") t.name && !isPrefixB (strBytes "sql_") t.name && t.kind == [114]).map (·.name))) =
        (l.filter fun db => !db.isTemplate).map fun db => (db.name, summaryNames val db (c.content.lookup db.oid))
  | [], _ => ⟨[], rfl, rfl⟩
  | db :: rest, hl => by
    obtain ⟨per, hper, hps⟩ := summaryLoopCold_tree dec hd π hπ c hwf fs htree hver htpl val rest (fun x hx => hl x (by simp [hx]))
    have hdb := hl db (by simp)
    have ht : isPrefixB (strBytes "template") (toInfo db).name = db.isTemplate := htpl db hdb
    simp only [map_cons]
    unfold summaryLoopCold
    rw [ht]
    cases hti : db.isTemplate with
    | true =>
      simp only [if_true, filter_cons, hti, Bool.not_true, Bool.false_eq_true, if_false]
      exact ⟨per, hper, hps⟩
    | false =>
      simp only [Bool.false_eq_true, if_false, filter_cons, hti, Bool.not_false, if_true, map_cons]
      have hoid : (toInfo db).oid = db.oid := rfl
      rw [hoid]
      cases hlk : c.content.lookup db.oid with
      | none =>
        have htc : tablesCold (readRows dec) π fs db.oid = .ok [] := by
          unfold tablesCold
          rw [catalogCold_missing _ c fs htree db.oid hlk]
          simp only [ok_bind, pure_eq_ok, tablesOf, perm_nil_eq π hπ, map_nil, sortByFilenode, foldr_nil]
        rw [htc, hper]
        exact ⟨_, rfl, by simp only [map_cons, hps]; rfl⟩
      | some d =>
        have hdwf : d.WF c.layout := hwf.2.2.2.2.2.2 (db.oid, d) (lookup_mem_pair _ _ _ hlk)
        rw [tablesCold_tree dec hd π hπ c hwf fs htree hver db.oid d hlk, hper]
        refine ⟨_, rfl, ?_⟩
        simp only [map_cons, hps, ok_bind]
        congr 1
        congr 1
        unfold summaryNames
        simp only
        have hk : ((fun t : TableInfo => !isPrefixB (strBytes "pg_") t.name && !isPrefixB (strBytes "sql_") t.name && t.kind == [114]) ∘ infoOfRel) =
            remoteSel ∘ infoOfRel := funext (fun r => summaryKeep_eq r)
        rw [filter_map, hk, remote_selected c.layout d hdwf, map_map, expectedDb_tables, filter_map, map_map]
        rfl

end PgVerif.Proofs.Remote
