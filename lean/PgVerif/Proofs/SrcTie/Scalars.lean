/-
  Source-level tie for area `scalars`: every package-level integer constant of the Go files this area models,
  as extracted from the repository's *current source* by harness/cmd/srcfacts (Generated/Src.lean is rewritten on
  every run), equals the value the Lean model and the PostgreSQL-side Spec were written against.  A changed mask,
  oid, magic number or size breaks the named theorem below at build time (then the finder looks for an input).
  Hand-written expectations; where the model has a named constant the theorem ties the two names directly.
-/
import PgVerif.Generated.Src
import PgVerif.Model.Scalars
namespace PgVerif.Proofs.SrcTie.Scalars
open PgVerif.Generated
theorem types_OidBool : Src.types.OidBool = ((PgVerif.Model.Scalars.OidBool : Nat) : Int) := by decide
theorem types_OidBytea : Src.types.OidBytea = ((PgVerif.Model.Scalars.OidBytea : Nat) : Int) := by decide
theorem types_OidChar : Src.types.OidChar = ((PgVerif.Model.Scalars.OidChar : Nat) : Int) := by decide
theorem types_OidName : Src.types.OidName = ((PgVerif.Model.Scalars.OidName : Nat) : Int) := by decide
theorem types_OidInt8 : Src.types.OidInt8 = ((PgVerif.Model.Scalars.OidInt8 : Nat) : Int) := by decide
theorem types_OidInt2 : Src.types.OidInt2 = ((PgVerif.Model.Scalars.OidInt2 : Nat) : Int) := by decide
theorem types_OidInt4 : Src.types.OidInt4 = ((PgVerif.Model.Scalars.OidInt4 : Nat) : Int) := by decide
theorem types_OidText : Src.types.OidText = ((PgVerif.Model.Scalars.OidText : Nat) : Int) := by decide
theorem types_OidOid : Src.types.OidOid = ((PgVerif.Model.Scalars.OidOid : Nat) : Int) := by decide
theorem types_OidTid : Src.types.OidTid = ((PgVerif.Model.Scalars.OidTid : Nat) : Int) := by decide
theorem types_OidXid : Src.types.OidXid = ((PgVerif.Model.Scalars.OidXid : Nat) : Int) := by decide
theorem types_OidCid : Src.types.OidCid = ((PgVerif.Model.Scalars.OidCid : Nat) : Int) := by decide
theorem types_OidJSON : Src.types.OidJSON = ((PgVerif.Model.Scalars.OidJSON : Nat) : Int) := by decide
theorem types_OidXML : Src.types.OidXML = ((PgVerif.Model.Scalars.OidXML : Nat) : Int) := by decide
theorem types_OidPoint : Src.types.OidPoint = ((PgVerif.Model.Scalars.OidPoint : Nat) : Int) := by decide
theorem types_OidLseg : Src.types.OidLseg = ((PgVerif.Model.Scalars.OidLseg : Nat) : Int) := by decide
theorem types_OidPath : Src.types.OidPath = ((PgVerif.Model.Scalars.OidPath : Nat) : Int) := by decide
theorem types_OidBox : Src.types.OidBox = ((PgVerif.Model.Scalars.OidBox : Nat) : Int) := by decide
theorem types_OidPolygon : Src.types.OidPolygon = ((PgVerif.Model.Scalars.OidPolygon : Nat) : Int) := by decide
theorem types_OidLine : Src.types.OidLine = ((PgVerif.Model.Scalars.OidLine : Nat) : Int) := by decide
theorem types_OidCircle : Src.types.OidCircle = ((PgVerif.Model.Scalars.OidCircle : Nat) : Int) := by decide
theorem types_OidCidr : Src.types.OidCidr = ((PgVerif.Model.Scalars.OidCidr : Nat) : Int) := by decide
theorem types_OidFloat4 : Src.types.OidFloat4 = ((PgVerif.Model.Scalars.OidFloat4 : Nat) : Int) := by decide
theorem types_OidFloat8 : Src.types.OidFloat8 = ((PgVerif.Model.Scalars.OidFloat8 : Nat) : Int) := by decide
theorem types_OidMacaddr8 : Src.types.OidMacaddr8 = ((PgVerif.Model.Scalars.OidMacaddr8 : Nat) : Int) := by decide
theorem types_OidMoney : Src.types.OidMoney = ((PgVerif.Model.Scalars.OidMoney : Nat) : Int) := by decide
theorem types_OidMacaddr : Src.types.OidMacaddr = ((PgVerif.Model.Scalars.OidMacaddr : Nat) : Int) := by decide
theorem types_OidInet : Src.types.OidInet = ((PgVerif.Model.Scalars.OidInet : Nat) : Int) := by decide
theorem types_OidBpchar : Src.types.OidBpchar = ((PgVerif.Model.Scalars.OidBpchar : Nat) : Int) := by decide
theorem types_OidVarchar : Src.types.OidVarchar = ((PgVerif.Model.Scalars.OidVarchar : Nat) : Int) := by decide
theorem types_OidDate : Src.types.OidDate = ((PgVerif.Model.Scalars.OidDate : Nat) : Int) := by decide
theorem types_OidTime : Src.types.OidTime = ((PgVerif.Model.Scalars.OidTime : Nat) : Int) := by decide
theorem types_OidTimestamp : Src.types.OidTimestamp = ((PgVerif.Model.Scalars.OidTimestamp : Nat) : Int) := by decide
theorem types_OidTimestampTZ : Src.types.OidTimestampTZ = ((PgVerif.Model.Scalars.OidTimestampTZ : Nat) : Int) := by decide
theorem types_OidInterval : Src.types.OidInterval = ((PgVerif.Model.Scalars.OidInterval : Nat) : Int) := by decide
theorem types_OidTimeTZ : Src.types.OidTimeTZ = ((PgVerif.Model.Scalars.OidTimeTZ : Nat) : Int) := by decide
theorem types_OidBit : Src.types.OidBit = ((PgVerif.Model.Scalars.OidBit : Nat) : Int) := by decide
theorem types_OidVarbit : Src.types.OidVarbit = ((PgVerif.Model.Scalars.OidVarbit : Nat) : Int) := by decide
theorem types_OidNumeric : Src.types.OidNumeric = ((PgVerif.Model.Scalars.OidNumeric : Nat) : Int) := by decide
theorem types_OidUUID : Src.types.OidUUID = ((PgVerif.Model.Scalars.OidUUID : Nat) : Int) := by decide
theorem types_OidPgLsn : Src.types.OidPgLsn = ((PgVerif.Model.Scalars.OidPgLsn : Nat) : Int) := by decide
theorem types_OidTsvector : Src.types.OidTsvector = ((PgVerif.Model.Scalars.OidTsvector : Nat) : Int) := by decide
theorem types_OidTsquery : Src.types.OidTsquery = ((PgVerif.Model.Scalars.OidTsquery : Nat) : Int) := by decide
theorem types_OidJSONB : Src.types.OidJSONB = ((PgVerif.Model.Scalars.OidJSONB : Nat) : Int) := by decide
theorem types_OidJSONPath : Src.types.OidJSONPath = ((PgVerif.Model.Scalars.OidJSONPath : Nat) : Int) := by decide
theorem types_OidInt4Range : Src.types.OidInt4Range = ((PgVerif.Model.Scalars.OidInt4Range : Nat) : Int) := by decide
theorem types_OidNumRange : Src.types.OidNumRange = ((PgVerif.Model.Scalars.OidNumRange : Nat) : Int) := by decide
theorem types_OidTsRange : Src.types.OidTsRange = ((PgVerif.Model.Scalars.OidTsRange : Nat) : Int) := by decide
theorem types_OidTsTzRange : Src.types.OidTsTzRange = ((PgVerif.Model.Scalars.OidTsTzRange : Nat) : Int) := by decide
theorem types_OidDateRange : Src.types.OidDateRange = ((PgVerif.Model.Scalars.OidDateRange : Nat) : Int) := by decide
theorem types_OidInt8Range : Src.types.OidInt8Range = ((PgVerif.Model.Scalars.OidInt8Range : Nat) : Int) := by decide
end PgVerif.Proofs.SrcTie.Scalars
