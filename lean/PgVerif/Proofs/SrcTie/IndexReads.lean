/-
  Source-level tie for index relation files (property C18), translator style (see `ReadsKit`): every function of
  index.go with constant-bounded reads — `parse{BTree,Hash,GiST,GIN,SPGiST,BRIN}PageSpecial`, `parseBTreeMeta`,
  `parseHashMeta`, `parseGINMeta`, `detectIndexType`, `parseIndexPage`, `ParseIndexFile` — against
    * `PageHeaderData` (bufpage.h) as written by `Spec.Index.encPage`,
    * the per-method special space as written by `Spec.Index.encOpaque`: `BTPageOpaqueData` (nbtree.h),
      `HashPageOpaqueData` (hash.h), `GISTPageOpaqueData` (gist.h), `GinPageOpaqueData` (ginblock.h),
      `SpGistPageOpaqueData` (spgist_private.h), `BrinSpecialSpace` (brin_page.h),
    * the metapage contents as written by `Spec.Index.encMeta`: `BTMetaPageData`, `HashMetaPageData`,
      `GinMetaPageData` (the members the Spec carries: 24, 36 and 52 bytes).
  srcfacts does not record WHICH slice a read indexes (`page`, `special`/`specialData` = `page[pd_special:]`,
  `data` = `page[24:]`); the tables below say it, by naming the layout of each entry — checked against index.go.
  The three `parse*Meta` functions return a composite literal: its reads have the empty target and are tied by order;
  the table lists the members in the order of the literal's keys (named in the comments).
  Not covered (not constant-bounded): `page[special+12 : special+14]` (the flag word in `parseBTreeMeta` /
  `parseHashMeta`), `page[PageSize-2:]` (open-ended slice), `page[headerSize:]`, `page[special:]`.
-/
import PgVerif.Generated.Src
import PgVerif.Spec.Index
import PgVerif.Proofs.SrcTie.ReadsKit
namespace PgVerif.Proofs.SrcTie.IndexReads
open PgVerif PgVerif.Spec.Index PgVerif.Proofs.SrcTie.ReadsKit

/-! ### layouts -/

/-- `PageHeaderData` up to the line pointer array -/
def pageLayout : Layout :=
  [("pd_lsn.xlogid".toList, 4), ("pd_lsn.xrecoff".toList, 4), ("pd_checksum".toList, 2), ("pd_flags".toList, 2),
   ("pd_lower".toList, 2), ("pd_upper".toList, 2), ("pd_special".toList, 2), ("pd_pagesize_version".toList, 2),
   ("pd_prune_xid".toList, 4)]

/-- the special space of each access method -/
def opaqueLayout : AM → Layout
  | .btree => [("btpo_prev".toList, 4), ("btpo_next".toList, 4), ("btpo_level".toList, 4), ("btpo_flags".toList, 2),
               ("btpo_cycleid".toList, 2)]
  | .hash => [("hasho_prevblkno".toList, 4), ("hasho_nextblkno".toList, 4), ("hasho_bucket".toList, 4),
              ("hasho_flag".toList, 2), ("hasho_page_id".toList, 2)]
  | .gist => [("nsn".toList, 8), ("rightlink".toList, 4), ("flags".toList, 2), ("gist_page_id".toList, 2)]
  | .gin => [("rightlink".toList, 4), ("maxoff".toList, 2), ("flags".toList, 2)]
  | .spgist => [("flags".toList, 2), ("nRedirection".toList, 2), ("nPlaceholder".toList, 2), ("spgist_page_id".toList, 2)]
  | .brin => [("vector[0]".toList, 2), ("vector[1]".toList, 2), ("vector[2] flags".toList, 2), ("vector[3] page type".toList, 2)]

/-- the metapage contents (at page offset 24) of the three methods whose metapage the tool reports -/
def metaLayout : AM → Layout
  | .btree => [("btm_magic".toList, 4), ("btm_version".toList, 4), ("btm_root".toList, 4), ("btm_level".toList, 4),
               ("btm_fastroot".toList, 4), ("btm_fastlevel".toList, 4)]
  | .hash => [("hashm_magic".toList, 4), ("hashm_version".toList, 4), ("hashm_ntuples".toList, 8), ("hashm_ffactor".toList, 2),
              ("hashm_bsize".toList, 2), ("hashm_bmsize".toList, 2), ("hashm_bmshift".toList, 2), ("hashm_maxbucket".toList, 4),
              ("hashm_highmask".toList, 4), ("hashm_lowmask".toList, 4)]
  | .gin => [("head".toList, 4), ("tail".toList, 4), ("tailFreeSize".toList, 4), ("nPendingPages".toList, 4),
             ("nPendingHeapTuples".toList, 8), ("nTotalPages".toList, 4), ("nEntryPages".toList, 4), ("nDataPages".toList, 4),
             ("(padding)".toList, 4), ("nEntries".toList, 8), ("ginVersion".toList, 4)]
  | _ => []

/-- a relation file as a sequence of blocks: all the tie needs is block 0 -/
def fileLayout : Layout := [("block 0".toList, 8192)]

/-! ### the layouts are what the Spec encoders write -/

def pageMembers (p : Page) : List Bytes :=
  [le 4 p.xlogid, le 4 p.xrecoff, le 2 p.checksum, le 2 p.pdflags, le 2 p.lower, le 2 p.upper, le 2 p.special, le 2 p.psv,
   le 4 p.prune]

theorem encPage_eq (p : Page) : encPage p = (pageMembers p).flatten ++ (p.body ++ encOpaque p.op) := by
  simp [encPage, pageMembers, List.append_assoc]

theorem page_fits (p : Page) : Fits pageLayout (pageMembers p) := by
  simp [Fits, pageMembers, pageLayout, Layout.widths]

theorem page_header_size : pageLayout.size = 24 := by decide

def opaqueMembers : Opaque → List Bytes
  | .btree p n l f c => [le 4 p, le 4 n, le 4 l, le 2 f, le 2 c]
  | .hash p n b f => [le 4 p, le 4 n, le 4 b, le 2 f, le 2 hashPageId]
  | .gist nsn r f => [le 8 nsn, le 4 r, le 2 f, le 2 gistPageId]
  | .gin r m f => [le 4 r, le 2 m, le 2 f]
  | .spgist f a b => [le 2 f, le 2 a, le 2 b, le 2 spgistPageId]
  | .brin a b f t => [le 2 a, le 2 b, le 2 f, le 2 t]

theorem encOpaque_eq (o : Opaque) : encOpaque o = (opaqueMembers o).flatten := by
  cases o <;> simp [encOpaque, opaqueMembers]

/-- the Spec encoder writes the special space as exactly the members of the method's layout -/
theorem opaque_fits (o : Opaque) : Fits (opaqueLayout o.am) (opaqueMembers o) := by
  cases o <;> simp [Fits, opaqueMembers, opaqueLayout, Opaque.am, Layout.widths]

/-- the layouts have the MAXALIGNed sizes the Spec uses for `pd_special` -/
theorem opaque_sizes : ∀ am ∈ AM.all, (opaqueLayout am).size = am.opaqueSize := by decide

theorem encOpaque_length (o : Opaque) : (encOpaque o).length = o.size := by
  cases o <;> simp [encOpaque, Opaque.size, Opaque.am, AM.opaqueSize]

/-- a well-formed page is 8192 bytes and its special space is what lies at `pd_special` -/
theorem encPage_length (p : Page) (h : p.WF) : (encPage p).length = 8192 := by
  obtain ⟨_, _, _, _, _, _, h1, h2, h3, h4, _⟩ := h
  have hs : p.op.size ≤ 16 := by cases hop : p.op <;> simp [Opaque.size, Opaque.am, AM.opaqueSize]
  rw [encPage_eq, List.length_append, fits_length pageLayout _ (page_fits p), List.length_append, h4, encOpaque_length]
  unfold Page.special at *
  have : pageLayout.size = 24 := by decide
  omega

theorem encPage_special (p : Page) (h : p.WF) : (encPage p).drop p.special = encOpaque p.op := by
  obtain ⟨_, _, _, _, _, _, h1, h2, h3, h4, _⟩ := h
  have hl : ((pageMembers p).flatten ++ p.body).length = p.special := by
    rw [List.length_append, fits_length pageLayout _ (page_fits p), h4]
    have : pageLayout.size = 24 := by decide
    omega
  rw [encPage_eq, ← List.append_assoc, ← hl, List.drop_left]

def metaMembers : Meta → List Bytes
  | .btree m => [le 4 btMagic, le 4 m.version, le 4 m.root, le 4 m.level, le 4 m.fastroot, le 4 m.fastlevel]
  | .hash m => [le 4 m.magic, le 4 m.version, le 8 m.ntuples, le 2 m.ffactor, le 2 m.bsize, le 2 m.bmsize, le 2 m.bmshift,
      le 4 m.maxbucket, le 4 m.highmask, le 4 m.lowmask]
  | .gin m => [le 4 m.head, le 4 m.tail, le 4 m.tailFree, le 4 m.nPendingPages, le 8 m.nPendingHeapTuples, le 4 m.nTotalPages,
      le 4 m.nEntryPages, le 4 m.nDataPages, le 4 m.pad, le 8 m.nEntries, le 4 m.version]

theorem encMeta_eq (m : Meta) : encMeta m = (metaMembers m).flatten := by
  cases m <;> simp [encMeta, metaMembers]

/-- the Spec encoder writes the metapage contents as exactly the members of the method's layout -/
theorem meta_fits (m : Meta) : Fits (metaLayout m.am) (metaMembers m) := by
  cases m <;> simp [Fits, metaMembers, metaLayout, Meta.am, Layout.widths]

/-- reading the span of a header member out of an encoded page yields that member -/
theorem encPage_read (p : Page) (name : List Char) (lo hi : Nat) (hs : pageLayout.span name = some (lo, hi)) :
    ∃ (i : Nat) (q : Bytes), (pageLayout[i]?).map Prod.fst = some name ∧ (pageMembers p)[i]? = some q ∧
      ((encPage p).drop lo).take (hi - lo) = q := by
  have := read_member pageLayout (pageMembers p) (p.body ++ encOpaque p.op) (page_fits p) name lo hi hs
  simpa [encPage_eq] using this

/-- reading the span of a member out of the special space (`page[pd_special:]`, see `encPage_special`) yields it -/
theorem encOpaque_read (o : Opaque) (name : List Char) (lo hi : Nat) (hs : (opaqueLayout o.am).span name = some (lo, hi)) :
    ∃ (i : Nat) (q : Bytes), ((opaqueLayout o.am)[i]?).map Prod.fst = some name ∧ (opaqueMembers o)[i]? = some q ∧
      ((encOpaque o).drop lo).take (hi - lo) = q := by
  have := read_member (opaqueLayout o.am) (opaqueMembers o) [] (opaque_fits o) name lo hi hs
  simpa [encOpaque_eq] using this

/-- reading the span of a member out of the metapage contents (`page[24:]`; `File.metaOK`: the contents are a prefix
of the body of block 0) yields it -/
theorem encMeta_read (m : Meta) (rest : Bytes) (name : List Char) (lo hi : Nat)
    (hs : (metaLayout m.am).span name = some (lo, hi)) :
    ∃ (i : Nat) (q : Bytes), ((metaLayout m.am)[i]?).map Prod.fst = some name ∧ (metaMembers m)[i]? = some q ∧
      ((encMeta m ++ rest).drop lo).take (hi - lo) = q := by
  have := read_member (metaLayout m.am) (metaMembers m) rest (meta_fits m) name lo hi hs
  simpa [encMeta_eq] using this

/-! ### the special space of a page -/

def expectBTreeSpecial : Expect :=
  [fld "info.PrevBlock".toList (opaqueLayout .btree) "btpo_prev".toList, fld "info.NextBlock".toList (opaqueLayout .btree) "btpo_next".toList,
   fld "info.Level".toList (opaqueLayout .btree) "btpo_level".toList, fld "info.Flags".toList (opaqueLayout .btree) "btpo_flags".toList]

/-- **Every constant-bounded read of the current `parseBTreePageSpecial` is one whole `BTPageOpaqueData` member, the
one its target names.**  (btpo_cycleid is not reported and not read here.) -/
theorem parseBTreePageSpecial_reads_are_spec_fields :
    readsAreFields expectBTreeSpecial Generated.SrcReads.parseBTreePageSpecial = true := by decide

theorem parseBTreePageSpecial_expected_fields_are_read :
    expectedAreRead expectBTreeSpecial Generated.SrcReads.parseBTreePageSpecial = true := by decide

def expectHashSpecial : Expect :=
  [fld "info.PrevBlock".toList (opaqueLayout .hash) "hasho_prevblkno".toList, fld "info.NextBlock".toList (opaqueLayout .hash) "hasho_nextblkno".toList,
   fld "bucket".toList (opaqueLayout .hash) "hasho_bucket".toList, fld "info.Flags".toList (opaqueLayout .hash) "hasho_flag".toList]

/-- **Every constant-bounded read of the current `parseHashPageSpecial` is one whole `HashPageOpaqueData` member, the
one its target names.** -/
theorem parseHashPageSpecial_reads_are_spec_fields :
    readsAreFields expectHashSpecial Generated.SrcReads.parseHashPageSpecial = true := by decide

theorem parseHashPageSpecial_expected_fields_are_read :
    expectedAreRead expectHashSpecial Generated.SrcReads.parseHashPageSpecial = true := by decide

def expectGiSTSpecial : Expect :=
  [fld "info.RightLink".toList (opaqueLayout .gist) "rightlink".toList, fld "info.Flags".toList (opaqueLayout .gist) "flags".toList]

/-- **Every constant-bounded read of the current `parseGiSTPageSpecial` is one whole `GISTPageOpaqueData` member:
rightlink @8 (after the 8-byte nsn) and flags @12.** -/
theorem parseGiSTPageSpecial_reads_are_spec_fields :
    readsAreFields expectGiSTSpecial Generated.SrcReads.parseGiSTPageSpecial = true := by decide

theorem parseGiSTPageSpecial_expected_fields_are_read :
    expectedAreRead expectGiSTSpecial Generated.SrcReads.parseGiSTPageSpecial = true := by decide

def expectGINSpecial : Expect :=
  [fld "info.RightLink".toList (opaqueLayout .gin) "rightlink".toList, fld "maxOff".toList (opaqueLayout .gin) "maxoff".toList,
   fld "info.Flags".toList (opaqueLayout .gin) "flags".toList]

/-- **Every constant-bounded read of the current `parseGINPageSpecial` is one whole `GinPageOpaqueData` member, the
one its target names.** -/
theorem parseGINPageSpecial_reads_are_spec_fields :
    readsAreFields expectGINSpecial Generated.SrcReads.parseGINPageSpecial = true := by decide

theorem parseGINPageSpecial_expected_fields_are_read :
    expectedAreRead expectGINSpecial Generated.SrcReads.parseGINPageSpecial = true := by decide

def expectSPGiSTSpecial : Expect := [fld "info.Flags".toList (opaqueLayout .spgist) "flags".toList]

/-- **The constant-bounded read of the current `parseSPGiSTPageSpecial` is the whole flags word of
`SpGistPageOpaqueData`.** -/
theorem parseSPGiSTPageSpecial_reads_are_spec_fields :
    readsAreFields expectSPGiSTSpecial Generated.SrcReads.parseSPGiSTPageSpecial = true := by decide

theorem parseSPGiSTPageSpecial_expected_fields_are_read :
    expectedAreRead expectSPGiSTSpecial Generated.SrcReads.parseSPGiSTPageSpecial = true := by decide

def expectBRINSpecial : Expect :=
  [fld "info.Flags".toList (opaqueLayout .brin) "vector[2] flags".toList,
   fld "pageType".toList (opaqueLayout .brin) "vector[3] page type".toList]

/-- **Every constant-bounded read of the current `parseBRINPageSpecial` is one whole element of `BrinSpecialSpace`'s
vector: the flags from [2], the page type (compared with BRIN_PAGETYPE_META / BRIN_PAGETYPE_REVMAP) from [3].** -/
theorem parseBRINPageSpecial_reads_are_spec_fields :
    readsAreFields expectBRINSpecial Generated.SrcReads.parseBRINPageSpecial = true := by decide

theorem parseBRINPageSpecial_expected_fields_are_read :
    expectedAreRead expectBRINSpecial Generated.SrcReads.parseBRINPageSpecial = true := by decide

/-! ### metapages -/

def expectBTreeMeta : Expect :=
  [fld "special".toList pageLayout "pd_special".toList,
   fld "magic".toList (metaLayout .btree) "btm_magic".toList,
   fld "".toList (metaLayout .btree) "btm_version".toList,     -- Version:
   fld "".toList (metaLayout .btree) "btm_root".toList,        -- Root:
   fld "".toList (metaLayout .btree) "btm_level".toList,       -- Level:
   fld "".toList (metaLayout .btree) "btm_fastroot".toList,    -- FastRoot:
   fld "".toList (metaLayout .btree) "btm_fastlevel".toList]   -- FastLevel:

/-- **Every constant-bounded read of the current `parseBTreeMeta` is one whole member: `special` ← pd_special of the
page header, `magic` ← btm_magic, and the fields of the returned literal ← btm_version, btm_root, btm_level,
btm_fastroot, btm_fastlevel of `BTMetaPageData`, in this order.** -/
theorem parseBTreeMeta_reads_are_spec_fields :
    readsAreFields expectBTreeMeta Generated.SrcReads.parseBTreeMeta = true := by decide

theorem parseBTreeMeta_expected_fields_are_read :
    expectedAreRead expectBTreeMeta Generated.SrcReads.parseBTreeMeta = true := by decide

def expectHashMeta : Expect :=
  [fld "special".toList pageLayout "pd_special".toList,
   fld "maxBucket".toList (metaLayout .hash) "hashm_maxbucket".toList,
   fld "".toList (metaLayout .hash) "hashm_magic".toList,      -- Magic:
   fld "".toList (metaLayout .hash) "hashm_version".toList,    -- Version:
   fld "".toList (metaLayout .hash) "hashm_highmask".toList,   -- HighMask:
   fld "".toList (metaLayout .hash) "hashm_lowmask".toList,    -- LowMask:
   fld "".toList (metaLayout .hash) "hashm_ffactor".toList,    -- FFactor:
   fld "".toList (metaLayout .hash) "hashm_ntuples".toList]    -- NumTuples:

/-- **Every constant-bounded read of the current `parseHashMeta` is one whole member: `special` ← pd_special,
`maxBucket` ← hashm_maxbucket, and the fields of the returned literal ← hashm_magic, hashm_version, hashm_highmask,
hashm_lowmask, hashm_ffactor, hashm_ntuples of `HashMetaPageData`, in this order.** -/
theorem parseHashMeta_reads_are_spec_fields :
    readsAreFields expectHashMeta Generated.SrcReads.parseHashMeta = true := by decide

theorem parseHashMeta_expected_fields_are_read :
    expectedAreRead expectHashMeta Generated.SrcReads.parseHashMeta = true := by decide

def expectGINMeta : Expect :=
  [fld "special".toList pageLayout "pd_special".toList,
   fld "flags".toList (opaqueLayout .gin) "flags".toList,
   fld "".toList (metaLayout .gin) "ginVersion".toList,          -- Version:
   fld "".toList (metaLayout .gin) "head".toList,                -- Head:
   fld "".toList (metaLayout .gin) "tail".toList,                -- Tail:
   fld "".toList (metaLayout .gin) "tailFreeSize".toList,        -- TailFreeSize:
   fld "".toList (metaLayout .gin) "nPendingPages".toList,       -- NPendingPages:
   fld "".toList (metaLayout .gin) "nPendingHeapTuples".toList,  -- NPendingHeapTuples:
   fld "".toList (metaLayout .gin) "nTotalPages".toList,         -- NTotalPages:
   fld "".toList (metaLayout .gin) "nEntryPages".toList,         -- NEntryPages:
   fld "".toList (metaLayout .gin) "nDataPages".toList,          -- NDataPages:
   fld "".toList (metaLayout .gin) "nEntries".toList]            -- NEntries:

/-- **Every constant-bounded read of the current `parseGINMeta` is one whole member: `special` ← pd_special,
`flags` ← the flags word of `GinPageOpaqueData`, and the fields of the returned literal ← ginVersion, head, tail,
tailFreeSize, nPendingPages, nPendingHeapTuples, nTotalPages, nEntryPages, nDataPages, nEntries of `GinMetaPageData`,
in this order** (nEntries @40 after the 4-byte alignment hole). -/
theorem parseGINMeta_reads_are_spec_fields :
    readsAreFields expectGINMeta Generated.SrcReads.parseGINMeta = true := by decide

theorem parseGINMeta_expected_fields_are_read :
    expectedAreRead expectGINMeta Generated.SrcReads.parseGINMeta = true := by decide

/-! ### detection, the common page part, the file -/

/-- `flags` is assigned twice: first the B-tree flag word, later the GIN one -/
def expectDetect : Expect :=
  [fld "special".toList pageLayout "pd_special".toList,
   fld "cycleID".toList (opaqueLayout .btree) "btpo_cycleid".toList,
   fld "flags".toList (opaqueLayout .btree) "btpo_flags".toList,
   fld "flags".toList (opaqueLayout .gin) "flags".toList]

/-- **Every constant-bounded read of the current `detectIndexType` is one whole member: pd_special, then
btpo_cycleid and btpo_flags of a 16-byte special space, then the flags word of an 8-byte (GIN) special space.** -/
theorem detectIndexType_reads_are_spec_fields :
    readsAreFields expectDetect Generated.SrcReads.detectIndexType = true := by decide

theorem detectIndexType_expected_fields_are_read :
    expectedAreRead expectDetect Generated.SrcReads.detectIndexType = true := by decide

def expectIndexPage : Expect :=
  [fld "info.LSN".toList pageLayout "pd_lsn.xlogid".toList, fld "info.LSN".toList pageLayout "pd_lsn.xrecoff".toList,
   fld "lower".toList pageLayout "pd_lower".toList, fld "upper".toList pageLayout "pd_upper".toList,
   fld "special".toList pageLayout "pd_special".toList]

/-- **Every constant-bounded read of the current `parseIndexPage` is one whole `PageHeaderData` member, the one its
target names; the LSN is read as xlogid then xrecoff.** -/
theorem parseIndexPage_reads_are_spec_fields :
    readsAreFields expectIndexPage Generated.SrcReads.parseIndexPage = true := by decide

theorem parseIndexPage_expected_fields_are_read :
    expectedAreRead expectIndexPage Generated.SrcReads.parseIndexPage = true := by decide

/-- `data[0:PageSize]` is handed to the detector and (one call per method) to the metapage parser -/
def expectFile : Expect :=
  [fld "info.Type".toList fileLayout "block 0".toList, fld "meta".toList fileLayout "block 0".toList,
   fld "meta".toList fileLayout "block 0".toList, fld "meta".toList fileLayout "block 0".toList]

/-- **Every constant-bounded slice of the current `ParseIndexFile` is exactly block 0 of the file** (8192 bytes:
`encPage_length`). -/
theorem ParseIndexFile_reads_are_spec_fields :
    readsAreFields expectFile Generated.SrcReads.ParseIndexFile = true := by decide

theorem ParseIndexFile_expected_fields_are_read :
    expectedAreRead expectFile Generated.SrcReads.ParseIndexFile = true := by decide

/-- the spans the hypotheses of the `_read` theorems range over; DESIGN.md section 3 offsets -/
example : pageLayout.span "pd_special".toList = some (16, 18) ∧ (opaqueLayout .gist).span "rightlink".toList = some (8, 12) ∧
    (metaLayout .hash).span "hashm_maxbucket".toList = some (24, 28) ∧ (metaLayout .gin).span "nEntries".toList = some (40, 48) ∧
    (metaLayout .gin).span "ginVersion".toList = some (48, 52) := by decide

end PgVerif.Proofs.SrcTie.IndexReads
