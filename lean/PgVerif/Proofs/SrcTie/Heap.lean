/-
  Source-level tie for area `heap`: every package-level integer constant of the Go files this area models,
  as extracted from the repository's *current source* by harness/cmd/srcfacts (Generated/Src.lean is rewritten on
  every run), equals the value the Lean model and the PostgreSQL-side Spec were written against.  A changed mask,
  oid, magic number or size breaks the named theorem below at build time (then the finder looks for an input).
  Hand-written expectations; where the model has a named constant the theorem ties the two names directly.
-/
import PgVerif.Generated.Src
namespace PgVerif.Proofs.SrcTie.Heap
open PgVerif.Generated
theorem page_PageSize : Src.page.PageSize = 0x2000 := by decide
theorem page_headerSize : Src.page.headerSize = 24 := by decide
theorem page_itemIDSize : Src.page.itemIDSize = 4 := by decide
theorem tuple_tupleHeaderSize : Src.tuple.tupleHeaderSize = 23 := by decide
end PgVerif.Proofs.SrcTie.Heap
