/-
  Source-level tie for area `numjson`: every package-level integer constant of the Go files this area models,
  as extracted from the repository's *current source* by harness/cmd/srcfacts (Generated/Src.lean is rewritten on
  every run), equals the value the Lean model and the PostgreSQL-side Spec were written against.  A changed mask,
  oid, magic number or size breaks the named theorem below at build time (then the finder looks for an input).
  Hand-written expectations; where the model has a named constant the theorem ties the two names directly.
-/
import PgVerif.Generated.Src
namespace PgVerif.Proofs.SrcTie.Numjson
open PgVerif.Generated
theorem jsonb_jbCMask : Src.jsonb.jbCMask = 0xfffffff := by decide
theorem jsonb_jbFObject : Src.jsonb.jbFObject = 0x20000000 := by decide
theorem jsonb_jbFArray : Src.jsonb.jbFArray = 0x40000000 := by decide
theorem jsonb_jbFScalar : Src.jsonb.jbFScalar = 0x10000000 := by decide
theorem jsonb_jeOffMask : Src.jsonb.jeOffMask = 0xfffffff := by decide
theorem jsonb_jeHasOff : Src.jsonb.jeHasOff = 0x80000000 := by decide
theorem jsonb_jeString : Src.jsonb.jeString = 0 := by decide
theorem jsonb_jeNumeric : Src.jsonb.jeNumeric = 0x10000000 := by decide
theorem jsonb_jeBoolFalse : Src.jsonb.jeBoolFalse = 0x20000000 := by decide
theorem jsonb_jeBoolTrue : Src.jsonb.jeBoolTrue = 0x30000000 := by decide
theorem jsonb_jeNull : Src.jsonb.jeNull = 0x40000000 := by decide
theorem jsonb_jeContainer : Src.jsonb.jeContainer = 0x50000000 := by decide
end PgVerif.Proofs.SrcTie.Numjson
