/-
  Source-level tie for area `control`: every package-level integer constant of the Go files this area models,
  as extracted from the repository's *current source* by harness/cmd/srcfacts (Generated/Src.lean is rewritten on
  every run), equals the value the Lean model and the PostgreSQL-side Spec were written against.  A changed mask,
  oid, magic number or size breaks the named theorem below at build time (then the finder looks for an input).
  Hand-written expectations; where the model has a named constant the theorem ties the two names directly.
-/
import PgVerif.Generated.Src
namespace PgVerif.Proofs.SrcTie.Control
open PgVerif.Generated
theorem control_DBStateStartup : Src.control.DBStateStartup = 0 := by decide
theorem control_DBStateShutdowned : Src.control.DBStateShutdowned = 1 := by decide
theorem control_DBStateShutdownedInRecovery : Src.control.DBStateShutdownedInRecovery = 2 := by decide
theorem control_DBStateShutdowning : Src.control.DBStateShutdowning = 3 := by decide
theorem control_DBStateInCrashRecovery : Src.control.DBStateInCrashRecovery = 4 := by decide
theorem control_DBStateInArchiveRecovery : Src.control.DBStateInArchiveRecovery = 5 := by decide
theorem control_DBStateInProduction : Src.control.DBStateInProduction = 6 := by decide
theorem relmap_RelMapMagic : Src.relmap.RelMapMagic = 0x592717 := by decide
theorem relmap_RelMapMaxMappings : Src.relmap.RelMapMaxMappings = 62 := by decide
/-- fixes/control/09: the PostgreSQL 16 layout constants (`Spec.relmapMax16`, `Spec.RelMapLayout.v16.size`) -/
theorem relmap_RelMapMaxMappingsV16 : Src.relmap.RelMapMaxMappingsV16 = 64 := by decide
theorem relmap_RelMapFileSizeV16 : Src.relmap.RelMapFileSizeV16 = 524 := by decide
theorem sequence_SequenceMagic : Src.sequence.SequenceMagic = 0x1717 := by decide
end PgVerif.Proofs.SrcTie.Control
