/-
  Source-level tie for area `wal`: every package-level integer constant of the Go files this area models,
  as extracted from the repository's *current source* by harness/cmd/srcfacts (Generated/Src.lean is rewritten on
  every run), equals the value the Lean model and the PostgreSQL-side Spec were written against.  A changed mask,
  oid, magic number or size breaks the named theorem below at build time (then the finder looks for an input).
  Hand-written expectations; where the model has a named constant the theorem ties the two names directly.
-/
import PgVerif.Generated.Src
import PgVerif.Model.Wal
import PgVerif.Spec.Wal
namespace PgVerif.Proofs.SrcTie.Wal
open PgVerif.Generated
theorem wal_WAL_MAGIC_16 : Src.wal.WAL_MAGIC_16 = 0xd113 := by decide
theorem wal_WAL_MAGIC_15 : Src.wal.WAL_MAGIC_15 = 0xd110 := by decide
theorem wal_WAL_MAGIC_14 : Src.wal.WAL_MAGIC_14 = 0xd10d := by decide
theorem wal_WAL_MAGIC_13 : Src.wal.WAL_MAGIC_13 = 0xd106 := by decide
theorem wal_WAL_MAGIC_12 : Src.wal.WAL_MAGIC_12 = 0xd101 := by decide
theorem wal_WALPageSize : Src.wal.WALPageSize = 0x2000 := by decide
theorem wal_XLogRecordSize : Src.wal.XLogRecordSize = 24 := by decide
theorem wal_ShortHeaderSize : Src.wal.ShortHeaderSize = 24 := by decide
theorem wal_LongHeaderSize : Src.wal.LongHeaderSize = 40 := by decide
/-- fixes/wal/11: the bound parseXLogRecord puts on xl_tot_len is PostgreSQL's XLogRecordMaxSize (xlogrecord.h:
1020 MiB) — the constant of the source, the constant of the model and the bound of `Spec.Wal.WalRecord.WF` are one number -/
theorem wal_XLogRecordMaxSize : Src.wal.XLogRecordMaxSize = 1069547520 := by decide
theorem wal_XLogRecordMaxSize_model : Src.wal.XLogRecordMaxSize = (Model.Wal.xlogRecordMaxSize : Int) ∧
    Src.wal.XLogRecordMaxSize = (Spec.Wal.xlogRecordMaxSize : Int) := by decide
theorem wal_XLP_FIRST_IS_CONTRECORD : Src.wal.XLP_FIRST_IS_CONTRECORD = 1 := by decide
theorem wal_XLP_LONG_HEADER : Src.wal.XLP_LONG_HEADER = 2 := by decide
theorem wal_XLP_BKP_REMOVABLE : Src.wal.XLP_BKP_REMOVABLE = 4 := by decide
theorem wal_RM_XLOG_ID : Src.wal.RM_XLOG_ID = 0 := by decide
theorem wal_RM_XACT_ID : Src.wal.RM_XACT_ID = 1 := by decide
theorem wal_RM_SMGR_ID : Src.wal.RM_SMGR_ID = 2 := by decide
theorem wal_RM_CLOG_ID : Src.wal.RM_CLOG_ID = 3 := by decide
theorem wal_RM_DBASE_ID : Src.wal.RM_DBASE_ID = 4 := by decide
theorem wal_RM_TBLSPC_ID : Src.wal.RM_TBLSPC_ID = 5 := by decide
theorem wal_RM_MULTIXACT_ID : Src.wal.RM_MULTIXACT_ID = 6 := by decide
theorem wal_RM_RELMAP_ID : Src.wal.RM_RELMAP_ID = 7 := by decide
theorem wal_RM_STANDBY_ID : Src.wal.RM_STANDBY_ID = 8 := by decide
theorem wal_RM_HEAP2_ID : Src.wal.RM_HEAP2_ID = 9 := by decide
theorem wal_RM_HEAP_ID : Src.wal.RM_HEAP_ID = 10 := by decide
theorem wal_RM_BTREE_ID : Src.wal.RM_BTREE_ID = 11 := by decide
theorem wal_RM_HASH_ID : Src.wal.RM_HASH_ID = 12 := by decide
theorem wal_RM_GIN_ID : Src.wal.RM_GIN_ID = 13 := by decide
theorem wal_RM_GIST_ID : Src.wal.RM_GIST_ID = 14 := by decide
theorem wal_RM_SEQ_ID : Src.wal.RM_SEQ_ID = 15 := by decide
theorem wal_RM_SPGIST_ID : Src.wal.RM_SPGIST_ID = 16 := by decide
theorem wal_RM_BRIN_ID : Src.wal.RM_BRIN_ID = 17 := by decide
theorem wal_RM_COMMIT_TS_ID : Src.wal.RM_COMMIT_TS_ID = 18 := by decide
theorem wal_RM_REPLORIGIN_ID : Src.wal.RM_REPLORIGIN_ID = 19 := by decide
theorem wal_RM_GENERIC_ID : Src.wal.RM_GENERIC_ID = 20 := by decide
theorem wal_RM_LOGICALMSG_ID : Src.wal.RM_LOGICALMSG_ID = 21 := by decide
theorem wal_XLOG_HEAP_INSERT : Src.wal.XLOG_HEAP_INSERT = 0 := by decide
theorem wal_XLOG_HEAP_DELETE : Src.wal.XLOG_HEAP_DELETE = 16 := by decide
theorem wal_XLOG_HEAP_UPDATE : Src.wal.XLOG_HEAP_UPDATE = 32 := by decide
theorem wal_XLOG_HEAP_TRUNCATE : Src.wal.XLOG_HEAP_TRUNCATE = 48 := by decide
theorem wal_XLOG_HEAP_HOT_UPDATE : Src.wal.XLOG_HEAP_HOT_UPDATE = 64 := by decide
theorem wal_XLOG_HEAP_CONFIRM : Src.wal.XLOG_HEAP_CONFIRM = 80 := by decide
theorem wal_XLOG_HEAP_LOCK : Src.wal.XLOG_HEAP_LOCK = 96 := by decide
theorem wal_XLOG_HEAP_INPLACE : Src.wal.XLOG_HEAP_INPLACE = 112 := by decide
/-- fixes/wal/12: XLOG_HEAP_INIT_PAGE (heapam_xlog.h; also XLOG_BRIN_INIT_PAGE), the bit operationNameFor now keeps in the
opcode of Heap, Heap2 and BRIN records -/
theorem wal_XLOG_HEAP_INIT_PAGE : Src.wal.XLOG_HEAP_INIT_PAGE = 128 := by decide
theorem wal_XLOG_XACT_COMMIT : Src.wal.XLOG_XACT_COMMIT = 0 := by decide
theorem wal_XLOG_XACT_PREPARE : Src.wal.XLOG_XACT_PREPARE = 16 := by decide
theorem wal_XLOG_XACT_ABORT : Src.wal.XLOG_XACT_ABORT = 32 := by decide
theorem wal_XLOG_XACT_COMMIT_PREPARED : Src.wal.XLOG_XACT_COMMIT_PREPARED = 48 := by decide
theorem wal_XLOG_XACT_ABORT_PREPARED : Src.wal.XLOG_XACT_ABORT_PREPARED = 64 := by decide
theorem wal_XLOG_XACT_ASSIGNMENT : Src.wal.XLOG_XACT_ASSIGNMENT = 80 := by decide
end PgVerif.Proofs.SrcTie.Wal
