/-
  Source-level tie for area `toast`: every package-level integer constant of the Go files this area models,
  as extracted from the repository's *current source* by harness/cmd/srcfacts (Generated/Src.lean is rewritten on
  every run), equals the value the Lean model and the PostgreSQL-side Spec were written against.  A changed mask,
  oid, magic number or size breaks the named theorem below at build time (then the finder looks for an input).
  Hand-written expectations; where the model has a named constant the theorem ties the two names directly.
-/
import PgVerif.Generated.Src
namespace PgVerif.Proofs.SrcTie.Toast
open PgVerif.Generated
theorem toast_ToastCompressionPGLZ : Src.toast.ToastCompressionPGLZ = 0 := by decide
theorem toast_ToastCompressionLZ4 : Src.toast.ToastCompressionLZ4 = 1 := by decide
theorem toast_VarTagExternal : Src.toast.VarTagExternal = 1 := by decide
theorem toast_VarTagCompressedExternal : Src.toast.VarTagCompressedExternal = 2 := by decide
theorem toast_VarTagIndirect : Src.toast.VarTagIndirect = 1 := by decide
end PgVerif.Proofs.SrcTie.Toast
