/-
  Source-level tie for area `block`: every package-level integer constant of the Go files this area models,
  as extracted from the repository's *current source* by harness/cmd/srcfacts (Generated/Src.lean is rewritten on
  every run), equals the value the Lean model and the PostgreSQL-side Spec were written against.  A changed mask,
  oid, magic number or size breaks the named theorem below at build time (then the finder looks for an input).
  Hand-written expectations; where the model has a named constant the theorem ties the two names directly.
-/
import PgVerif.Generated.Src
namespace PgVerif.Proofs.SrcTie.Block
open PgVerif.Generated
theorem segment_DefaultSegmentSize : Src.segment.DefaultSegmentSize = 0x40000000 := by decide
end PgVerif.Proofs.SrcTie.Block
