/-
  Source-level tie for pg_control (property C16), translator style: `harness/cmd/srcfacts` extracts from the CURRENT
  source of `ParseControlFile` every constant-bounded read of the input (`data[lo:hi]`, `data[k]`) together with the
  variable or struct field it is assigned to (`Generated.SrcReads.ParseControlFile`, regenerated on every run).  The
  theorems below say that each of those reads is exactly one field of PostgreSQL's `ControlFileData` as laid out by
  the Spec (`Spec.Control.ControlData.fields`: widths in declaration order with the compiler's padding), and that it is
  the field the assignment target stands for (table `expect`: hand-written, checked against control.go's field names
  and pg_control.h).  A read moved to another offset, narrowed, widened, or assigned to another field breaks a named
  obligation at build time.
-/
import PgVerif.Generated.Src
import PgVerif.Spec.Control
namespace PgVerif.Proofs.SrcTie.ControlReads
open PgVerif PgVerif.Spec

/-- (from, to) of every entry of a field list laid out back to back -/
def fieldSpans : Nat → List Field → List (Nat × Nat)
  | _, [] => []
  | off, (w, _) :: fs => (off, off + w) :: fieldSpans (off + w) fs

/-- the byte spans of `ControlFileData`'s members (and padding holes) up to the crc -/
def controlSpans : List (Nat × Nat) := fieldSpans 0 (default : ControlData).fields

/-- assignment target in control.go ↦ index of the Spec field it must be read from -/
def expect : List (List Char × Nat) :=
  [("cf.SystemIdentifier".toList, 0), ("cf.PGControlVersion".toList, 1), ("cf.CatalogVersionNo".toList, 2), ("cf.State".toList, 3),
   ("checkpointLSN".toList, 6), ("redoLSN".toList, 7), ("cf.TimeLineID".toList, 8), ("cf.PrevTimeLineID".toList, 9),
   ("cf.FullPageWrites".toList, 10), ("cf.NextXID".toList, 12), ("cf.NextXIDEpoch".toList, 13), ("cf.NextOID".toList, 14),
   ("cf.NextMulti".toList, 15), ("cf.NextMultiOffset".toList, 16), ("cf.OldestXID".toList, 17), ("cf.OldestXIDDB".toList, 18),
   ("cf.OldestMulti".toList, 19), ("cf.OldestMultiDB".toList, 20), ("cpTime".toList, 22), ("cf.OldestCommitTsXID".toList, 23),
   ("cf.NewestCommitTsXID".toList, 24), ("cf.OldestActiveXID".toList, 25), ("walLevel".toList, 35), ("cf.WALLogHints".toList, 36),
   ("cf.MaxConnections".toList, 38), ("cf.MaxWorkerProcesses".toList, 39), ("cf.MaxWALSenders".toList, 40),
   ("cf.MaxPreparedXacts".toList, 41), ("cf.MaxLocksPerXact".toList, 42), ("cf.TrackCommitTS".toList, 43), ("cf.MaxAlign".toList, 45),
   ("floatVal".toList, 46), ("cf.BlockSize".toList, 47), ("cf.BlocksPerSeg".toList, 48), ("cf.WALBlockSize".toList, 49),
   ("cf.WALSegmentSize".toList, 50), ("cf.NameDataLen".toList, 51), ("cf.IndexMaxKeys".toList, 52), ("cf.TOASTMaxChunk".toList, 53),
   ("cf.LargeObjectChunk".toList, 54), ("cf.DataChecksumsEnabled".toList, 58)]

/-- a read agrees with the Spec when its target is in the table and its byte span is that field's span -/
def readOK (r : List Char × Nat × Nat) : Bool :=
  match expect.lookup r.1 with
  | some i => controlSpans[i]? == some (r.2.1, r.2.2)
  | none => false

/-- the struct is 288 bytes up to the crc (the offset the CRC check of the code uses) -/
theorem control_spans_end : (controlSpans.getLast?.map (·.2)) = some 288 := by decide

/-- **Every constant-bounded read of the current `ParseControlFile` is one whole `ControlFileData` field, the one its
assignment target names.** -/
theorem control_reads_are_spec_fields : Generated.SrcReads.ParseControlFile.all readOK = true := by decide

/-- and every field of the table is still read by the code (nothing was dropped) -/
theorem control_expected_fields_are_read :
    expect.all (fun e => Generated.SrcReads.ParseControlFile.any (fun r => r.1 == e.1)) = true := by decide

end PgVerif.Proofs.SrcTie.ControlReads
