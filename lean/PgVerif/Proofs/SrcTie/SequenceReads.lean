/-
  Source-level tie for sequence relation files (property C20), translator style (see `ReadsKit`): `IsSequenceFile`,
  `ParseSequenceFile`, `parseSequenceTuple` (sequence.go) against the one page PostgreSQL writes for a sequence
  (`Spec.encSeqPage`): `PageHeaderData` (bufpage.h; the Spec keeps pd_lsn, pd_checksum, pd_flags as one 12-byte blob)
  followed by the line pointer array, whose first element points at the only tuple; the tuple starts with
  `HeapTupleHeaderData` (htup_details.h) and carries `FormData_pg_sequence_data` (sequence.h: last_value int64,
  log_cnt int64, is_called bool) at `t_hoff`.
  srcfacts does not record which slice a read indexes: `special`, `lower`, `itemPtr` index the page (`data`), `hoff`
  indexes the tuple (`tupleData[22]`), the two reads of `parseSequenceTuple` index the tuple data — the tables say so
  by naming the layout (checked against sequence.go).
  Not covered (not constant-bounded): the magic `data[special:]`, the tuple slice `data[itemOffset : itemOffset+itemLen]`,
  `tupleData[hoff:]`, and the whole PostgreSQL ≤ 9.6 branch of `parseSequenceTuple` (running `offset`; the Spec
  covers PostgreSQL ≥ 10 only).  log_cnt is not reported and not read.
-/
import PgVerif.Generated.Src
import PgVerif.Spec.Sequence
import PgVerif.Proofs.SrcTie.ReadsKit
namespace PgVerif.Proofs.SrcTie.SequenceReads
open PgVerif PgVerif.Spec PgVerif.Proofs.SrcTie.ReadsKit

/-! ### layouts and their tie to `Spec.encSeqPage` -/

/-- `PageHeaderData` with the first line pointer -/
def pageLayout : Layout :=
  [("pd_lsn,pd_checksum,pd_flags".toList, 12), ("pd_lower".toList, 2), ("pd_upper".toList, 2), ("pd_special".toList, 2),
   ("pd_pagesize_version".toList, 2), ("pd_prune_xid".toList, 4), ("pd_linp[0]".toList, 4)]

/-- `HeapTupleHeaderData` up to t_hoff -/
def tupleLayout : Layout :=
  [("t_xmin".toList, 4), ("t_xmax".toList, 4), ("t_cid".toList, 4), ("t_ctid".toList, 6), ("t_infomask2".toList, 2),
   ("t_infomask".toList, 2), ("t_hoff".toList, 1)]

/-- `FormData_pg_sequence_data` -/
def dataLayout : Layout := [("last_value".toList, 8), ("log_cnt".toList, 8), ("is_called".toList, 1)]

def pageMembers (p : SeqPage) : List Bytes :=
  [p.hdr0, le 2 28, le 2 p.tupOff, le 2 8184, le 2 (8192 + 4), le 4 p.prune, le 4 (p.tupOff + 2 ^ 15 * 1 + 2 ^ 17 * p.tupLen)]

def pageRest (p : SeqPage) : Bytes :=
  zeros (p.tupOff - 28) ++ (p.tuple ++ (zeros (8184 - p.tupOff - p.tupLen) ++ (le 4 seqMagic ++ zeros 4)))

theorem encSeqPage_eq (p : SeqPage) : encSeqPage p = (pageMembers p).flatten ++ pageRest p := by
  simp [encSeqPage, pageMembers, pageRest, List.append_assoc]

/-- the Spec encoder of a well-formed sequence page starts with exactly the members of `pageLayout` -/
theorem page_fits (p : SeqPage) (h : p.WF) : Fits pageLayout (pageMembers p) := by
  simp [Fits, pageMembers, pageLayout, Layout.widths, h.1]

def tupleMembers (p : SeqPage) : List Bytes :=
  [le 4 p.xmin, le 4 p.xmax, le 4 p.cid, p.ctid, le 2 p.infomask2, le 2 p.infomask, [UInt8.ofNat p.hoff]]

def dataMembers (s : SeqState) : List Bytes :=
  [le 8 (ofSigned 64 s.lastValue), le 8 (ofSigned 64 s.logCnt), [b2byte s.isCalled]]

theorem tuple_eq (p : SeqPage) : p.tuple = (tupleMembers p).flatten ++ (p.mid ++ (dataMembers p.st).flatten) := by
  simp [SeqPage.tuple, tupleMembers, dataMembers, List.append_assoc]

/-- the stored tuple starts with exactly the members of `tupleLayout` … -/
theorem tuple_fits (p : SeqPage) (h : p.WF) : Fits tupleLayout (tupleMembers p) := by
  simp [Fits, tupleMembers, tupleLayout, Layout.widths, h.2.2.2.2.2.1]

/-- … and its data are exactly the members of `dataLayout` -/
theorem data_fits (s : SeqState) : Fits dataLayout (dataMembers s) := by
  simp [Fits, dataMembers, dataLayout, Layout.widths]

/-- the data start at `t_hoff` -/
theorem tuple_data (p : SeqPage) (h : p.WF) : p.tuple.drop p.hoff = (dataMembers p.st).flatten := by
  have hl : ((tupleMembers p).flatten ++ p.mid).length = p.hoff := by
    rw [List.length_append, fits_length tupleLayout _ (tuple_fits p h)]
    have : tupleLayout.size = 23 := by decide
    rw [this, SeqPage.hoff]
  rw [tuple_eq, ← List.append_assoc, ← hl, List.drop_left]

/-- reading the span of a member of `pageLayout` out of the encoded page yields that member -/
theorem encSeqPage_read (p : SeqPage) (h : p.WF) (name : List Char) (lo hi : Nat) (hs : pageLayout.span name = some (lo, hi)) :
    ∃ (i : Nat) (q : Bytes), (pageLayout[i]?).map Prod.fst = some name ∧ (pageMembers p)[i]? = some q ∧
      ((encSeqPage p).drop lo).take (hi - lo) = q := by
  have := read_member pageLayout (pageMembers p) (pageRest p) (page_fits p h) name lo hi hs
  simpa [encSeqPage_eq] using this

/-- reading the span of a member of `tupleLayout` out of the stored tuple yields that member -/
theorem tuple_read (p : SeqPage) (h : p.WF) (name : List Char) (lo hi : Nat) (hs : tupleLayout.span name = some (lo, hi)) :
    ∃ (i : Nat) (q : Bytes), (tupleLayout[i]?).map Prod.fst = some name ∧ (tupleMembers p)[i]? = some q ∧
      (p.tuple.drop lo).take (hi - lo) = q := by
  have := read_member tupleLayout (tupleMembers p) (p.mid ++ (dataMembers p.st).flatten) (tuple_fits p h) name lo hi hs
  simpa [tuple_eq] using this

/-- reading the span of a member of `dataLayout` out of the tuple data (`tupleData[hoff:]`) yields that member -/
theorem data_read (p : SeqPage) (h : p.WF) (name : List Char) (lo hi : Nat) (hs : dataLayout.span name = some (lo, hi)) :
    ∃ (i : Nat) (q : Bytes), (dataLayout[i]?).map Prod.fst = some name ∧ (dataMembers p.st)[i]? = some q ∧
      ((p.tuple.drop p.hoff).drop lo).take (hi - lo) = q := by
  have := read_member dataLayout (dataMembers p.st) [] (data_fits p.st) name lo hi hs
  simpa [tuple_data p h] using this

theorem sizes : pageLayout.size = 28 ∧ tupleLayout.size = 23 ∧ dataLayout.size = 17 := by decide

/-! ### the reads -/

def expectIs : Expect := [fld "special".toList pageLayout "pd_special".toList]

/-- **The constant-bounded read of the current `IsSequenceFile` is the whole pd_special.** -/
theorem IsSequenceFile_reads_are_spec_fields :
    readsAreFields expectIs Generated.SrcReads.IsSequenceFile = true := by decide

theorem IsSequenceFile_expected_fields_are_read :
    expectedAreRead expectIs Generated.SrcReads.IsSequenceFile = true := by decide

def expectFile : Expect :=
  [fld "special".toList pageLayout "pd_special".toList, fld "lower".toList pageLayout "pd_lower".toList,
   fld "itemPtr".toList pageLayout "pd_linp[0]".toList, fld "hoff".toList tupleLayout "t_hoff".toList]

/-- **Every constant-bounded read of the current `ParseSequenceFile` is one whole member, the one its target names:
`special` ← pd_special, `lower` ← pd_lower, `itemPtr` ← the first line pointer (page offset 24), and `hoff` ← t_hoff of
the tuple header (tuple offset 22).** -/
theorem ParseSequenceFile_reads_are_spec_fields :
    readsAreFields expectFile Generated.SrcReads.ParseSequenceFile = true := by decide

theorem ParseSequenceFile_expected_fields_are_read :
    expectedAreRead expectFile Generated.SrcReads.ParseSequenceFile = true := by decide

def expectTuple : Expect :=
  [fld "seq.LastValue".toList dataLayout "last_value".toList, fld "seq.IsCalled".toList dataLayout "is_called".toList]

/-- **Every constant-bounded read of the current `parseSequenceTuple` (the PostgreSQL ≥ 10 branch) is one whole
member of `FormData_pg_sequence_data`: `seq.LastValue` ← last_value @0, `seq.IsCalled` ← is_called @16.** -/
theorem parseSequenceTuple_reads_are_spec_fields :
    readsAreFields expectTuple Generated.SrcReads.parseSequenceTuple = true := by decide

theorem parseSequenceTuple_expected_fields_are_read :
    expectedAreRead expectTuple Generated.SrcReads.parseSequenceTuple = true := by decide

/-- the hypotheses are satisfiable: a sequence at 41, called -/
example : (⟨⟨41, 32, true⟩, zeros 12, 0, 700, 0, 0, zeros 6, 3, 0x0900, [0]⟩ : SeqPage).WF ∧
    dataLayout.span "is_called".toList = some (16, 17) ∧ pageLayout.span "pd_linp[0]".toList = some (24, 28) := by decide

end PgVerif.Proofs.SrcTie.SequenceReads
