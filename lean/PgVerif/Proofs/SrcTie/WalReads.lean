/-
  Source-level tie for WAL pages and records (property C17), translator style (see `ReadsKit`): `parsePageHeader`,
  `parseXLogRecord`, and the two stray constant-bounded reads of `parseWALPage` and `ScanWALDirectory` (wal.go) against
    * `XLogPageHeaderData` / `XLogLongPageHeaderData` (xlog_internal.h) as written by `Spec.Wal.pageHdrBytes` /
      `pageHeader`: xlp_magic u16, xlp_info u16, xlp_tli u32, xlp_pageaddr u64, xlp_rem_len u32, 4 bytes of alignment
      padding → 24; long header: + xlp_sysid u64, xlp_seg_size u32, xlp_xlog_blcksz u32 → 40;
    * `XLogRecord` (xlogrecord.h) as written by `Spec.Wal.encRecHeader`: xl_tot_len u32, xl_xid u32, xl_prev u64,
      xl_info u8, xl_rmid u8, 2 bytes of padding, xl_crc u32 → 24.
  `parsePageHeader` and `parseXLogRecord` build their result in a composite literal assigned to `h` / `rec`: srcfacts
  names all reads inside the literal after that variable, so they are tied by order — the table lists the members in
  the order of the literal's keys (Magic, Info, TimelineID, PageAddr, RemLen; TransactionID, PrevLSN, Info,
  ResourceMgr, CRC).
  Not covered (not constant-bounded): the block reference headers (`parseBlockRefsFor`, running position) and the
  continuation logic.
-/
import PgVerif.Generated.Src
import PgVerif.Spec.Wal
import PgVerif.Proofs.SrcTie.ReadsKit
namespace PgVerif.Proofs.SrcTie.WalReads
open PgVerif PgVerif.Spec.Wal PgVerif.Proofs.SrcTie.ReadsKit

/-! ### the page header -/

/-- `XLogPageHeaderData` (MAXALIGNed: 24 bytes) -/
def shortLayout : ReadsKit.Layout :=
  [("xlp_magic".toList, 2), ("xlp_info".toList, 2), ("xlp_tli".toList, 4), ("xlp_pageaddr".toList, 8),
   ("xlp_rem_len".toList, 4), ("(padding)".toList, 4)]

/-- `XLogLongPageHeaderData` = the short header + three members -/
def longLayout : ReadsKit.Layout :=
  shortLayout ++ [("xlp_sysid".toList, 8), ("xlp_seg_size".toList, 4), ("xlp_xlog_blcksz".toList, 4)]

def shortMembers (magic info tli addr rem : Nat) : List Bytes :=
  [le 2 magic, le 2 info, le 4 tli, le 8 addr, le 4 rem, zeros 4]

/-- the members of the header of page 0 of a segment -/
def longMembers (s : WalSegment) (rem : Nat) : List Bytes :=
  shortMembers s.magic (pageInfo s 0 rem) s.tli (s.startAddr + 8192 * 0) rem ++ [le 8 s.sysid, le 4 s.segSize, le 4 8192]

theorem pageHdrBytes_eq (magic info tli addr rem : Nat) (ext : Bytes) :
    pageHdrBytes magic info tli addr rem ext = (shortMembers magic info tli addr rem).flatten ++ ext := by
  simp [pageHdrBytes, shortMembers]

theorem pageHeader0_eq (s : WalSegment) (rem : Nat) : pageHeader s 0 rem = (longMembers s rem).flatten := by
  simp [pageHeader, pageHdrBytes, longExt, longMembers, shortMembers]

/-- the Spec encoder writes exactly the members of `shortLayout` at the start of every page header … -/
theorem short_fits (magic info tli addr rem : Nat) : Fits shortLayout (shortMembers magic info tli addr rem) := by
  simp [Fits, shortMembers, shortLayout, ReadsKit.Layout.widths]

/-- … and exactly the members of `longLayout` on the first page of a segment -/
theorem long_fits (s : WalSegment) (rem : Nat) : Fits longLayout (longMembers s rem) := by
  simp [Fits, longMembers, shortMembers, longLayout, shortLayout, ReadsKit.Layout.widths]

/-- `ShortHeaderSize` and `LongHeaderSize` -/
theorem header_sizes : shortLayout.size = 24 ∧ longLayout.size = 40 := by decide

/-- reading the span of a member of `shortLayout` out of any page header (page `k`, whatever follows) yields it -/
theorem pageHeader_read (s : WalSegment) (k rem : Nat) (rest : Bytes) (name : List Char) (lo hi : Nat)
    (hs : shortLayout.span name = some (lo, hi)) :
    ∃ (i : Nat) (q : Bytes), (shortLayout[i]?).map Prod.fst = some name ∧
      (shortMembers s.magic (pageInfo s k rem) s.tli (s.startAddr + 8192 * k) rem)[i]? = some q ∧
      ((pageHeader s k rem ++ rest).drop lo).take (hi - lo) = q := by
  have := read_member shortLayout _ (longExt s k ++ rest) (short_fits s.magic (pageInfo s k rem) s.tli (s.startAddr + 8192 * k) rem)
    name lo hi hs
  simpa [pageHeader, pageHdrBytes_eq, List.append_assoc] using this

/-- reading the span of a member of `longLayout` out of the header of page 0 yields it -/
theorem pageHeader0_read (s : WalSegment) (rem : Nat) (rest : Bytes) (name : List Char) (lo hi : Nat)
    (hs : longLayout.span name = some (lo, hi)) :
    ∃ (i : Nat) (q : Bytes), (longLayout[i]?).map Prod.fst = some name ∧ (longMembers s rem)[i]? = some q ∧
      ((pageHeader s 0 rem ++ rest).drop lo).take (hi - lo) = q := by
  have := read_member longLayout (longMembers s rem) rest (long_fits s rem) name lo hi hs
  simpa [pageHeader0_eq] using this

/-- target in wal.go ↦ member; the five reads named `h` are the values of the literal's keys in source order -/
def expectPageHeader : Expect :=
  [fld "h".toList longLayout "xlp_magic".toList,        -- Magic:
   fld "h".toList longLayout "xlp_info".toList,         -- Info:
   fld "h".toList longLayout "xlp_tli".toList,          -- TimelineID:
   fld "h".toList longLayout "xlp_pageaddr".toList,     -- PageAddr:
   fld "h".toList longLayout "xlp_rem_len".toList,      -- RemLen:
   fld "h.SystemID".toList longLayout "xlp_sysid".toList, fld "h.SegSize".toList longLayout "xlp_seg_size".toList,
   fld "h.BlockSize".toList longLayout "xlp_xlog_blcksz".toList]

/-- **Every constant-bounded read of the current `parsePageHeader` is one whole member of
`XLogLongPageHeaderData`: the literal's fields ← xlp_magic, xlp_info, xlp_tli, xlp_pageaddr, xlp_rem_len in this
order, and `h.SystemID`, `h.SegSize`, `h.BlockSize` ← xlp_sysid, xlp_seg_size, xlp_xlog_blcksz.** -/
theorem parsePageHeader_reads_are_spec_fields :
    readsAreFields expectPageHeader Generated.SrcReads.parsePageHeader = true := by decide

theorem parsePageHeader_expected_fields_are_read :
    expectedAreRead expectPageHeader Generated.SrcReads.parsePageHeader = true := by decide

/-- `ScanWALDirectory` looks at the first page header of a segment file directly -/
def expectScan : Expect :=
  [fld "magic".toList longLayout "xlp_magic".toList, fld "summary.TimelineID".toList longLayout "xlp_tli".toList]

/-- **The constant-bounded reads of the current `ScanWALDirectory` are xlp_magic and xlp_tli of the first page.** -/
theorem ScanWALDirectory_reads_are_spec_fields :
    readsAreFields expectScan Generated.SrcReads.ScanWALDirectory = true := by decide

theorem ScanWALDirectory_expected_fields_are_read :
    expectedAreRead expectScan Generated.SrcReads.ScanWALDirectory = true := by decide

/-! ### the record header -/

/-- `XLogRecord` -/
def recLayout : ReadsKit.Layout :=
  [("xl_tot_len".toList, 4), ("xl_xid".toList, 4), ("xl_prev".toList, 8), ("xl_info".toList, 1), ("xl_rmid".toList, 1),
   ("(padding)".toList, 2), ("xl_crc".toList, 4)]

def recMembers (r : WalRecord) : List Bytes :=
  [le 4 r.totLen, le 4 r.xid, le 8 r.prev, [UInt8.ofNat r.info], [UInt8.ofNat r.rmid], [0, 0], le 4 r.crc]

theorem encRecord_eq (r : WalRecord) : encRecord r = (recMembers r).flatten ++ encBody r := by
  simp [encRecord, encRecHeader, recMembers]

/-- the Spec encoder starts every record with exactly the members of `recLayout`, back to back -/
theorem rec_fits (r : WalRecord) : Fits recLayout (recMembers r) := by
  simp [Fits, recMembers, recLayout, ReadsKit.Layout.widths]

/-- `XLogRecordSize` -/
theorem rec_header_size : recLayout.size = 24 := by decide

/-- reading the span of a member of `recLayout` out of an encoded record (followed by anything) yields it -/
theorem encRecord_read (r : WalRecord) (rest : Bytes) (name : List Char) (lo hi : Nat)
    (hs : recLayout.span name = some (lo, hi)) :
    ∃ (i : Nat) (q : Bytes), (recLayout[i]?).map Prod.fst = some name ∧ (recMembers r)[i]? = some q ∧
      ((encRecord r ++ rest).drop lo).take (hi - lo) = q := by
  have := read_member recLayout (recMembers r) (encBody r ++ rest) (rec_fits r) name lo hi hs
  simpa [encRecord_eq, List.append_assoc] using this

/-- the five reads named `rec` are the values of the literal's keys in source order -/
def expectRecord : Expect :=
  [fld "totalLen".toList recLayout "xl_tot_len".toList,
   fld "rec".toList recLayout "xl_xid".toList,      -- TransactionID:
   fld "rec".toList recLayout "xl_prev".toList,     -- PrevLSN:
   fld "rec".toList recLayout "xl_info".toList,     -- Info:
   fld "rec".toList recLayout "xl_rmid".toList,     -- ResourceMgr:
   fld "rec".toList recLayout "xl_crc".toList]      -- CRC:

/-- **Every constant-bounded read of the current `parseXLogRecord` is one whole `XLogRecord` member: `totalLen` ←
xl_tot_len, and the literal's fields ← xl_xid, xl_prev, xl_info, xl_rmid, xl_crc in this order.** -/
theorem parseXLogRecord_reads_are_spec_fields :
    readsAreFields expectRecord Generated.SrcReads.parseXLogRecord = true := by decide

theorem parseXLogRecord_expected_fields_are_read :
    expectedAreRead expectRecord Generated.SrcReads.parseXLogRecord = true := by decide

/-- `parseWALPage` peeks at the total length of the record at the current position (`recData[0:4]`) -/
def expectWALPage : Expect := [fld "totalLen".toList recLayout "xl_tot_len".toList]

/-- **The constant-bounded read of the current `parseWALPage` is xl_tot_len of the record at `pos`.** -/
theorem parseWALPage_reads_are_spec_fields :
    readsAreFields expectWALPage Generated.SrcReads.parseWALPage = true := by decide

theorem parseWALPage_expected_fields_are_read :
    expectedAreRead expectWALPage Generated.SrcReads.parseWALPage = true := by decide

/-- the spans the hypotheses of the `_read` theorems range over -/
example : longLayout.span "xlp_sysid".toList = some (24, 32) ∧ shortLayout.span "xlp_pageaddr".toList = some (8, 16) ∧
    recLayout.span "xl_crc".toList = some (20, 24) := by decide

end PgVerif.Proofs.SrcTie.WalReads
