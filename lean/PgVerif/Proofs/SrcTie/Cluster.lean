/-
  Source-level tie for area `cluster`: every package-level integer constant of the Go files this area models,
  as extracted from the repository's *current source* by harness/cmd/srcfacts (Generated/Src.lean is rewritten on
  every run), equals the value the Lean model and the PostgreSQL-side Spec were written against.  A changed mask,
  oid, magic number or size breaks the named theorem below at build time (then the finder looks for an input).
  Hand-written expectations; where the model has a named constant the theorem ties the two names directly.
-/
import PgVerif.Generated.Src
namespace PgVerif.Proofs.SrcTie.Cluster
open PgVerif.Generated
theorem catalog_PGDatabase : Src.catalog.PGDatabase = 0x4ee := by decide
theorem catalog_PGAuthID : Src.catalog.PGAuthID = 0x4ec := by decide
theorem catalog_PGClass : Src.catalog.PGClass = 0x4eb := by decide
theorem catalog_PGAttribute : Src.catalog.PGAttribute = 0x4e1 := by decide
end PgVerif.Proofs.SrcTie.Cluster
