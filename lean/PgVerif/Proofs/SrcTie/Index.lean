/-
  Source-level tie for area `index`: every package-level integer constant of the Go files this area models,
  as extracted from the repository's *current source* by harness/cmd/srcfacts (Generated/Src.lean is rewritten on
  every run), equals the value the Lean model and the PostgreSQL-side Spec were written against.  A changed mask,
  oid, magic number or size breaks the named theorem below at build time (then the finder looks for an input).
  Hand-written expectations; where the model has a named constant the theorem ties the two names directly.
-/
import PgVerif.Generated.Src
import PgVerif.Model.Index
namespace PgVerif.Proofs.SrcTie.Index
open PgVerif.Generated
theorem index_IndexTypeUnknown : Src.index.IndexTypeUnknown = 0 := by decide
theorem index_IndexTypeBTree : Src.index.IndexTypeBTree = 1 := by decide
theorem index_IndexTypeHash : Src.index.IndexTypeHash = 2 := by decide
theorem index_IndexTypeGiST : Src.index.IndexTypeGiST = 3 := by decide
theorem index_IndexTypeGIN : Src.index.IndexTypeGIN = 4 := by decide
theorem index_IndexTypeSPGiST : Src.index.IndexTypeSPGiST = 5 := by decide
theorem index_IndexTypeBRIN : Src.index.IndexTypeBRIN = 6 := by decide
theorem index_BTMaxCycleID : Src.index.BTMaxCycleID = ((PgVerif.Model.Index.BTMaxCycleID : Nat) : Int) := by decide
theorem index_BTMetaMagic : Src.index.BTMetaMagic = 0x53162 := by decide
theorem index_BTPageMagic : Src.index.BTPageMagic = 0x1234 := by decide
theorem index_BTPLeaf : Src.index.BTPLeaf = 1 := by decide
theorem index_BTPRoot : Src.index.BTPRoot = 2 := by decide
theorem index_BTPDeleted : Src.index.BTPDeleted = 4 := by decide
theorem index_BTPMeta : Src.index.BTPMeta = 8 := by decide
theorem index_BTPHalfDead : Src.index.BTPHalfDead = 16 := by decide
theorem index_BTPSplitEnd : Src.index.BTPSplitEnd = 32 := by decide
theorem index_BTPHasGarbage : Src.index.BTPHasGarbage = 64 := by decide
theorem index_BTPIncompleteSplit : Src.index.BTPIncompleteSplit = 128 := by decide
theorem index_HashoPageID : Src.index.HashoPageID = 0xff80 := by decide
theorem index_LHUnused : Src.index.LHUnused = 0 := by decide
theorem index_LHOverflow : Src.index.LHOverflow = 1 := by decide
theorem index_LHBucket : Src.index.LHBucket = 2 := by decide
theorem index_LHBitmap : Src.index.LHBitmap = 4 := by decide
theorem index_LHMeta : Src.index.LHMeta = 8 := by decide
theorem index_GISTPageID : Src.index.GISTPageID = 0xff81 := by decide
theorem index_FLeaf : Src.index.FLeaf = 1 := by decide
theorem index_FDeleted : Src.index.FDeleted = 2 := by decide
theorem index_FTuplesDeleted : Src.index.FTuplesDeleted = 4 := by decide
theorem index_FFollowRight : Src.index.FFollowRight = 8 := by decide
theorem index_FHasGarbage : Src.index.FHasGarbage = 16 := by decide
theorem index_GINData : Src.index.GINData = 1 := by decide
theorem index_GINLeaf : Src.index.GINLeaf = 2 := by decide
theorem index_GINDeleted : Src.index.GINDeleted = 4 := by decide
theorem index_GINMeta : Src.index.GINMeta = 8 := by decide
theorem index_GINList : Src.index.GINList = 16 := by decide
theorem index_GINListFullrow : Src.index.GINListFullrow = 32 := by decide
theorem index_GINIncompleteSplit : Src.index.GINIncompleteSplit = 64 := by decide
theorem index_GINCompressed : Src.index.GINCompressed = 128 := by decide
theorem index_SPGISTPageID : Src.index.SPGISTPageID = 0xff82 := by decide
theorem index_SPGISTMeta : Src.index.SPGISTMeta = 1 := by decide
theorem index_SPGISTDeleted : Src.index.SPGISTDeleted = 2 := by decide
theorem index_SPGISTLeaf : Src.index.SPGISTLeaf = 4 := by decide
theorem index_SPGISTNulls : Src.index.SPGISTNulls = 8 := by decide
theorem index_BRINPageTypeMeta : Src.index.BRINPageTypeMeta = 0xf091 := by decide
theorem index_BRINPageTypeRevmap : Src.index.BRINPageTypeRevmap = 0xf092 := by decide
theorem index_BRINPageTypeRegular : Src.index.BRINPageTypeRegular = 0xf093 := by decide
end PgVerif.Proofs.SrcTie.Index
