/-
  Source-level tie for pg_filenode.map (property C20), translator style (see `ReadsKit`): every constant-bounded read
  of the current `ParseRelMapFile` is one whole member of PostgreSQL's `RelMapFile` (relmapper.c: magic i32,
  num_mappings i32, mappings[62] of {mapoid, mapfilenode}, crc, pad → 512 bytes) as laid out by `Spec.encRelMapRaw`,
  namely the member its assignment target names.
  Not covered (not constant-bounded in the source, hence absent from `Generated.SrcReads`): the mapping entries
  (`data[offset : offset+4]`, `offset` a loop variable) and the crc (`data[crcOffset : crcOffset+4]`, `crcOffset` a
  variable initialised with a constant expression).
-/
import PgVerif.Generated.Src
import PgVerif.Spec.Relmap
import PgVerif.Proofs.SrcTie.ReadsKit
namespace PgVerif.Proofs.SrcTie.RelmapReads
open PgVerif PgVerif.Spec PgVerif.Proofs.SrcTie.ReadsKit

/-- `RelMapFile` of relmapper.c (MAX_MAPPINGS = 62) -/
def layout : Layout :=
  [("magic".toList, 4), ("num_mappings".toList, 4), ("mappings".toList, 496), ("crc".toList, 4), ("pad".toList, 4)]

/-- the members as the Spec encoder writes them (unused mapping slots belong to `mappings`) -/
def members (magic count : Nat) (m : RelMap) : List Bytes :=
  [le 4 magic, le 4 count, m.mappings.flatMap encMapping ++ m.unused, le 4 m.crc, m.pad]

theorem enc_eq (magic count : Nat) (m : RelMap) : encRelMapRaw magic count m = (members magic count m).flatten := by
  simp [encRelMapRaw, members]

theorem mappings_length (ms : List (Nat × Nat)) : (ms.flatMap encMapping).length = 8 * ms.length := by
  induction ms with
  | nil => rfl
  | cons a t ih => simp only [List.flatMap_cons, List.length_append, ih, encMapping, le_length, List.length_cons]; omega

/-- the Spec encoder of a well-formed map writes exactly the members of `layout`, back to back -/
theorem fits (magic count : Nat) (m : RelMap) (h : m.WF) : Fits layout (members magic count m) := by
  obtain ⟨h1, h2, _, h4, _⟩ := h
  unfold relmapMax at h1 h2
  simp only [Fits, members, layout, Layout.widths, List.map_cons, List.map_nil, le_length, List.length_append,
    mappings_length, h2, h4]
  have : 8 * m.mappings.length + 8 * (62 - m.mappings.length) = 496 := by omega
  rw [this]

/-- the file is 512 bytes -/
theorem enc_length (magic count : Nat) (m : RelMap) (h : m.WF) : (encRelMapRaw magic count m).length = 512 := by
  rw [enc_eq, fits_length layout _ (fits magic count m h)]; decide

/-- reading the span of a member of `layout` out of the Spec encoding yields that member -/
theorem enc_read (magic count : Nat) (m : RelMap) (h : m.WF) (name : List Char) (lo hi : Nat)
    (hs : layout.span name = some (lo, hi)) :
    ∃ (i : Nat) (p : Bytes), (layout[i]?).map Prod.fst = some name ∧ (members magic count m)[i]? = some p ∧
      ((encRelMapRaw magic count m).drop lo).take (hi - lo) = p := by
  have := read_member layout (members magic count m) [] (fits magic count m h) name lo hi hs
  simpa [enc_eq] using this

/-- assignment target in relmap.go ↦ member of `RelMapFile` -/
def expect : Expect :=
  [fld "rm.Magic".toList layout "magic".toList, fld "rm.NumMappings".toList layout "num_mappings".toList]

/-- **Every constant-bounded read of the current `ParseRelMapFile` is one whole `RelMapFile` member, the one its
assignment target names** (`rm.Magic` ← magic, `rm.NumMappings` ← num_mappings). -/
theorem ParseRelMapFile_reads_are_spec_fields :
    readsAreFields expect Generated.SrcReads.ParseRelMapFile = true := by decide

/-- and both members of the table are still read -/
theorem ParseRelMapFile_expected_fields_are_read :
    expectedAreRead expect Generated.SrcReads.ParseRelMapFile = true := by decide

/-- the hypotheses of `enc_read` are satisfiable: an empty map, and the span of `num_mappings` is bytes 4..8 -/
example : (⟨[], zeros 496, 7, zeros 4⟩ : RelMap).WF ∧ layout.span "num_mappings".toList = some (4, 8) :=
  ⟨by simp [RelMap.WF, relmapMax], by decide⟩

end PgVerif.Proofs.SrcTie.RelmapReads
