/-
  Source-level tie for pg_filenode.map (property C20), translator style (see `ReadsKit`): every constant-bounded read
  of the current `ParseRelMapFile` and of `relMapIsV16` (fixes/control/21) is one whole member of PostgreSQL's
  `RelMapFile` (relmapper.c: magic i32, num_mappings i32, mappings[62] of {mapoid, mapfilenode}, crc, pad → 512 bytes in
  PostgreSQL 12–15; mappings[64], crc, no pad → 524 bytes in PostgreSQL 16) as laid out by `Spec.encRelMapRaw`, namely
  the member its assignment target names — or, for the two crc bodies of `relMapIsV16`, exactly the members BEFORE the
  crc of the layout in question (the bytes the CRC-32C covers: `Spec.relmapBody`).
  The two members read at the same constant offsets in both layouts (magic, num_mappings) have the same span in both;
  the crc is read at 520 (`layout16`) in the `isV16` branch and at 504 (`layout`) in the other — tied in source order.
  Not covered (not constant-bounded in the source, hence absent from `Generated.SrcReads`): the mapping entries
  (`data[offset : offset+4]`, `offset` a loop variable).
-/
import PgVerif.Generated.Src
import PgVerif.Spec.Relmap
import PgVerif.Proofs.SrcTie.ReadsKit
namespace PgVerif.Proofs.SrcTie.RelmapReads
open PgVerif PgVerif.Spec PgVerif.Proofs.SrcTie.ReadsKit

/-- `RelMapFile` of relmapper.c (MAX_MAPPINGS = 62) -/
def layout : Layout :=
  [("magic".toList, 4), ("num_mappings".toList, 4), ("mappings".toList, 496), ("crc".toList, 4), ("pad".toList, 4)]

/-- the members as the Spec encoder writes them (unused mapping slots belong to `mappings`) -/
def members (magic count : Nat) (m : RelMap) : List Bytes :=
  [le 4 magic, le 4 count, m.mappings.flatMap encMapping ++ m.unused, le 4 m.crc, m.pad]

theorem enc_eq (magic count : Nat) (m : RelMap) : encRelMapRaw magic count m = (members magic count m).flatten := by
  simp [encRelMapRaw, members]

theorem mappings_length (ms : List (Nat × Nat)) : (ms.flatMap encMapping).length = 8 * ms.length := by
  induction ms with
  | nil => rfl
  | cons a t ih => simp only [List.flatMap_cons, List.length_append, ih, encMapping, le_length, List.length_cons]; omega

/-- the Spec encoder of a well-formed map writes exactly the members of `layout`, back to back -/
theorem fits (magic count : Nat) (m : RelMap) (h : m.WF) : Fits layout (members magic count m) := by
  obtain ⟨h1, h2, _, h4, _⟩ := h
  unfold relmapMax at h1 h2
  simp only [Fits, members, layout, Layout.widths, List.map_cons, List.map_nil, le_length, List.length_append,
    mappings_length, h2, h4]
  have : 8 * m.mappings.length + 8 * (62 - m.mappings.length) = 496 := by omega
  rw [this]

/-- the file is 512 bytes -/
theorem enc_length (magic count : Nat) (m : RelMap) (h : m.WF) : (encRelMapRaw magic count m).length = 512 := by
  rw [enc_eq, fits_length layout _ (fits magic count m h)]; decide

/-- reading the span of a member of `layout` out of the Spec encoding yields that member -/
theorem enc_read (magic count : Nat) (m : RelMap) (h : m.WF) (name : List Char) (lo hi : Nat)
    (hs : layout.span name = some (lo, hi)) :
    ∃ (i : Nat) (p : Bytes), (layout[i]?).map Prod.fst = some name ∧ (members magic count m)[i]? = some p ∧
      ((encRelMapRaw magic count m).drop lo).take (hi - lo) = p := by
  have := read_member layout (members magic count m) [] (fits magic count m h) name lo hi hs
  simpa [enc_eq] using this

/-! ### the PostgreSQL 16 layout -/

/-- `RelMapFile` of relmapper.c in PostgreSQL 16 (MAX_MAPPINGS = 64, no padding) -/
def layout16 : Layout :=
  [("magic".toList, 4), ("num_mappings".toList, 4), ("mappings".toList, 512), ("crc".toList, 4)]

def members16 (magic count : Nat) (m : RelMap) : List Bytes :=
  [le 4 magic, le 4 count, m.mappings.flatMap encMapping ++ m.unused, le 4 m.crc]

theorem enc_eq16 (magic count : Nat) (m : RelMap) (h : m.WF16) :
    encRelMapRaw magic count m = (members16 magic count m).flatten := by
  have hp : m.pad = [] := List.eq_nil_of_length_eq_zero h.2.2.2.1
  simp [encRelMapRaw, members16, hp]

theorem fits16 (magic count : Nat) (m : RelMap) (h : m.WF16) : Fits layout16 (members16 magic count m) := by
  obtain ⟨h1, h2, _, _, _⟩ := h
  unfold relmapMax16 at h1 h2
  simp only [Fits, members16, layout16, Layout.widths, List.map_cons, List.map_nil, le_length, List.length_append,
    mappings_length, h2]
  have : 8 * m.mappings.length + 8 * (64 - m.mappings.length) = 512 := by omega
  rw [this]

/-- the file is 524 bytes -/
theorem enc_length16 (magic count : Nat) (m : RelMap) (h : m.WF16) : (encRelMapRaw magic count m).length = 524 := by
  rw [enc_eq16 magic count m h, fits_length layout16 _ (fits16 magic count m h)]; decide

theorem enc_read16 (magic count : Nat) (m : RelMap) (h : m.WF16) (name : List Char) (lo hi : Nat)
    (hs : layout16.span name = some (lo, hi)) :
    ∃ (i : Nat) (p : Bytes), (layout16[i]?).map Prod.fst = some name ∧ (members16 magic count m)[i]? = some p ∧
      ((encRelMapRaw magic count m).drop lo).take (hi - lo) = p := by
  have := read_member layout16 (members16 magic count m) [] (fits16 magic count m h) name lo hi hs
  simpa [enc_eq16 magic count m h] using this

/-- the members read at constant offsets lie at the same bytes in both layouts; the crc does not (504 / 520) -/
theorem common_spans : layout16.span "magic".toList = layout.span "magic".toList ∧
    layout16.span "num_mappings".toList = layout.span "num_mappings".toList ∧
    layout.span "crc".toList = some (504, 508) ∧ layout16.span "crc".toList = some (520, 524) := by decide

/-- assignment target in relmap.go ↦ member of `RelMapFile`.  `rm.CRC` is assigned twice, in source order: first in the
`if isV16` branch from the crc of the PostgreSQL 16 layout, then in the `else` branch from the crc of the 12–15 layout. -/
def expect : Expect :=
  [fld "rm.Magic".toList layout "magic".toList, fld "rm.NumMappings".toList layout "num_mappings".toList,
   fld "rm.CRC".toList layout16 "crc".toList, fld "rm.CRC".toList layout "crc".toList]

/-- **Every constant-bounded read of the current `ParseRelMapFile` is one whole `RelMapFile` member, the one its
assignment target names** (`rm.Magic` ← magic, `rm.NumMappings` ← num_mappings, `rm.CRC` ← crc of the 16 layout, then
crc of the 12–15 layout). -/
theorem ParseRelMapFile_reads_are_spec_fields :
    readsAreFields expect Generated.SrcReads.ParseRelMapFile = true := by decide

/-- and all four entries of the table are still read -/
theorem ParseRelMapFile_expected_fields_are_read :
    expectedAreRead expect Generated.SrcReads.ParseRelMapFile = true := by decide

/-- the same with magic and num_mappings taken from the PostgreSQL 16 layout (they lie at the same bytes: `common_spans`) -/
def expect16 : Expect :=
  [fld "rm.Magic".toList layout16 "magic".toList, fld "rm.NumMappings".toList layout16 "num_mappings".toList,
   fld "rm.CRC".toList layout16 "crc".toList, fld "rm.CRC".toList layout "crc".toList]

theorem ParseRelMapFile_reads_are_spec_fields_v16 :
    readsAreFields expect16 Generated.SrcReads.ParseRelMapFile = true := by decide

theorem ParseRelMapFile_expected_fields_are_read_v16 :
    expectedAreRead expect16 Generated.SrcReads.ParseRelMapFile = true := by decide

/-! ### relMapIsV16: the crc candidates and the bytes they cover -/

/-- `before target layout member`: `target` is read from everything that precedes `member` in `layout` (offset 0 up to
the member's first byte) — the bytes a crc member covers -/
def before (t : List Char) (l : Layout) (m : List Char) : List Char × Option (Nat × Nat) :=
  (t, (l.span m).map fun s => (0, s.1))

/-- assignment target in relMapIsV16 ↦ bytes of `RelMapFile`: the 16 candidate (`bodyV16` = all members before the crc
of the 16 layout, `crcV16` = that crc), then the 12–15 candidate (`body`, `crc`) -/
def expectIsV16 : Expect :=
  [before "bodyV16".toList layout16 "crc".toList, fld "crcV16".toList layout16 "crc".toList,
   before "body".toList layout "crc".toList, fld "crc".toList layout "crc".toList]

/-- **Every constant-bounded read of `relMapIsV16` is the crc member of one layout or exactly the bytes before it.** -/
theorem relMapIsV16_reads_are_spec_fields :
    readsAreFields expectIsV16 Generated.SrcReads.relMapIsV16 = true := by decide

theorem relMapIsV16_expected_fields_are_read :
    expectedAreRead expectIsV16 Generated.SrcReads.relMapIsV16 = true := by decide

/-- the body spans are what the Spec's crc check covers: `Spec.relmapBody l img = img.take (offsetof crc)` -/
theorem body_spans_are_spec :
    (before "body".toList layout "crc".toList).2 = some (0, RelMapLayout.v12.crcOffset) ∧
    (before "bodyV16".toList layout16 "crc".toList).2 = some (0, RelMapLayout.v16.crcOffset) ∧
    layout.span "crc".toList = some (RelMapLayout.v12.crcOffset, RelMapLayout.v12.crcOffset + 4) ∧
    layout16.span "crc".toList = some (RelMapLayout.v16.crcOffset, RelMapLayout.v16.crcOffset + 4) ∧
    layout.size = RelMapLayout.v12.size ∧ layout16.size = RelMapLayout.v16.size := by decide

/-- reading the body span out of the Spec encoding of a 12–15 map yields the members before the crc, back to back -/
theorem enc_body (magic count : Nat) (m : RelMap) (h : m.WF) :
    (encRelMapRaw magic count m).take 504 = le 4 magic ++ (le 4 count ++ (m.mappings.flatMap encMapping ++ m.unused)) := by
  obtain ⟨h1, h2, _, _, _⟩ := h
  unfold relmapMax at h1 h2
  have e : encRelMapRaw magic count m =
      (le 4 magic ++ (le 4 count ++ (m.mappings.flatMap encMapping ++ m.unused))) ++ (le 4 m.crc ++ m.pad) := by
    simp [encRelMapRaw, List.append_assoc]
  rw [e, List.take_left']
  simp only [List.length_append, le_length, mappings_length, h2]; omega

/-- … and of a 16 map -/
theorem enc_body16 (magic count : Nat) (m : RelMap) (h : m.WF16) :
    (encRelMapRaw magic count m).take 520 = le 4 magic ++ (le 4 count ++ (m.mappings.flatMap encMapping ++ m.unused)) := by
  obtain ⟨h1, h2, _, _, _⟩ := h
  unfold relmapMax16 at h1 h2
  have e : encRelMapRaw magic count m =
      (le 4 magic ++ (le 4 count ++ (m.mappings.flatMap encMapping ++ m.unused))) ++ (le 4 m.crc ++ m.pad) := by
    simp [encRelMapRaw, List.append_assoc]
  rw [e, List.take_left']
  simp only [List.length_append, le_length, mappings_length, h2]; omega

example : (⟨[], zeros 512, 7, []⟩ : RelMap).WF16 ∧ layout16.span "crc".toList = some (520, 524) :=
  ⟨by simp [RelMap.WF16, relmapMax16], by decide⟩

/-- the hypotheses of `enc_read` are satisfiable: an empty map, and the span of `num_mappings` is bytes 4..8 -/
example : (⟨[], zeros 496, 7, zeros 4⟩ : RelMap).WF ∧ layout.span "num_mappings".toList = some (4, 8) :=
  ⟨by simp [RelMap.WF, relmapMax], by decide⟩

end PgVerif.Proofs.SrcTie.RelmapReads
