/-
  Source-level tie for four scalar decoders of types.go (property C04), translator style (see
  `ReadsKit`): `decodeInterval`, `decodePoint`, `decodeInet`, `decodePathOrPolygon` (header fields; below) against the stored forms written by `Spec.Scalars.enc`:
    * `Interval` (datatype/timestamp.h): time int64 (microseconds), day int32, month int32 → 16 bytes;
    * `Point` (utils/geo_decls.h): x float8, y float8 → 16 bytes;
    * `inet_struct` (utils/inet.h) as stored (the varlena payload): family u8 (2 = IPv4, 3 = IPv6), bits u8,
      ipaddr[4 | 16] → 6 or 18 bytes; there is no is_cidr byte on disk.
  `decodeInet` reads the four IPv4 address bytes a second time at offsets 4..8, in a branch taken when the payload is
  at least 8 bytes long ("long format: family, bits, isCidr, addrLen, addr" — the wire format of `inet_send`, which
  PostgreSQL never stores).  That branch is unreachable for a stored IPv4 value (`inet_v4_stored_length`: the payload
  is 6 bytes), so those four reads have no counterpart in the Spec's layout; they are tied to `sendLayout`, written
  here from `network.c:inet_send` and NOT backed by a Spec encoder (said so in the theorem).  The IPv6 groups are
  read relative to a variable (`addrStart`) and do not occur in `Generated.SrcReads`.
  (`decodeScalar` has 48 more constant-bounded reads, all inside expressions without an assignment target; they are
  outside this task's list and are covered by the model and the scalar families only.)
-/
import PgVerif.Generated.Src
import PgVerif.Spec.Scalars
import PgVerif.Proofs.SrcTie.ReadsKit
namespace PgVerif.Proofs.SrcTie.ScalarsReads
open PgVerif PgVerif.Spec.Scalars PgVerif.Proofs.SrcTie.ReadsKit

/-! ### interval -/

/-- `Interval` -/
def intervalLayout : ReadsKit.Layout := [("time".toList, 8), ("day".toList, 4), ("month".toList, 4)]

def intervalMembers (months days us : Int) : List Bytes :=
  [le 8 (ofSigned 64 us), le 4 (ofSigned 32 days), le 4 (ofSigned 32 months)]

theorem interval_eq (months days us : Int) : enc (.interval months days us) = (intervalMembers months days us).flatten := by
  simp [enc, intervalMembers]

/-- the Spec encoder writes exactly the members of `intervalLayout`, back to back -/
theorem interval_fits (months days us : Int) : Fits intervalLayout (intervalMembers months days us) := by
  simp [Fits, intervalMembers, intervalLayout, ReadsKit.Layout.widths]

/-- reading the span of a member of `intervalLayout` out of a stored interval yields that member -/
theorem interval_read (months days us : Int) (name : List Char) (lo hi : Nat) (hs : intervalLayout.span name = some (lo, hi)) :
    ∃ (i : Nat) (q : Bytes), (intervalLayout[i]?).map Prod.fst = some name ∧ (intervalMembers months days us)[i]? = some q ∧
      ((enc (.interval months days us)).drop lo).take (hi - lo) = q := by
  have := read_member intervalLayout (intervalMembers months days us) [] (interval_fits months days us) name lo hi hs
  simpa [interval_eq] using this

def expectInterval : Expect :=
  [fld "us".toList intervalLayout "time".toList, fld "days".toList intervalLayout "day".toList,
   fld "months".toList intervalLayout "month".toList]

/-- **Every constant-bounded read of the current `decodeInterval` is one whole `Interval` member, the one its
target names** (`us` ← time @0, `days` ← day @8, `months` ← month @12). -/
theorem decodeInterval_reads_are_spec_fields :
    readsAreFields expectInterval Generated.SrcReads.decodeInterval = true := by decide

theorem decodeInterval_expected_fields_are_read :
    expectedAreRead expectInterval Generated.SrcReads.decodeInterval = true := by decide

/-! ### point -/

/-- `Point` -/
def pointLayout : ReadsKit.Layout := [("x".toList, 8), ("y".toList, 8)]

def pointMembers (p : Pt) : List Bytes := [le 8 p.1, le 8 p.2]

theorem point_eq (p : Pt) : enc (.point p) = (pointMembers p).flatten := by
  simp [enc, encPt, pointMembers]

/-- the Spec encoder writes exactly the members of `pointLayout`, back to back -/
theorem point_fits (p : Pt) : Fits pointLayout (pointMembers p) := by
  simp [Fits, pointMembers, pointLayout, ReadsKit.Layout.widths]

/-- reading the span of a member of `pointLayout` out of a stored point yields that member -/
theorem point_read (p : Pt) (name : List Char) (lo hi : Nat) (hs : pointLayout.span name = some (lo, hi)) :
    ∃ (i : Nat) (q : Bytes), (pointLayout[i]?).map Prod.fst = some name ∧ (pointMembers p)[i]? = some q ∧
      ((enc (.point p)).drop lo).take (hi - lo) = q := by
  have := read_member pointLayout (pointMembers p) [] (point_fits p) name lo hi hs
  simpa [point_eq] using this

def expectPoint : Expect := [fld "x".toList pointLayout "x".toList, fld "y".toList pointLayout "y".toList]

/-- **Every constant-bounded read of the current `decodePoint` is one whole `Point` member, the one its target
names.** -/
theorem decodePoint_reads_are_spec_fields :
    readsAreFields expectPoint Generated.SrcReads.decodePoint = true := by decide

theorem decodePoint_expected_fields_are_read :
    expectedAreRead expectPoint Generated.SrcReads.decodePoint = true := by decide

/-! ### inet / cidr -/

/-- the stored `inet_struct` of an IPv4 address -/
def inet4Layout : ReadsKit.Layout :=
  [("family".toList, 1), ("bits".toList, 1), ("ipaddr[0]".toList, 1), ("ipaddr[1]".toList, 1), ("ipaddr[2]".toList, 1),
   ("ipaddr[3]".toList, 1)]

/-- the wire format of `inet_send` (network.c) for an IPv4 address: family, bits, is_cidr, nb, then the address.
NOT an on-disk layout and not backed by a Spec encoder -/
def sendLayout : ReadsKit.Layout :=
  [("family".toList, 1), ("bits".toList, 1), ("is_cidr".toList, 1), ("nb".toList, 1), ("ipaddr[0]".toList, 1),
   ("ipaddr[1]".toList, 1), ("ipaddr[2]".toList, 1), ("ipaddr[3]".toList, 1)]

def inetMembers (v6 : Bool) (addr : Bytes) (bits : Nat) : List Bytes :=
  [[if v6 then 3 else 2], [UInt8.ofNat bits]] ++ addr.map fun b => [b]

theorem flatten_singletons (bs : Bytes) : (bs.map fun b => [b]).flatten = bs := by
  induction bs with
  | nil => rfl
  | cons a t ih => simp [ih]

theorem inet_eq (cidr v6 : Bool) (addr : Bytes) (bits : Nat) :
    enc (.inet cidr v6 addr bits) = (inetMembers v6 addr bits).flatten := by
  simp [enc, inetMembers, flatten_singletons]

/-- the Spec encoder of a well-formed IPv4 value writes exactly the members of `inet4Layout`, back to back -/
theorem inet4_fits (cidr : Bool) (addr : Bytes) (bits : Nat) (h : (Val.inet cidr false addr bits).WF) :
    Fits inet4Layout (inetMembers false addr bits) := by
  have hl : addr.length = 4 := by
    simp only [Val.WF, Val.wf, Bool.false_eq_true, if_false, Bool.and_eq_true, beq_iff_eq] at h
    exact h.1
  match addr, hl with
  | [a, b, c, d], _ => simp [Fits, inetMembers, inet4Layout, ReadsKit.Layout.widths]

/-- a stored IPv4 inet/cidr payload is 6 bytes long: `decodeInet` takes its short-format branch -/
theorem inet_v4_stored_length (cidr : Bool) (addr : Bytes) (bits : Nat) (h : (Val.inet cidr false addr bits).WF) :
    (enc (.inet cidr false addr bits)).length = 6 := by
  rw [inet_eq, fits_length inet4Layout _ (inet4_fits cidr addr bits h)]; decide

/-- reading the span of a member of `inet4Layout` out of a stored IPv4 value yields that member -/
theorem inet4_read (cidr : Bool) (addr : Bytes) (bits : Nat) (h : (Val.inet cidr false addr bits).WF) (name : List Char)
    (lo hi : Nat) (hs : inet4Layout.span name = some (lo, hi)) :
    ∃ (i : Nat) (q : Bytes), (inet4Layout[i]?).map Prod.fst = some name ∧ (inetMembers false addr bits)[i]? = some q ∧
      ((enc (.inet cidr false addr bits)).drop lo).take (hi - lo) = q := by
  have := read_member inet4Layout (inetMembers false addr bits) [] (inet4_fits cidr addr bits h) name lo hi hs
  simpa [inet_eq] using this

/-- `addr` is assigned in two branches: the stored form first, the `inet_send` form second -/
def expectInet : Expect :=
  [fld "family".toList inet4Layout "family".toList, fld "bits".toList inet4Layout "bits".toList,
   fld "addr".toList inet4Layout "ipaddr[0]".toList, fld "addr".toList inet4Layout "ipaddr[1]".toList,
   fld "addr".toList inet4Layout "ipaddr[2]".toList, fld "addr".toList inet4Layout "ipaddr[3]".toList,
   fld "addr".toList sendLayout "ipaddr[0]".toList, fld "addr".toList sendLayout "ipaddr[1]".toList,
   fld "addr".toList sendLayout "ipaddr[2]".toList, fld "addr".toList sendLayout "ipaddr[3]".toList]

/-- **Every constant-bounded read of the current `decodeInet` is one whole member: `family`, `bits` and the four
address bytes of the stored `inet_struct` (the branch every stored IPv4 value takes), then — in the branch for
payloads of 8 bytes or more, which no stored value reaches — the four address bytes of the `inet_send` wire
format (`sendLayout`, not a Spec layout).** -/
theorem decodeInet_reads_are_spec_fields :
    readsAreFields expectInet Generated.SrcReads.decodeInet = true := by decide

theorem decodeInet_expected_fields_are_read :
    expectedAreRead expectInet Generated.SrcReads.decodeInet = true := by decide

/-! ### path / polygon (fixes/scalars/14) -/

/-- `PATH` (utils/geo_decls.h) after the varlena header: npts int32, closed int32, dummy int32, then the points -/
def pathLayout : ReadsKit.Layout := [("npts".toList, 4), ("closed".toList, 4), ("dummy".toList, 4)]

/-- `POLYGON` after the varlena header: npts int32, boundbox BOX (32 bytes), then the points -/
def polygonLayout : ReadsKit.Layout := [("npts".toList, 4), ("boundbox".toList, 32)]

/-- the head of `path_send`'s wire format (geo_ops.c): closed byte, npts int32 — the layout of the fallback branch, written
here from the PostgreSQL source and NOT backed by a Spec encoder (PostgreSQL never stores it) -/
def pathSendLayout : ReadsKit.Layout := [("closed".toList, 1), ("npts".toList, 4)]

def pathHead (closed : Bool) (pts : List Pt) : List Bytes := [le 4 pts.length, le 4 (if closed then 1 else 0), le 4 0]
def polygonHead (bbox : Bytes) (pts : List Pt) : List Bytes := [le 4 pts.length, bbox]

theorem path_eq (closed : Bool) (pts : List Pt) : enc (.path closed pts) = (pathHead closed pts).flatten ++ pts.flatMap encPt := by
  simp [enc, pathHead]

theorem polygon_eq (bbox : Bytes) (pts : List Pt) : enc (.polygon bbox pts) = (polygonHead bbox pts).flatten ++ pts.flatMap encPt := by
  simp [enc, polygonHead]

theorem path_fits (closed : Bool) (pts : List Pt) : Fits pathLayout (pathHead closed pts) := by
  simp [Fits, pathHead, pathLayout, ReadsKit.Layout.widths]

theorem polygon_fits (bbox : Bytes) (pts : List Pt) (h : (Val.polygon bbox pts).WF) : Fits polygonLayout (polygonHead bbox pts) := by
  have hl : bbox.length = 32 := by
    simp only [Val.WF, Val.wf, Bool.and_eq_true, beq_iff_eq] at h
    exact h.1.1.1
  simp [Fits, polygonHead, polygonLayout, ReadsKit.Layout.widths, hl]

/-- reading the span of a member of `pathLayout` out of a stored path yields that member -/
theorem path_read (closed : Bool) (pts : List Pt) (name : List Char) (lo hi : Nat) (hs : pathLayout.span name = some (lo, hi)) :
    ∃ (i : Nat) (q : Bytes), (pathLayout[i]?).map Prod.fst = some name ∧ (pathHead closed pts)[i]? = some q ∧
      ((enc (.path closed pts)).drop lo).take (hi - lo) = q := by
  have := read_member pathLayout (pathHead closed pts) (pts.flatMap encPt) (path_fits closed pts) name lo hi hs
  simpa [path_eq] using this

/-- … and of `polygonLayout` out of a stored polygon -/
theorem polygon_read (bbox : Bytes) (pts : List Pt) (h : (Val.polygon bbox pts).WF) (name : List Char) (lo hi : Nat)
    (hs : polygonLayout.span name = some (lo, hi)) :
    ∃ (i : Nat) (q : Bytes), (polygonLayout[i]?).map Prod.fst = some name ∧ (polygonHead bbox pts)[i]? = some q ∧
      ((enc (.polygon bbox pts)).drop lo).take (hi - lo) = q := by
  have := read_member polygonLayout (polygonHead bbox pts) (pts.flatMap encPt) (polygon_fits bbox pts h) name lo hi hs
  simpa [polygon_eq] using this

/-- `closed` is assigned in two branches: the stored form first, the `path_send` form (fallback) second -/
def expectPath : Expect :=
  [fld "n".toList pathLayout "npts".toList, fld "closed".toList pathLayout "closed".toList,
   fld "closed".toList pathSendLayout "closed".toList, fld "npts".toList pathSendLayout "npts".toList]

/-- **Every constant-bounded read of the current `decodePathOrPolygon` is one whole member: `n` ← npts @0 and `closed` ←
closed @4 of the stored `PATH` (npts sits at the same span in `POLYGON`: `polygon_npts_same_span`), then — in the fallback
branch, which no stored value reaches (`Props.C04.C04_path_layouts`) — the closed byte @0 and npts @1 of the `path_send`
wire format (`pathSendLayout`, not a Spec layout).**  The points are read at variable offsets (`first + i*16`) and do
not occur in `Generated.SrcReads`. -/
theorem decodePathOrPolygon_reads_are_spec_fields :
    readsAreFields expectPath Generated.SrcReads.decodePathOrPolygon = true := by decide

theorem decodePathOrPolygon_expected_fields_are_read :
    expectedAreRead expectPath Generated.SrcReads.decodePathOrPolygon = true := by decide

theorem polygon_npts_same_span : polygonLayout.span "npts".toList = pathLayout.span "npts".toList := by decide

/-- the hypotheses are satisfiable: 192.168.0.1/24 -/
example : (Val.inet false false [192, 168, 0, 1] 24).WF ∧ inet4Layout.span "ipaddr[3]".toList = some (5, 6) ∧
    intervalLayout.span "month".toList = some (12, 16) ∧ pointLayout.span "y".toList = some (8, 16) ∧
    pathLayout.span "closed".toList = some (4, 8) ∧ polygonLayout.span "boundbox".toList = some (4, 36) ∧
    (Val.polygon (zeros 32) [(0, 0)]).WF := by decide

end PgVerif.Proofs.SrcTie.ScalarsReads
