/-
  Source-level tie for the on-disk TOAST pointer (property C08), translator style (see `ReadsKit`).
  PostgreSQL's external pointer is `varattrib_1b_e` {va_header u8 = 0x01, va_tag u8 = 18 (VARTAG_ONDISK)} followed by
  `varatt_external` {va_rawsize i32, va_extinfo u32, va_valueid Oid, va_toastrelid Oid} (postgres.h / varatt.h), 18
  bytes, as written by `Spec.Toast.encExtPtr`.
  `ParseTOASTPointer` and `IsTOASTPointer` have ONE constant-bounded read each, `data[0]`, i.e. `va_header`
  (the Go variable of `ParseTOASTPointer` is called `tag`, but the byte it holds is the header byte, not `va_tag`
  = `data[1]`, which neither function reads — the acceptance of 0x02 / 0x12 as first byte is the recorded finding
  pinned by TestIsTOASTPointer / TestParseTOASTPointer, not a matter of offsets).
  Not covered: the four `varatt_external` members are read by `ParseTOASTPointer` as `data[offset : offset+4]` with
  a running variable `offset` (2, 6, 10, 14 at run time), so they are not constant-bounded reads and do not occur
  in `Generated.SrcReads`; they are tied by the model and the correspondence family (`Proofs/Toast`, C08).

  `toastVisible` (fixes/toast/21: PostgreSQL's HeapTupleSatisfiesToast on a raw tuple) has two constant-bounded reads,
  `infomask` ← bytes 20..22 and `xmin` ← bytes 0..4: tied below to the members t_infomask and t_xmin of
  `HeapTupleHeaderData` as written by `Spec.encTuple` (layout `HeapReads.tupleLayout`).
-/
import PgVerif.Generated.Src
import PgVerif.Spec.Toast
import PgVerif.Proofs.SrcTie.ReadsKit
import PgVerif.Proofs.SrcTie.HeapReads
namespace PgVerif.Proofs.SrcTie.ToastReads
open PgVerif PgVerif.Spec.Toast PgVerif.Proofs.SrcTie.ReadsKit

/-- `varattrib_1b_e` + `varatt_external` -/
def layout : ReadsKit.Layout :=
  [("va_header".toList, 1), ("va_tag".toList, 1), ("va_rawsize".toList, 4), ("va_extinfo".toList, 4),
   ("va_valueid".toList, 4), ("va_toastrelid".toList, 4)]

def members (p : ExtPtr) : List Bytes :=
  [[1], [18], le 4 p.rawsize, le 4 (p.extsize + 2 ^ 30 * p.method), le 4 p.valueid, le 4 p.toastrelid]

theorem enc_eq (p : ExtPtr) : encExtPtr p = (members p).flatten := by
  simp [encExtPtr, members]

/-- the Spec encoder writes exactly the members of `layout`, back to back (18 bytes) -/
theorem fits (p : ExtPtr) : Fits layout (members p) := by
  simp [Fits, members, layout, ReadsKit.Layout.widths]

theorem enc_length (p : ExtPtr) : (encExtPtr p).length = 18 := by
  rw [enc_eq, fits_length layout _ (fits p)]; decide

/-- reading the span of a member of `layout` out of the Spec encoding (followed by anything) yields that member -/
theorem enc_read (p : ExtPtr) (rest : Bytes) (name : List Char) (lo hi : Nat) (hs : layout.span name = some (lo, hi)) :
    ∃ (i : Nat) (q : Bytes), (layout[i]?).map Prod.fst = some name ∧ (members p)[i]? = some q ∧
      ((encExtPtr p ++ rest).drop lo).take (hi - lo) = q := by
  have := read_member layout (members p) rest (fits p) name lo hi hs
  simpa [enc_eq] using this

/-- the offsets DESIGN.md section 3 gives for the pointer: rawsize @2, extinfo @6, valueid @10, toastrelid @14 -/
theorem layout_offsets :
    layout.span "va_rawsize".toList = some (2, 6) ∧ layout.span "va_extinfo".toList = some (6, 10) ∧
    layout.span "va_valueid".toList = some (10, 14) ∧ layout.span "va_toastrelid".toList = some (14, 18) := by decide

def expectParse : Expect := [fld "tag".toList layout "va_header".toList]
def expectIs : Expect := [fld "first".toList layout "va_header".toList]

/-- **The only constant-bounded read of the current `ParseTOASTPointer` is the whole `va_header` byte.** -/
theorem ParseTOASTPointer_reads_are_spec_fields :
    readsAreFields expectParse Generated.SrcReads.ParseTOASTPointer = true := by decide

theorem ParseTOASTPointer_expected_fields_are_read :
    expectedAreRead expectParse Generated.SrcReads.ParseTOASTPointer = true := by decide

/-- **The only constant-bounded read of the current `IsTOASTPointer` is the whole `va_header` byte.** -/
theorem IsTOASTPointer_reads_are_spec_fields :
    readsAreFields expectIs Generated.SrcReads.IsTOASTPointer = true := by decide

theorem IsTOASTPointer_expected_fields_are_read :
    expectedAreRead expectIs Generated.SrcReads.IsTOASTPointer = true := by decide

/-- the hypothesis of `enc_read` is satisfiable: `va_header` is byte 0, `va_tag` byte 1 -/
example : layout.span "va_header".toList = some (0, 1) ∧ layout.span "va_tag".toList = some (1, 2) := by decide

/-! ### toastVisible: the two header members PostgreSQL's TOAST visibility rule looks at -/

def expectVisible : Expect :=
  [fld "infomask".toList HeapReads.tupleLayout "t_infomask".toList, fld "xmin".toList HeapReads.tupleLayout "t_xmin".toList]

/-- **Every constant-bounded read of `toastVisible` is one whole `HeapTupleHeaderData` member, the one its target names**
(`infomask` ← t_infomask @20, `xmin` ← t_xmin @0) — and nothing else of the header (t_xmax @4 in particular) is read. -/
theorem toastVisible_reads_are_spec_fields :
    readsAreFields expectVisible Generated.SrcReads.toastVisible = true := by decide

theorem toastVisible_expected_fields_are_read :
    expectedAreRead expectVisible Generated.SrcReads.toastVisible = true := by decide

example : HeapReads.tupleLayout.span "t_xmin".toList = some (0, 4) ∧ HeapReads.tupleLayout.span "t_infomask".toList = some (20, 22) := by
  decide

end PgVerif.Proofs.SrcTie.ToastReads
