/-
  Source-level tie for heap pages and heap tuples (properties C02, C09, C03), translator style (see `ReadsKit`).
    * `parseHeader` (page.go; called by `ParsePage`, which has no constant-bounded read of its own) against
      `PageHeaderData` (bufpage.h) as written by `Spec.encPage`: the Spec keeps pd_lsn, pd_checksum and pd_flags as one
      12-byte blob `hdr0` (a heap scan never looks at them; `BlockReads` ties them member by member), then
      pd_lower, pd_upper, pd_special, pd_pagesize_version (u16 each) and pd_prune_xid (u32) → 24 bytes.
    * `ParseHeapTuple` (tuple.go) against `HeapTupleHeaderData` (htup_details.h) as written by `Spec.encTuple`:
      t_xmin, t_xmax, t_cid (u32), t_ctid (6 bytes), t_infomask2, t_infomask (u16), t_hoff (u8) → 23 bytes.
  `parseHeader` builds its result in a composite literal (`Lower: u16(data, 12), Upper: u16(data, 14)`): srcfacts
  gives those two reads the empty target, so they are tied by order (first pd_lower, then pd_upper).
  Not covered (not constant-bounded): the line pointers (`u32(data, off)` in `parseItems`), the tuple slice in
  `ParsePage`, the null bitmap and the data of `ParseHeapTuple` (`data[hoff:]`, `data[tupleHeaderSize : …+bitmapBytes]`).
-/
import PgVerif.Generated.Src
import PgVerif.Spec.Heap
import PgVerif.Proofs.SrcTie.ReadsKit
namespace PgVerif.Proofs.SrcTie.HeapReads
open PgVerif PgVerif.Spec PgVerif.Proofs.SrcTie.ReadsKit

/-! ### the page header -/

/-- `PageHeaderData` up to the line pointer array, at the granularity of `Spec.encPage` -/
def pageLayout : Layout :=
  [("pd_lsn,pd_checksum,pd_flags".toList, 12), ("pd_lower".toList, 2), ("pd_upper".toList, 2), ("pd_special".toList, 2),
   ("pd_pagesize_version".toList, 2), ("pd_prune_xid".toList, 4)]

def pageMembers (p : Page) : List Bytes :=
  [p.hdr0, le 2 p.lower, le 2 p.upper, le 2 p.special, le 2 (8192 + p.version), le 4 p.prune]

/-- what follows the header on the page -/
def pageRest (p : Page) : Bytes := p.lps.flatMap p.encLP ++ (p.free ++ (p.slots.flatMap slotBytes ++ p.tail))

theorem encPage_eq (p : Page) : encPage p = (pageMembers p).flatten ++ pageRest p := by
  simp [encPage, pageMembers, pageRest, List.append_assoc]

/-- the Spec encoder of a well-formed page starts with exactly the members of `pageLayout`, back to back -/
theorem page_fits (p : Page) (h : p.WF) : Fits pageLayout (pageMembers p) := by
  simp [Fits, pageMembers, pageLayout, Layout.widths, h.1]

/-- the header is 24 bytes: the line pointers start at 24 -/
theorem page_header_size : pageLayout.size = 24 := by decide

/-- reading the span of a member of `pageLayout` out of an encoded page yields that member -/
theorem encPage_read (p : Page) (h : p.WF) (name : List Char) (lo hi : Nat) (hs : pageLayout.span name = some (lo, hi)) :
    ∃ (i : Nat) (q : Bytes), (pageLayout[i]?).map Prod.fst = some name ∧ (pageMembers p)[i]? = some q ∧
      ((encPage p).drop lo).take (hi - lo) = q := by
  have := read_member pageLayout (pageMembers p) (pageRest p) (page_fits p h) name lo hi hs
  simpa [encPage_eq] using this

/-- target in page.go ↦ member; the two unnamed reads are the values of the keys `Lower:` and `Upper:` of the
composite literal, in that order -/
def expectHeader : Expect :=
  [fld "psv".toList pageLayout "pd_pagesize_version".toList,
   fld "".toList pageLayout "pd_lower".toList,     -- Lower:
   fld "".toList pageLayout "pd_upper".toList]     -- Upper:

/-- **Every constant-bounded read of the current `parseHeader` is one whole `PageHeaderData` member: `psv` ←
pd_pagesize_version, and the two fields of the literal ← pd_lower, pd_upper in this order.** -/
theorem parseHeader_reads_are_spec_fields :
    readsAreFields expectHeader Generated.SrcReads.parseHeader = true := by decide

theorem parseHeader_expected_fields_are_read :
    expectedAreRead expectHeader Generated.SrcReads.parseHeader = true := by decide

/-! ### the tuple header -/

/-- `HeapTupleHeaderData` up to t_hoff -/
def tupleLayout : Layout :=
  [("t_xmin".toList, 4), ("t_xmax".toList, 4), ("t_cid".toList, 4), ("t_ctid".toList, 6), ("t_infomask2".toList, 2),
   ("t_infomask".toList, 2), ("t_hoff".toList, 1)]

def tupleMembers (t : Tuple) : List Bytes :=
  [le 4 t.xmin, le 4 t.xmax, le 4 t.cid, t.ctid, le 2 t.infomask2, le 2 t.infomask, [UInt8.ofNat t.hoff]]

theorem encTuple_eq (t : Tuple) : encTuple t = (tupleMembers t).flatten ++ (t.mid ++ t.data) := by
  simp [encTuple, tupleMembers, List.append_assoc]

/-- the Spec encoder of a well-formed tuple starts with exactly the members of `tupleLayout`, back to back -/
theorem tuple_fits (t : Tuple) (h : t.WF) : Fits tupleLayout (tupleMembers t) := by
  simp [Fits, tupleMembers, tupleLayout, Layout.widths, h.1]

/-- the fixed part is 23 bytes: the null bitmap starts at 23 -/
theorem tuple_header_size : tupleLayout.size = 23 := by decide

/-- reading the span of a member of `tupleLayout` out of an encoded tuple yields that member -/
theorem encTuple_read (t : Tuple) (h : t.WF) (name : List Char) (lo hi : Nat) (hs : tupleLayout.span name = some (lo, hi)) :
    ∃ (i : Nat) (q : Bytes), (tupleLayout[i]?).map Prod.fst = some name ∧ (tupleMembers t)[i]? = some q ∧
      ((encTuple t).drop lo).take (hi - lo) = q := by
  have := read_member tupleLayout (tupleMembers t) (t.mid ++ t.data) (tuple_fits t h) name lo hi hs
  simpa [encTuple_eq] using this

def expectTuple : Expect :=
  [fld "infomask".toList tupleLayout "t_infomask".toList, fld "infomask2".toList tupleLayout "t_infomask2".toList,
   fld "hoff".toList tupleLayout "t_hoff".toList]

/-- **Every constant-bounded read of the current `ParseHeapTuple` is one whole `HeapTupleHeaderData` member, the
one its target names** (`infomask` ← t_infomask @20, `infomask2` ← t_infomask2 @18, `hoff` ← t_hoff @22). -/
theorem ParseHeapTuple_reads_are_spec_fields :
    readsAreFields expectTuple Generated.SrcReads.ParseHeapTuple = true := by decide

theorem ParseHeapTuple_expected_fields_are_read :
    expectedAreRead expectTuple Generated.SrcReads.ParseHeapTuple = true := by decide

/-- the hypotheses are satisfiable: an empty page of layout version 4 and a one-column tuple -/
example : (⟨zeros 12, 8192, 4, 0, [], zeros 8168, [], []⟩ : Page).WF ∧
    pageLayout.span "pd_upper".toList = some (14, 16) :=
  ⟨by simp [Page.WF, Page.upper, Page.lower, Page.normalSlots], by decide⟩

example : (⟨2, 0, 0, zeros 6, 1, 0x0900, [0], [7]⟩ : Tuple).WF ∧ tupleLayout.span "t_infomask".toList = some (20, 22) := by
  decide

end PgVerif.Proofs.SrcTie.HeapReads
