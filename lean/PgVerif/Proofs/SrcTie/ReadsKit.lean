/-
  Shared definitions of the translator-style source ties `Proofs/SrcTie/<Name>Reads.lean` (one per fixed-layout
  parser).  `harness/cmd/srcfacts` lists, per Go function, every constant-bounded read of a byte slice with the
  variable or field it is assigned to (`Generated.SrcReads.<fn>`, regenerated from the current source on every
  run).  A `<Name>Reads` module writes PostgreSQL's struct as a `Layout` (member name, width), proves that the Spec
  encoder produces exactly those members back to back (`Fits` + `read_member`: reading the byte span of a member
  out of the encoding yields that member's bytes), and states by `decide` that

    * every read of the function is one whole member — the one the table `expect` lists for its assignment
      target (`readsAreFields`), and
    * every entry of the table is still read (`expectedAreRead`).

  A target that is read several times (`lsn` = two u32 halves; `h` / `rec` / `` for the fields of a composite
  literal, where srcfacts can only name the variable the whole literal is assigned to) is tied by ORDER: the
  sequence of its reads in source order must be the sequence of members the table lists for it.
  What srcfacts does not record: which slice a read indexes (page, special space, metapage contents …) — the
  table says it, member by member, by naming the layout — and reads whose bounds are not constant expressions.
  Core Lean only.
-/
import PgVerif.Basic.Bytes
namespace PgVerif.Proofs.SrcTie.ReadsKit
open PgVerif

/-- one entry of `Generated.SrcReads.<fn>`: (assignment target, from, to) -/
abbrev Read := List Char × Nat × Nat

/-- a struct as PostgreSQL lays it out: (member name, width in bytes) in declaration order, alignment holes
and unread tails as members of their own -/
abbrev Layout := List (List Char × Nat)

/-- (from, to) of consecutive members of the given widths, the first one starting at `off` -/
def spansFrom : Nat → List Nat → List (Nat × Nat)
  | _, [] => []
  | off, w :: ws => (off, off + w) :: spansFrom (off + w) ws

def Layout.widths (l : Layout) : List Nat := l.map (·.2)
def Layout.spans (l : Layout) : List (Nat × Nat) := spansFrom 0 l.widths
def Layout.size (l : Layout) : Nat := l.widths.sum

def spanFrom : Nat → Layout → List Char → Option (Nat × Nat)
  | _, [], _ => none
  | off, (n, w) :: l, m => if n == m then some (off, off + w) else spanFrom (off + w) l m

/-- the byte span of the (first) member called `m` -/
def Layout.span (l : Layout) (m : List Char) : Option (Nat × Nat) := spanFrom 0 l m

/-- the expectation table of one function: (Go assignment target, byte span it must be read from); build the
entries with `fld` so that the span is computed from a layout -/
abbrev Expect := List (List Char × Option (Nat × Nat))

/-- `fld target layout member`: `target` is read from `member` of `layout` -/
def fld (t : List Char) (l : Layout) (m : List Char) : List Char × Option (Nat × Nat) := (t, l.span m)

/-- the spans read into target `t`, in source order -/
def got (reads : List Read) (t : List Char) : List (Option (Nat × Nat)) :=
  (reads.filter (·.1 == t)).map fun r => some r.2

/-- the spans the table lists for target `t`, in table order -/
def wanted (ex : Expect) (t : List Char) : List (Option (Nat × Nat)) := (ex.filter (·.1 == t)).map (·.2)

/-- every read goes to a target of the table, and the reads of that target are, in source order, exactly the
whole members the table lists for it -/
def readsAreFields (ex : Expect) (reads : List Read) : Bool := reads.all fun r => got reads r.1 == wanted ex r.1

/-- every entry of the table names an existing member and its target is still read -/
def expectedAreRead (ex : Expect) (reads : List Read) : Bool :=
  ex.all fun e => e.2.isSome && reads.any (·.1 == e.1)

/-- the one-byte spans of a span: a member that the code touches byte by byte -/
def bytesOf (s : Option (Nat × Nat)) : List (Option (Nat × Nat)) :=
  match s with
  | some (lo, hi) => (List.range (hi - lo)).map fun i => some (lo + i, lo + i + 1)
  | none => [none]

/-! ### tying a layout to a Spec encoder -/

/-- the member encodings `ps` have exactly the widths of the layout -/
def Fits (l : Layout) (ps : List Bytes) : Prop := ps.map List.length = l.widths

theorem spansFrom_read (rest : Bytes) : ∀ (ps : List Bytes) (ws : List Nat) (pre : Bytes) (off i lo hi : Nat),
    ps.map List.length = ws → pre.length = off → (spansFrom off ws)[i]? = some (lo, hi) →
    ∃ p, ps[i]? = some p ∧ ((pre ++ (ps.flatten ++ rest)).drop lo).take (hi - lo) = p
  | [], ws, pre, off, i, lo, hi, hw, _, h => by
    subst hw; simp [spansFrom] at h
  | p :: ps, ws, pre, off, i, lo, hi, hw, hpre, h => by
    subst hw
    cases i with
    | zero =>
      simp only [List.map_cons, spansFrom, List.getElem?_cons_zero, Option.some.injEq, Prod.mk.injEq] at h
      refine ⟨p, by simp, ?_⟩
      obtain ⟨h1, h2⟩ := h
      subst h1 h2 hpre
      simp [List.append_assoc]
    | succ i =>
      simp only [List.map_cons, spansFrom, List.getElem?_cons_succ] at h
      have := spansFrom_read rest ps (ps.map List.length) (pre ++ p) (off + p.length) i lo hi rfl (by simp [hpre]) h
      obtain ⟨q, hq, hr⟩ := this
      refine ⟨q, by simpa using hq, ?_⟩
      simpa [List.append_assoc] using hr

theorem spanFrom_index : ∀ (l : Layout) (off : Nat) (m : List Char) (s : Nat × Nat), spanFrom off l m = some s →
    ∃ i : Nat, (l[i]?).map Prod.fst = some m ∧ (spansFrom off l.widths)[i]? = some s
  | [], _, _, _, h => by simp [spanFrom] at h
  | (n, w) :: l, off, m, s, h => by
    unfold spanFrom at h
    by_cases hn : (n == m) = true
    · rw [if_pos hn] at h
      exact ⟨0, by simpa using hn, by simpa [Layout.widths, spansFrom] using h⟩
    · rw [if_neg hn] at h
      obtain ⟨i, h1, h2⟩ := spanFrom_index l (off + w) m s h
      exact ⟨i + 1, by simpa using h1, by simpa [Layout.widths, spansFrom] using h2⟩

/-- **Reading the span of member `m` out of an encoding that fits the layout yields that member's bytes.**
`ps` = the member encodings in declaration order, `rest` = whatever follows the struct. -/
theorem read_member (l : Layout) (ps : List Bytes) (rest : Bytes) (hf : Fits l ps) (m : List Char) (lo hi : Nat)
    (hs : l.span m = some (lo, hi)) :
    ∃ (i : Nat) (p : Bytes), (l[i]?).map Prod.fst = some m ∧ ps[i]? = some p ∧ ((ps.flatten ++ rest).drop lo).take (hi - lo) = p := by
  obtain ⟨i, h1, h2⟩ := spanFrom_index l 0 m (lo, hi) hs
  obtain ⟨p, hp, hr⟩ := spansFrom_read rest ps l.widths [] 0 i lo hi hf rfl h2
  exact ⟨i, p, h1, hp, by simpa using hr⟩

/-- the encoding is as long as the layout says -/
theorem fits_length (l : Layout) (ps : List Bytes) (hf : Fits l ps) : ps.flatten.length = l.size := by
  unfold Fits at hf
  simp only [Layout.size, ← hf, List.length_flatten]

end PgVerif.Proofs.SrcTie.ReadsKit
