/-
  Source-level tie for the block summary and the page checksum (property C19), translator style (see
  `ReadsKit`): `ParseBlockInfo` (blockrange.go), `VerifyPageChecksum`, `computePageChecksum`, `pgChecksumBlock`
  (checksum.go) against `PageHeaderData` (bufpage.h) as written by `Spec.BlockAddr.encHdr`: pd_lsn = `PageXLogRecPtr`
  {xlogid u32, xrecoff u32}, pd_checksum, pd_flags, pd_lower, pd_upper, pd_special, pd_pagesize_version (u16 each),
  pd_prune_xid (u32) → 24 bytes.
  pd_lsn is read in two steps, `uint64(u32(data, 0))<<32 | uint64(u32(data, 4))`, both assigned to one target
  (`lsn` / `result.LSN`): the tie is by order — first read = xlogid, second = xrecoff (which of the two is shifted
  is the model's business, `Model.Block`).
  `computePageChecksum` and `pgChecksumBlock` do not read but ZERO `pageCopy[8]` and `pageCopy[9]`; srcfacts lists
  index expressions on either side of an assignment, with an empty target here: the theorems say these two accesses are
  exactly the bytes of pd_checksum, each once, in order.
  Not covered (not constant-bounded): the 32-bit words `pageCopy[i : i+4]` of the checksum loops.
-/
import PgVerif.Generated.Src
import PgVerif.Spec.Block
import PgVerif.Proofs.SrcTie.ReadsKit
namespace PgVerif.Proofs.SrcTie.BlockReads
open PgVerif PgVerif.Spec.BlockAddr PgVerif.Proofs.SrcTie.ReadsKit

/-- `PageHeaderData` up to the line pointer array -/
def layout : Layout :=
  [("pd_lsn.xlogid".toList, 4), ("pd_lsn.xrecoff".toList, 4), ("pd_checksum".toList, 2), ("pd_flags".toList, 2),
   ("pd_lower".toList, 2), ("pd_upper".toList, 2), ("pd_special".toList, 2), ("pd_pagesize_version".toList, 2),
   ("pd_prune_xid".toList, 4)]

def members (h : PageHdr) : List Bytes :=
  [le 4 h.xlogid, le 4 h.xrecoff, le 2 h.checksum, le 2 h.flags, le 2 h.lower, le 2 h.upper, le 2 h.special, le 2 h.psv,
   le 4 h.prune]

theorem encHdr_eq (h : PageHdr) : encHdr h = (members h).flatten := by
  simp [encHdr, members]

/-- the Spec encoder writes exactly the members of `layout`, back to back -/
theorem fits (h : PageHdr) : Fits layout (members h) := by
  simp [Fits, members, layout, Layout.widths]

theorem header_size : layout.size = 24 := by decide

/-- reading the span of a member of `layout` out of an encoded block yields that member -/
theorem encBlock_read (b : RawBlock) (name : List Char) (lo hi : Nat) (hs : layout.span name = some (lo, hi)) :
    ∃ (i : Nat) (q : Bytes), (layout[i]?).map Prod.fst = some name ∧ (members b.hdr)[i]? = some q ∧
      ((encBlock b).drop lo).take (hi - lo) = q := by
  have := read_member layout (members b.hdr) b.body (fits b.hdr) name lo hi hs
  simpa [encBlock, encHdr_eq] using this

/-- target in blockrange.go ↦ member -/
def expectInfo : Expect :=
  [fld "lsn".toList layout "pd_lsn.xlogid".toList, fld "lsn".toList layout "pd_lsn.xrecoff".toList,
   fld "info.Checksum".toList layout "pd_checksum".toList, fld "info.Flags".toList layout "pd_flags".toList,
   fld "info.Lower".toList layout "pd_lower".toList, fld "info.Upper".toList layout "pd_upper".toList,
   fld "info.Special".toList layout "pd_special".toList, fld "psv".toList layout "pd_pagesize_version".toList]

/-- **Every constant-bounded read of the current `ParseBlockInfo` is one whole `PageHeaderData` member, the one its
target names; `lsn` is read as xlogid then xrecoff.**  (pd_prune_xid is not reported and not read.) -/
theorem ParseBlockInfo_reads_are_spec_fields :
    readsAreFields expectInfo Generated.SrcReads.ParseBlockInfo = true := by decide

theorem ParseBlockInfo_expected_fields_are_read :
    expectedAreRead expectInfo Generated.SrcReads.ParseBlockInfo = true := by decide

/-- target in checksum.go ↦ member -/
def expectVerify : Expect :=
  [fld "result.StoredChecksum".toList layout "pd_checksum".toList,
   fld "result.LSN".toList layout "pd_lsn.xlogid".toList, fld "result.LSN".toList layout "pd_lsn.xrecoff".toList]

/-- **Every constant-bounded read of the current `VerifyPageChecksum` is one whole `PageHeaderData` member:
the stored checksum ← pd_checksum, the LSN ← xlogid then xrecoff.** -/
theorem VerifyPageChecksum_reads_are_spec_fields :
    readsAreFields expectVerify Generated.SrcReads.VerifyPageChecksum = true := by decide

theorem VerifyPageChecksum_expected_fields_are_read :
    expectedAreRead expectVerify Generated.SrcReads.VerifyPageChecksum = true := by decide

/-- the bytes that must be zeroed before the checksum is computed: those of pd_checksum, one at a time -/
def expectZeroed : Expect := (bytesOf (layout.span "pd_checksum".toList)).map fun s => ("".toList, s)

/-- **The constant-indexed accesses of the current `computePageChecksum` (`pageCopy[8] = 0; pageCopy[9] = 0`) are
exactly the bytes of pd_checksum, each once, in order.** -/
theorem computePageChecksum_reads_are_spec_fields :
    readsAreFields expectZeroed Generated.SrcReads.computePageChecksum = true := by decide

theorem computePageChecksum_expected_fields_are_read :
    expectedAreRead expectZeroed Generated.SrcReads.computePageChecksum = true := by decide

/-- the same for the reference implementation `pgChecksumBlock` -/
theorem pgChecksumBlock_reads_are_spec_fields :
    readsAreFields expectZeroed Generated.SrcReads.pgChecksumBlock = true := by decide

theorem pgChecksumBlock_expected_fields_are_read :
    expectedAreRead expectZeroed Generated.SrcReads.pgChecksumBlock = true := by decide

/-- the spans in question -/
example : layout.span "pd_checksum".toList = some (8, 10) ∧ expectZeroed.map (·.2) = [some (8, 9), some (9, 10)] := by decide

end PgVerif.Proofs.SrcTie.BlockReads
