/-
  C15 (search): the model of SearchInDump computes `Spec.Search.expected`; membership characterisation of
  `allMatches`; the original loops (SearchOrig) for every iteration order.
-/
import PgVerif.Proofs.Search
namespace PgVerif.Proofs.Search
open PgVerif PgVerif.Spec.Search PgVerif.Model.Search
open scoped List

/-- the limit the loops work with: `some MaxResults` when positive, otherwise none -/
def lim (o : Opts) : Option Nat := if o.maxResults > 0 then some o.maxResults.toNat else none

theorem cut_short {β} (l : Option Nat) (xs : List β) (h : ∀ m, l = some m → xs.length < m) : cut l xs = (xs, false) := by
  cases l with
  | none => rfl
  | some m => simp only [cut]; rw [if_neg (by have := h m rfl; omega)]

/-- what one column contributes -/
def colF (re : Bytes → Bool) (sh : GoVal → Bytes) (o : Opts) (db tbl : Bytes) (rowNum : Nat) (row : Row) (c : Bytes) :
    List SearchResult :=
  let value := (lookup c row).getD .nil
  if matchValue re sh value then
    [{ database := db, table := tbl, column := c, rowNum := rowNum, value := value, row := if o.includeRow then some row else none }]
  else []

/-- appending one result and testing `MaxResults > 0 && len(matches) >= MaxResults` -/
theorem push_spec {β} (o : Opts) (acc : List β) (m : β) (hacc : ∀ k, lim o = some k → acc.length < k) :
    (if (decide (o.maxResults > 0) && decide (((acc ++ [m]).length : Int) ≥ o.maxResults)) = true
      then (acc ++ [m], true) else (acc ++ [m], false)) = cut (lim o) (acc ++ [m]) := by
  have hlen : (acc ++ [m]).length = acc.length + 1 := by simp
  by_cases hmax : o.maxResults > 0
  · have hl : lim o = some o.maxResults.toNat := by simp [lim, hmax]
    have hshort := hacc _ hl
    rw [hl]
    simp only [cut]
    by_cases hge : (acc ++ [m]).length ≥ o.maxResults.toNat
    · have hc : (decide (o.maxResults > 0) && decide (((acc ++ [m]).length : Int) ≥ o.maxResults)) = true := by
        simp only [Bool.and_eq_true, decide_eq_true_eq]; exact ⟨hmax, by omega⟩
      have hle : (acc ++ [m]).length ≤ o.maxResults.toNat := by omega
      rw [if_pos hc, if_pos hge, List.take_of_length_le hle]
    · have hc : ¬ ((decide (o.maxResults > 0) && decide (((acc ++ [m]).length : Int) ≥ o.maxResults)) = true) := by
        simp only [Bool.and_eq_true, decide_eq_true_eq, not_and]; intro _; omega
      rw [if_neg hc, if_neg hge]
  · have hl : lim o = none := by simp [lim, hmax]
    have hc : ¬ ((decide (o.maxResults > 0) && decide (((acc ++ [m]).length : Int) ≥ o.maxResults)) = true) := by
      simp only [Bool.and_eq_true, decide_eq_true_eq, not_and]; intro h; exact absurd h hmax
    rw [hl, if_neg hc]
    rfl

theorem colBody_spec (re : Bytes → Bool) (sh : GoVal → Bytes) (o : Opts) (db tbl : Bytes) (rowNum : Nat) (row : Row) :
    BodySpec (lim o) (colBody re sh o db tbl rowNum row) (colF re sh o db tbl rowNum row) := by
  intro c acc hacc
  simp only [colBody, colF]
  by_cases hm : matchValue re sh ((lookup c row).getD .nil) = true
  · rw [if_pos hm, if_pos hm]
    exact push_spec o acc _ hacc
  · rw [if_neg hm, if_neg hm, List.append_nil, cut_short _ _ hacc]

def rowF (re : Bytes → Bool) (sh : GoVal → Bytes) (o : Opts) (db tbl : Bytes) (cols : List Bytes) (ri : Row × Nat) :=
  (rowKeys cols ri.1).flatMap (colF re sh o db tbl ri.2 ri.1)
def tableF (re : Bytes → Bool) (sh : GoVal → Bytes) (o : Opts) (db : Bytes) (t : Table) :=
  t.rows.zipIdx.flatMap (rowF re sh o db t.name t.columns)
def dbF (re : Bytes → Bool) (sh : GoVal → Bytes) (o : Opts) (db : Database) :=
  db.tables.flatMap (tableF re sh o db.name)

theorem rowBody_spec (re : Bytes → Bool) (sh : GoVal → Bytes) (o : Opts) (db tbl : Bytes) (cols : List Bytes) :
    BodySpec (lim o) (rowBody re sh o db tbl cols) (rowF re sh o db tbl cols) :=
  fun ri acc hacc => loopM_spec (lim o) _ _ (colBody_spec re sh o db tbl ri.2 ri.1) (rowKeys cols ri.1) acc hacc

theorem tableBody_spec (re : Bytes → Bool) (sh : GoVal → Bytes) (o : Opts) (db : Bytes) :
    BodySpec (lim o) (tableBody re sh o db) (tableF re sh o db) :=
  fun t acc hacc => loopM_spec (lim o) _ _ (rowBody_spec re sh o db t.name t.columns) t.rows.zipIdx acc hacc

theorem dbBody_spec (re : Bytes → Bool) (sh : GoVal → Bytes) (o : Opts) :
    BodySpec (lim o) (dbBody re sh o) (dbF re sh o) :=
  fun db acc hacc => loopM_spec (lim o) _ _ (tableBody_spec re sh o db.name) db.tables acc hacc

/-- the four nested loops with their early return = "all matches, cut at the limit" -/
theorem loops_eq (re : Bytes → Bool) (sh : GoVal → Bytes) (o : Opts) (d : Dump) :
    (loopM (dbBody re sh o) d []).1 =
      if o.maxResults > 0 then (d.flatMap (dbF re sh o)).take o.maxResults.toNat else d.flatMap (dbF re sh o) := by
  have h := loopM_spec (lim o) _ _ (dbBody_spec re sh o) d [] (by
    intro m hm
    simp only [lim] at hm
    by_cases hmax : o.maxResults > 0
    · rw [if_pos hmax] at hm; cases hm; simp only [List.length_nil]; omega
    · rw [if_neg hmax] at hm; cases hm)
  rw [h, cut_fst, List.nil_append]
  by_cases hmax : o.maxResults > 0
  · simp [lim, hmax]
  · simp [lim, hmax]

/-- one row: the model's hits are the specified hits -/
theorem row_hits_eq (re : Bytes → Bool) (sh : GoVal → Bytes) (o : Opts) (db tbl : Bytes) (i : Nat) (row : Row) :
    ∀ l : List Bytes, (l.flatMap (colF re sh o db tbl i row)).map toHit =
      ((l.filterMap fun c => (lookup c row).map fun v => (c, v)).filter fun cv => cellMatches re sh cv.2).map fun cv =>
        ({ db := db, table := tbl, row := i, col := cv.1, value := cv.2, fullRow := if o.includeRow then some row else none } : Hit)
  | [] => rfl
  | c :: l => by
    simp only [List.flatMap_cons, List.map_append, List.filterMap_cons]
    rw [row_hits_eq re sh o db tbl i row l]
    cases hl : lookup c row with
    | none => simp [colF, hl, matchValue]
    | some v =>
      simp only [colF, hl, Option.getD_some, Option.map_some, List.filter_cons, matchValue_eq]
      cases cellMatches re sh v <;> simp [toHit]

theorem dbF_eq (re : Bytes → Bool) (sh : GoVal → Bytes) (o : Opts) (d : Dump) :
    (d.flatMap (dbF re sh o)).map toHit = allMatches re sh o.includeRow d := by
  simp only [allMatches, dbF, tableF, List.map_flatMap]
  show _ = d.flatMap fun D => D.tables.flatMap fun t => t.rows.zipIdx.flatMap (rowHits re sh o.includeRow D.name t.name t.columns)
  congr 1; funext db
  congr 1; funext t
  congr 1; funext ri
  simp only [rowF, rowHits, rowCells, rowKeys_eq]
  exact row_hits_eq re sh o db.name t.name ri.2 ri.1 _

/-- **main equation**: SearchInDump (fixed code) returns exactly the specified view -/
theorem search_eq_expected (R : Regex) (sh : GoVal → Bytes) (d : Dump) (o : Opts) :
    (searchInDump R sh d o).map (·.map toHit) = expected R sh d o := by
  simp only [searchInDump, expected, effPattern]
  have hp : (if (!o.caseSensitive) = true then ciPrefix ++ o.pattern else o.pattern)
      = (if o.caseSensitive = true then o.pattern else ciPrefix ++ o.pattern) := by
    cases o.caseSensitive <;> simp
  rw [hp]
  cases R.compile (if o.caseSensitive = true then o.pattern else ciPrefix ++ o.pattern) with
  | none => rfl
  | some re =>
    simp only [Option.map_some, loops_eq]
    by_cases hmax : o.maxResults > 0
    · simp only [hmax, if_true, List.map_take, dbF_eq]
    · simp only [hmax, if_false, dbF_eq]

/-! ### which hits are in `allMatches` -/

theorem mem_allMatches (re : Bytes → Bool) (sh : GoVal → Bytes) (incl : Bool) (d : Dump) (h : Hit) :
    h ∈ allMatches re sh incl d ↔
      ∃ D ∈ d, ∃ t ∈ D.tables, ∃ row i, t.rows[i]? = some row ∧ ∃ cv ∈ rowCells t.columns row,
        cellMatches re sh cv.2 = true ∧
        h = { db := D.name, table := t.name, row := i, col := cv.1, value := cv.2, fullRow := if incl then some row else none } := by
  simp only [allMatches, dbHits, tableHits, rowHits, List.mem_flatMap, List.mem_map, List.mem_filter]
  constructor
  · rintro ⟨D, hD, t, ht, ri, hri, cv, ⟨hcv, hm⟩, rfl⟩
    exact ⟨D, hD, t, ht, ri.1, ri.2, List.mem_zipIdx_iff_getElem?.1 hri, cv, hcv, hm, rfl⟩
  · rintro ⟨D, hD, t, ht, row, i, hri, cv, hcv, hm, rfl⟩
    exact ⟨D, hD, t, ht, (row, i), List.mem_zipIdx_iff_getElem?.2 hri, cv, ⟨hcv, hm⟩, rfl⟩

theorem wf_row_of_getElem? (d : Dump) (hw : Dump.WF d) (D : Database) (hD : D ∈ d) (t : Table) (ht : t ∈ D.tables)
    (i : Nat) (row : Row) (h : t.rows[i]? = some row) : Row.WF row :=
  hw D hD t ht row (List.mem_of_getElem? h)

end PgVerif.Proofs.Search
