/-
  Helper lemmas for the carve-out of the open finding `C08-unhinted-chunks`: where the hint bits of every stored tuple
  decide its visibility, the rows the tool takes for live are the rows PostgreSQL sees.
-/
import PgVerif.Spec.Toast
namespace PgVerif.Proofs.Toast
open PgVerif PgVerif.Spec PgVerif.Spec.Toast

/-- decidable equality of model results (a named definition, made a local instance where a witness is evaluated) -/
@[instance_reducible] def exceptDecEqT {ε α : Type} [DecidableEq ε] [DecidableEq α] : DecidableEq (Except ε α)
  | .ok a, .ok b => if h : a = b then isTrue (by rw [h]) else isFalse (fun e => h (Except.ok.inj e))
  | .error a, .error b => if h : a = b then isTrue (by rw [h]) else isFalse (fun e => h (Except.error.inj e))
  | .ok _, .error _ => isFalse (fun e => nomatch e)
  | .error _, .ok _ => isFalse (fun e => nomatch e)

theorem liveRows_eq_visibleRows (l : FatedLayout) (h : l.FullyHinted) : l.layout.liveRows = l.visibleRows := by
  unfold Layout.liveRows FatedLayout.visibleRows FatedLayout.layout
  have hf : (l.map fun pg => pg.map (·.1)).flatten = l.flatten.map (·.1) := by
    rw [List.map_flatten]
  rw [hf, List.filter_map, List.map_map]
  have : l.flatten.filter ((fun e : Entry => e.live) ∘ fun ef : Entry × Fate => ef.1) = l.flatten.filter (·.2.visible) := by
    apply List.filter_congr
    intro ef hef
    have := h ef hef
    unfold hintsComplete at this
    simp only [Function.comp, Entry.live, this]
  rw [this]
  rfl

theorem stores_of_storesPG (l : FatedLayout) (h : l.FullyHinted) (v : ToastValue) (hs : l.StoresPG v) :
    l.layout.Stores v := by
  unfold Layout.Stores
  rw [liveRows_eq_visibleRows l h]
  exact hs

end PgVerif.Proofs.Toast
