/-
  Names: the generated graphs of rmgrName / operationNameFor (Generated/Wal.lean, obtained by executing the
  code on pages of every PostgreSQL version) against the Spec's hand-written PostgreSQL tables (Spec/Wal.lean
  `pgRmgrName`, `pgOpTable`).  Kept apart from Proofs/Wal.lean so that the totality theorems (C10) do not depend
  on the content of the generated tables.
-/
import PgVerif.Model.Wal
import PgVerif.Spec.Wal
namespace PgVerif.Proofs.Wal
open PgVerif PgVerif.Model.Wal
open PgVerif.Spec.Wal (pgOpName pgRmgrName opMask pageMagicTable)

/-! ## Names -/

/-- the run of the vocabulary that holds `info` -/
def runOf (runs : List (Nat × Nat × String)) (info : Nat) : Option (Nat × Nat × String) :=
  runs.find? (fun e => e.1 ≤ info && info ≤ e.2.1)

theorem opNameIn_eq (runs : List (Nat × Nat × String)) (info : Nat) :
    opNameIn runs info = match runOf runs info with
      | some e => e.2.2
      | none => defaultOpName info := rfl

/-- (version, rmid, opcode): the opcodes PostgreSQL `version` does not have yet (no record of that version carries them)
for which the tool nevertheless prints the name a later version gives them: Transaction INVALIDATION (since 14),
Btree INSERT_POST and DEDUP (since 13), Gist ASSIGN_LSN (since 13) -/
def namedAhead : List (Nat × Nat × Nat) :=
  [(12, 1, 0x60), (13, 1, 0x60), (12, 11, 0x50), (12, 11, 0x60), (12, 14, 0x70)]

/-- vocabulary `cls` against PostgreSQL `ver` for resource manager `rm`, at each of the 256 info bytes: where PostgreSQL
names the operation the vocabulary has exactly that name; where it does not, the vocabulary has no name (the tool
prints the placeholder) or — only for the opcodes listed in `namedAhead` — the name PostgreSQL 16 gives that opcode -/
def exactOn (cls ver rm : Nat) : Bool :=
  (List.range 256).all fun info =>
    match pgOpName ver rm info, runOf (opRunsOf cls rm) info with
    | some n, some e => e.2.2 == n
    | some _, none => false
    | none, none => true
    | none, some e => namedAhead.contains (ver, rm, info &&& opMask rm) && pgOpName 16 rm info == some e.2.2

def exact (cls ver : Nat) : Bool := (List.range 22).all (exactOn cls ver)

theorem exact_12 : exact 0 12 = true := by decide +kernel
theorem exact_13 : exact 0 13 = true := by decide +kernel
theorem exact_14 : exact 1 14 = true := by decide +kernel
theorem exact_15 : exact 2 15 = true := by decide +kernel
theorem exact_16 : exact 2 16 = true := by decide +kernel

theorem pgOps_none (rm : Nat) (h : 22 ≤ rm) : Spec.Wal.pgOps rm = [] := by
  unfold Spec.Wal.pgOps
  split <;> first | omega | rfl

theorem opRuns13_none (rm : Nat) (h : 22 ≤ rm) : Generated.Wal.opRuns13 rm = [] := by
  unfold Generated.Wal.opRuns13
  split <;> first | omega | rfl
theorem opRuns14_none (rm : Nat) (h : 22 ≤ rm) : Generated.Wal.opRuns14 rm = [] := by
  unfold Generated.Wal.opRuns14
  split <;> first | omega | rfl
theorem opRuns16_none (rm : Nat) (h : 22 ≤ rm) : Generated.Wal.opRuns16 rm = [] := by
  unfold Generated.Wal.opRuns16
  split <;> first | omega | rfl

theorem opRunsOf_none (cls rm : Nat) (h : 22 ≤ rm) : opRunsOf cls rm = [] := by
  unfold opRunsOf
  split
  · exact opRuns13_none rm h
  · exact opRuns14_none rm h
  · exact opRuns16_none rm h

/-- ids PostgreSQL does not define (22..): PostgreSQL names nothing, the tool prints the placeholder -/
theorem names_beyond (cls ver rm info : Nat) (h : 22 ≤ rm) :
    pgOpName ver rm info = none ∧ opNameIn (opRunsOf cls rm) info = defaultOpName info := by
  constructor
  · unfold pgOpName; rw [pgOps_none rm h]; rfl
  · rw [opNameIn_eq, opRunsOf_none cls rm h]; rfl

/-- what `exact` says about one cell -/
theorem exact_cell (cls ver : Nat) (he : exact cls ver = true) (rm info : Nat) (hi : info < 256) :
    (∀ n, pgOpName ver rm info = some n → opNameIn (opRunsOf cls rm) info = n) ∧
    (pgOpName ver rm info = none → opNameIn (opRunsOf cls rm) info = defaultOpName info ∨
      ((ver, rm, info &&& opMask rm) ∈ namedAhead ∧ pgOpName 16 rm info = some (opNameIn (opRunsOf cls rm) info))) := by
  by_cases hrm : rm < 22
  · unfold exact at he
    rw [List.all_eq_true] at he
    have h1 := he rm (List.mem_range.mpr hrm)
    unfold exactOn at h1
    rw [List.all_eq_true] at h1
    have h2 := h1 info (List.mem_range.mpr hi)
    rw [opNameIn_eq]
    cases hs : pgOpName ver rm info with
    | none =>
      refine ⟨fun n hn => (by cases hn), fun _ => ?_⟩
      cases hr : runOf (opRunsOf cls rm) info with
      | none => exact .inl rfl
      | some e =>
        rw [hs, hr] at h2
        right
        simpa using h2
    | some n =>
      refine ⟨fun n' hn => ?_, fun h => (by cases h)⟩
      cases hn
      cases hr : runOf (opRunsOf cls rm) info with
      | none => rw [hs, hr] at h2; cases h2
      | some e =>
        rw [hs, hr] at h2
        simpa using h2
  · obtain ⟨a, b⟩ := names_beyond cls ver rm info (by omega)
    exact ⟨fun n hn => (by rw [a] at hn; cases hn), fun _ => Or.inl b⟩

/-- the vocabulary the tool uses on a page of PostgreSQL `ver` is exact for that version -/
theorem exact_of_magic (ver magic : Nat) (h : (ver, magic) ∈ pageMagicTable) : exact (opClass magic) ver = true := by
  simp only [pageMagicTable, List.mem_cons, Prod.mk.injEq, List.not_mem_nil, or_false] at h
  rcases h with ⟨rfl, rfl⟩ | ⟨rfl, rfl⟩ | ⟨rfl, rfl⟩ | ⟨rfl, rfl⟩ | ⟨rfl, rfl⟩
  · exact exact_12
  · exact exact_13
  · exact exact_14
  · exact exact_15
  · exact exact_16

/-- every resource manager PostgreSQL defines, except Btree (id 11), is printed under PostgreSQL's own name -/
theorem rm_lt_22 : ∀ rm < 22, rm ≠ 11 → pgRmgrName rm = some (rmgrName rm) := by decide +kernel

theorem pgRmgrName_none (rm : Nat) (h : 22 ≤ rm) : pgRmgrName rm = none := by
  unfold pgRmgrName
  split <;> first | omega | rfl

end PgVerif.Proofs.Wal
