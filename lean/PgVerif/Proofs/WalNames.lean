/-
  Names: the generated graphs of rmgrName / operationName (Generated/Wal.lean, obtained by executing the
  code) against the Spec's hand-written PostgreSQL tables.  Kept apart from Proofs/Wal.lean so that the
  totality theorems (C10) do not depend on the content of the generated tables.
-/
import PgVerif.Model.Wal
import PgVerif.Spec.Wal
namespace PgVerif.Proofs.Wal
open PgVerif PgVerif.Model.Wal
open PgVerif.Spec.Wal (pgOpName pgRmgrName normRm)

/-! ## Names -/

/-- every generated run (rmid, lo, hi, name): wherever PostgreSQL `ver` defines a name inside the run, it is `name`
(Database, rmid 4, is skipped when `skipDb`) -/
def runsAgree (ver : Nat) (skipDb : Bool) : Bool :=
  Generated.Wal.opRuns.all fun e =>
    (skipDb && e.1 == 4) ||
    (List.range (e.2.2.1 + 1 - e.2.1)).all fun k =>
      match pgOpName ver e.1 (e.2.1 + k) with
      | none => true
      | some n => n == e.2.2.2

theorem runsAgree_14 : runsAgree 14 false = true := by decide +kernel
theorem runsAgree_15 : runsAgree 15 true = true := by decide +kernel

theorem pgOpName_ver (ver rmid info : Nat) :
    pgOpName ver rmid info = pgOpName (if ver ≤ 14 then 14 else 15) rmid info := by
  unfold pgOpName
  by_cases h : ver ≤ 14 <;> simp [h]

theorem opName_of_runs (ver : Nat) (skipDb : Bool) (hr : runsAgree ver skipDb = true) (rmid info : Nat) (n : String)
    (hdb : skipDb = true → rmid ≠ 4) (h : pgOpName ver rmid info = some n) :
    operationName rmid info = n ∨ operationName rmid info = defaultOpName info := by
  unfold operationName
  cases hf : Generated.Wal.opRuns.find? (fun e => e.1 == rmid && decide (e.2.1 ≤ info) && decide (info ≤ e.2.2.1)) with
  | none => exact .inr rfl
  | some e =>
    left
    have hmem := List.mem_of_find?_eq_some hf
    have hp := List.find?_some hf
    simp only [Bool.and_eq_true, beq_iff_eq, decide_eq_true_eq] at hp
    obtain ⟨⟨h1, h2⟩, h3⟩ := hp
    unfold runsAgree at hr
    rw [List.all_eq_true] at hr
    have he := hr e hmem
    simp only [Bool.or_eq_true, Bool.and_eq_true, beq_iff_eq, List.all_eq_true, List.mem_range] at he
    rcases he with ⟨hs, h4⟩ | he
    · exact absurd (h1 ▸ h4) (hdb hs)
    · have := he (info - e.2.1) (by omega)
      rw [show e.2.1 + (info - e.2.1) = info by omega, h1, h] at this
      simp only [beq_iff_eq] at this
      exact this.symm

theorem rm_lt_22 : ∀ rm < 22, ∀ n, pgRmgrName rm = some n → normRm (rmgrName rm) = normRm n := by decide +kernel

theorem pgRmgrName_none (rm : Nat) (h : 22 ≤ rm) : pgRmgrName rm = none := by
  unfold pgRmgrName
  split <;> first | omega | rfl

end PgVerif.Proofs.Wal
