/-
  Topic E9 — helper lemmas about Model/ExtraSearch.lean and Model/ExtraDir.lean: QuoteMeta, QuickSearch, the
  directory-taking forms.  Property theorems are in Props/C10/Extra.lean and Props/C15Extra.lean.
-/
import PgVerif.Model.ExtraDir
import PgVerif.Props.C10.Cluster
namespace PgVerif.Proofs.Extra
open PgVerif PgVerif.Model PgVerif.Model.Extra PgVerif.Spec.Search PgVerif.Model.Search

/-! ### regexp.QuoteMeta -/

theorem quoteMeta_cons (b : UInt8) (s : Bytes) :
    quoteMeta (b :: s) = (if quoteMetaSpecial b then [92, b] else [b]) ++ quoteMeta s := by
  simp [quoteMeta, List.flatMap_cons]

theorem special_92 : quoteMetaSpecial 92 = true := by decide

theorem unquoteMeta_plain (b : UInt8) (rest : Bytes) (h92 : b ≠ 92) (hb : ¬ quoteMetaSpecial b = true) :
    unquoteMeta (b :: rest) = (unquoteMeta rest).map (b :: ·) := by
  cases rest <;> simp [unquoteMeta, h92, hb]

theorem unquoteMeta_escaped (c : UInt8) (rest : Bytes) (hc : quoteMetaSpecial c = true) :
    unquoteMeta (92 :: c :: rest) = (unquoteMeta rest).map (c :: ·) := by
  simp [unquoteMeta, hc]

/-- the quoted text reads back as the literal it was made from -/
theorem unquoteMeta_quoteMeta : ∀ s : Bytes, unquoteMeta (quoteMeta s) = some s
  | [] => by simp [quoteMeta, unquoteMeta]
  | b :: s => by
    rw [quoteMeta_cons]
    by_cases hb : quoteMetaSpecial b = true
    · rw [if_pos hb]
      simp only [List.cons_append, List.nil_append, unquoteMeta_escaped b _ hb, unquoteMeta_quoteMeta s, Option.map_some]
    · rw [if_neg hb]
      have h92 : b ≠ 92 := by
        intro h; rw [h] at hb; exact hb special_92
      simp only [List.cons_append, List.nil_append, unquoteMeta_plain b _ h92 hb, unquoteMeta_quoteMeta s, Option.map_some]

/-- every special byte of the quoted text is an escape or is escaped: the only bytes that follow an unescaped position
are non-special or a backslash starting an escape — stated as: the text parses as a quoted literal -/
theorem quoteMeta_isQuoted (s : Bytes) : (unquoteMeta (quoteMeta s)).isSome = true := by
  rw [unquoteMeta_quoteMeta]; rfl

/-! ### QuickSearch -/

theorem quickSearch_some (R : Regex) (sh : GoVal → Bytes) (d : Dump) (p : Bytes) :
    quickSearch R sh (some d) p = searchInDump R sh d (quickOpts p) := by
  simp only [quickSearch, search, searchInDump]

theorem quickSearch_none (R : Regex) (sh : GoVal → Bytes) (p : Bytes) : quickSearch R sh none p = none := by
  simp only [quickSearch, search]
  cases R.compile _ <;> rfl

/-! ### the directory-taking forms return -/

theorem dumpedBy_total (rr : RowReader) (h : Props.C10.Cluster.TotalReader rr) (π : MapOrder TableInfo)
    (fs : Bytes → Option Bytes) (o : Spec.Options) : ∃ r, dumpedBy rr π fs o = .ok r := by
  obtain ⟨r, hr⟩ := Props.C10.Cluster.C10_total_dumpDataDir rr h π fs o
  exact ⟨r.map toSearchDump, by simp only [dumpedBy, hr, ok_bind, pure_eq_ok]⟩

theorem searchDir_total (R : Regex) (sh : GoVal → Bytes) (rr : RowReader) (h : Props.C10.Cluster.TotalReader rr)
    (π : MapOrder TableInfo) (fs : Bytes → Option Bytes) (opts : Option Opts) : ∃ r, searchDir R sh rr π fs opts = .ok r := by
  unfold searchDir
  cases opts with
  | none => exact ⟨_, rfl⟩
  | some o =>
    simp only
    cases R.compile _ with
    | none => exact ⟨_, rfl⟩
    | some re =>
      obtain ⟨d, hd⟩ := dumpedBy_total rr h π fs searchDumpOptions
      simp only [hd, ok_bind, pure_eq_ok]
      exact ⟨_, rfl⟩

/-- Search on a tree = SearchInDump on the tree's dump (and the error when the tree has no global/1262) -/
theorem searchDir_eq (R : Regex) (sh : GoVal → Bytes) (rr : RowReader) (π : MapOrder TableInfo) (fs : Bytes → Option Bytes)
    (o : Opts) (r : Option Spec.DumpResult) (hd : dumpDataDir rr π fs searchDumpOptions = .ok r) :
    searchDir R sh rr π fs (some o) = .ok (match r with
      | some r => searchInDump R sh (toSearchDump r) o
      | none => none) := by
  unfold searchDir
  simp only
  cases hc : R.compile (if (!o.caseSensitive) = true then ciPrefix ++ o.pattern else o.pattern) with
  | none =>
    simp only
    cases r with
    | none => rfl
    | some r => simp only [searchInDump, hc]; rfl
  | some re =>
    simp only [dumpedBy, hd, ok_bind, pure_eq_ok]
    cases r with
    | none => simp only [Option.map_none, search, hc]
    | some r => simp only [Option.map_some, search, searchInDump]

end PgVerif.Proofs.Extra
