/-
  Helper lemmas for C01: the three catalogs (pg_database, pg_class, pg_attribute) in PostgreSQL's real layouts read
  with the tool's catalog schemas — row well-formedness, the decoded rows, and what ParsePGDatabase / ParsePGClass /
  ParsePGAttribute make of them.
-/
import PgVerif.Proofs.ClusterCat
namespace PgVerif.Proofs.Cluster
open PgVerif PgVerif.Model PgVerif.Spec PgVerif.Proofs PgVerif.Proofs.Rows List

/-! ### well-formedness of catalog rows, attribute by attribute -/

def PairOK (c : Col) (v : Option Datum) : Prop :=
  (c.align = 1 ∨ c.align = 2 ∨ c.align = 4 ∨ c.align = 8) ∧ ∀ d, v = some d → d.WF c

def AllOK : List Col → List (Option Datum) → Prop
  | [], [] => True
  | c :: cs, v :: vs => PairOK c v ∧ AllOK cs vs
  | _, _ => False

theorem allOK_zip : ∀ (cols : List Col) (vals : List (Option Datum)), AllOK cols vals →
    vals.length = cols.length ∧
    ∀ p ∈ cols.zip vals, (p.1.align = 1 ∨ p.1.align = 2 ∨ p.1.align = 4 ∨ p.1.align = 8) ∧ ∀ d, p.2 = some d → d.WF p.1
  | [], [], _ => ⟨rfl, by intro p hp; simp at hp⟩
  | [], _ :: _, h => h.elim
  | _ :: _, [], h => h.elim
  | c :: cs, v :: vs, h => by
    obtain ⟨h1, h2⟩ := allOK_zip cs vs h.2
    refine ⟨by simp [h1], ?_⟩
    intro p hp
    simp only [zip_cons_cons, mem_cons] at hp
    rcases hp with rfl | hp
    · exact h.1
    · exact h2 p hp

theorem pairOK_fixed (c : Col) (bs : Bytes) (ha : c.align = 1 ∨ c.align = 2 ∨ c.align = 4 ∨ c.align = 8) (hp : 0 < c.len)
    (hl : (bs.length : Int) = c.len) : PairOK c (some (.fixed bs)) := by
  refine ⟨ha, ?_⟩
  intro d hd
  injection hd with hd
  subst hd
  exact ⟨hp, hl⟩

theorem pairOK_none (c : Col) (ha : c.align = 1 ∨ c.align = 2 ∨ c.align = 4 ∨ c.align = 8) : PairOK c none :=
  ⟨ha, by intro d hd; cases hd⟩

theorem pairOK_oid (n : String) (v : Nat) : PairOK (cOid n) (dU32 v) := pairOK_fixed _ _ (by simp [cOid]) (by simp [cOid]) (by simp [cOid])
theorem pairOK_xid (n : String) (v : Nat) : PairOK (cXid n) (dU32 v) := pairOK_fixed _ _ (by simp [cXid]) (by simp [cXid]) (by simp [cXid])
theorem pairOK_f4 (n : String) (v : Nat) : PairOK (cFloat4 n) (dU32 v) := pairOK_fixed _ _ (by simp [cFloat4]) (by simp [cFloat4]) (by simp [cFloat4])
theorem pairOK_i4 (n : String) (v : Int) : PairOK (cInt4 n) (dI32 v) := pairOK_fixed _ _ (by simp [cInt4]) (by simp [cInt4]) (by simp [cInt4])
theorem pairOK_i2 (n : String) (v : Int) : PairOK (cInt2 n) (dI16 v) := pairOK_fixed _ _ (by simp [cInt2]) (by simp [cInt2]) (by simp [cInt2])
theorem pairOK_bool (n : String) (b : Bool) : PairOK (cBool n) (dBool b) := pairOK_fixed _ _ (by simp [cBool]) (by simp [cBool]) (by simp [cBool])
theorem pairOK_char (n : String) (v : Nat) : PairOK (cChar n) (dByte v) := pairOK_fixed _ _ (by simp [cChar]) (by simp [cChar]) (by simp [cChar])
theorem pairOK_name (n : String) (v : Bytes) (h : v.length ≤ 64) : PairOK (cName n) (dName v) :=
  pairOK_fixed _ _ (by simp [cName]) (by simp [cName]) (by simp [cName]; omega)
theorem pairOK_text (n : String) (p : Bytes) (h : p.length + 4 < 2 ^ 30) : PairOK (cText n) (dText p) := by
  refine ⟨by simp [cText], ?_⟩
  intro d hd
  simp only [dText, textDatum, Option.some.injEq] at hd
  subst hd
  split
  · rename_i h1; exact ⟨rfl, h1⟩
  · exact ⟨rfl, h⟩

/-- `RowV.WF` of a catalog row all of whose attributes are stored -/
theorem catalog_WF (cols : List Col) (vals : List (Option Datum)) (infomask : Nat) (h : AllOK cols vals)
    (hc : cols.length ≤ 1600) (him : infomask < 65536) : RowV.WF cols ⟨vals, cols.length, infomask⟩ := by
  obtain ⟨h1, h2⟩ := allOK_zip cols vals h
  exact ⟨h1, Nat.le_refl _, hc, him, h2⟩

/-! ### pg_class -/

theorem classVals_OK (r : ClassRow) (hn : r.name.length ≤ 64) : AllOK pgClassCols (classVals r) := by
  simp only [AllOK, pgClassCols, classVals, and_true]
  refine ⟨pairOK_oid _ _, pairOK_name _ _ hn, pairOK_oid _ _, pairOK_oid _ _, pairOK_oid _ _, pairOK_oid _ _, pairOK_oid _ _,
    pairOK_oid _ _, pairOK_oid _ _, pairOK_i4 _ _, pairOK_f4 _ _, pairOK_i4 _ _,
    pairOK_oid _ _, pairOK_bool _ _, pairOK_bool _ _, pairOK_char _ _, pairOK_char _ _,
    pairOK_i2 _ _, pairOK_i2 _ _, pairOK_bool _ _, pairOK_bool _ _, pairOK_bool _ _,
    pairOK_bool _ _, pairOK_bool _ _, pairOK_bool _ _, pairOK_char _ _,
    pairOK_bool _ _, pairOK_oid _ _, pairOK_xid _ _, pairOK_xid _ _,
    pairOK_none _ (by simp [cArr]), pairOK_none _ (by simp [cArr]), pairOK_none _ (by simp [cText])⟩

/-- the 17 attributes of pg_class the tool's schema knows, as fixed-width byte strings -/
def classBss (r : ClassRow) : List Bytes :=
  [le 4 r.oid, r.name ++ zeros (64 - r.name.length), le 4 r.nsp, le 4 (if r.kind = 114 then r.oid + 2 else 0), le 4 0, le 4 10,
   le 4 (if r.kind = 114 ∨ r.kind = 116 ∨ r.kind = 109 then 2 else if r.kind = 105 then 403 else 0),
   le 4 r.filenode, le 4 r.tblspc, le 4 (ofSigned 32 r.pages), le 4 r.tuples, le 4 (ofSigned 32 0),
   le 4 r.toast, [if r.hasIndex then 1 else 0], [if false then 1 else 0], [UInt8.ofNat r.persistence], [UInt8.ofNat r.kind]]

theorem classBss_vals (r : ClassRow) : (classBss r).map (fun bs => some (Datum.fixed bs)) = (classVals r).take 17 := rfl

theorem classCols_match : ColsMatch 0 schemaPGClass (pgClassCols.take 17) := by
  simp only [ColsMatch, ColMatch, schemaPGClass, mkSchema, Generated.Cluster.schemaPGClass, pgClassCols, List.map, List.take,
    cOid, cName, cInt4, cFloat4, cBool, cChar, true_and, and_true]
  repeat' apply And.intro
  all_goals decide

theorem classBss_fixed (r : ClassRow) (hn : r.name.length ≤ 64) : AllFixed (pgClassCols.take 17) (classBss r) := by
  simp only [AllFixed, FixedOK, pgClassCols, classBss, List.take, cOid, cName, cInt4, cFloat4, cBool, cChar, le_length,
    length_append, zeros_length, length_cons, length_nil, and_true]
  have : ((r.name.length + (64 - r.name.length) : Nat) : Int) = 64 := by omega
  simp only [this]
  repeat' apply And.intro
  all_goals first | decide | (unfold Pow2Align; decide)


/-! ### looking a column up in a decoded catalog row -/

theorem catalogRow_lookup (dec : Dec) : ∀ (cols : List Col) (bss : List Bytes) (k : Bytes) (i : Nat),
    (cols.map (·.name)).idxOf k = i → i < cols.length → bss.length = cols.length →
    (catalogRow dec cols bss).lookup k = some (okVal (dec (bss.getD i []) (cols.getD i default).typid))
  | [], _, _, _, _, hi, _ => by simp at hi
  | _ :: _, [], _, _, _, _, hl => by simp at hl
  | c :: cs, bs :: bss, k, i, hidx, hi, hl => by
    simp only [catalogRow, lookup_cons, map_cons, idxOf_cons] at hidx ⊢
    by_cases hk : c.name = k
    · have h1 : (c.name == k) = true := by simpa using hk
      have h2 : (k == c.name) = true := by simpa using hk.symm
      rw [h1] at hidx
      simp only [cond_true] at hidx
      subst hidx
      simp [h2]
    · have h1 : (c.name == k) = false := by simpa using hk
      have h2 : (k == c.name) = false := by simpa using (fun h : k = c.name => hk h.symm)
      rw [h1] at hidx
      simp only [cond_false] at hidx
      rw [h2]
      cases i with
      | zero => omega
      | succ i =>
        have := catalogRow_lookup dec cs bss k i (by omega) (by simpa using hi) (by simpa using hl)
        simp [this]

theorem isSome_of_take (vals : List (Option Datum)) (bss : List Bytes) (m : Nat)
    (h : vals.take m = bss.map fun bs => some (Datum.fixed bs)) (hm : bss.length = m) :
    ∀ j, j < m → (vals.getD j none).isSome = true := by
  intro j hj
  have h1 : (vals.take m)[j]? = vals[j]? := getElem?_take_of_lt hj
  rw [h, getElem?_map] at h1
  have hj' : j < bss.length := by omega
  rw [getElem?_eq_getElem hj'] at h1
  simp only [Option.map_some] at h1
  simp [List.getD, ← h1]

/-! ### pg_class: the decoded row and the TableInfo it yields -/

theorem schemaPGClass_ne : schemaPGClass ≠ [] := by
  simp [schemaPGClass, mkSchema, Generated.Cluster.schemaPGClass]

def classRow (dec : Dec) (r : ClassRow) : Row := catalogRow dec (pgClassCols.take 17) (classBss r)

theorem class_decode (dec : Dec) (hd : CatDec dec) (r : ClassRow) (im : Nat) (hn : r.name.length ≤ 64) (him : im < 65536) :
    decodeTuple dec (mtuple (formRow pgClassCols (classVals r) im)) schemaPGClass = .ok (some (toRow (classRow dec r))) := by
  have hlen : pgClassCols.length = 33 := rfl
  have hwf := catalog_WF pgClassCols (classVals r) im (classVals_OK r hn) (by rw [hlen]; omega) him
  have hsplit := form_split 17 pgClassCols (classVals r) 0
  rw [← classBss_vals] at hsplit
  exact decodeTuple_catalog dec hd pgClassCols (classVals r) im schemaPGClass (pgClassCols.take 17) (classBss r) _ hwf
    classCols_match (classBss_fixed r hn) schemaPGClass_ne
    (isSome_of_take (classVals r) (classBss r) 17 (classBss_vals r).symm rfl) (by decide) hsplit

theorem classNames_nodup : ((pgClassCols.take 17).map (·.name)).Nodup := by
  simp only [pgClassCols, List.take, List.map, cOid, cName, cInt4, cFloat4, cBool, cChar, strBytes_eq]
  decide

theorem classIdx : ((pgClassCols.take 17).map (·.name)).idxOf (strBytes "oid") = 0 ∧
    ((pgClassCols.take 17).map (·.name)).idxOf (strBytes "relname") = 1 ∧
    ((pgClassCols.take 17).map (·.name)).idxOf (strBytes "relfilenode") = 7 ∧
    ((pgClassCols.take 17).map (·.name)).idxOf (strBytes "relkind") = 16 := by
  simp only [pgClassCols, List.take, List.map, cOid, cName, cInt4, cFloat4, cBool, cChar, strBytes_eq]
  decide


theorem okVal_ok (v : GoVal) : okVal (.ok v) = v := rfl

theorem getOID_int (row : Row) (key : String) (v : Nat) (hv : v < 2 ^ 32) (h : row.lookup (strBytes key) = some (.int v)) :
    getOID row key = v := by
  unfold getOID
  rw [h]
  simp only
  rw [if_pos ⟨by omega, by omega⟩]
  simp

theorem getString_str (row : Row) (key : String) (s : Bytes) (h : row.lookup (strBytes key) = some (.str s)) :
    getString row key = s := by
  unfold getString; rw [h]

theorem getInt_int (row : Row) (key : String) (v : Int) (h : row.lookup (strBytes key) = some (.int v)) :
    getInt row key = v := by
  unfold getInt; rw [h]

theorem cstring_name' (name : Bytes) (h0 : (0 : UInt8) ∉ name) (hl : name.length ≤ 63) :
    cstring (name ++ zeros (64 - name.length)) 64 = name := by
  have := cstring_name name [] h0 hl
  simpa using this

theorem classRow_toRow (dec : Dec) (r : ClassRow) : toRow (classRow dec r) = classRow dec r := by
  apply PgVerif.Props.C03.C03_entries
  unfold classRow
  rw [catalogRow_names dec _ _ rfl]
  exact classNames_nodup

/-- the TableInfo the tool builds from the decoded pg_class row is the relation's (oid, filenode, name, kind) -/
theorem classRow_info (dec : Dec) (hd : CatDec dec) (r : ClassRow) (hn : nameOK r.name) (ho : r.oid < 2 ^ 32)
    (hf : r.filenode < 2 ^ 32) : infoOfRow (toRow (classRow dec r)) = infoOfRel r := by
  rw [classRow_toRow]
  obtain ⟨i0, i1, i7, i16⟩ := classIdx
  have l0 := catalogRow_lookup dec (pgClassCols.take 17) (classBss r) _ 0 i0 (by decide) rfl
  have l1 := catalogRow_lookup dec (pgClassCols.take 17) (classBss r) _ 1 i1 (by decide) rfl
  have l7 := catalogRow_lookup dec (pgClassCols.take 17) (classBss r) _ 7 i7 (by decide) rfl
  have l16 := catalogRow_lookup dec (pgClassCols.take 17) (classBss r) _ 16 i16 (by decide) rfl
  have e0 : okVal (dec ((classBss r).getD 0 []) ((pgClassCols.take 17).getD 0 default).typid) = .int r.oid := by
    show okVal (dec (le 4 r.oid) 26) = _
    rw [hd.oid _ (by simp), okVal_ok]
    have := rd_le 4 r.oid [] (by omega)
    simp only [append_nil] at this
    rw [this]
  have e7 : okVal (dec ((classBss r).getD 7 []) ((pgClassCols.take 17).getD 7 default).typid) = .int r.filenode := by
    show okVal (dec (le 4 r.filenode) 26) = _
    rw [hd.oid _ (by simp), okVal_ok]
    have := rd_le 4 r.filenode [] (by omega)
    simp only [append_nil] at this
    rw [this]
  have e1 : okVal (dec ((classBss r).getD 1 []) ((pgClassCols.take 17).getD 1 default).typid) = .str r.name := by
    show okVal (dec (r.name ++ zeros (64 - r.name.length)) 19) = _
    rw [hd.name _ (by have := hn.2.1; simp; omega), okVal_ok, cstring_name' r.name hn.2.2 hn.2.1]
  have e16 : okVal (dec ((classBss r).getD 16 []) ((pgClassCols.take 17).getD 16 default).typid) = .str [UInt8.ofNat r.kind] := by
    show okVal (dec [UInt8.ofNat r.kind] 18) = _
    rw [hd.char _ rfl, okVal_ok]
  rw [e0] at l0; rw [e1] at l1; rw [e7] at l7; rw [e16] at l16
  unfold infoOfRow infoOfRel classRow
  rw [getOID_int _ "oid" r.oid ho l0, getOID_int _ "relfilenode" r.filenode hf l7,
    getString_str _ "relname" r.name l1, getString_str _ "relkind" _ l16]

/-- **ReadRows on an encoded pg_class** hands ParsePGClass, for every stored pg_class heap (any number of pages, live
and dead versions), exactly the live rows — the reader hypothesis of `C01_dump_partial`. -/
theorem readRows_class (dec : Dec) (hd : CatDec dec) (cls : HeapOf ClassRow)
    (hv : ∀ s ∈ cls.versions, nameOK s.val.name ∧ s.val.oid < 2 ^ 32 ∧ s.val.filenode < 2 ^ 32 ∧ s.infomask < 65536)
    (hfit : pagesFit (cls.map fun pg => pg.map fun s => formRow pgClassCols (classVals s.val) s.infomask)) :
    ∃ rows, readRows dec (encHeapOf pgClassCols classVals cls) schemaPGClass true = .ok rows ∧
      rows.map infoOfRow = cls.live.map infoOfRel := by
  have hlen : pgClassCols.length = 33 := rfl
  refine ⟨_, readRows_catalog dec pgClassCols classVals cls schemaPGClass (fun r => toRow (classRow dec r)) ?_ hfit ?_, ?_⟩
  · intro s hs
    obtain ⟨hn, _, _, him⟩ := hv s hs
    exact catalog_WF pgClassCols (classVals s.val) s.infomask (classVals_OK s.val (by have := hn.2.1; omega)) (by rw [hlen]; omega) him
  · intro s hs
    obtain ⟨hn, _, _, him⟩ := hv s hs
    exact class_decode dec hd s.val s.infomask (by have := hn.2.1; omega) him
  · rw [map_map]
    apply map_congr_left
    intro r hr
    unfold HeapOf.live at hr
    obtain ⟨s, hs, rfl⟩ := mem_map.mp hr
    obtain ⟨hn, ho, hf, _⟩ := hv s (mem_filter.mp hs).1
    exact classRow_info dec hd s.val hn ho hf


/-! ### pg_database -/

theorem locale_len : locale.length = 11 := by
  unfold locale; rw [strBytes_eq]; decide

theorem dbVals_OK (v : Nat) (d : DbRow) (hn : d.name.length ≤ 64) : AllOK (pgDatabaseCols v) (dbVals v d) := by
  have hl := locale_len
  unfold pgDatabaseCols dbVals
  by_cases hv : v ≥ 15
  · simp only [hv, if_true, AllOK, pgDatabaseColsNew, and_true]
    exact ⟨pairOK_oid _ _, pairOK_name _ _ hn, pairOK_oid _ _, pairOK_i4 _ _, pairOK_char _ _, pairOK_bool _ _, pairOK_bool _ _,
      pairOK_i4 _ _, pairOK_xid _ _, pairOK_xid _ _, pairOK_oid _ _, pairOK_text _ _ (by rw [hl]; decide),
      pairOK_text _ _ (by rw [hl]; decide), pairOK_none _ (by simp [cText]), pairOK_none _ (by simp [cText]),
      pairOK_none _ (by simp [cArr])⟩
  · simp only [hv, if_false, AllOK, pgDatabaseColsOld, and_true]
    exact ⟨pairOK_oid _ _, pairOK_name _ _ hn, pairOK_oid _ _, pairOK_i4 _ _, pairOK_name _ _ (by rw [hl]; decide),
      pairOK_name _ _ (by rw [hl]; decide), pairOK_bool _ _, pairOK_bool _ _,
      pairOK_i4 _ _, pairOK_oid _ _, pairOK_xid _ _, pairOK_xid _ _, pairOK_oid _ _, pairOK_none _ (by simp [cArr])⟩

def dbTCols : List Col := [cOid "oid", cName "datname"]
def dbBss (d : DbRow) : List Bytes := [le 4 d.oid, d.name ++ zeros (64 - d.name.length)]

theorem dbCols_take (v : Nat) : (pgDatabaseCols v).take 2 = dbTCols := by
  unfold pgDatabaseCols; split <;> rfl

theorem dbVals_take (v : Nat) (d : DbRow) : (dbVals v d).take 2 = (dbBss d).map fun bs => some (Datum.fixed bs) := by
  unfold dbVals; split <;> rfl

theorem dbCols_length (v : Nat) : 2 ≤ (pgDatabaseCols v).length ∧ (pgDatabaseCols v).length ≤ 1600 := by
  unfold pgDatabaseCols; split <;> decide

theorem dbCols_match : ColsMatch 0 schemaPGDatabase dbTCols := by
  simp only [ColsMatch, ColMatch, schemaPGDatabase, mkSchema, Generated.Cluster.schemaPGDatabase, dbTCols, List.map,
    cOid, cName, true_and, and_true]
  repeat' apply And.intro
  all_goals decide

theorem dbBss_fixed (d : DbRow) (hn : d.name.length ≤ 64) : AllFixed dbTCols (dbBss d) := by
  simp only [AllFixed, FixedOK, dbTCols, dbBss, cOid, cName, le_length, length_append, zeros_length, and_true]
  have : ((d.name.length + (64 - d.name.length) : Nat) : Int) = 64 := by omega
  simp only [this]
  repeat' apply And.intro
  all_goals first | decide | (unfold Pow2Align; decide)

def dbRow (dec : Dec) (d : DbRow) : Row := catalogRow dec dbTCols (dbBss d)

theorem db_decode (dec : Dec) (hd : CatDec dec) (v : Nat) (d : DbRow) (im : Nat) (hn : d.name.length ≤ 64) (him : im < 65536) :
    decodeTuple dec (mtuple (formRow (pgDatabaseCols v) (dbVals v d) im)) schemaPGDatabase = .ok (some (toRow (dbRow dec d))) := by
  have hwf := catalog_WF (pgDatabaseCols v) (dbVals v d) im (dbVals_OK v d hn) (dbCols_length v).2 him
  have hsplit := form_split 2 (pgDatabaseCols v) (dbVals v d) 0
  rw [dbCols_take, dbVals_take] at hsplit
  exact decodeTuple_catalog dec hd (pgDatabaseCols v) (dbVals v d) im schemaPGDatabase dbTCols (dbBss d) _ hwf
    dbCols_match (dbBss_fixed d hn) (by simp [schemaPGDatabase, mkSchema, Generated.Cluster.schemaPGDatabase])
    (isSome_of_take (dbVals v d) (dbBss d) 2 (dbVals_take v d) rfl) (dbCols_length v).1 hsplit

theorem dbIdx : (dbTCols.map (·.name)).Nodup ∧ (dbTCols.map (·.name)).idxOf (strBytes "oid") = 0 ∧
    (dbTCols.map (·.name)).idxOf (strBytes "datname") = 1 := by
  simp only [dbTCols, List.map, cOid, cName, strBytes_eq]
  decide

theorem dbRow_fields (dec : Dec) (hd : CatDec dec) (d : DbRow) (hn : nameOK d.name) (ho : d.oid < 2 ^ 32) :
    getOID (toRow (dbRow dec d)) "oid" = d.oid ∧ getString (toRow (dbRow dec d)) "datname" = d.name := by
  obtain ⟨hnd, i0, i1⟩ := dbIdx
  have ht : toRow (dbRow dec d) = dbRow dec d := by
    apply PgVerif.Props.C03.C03_entries
    unfold dbRow
    rw [catalogRow_names dec _ _ rfl]
    exact hnd
  rw [ht]
  have l0 := catalogRow_lookup dec dbTCols (dbBss d) _ 0 i0 (by decide) rfl
  have l1 := catalogRow_lookup dec dbTCols (dbBss d) _ 1 i1 (by decide) rfl
  have e0 : okVal (dec ((dbBss d).getD 0 []) (dbTCols.getD 0 default).typid) = .int d.oid := by
    show okVal (dec (le 4 d.oid) 26) = _
    rw [hd.oid _ (by simp), okVal_ok]
    have := rd_le 4 d.oid [] (by omega)
    simp only [append_nil] at this
    rw [this]
  have e1 : okVal (dec ((dbBss d).getD 1 []) (dbTCols.getD 1 default).typid) = .str d.name := by
    show okVal (dec (d.name ++ zeros (64 - d.name.length)) 19) = _
    rw [hd.name _ (by have := hn.2.1; simp; omega), okVal_ok, cstring_name' d.name hn.2.2 hn.2.1]
  rw [e0] at l0; rw [e1] at l1
  unfold dbRow
  exact ⟨getOID_int _ "oid" d.oid ho l0, getString_str _ "datname" d.name l1⟩

/-- **ParsePGDatabase on an encoded pg_database** (either layout, any number of pages, live and dead versions) returns
the live databases, in heap order. -/
theorem parsePGDatabase_enc (dec : Dec) (hd : CatDec dec) (v : Nat) (dbs : HeapOf DbRow)
    (hv : ∀ s ∈ dbs.versions, nameOK s.val.name ∧ 0 < s.val.oid ∧ s.val.oid < 2 ^ 32 ∧ s.infomask < 65536)
    (hfit : pagesFit (dbs.map fun pg => pg.map fun s => formRow (pgDatabaseCols v) (dbVals v s.val) s.infomask)) :
    parsePGDatabase (readRows dec) (encHeapOf (pgDatabaseCols v) (dbVals v) dbs) =
      .ok (dbs.live.map fun d => ⟨d.oid, d.name⟩) := by
  unfold parsePGDatabase
  rw [readRows_catalog dec (pgDatabaseCols v) (dbVals v) dbs schemaPGDatabase (fun d => toRow (dbRow dec d)) ?_ hfit ?_]
  · simp only [ok_bind, pure_eq_ok]
    congr 1
    rw [filterMap_map]
    have : ∀ d ∈ dbs.live, ((fun row : Row =>
        if getOID row "oid" > 0 ∧ getString row "datname" ≠ [] then some (⟨getOID row "oid", getString row "datname"⟩ : DatabaseInfo) else none) ∘
        fun d => toRow (dbRow dec d)) d = some ⟨d.oid, d.name⟩ := by
      intro d hdm
      unfold HeapOf.live at hdm
      obtain ⟨s, hs, rfl⟩ := mem_map.mp hdm
      obtain ⟨hn, hpos, ho, _⟩ := hv s (mem_filter.mp hs).1
      obtain ⟨f1, f2⟩ := dbRow_fields dec hd s.val hn ho
      simp only [Function.comp, f1, f2]
      rw [if_pos ⟨hpos, by intro h; have := hn.1; rw [h] at this; simp at this⟩]
    rw [filterMap_congr' _ _ _ this]
    simp
  · intro s hs
    obtain ⟨hn, _, _, him⟩ := hv s hs
    exact catalog_WF _ _ _ (dbVals_OK v s.val (by have := hn.2.1; omega)) (dbCols_length v).2 him
  · intro s hs
    obtain ⟨hn, _, _, him⟩ := hv s hs
    exact db_decode dec hd v s.val s.infomask (by have := hn.2.1; omega) him

end PgVerif.Proofs.Cluster
