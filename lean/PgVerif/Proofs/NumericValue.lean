/-
  C05, the value level: the decimal text that `computeNumeric` builds for `strconv.ParseFloat` denotes exactly the
  stored numeric's value (`readDecimal_numericText`), and that value — mantissa Σ dᵢ·10000^(k−1−i), exponent
  4·(w−k+1) — is PostgreSQL's positional sum Σ dᵢ·10000^(w−i) (`posValue_eq`).  Helpers for Props/C05.lean.
-/
import PgVerif.Model.JsonbView
import PgVerif.Proofs.TxtNumerals
set_option linter.unusedSimpArgs false
namespace PgVerif.Proofs.NumericValue
open PgVerif PgVerif.Model PgVerif.Spec PgVerif.Proofs.TxtNumerals

/-! ### the Spec's numeral readers are the independent ones of Proofs/TxtNumerals -/

theorem digitsOnto_eq (acc : Nat) (s : Bytes) : digitsOnto acc s = valAux decDigit 10 acc s := by
  induction s generalizing acc with
  | nil => rfl
  | cons c cs ih =>
    unfold digitsOnto valAux decDigit isDigitCh
    by_cases h : 48 ≤ c.toNat ∧ c.toNat ≤ 57
    · have hb : (decide (48 ≤ c.toNat) && decide (c.toNat ≤ 57)) = true := by simp [h.1, h.2]
      rw [if_pos hb, if_pos h]
      exact ih _
    · have hb : ¬ ((decide (48 ≤ c.toNat) && decide (c.toNat ≤ 57)) = true) := by
        simp only [Bool.and_eq_true, decide_eq_true_eq]; exact h
      rw [if_neg hb, if_neg h]

theorem natOfText_eq (s : Bytes) : natOfText s = decVal s := by
  unfold natOfText decVal numVal
  split
  · rfl
  · exact digitsOnto_eq 0 s

theorem intOfText_eq (s : Bytes) : intOfText s = decIntVal s := by
  cases s with
  | nil => rfl
  | cons c t => simp only [intOfText, decIntVal, natOfText_eq]

/-- the integer that `strconv.AppendInt(…, 10)` wrote is read back -/
theorem intOfText_decInt (i : Int) : intOfText (Txt.decInt i) = some i := by
  rw [intOfText_eq]; exact decInt_val i

/-! ### the four characters of one base-10000 digit -/

theorem u8_small (k : Nat) (h : k < 256) : (UInt8.ofNat k).toNat = k := toNat_ofNat_small k h

/-- reading the four characters of digit `d < 10000` onto `acc` gives `acc·10000 + d` -/
theorem digitsOnto_digit4 (acc d : Nat) (hd : d < 10000) (rest : Bytes) :
    digitsOnto acc (digit4 d ++ rest) = digitsOnto (acc * 10000 + d) rest := by
  have a0 : d / 1000 ≤ 9 := by omega
  have a1 : d / 100 % 10 ≤ 9 := by omega
  have a2 : d / 10 % 10 ≤ 9 := by omega
  have a3 : d % 10 ≤ 9 := by omega
  have e0 := u8_small (48 + d / 1000) (by omega)
  have e1 := u8_small (48 + d / 100 % 10) (by omega)
  have e2 := u8_small (48 + d / 10 % 10) (by omega)
  have e3 := u8_small (48 + d % 10) (by omega)
  have c0 : isDigitCh (UInt8.ofNat (48 + d / 1000)) = true := by simp [isDigitCh, e0]; omega
  have c1 : isDigitCh (UInt8.ofNat (48 + d / 100 % 10)) = true := by simp [isDigitCh, e1]; omega
  have c2 : isDigitCh (UInt8.ofNat (48 + d / 10 % 10)) = true := by simp [isDigitCh, e2]; omega
  have c3 : isDigitCh (UInt8.ofNat (48 + d % 10)) = true := by simp [isDigitCh, e3]; omega
  simp only [digit4, List.cons_append, List.nil_append, digitsOnto, c0, c1, c2, c3, if_true, e0, e1, e2, e3]
  congr 1
  omega

/-- the digit characters of a whole digit string denote the mantissa Σ dᵢ·10000^(k−1−i) -/
theorem digitsOnto_flatMap (ds : List Nat) (hd : ∀ d ∈ ds, d < 10000) (acc : Nat) :
    digitsOnto acc (ds.flatMap digit4) = some (mantOf ds acc) := by
  induction ds generalizing acc with
  | nil => rfl
  | cons d ds ih =>
    rw [List.flatMap_cons, digitsOnto_digit4 acc d (hd d (by simp))]
    exact ih (fun x hx => hd x (by simp [hx])) _

theorem digit4_chars (d : Nat) (hd : d < 10000) : ∀ c ∈ digit4 d, 48 ≤ c.toNat ∧ c.toNat ≤ 57 := by
  have e0 := u8_small (48 + d / 1000) (by omega)
  have e1 := u8_small (48 + d / 100 % 10) (by omega)
  have e2 := u8_small (48 + d / 10 % 10) (by omega)
  have e3 := u8_small (48 + d % 10) (by omega)
  intro c hc
  simp only [digit4, List.mem_cons, List.mem_nil_iff, or_false] at hc
  rcases hc with rfl | rfl | rfl | rfl <;> omega

theorem flatMap_chars (ds : List Nat) (hd : ∀ d ∈ ds, d < 10000) :
    ∀ c ∈ ds.flatMap digit4, 48 ≤ c.toNat ∧ c.toNat ≤ 57 := by
  intro c hc
  obtain ⟨d, hdm, hcd⟩ := List.mem_flatMap.mp hc
  exact digit4_chars d (hd d hdm) c hcd

theorem takeWhile_stop (p : UInt8 → Bool) (l : Bytes) (x : UInt8) (r : Bytes) (hl : ∀ c ∈ l, p c = true) (hx : p x = false) :
    (l ++ x :: r).takeWhile p = l ∧ (l ++ x :: r).dropWhile p = x :: r := by
  induction l with
  | nil => simp [List.takeWhile, List.dropWhile, hx]
  | cons a l ih =>
    have ha := hl a (by simp)
    have := ih (fun c hc => hl c (by simp [hc]))
    simp [List.takeWhile, List.dropWhile, ha, this.1, this.2]

/-- **the text handed to ParseFloat denotes the numeric's value**: for digits below 10000 (at least one), sign `neg` and
weight `w`, the decimal that `numericText digits w neg` denotes is (neg, Σ dᵢ·10000^(k−1−i), 4·(w−k+1)) -/
theorem readDecimal_numericText (ds : List Nat) (w : Int) (neg : Bool) (hd : ∀ d ∈ ds, d < 10000) (hne : ds ≠ []) :
    readDecimal (numericText ds w neg) = some (neg, mantOf ds 0, 4 * (w - ds.length + 1)) := by
  have hch := flatMap_chars ds hd
  have hD : ds.flatMap digit4 ≠ [] := by
    cases ds with
    | nil => exact absurd rfl hne
    | cons d rest => simp [List.flatMap_cons, digit4]
  have hp : ∀ c ∈ ds.flatMap digit4, (c != 101) = true := by
    intro c hc
    have := hch c hc
    have : c ≠ 101 := by intro h; subst h; simp at this
    simpa using this
  have hsplit := takeWhile_stop (· != 101) (ds.flatMap digit4) 101 (Txt.decInt (4 * (w - ds.length + 1))) hp (by decide)
  have hbody : ∀ body : Bytes, body = ds.flatMap digit4 ++ 101 :: Txt.decInt (4 * (w - ds.length + 1)) →
      (match body.dropWhile (· != 101) with
        | _ :: ex =>
          match natOfText (body.takeWhile (· != 101)), intOfText ex with
          | some m, some e => some (neg, m, e)
          | _, _ => none
        | [] => none) = some (neg, mantOf ds 0, 4 * (w - ds.length + 1)) := by
    intro body hb
    subst hb
    rw [hsplit.1, hsplit.2]
    have hn : natOfText (ds.flatMap digit4) = some (mantOf ds 0) := by
      unfold natOfText; rw [if_neg hD]; exact digitsOnto_flatMap ds hd 0
    simp only [hn, intOfText_decInt]
  have htext : numericText ds w neg = (if neg then [45] else []) ++ (ds.flatMap digit4 ++ 101 :: Txt.decInt (4 * (w - ds.length + 1))) := by
    unfold numericText; simp
  rw [htext]
  generalize hE : Txt.decInt (4 * (w - ds.length + 1)) = E at *
  cases neg with
  | true =>
    show readDecimal (45 :: (ds.flatMap digit4 ++ 101 :: E)) = _
    unfold readDecimal
    have hh : ((45 :: (ds.flatMap digit4 ++ 101 :: E)).head? == some (45 : UInt8)) = true := rfl
    simp only [hh, if_true, List.drop_succ_cons, List.drop_zero]
    exact hbody _ rfl
  | false =>
    show readDecimal (ds.flatMap digit4 ++ 101 :: E) = _
    obtain ⟨c0, t0, h0⟩ : ∃ c t, ds.flatMap digit4 = c :: t := by
      cases hdd : ds.flatMap digit4 with
      | nil => exact absurd hdd hD
      | cons c t => exact ⟨c, t, rfl⟩
    have hc0 := hch c0 (by rw [h0]; simp)
    have hh : ((ds.flatMap digit4 ++ 101 :: E).head? == some (45 : UInt8)) = false := by
      rw [h0]
      have : c0 ≠ 45 := by intro h; subst h; simp at hc0
      simpa using this
    unfold readDecimal
    simp only [hh, Bool.false_eq_true, if_false]
    exact hbody _ rfl

/-! ### the decimal is PostgreSQL's positional sum -/

theorem mantOf_acc (ds : List Nat) (acc : Nat) : mantOf ds acc = acc * 10000 ^ ds.length + mantOf ds 0 := by
  induction ds generalizing acc with
  | nil => simp [mantOf]
  | cons d ds ih =>
    rw [mantOf, ih, mantOf, ih (0 * 10000 + d)]
    simp only [List.length_cons, Nat.pow_succ, Nat.zero_mul, Nat.zero_add]
    rw [Nat.add_mul, Nat.mul_assoc, Nat.mul_comm 10000 (10000 ^ ds.length), Nat.add_assoc]

theorem ten4 (n : Nat) : (10000 : Nat) ^ n = 10 ^ (4 * n) := by
  rw [Nat.pow_mul]

/-- **the value relation**: scaled by any 10^S that makes every exponent non-negative, PostgreSQL's positional value
Σ dᵢ·10000^(w−i) of the digit string equals mant·10^exp10 for the Spec's decimal (mant, exp10) =
(Σ dᵢ·10000^(k−1−i), 4·(w−k+1)) -/
theorem posValue_eq (S : Nat) (ds : List Nat) (w : Int) (h : 0 ≤ 4 * (w - ds.length + 1) + S) :
    posValue S w ds = mantOf ds 0 * 10 ^ (4 * (w - ds.length + 1) + S).toNat := by
  induction ds generalizing w with
  | nil => simp [posValue, mantOf]
  | cons d ds ih =>
    have h' : 0 ≤ 4 * ((w - 1) - ds.length + 1) + S := by simp only [List.length_cons] at h; omega
    rw [posValue, ih (w - 1) h', mantOf, mantOf_acc ds (0 * 10000 + d)]
    simp only [Nat.zero_mul, Nat.zero_add, List.length_cons]
    have e1 : (4 * (w - 1 - (ds.length : Int) + 1) + (S : Int)).toNat = (4 * (w - ((ds.length + 1 : Nat) : Int) + 1) + (S : Int)).toNat := by
      congr 1; omega
    have e2 : (4 * w + (S : Int)).toNat = 4 * ds.length + (4 * (w - ((ds.length + 1 : Nat) : Int) + 1) + (S : Int)).toNat := by
      simp only [List.length_cons] at h; omega
    rw [e1, e2, Nat.pow_add, ten4, Nat.add_mul, Nat.mul_assoc]

/-! ### … and over ℚ -/

theorem ten_ne_zero : (10 : Rat) ≠ 0 := by decide

/-- the positional sum over ℚ is mant·10^exp10 -/
theorem ratPositional_eq (ds : List Nat) (w : Int) :
    ratPositional w ds = (mantOf ds 0 : Rat) * (10 : Rat) ^ (4 * (w - ds.length + 1)) := by
  induction ds generalizing w with
  | nil => simp [ratPositional, mantOf]
  | cons d ds ih =>
    rw [ratPositional, ih (w - 1), mantOf, mantOf_acc ds (0 * 10000 + d)]
    simp only [Nat.zero_mul, Nat.zero_add, List.length_cons]
    rw [Rat.natCast_add, Rat.natCast_mul, ten4, Rat.natCast_pow, Rat.add_mul]
    have e1 : (4 * (w - 1 - (ds.length : Int) + 1)) = 4 * (w - ((ds.length + 1 : Nat) : Int) + 1) := by omega
    rw [e1]
    congr 1
    rw [Rat.mul_assoc]
    congr 1
    have e2 : ((10 : Nat) : Rat) = (10 : Rat) := by simp
    rw [e2, ← Rat.zpow_natCast, ← Rat.zpow_add ten_ne_zero]
    congr 1
    omega

end PgVerif.Proofs.NumericValue
