/-
  The calendar: the model's day-number → civil-date conversion (what Go's time package prints)
  inverts the spec's civil-date → day-number definition (PostgreSQL's date value) on every valid
  date of years 1..9999 (in fact for every year ≥ 1).  Helper lemmas for Props/C04.lean.
-/
import PgVerif.Model.Scalars
import PgVerif.Spec.Scalars
set_option linter.unusedSimpArgs false
set_option linter.unusedVariables false
namespace PgVerif.Proofs.ScalarsCal
open PgVerif PgVerif.Model.Scalars PgVerif.Spec.Scalars

theorem isLeap_iff (y : Nat) : isLeap y = true ↔ (y % 4 = 0 ∧ (y % 100 ≠ 0 ∨ y % 400 = 0)) := by
  simp [isLeap]

/-- the leap-year rule in terms of the digits of year − 1 = 400a + 100b + 4c + e -/
theorem isLeap_digits (y : Nat) (hy : 1 ≤ y) :
    isLeap y = true ↔ ((y - 1) % 4 = 3 ∧ ((y - 1) % 100 / 4 ≠ 24 ∨ (y - 1) % 400 / 100 = 3)) := by
  rw [isLeap_iff]
  constructor
  · intro h; omega
  · intro h; omega

theorem dby_digits (y : Nat) (hy : 1 ≤ y) :
    daysBeforeYear y = 146097 * ((y - 1) / 400) + 36524 * ((y - 1) % 400 / 100) + 1461 * ((y - 1) % 100 / 4) + 365 * ((y - 1) % 4) := by
  unfold daysBeforeYear
  generalize y - 1 = y0
  have h4 : y0 / 4 = 100 * (y0 / 400) + 25 * (y0 % 400 / 100) + y0 % 100 / 4 := by omega
  have h100 : y0 / 100 = 4 * (y0 / 400) + y0 % 400 / 100 := by omega
  have he : y0 = 400 * (y0 / 400) + 100 * (y0 % 400 / 100) + 4 * (y0 % 100 / 4) + y0 % 4 := by omega
  generalize y0 / 400 = a at *
  generalize y0 % 400 / 100 = b at *
  generalize y0 % 100 / 4 = c at *
  generalize y0 % 4 = e at *
  rw [h4, h100]
  omega

/-- eraYMD recovers the digits and the day of the year -/
theorem eraYMD_digits (b c e doy : Nat) (leap : Bool) (hb : b ≤ 3) (hc : c ≤ 24) (he : e ≤ 3)
    (hleap : leap = true ↔ (e = 3 ∧ (c ≠ 24 ∨ b = 3)))
    (hdoy : doy < 365 + (if leap then 1 else 0)) :
    eraYMD (36524 * b + 1461 * c + 365 * e + doy) = (100 * b + 4 * c + e, (monthDay leap doy).1, (monthDay leap doy).2) := by
  have hd : doy ≤ 365 ∧ (doy = 365 → (e = 3 ∧ (c ≠ 24 ∨ b = 3))) := by
    cases leap
    · simp at hdoy; omega
    · simp at hdoy; exact ⟨by omega, fun _ => hleap.1 rfl⟩
  unfold eraYMD
  have h1 : min ((36524 * b + 1461 * c + 365 * e + doy) / 36524) 3 = b := by omega
  simp only [h1]
  have h2 : 36524 * b + 1461 * c + 365 * e + doy - 36524 * b = 1461 * c + 365 * e + doy := by omega
  simp only [h2]
  have h3 : (1461 * c + 365 * e + doy) / 1461 = c := by omega
  have h4 : (1461 * c + 365 * e + doy) % 1461 = 365 * e + doy := by omega
  simp only [h3, h4]
  have h5 : min ((365 * e + doy) / 365) 3 = e := by omega
  simp only [h5]
  have h6 : 365 * e + doy - 365 * e = doy := by omega
  simp only [h6]
  have h7 : (e == 3 && (c != 24 || b == 3)) = leap := by
    cases hl : leap
    · have : ¬ (e = 3 ∧ (c ≠ 24 ∨ b = 3)) := fun h => by rw [hleap.2 h] at hl; cases hl
      by_cases h3 : e = 3
      · have : c = 24 ∧ b ≠ 3 := by omega
        simp [h3, this.1, this.2]
      · simp [h3]
    · have := hleap.1 hl
      rcases this with ⟨h3, h | h⟩ <;> simp [h3, h]
  rw [h7]

theorem monthDay_false_1 (d : Nat) (hd : 1 ≤ d ∧ d ≤ 31) : monthDay false (0 + (d - 1)) = (1, d) := by
  unfold monthDay
  simp only [Bool.false_eq_true, if_false, if_true, Nat.reduceAdd, Nat.add_zero]
  rw [if_pos (by omega)]
  simp only [Prod.mk.injEq, true_and]; omega

theorem monthDay_false_2 (d : Nat) (hd : 1 ≤ d ∧ d ≤ 28) : monthDay false (31 + (d - 1)) = (2, d) := by
  unfold monthDay
  simp only [Bool.false_eq_true, if_false, if_true, Nat.reduceAdd, Nat.add_zero]
  rw [if_neg (by omega), if_pos (by omega)]
  simp only [Prod.mk.injEq, true_and]; omega

theorem monthDay_false_3 (d : Nat) (hd : 1 ≤ d ∧ d ≤ 31) : monthDay false (59 + (d - 1)) = (3, d) := by
  unfold monthDay
  simp only [Bool.false_eq_true, if_false, if_true, Nat.reduceAdd, Nat.add_zero]
  rw [if_neg (by omega), if_neg (by omega), if_pos (by omega)]
  simp only [Prod.mk.injEq, true_and]; omega

theorem monthDay_false_4 (d : Nat) (hd : 1 ≤ d ∧ d ≤ 30) : monthDay false (90 + (d - 1)) = (4, d) := by
  unfold monthDay
  simp only [Bool.false_eq_true, if_false, if_true, Nat.reduceAdd, Nat.add_zero]
  rw [if_neg (by omega), if_neg (by omega), if_neg (by omega), if_pos (by omega)]
  simp only [Prod.mk.injEq, true_and]; omega

theorem monthDay_false_5 (d : Nat) (hd : 1 ≤ d ∧ d ≤ 31) : monthDay false (120 + (d - 1)) = (5, d) := by
  unfold monthDay
  simp only [Bool.false_eq_true, if_false, if_true, Nat.reduceAdd, Nat.add_zero]
  rw [if_neg (by omega), if_neg (by omega), if_neg (by omega), if_neg (by omega), if_pos (by omega)]
  simp only [Prod.mk.injEq, true_and]; omega

theorem monthDay_false_6 (d : Nat) (hd : 1 ≤ d ∧ d ≤ 30) : monthDay false (151 + (d - 1)) = (6, d) := by
  unfold monthDay
  simp only [Bool.false_eq_true, if_false, if_true, Nat.reduceAdd, Nat.add_zero]
  rw [if_neg (by omega), if_neg (by omega), if_neg (by omega), if_neg (by omega), if_neg (by omega), if_pos (by omega)]
  simp only [Prod.mk.injEq, true_and]; omega

theorem monthDay_false_7 (d : Nat) (hd : 1 ≤ d ∧ d ≤ 31) : monthDay false (181 + (d - 1)) = (7, d) := by
  unfold monthDay
  simp only [Bool.false_eq_true, if_false, if_true, Nat.reduceAdd, Nat.add_zero]
  rw [if_neg (by omega), if_neg (by omega), if_neg (by omega), if_neg (by omega), if_neg (by omega), if_neg (by omega), if_pos (by omega)]
  simp only [Prod.mk.injEq, true_and]; omega

theorem monthDay_false_8 (d : Nat) (hd : 1 ≤ d ∧ d ≤ 31) : monthDay false (212 + (d - 1)) = (8, d) := by
  unfold monthDay
  simp only [Bool.false_eq_true, if_false, if_true, Nat.reduceAdd, Nat.add_zero]
  rw [if_neg (by omega), if_neg (by omega), if_neg (by omega), if_neg (by omega), if_neg (by omega), if_neg (by omega), if_neg (by omega), if_pos (by omega)]
  simp only [Prod.mk.injEq, true_and]; omega

theorem monthDay_false_9 (d : Nat) (hd : 1 ≤ d ∧ d ≤ 30) : monthDay false (243 + (d - 1)) = (9, d) := by
  unfold monthDay
  simp only [Bool.false_eq_true, if_false, if_true, Nat.reduceAdd, Nat.add_zero]
  rw [if_neg (by omega), if_neg (by omega), if_neg (by omega), if_neg (by omega), if_neg (by omega), if_neg (by omega), if_neg (by omega), if_neg (by omega), if_pos (by omega)]
  simp only [Prod.mk.injEq, true_and]; omega

theorem monthDay_false_10 (d : Nat) (hd : 1 ≤ d ∧ d ≤ 31) : monthDay false (273 + (d - 1)) = (10, d) := by
  unfold monthDay
  simp only [Bool.false_eq_true, if_false, if_true, Nat.reduceAdd, Nat.add_zero]
  rw [if_neg (by omega), if_neg (by omega), if_neg (by omega), if_neg (by omega), if_neg (by omega), if_neg (by omega), if_neg (by omega), if_neg (by omega), if_neg (by omega), if_pos (by omega)]
  simp only [Prod.mk.injEq, true_and]; omega

theorem monthDay_false_11 (d : Nat) (hd : 1 ≤ d ∧ d ≤ 30) : monthDay false (304 + (d - 1)) = (11, d) := by
  unfold monthDay
  simp only [Bool.false_eq_true, if_false, if_true, Nat.reduceAdd, Nat.add_zero]
  rw [if_neg (by omega), if_neg (by omega), if_neg (by omega), if_neg (by omega), if_neg (by omega), if_neg (by omega), if_neg (by omega), if_neg (by omega), if_neg (by omega), if_neg (by omega), if_pos (by omega)]
  simp only [Prod.mk.injEq, true_and]; omega

theorem monthDay_false_12 (d : Nat) (hd : 1 ≤ d ∧ d ≤ 31) : monthDay false (334 + (d - 1)) = (12, d) := by
  unfold monthDay
  simp only [Bool.false_eq_true, if_false, if_true, Nat.reduceAdd, Nat.add_zero]
  rw [if_neg (by omega), if_neg (by omega), if_neg (by omega), if_neg (by omega), if_neg (by omega), if_neg (by omega), if_neg (by omega), if_neg (by omega), if_neg (by omega), if_neg (by omega), if_neg (by omega)]
  simp only [Prod.mk.injEq, true_and]; omega

theorem monthDay_true_1 (d : Nat) (hd : 1 ≤ d ∧ d ≤ 31) : monthDay true (0 + (d - 1)) = (1, d) := by
  unfold monthDay
  simp only [Bool.false_eq_true, if_false, if_true, Nat.reduceAdd, Nat.add_zero]
  rw [if_pos (by omega)]
  simp only [Prod.mk.injEq, true_and]; omega

theorem monthDay_true_2 (d : Nat) (hd : 1 ≤ d ∧ d ≤ 29) : monthDay true (31 + (d - 1)) = (2, d) := by
  unfold monthDay
  simp only [Bool.false_eq_true, if_false, if_true, Nat.reduceAdd, Nat.add_zero]
  rw [if_neg (by omega), if_pos (by omega)]
  simp only [Prod.mk.injEq, true_and]; omega

theorem monthDay_true_3 (d : Nat) (hd : 1 ≤ d ∧ d ≤ 31) : monthDay true (60 + (d - 1)) = (3, d) := by
  unfold monthDay
  simp only [Bool.false_eq_true, if_false, if_true, Nat.reduceAdd, Nat.add_zero]
  rw [if_neg (by omega), if_neg (by omega), if_pos (by omega)]
  simp only [Prod.mk.injEq, true_and]; omega

theorem monthDay_true_4 (d : Nat) (hd : 1 ≤ d ∧ d ≤ 30) : monthDay true (91 + (d - 1)) = (4, d) := by
  unfold monthDay
  simp only [Bool.false_eq_true, if_false, if_true, Nat.reduceAdd, Nat.add_zero]
  rw [if_neg (by omega), if_neg (by omega), if_neg (by omega), if_pos (by omega)]
  simp only [Prod.mk.injEq, true_and]; omega

theorem monthDay_true_5 (d : Nat) (hd : 1 ≤ d ∧ d ≤ 31) : monthDay true (121 + (d - 1)) = (5, d) := by
  unfold monthDay
  simp only [Bool.false_eq_true, if_false, if_true, Nat.reduceAdd, Nat.add_zero]
  rw [if_neg (by omega), if_neg (by omega), if_neg (by omega), if_neg (by omega), if_pos (by omega)]
  simp only [Prod.mk.injEq, true_and]; omega

theorem monthDay_true_6 (d : Nat) (hd : 1 ≤ d ∧ d ≤ 30) : monthDay true (152 + (d - 1)) = (6, d) := by
  unfold monthDay
  simp only [Bool.false_eq_true, if_false, if_true, Nat.reduceAdd, Nat.add_zero]
  rw [if_neg (by omega), if_neg (by omega), if_neg (by omega), if_neg (by omega), if_neg (by omega), if_pos (by omega)]
  simp only [Prod.mk.injEq, true_and]; omega

theorem monthDay_true_7 (d : Nat) (hd : 1 ≤ d ∧ d ≤ 31) : monthDay true (182 + (d - 1)) = (7, d) := by
  unfold monthDay
  simp only [Bool.false_eq_true, if_false, if_true, Nat.reduceAdd, Nat.add_zero]
  rw [if_neg (by omega), if_neg (by omega), if_neg (by omega), if_neg (by omega), if_neg (by omega), if_neg (by omega), if_pos (by omega)]
  simp only [Prod.mk.injEq, true_and]; omega

theorem monthDay_true_8 (d : Nat) (hd : 1 ≤ d ∧ d ≤ 31) : monthDay true (213 + (d - 1)) = (8, d) := by
  unfold monthDay
  simp only [Bool.false_eq_true, if_false, if_true, Nat.reduceAdd, Nat.add_zero]
  rw [if_neg (by omega), if_neg (by omega), if_neg (by omega), if_neg (by omega), if_neg (by omega), if_neg (by omega), if_neg (by omega), if_pos (by omega)]
  simp only [Prod.mk.injEq, true_and]; omega

theorem monthDay_true_9 (d : Nat) (hd : 1 ≤ d ∧ d ≤ 30) : monthDay true (244 + (d - 1)) = (9, d) := by
  unfold monthDay
  simp only [Bool.false_eq_true, if_false, if_true, Nat.reduceAdd, Nat.add_zero]
  rw [if_neg (by omega), if_neg (by omega), if_neg (by omega), if_neg (by omega), if_neg (by omega), if_neg (by omega), if_neg (by omega), if_neg (by omega), if_pos (by omega)]
  simp only [Prod.mk.injEq, true_and]; omega

theorem monthDay_true_10 (d : Nat) (hd : 1 ≤ d ∧ d ≤ 31) : monthDay true (274 + (d - 1)) = (10, d) := by
  unfold monthDay
  simp only [Bool.false_eq_true, if_false, if_true, Nat.reduceAdd, Nat.add_zero]
  rw [if_neg (by omega), if_neg (by omega), if_neg (by omega), if_neg (by omega), if_neg (by omega), if_neg (by omega), if_neg (by omega), if_neg (by omega), if_neg (by omega), if_pos (by omega)]
  simp only [Prod.mk.injEq, true_and]; omega

theorem monthDay_true_11 (d : Nat) (hd : 1 ≤ d ∧ d ≤ 30) : monthDay true (305 + (d - 1)) = (11, d) := by
  unfold monthDay
  simp only [Bool.false_eq_true, if_false, if_true, Nat.reduceAdd, Nat.add_zero]
  rw [if_neg (by omega), if_neg (by omega), if_neg (by omega), if_neg (by omega), if_neg (by omega), if_neg (by omega), if_neg (by omega), if_neg (by omega), if_neg (by omega), if_neg (by omega), if_pos (by omega)]
  simp only [Prod.mk.injEq, true_and]; omega

theorem monthDay_true_12 (d : Nat) (hd : 1 ≤ d ∧ d ≤ 31) : monthDay true (335 + (d - 1)) = (12, d) := by
  unfold monthDay
  simp only [Bool.false_eq_true, if_false, if_true, Nat.reduceAdd, Nat.add_zero]
  rw [if_neg (by omega), if_neg (by omega), if_neg (by omega), if_neg (by omega), if_neg (by omega), if_neg (by omega), if_neg (by omega), if_neg (by omega), if_neg (by omega), if_neg (by omega), if_neg (by omega)]
  simp only [Prod.mk.injEq, true_and]; omega

theorem monthDay_inv (y m d : Nat) (hm : 1 ≤ m ∧ m ≤ 12) (hd : 1 ≤ d ∧ d ≤ daysInMonth y m) :
    monthDay (isLeap y) (daysBeforeMonth y m + (d - 1)) = (m, d) := by
  have hm' : m = 1 ∨ m = 2 ∨ m = 3 ∨ m = 4 ∨ m = 5 ∨ m = 6 ∨ m = 7 ∨ m = 8 ∨ m = 9 ∨ m = 10 ∨ m = 11 ∨ m = 12 := by omega
  cases hl : isLeap y
  · rcases hm' with rfl | rfl | rfl | rfl | rfl | rfl | rfl | rfl | rfl | rfl | rfl | rfl
    · simp [daysInMonth, hl] at hd; simpa [daysBeforeMonth, hl] using monthDay_false_1 d hd
    · simp [daysInMonth, hl] at hd; simpa [daysBeforeMonth, hl] using monthDay_false_2 d hd
    · simp [daysInMonth, hl] at hd; simpa [daysBeforeMonth, hl] using monthDay_false_3 d hd
    · simp [daysInMonth, hl] at hd; simpa [daysBeforeMonth, hl] using monthDay_false_4 d hd
    · simp [daysInMonth, hl] at hd; simpa [daysBeforeMonth, hl] using monthDay_false_5 d hd
    · simp [daysInMonth, hl] at hd; simpa [daysBeforeMonth, hl] using monthDay_false_6 d hd
    · simp [daysInMonth, hl] at hd; simpa [daysBeforeMonth, hl] using monthDay_false_7 d hd
    · simp [daysInMonth, hl] at hd; simpa [daysBeforeMonth, hl] using monthDay_false_8 d hd
    · simp [daysInMonth, hl] at hd; simpa [daysBeforeMonth, hl] using monthDay_false_9 d hd
    · simp [daysInMonth, hl] at hd; simpa [daysBeforeMonth, hl] using monthDay_false_10 d hd
    · simp [daysInMonth, hl] at hd; simpa [daysBeforeMonth, hl] using monthDay_false_11 d hd
    · simp [daysInMonth, hl] at hd; simpa [daysBeforeMonth, hl] using monthDay_false_12 d hd
  · rcases hm' with rfl | rfl | rfl | rfl | rfl | rfl | rfl | rfl | rfl | rfl | rfl | rfl
    · simp [daysInMonth, hl] at hd; simpa [daysBeforeMonth, hl] using monthDay_true_1 d hd
    · simp [daysInMonth, hl] at hd; simpa [daysBeforeMonth, hl] using monthDay_true_2 d hd
    · simp [daysInMonth, hl] at hd; simpa [daysBeforeMonth, hl] using monthDay_true_3 d hd
    · simp [daysInMonth, hl] at hd; simpa [daysBeforeMonth, hl] using monthDay_true_4 d hd
    · simp [daysInMonth, hl] at hd; simpa [daysBeforeMonth, hl] using monthDay_true_5 d hd
    · simp [daysInMonth, hl] at hd; simpa [daysBeforeMonth, hl] using monthDay_true_6 d hd
    · simp [daysInMonth, hl] at hd; simpa [daysBeforeMonth, hl] using monthDay_true_7 d hd
    · simp [daysInMonth, hl] at hd; simpa [daysBeforeMonth, hl] using monthDay_true_8 d hd
    · simp [daysInMonth, hl] at hd; simpa [daysBeforeMonth, hl] using monthDay_true_9 d hd
    · simp [daysInMonth, hl] at hd; simpa [daysBeforeMonth, hl] using monthDay_true_10 d hd
    · simp [daysInMonth, hl] at hd; simpa [daysBeforeMonth, hl] using monthDay_true_11 d hd
    · simp [daysInMonth, hl] at hd; simpa [daysBeforeMonth, hl] using monthDay_true_12 d hd

theorem daysOfYear_lt (y m d : Nat) (hm : 1 ≤ m ∧ m ≤ 12) (hd : 1 ≤ d ∧ d ≤ daysInMonth y m) :
    daysBeforeMonth y m + (d - 1) < 365 + (if isLeap y then 1 else 0) := by
  have hm' : m = 1 ∨ m = 2 ∨ m = 3 ∨ m = 4 ∨ m = 5 ∨ m = 6 ∨ m = 7 ∨ m = 8 ∨ m = 9 ∨ m = 10 ∨ m = 11 ∨ m = 12 := by omega
  cases hl : isLeap y <;>
    rcases hm' with rfl | rfl | rfl | rfl | rfl | rfl | rfl | rfl | rfl | rfl | rfl | rfl <;>
    simp [daysInMonth, hl] at hd <;>
    simp [daysBeforeMonth, hl] <;>
    omega

/-- the model's calendar inverts PostgreSQL's date value on every valid date (any year ≥ 1) -/
theorem civil_pgDate (y m d : Nat) (hy : 1 ≤ y) (hm : 1 ≤ m ∧ m ≤ 12) (hd : 1 ≤ d ∧ d ≤ daysInMonth y m) :
    civilFromDays (pgDate y m d + 10957) = ((y : Int), m, d) := by
  have hdig := dby_digits y hy
  have hlt := daysOfYear_lt y m d hm hd
  have hmd := monthDay_inv y m d hm hd
  have hleap := isLeap_digits y hy
  generalize hdoy : daysBeforeMonth y m + (d - 1) = doy at hlt hmd
  have hy0 : y - 1 = 400 * ((y - 1) / 400) + 100 * ((y - 1) % 400 / 100) + 4 * ((y - 1) % 100 / 4) + (y - 1) % 4 := by omega
  have hb : (y - 1) % 400 / 100 ≤ 3 := by omega
  have hc : (y - 1) % 100 / 4 ≤ 24 := by omega
  have he : (y - 1) % 4 ≤ 3 := by omega
  generalize (y - 1) / 400 = a at *
  generalize (y - 1) % 400 / 100 = b at *
  generalize (y - 1) % 100 / 4 = c at *
  generalize (y - 1) % 4 = e at *
  have hera := eraYMD_digits b c e doy (isLeap y) hb hc he hleap hlt
  have hd365 : doy ≤ 365 := by
    cases hl : isLeap y <;> simp [hl] at hlt <;> omega
  unfold civilFromDays pgDate
  have hn : ((daysBeforeYear y + daysBeforeMonth y m + (d - 1) : Nat) : Int) - 730119 + 10957 + 719162
      = ((146097 * a + (36524 * b + 1461 * c + 365 * e + doy) : Nat) : Int) := by
    rw [Nat.add_assoc, hdoy, hdig]; omega
  simp only [hn]
  have hq : ((146097 * a + (36524 * b + 1461 * c + 365 * e + doy) : Nat) : Int) / 146097 = (a : Int) := by omega
  simp only [hq]
  have hr : (((146097 * a + (36524 * b + 1461 * c + 365 * e + doy) : Nat) : Int) - (a : Int) * 146097).toNat
      = 36524 * b + 1461 * c + 365 * e + doy := by omega
  simp only [hr, hera, hmd]
  have : (a : Int) * 400 + ((100 * b + 4 * c + e + 1 : Nat) : Int) = (y : Int) := by omega
  rw [this]

end PgVerif.Proofs.ScalarsCal
