/-
  The two Spec encoders of a WAL segment are the same function: `encSegment` (cut the stream of usable bytes
  into pages; xlp_rem_len by a search over the record intervals; record positions by XLogBytePosToRecPtr
  arithmetic) and `encSegmentOp` (copy the records page by page, carrying the unwritten tail of the record cut
  by the page end).  Helper lemmas for `C17_encoders_agree` / `C17_records` (Props/C17.lean).
  Only the Spec is involved: nothing here mentions the model of the Go code.
-/
import PgVerif.Proofs.WalLayout
namespace PgVerif.Proofs.WalEnc
open PgVerif
open PgVerif.Spec.Wal

open PgVerif.Proofs.Wal (pad8_length encRecord_length totLen_ge recsLen hdr_length)

/-- the usable bytes of a list of records -/
def streamOf (rs : List WalRecord) : Bytes := rs.flatMap fun r => pad8 (encRecord r)

theorem streamOf_length (rs : List WalRecord) : (streamOf rs).length = recsLen rs := by
  induction rs with
  | nil => rfl
  | cons r rs ih =>
    have h := pad8_length (encRecord r)
    rw [encRecord_length] at h
    simp only [streamOf, List.flatMap_cons, List.length_append, h, recsLen, List.map_cons, List.sum_cons] at ih ⊢
    rw [ih]

theorem align8_mod (n : Nat) : align8 n % 8 = 0 := by simp only [align8]; omega
theorem align8_ge (n : Nat) : n ≤ align8 n := by simp only [align8]; omega
theorem align8_sub (n c : Nat) (hc : c % 8 = 0) (h : c ≤ n) : align8 (n - c) = align8 n - c := by
  simp only [align8]; omega

/-! ### xlp_rem_len: the search over record intervals = a walk over the records -/

/-- bytes still to come, at stream position `b`, of whatever was begun before `b`: skip the records that start
before `b`; `e` = end of the last thing skipped, `o` = where the next record starts -/
def remAt : Nat → Nat → List WalRecord → Nat → Nat
  | e, _, [], b => e - b
  | e, o, r :: rs, b => if o < b then remAt (o + r.totLen) (o + align8 r.totLen) rs b else e - b

def itemsFrom (o : Nat) (rs : List WalRecord) : List (Nat × Nat) := (offsetsFrom o rs).zip (rs.map (·.totLen))

theorem itemsFrom_cons (o : Nat) (r : WalRecord) (rs : List WalRecord) :
    itemsFrom o (r :: rs) = (o, r.totLen) :: itemsFrom (o + align8 r.totLen) rs := by
  simp [itemsFrom, offsetsFrom]

theorem find_none_of_le (rs : List WalRecord) (o b : Nat) (h : b ≤ o) :
    (itemsFrom o rs).find? (fun it => it.1 < b && b < it.1 + it.2) = none := by
  induction rs generalizing o with
  | nil => rfl
  | cons r rs ih =>
    rw [itemsFrom_cons, List.find?_cons_of_neg (by simp; omega)]
    exact ih _ (by omega)

theorem rem_search_eq (rs : List WalRecord) (e o b : Nat) (heo : e ≤ o) :
    (if b < e then e - b
     else match (itemsFrom o rs).find? (fun it => it.1 < b && b < it.1 + it.2) with
       | some it => it.1 + it.2 - b
       | none => 0) = remAt e o rs b := by
  induction rs generalizing e o with
  | nil =>
    simp only [itemsFrom, offsetsFrom, List.zip_nil_left, List.find?_nil, remAt]
    split <;> omega
  | cons r rs ih =>
    have hA := align8_ge r.totLen
    rw [itemsFrom_cons]
    simp only [remAt]
    by_cases hob : o < b
    · rw [if_pos hob, if_neg (by omega)]
      rw [← ih (o + r.totLen) (o + align8 r.totLen) (by omega)]
      by_cases hb : b < o + r.totLen
      · rw [List.find?_cons_of_pos (by simp; omega), if_pos hb]
      · rw [List.find?_cons_of_neg (by simp; omega), if_neg hb]
    · rw [if_neg hob]
      rw [List.find?_cons_of_neg (by simp; omega), find_none_of_le rs _ b (by omega)]
      by_cases hbe : b < e
      · rw [if_pos hbe]
      · rw [if_neg hbe]
        show 0 = e - b
        omega

theorem remLen_eq (s : WalSegment) (b : Nat) :
    s.remLen b = remAt s.pre.length (align8 s.pre.length) s.records b :=
  rem_search_eq s.records s.pre.length (align8 s.pre.length) b (align8_ge _)

/-! ### page geometry -/

theorem hdrSize_cases (k : Nat) : (k = 0 ∧ hdrSize k = 40) ∨ (k ≠ 0 ∧ hdrSize k = 24) := by
  unfold hdrSize; by_cases h : k = 0 <;> simp [h]

theorem cap_eq (k : Nat) : (if k = 0 then cap0 else capN) = 8192 - hdrSize k := by
  unfold hdrSize cap0 capN; split <;> rfl

theorem pageStart_succ (k : Nat) : pageStart (k + 1) = pageStart k + (8192 - hdrSize k) := by
  unfold pageStart hdrSize cap0 capN
  cases k with
  | zero => simp
  | succ j => simp only [Nat.add_one_ne_zero, if_false, Nat.add_sub_cancel]; rw [Nat.succ_mul]; omega

theorem pageStart_mod (k : Nat) : pageStart k % 8 = 0 := by
  induction k with
  | zero => rfl
  | succ k ih => rw [pageStart_succ]; rcases hdrSize_cases k with ⟨_, h⟩ | ⟨_, h⟩ <;> omega

/-- XLogBytePosToRecPtr: the usable byte `q` of page `k` is byte `hdrSize k + q` of that page -/
theorem locate_pageStart (k q : Nat) (hq : q < 8192 - hdrSize k) : locate (pageStart k + q) = (k, hdrSize k + q) := by
  unfold locate pageStart hdrSize cap0 capN at *
  cases k with
  | zero => simp only [if_true] at hq ⊢; rw [if_pos (by omega)]; simp
  | succ j =>
    simp only [Nat.add_one_ne_zero, if_false, Nat.add_sub_cancel] at hq ⊢
    rw [if_neg (by omega)]
    have h1 : (8192 - 40 + j * (8192 - 24) + q - (8192 - 40)) = (8192 - 24) * j + q := by omega
    rw [h1, Nat.mul_add_div (by decide), Nat.mul_add_mod, Nat.div_eq_of_lt hq, Nat.mod_eq_of_lt hq]

/-- pages needed from page `k` on for `L` more usable bytes -/
def pagesFrom (k L : Nat) : Nat :=
  if L ≤ 8192 - hdrSize k then 1 else 1 + (L - (8192 - hdrSize k) + capN - 1) / capN

theorem pagesFrom_zero (L : Nat) : pagesFrom 0 L = pagesFor L := by
  unfold pagesFrom pagesFor hdrSize cap0; rfl

theorem pagesFrom_step (k L : Nat) (h : 8192 - hdrSize k < L) :
    pagesFrom k L = 1 + pagesFrom (k + 1) (L - (8192 - hdrSize k)) := by
  unfold pagesFrom
  rw [if_neg (by omega)]
  have h1 : hdrSize (k + 1) = 24 := by unfold hdrSize; simp
  rw [h1]
  unfold capN
  split <;> omega

theorem pagesFrom_one (k L : Nat) (h : L ≤ 8192 - hdrSize k) : pagesFrom k L = 1 := by
  unfold pagesFrom; rw [if_pos h]


/-! ### one page of the operational layout = one cut of the stream -/

theorem pad8_nil : pad8 [] = [] := rfl

theorem streamOf_cons (r : WalRecord) (rs : List WalRecord) : streamOf (r :: rs) = pad8 (encRecord r) ++ streamOf rs := rfl

/-- filling a page from position `p` with the records `rs` writes the next `8192 - p` bytes of their stream
(zero-filled when the stream ends first), and leaves the rest of the stream as carry + remaining records -/
theorem fillPage_stream (addr : Nat) (rs : List WalRecord) (p : Nat) (hp : p ≤ 8192) (hp8 : p % 8 = 0) :
    (streamOf rs).take (8192 - p) ++ zeros (8192 - p - ((streamOf rs).take (8192 - p)).length) =
        streamOf (fillPage addr p rs).whole ++ (fillPage addr p rs).trailer.bytes ∧
    (streamOf rs).drop (8192 - p) = pad8 (fillPage addr p rs).carry ++ streamOf (fillPage addr p rs).rest := by
  induction rs generalizing p with
  | nil =>
    unfold fillPage
    simp [streamOf, Trailer.bytes, pad8_nil]
  | cons r rs ih =>
    have h24 := totLen_ge r
    have hlen := encRecord_length r
    have hpl := pad8_length (encRecord r)
    rw [hlen] at hpl
    have hA8 := align8_mod r.totLen
    have hAge := align8_ge r.totLen
    unfold fillPage
    by_cases h1 : p + align8 r.totLen ≤ 8192
    · simp only [h1, if_true]
      obtain ⟨i1, i2⟩ := ih (p + align8 r.totLen) h1 (by omega)
      rw [streamOf_cons, streamOf_cons]
      constructor
      · rw [List.take_append, List.take_of_length_le (by omega), hpl, List.append_assoc, List.append_assoc]
        congr 1
        rw [show 8192 - p - align8 r.totLen = 8192 - (p + align8 r.totLen) by omega]
        rw [← i1]
        congr 2
        simp only [List.length_append, hpl]
        omega
      · rw [List.drop_append, List.drop_of_length_le (by omega), hpl, List.nil_append,
          show 8192 - p - align8 r.totLen = 8192 - (p + align8 r.totLen) by omega]
        exact i2
    · simp only [h1, if_false]
      by_cases h2 : p ≥ 8192
      · simp only [h2, if_true]
        have : 8192 - p = 0 := by omega
        simp [this, Trailer.bytes, pad8_nil, streamOf, zeros]
      · simp only [h2, if_false]
        have hn : 8192 - p < r.totLen := by simp only [align8] at h1 hAge; omega
        have hn8 : (8192 - p) % 8 = 0 := by omega
        rw [streamOf_cons]
        constructor
        · rw [List.take_append, hpl, show 8192 - p - align8 r.totLen = 0 by omega, List.take_zero, List.append_nil]
          rw [show (pad8 (encRecord r)).take (8192 - p) = (encRecord r).take (8192 - p) by
            rw [pad8, List.take_append, hlen, show 8192 - p - r.totLen = 0 by omega, List.take_zero, List.append_nil]]
          simp only [List.length_take, hlen, Trailer.bytes, streamOf, List.flatMap_nil, List.nil_append]
          rw [show 8192 - p - min (8192 - p) r.totLen = 0 by omega]
          simp [zeros]
        · rw [List.drop_append, hpl, show 8192 - p - align8 r.totLen = 0 by omega, List.drop_zero]
          congr 1
          rw [pad8, pad8, List.drop_append, hlen, show 8192 - p - r.totLen = 0 by omega, List.drop_zero,
            List.length_drop, hlen]
          congr 2
          simp only [align8] at *
          omega


theorem lsnAt_page (s : WalSegment) (k p o : Nat) (hkp : hdrSize k ≤ p) (hp : p < 8192)
    (ho : o = pageStart k + (p - hdrSize k)) : s.lsnAt o = s.startAddr + 8192 * k + p := by
  unfold WalSegment.lsnAt
  rw [ho, locate_pageStart k (p - hdrSize k) (by omega)]
  simp only []
  omega

theorem lsn_cut_or_straddle (c : Prop) [Decidable c] (l : Nat) (r : WalRecord) :
    (if c then Placed.cut l r else Placed.straddle l r).lsn = l := by
  split <;> rfl

/-- the way a record was placed is the way the stream arithmetic classifies its offset -/
def classOK : Placed → Nat → Bool
  | .whole _ r, o => recordOnOnePage o r.totLen
  | .cut _ r, o => headerOnOnePage o && !recordOnOnePage o r.totLen
  | .straddle _ _, o => !headerOnOnePage o

/-- placed records against stream offsets, one to one: same position, same class -/
def Agree (s : WalSegment) : List Placed → List Nat → Prop
  | [], [] => True
  | p :: ps, o :: os => p.lsn = s.lsnAt o ∧ classOK p o = true ∧ Agree s ps os
  | _, _ => False

theorem Agree_append (s : WalSegment) (a b : List Placed) (x y : List Nat) (h1 : Agree s a x) (h2 : Agree s b y) :
    Agree s (a ++ b) (x ++ y) := by
  induction a generalizing x with
  | nil =>
    cases x with
    | nil => exact h2
    | cons o os => exact absurd h1 (by simp [Agree])
  | cons p ps ih =>
    cases x with
    | nil => exact absurd h1 (by simp [Agree])
    | cons o os => exact ⟨h1.1, h1.2.1, ih os h1.2.2⟩

theorem Agree_lsn (s : WalSegment) (ps : List Placed) (os : List Nat) (h : Agree s ps os) :
    ps.map Placed.lsn = os.map s.lsnAt := by
  induction ps generalizing os with
  | nil =>
    cases os with
    | nil => rfl
    | cons o os => exact absurd h (by simp [Agree])
  | cons p ps ih =>
    cases os with
    | nil => exact absurd h (by simp [Agree])
    | cons o os => simp only [List.map_cons, h.1, ih os h.2.2]

theorem Agree_classes (s : WalSegment) (ps : List Placed) (os : List Nat) (h : Agree s ps os) :
    (ps.zip os).all (fun po => classOK po.1 po.2) = true := by
  induction ps generalizing os with
  | nil => rfl
  | cons p ps ih =>
    cases os with
    | nil => rfl
    | cons o os => simp only [List.zip_cons_cons, List.all_cons, h.2.1, ih os h.2.2, Bool.and_self]

theorem locate_page (k p o : Nat) (hkp : hdrSize k ≤ p) (hp : p < 8192)
    (ho : o = pageStart k + (p - hdrSize k)) : (locate o).2 = p := by
  rw [ho, locate_pageStart k (p - hdrSize k) (by omega)]
  simp only []
  omega

/-- filling page `k` from position `p` (stream offset `o`; `e` = end of what precedes): where the walk over the
records stands afterwards (`e'`, `o'`), what is carried, and the positions of the records placed -/
theorem fillPage_track (s : WalSegment) (k : Nat) (rs : List WalRecord) (p e o : Nat) (hkp : hdrSize k ≤ p)
    (hp : p ≤ 8192) (hp8 : p % 8 = 0) (ho : o = pageStart k + (p - hdrSize k)) (heo : e ≤ o) :
    ∃ e' o', e' ≤ o' ∧
      (∀ b, o + (8192 - p) ≤ b → remAt e o rs b = remAt e' o' (fillPage (s.startAddr + 8192 * k) p rs).rest b) ∧
      (((fillPage (s.startAddr + 8192 * k) p rs).carry ≠ [] ∨ (fillPage (s.startAddr + 8192 * k) p rs).rest ≠ []) →
        e' - (o + (8192 - p)) = (fillPage (s.startAddr + 8192 * k) p rs).carry.length ∧
        o' = o + (8192 - p) + align8 (fillPage (s.startAddr + 8192 * k) p rs).carry.length) ∧
      (∃ os1, offsetsFrom o rs = os1 ++ offsetsFrom o' (fillPage (s.startAddr + 8192 * k) p rs).rest ∧
        Agree s (fillPage (s.startAddr + 8192 * k) p rs).placed os1) := by
  induction rs generalizing p e o with
  | nil =>
    refine ⟨e, o, heo, fun _ _ => rfl, ?_, ⟨[], ?_, ?_⟩⟩
    · unfold fillPage; intro h; rcases h with h | h <;> exact absurd rfl h
    · unfold fillPage; rfl
    · unfold fillPage; trivial
  | cons r rs ih =>
    have h24 := totLen_ge r
    have hlen := encRecord_length r
    have hA8 := align8_mod r.totLen
    have hAge := align8_ge r.totLen
    unfold fillPage
    by_cases h1 : p + align8 r.totLen ≤ 8192
    · simp only [h1, if_true]
      obtain ⟨e', o', heo', q1, q2, os1, q3, q4⟩ := ih (p + align8 r.totLen) (o + r.totLen) (o + align8 r.totLen) (by omega) h1
        (by omega) (by omega) (by omega)
      refine ⟨e', o', heo', ?_, ?_, ⟨o :: os1, ?_, ?_⟩⟩
      · intro b hb
        rw [remAt, if_pos (by omega)]
        exact q1 b (by omega)
      · intro hc
        have := q2 hc
        omega
      · rw [offsetsFrom, q3]; rfl
      · refine ⟨(lsnAt_page s k p o hkp (by omega) ho).symm, ?_, q4⟩
        simp only [classOK, recordOnOnePage, locate_page k p o hkp (by omega) ho, decide_eq_true_eq]
        omega
    · simp only [h1, if_false]
      by_cases h2 : p ≥ 8192
      · simp only [h2, if_true]
        refine ⟨e, o, heo, fun _ _ => rfl, fun _ => ?_, ⟨[], rfl, trivial⟩⟩
        simp [align8]; omega
      · simp only [h2, if_false]
        have hn : 8192 - p < r.totLen := by simp only [align8] at h1 hAge; omega
        have hloc := locate_page k p o hkp (by omega) ho
        refine ⟨o + r.totLen, o + align8 r.totLen, by omega, ?_, fun _ => ?_, ⟨[o], ?_, ?_⟩⟩
        · intro b hb
          rw [remAt, if_pos (by omega)]
        · rw [List.length_drop, hlen]
          simp only [align8] at *
          omega
        · rw [offsetsFrom]; rfl
        · refine ⟨?_, ?_, trivial⟩
          · rw [lsn_cut_or_straddle, lsnAt_page s k p o hkp (by omega) ho]
          · by_cases h3 : 8192 - p ≥ 24
            · rw [if_pos h3]
              simp only [classOK, headerOnOnePage, recordOnOnePage, hloc, Bool.and_eq_true, decide_eq_true_eq,
                Bool.not_eq_true', decide_eq_false_iff_not]
              omega
            · rw [if_neg h3]
              simp only [classOK, headerOnOnePage, hloc, Bool.not_eq_true', decide_eq_false_iff_not]
              omega


/-! ### the whole layout -/

theorem remAt_ge (e o : Nat) (rs : List WalRecord) (b : Nat) (h : b ≤ o) : remAt e o rs b = e - b := by
  cases rs with
  | nil => rfl
  | cons r rs => rw [remAt, if_neg (by omega)]

theorem encPagesFrom_succ (s : WalSegment) (m k : Nat) (rest : Bytes) :
    encPagesFrom s (m + 1) k rest =
      encPageHeader s k ++ rest.take (8192 - hdrSize k) ++ zeros (8192 - hdrSize k - (rest.take (8192 - hdrSize k)).length) ++
        encPagesFrom s m (k + 1) (rest.drop (8192 - hdrSize k)) := by
  rw [encPagesFrom]
  simp only [cap_eq]

theorem stream_ne_nil (c : Bytes) (rs : List WalRecord) (h : c ≠ [] ∨ rs ≠ []) : pad8 c ++ streamOf rs ≠ [] := by
  intro h0
  have hl := congrArg List.length h0
  rw [List.length_append, pad8_length, streamOf_length] at hl
  simp only [List.length_nil] at hl
  rcases h with h | h
  · cases c with
    | nil => exact h rfl
    | cons b t => simp [align8] at hl; omega
  · cases rs with
    | nil => exact h rfl
    | cons r rs =>
      have := totLen_ge r
      simp only [recsLen, List.map_cons, List.sum_cons, align8] at hl
      omega

/-- **The two layouts agree from any page on.**  In the state (page `k`, `carry` still to be written, records
`rs` to come; `e`/`o` = where the walk that computes xlp_rem_len stands): cutting the remaining stream into
pages gives the bytes the page-by-page copy gives, and the copy puts every record at the position the
stream arithmetic gives. -/
theorem layoutPages_enc (s : WalSegment) (n k : Nat) (carry : Bytes) (rs : List WalRecord) (e o : Nat)
    (hG : ∀ b, pageStart k ≤ b → s.remLen b = remAt e o rs b)
    (he : e - pageStart k = carry.length) (ho : o = pageStart k + align8 carry.length) (heo : e ≤ o)
    (hfuel : (align8 carry.length + recsLen rs) / 8 < n) :
    encPagesFrom s (pagesFrom k (align8 carry.length + recsLen rs)) k (pad8 carry ++ streamOf rs) =
        (layoutPages s n k carry rs).bytes ∧
    Agree s (layoutPages s n k carry rs).placed (offsetsFrom o rs) := by
  induction n generalizing k carry rs e o with
  | zero => omega
  | succ n ih =>
    have hk := hdrSize_cases k
    have hA8 := align8_mod carry.length
    have hAge := align8_ge carry.length
    have hb8 := pageStart_mod k
    have hpl := pad8_length carry
    have hsl := streamOf_length rs
    have hhdr : encPageHeader s k = pageHeader s k carry.length := by
      unfold encPageHeader
      rw [hG _ (Nat.le_refl _), remAt_ge _ _ _ _ (by omega), he]
    unfold layoutPages
    simp only []
    by_cases hcap : align8 carry.length > 8192 - hdrSize k
    · rw [if_pos hcap]
      simp only []
      have hL : 8192 - hdrSize k < carry.length := by simp only [align8] at hcap hAge; omega
      rw [pagesFrom_step k _ (by omega), Nat.add_comm 1, encPagesFrom_succ, hhdr]
      have htake : (pad8 carry ++ streamOf rs).take (8192 - hdrSize k) = carry.take (8192 - hdrSize k) := by
        rw [pad8, List.append_assoc, List.take_append_of_le_length (by omega)]
      have hdrop : (pad8 carry ++ streamOf rs).drop (8192 - hdrSize k) = pad8 (carry.drop (8192 - hdrSize k)) ++ streamOf rs := by
        have hpd : pad8 (carry.drop (8192 - hdrSize k)) =
            carry.drop (8192 - hdrSize k) ++ zeros (align8 carry.length - carry.length) := by
          rw [pad8, List.length_drop, align8_sub _ _ (by omega) (by omega)]
          congr 2
          omega
        rw [hpd, pad8, List.append_assoc, List.drop_append_of_le_length (by omega), List.append_assoc]
      have hdl : align8 (carry.drop (8192 - hdrSize k)).length = align8 carry.length - (8192 - hdrSize k) := by
        rw [List.length_drop, align8_sub _ _ (by omega) (by omega)]
      obtain ⟨i1, i2⟩ := ih (k + 1) (carry.drop (8192 - hdrSize k)) rs e o
        (fun b hb => hG b (by rw [pageStart_succ] at hb; omega))
        (by rw [pageStart_succ, List.length_drop]; omega)
        (by rw [pageStart_succ, hdl]; omega) heo
        (by rw [hdl]; omega)
      rw [htake, hdrop, List.length_take, show 8192 - hdrSize k - min (8192 - hdrSize k) carry.length = 0 by omega]
      rw [hdl] at i1
      rw [show align8 carry.length + recsLen rs - (8192 - hdrSize k) = align8 carry.length - (8192 - hdrSize k) + recsLen rs by omega,
        i1]
      exact ⟨by simp [zeros], i2⟩
    · rw [if_neg hcap]
      have hp : hdrSize k + align8 carry.length ≤ 8192 := by omega
      have hp8 : (hdrSize k + align8 carry.length) % 8 = 0 := by omega
      obtain ⟨T, D⟩ := fillPage_stream (s.startAddr + 8192 * k) rs (hdrSize k + align8 carry.length) hp hp8
      obtain ⟨e', o', heo', q1, q2, os1, q3, q4⟩ := fillPage_track s k rs (hdrSize k + align8 carry.length) e o (by omega) hp hp8
        (by omega) heo
      have hcf := PgVerif.Proofs.Wal.fillPage_carry_fuel (s.startAddr + 8192 * k) rs (hdrSize k + align8 carry.length) hp hp8
      generalize fillPage (s.startAddr + 8192 * k) (hdrSize k + align8 carry.length) rs = fp at T D q1 q2 q3 q4 hcf ⊢
      have h8 : 8192 - (hdrSize k + align8 carry.length) = 8192 - hdrSize k - align8 carry.length := by omega
      rw [h8] at T D
      have htake : (pad8 carry ++ streamOf rs).take (8192 - hdrSize k) =
          pad8 carry ++ (streamOf rs).take (8192 - hdrSize k - align8 carry.length) := by
        rw [List.take_append, hpl, List.take_of_length_le (by omega)]
      have hdrop : (pad8 carry ++ streamOf rs).drop (8192 - hdrSize k) = pad8 fp.carry ++ streamOf fp.rest := by
        rw [List.drop_append, hpl, List.drop_of_length_le (by omega), List.nil_append, D]
      have hpage : pageHeader s k carry.length ++ (pad8 carry ++ streamOf rs).take (8192 - hdrSize k) ++
          zeros (8192 - hdrSize k - ((pad8 carry ++ streamOf rs).take (8192 - hdrSize k)).length) =
          pageHeader s k carry.length ++ pad8 carry ++ (streamOf fp.whole ++ fp.trailer.bytes) := by
        rw [htake, ← T, List.length_append, hpl]
        simp only [List.append_assoc]
        congr 4
        omega
      by_cases hfin : (fp.carry.isEmpty && fp.rest.isEmpty) = true
      · rw [if_pos hfin]
        simp only [Bool.and_eq_true, List.isEmpty_iff] at hfin
        have hshort : align8 carry.length + recsLen rs ≤ 8192 - hdrSize k := by
          have := congrArg List.length hdrop
          rw [hfin.1, hfin.2, List.length_drop, List.length_append, hpl, hsl] at this
          simp [pad8_nil, streamOf] at this
          omega
        rw [pagesFrom_one k _ hshort, encPagesFrom_succ, hhdr, hpage]
        constructor
        · simp only [encPagesFrom, List.append_nil]; rfl
        · rw [hfin.2] at q3
          rw [q3]
          simpa [offsetsFrom] using q4
      · rw [if_neg hfin]
        simp only []
        have hne : fp.carry ≠ [] ∨ fp.rest ≠ [] := by
          simp only [Bool.and_eq_true, List.isEmpty_iff] at hfin
          by_cases hc0 : fp.carry = []
          · exact .inr (fun hr => hfin ⟨hc0, hr⟩)
          · exact .inl hc0
        obtain ⟨q2a, q2b⟩ := q2 hne
        have hfu := hcf hne
        rw [h8] at hfu
        have hlong : 8192 - hdrSize k < align8 carry.length + recsLen rs := by
          have h0 := stream_ne_nil fp.carry fp.rest hne
          rw [← hdrop] at h0
          have : ¬ (pad8 carry ++ streamOf rs).length ≤ 8192 - hdrSize k := fun hle => h0 (List.drop_of_length_le hle)
          rw [List.length_append, hpl, hsl] at this
          omega
        have hps : pageStart (k + 1) = o + (8192 - (hdrSize k + align8 carry.length)) := by
          rw [pageStart_succ]; omega
        obtain ⟨i1, i2⟩ := ih (k + 1) fp.carry fp.rest e' o'
          (fun b hb => by rw [hG b (by rw [pageStart_succ] at hb; omega)]; exact q1 b (by omega))
          (by rw [hps]; exact q2a) (by rw [hps]; exact q2b) heo' (by omega)
        rw [pagesFrom_step k _ hlong, Nat.add_comm 1, encPagesFrom_succ, hhdr, hpage, hdrop]
        rw [show align8 carry.length + recsLen rs - (8192 - hdrSize k) = align8 fp.carry.length + recsLen fp.rest by omega, i1]
        constructor
        · rfl
        · rw [q3]
          exact Agree_append s _ _ _ _ q4 i2


/-! ### segments -/

theorem layout_agrees (s : WalSegment) :
    encPagesFrom s s.usedPages 0 s.stream = s.layout.bytes ∧
    Agree s s.layout.placed s.offsets := by
  have h := layoutPages_enc s (s.streamLen / 8 + 1) 0 s.pre s.records s.pre.length (align8 s.pre.length)
    (fun b _ => remLen_eq s b) rfl (by simp [pageStart]) (align8_ge _)
    (by have : s.streamLen = align8 s.pre.length + recsLen s.records := rfl
        omega)
  rw [pagesFrom_zero] at h
  exact h

/-- the two encoders of a segment produce the same file -/
theorem encSegment_eq (s : WalSegment) : encSegment s = encSegmentOp s := by
  unfold encSegment encSegmentOp
  rw [(layout_agrees s).1]

theorem encPagesFrom_length (s : WalSegment) (m k : Nat) (rest : Bytes) : (encPagesFrom s m k rest).length = 8192 * m := by
  induction m generalizing k rest with
  | zero => rfl
  | succ m ih =>
    have hk := hdrSize_cases k
    rw [encPagesFrom_succ]
    simp only [List.length_append, ih, encPageHeader, hdr_length, List.length_take, zeros_length]
    omega

theorem layout_length (s : WalSegment) : s.layout.bytes.length = 8192 * s.usedPages := by
  rw [← (layout_agrees s).1, encPagesFrom_length]

theorem views_zip (ps : List Placed) (rs : List WalRecord) (os : List Nat) (f : Nat → Nat)
    (h1 : ps.map Placed.record = rs) (h2 : ps.map Placed.lsn = os.map f) :
    ps.map Placed.view = (rs.zip os).map fun ro => recView (f ro.2) ro.1 := by
  induction ps generalizing rs os with
  | nil => subst h1; rfl
  | cons p ps ih =>
    cases rs with
    | nil => simp at h1
    | cons r rs =>
      cases os with
      | nil => simp at h2
      | cons o os =>
        simp only [List.map_cons, List.cons.injEq] at h1 h2
        simp only [List.map_cons, List.zip_cons_cons, ih rs os h1.2 h2.2, Placed.view, h1.1, h2.1]

/-- what the operational layout placed is the segment's view: every record, in order, at the position the
XLogBytePosToRecPtr arithmetic gives -/
theorem layout_view (s : WalSegment) : s.layout.placed.map Placed.view = s.view := by
  unfold WalSegment.view
  exact views_zip _ _ _ _ (PgVerif.Proofs.Wal.layout_complete s) (Agree_lsn s _ _ (layout_agrees s).2)


end PgVerif.Proofs.WalEnc
