/-
  Helper lemmas for C19 (blockrange.go): ReadBlockRange in closed form, the block loops
  (DumpBlockRange, DumpBinaryRange) as maps over the blocks, ParseBlockInfo on an encoded block.
-/
import PgVerif.Proofs.Block
namespace PgVerif.Proofs.Block
open PgVerif PgVerif.Model
open PgVerif.Spec.BlockAddr

theorem wrap64_id (v : Int) (h0 : 0 ≤ v) (h1 : v < 2 ^ 63) : wrap64 v = v := by
  unfold wrap64 ofSigned toSigned
  simp only [Nat.reducePow, Nat.reduceSub] at *
  omega

/-- the model's view of a request: the `BlockRange` pointer -/
def toRange : Option (Int × Int) → Option BlockRange
  | none => none
  | some (a, b) => some ⟨a, b⟩

def rejectErr : Reject → Err
  | .beyond => .beyond
  | .invalid => .invalidRange

/-- the part of ReadBlockRange after `start` and `end` have been defaulted -/
def readCore (f : Bytes) (start end0 : Int) : M (R Bytes) :=
  let totalBlocks : Int := ((f.length / 8192 : Nat) : Int)
  if start ≥ totalBlocks then pure (.error .beyond)
  else
    let end1 := if end0 ≥ totalBlocks then totalBlocks - 1 else end0
    if start > end1 then pure (.error .invalidRange)
    else
      let startOffset := wrap64 (start * 8192)
      let bytesToRead := wrap64 ((end1 - start + 1) * 8192)
      if bytesToRead < 0 then throw .makeLen
      else pure (fileReadFullAt f startOffset bytesToRead.toNat)

theorem readBlockRange_core (f : Bytes) (r : Option BlockRange) :
    readBlockRange (some f) r = readCore f (rangeStart r) (rangeEnd r ((f.length / 8192 : Nat) : Int)) := rfl

/-- the part of `resolve` after the defaults -/
def clampStop (total : Nat) : Option Nat → Nat
  | some e => min e (total - 1)
  | none => total - 1

def resolveCore (total a : Nat) (b? : Option Nat) : Except Reject (Nat × Nat) :=
  if a ≥ total then .error .beyond
  else if a > clampStop total b? then .error .invalid else .ok (a, clampStop total b?)

def reqStart : Option (Int × Int) → Nat
  | some (s, _) => if s < 0 then 0 else s.toNat
  | none => 0

def reqStop : Option (Int × Int) → Option Nat
  | some (_, e) => if e < 0 then none else some e.toNat
  | none => none

theorem resolve_core (r : Option (Int × Int)) (total : Nat) : resolve r total = resolveCore total (reqStart r) (reqStop r) := by
  cases r with
  | none => rfl
  | some p =>
    obtain ⟨s, e⟩ := p
    unfold resolve resolveCore
    simp only [reqStart, reqStop]
    by_cases h : e < 0
    · simp only [h, if_true, clampStop]
    · simp only [h, if_false, clampStop]

def readResult (f : Bytes) : Except Reject (Nat × Nat) → R Bytes
  | .error e => .error (rejectErr e)
  | .ok (a, b) => .ok ((f.drop (a * 8192)).take ((b - a + 1) * 8192))

theorem readCore_eq (f : Bytes) (hlen : f.length < 2 ^ 62) (a : Nat) (b? : Option Nat) (start end0 : Int)
    (hs : start = (a : Int))
    (he : (∃ e, b? = some e ∧ end0 = (e : Int)) ∨ (b? = none ∧ end0 = ((f.length / 8192 : Nat) : Int) - 1)) :
    readCore f start end0 = .ok (readResult f (resolveCore (f.length / 8192) a b?)) := by
  have hl : f.length < 4611686018427387904 := by simpa using hlen
  subst hs
  unfold readCore resolveCore
  by_cases h0 : a ≥ f.length / 8192
  · have : (a : Int) ≥ ((f.length / 8192 : Nat) : Int) := by omega
    simp only [this, h0, if_true, readResult, rejectErr, pure_eq_ok]
  · have h1 : ¬ ((a : Int) ≥ ((f.length / 8192 : Nat) : Int)) := by omega
    simp only [h0, h1, if_false]
    -- the clamped stop, on both sides
    have key : ∃ b : Nat, clampStop (f.length / 8192) b? = b ∧
        (if end0 ≥ ((f.length / 8192 : Nat) : Int) then ((f.length / 8192 : Nat) : Int) - 1 else end0) = (b : Int) ∧
        b < f.length / 8192 := by
      rcases he with ⟨e, rfl, rfl⟩ | ⟨rfl, rfl⟩
      · refine ⟨min e (f.length / 8192 - 1), rfl, ?_, by omega⟩
        show (if (e : Int) ≥ _ then _ else _) = _
        by_cases hc : (e : Int) ≥ ((f.length / 8192 : Nat) : Int)
        · rw [if_pos hc]; omega
        · rw [if_neg hc]; omega
      · refine ⟨f.length / 8192 - 1, rfl, ?_, by omega⟩
        rw [if_neg (by omega)]; omega
    obtain ⟨b, hb1, hb2, hb3⟩ := key
    simp only [hb1, hb2]
    by_cases h2 : a > b
    · have : (a : Int) > (b : Int) := by omega
      simp only [this, h2, if_true, readResult, rejectErr, pure_eq_ok]
    · have h3 : ¬ ((a : Int) > (b : Int)) := by omega
      simp only [h2, h3, if_false]
      rw [wrap64_id _ (by omega) (by omega), wrap64_id _ (by omega) (by omega)]
      have h6 : ¬ (((b : Int) - (a : Int) + 1) * 8192 < 0) := by omega
      simp only [h6, if_false, pure_eq_ok, readResult]
      unfold fileReadFullAt
      have h7 : ¬ ((a : Int) * 8192 < 0) := by omega
      have h8 : ¬ ((((b : Int) - (a : Int) + 1) * 8192).toNat = 0) := by omega
      have h9 : ¬ (((a : Int) * 8192).toNat + (((b : Int) - (a : Int) + 1) * 8192).toNat > f.length) := by omega
      simp only [h7, h8, h9, if_false]
      have e1 : ((a : Int) * 8192).toNat = a * 8192 := by omega
      have e2 : (((b : Int) - (a : Int) + 1) * 8192).toNat = (b - a + 1) * 8192 := by omega
      rw [e1, e2]

/-- ReadBlockRange on ANY byte string (no well-formedness): the documented resolution of the request
against `len / 8192` blocks, then exactly the bytes [8192·a, 8192·(b+1)). -/
theorem readBlockRange_bytes (f : Bytes) (hlen : f.length < 2 ^ 62) (r : Option (Int × Int)) :
    readBlockRange (some f) (toRange r) = .ok (readResult f (resolve r (f.length / 8192))) := by
  rw [readBlockRange_core, resolve_core]
  apply readCore_eq f hlen
  · cases r with
    | none => rfl
    | some p =>
      obtain ⟨s, e⟩ := p
      simp only [toRange, rangeStart, reqStart]
      by_cases h : s < 0
      · have h' : ¬ (s ≥ 0) := by omega
        simp only [h, h', if_true, if_false]; rfl
      · have h' : s ≥ 0 := by omega
        simp only [h, h', if_true, if_false]; omega
  · cases r with
    | none => right; exact ⟨rfl, rfl⟩
    | some p =>
      obtain ⟨s, e⟩ := p
      simp only [toRange, rangeEnd, reqStop]
      by_cases h : e < 0
      · right
        have h' : ¬ (e ≥ 0) := by omega
        simp only [h, h', if_true, if_false, and_self]
      · left
        have h' : e ≥ 0 := by omega
        simp only [h, h', if_true, if_false]
        exact ⟨e.toNat, rfl, by omega⟩

/-- ReadBlockRange on an encoded relation file: exactly the requested blocks (C19_read) -/
theorem resolve_ok_bounds (r : Option (Int × Int)) (total a b : Nat) (h : resolve r total = .ok (a, b)) :
    a ≤ b ∧ b < total := by
  rw [resolve_core] at h
  unfold resolveCore at h
  split at h
  · cases h
  · split at h
    · cases h
    · injection h with h; injection h with h1 h2
      subst h1
      have : clampStop total (reqStop r) < total := by
        cases reqStop r <;> simp only [clampStop] <;> omega
      omega

def selectResult : Except Reject (Nat × List RawBlock) → R Bytes
  | .error e => .error (rejectErr e)
  | .ok (_, bs) => .ok (bs.flatMap encBlock)

theorem readBlockRange_enc (f : RelFile) (hwf : f.WF) (hlen : (encFile f).length < 2 ^ 62) (r : Option (Int × Int)) :
    readBlockRange (some (encFile f)) (toRange r) = .ok (selectResult (selectBlocks f r)) := by
  rw [readBlockRange_bytes _ hlen, encFile_blocks f hwf]
  unfold selectBlocks
  cases hr : resolve r f.blocks.length with
  | error e => rfl
  | ok p =>
    obtain ⟨a, b⟩ := p
    obtain ⟨hab, hb⟩ := resolve_ok_bounds r _ a b hr
    simp only [readResult, selectResult]
    congr 2
    unfold encFile
    rw [drop_blocks f.blocks hwf.1 f.tail a (by omega)]
    rw [take_blocks (f.blocks.drop a) (fun x hx => hwf.1 x (List.mem_of_mem_drop hx)) f.tail (b - a + 1)
      (by simp only [List.length_drop]; omega)]

/-! ### ParseBlockInfo on an encoded block -/

theorem and_ff00 (x : Nat) : x &&& 0xFF00 = x / 256 % 256 * 256 := by
  apply Nat.eq_of_testBit_eq
  intro i
  have e1 : (0xFF00 : Nat) = (2 ^ 8 - 1) <<< 8 := by decide
  have e2 : x / 256 % 256 * 256 = ((x >>> 8) % 2 ^ 8) <<< 8 := by
    rw [Nat.shiftLeft_eq, Nat.shiftRight_eq_div_pow]
  rw [e2, Nat.testBit_and, e1, Nat.testBit_shiftLeft, Nat.testBit_shiftLeft, Nat.testBit_two_pow_sub_one,
    Nat.testBit_mod_two_pow, Nat.testBit_shiftRight]
  by_cases h : i ≥ 8
  · have : 8 + (i - 8) = i := by omega
    simp [h, this, Bool.and_comm]
  · simp [h]

theorem and_00ff (x : Nat) : x &&& 0x00FF = x % 256 := by
  have := land_mask x 8; simpa using this

/-- the early-exit zero loop is `allZero` of the prefix -/
theorem zeroPrefix_eq (n : Nat) (bs : Bytes) : zeroPrefix n bs = allZero (bs.take n) := by
  induction n generalizing bs with
  | zero => simp [zeroPrefix, allZero]
  | succ n ih =>
    cases bs with
    | nil => simp [zeroPrefix, allZero]
    | cons b bs =>
      simp only [zeroPrefix, List.take_succ_cons, allZero, List.all_cons]
      by_cases hb : b = 0
      · subst hb; simpa [allZero] using ih bs
      · simp [hb]

theorem allZero_le (n v : Nat) (h : v < 256 ^ n) : allZero (le n v) = decide (v = 0) := by
  induction n generalizing v with
  | zero => simp [le, allZero] at *; omega
  | succ n ih =>
    simp only [le, allZero, List.all_cons]
    have ih' := ih (v / 256) (by rw [Nat.pow_succ] at h; omega)
    simp only [allZero] at ih'
    rw [ih']
    have hb : (UInt8.ofNat (v % 256) == 0) = decide (v % 256 = 0) := by
      by_cases hz : v % 256 = 0
      · simp [hz]
      · have : UInt8.ofNat (v % 256) ≠ 0 := by
          intro hc
          have := congrArg UInt8.toNat hc
          simp [UInt8.toNat_ofNat'] at this
          omega
        simp [hz, this]
    rw [hb]
    by_cases h1 : v = 0
    · subst h1; simp
    · have : ¬ (v % 256 = 0 ∧ v / 256 = 0) := by omega
      simp only [h1, decide_false]
      by_cases h2 : v % 256 = 0
      · have : v / 256 ≠ 0 := by omega
        simp [h2, this]
      · simp [h2]

theorem allZero_append (a b : Bytes) : allZero (a ++ b) = (allZero a && allZero b) := by
  simp [allZero, List.all_append]

/-- an encoded block is all zeros exactly when the abstract block is the zero block -/
theorem allZero_encBlock (b : RawBlock) (h : b.WF) : allZero (encBlock b) = b.isZero := by
  obtain ⟨⟨h1, h2, h3, h4, h5, h6, h7, h8, h9⟩, _⟩ := h
  unfold encBlock encHdr RawBlock.isZero
  simp only [allZero_append]
  rw [allZero_le 4 _ (by omega), allZero_le 4 _ (by omega), allZero_le 2 _ (by omega), allZero_le 2 _ (by omega),
    allZero_le 2 _ (by omega), allZero_le 2 _ (by omega), allZero_le 2 _ (by omega), allZero_le 2 _ (by omega),
    allZero_le 4 _ (by omega)]
  have hz : (b.hdr == zeroHdr) = decide (b.hdr = zeroHdr) := rfl
  rw [hz]
  cases hh : b.hdr with
  | mk a1 a2 a3 a4 a5 a6 a7 a8 a9 =>
    simp only [zeroHdr, PageHdr.mk.injEq, allZero]
    by_cases e1 : a1 = 0 <;> by_cases e2 : a2 = 0 <;> by_cases e3 : a3 = 0 <;> by_cases e4 : a4 = 0 <;>
      by_cases e5 : a5 = 0 <;> by_cases e6 : a6 = 0 <;> by_cases e7 : a7 = 0 <;> by_cases e8 : a8 = 0 <;>
      by_cases e9 : a9 = 0 <;> simp [e1, e2, e3, e4, e5, e6, e7, e8, e9]

/-- the model's record for a spec view (`LSN` rendered by FormatLSN, empty for a zero block) -/
def infoOfView (v : InfoView) : BlockInfo :=
  ⟨v.number, if v.isEmpty then "" else formatLSN v.lsn, v.checksum, v.flags, v.lower, v.upper, v.special,
   v.pageSize, v.version, v.itemCount, v.freeSpace, v.isEmpty⟩

theorem rd_field (n v k : Nat) (pre rest : Bytes) (hk : pre.length = k) (hv : v < 256 ^ n) :
    rd n ((pre ++ (le n v ++ rest)).drop k) = v := by
  subst hk; rw [List.drop_left]; exact rd_le n v rest hv

/-- ParseBlockInfo on an encoded block reports the stored header fields (C19_info, per block) -/
theorem parseBlockInfo_enc (b : RawBlock) (hwf : b.WF) (num : Nat) :
    parseBlockInfo (encBlock b) num = .ok (some (infoOfView (infoView num b))) := by
  have hlen := encBlock_length b hwf
  have hz := allZero_encBlock b hwf
  obtain ⟨⟨h1, h2, h3, h4, h5, h6, h7, h8, h9⟩, hbody⟩ := hwf
  unfold parseBlockInfo
  rw [if_neg (by omega)]
  have hzp : zeroPrefix 8192 (encBlock b) = b.isZero := by
    rw [zeroPrefix_eq, ← hlen, List.take_length, hz]
  by_cases hzero : b.isZero = true
  · simp only [hzp, hzero, if_true, infoView, infoOfView, pure_eq_ok]
  · have hzf : b.isZero = false := by simpa using hzero
    simp only [hzp, hzf, Bool.false_eq_true, if_false, pageLSN]
    have r0 : rd 4 ((encBlock b).drop 0) = b.hdr.xlogid := by
      have := rd_field 4 b.hdr.xlogid 0 [] (le 4 b.hdr.xrecoff ++ (le 2 b.hdr.checksum ++ (le 2 b.hdr.flags ++
        (le 2 b.hdr.lower ++ (le 2 b.hdr.upper ++ (le 2 b.hdr.special ++ (le 2 b.hdr.psv ++ (le 4 b.hdr.prune ++ b.body))))))))
        rfl (by omega)
      simpa [encBlock, encHdr, List.append_assoc] using this
    have r4 : rd 4 ((encBlock b).drop 4) = b.hdr.xrecoff := by
      have := rd_field 4 b.hdr.xrecoff 4 (le 4 b.hdr.xlogid) (le 2 b.hdr.checksum ++ (le 2 b.hdr.flags ++
        (le 2 b.hdr.lower ++ (le 2 b.hdr.upper ++ (le 2 b.hdr.special ++ (le 2 b.hdr.psv ++ (le 4 b.hdr.prune ++ b.body)))))))
        (by simp) (by omega)
      simpa [encBlock, encHdr, List.append_assoc] using this
    have r8 : rd 2 ((encBlock b).drop 8) = b.hdr.checksum := by
      have := rd_field 2 b.hdr.checksum 8 (le 4 b.hdr.xlogid ++ le 4 b.hdr.xrecoff) (le 2 b.hdr.flags ++
        (le 2 b.hdr.lower ++ (le 2 b.hdr.upper ++ (le 2 b.hdr.special ++ (le 2 b.hdr.psv ++ (le 4 b.hdr.prune ++ b.body))))))
        (by simp) (by omega)
      simpa [encBlock, encHdr, List.append_assoc] using this
    have r10 : rd 2 ((encBlock b).drop 10) = b.hdr.flags := by
      have := rd_field 2 b.hdr.flags 10 (le 4 b.hdr.xlogid ++ le 4 b.hdr.xrecoff ++ le 2 b.hdr.checksum)
        (le 2 b.hdr.lower ++ (le 2 b.hdr.upper ++ (le 2 b.hdr.special ++ (le 2 b.hdr.psv ++ (le 4 b.hdr.prune ++ b.body)))))
        (by simp) (by omega)
      simpa [encBlock, encHdr, List.append_assoc] using this
    have r12 : rd 2 ((encBlock b).drop 12) = b.hdr.lower := by
      have := rd_field 2 b.hdr.lower 12 (le 4 b.hdr.xlogid ++ le 4 b.hdr.xrecoff ++ le 2 b.hdr.checksum ++ le 2 b.hdr.flags)
        (le 2 b.hdr.upper ++ (le 2 b.hdr.special ++ (le 2 b.hdr.psv ++ (le 4 b.hdr.prune ++ b.body))))
        (by simp) (by omega)
      simpa [encBlock, encHdr, List.append_assoc] using this
    have r14 : rd 2 ((encBlock b).drop 14) = b.hdr.upper := by
      have := rd_field 2 b.hdr.upper 14 (le 4 b.hdr.xlogid ++ le 4 b.hdr.xrecoff ++ le 2 b.hdr.checksum ++ le 2 b.hdr.flags ++
        le 2 b.hdr.lower) (le 2 b.hdr.special ++ (le 2 b.hdr.psv ++ (le 4 b.hdr.prune ++ b.body)))
        (by simp) (by omega)
      simpa [encBlock, encHdr, List.append_assoc] using this
    have r16 : rd 2 ((encBlock b).drop 16) = b.hdr.special := by
      have := rd_field 2 b.hdr.special 16 (le 4 b.hdr.xlogid ++ le 4 b.hdr.xrecoff ++ le 2 b.hdr.checksum ++ le 2 b.hdr.flags ++
        le 2 b.hdr.lower ++ le 2 b.hdr.upper) (le 2 b.hdr.psv ++ (le 4 b.hdr.prune ++ b.body))
        (by simp) (by omega)
      simpa [encBlock, encHdr, List.append_assoc] using this
    have r18 : rd 2 ((encBlock b).drop 18) = b.hdr.psv := by
      have := rd_field 2 b.hdr.psv 18 (le 4 b.hdr.xlogid ++ le 4 b.hdr.xrecoff ++ le 2 b.hdr.checksum ++ le 2 b.hdr.flags ++
        le 2 b.hdr.lower ++ le 2 b.hdr.upper ++ le 2 b.hdr.special) (le 4 b.hdr.prune ++ b.body)
        (by simp) (by omega)
      simpa [encBlock, encHdr, List.append_assoc] using this
    simp (disch := omega) only [uNf_ok, ok_bind, pure_eq_ok, r0, r4, r8, r10, r12, r14, r16, r18]
    simp only [infoView, hzf, Bool.false_eq_true, if_false, infoOfView, and_ff00, and_00ff]
    have e1 : b.hdr.psv / 256 % 256 = b.hdr.psv / 256 := Nat.mod_eq_of_lt (by omega)
    have e2 : (if b.hdr.lower ≥ 24 then (b.hdr.lower - 24) / 4 else 0) = (b.hdr.lower - 24) / 4 := by
      split <;> omega
    have e3 : (if b.hdr.upper > b.hdr.lower then b.hdr.upper - b.hdr.lower else 0) = b.hdr.upper - b.hdr.lower := by
      split <;> omega
    rw [e1, e2, e3]

/-! ### the block loops as maps over the blocks -/

theorem takeM_block (b : RawBlock) (hb : b.WF) (rest : Bytes) :
    takeM (encBlock b ++ rest) 8192 = .ok (encBlock b) ∧ (encBlock b ++ rest).drop 8192 = rest := by
  have hl := encBlock_length b hb
  constructor
  · rw [takeM_ok _ _ (by simp [hl]), ← hl, List.take_left]
  · rw [← hl, List.drop_left]

theorem dumpBlocksLoop_enc (start : Int) (bs : List RawBlock) (hwf : ∀ b ∈ bs, b.WF) (tail : Bytes) (i : Nat) :
    dumpBlocksLoop start bs.length i (bs.flatMap encBlock ++ tail) =
      .ok ((numbered i bs).map fun p => infoOfView (infoView (ofSigned 32 (start + (p.1 : Int))) p.2)) := by
  induction bs generalizing i with
  | nil => rfl
  | cons b bs ih =>
    have hb := hwf b (by simp)
    obtain ⟨t1, t2⟩ := takeM_block b hb (bs.flatMap encBlock ++ tail)
    simp only [List.length_cons, dumpBlocksLoop, List.flatMap_cons, List.append_assoc, t1, t2, ok_bind,
      parseBlockInfo_enc b hb, ih (fun x hx => hwf x (by simp [hx])) (i + 1), pure_eq_ok, numbered, List.map_cons]

theorem dumpBinaryLoop_enc {α} (hexDump : Bytes → α) (start : Int) (bs : List RawBlock) (hwf : ∀ b ∈ bs, b.WF)
    (tail : Bytes) (i : Nat) :
    dumpBinaryLoop hexDump start bs.length i (bs.flatMap encBlock ++ tail) =
      .ok ((numbered i bs).map fun p =>
        ⟨ofSigned 32 (start + (p.1 : Int)), wrap64 ((start + (p.1 : Int)) * 8192), hexDump (encBlock p.2), 8192⟩) := by
  induction bs generalizing i with
  | nil => rfl
  | cons b bs ih =>
    have hb := hwf b (by simp)
    obtain ⟨t1, t2⟩ := takeM_block b hb (bs.flatMap encBlock ++ tail)
    simp only [List.length_cons, dumpBinaryLoop, List.flatMap_cons, List.append_assoc, t1, t2, ok_bind,
      ih (fun x hx => hwf x (by simp [hx])) (i + 1), pure_eq_ok, numbered, List.map_cons]

theorem numbered_map {α β} (f : Nat × α → β) (g : Nat × α → β) (first i : Nat) (bs : List α)
    (h : ∀ k b, k < bs.length → f (i + k, b) = g (first + k, b)) :
    (numbered i bs).map f = (numbered first bs).map g := by
  induction bs generalizing i first with
  | nil => rfl
  | cons b bs ih =>
    simp only [numbered, List.map_cons]
    rw [show f (i, b) = g (first, b) from by simpa using h 0 b (by simp)]
    congr 1
    apply ih
    intro k c hk
    have := h (k + 1) c (by simp; omega)
    rw [show i + 1 + k = i + (k + 1) by omega, show first + 1 + k = first + (k + 1) by omega]
    exact this

theorem ofSigned32_small (v : Nat) (h : v < 2 ^ 32) : ofSigned 32 (v : Int) = v := by
  unfold ofSigned
  simp only [Nat.reducePow] at *
  omega

theorem rangeStart_toRange (r : Option (Int × Int)) : rangeStart (toRange r) = (reqStart r : Int) := by
  cases r with
  | none => rfl
  | some p =>
    obtain ⟨s, e⟩ := p
    simp only [toRange, rangeStart, reqStart]
    by_cases h : s < 0
    · have h' : ¬ (s ≥ 0) := by omega
      simp only [h, h', if_true, if_false]; rfl
    · have h' : s ≥ 0 := by omega
      simp only [h, h', if_true, if_false]; omega

theorem resolve_ok_start (r : Option (Int × Int)) (total a b : Nat) (h : resolve r total = .ok (a, b)) :
    a = reqStart r := by
  rw [resolve_core] at h
  unfold resolveCore at h
  split at h
  · cases h
  · split at h
    · cases h
    · injection h with h; injection h with h1 h2; exact h1.symm

theorem selectBlocks_ok (f : RelFile) (r : Option (Int × Int)) (first : Nat) (bs : List RawBlock)
    (h : selectBlocks f r = .ok (first, bs)) :
    first = reqStart r ∧ first + bs.length ≤ f.blocks.length ∧ (∀ b ∈ bs, b ∈ f.blocks) ∧ 0 < bs.length := by
  unfold selectBlocks at h
  cases hr : resolve r f.blocks.length with
  | error e => rw [hr] at h; cases h
  | ok p =>
    obtain ⟨a, b⟩ := p
    rw [hr] at h
    injection h with h; injection h with h1 h2
    obtain ⟨hab, hb⟩ := resolve_ok_bounds r _ a b hr
    subst h1 h2
    refine ⟨resolve_ok_start r _ _ b hr, ?_, ?_, ?_⟩
    · simp only [List.length_take, List.length_drop]; omega
    · intro x hx; exact List.mem_of_mem_drop (List.mem_of_mem_take hx)
    · simp only [List.length_take, List.length_drop]; omega

theorem encFile_small (f : RelFile) (hwf : f.WF) (hn : f.blocks.length ≤ 2 ^ 32) : (encFile f).length < 2 ^ 62 := by
  rw [encFile_length f hwf]
  have := hwf.2
  simp only [Nat.reducePow] at *
  omega

/-- DumpBlockRange on an encoded file: the selected blocks, numbered from the first one -/
theorem dumpBlockRange_enc (f : RelFile) (hwf : f.WF) (hn : f.blocks.length ≤ 2 ^ 32) (r : Option (Int × Int)) :
    dumpBlockRange (some (encFile f)) (toRange r) = .ok (
      match selectBlocks f r with
      | .error e => .error (rejectErr e)
      | .ok (first, bs) => .ok ((infoViews first bs).map infoOfView)) := by
  unfold dumpBlockRange
  rw [readBlockRange_enc f hwf (encFile_small f hwf hn) r]
  cases hs : selectBlocks f r with
  | error e => rfl
  | ok p =>
    obtain ⟨first, bs⟩ := p
    obtain ⟨h1, h2, h3, _⟩ := selectBlocks_ok f r first bs hs
    have hbs : ∀ b ∈ bs, b.WF := fun b hb => hwf.1 b (h3 b hb)
    simp only [selectResult, ok_bind]
    unfold dumpBlocks
    rw [flatMap_encBlock_length bs hbs, Nat.mul_div_cancel_left _ (by decide : 0 < 8192)]
    have := dumpBlocksLoop_enc (rangeStart (toRange r)) bs hbs [] 0
    rw [List.append_nil] at this
    rw [this, rangeStart_toRange, ← h1]
    simp only [ok_bind, pure_eq_ok, infoViews, List.map_map]
    refine congrArg Except.ok (congrArg Except.ok ?_)
    apply numbered_map
    intro k b hk
    simp only [Function.comp]
    rw [show ((first : Int) + ((0 + k : Nat) : Int)) = ((first + k : Nat) : Int) by omega,
      ofSigned32_small _ (by simp only [Nat.reducePow] at *; omega)]

/-- DumpBinaryRange on an encoded file -/
theorem dumpBinaryRange_enc {α} (hexDump : Bytes → α) (f : RelFile) (hwf : f.WF) (hn : f.blocks.length ≤ 2 ^ 32)
    (r : Option (Int × Int)) :
    dumpBinaryRange hexDump (some (encFile f)) (toRange r) = .ok (
      match selectBlocks f r with
      | .error e => .error (rejectErr e)
      | .ok (first, bs) => .ok ((dumpViews first bs).map fun d => ⟨d.number, (d.offset : Int), hexDump d.bytes, 8192⟩)) := by
  unfold dumpBinaryRange
  rw [readBlockRange_enc f hwf (encFile_small f hwf hn) r]
  cases hs : selectBlocks f r with
  | error e => rfl
  | ok p =>
    obtain ⟨first, bs⟩ := p
    obtain ⟨h1, h2, h3, _⟩ := selectBlocks_ok f r first bs hs
    have hbs : ∀ b ∈ bs, b.WF := fun b hb => hwf.1 b (h3 b hb)
    simp only [selectResult, ok_bind]
    unfold dumpBinaryBlocks
    rw [flatMap_encBlock_length bs hbs, Nat.mul_div_cancel_left _ (by decide : 0 < 8192)]
    have := dumpBinaryLoop_enc hexDump (rangeStart (toRange r)) bs hbs [] 0
    rw [List.append_nil] at this
    rw [this, rangeStart_toRange, ← h1]
    simp only [ok_bind, pure_eq_ok, dumpViews, List.map_map]
    refine congrArg Except.ok (congrArg Except.ok ?_)
    apply numbered_map
    intro k b hk
    simp only [Function.comp]
    rw [show ((first : Int) + ((0 + k : Nat) : Int)) = ((first + k : Nat) : Int) by omega,
      ofSigned32_small _ (by simp only [Nat.reducePow] at *; omega),
      wrap64_id _ (by omega) (by simp only [Nat.reducePow] at *; omega)]
    congr 1
    omega

/-! ### GetBlockRangeStats = the tallies over the summaries -/

def statsOfView (s : StatsView) : BlockRangeStats :=
  ⟨s.totalBlocks, s.startBlock, s.endBlock, s.emptyBlocks, s.usedBlocks, s.totalItems, s.totalFree, s.fillNum, s.fillDen⟩

theorem foldl_statsStep (vs : List InfoView) (s : BlockRangeStats) :
    (vs.map infoOfView).foldl statsStep s =
      { s with emptyBlocks := s.emptyBlocks + (vs.filter (·.isEmpty)).length,
               usedBlocks := s.usedBlocks + (vs.filter (!·.isEmpty)).length,
               totalItems := s.totalItems + ((vs.filter (!·.isEmpty)).map (·.itemCount)).sum,
               totalFree := s.totalFree + ((vs.filter (!·.isEmpty)).map (·.freeSpace)).sum,
               fillNum := s.fillNum + (((vs.filter (!·.isEmpty)).filter (·.pageSize > 0)).map
                 fun v => (v.pageSize : Int) - (v.freeSpace : Int)).sum } := by
  induction vs generalizing s with
  | nil => simp
  | cons v vs ih =>
    simp only [List.map_cons, List.foldl_cons]
    rw [ih]
    by_cases hv : v.isEmpty = true
    · simp only [statsStep, infoOfView, hv, if_true, List.filter_cons, Bool.not_true, Bool.false_eq_true, if_false,
        List.length_cons]
      congr 1; omega
    · have hv' : v.isEmpty = false := by simpa using hv
      by_cases hp : v.pageSize > 0
      · simp only [statsStep, infoOfView, hv', Bool.false_eq_true, if_false, List.filter_cons, Bool.not_false, if_true,
          List.length_cons, List.map_cons, List.sum_cons, hp, decide_true]
        congr 1 <;> omega
      · simp only [statsStep, infoOfView, hv', Bool.false_eq_true, if_false, List.filter_cons, Bool.not_false, if_true,
          List.length_cons, List.map_cons, List.sum_cons, hp, decide_false]
        congr 1 <;> omega

theorem blockStats_views (vs : List InfoView) : blockStats (vs.map infoOfView) = statsOfView (statsView vs) := by
  cases vs with
  | nil => rfl
  | cons v vs =>
    unfold blockStats
    obtain ⟨l, hl⟩ : ∃ l, (v :: vs).getLast? = some l := by
      cases h : (v :: vs).getLast? with
      | none => simp at h
      | some l => exact ⟨l, rfl⟩
    rw [List.getLast?_map, hl]
    simp only [List.map_cons, List.head?_cons, Option.map_some]
    rw [← List.map_cons, foldl_statsStep]
    simp only [statsView, statsOfView, hl, List.head?_cons, Option.map_some, Option.getD_some, List.length_map,
      List.isEmpty_cons, Bool.false_eq_true, if_false, infoOfView, Nat.zero_add, Int.zero_add]

/-! ### totality (C10) -/

theorem parseBlockInfo_total (data : Bytes) (bn : Nat) : ∃ r, parseBlockInfo data bn = .ok r := by
  unfold parseBlockInfo
  by_cases h : data.length < 8192
  · simp [h]
  · simp only [h, if_false, pageLSN]
    split
    · exact ⟨_, rfl⟩
    · simp (disch := omega) only [uNf_ok, ok_bind, pure_eq_ok]
      exact ⟨_, rfl⟩

theorem verifyPageChecksum_total (ck : Bytes → Nat → Nat) (page : Bytes) (bn : Nat) :
    ∃ r, verifyPageChecksum ck page bn = .ok r := by
  unfold verifyPageChecksum
  by_cases h : page.length < 8192
  · simp [h]
  · simp only [h, if_false]
    split
    · exact ⟨_, rfl⟩
    · have s1 : slice page 8 10 = .ok ((page.take 10).drop 8) := slice_ok page 8 10 (by omega) (by omega)
      have s2 : slice page 0 4 = .ok ((page.take 4).drop 0) := slice_ok page 0 4 (by omega) (by omega)
      have s3 : slice page 4 8 = .ok ((page.take 8).drop 4) := slice_ok page 4 8 (by omega) (by omega)
      simp only [s1, s2, s3, ok_bind]
      rw [uN_ok 2 _ 0 (by simp; omega), uN_ok 4 _ 0 (by simp; omega), uN_ok 4 _ 0 (by simp; omega)]
      exact ⟨_, rfl⟩

theorem drop_len (n : Nat) (rest : Bytes) (h : (n + 1) * 8192 ≤ rest.length) : n * 8192 ≤ (rest.drop 8192).length := by
  rw [List.length_drop]
  rw [Nat.add_mul, Nat.one_mul] at h
  exact Nat.le_sub_of_add_le h

theorem dumpBlocksLoop_total (start : Int) (n i : Nat) (rest : Bytes) (h : n * 8192 ≤ rest.length) :
    ∃ r, dumpBlocksLoop start n i rest = .ok r := by
  induction n generalizing i rest with
  | zero => exact ⟨_, rfl⟩
  | succ n ih =>
    simp only [dumpBlocksLoop]
    rw [takeM_ok rest 8192 (by omega)]
    obtain ⟨info, hi⟩ := parseBlockInfo_total (rest.take 8192) (ofSigned 32 (start + i))
    obtain ⟨more, hm⟩ := ih (i + 1) (rest.drop 8192) (drop_len n rest h)
    simp only [ok_bind, hi, hm, pure_eq_ok]
    exact ⟨_, rfl⟩

theorem dumpBlocks_total (data : Bytes) (start : Int) : ∃ r, dumpBlocks data start = .ok r := by
  unfold dumpBlocks
  exact dumpBlocksLoop_total start (data.length / 8192) 0 data (by omega)

theorem dumpBinaryLoop_total {α} (hexDump : Bytes → α) (start : Int) (n i : Nat) (rest : Bytes)
    (h : n * 8192 ≤ rest.length) : ∃ r, dumpBinaryLoop hexDump start n i rest = .ok r := by
  induction n generalizing i rest with
  | zero => exact ⟨_, rfl⟩
  | succ n ih =>
    simp only [dumpBinaryLoop]
    rw [takeM_ok rest 8192 (by omega)]
    obtain ⟨more, hm⟩ := ih (i + 1) (rest.drop 8192) (drop_len n rest h)
    simp only [ok_bind, hm, pure_eq_ok]
    exact ⟨_, rfl⟩

theorem dumpBinaryBlocks_total {α} (hexDump : Bytes → α) (data : Bytes) (start : Int) :
    ∃ r, dumpBinaryBlocks hexDump data start = .ok r := by
  unfold dumpBinaryBlocks
  exact dumpBinaryLoop_total hexDump start (data.length / 8192) 0 data (by omega)

/-- every `*BlockRange` pointer is `toRange` of a request -/
theorem toRange_surj (r : Option BlockRange) : ∃ q, toRange q = r := by
  cases r with
  | none => exact ⟨none, rfl⟩
  | some br => exact ⟨some (br.start, br.stop), rfl⟩

theorem readBlockRange_total (file : Option Bytes) (hlen : ∀ f, file = some f → f.length < 2 ^ 62)
    (r : Option BlockRange) : ∃ res, readBlockRange file r = .ok res := by
  cases file with
  | none => exact ⟨_, rfl⟩
  | some f =>
    obtain ⟨q, rfl⟩ := toRange_surj r
    exact ⟨_, readBlockRange_bytes f (hlen f rfl) q⟩

theorem pageCopy_length (page : Bytes) : (pageCopy page).length = 8192 := by
  unfold pageCopy
  simp only [List.length_append, List.length_take, List.length_drop, zeros_length, List.length_cons, List.length_nil]
  omega

theorem words32_length (bs : Bytes) : (words32 bs).length = bs.length / 4 := by
  induction bs using words32.induct with
  | case1 a b c d rest ih => simp only [words32, List.length_cons, ih]; omega
  | case2 bs h =>
    have : bs.length < 4 := by
      match bs, h with
      | [], _ => simp
      | [_], _ => simp
      | [_, _], _ => simp
      | [_, _, _], _ => simp
      | a :: b :: c :: d :: rest, h => exact absurd rfl (h a b c d rest)
    rw [words32]
    · simp; omega
    · exact h

/-- the copy made by computePageChecksum does not depend on the stored checksum bytes -/
theorem pageCopy_field (page : Bytes) (x y : UInt8) (h : 10 ≤ page.length) :
    pageCopy (page.take 8 ++ [x, y] ++ page.drop 10) = pageCopy page := by
  have hl : (page.take 8 ++ [x, y] ++ page.drop 10).length = page.length := by
    simp only [List.length_append, List.length_take, List.length_drop, List.length_cons, List.length_nil]; omega
  have e1 : ((page.take 8 ++ [x, y] ++ page.drop 10).take 8192 ++ zeros (8192 - page.length)).take 8 =
      (page.take 8192 ++ zeros (8192 - page.length)).take 8 := by
    apply List.ext_getElem?
    intro i
    simp only [List.getElem?_take, List.getElem?_append, List.length_take, List.length_append, List.length_cons,
      List.length_nil, List.length_drop]
    by_cases hi : i < 8
    · have a1 : i < min 8192 (min 8 page.length + (0 + 1 + 1) + (page.length - 10)) := by omega
      have a2 : i < min 8192 page.length := by omega
      have a3 : i < min 8 page.length + (0 + 1 + 1) := by omega
      have a4 : i < min 8 page.length := by omega
      have a5 : i < 8192 := by omega
      simp only [hi, a1, a2, a3, a4, a5, if_true]
    · simp only [hi, if_false]
  have e2 : ((page.take 8 ++ [x, y] ++ page.drop 10).take 8192 ++ zeros (8192 - page.length)).drop 10 =
      (page.take 8192 ++ zeros (8192 - page.length)).drop 10 := by
    apply List.ext_getElem?
    intro i
    simp only [List.getElem?_drop, List.getElem?_take, List.getElem?_append, List.length_take, List.length_append,
      List.length_cons, List.length_nil, List.length_drop]
    have e : min 8192 (min 8 page.length + (0 + 1 + 1) + (page.length - 10)) = min 8192 page.length := by omega
    rw [e]
    by_cases hi : 10 + i < min 8192 page.length
    · have b1 : ¬ (10 + i < min 8 page.length + (0 + 1 + 1)) := by omega
      have b2 : ¬ (10 + i < min 8 page.length) := by omega
      have b3 : 10 + i < 8192 := by omega
      simp only [hi, if_true, b1, b2, b3, if_false]
      congr 1
      omega
    · simp only [hi, if_false]
  unfold pageCopy
  simp only [hl]
  rw [e1, e2]

end PgVerif.Proofs.Block
