/-
  File-level lemmas about ReadTuples: page stepping, concatenation, and the scan of an encoded heap.
-/
import PgVerif.Proofs.HeapEnc
namespace PgVerif.Proofs
open PgVerif PgVerif.Model PgVerif.Spec

def shiftE (k : Nat) (e : TupleEntry) : TupleEntry := { e with pageOffset := e.pageOffset + k }

/-- the entries one page contributes -/
def pageEntries (vis : Bool) (off : Nat) (ts : List HeapTuple) : List TupleEntry :=
  (ts.filter fun t => !vis || t.isVisible).map fun t => (⟨t, off⟩ : TupleEntry)

theorem slice_append_shift (pre b : Bytes) (lo hi : Nat) (h : hi ≤ b.length) (hl : lo ≤ hi) :
    slice (pre ++ b) (pre.length + lo) (pre.length + hi) = slice b lo hi := by
  rw [slice_ok _ _ _ (by simp; omega) (by omega), slice_ok _ _ _ h hl,
    List.take_length_add_append, List.drop_length_add_append]

/-- reading beyond a prefix = reading the rest, shifted -/
theorem readTuplesFrom_shift (pre b : Bytes) (vis : Bool) (n off : Nat) :
    readTuplesFrom (pre ++ b) vis n (pre.length + off) =
      (readTuplesFrom b vis n off).map (fun es => es.map (shiftE pre.length)) := by
  induction n generalizing off with
  | zero => simp [readTuplesFrom, Except.map]
  | succ n ih =>
    simp only [readTuplesFrom]
    by_cases hc : off + 8192 ≤ b.length
    · rw [if_pos (by simp; omega), if_pos hc]
      rw [show pre.length + off + 8192 = pre.length + (off + 8192) by omega,
        slice_append_shift pre b off (off + 8192) hc (by omega), slice_ok _ _ _ hc (by omega)]
      simp only [ok_bind]
      cases hp : parsePage ((b.take (off + 8192)).drop off) with
      | error e => simp [Except.map, bind, Except.bind]
      | ok ts =>
        simp only [ok_bind]
        rw [ih (off + 8192)]
        cases hr : readTuplesFrom b vis n (off + 8192) with
        | error e => simp [Except.map, bind, Except.bind]
        | ok rest =>
          simp [Except.map, shiftE, Function.comp_def, Nat.add_comm]
    · rw [if_neg (by simp; omega), if_neg hc]
      simp [Except.map]

theorem readTuplesFrom_succ (data : Bytes) (vis : Bool) (n off : Nat) :
    readTuplesFrom data vis (n + 1) off =
      if off + 8192 ≤ data.length then do
        let pg ← slice data off (off + 8192)
        let ts ← parsePage pg
        let rest ← readTuplesFrom data vis n (off + 8192)
        pure (pageEntries vis off ts ++ rest)
      else pure [] := rfl

/-- one step: a file that starts with a full page -/
theorem readTuples_cons (pg rest : Bytes) (vis : Bool) (h : pg.length = 8192) :
    readTuples (pg ++ rest) vis =
      (do let ts ← parsePage pg
          let r ← readTuples rest vis
          pure (pageEntries vis 0 ts ++ r.map (shiftE 8192))) := by
  unfold readTuples
  have hl : (pg ++ rest).length / 8192 + 1 = (rest.length / 8192 + 1) + 1 := by
    simp [h]
  rw [hl, readTuplesFrom_succ]
  rw [if_pos (by simp [h])]
  rw [slice_ok _ _ _ (by simp [h]) (by omega)]
  have : ((pg ++ rest).take (0 + 8192)).drop 0 = pg := by
    simp [← h]
  simp only [this, ok_bind]
  cases hp : parsePage pg with
  | error e => rfl
  | ok ts =>
    simp only [ok_bind]
    have := readTuplesFrom_shift pg rest vis (rest.length / 8192 + 1) 0
    simp only [h, Nat.add_zero] at this
    rw [show 0 + 8192 = 8192 by rfl, this]
    cases hr : readTuplesFrom rest vis (rest.length / 8192 + 1) 0 with
    | error e => rfl
    | ok r => rfl

theorem readTuples_short (tail : Bytes) (vis : Bool) (h : tail.length < 8192) : readTuples tail vis = .ok [] := by
  unfold readTuples
  have : tail.length / 8192 = 0 := by omega
  rw [this, readTuplesFrom_succ]
  rw [if_neg (by omega)]
  rfl

end PgVerif.Proofs

namespace PgVerif.Proofs
open PgVerif PgVerif.Model PgVerif.Spec

/-- what an entry of the model's scan exposes (the fields the property names) -/
def viewOf (e : TupleEntry) : TupleView :=
  { natts := e.tuple.header.natts, hoff := e.tuple.header.hoff, infomask := e.tuple.header.infomask,
    xminCommitted := e.tuple.header.xminCommitted, xmaxCommitted := e.tuple.header.xmaxCommitted,
    xmaxInvalid := e.tuple.header.xmaxInvalid, hasNull := e.tuple.header.hasNull,
    bitmap := e.tuple.bitmap, data := e.tuple.data, pageOffset := e.pageOffset }

theorem viewOf_mtuple (t : Tuple) (off : Nat) : viewOf ⟨mtuple t, off⟩ = tupleView off t := rfl

theorem isVisible_mtuple (t : Tuple) : (mtuple t).isVisible = liveBits t.infomask := by
  simp only [HeapTuple.isVisible, mtuple, liveBits]
  cases t.infomask.testBit 8 <;> cases t.infomask.testBit 10 <;> cases t.infomask.testBit 11 <;> rfl

theorem viewOf_shift (k : Nat) (e : TupleEntry) : viewOf (shiftE k e) = { viewOf e with pageOffset := (viewOf e).pageOffset + k } := rfl

/-- expected scan with the visibility switch -/
def scanViewVis (vis : Bool) (off : Nat) (bs : List Block) : List TupleView :=
  (scanViewFrom off bs).filter fun v => !vis || liveBits v.infomask

theorem block_parse (b : Block) (h : b.WF) : parsePage (encBlock b) = .ok (b.tuples.map mtuple) := by
  cases b with
  | page p => exact parsePage_enc p h
  | zero => exact parsePage_zero

theorem encBlock_length (b : Block) (h : b.WF) : (encBlock b).length = 8192 := by
  cases b with
  | page p => exact encPage_length p h
  | zero => simp [encBlock]

theorem shift_scanView (off k : Nat) (bs : List Block) :
    (scanViewFrom off bs).map (fun v => { v with pageOffset := v.pageOffset + k }) = scanViewFrom (off + k) bs := by
  induction bs generalizing off with
  | nil => rfl
  | cons b bs ih =>
    simp only [scanViewFrom, List.map_append, List.map_map]
    rw [ih (off + 8192), show off + 8192 + k = off + k + 8192 by omega]
    congr 1

theorem scan_enc (bs : List Block) (tail : Bytes) (vis : Bool) (hb : ∀ b ∈ bs, b.WF) (ht : tail.length < 8192) :
    (readTuples (encHeap bs tail) vis).map (fun es => es.map viewOf) = .ok (scanViewVis vis 0 bs) := by
  induction bs with
  | nil =>
    simp only [encHeap, List.flatMap_nil, List.nil_append]
    rw [readTuples_short tail vis ht]; rfl
  | cons b bs ih =>
    have hbw := hb b (by simp)
    have := ih (fun x hx => hb x (by simp [hx]))
    simp only [encHeap, List.flatMap_cons, List.append_assoc] at this ⊢
    rw [readTuples_cons _ _ vis (encBlock_length b hbw), block_parse b hbw]
    simp only [ok_bind]
    cases hr : readTuples (bs.flatMap encBlock ++ tail) vis with
    | error e => rw [hr] at this; simp [Except.map] at this
    | ok r =>
      rw [hr] at this
      simp only [Except.map, Except.ok.injEq] at this
      simp only [ok_bind, pure_eq_ok, Except.map, Except.ok.injEq, List.map_append, List.map_map]
      simp only [scanViewVis, scanViewFrom, List.filter_append]
      congr 1
      · simp only [pageEntries, List.map_map, List.filter_map, Function.comp_def, viewOf_mtuple]
        congr 1
        apply List.filter_congr
        intro t _
        simp [isVisible_mtuple, tupleView]
      · have hs := shift_scanView 0 8192 bs
        simp only [Nat.zero_add] at hs
        rw [← hs, List.filter_map]
        have hp : ((fun v : TupleView => !vis || liveBits v.infomask) ∘
            fun v : TupleView => { v with pageOffset := v.pageOffset + 8192 }) = (fun v => !vis || liveBits v.infomask) := by
          funext v; rfl
        simp only [scanViewVis] at this
        rw [hp, ← this, List.map_map]
        congr 1

end PgVerif.Proofs

namespace PgVerif.Proofs
open PgVerif PgVerif.Model PgVerif.Spec

theorem shiftE_zero (es : List TupleEntry) : es.map (shiftE 0) = es := by
  induction es with
  | nil => rfl
  | cons e es ih => cases e; simp [shiftE, ih]

theorem shiftE_add (a b : Nat) (es : List TupleEntry) : (es.map (shiftE a)).map (shiftE b) = es.map (shiftE (a + b)) := by
  induction es with
  | nil => rfl
  | cons e es ih =>
    cases e; simp only [List.map_cons, shiftE, ih]
    simp [Nat.add_assoc, shiftE]

/-- Scanning `a ++ b`, `a` a whole number of pages: the scan of `a`, then the scan of `b` with its page offsets
shifted by `|a|` — for arbitrary bytes. -/
theorem readTuples_append (a b : Bytes) (vis : Bool) (m : Nat) (h : a.length = 8192 * m) :
    readTuples (a ++ b) vis =
      (do let ra ← readTuples a vis
          let rb ← readTuples b vis
          pure (ra ++ rb.map (shiftE a.length))) := by
  induction m generalizing a with
  | zero =>
    have : a = [] := List.eq_nil_of_length_eq_zero (by omega)
    subst this
    have h0 : readTuples [] vis = .ok [] := readTuples_short [] vis (by simp)
    simp only [List.nil_append, h0, ok_bind, List.length_nil]
    cases readTuples b vis with
    | error e => rfl
    | ok rb => simp [shiftE_zero]
  | succ m ih =>
    have hpg : (a.take 8192).length = 8192 := by simp; omega
    have hsplit : a = a.take 8192 ++ a.drop 8192 := (List.take_append_drop 8192 a).symm
    have hrest : (a.drop 8192).length = 8192 * m := by simp; omega
    have ih' := ih (a.drop 8192) hrest
    have e1 : a ++ b = a.take 8192 ++ (a.drop 8192 ++ b) := by
      rw [← List.append_assoc, List.take_append_drop]
    rw [e1, readTuples_cons _ _ vis hpg, ih']
    conv => rhs; rw [hsplit, readTuples_cons _ _ vis hpg]
    cases parsePage (a.take 8192) with
    | error e => rfl
    | ok ts =>
      simp only [ok_bind]
      cases readTuples (a.drop 8192) vis with
      | error e => rfl
      | ok ra =>
        simp only [ok_bind]
        cases readTuples b vis with
        | error e => rfl
        | ok rb =>
          simp only [ok_bind, pure_eq_ok, List.map_append, List.append_assoc, shiftE_add, hrest]
          rw [List.take_append_drop]
          rw [show 8192 * m + 8192 = a.length by omega]

/-! ### totality (C10) -/

theorem parseItemsLoop_total (data : Bytes) (lower n off : Nat) : ∃ r, parseItemsLoop data lower n off = .ok r := by
  induction n generalizing off with
  | zero => exact ⟨_, rfl⟩
  | succ n ih =>
    simp only [parseItemsLoop]
    split
    · rename_i hc
      rw [uN_ok _ _ _ hc.2]
      obtain ⟨r, hr⟩ := ih (off + 4)
      simp only [ok_bind, hr, pure_eq_ok]
      exact ⟨_, rfl⟩
    · exact ⟨_, rfl⟩

theorem collectM_total {α β} (f : α → M (Option β)) (xs : List α) (h : ∀ x, ∃ r, f x = .ok r) :
    ∃ r, collectM f xs = .ok r := by
  induction xs with
  | nil => exact ⟨_, rfl⟩
  | cons x xs ih =>
    obtain ⟨r, hr⟩ := h x
    obtain ⟨rs, hrs⟩ := ih
    simp only [collectM, hr, hrs, ok_bind, pure_eq_ok]
    exact ⟨_, rfl⟩

theorem parseHeapTuple_total (data : Bytes) : ∃ r, parseHeapTuple data = .ok r := by
  unfold parseHeapTuple
  by_cases h : data.length < 23
  · simp [h]
  · simp (disch := omega) only [h, if_false, uN_ok, idx_ok, ok_bind, pure_eq_ok]
    split
    · exact ⟨_, rfl⟩
    · simp (disch := omega) only [sliceFrom_ok, ok_bind]
      split
      · split
        · simp (disch := omega) only [slice_ok, ok_bind]
          exact ⟨_, rfl⟩
        · exact ⟨_, rfl⟩
      · exact ⟨_, rfl⟩

theorem pageItem_total (data : Bytes) (hd : data.length ≥ 8192) (upper : Nat) (it : ItemID) :
    ∃ r, pageItem data upper it = .ok r := by
  unfold pageItem
  split
  · exact ⟨_, rfl⟩
  · split
    · exact ⟨_, rfl⟩
    · rename_i hc
      have hc' : ¬ (it.offset < upper ∨ it.offset + it.length > 8192) := by simpa using hc
      rw [slice_ok _ _ _ (by omega) (by omega)]
      simp only [ok_bind]
      exact parseHeapTuple_total _

/-- ParsePage's guarded loop returns on every page of at least 8192 bytes, whatever is already claimed -/
theorem pageLoop_total (data : Bytes) (hd : data.length ≥ 8192) (upper : Nat) (items claimed : List ItemID) :
    ∃ ts, pageLoop data upper items claimed = .ok ts :=
  pageLoop_total_of data upper (pageItem_total data hd upper) items claimed

theorem pageItemG_total (data : Bytes) (hd : data.length ≥ 8192) (upper : Nat) (claimed : List ItemID) (it : ItemID) :
    ∃ r, pageItemG data upper claimed it = .ok r := by
  cases ho : overlapsAny claimed it with
  | true => exact ⟨none, pageItemG_of_overlaps _ _ _ _ ho⟩
  | false => rw [pageItemG_of_not_overlaps _ _ _ _ ho]; exact pageItem_total data hd upper it

theorem parsePage_total (data : Bytes) : ∃ r, parsePage data = .ok r := by
  unfold parsePage
  by_cases hl : data.length < 8192
  · simp [hl]
  · simp only [hl, if_false]
    unfold parseHeader
    simp (disch := omega) only [uN_ok, ok_bind, pure_eq_ok]
    split
    · exact ⟨_, rfl⟩
    · obtain ⟨items, hi⟩ := parseItemsLoop_total data (rd 2 (data.drop 12)) (itemCount (rd 2 (data.drop 12))) 24
      simp only [parseItems, hi, ok_bind]
      exact pageLoop_total_of data _ (pageItem_total data (by omega) _) items []

theorem readTuplesFrom_total (data : Bytes) (vis : Bool) (n off : Nat) : ∃ r, readTuplesFrom data vis n off = .ok r := by
  induction n generalizing off with
  | zero => exact ⟨_, rfl⟩
  | succ n ih =>
    rw [readTuplesFrom_succ]
    split
    · rename_i hc
      rw [slice_ok _ _ _ hc (by omega)]
      obtain ⟨ts, hts⟩ := parsePage_total ((data.take (off + 8192)).drop off)
      obtain ⟨r, hr⟩ := ih (off + 8192)
      simp only [ok_bind, hts, hr, pure_eq_ok]
      exact ⟨_, rfl⟩
    · exact ⟨_, rfl⟩

end PgVerif.Proofs
