/-
  Helper lemmas for C13_json: Spec.Json.parse reads back what the model's mapToJSON / writeJSONValue writes.
-/
import PgVerif.Spec.ExportJson
import PgVerif.Model.ExportSql
import PgVerif.Proofs.ExportDec
namespace PgVerif.Proofs.ExportJson
open PgVerif PgVerif.Export PgVerif.Spec.Json PgVerif.Model.Export

/-- what follows a value inside the tool's JSON text: the end, a comma, or a closing bracket/brace -/
def JDelim (rest : Bytes) : Prop := ∀ c, rest.head? = some c → c = 44 ∨ c = 93 ∨ c = 125

theorem isDigit_of_isDig (c : UInt8) (h : ExportDec.IsDig c) : isDigit c = true := by
  simp only [isDigit, Bool.and_eq_true, decide_eq_true_eq, UInt8.le_iff_toNat_le]
  exact h

theorem delim_facts (c : UInt8) (h : c = 44 ∨ c = 93 ∨ c = 125) :
    isDigit c = false ∧ c ≠ 46 ∧ c ≠ 101 ∧ c ≠ 69 ∧ isWs c = false := by
  rcases h with h | h | h <;> subst h <;> decide

theorem spanDigits_all (ds rest : Bytes) (hd : ∀ c ∈ ds, isDigit c = true) (hr : ∀ c, rest.head? = some c → isDigit c = false) :
    spanDigits (ds ++ rest) = (ds, rest) := by
  induction ds with
  | nil =>
    cases rest with
    | nil => rfl
    | cons c t => simp [spanDigits, hr c rfl]
  | cons c ds ih =>
    simp only [List.cons_append, spanDigits, hd c (by simp), if_true]
    rw [ih (fun d h => hd d (by simp [h]))]

/-- digits without a leading zero, optionally signed, followed by a delimiter, are one JSON number -/
theorem scanNum_digits (ds rest : Bytes) (hne : ds ≠ []) (hd : ∀ c ∈ ds, ExportDec.IsDig c)
    (hz : 1 < ds.length → ds.head? ≠ some 48) (hr : JDelim rest) (neg : Bool) :
    scanNum ((if neg then [45] else []) ++ ds ++ rest) = some ((if neg then [45] else []) ++ ds, rest) := by
  have hdig : ∀ c ∈ ds, isDigit c = true := fun c hc => isDigit_of_isDig c (hd c hc)
  have hrest : ∀ c, rest.head? = some c → isDigit c = false := fun c hc => (delim_facts c (hr c hc)).1
  have hspan := spanDigits_all ds rest hdig hrest
  have hlead : ¬ (ds = [] ∨ (ds.length > 1 ∧ ds.head? = some 48)) := by
    intro h; rcases h with h | ⟨h1, h2⟩
    · exact hne h
    · exact hz h1 h2
  have hl2 : ¬ (1 < ds.length ∧ ds.head? = some 48) := fun h => hz h.1 h.2
  have hspan0 : spanDigits ds = (ds, []) := by simpa using spanDigits_all ds [] hdig (by simp)
  cases neg with
  | true =>
    cases rest with
    | nil => simp [scanNum, hspan0, hne, hl2]
    | cons c t =>
      have := delim_facts c (hr c rfl)
      simp [scanNum, hspan, hne, hl2, this.2.1, this.2.2.1, this.2.2.2.1]
  | false =>
    cases ds with
    | nil => exact absurd rfl hne
    | cons d ds' =>
      have hd45 : d ≠ 45 := by
        intro h; have := hd d (by simp); subst h; simp [ExportDec.IsDig] at this
      rw [List.cons_append] at hspan
      have hl3 : 0 < ds'.length → ¬ d = 48 := by
        intro h e; exact hz (by simp only [List.length_cons]; omega) (by simp [e])
      cases rest with
      | nil => simp [scanNum, hd45, hspan0]; exact hl3
      | cons c t =>
        have := delim_facts c (hr c rfl)
        simp [scanNum, hd45, hspan, this.2.1, this.2.2.1, this.2.2.2.1]; exact hl3

theorem scanNum_decInt (i : Int) (rest : Bytes) (hr : JDelim rest) : scanNum (decInt i ++ rest) = some (decInt i, rest) := by
  obtain ⟨h1, h2, h3⟩ := ExportDec.dec_props i.natAbs
  unfold decInt
  by_cases hi : i < 0
  · simp only [hi, if_true]
    have := scanNum_digits (dec i.natAbs) rest h1 h2 h3 hr true
    simpa using this
  · simp only [hi, if_false]
    have := scanNum_digits (dec i.natAbs) rest h1 h2 h3 hr false
    simpa using this

/-! ### strings -/

theorem hexVal_hexLow : ∀ n : Fin 16, Spec.Json.hexVal (hexLow n.val) = some n.val := by decide

theorem jsonByte_scan (c : UInt8) (tail : Bytes) (r : Bytes × Bytes) (h : scanStr tail = some r) :
    scanStr (jsonByte c ++ tail) = some (c :: r.1, r.2) := by
  unfold jsonByte
  by_cases h1 : c = 34 ∨ c = 92
  · rw [if_pos h1]
    rcases h1 with h1 | h1 <;> subst h1 <;> simp [scanStr, escLit, h]
  · rw [if_neg h1]
    have h34 : c ≠ 34 := fun e => h1 (Or.inl e)
    have h92 : c ≠ 92 := fun e => h1 (Or.inr e)
    by_cases h2 : c < 32
    · rw [if_pos h2]
      have hlt : c.toNat < 32 := by simpa [UInt8.lt_iff_toNat_lt] using h2
      have e1 := hexVal_hexLow ⟨c.toNat / 16, by omega⟩
      have e2 := hexVal_hexLow ⟨c.toNat % 16, by omega⟩
      simp only at e1 e2
      have e0 : Spec.Json.hexVal 48 = some 0 := by decide
      have hx : hex4 48 48 (hexLow (c.toNat / 16)) (hexLow (c.toNat % 16)) = some c.toNat := by
        simp only [hex4, e0, e1, e2]; congr 1; omega
      have henc : utf8Enc c.toNat = [c] := by
        have : c.toNat < 0x80 := by omega
        simp [utf8Enc, this]
      simp only [List.cons_append, List.nil_append, scanStr]
      simp only [show ((92 : UInt8) = 34) = False by decide, if_false, if_true, hx]
      have n1 : ¬ (0xD800 ≤ c.toNat ∧ c.toNat < 0xDC00) := by omega
      have n2 : ¬ (0xDC00 ≤ c.toNat ∧ c.toNat < 0xE000) := by omega
      simp only [n1, n2, if_false, h, Option.map_some, henc, List.cons_append, List.nil_append]
    · rw [if_neg h2]
      simp only [List.cons_append, List.nil_append]
      rw [scanStr.eq_def]
      simp only [h34, h92, h2, if_false, h, Option.map_some]

theorem scanStr_jsonBody (s rest : Bytes) : scanStr (s.flatMap jsonByte ++ 34 :: rest) = some (s, rest) := by
  induction s with
  | nil => rw [scanStr.eq_def]; simp
  | cons c s ih =>
    simp only [List.flatMap_cons, List.append_assoc]
    exact jsonByte_scan c _ (s, rest) ih

theorem scanStr_jsonString (s rest : Bytes) : ∃ t, jsonString s ++ rest = 34 :: t ∧ scanStr t = some (s, rest) := by
  refine ⟨s.flatMap jsonByte ++ 34 :: rest, ?_, scanStr_jsonBody s rest⟩
  simp [jsonString]


/-! ### the contract on the library's float rendering -/

/-- what the model assumes of `fmt`'s `%v` for floats: a NaN or infinity prints as NaN / +Inf / -Inf and nothing else does;
every other value prints as a JSON number (digits or `-` first; complete before a delimiter) -/
structure FloatOK (F : FloatFmt) : Prop where
  num64 : ∀ b, isNonFiniteText (F.v64 b) = false →
    isNonFinite64 b = false ∧ (∃ c t, F.v64 b = c :: t ∧ (c = 45 ∨ isDigit c = true)) ∧
    ∀ rest, JDelim rest → scanNum (F.v64 b ++ rest) = some (F.v64 b, rest)
  num32 : ∀ b, isNonFiniteText (F.v32 b) = false →
    isNonFinite32 b = false ∧ (∃ c t, F.v32 b = c :: t ∧ (c = 45 ∨ isDigit c = true)) ∧
    ∀ rest, JDelim rest → scanNum (F.v32 b ++ rest) = some (F.v32 b, rest)
  special64 : ∀ b, isNonFiniteText (F.v64 b) = true →
    isNonFinite64 b = true ∧ nonFiniteSpelling (b % 2 ^ 52 != 0) (b / 2 ^ 63 % 2 == 1) (F.v64 b) = true
  special32 : ∀ b, isNonFiniteText (F.v32 b) = true →
    isNonFinite32 b = true ∧ nonFiniteSpelling (b % 2 ^ 23 != 0) (b / 2 ^ 31 % 2 == 1) (F.v32 b) = true

/-! ### the JSON value the model's text denotes -/

def floatJ (text : Bytes) : J := if isNonFiniteText text then .str text else .num text

mutual
def jsonOf (F : FloatFmt) : GoVal → J
  | .nil => .null
  | .bool b => .bool b
  | .int i => .num (decInt i)
  | .f64 b => floatJ (F.v64 b)
  | .f32 b => floatJ (F.v32 b)
  | .str s => .str s
  | .arr xs => .arr (jsonOfList F xs)
  | .obj kvs => .obj (jsonOfKvs F kvs)
def jsonOfList (F : FloatFmt) : List GoVal → List J
  | [] => []
  | x :: xs => jsonOf F x :: jsonOfList F xs
def jsonOfKvs (F : FloatFmt) : List (Bytes × GoVal) → List (Bytes × J)
  | [] => []
  | (k, v) :: rest => (k, jsonOf F v) :: jsonOfKvs F rest
end

/-! fuel that suffices to parse the text of a value -/
mutual
def need : GoVal → Nat
  | .arr xs => 1 + needList xs
  | .obj kvs => 1 + needKvs kvs
  | _ => 1
def needList : List GoVal → Nat
  | [] => 0
  | x :: xs => 1 + max (need x) (needList xs)
def needKvs : List (Bytes × GoVal) → Nat
  | [] => 0
  | (_, v) :: rest => 1 + max (need v) (needKvs rest)
end

theorem skipWs_nonws (c : UInt8) (t : Bytes) (h : isWs c = false) : skipWs (c :: t) = c :: t := by
  simp [skipWs, h]

theorem digit_or_minus_facts (c : UInt8) (hc : c = 45 ∨ isDigit c = true) :
    isWs c = false ∧ c ≠ 110 ∧ c ≠ 116 ∧ c ≠ 102 ∧ c ≠ 34 ∧ c ≠ 91 ∧ c ≠ 123 := by
  rcases hc with h | h
  · subst h; decide
  · simp only [isDigit, isWs, Bool.and_eq_true, decide_eq_true_eq, UInt8.le_iff_toNat_le] at h ⊢
    simp only [Bool.or_eq_false_iff, beq_eq_false_iff_ne, ne_eq, ← UInt8.toNat_inj]
    have e1 : (48 : UInt8).toNat = 48 := rfl
    have e2 : (57 : UInt8).toNat = 57 := rfl
    have e3 : (110 : UInt8).toNat = 110 := rfl
    have e4 : (116 : UInt8).toNat = 116 := rfl
    have e5 : (102 : UInt8).toNat = 102 := rfl
    have e6 : (34 : UInt8).toNat = 34 := rfl
    have e7 : (91 : UInt8).toNat = 91 := rfl
    have e8 : (123 : UInt8).toNat = 123 := rfl
    have f2 : (32 : UInt8).toNat = 32 := rfl
    have f3 : (9 : UInt8).toNat = 9 := rfl
    have f4 : (10 : UInt8).toNat = 10 := rfl
    have f5 : (13 : UInt8).toNat = 13 := rfl
    omega

theorem floatText_parse (text rest : Bytes) (f : Nat)
    (hnum : isNonFiniteText text = false → (∃ c t, text = c :: t ∧ (c = 45 ∨ isDigit c = true)) ∧
      ∀ rest, JDelim rest → scanNum (text ++ rest) = some (text, rest))
    (hr : JDelim rest) :
    parseV (f + 1) ((if isNonFiniteText text then 34 :: (text ++ [34]) else text) ++ rest) = some (floatJ text, rest) := by
  unfold floatJ
  by_cases hs : isNonFiniteText text = true
  · simp only [hs, if_true]
    -- one of the three fixed words, none of which needs escaping
    have h3 : (text = asc "NaN" ∨ text = asc "+Inf") ∨ text = asc "-Inf" := by
      simpa [isNonFiniteText] using hs
    rcases h3 with (h | h) | h <;> subst h <;> simp [parseV, skipWs, isWs, asc, scanStr.eq_def, escLit]
  · have hs' : isNonFiniteText text = false := by simpa using hs
    simp only [hs', Bool.false_eq_true, if_false]
    obtain ⟨⟨c, t, hct, hc⟩, hscan⟩ := hnum hs'
    have hsc := hscan rest hr
    rw [hct] at hsc ⊢
    have hws : isWs c = false := by
      rcases hc with h | h
      · subst h; decide
      · simp only [isDigit, isWs, Bool.and_eq_true, decide_eq_true_eq, UInt8.le_iff_toNat_le] at h ⊢
        simp only [Bool.or_eq_false_iff, beq_eq_false_iff_ne, ne_eq, ← UInt8.toNat_inj]
        have e1 : (48 : UInt8).toNat = 48 := rfl
        have e2 : (32 : UInt8).toNat = 32 := rfl
        have e3 : (9 : UInt8).toNat = 9 := rfl
        have e4 : (10 : UInt8).toNat = 10 := rfl
        have e5 : (13 : UInt8).toNat = 13 := rfl
        omega
    have hne : c ≠ 110 ∧ c ≠ 116 ∧ c ≠ 102 ∧ c ≠ 34 ∧ c ≠ 91 ∧ c ≠ 123 := by
      rcases hc with h | h
      · subst h; decide
      · simp only [isDigit, Bool.and_eq_true, decide_eq_true_eq, UInt8.le_iff_toNat_le] at h
        simp only [ne_eq, ← UInt8.toNat_inj]
        have e1 : (48 : UInt8).toNat = 48 := rfl
        have e2 : (57 : UInt8).toNat = 57 := rfl
        have e3 : (110 : UInt8).toNat = 110 := rfl
        have e4 : (116 : UInt8).toNat = 116 := rfl
        have e5 : (102 : UInt8).toNat = 102 := rfl
        have e6 : (34 : UInt8).toNat = 34 := rfl
        have e7 : (91 : UInt8).toNat = 91 := rfl
        have e8 : (123 : UInt8).toNat = 123 := rfl
        omega
    simp only [List.cons_append, parseV, skipWs_nonws c _ hws, hne.1, hne.2.1, hne.2.2.1, hne.2.2.2.1, hne.2.2.2.2.1,
      hne.2.2.2.2.2, if_false, hc, if_true]
    simp only [List.cons_append] at hsc
    rw [hsc]; rfl


theorem floatHead (text : Bytes)
    (hnum : isNonFiniteText text = false → (∃ c t, text = c :: t ∧ (c = 45 ∨ isDigit c = true))) :
    ∃ c t, (if isNonFiniteText text then 34 :: (text ++ [34]) else text) = c :: t ∧ (c = 34 ∨ c = 45 ∨ isDigit c = true) := by
  by_cases hs : isNonFiniteText text = true
  · simp only [hs, if_true]; exact ⟨34, _, rfl, Or.inl rfl⟩
  · have hs' : isNonFiniteText text = false := by simpa using hs
    simp only [hs', Bool.false_eq_true, if_false]
    obtain ⟨c, t, h1, h2⟩ := hnum hs'
    exact ⟨c, t, h1, Or.inr h2⟩

theorem digit_not (c : UInt8) (h : isDigit c = true) : isWs c = false ∧ c ≠ 93 ∧ c ≠ 125 := by
  simp only [isDigit, isWs, Bool.and_eq_true, decide_eq_true_eq, UInt8.le_iff_toNat_le] at h ⊢
  simp only [Bool.or_eq_false_iff, beq_eq_false_iff_ne, ne_eq, ← UInt8.toNat_inj]
  have e1 : (48 : UInt8).toNat = 48 := rfl
  have e2 : (32 : UInt8).toNat = 32 := rfl
  have e3 : (9 : UInt8).toNat = 9 := rfl
  have e4 : (10 : UInt8).toNat = 10 := rfl
  have e5 : (13 : UInt8).toNat = 13 := rfl
  have e6 : (93 : UInt8).toNat = 93 := rfl
  have e7 : (125 : UInt8).toNat = 125 := rfl
  have e8 : (57 : UInt8).toNat = 57 := rfl
  omega

theorem decInt_head (i : Int) : ∃ c t, decInt i = c :: t ∧ (c = 45 ∨ isDigit c = true) := by
  obtain ⟨h1, h2, _⟩ := ExportDec.dec_props i.natAbs
  unfold decInt
  by_cases hi : i < 0
  · simp only [hi, if_true]; exact ⟨45, _, rfl, Or.inl rfl⟩
  · simp only [hi, if_false]
    cases hd : dec i.natAbs with
    | nil => exact absurd hd h1
    | cons c t => exact ⟨c, t, rfl, Or.inr (isDigit_of_isDig c (h2 c (by rw [hd]; simp)))⟩

/-- the first byte of a value's text: not white space and not a closing bracket -/
theorem value_head (F : FloatFmt) (hF : FloatOK F) (v : GoVal) :
    ∃ c t, writeJSONValue F v = c :: t ∧ isWs c = false ∧ c ≠ 93 ∧ c ≠ 125 := by
  have key : ∀ c : UInt8, (c = 34 ∨ c = 45 ∨ isDigit c = true) → isWs c = false ∧ c ≠ 93 ∧ c ≠ 125 := by
    intro c h
    rcases h with h | h | h
    · subst h; decide
    · subst h; decide
    · exact digit_not c h
  cases v with
  | nil => exact ⟨110, _, rfl, by decide, by decide, by decide⟩
  | bool b => cases b <;> simp only [writeJSONValue] <;> first | exact ⟨102, _, rfl, by decide, by decide, by decide⟩ | exact ⟨116, _, rfl, by decide, by decide, by decide⟩
  | int i =>
    obtain ⟨c, t, h1, h2⟩ := decInt_head i
    exact ⟨c, t, by simp [writeJSONValue, h1], key c (Or.inr h2)⟩
  | f64 b =>
    obtain ⟨c, t, h1, h2⟩ := floatHead (F.v64 b) (fun h => (hF.num64 b h).2.1)
    exact ⟨c, t, by simpa [writeJSONValue] using h1, key c h2⟩
  | f32 b =>
    obtain ⟨c, t, h1, h2⟩ := floatHead (F.v32 b) (fun h => (hF.num32 b h).2.1)
    exact ⟨c, t, by simpa [writeJSONValue] using h1, key c h2⟩
  | str s => exact ⟨34, _, by simp only [writeJSONValue, jsonString]; rfl, by decide, by decide, by decide⟩
  | arr xs => exact ⟨91, _, by simp only [writeJSONValue]; rfl, by decide, by decide, by decide⟩
  | obj kvs => exact ⟨123, _, by simp only [writeJSONValue]; rfl, by decide, by decide, by decide⟩

theorem numText_parse (text rest : Bytes) (f : Nat) (hh : ∃ c t, text = c :: t ∧ (c = 45 ∨ isDigit c = true))
    (hscan : scanNum (text ++ rest) = some (text, rest)) :
    parseV (f + 1) (text ++ rest) = some (.num text, rest) := by
  have := floatText_parse text rest f
  obtain ⟨c, t, hct, hc⟩ := hh
  have hws := (digit_or_minus_facts c hc).1
  have hne := (digit_or_minus_facts c hc).2
  rw [hct] at hscan ⊢
  simp only [List.cons_append] at hscan ⊢
  simp only [parseV, skipWs_nonws c _ hws, hne.1, hne.2.1, hne.2.2.1, hne.2.2.2.1, hne.2.2.2.2.1,
    hne.2.2.2.2.2, if_false, hc, if_true]
  rw [hscan]; rfl


theorem jdelim_cons (c : UInt8) (t : Bytes) (h : c = 44 ∨ c = 93 ∨ c = 125) : JDelim (c :: t) := by
  intro d hd; simp at hd; subst hd; exact h

mutual
/-- the text of a value, followed by a delimiter, parses to the value it denotes and stops exactly there -/
theorem parseV_value (F : FloatFmt) (hF : FloatOK F) : ∀ (v : GoVal) (f : Nat) (rest : Bytes), need v ≤ f → JDelim rest →
    parseV f (writeJSONValue F v ++ rest) = some (jsonOf F v, rest)
  | .nil, f, rest, hf, _ => by
    cases f with
    | zero => simp [need] at hf
    | succ f => simp [writeJSONValue, jsonOf, parseV, skipWs, isWs, asc]
  | .bool b, f, rest, hf, _ => by
    cases f with
    | zero => simp [need] at hf
    | succ f => cases b <;> simp [writeJSONValue, jsonOf, parseV, skipWs, isWs, asc]
  | .int i, f, rest, hf, hr => by
    cases f with
    | zero => simp [need] at hf
    | succ f =>
      simp only [writeJSONValue, jsonOf]
      exact numText_parse (decInt i) rest f (decInt_head i) (scanNum_decInt i rest hr)
  | .f64 b, f, rest, hf, hr => by
    cases f with
    | zero => simp [need] at hf
    | succ f =>
      simp only [writeJSONValue, jsonOf]
      exact floatText_parse (F.v64 b) rest f (fun h => (hF.num64 b h).2) hr
  | .f32 b, f, rest, hf, hr => by
    cases f with
    | zero => simp [need] at hf
    | succ f =>
      simp only [writeJSONValue, jsonOf]
      exact floatText_parse (F.v32 b) rest f (fun h => (hF.num32 b h).2) hr
  | .str s, f, rest, hf, _ => by
    cases f with
    | zero => simp [need] at hf
    | succ f =>
      obtain ⟨t, ht, hs⟩ := scanStr_jsonString s rest
      simp only [writeJSONValue, jsonOf]
      rw [ht]
      simp [parseV, skipWs, isWs, hs]
  | .arr [], f, rest, hf, _ => by
    cases f with
    | zero => simp [need] at hf
    | succ f => simp [writeJSONValue, jsonElems, jsonOf, jsonOfList, parseV, skipWs, isWs]
  | .arr (x :: xs), f, rest, hf, _ => by
    cases f with
    | zero => simp [need] at hf
    | succ f =>
      have hfl : needList (x :: xs) ≤ f := by simp only [need] at hf; omega
      have ih := parseElems_list F hF x xs f rest hfl
      obtain ⟨c, t, hct, hws, h93, _⟩ := value_head F hF x
      have hhead : ∃ t', jsonElems F (x :: xs) ++ 93 :: rest = c :: t' := by
        cases xs with
        | nil => exact ⟨t ++ 93 :: rest, by simp [jsonElems, hct]⟩
        | cons y ys => exact ⟨_, by simp only [jsonElems, hct, List.cons_append]; rfl⟩
      obtain ⟨t', ht'⟩ := hhead
      simp only [writeJSONValue, jsonOf, List.cons_append, List.append_assoc, List.nil_append, parseV]
      simp only [skipWs_nonws 91 _ (by decide), show ((91 : UInt8) = 110) = False by decide,
        show ((91 : UInt8) = 116) = False by decide, show ((91 : UInt8) = 102) = False by decide,
        show ((91 : UInt8) = 34) = False by decide, if_false, if_true]
      rw [ht'] at ih ⊢
      rw [skipWs_nonws c t' hws]
      split
      · rename_i heq; simp at heq; exact absurd heq.1 h93
      · rw [ih]; rfl
  | .obj [], f, rest, hf, _ => by
    cases f with
    | zero => simp [need] at hf
    | succ f => simp [writeJSONValue, jsonMembers, jsonOf, jsonOfKvs, parseV, skipWs, isWs]
  | .obj ((k, v) :: kvs), f, rest, hf, _ => by
    cases f with
    | zero => simp [need] at hf
    | succ f =>
      have hfl : needKvs ((k, v) :: kvs) ≤ f := by simp only [need] at hf; omega
      have ih := parseMembers_list F hF k v kvs f rest hfl
      have hhead : ∃ t', jsonMembers F ((k, v) :: kvs) ++ 125 :: rest = 34 :: t' := by
        cases kvs with
        | nil => exact ⟨_, by simp only [jsonMembers, jsonString, List.cons_append]; rfl⟩
        | cons y ys => exact ⟨_, by simp only [jsonMembers, jsonString, List.cons_append]; rfl⟩
      obtain ⟨t', ht'⟩ := hhead
      simp only [writeJSONValue, jsonOf, List.cons_append, List.append_assoc, List.nil_append, parseV]
      simp only [skipWs_nonws 123 _ (by decide), show ((123 : UInt8) = 110) = False by decide,
        show ((123 : UInt8) = 116) = False by decide, show ((123 : UInt8) = 102) = False by decide,
        show ((123 : UInt8) = 34) = False by decide, show ((123 : UInt8) = 91) = False by decide, if_false, if_true]
      rw [ht'] at ih ⊢
      rw [skipWs_nonws 34 t' (by decide)]
      split
      · rename_i heq; simp at heq
      · rw [ih]; rfl
termination_by v => sizeOf v
decreasing_by all_goals (simp_wf; try omega)
/-- one or more values separated by commas and closed by `]` -/
theorem parseElems_list (F : FloatFmt) (hF : FloatOK F) : ∀ (x : GoVal) (xs : List GoVal) (f : Nat) (rest : Bytes),
    needList (x :: xs) ≤ f → parseElems f (jsonElems F (x :: xs) ++ 93 :: rest) = some (jsonOfList F (x :: xs), rest)
  | x, [], f, rest, hf => by
    cases f with
    | zero => simp [needList] at hf
    | succ f =>
      have hx : need x ≤ f := by simp only [needList] at hf; omega
      have := parseV_value F hF x f (93 :: rest) hx (jdelim_cons 93 rest (Or.inr (Or.inl rfl)))
      simp [jsonElems, parseElems, this, skipWs, isWs, jsonOfList]
  | x, y :: ys, f, rest, hf => by
    cases f with
    | zero => simp [needList] at hf
    | succ f =>
      have hx : need x ≤ f := by simp only [needList] at hf; omega
      have hys : needList (y :: ys) ≤ f := by simp only [needList] at hf ⊢; omega
      have h1 := parseV_value F hF x f (44 :: (jsonElems F (y :: ys) ++ 93 :: rest)) hx (jdelim_cons 44 _ (Or.inl rfl))
      have h2 := parseElems_list F hF y ys f rest hys
      simp only [jsonElems, List.append_assoc, List.cons_append, parseElems, h1]
      simp [skipWs, isWs, h2, jsonOfList]
termination_by x xs => sizeOf x + sizeOf xs
decreasing_by all_goals (simp_wf; try omega)
/-- one or more members separated by commas and closed by `}` -/
theorem parseMembers_list (F : FloatFmt) (hF : FloatOK F) : ∀ (k : Bytes) (v : GoVal) (kvs : List (Bytes × GoVal)) (f : Nat) (rest : Bytes),
    needKvs ((k, v) :: kvs) ≤ f →
    parseMembers f (jsonMembers F ((k, v) :: kvs) ++ 125 :: rest) = some (jsonOfKvs F ((k, v) :: kvs), rest)
  | k, v, [], f, rest, hf => by
    cases f with
    | zero => simp [needKvs] at hf
    | succ f =>
      have hx : need v ≤ f := by simp only [needKvs] at hf; omega
      have h1 := parseV_value F hF v f (125 :: rest) hx (jdelim_cons 125 rest (Or.inr (Or.inr rfl)))
      have hk := scanStr_jsonBody k (58 :: (writeJSONValue F v ++ 125 :: rest))
      simp only [jsonMembers, jsonString, List.append_assoc, List.cons_append, List.nil_append, parseMembers]
      simp [skipWs, isWs, hk, h1, jsonOfKvs]
  | k, v, (k2, v2) :: more, f, rest, hf => by
    cases f with
    | zero => simp [needKvs] at hf
    | succ f =>
      have hx : need v ≤ f := by simp only [needKvs] at hf; omega
      have hys : needKvs ((k2, v2) :: more) ≤ f := by simp only [needKvs] at hf ⊢; omega
      have h1 := parseV_value F hF v f (44 :: (jsonMembers F ((k2, v2) :: more) ++ 125 :: rest)) hx (jdelim_cons 44 _ (Or.inl rfl))
      have h2 := parseMembers_list F hF k2 v2 more f rest hys
      have hk := scanStr_jsonBody k (58 :: (writeJSONValue F v ++ 44 :: (jsonMembers F ((k2, v2) :: more) ++ 125 :: rest)))
      simp only [jsonMembers, jsonString, List.append_assoc, List.cons_append, List.nil_append, parseMembers]
      simp [skipWs, isWs, hk, h1, h2, jsonOfKvs]
termination_by k v kvs => sizeOf v + sizeOf kvs
decreasing_by all_goals (simp_wf; try omega)
end


/-! ### the fuel of `parse` suffices -/

mutual
theorem need_le (F : FloatFmt) : ∀ v : GoVal, need v ≤ (writeJSONValue F v).length + 1
  | .nil => by simp [need]
  | .bool _ => by simp [need]
  | .int _ => by simp [need]
  | .f64 _ => by simp [need]
  | .f32 _ => by simp [need]
  | .str _ => by simp [need]
  | .arr xs => by
    have := needList_le F xs
    simp only [need, writeJSONValue, List.length_cons, List.length_append, List.length_nil]
    omega
  | .obj kvs => by
    have := needKvs_le F kvs
    simp only [need, writeJSONValue, List.length_cons, List.length_append, List.length_nil]
    omega
theorem needList_le (F : FloatFmt) : ∀ xs : List GoVal, needList xs ≤ (jsonElems F xs).length + 2
  | [] => by simp [needList]
  | [x] => by
    have := need_le F x
    simp only [needList, jsonElems]; omega
  | x :: y :: ys => by
    have h1 := need_le F x
    have h2 := needList_le F (y :: ys)
    simp only [needList, jsonElems, List.length_cons, List.length_append] at h2 ⊢
    omega
theorem needKvs_le (F : FloatFmt) : ∀ kvs : List (Bytes × GoVal), needKvs kvs ≤ (jsonMembers F kvs).length + 2
  | [] => by simp [needKvs]
  | [(k, v)] => by
    have := need_le F v
    simp only [needKvs, jsonMembers, List.length_cons, List.length_append]; omega
  | (k, v) :: kv2 :: rest => by
    have h1 := need_le F v
    have h2 := needKvs_le F (kv2 :: rest)
    simp only [needKvs, jsonMembers, List.length_cons, List.length_append] at h2 ⊢
    omega
end

/-- the complete text of a value is valid JSON denoting `jsonOf` of the value -/
theorem parse_value (F : FloatFmt) (hF : FloatOK F) (v : GoVal) : parse (writeJSONValue F v) = some (jsonOf F v) := by
  unfold parse
  have h := parseV_value F hF v (2 * (writeJSONValue F v).length + 2) [] (by have := need_le F v; omega) (by intro c hc; simp at hc)
  simp only [List.append_nil] at h
  rw [h]
  simp [skipWs]

/-! ### `jsonOf v` is the JSON value of `v` in the sense of the spec -/

theorem floatAgrees_floatJ (nf nan neg : Bool) (text : Bytes)
    (h1 : isNonFiniteText text = false → nf = false)
    (h2 : isNonFiniteText text = true → nf = true ∧ nonFiniteSpelling nan neg text = true) :
    floatAgrees nf nan neg text (floatJ text) = true := by
  unfold floatJ
  by_cases hs : isNonFiniteText text = true
  · simp [hs, floatAgrees, (h2 hs).1, (h2 hs).2]
  · have hs' : isNonFiniteText text = false := by simpa using hs
    simp [hs', floatAgrees, h1 hs']

mutual
theorem agrees_jsonOf (F : FloatFmt) (hF : FloatOK F) : ∀ v : GoVal, agrees F v (jsonOf F v) = true
  | .nil => by simp [agrees, jsonOf]
  | .bool _ => by simp [agrees, jsonOf]
  | .int _ => by simp [agrees, jsonOf]
  | .f64 b => by
    simp only [agrees, jsonOf]
    exact floatAgrees_floatJ _ _ _ _ (fun h => (hF.num64 b h).1) (hF.special64 b)
  | .f32 b => by
    simp only [agrees, jsonOf]
    exact floatAgrees_floatJ _ _ _ _ (fun h => (hF.num32 b h).1) (hF.special32 b)
  | .str _ => by simp [agrees, jsonOf]
  | .arr xs => by simp only [agrees, jsonOf]; exact agreesList_jsonOf F hF xs
  | .obj kvs => by simp only [agrees, jsonOf]; exact agreesKvs_jsonOf F hF kvs
theorem agreesList_jsonOf (F : FloatFmt) (hF : FloatOK F) : ∀ xs : List GoVal, agreesList F xs (jsonOfList F xs) = true
  | [] => by simp [agreesList, jsonOfList]
  | x :: xs => by simp [agreesList, jsonOfList, agrees_jsonOf F hF x, agreesList_jsonOf F hF xs]
theorem agreesKvs_jsonOf (F : FloatFmt) (hF : FloatOK F) : ∀ kvs : List (Bytes × GoVal), agreesKvs F kvs (jsonOfKvs F kvs) = true
  | [] => by simp [agreesKvs, jsonOfKvs]
  | (k, v) :: rest => by simp [agreesKvs, jsonOfKvs, agrees_jsonOf F hF v, agreesKvs_jsonOf F hF rest]
end

/-- mapToJSON writes valid JSON whose value is the map -/
theorem textAgrees_mapToJSON (F : FloatFmt) (hF : FloatOK F) (kvs : List (Bytes × GoVal)) :
    textAgrees F (.obj kvs) (mapToJSON F kvs) = true := by
  have h := parse_value F hF (.obj kvs)
  simp only [writeJSONValue] at h
  simp only [textAgrees, mapToJSON, h]
  exact agrees_jsonOf F hF (.obj kvs)

end PgVerif.Proofs.ExportJson
