/-
  Helper lemmas for C15 (search): value matching, the early-exit loop, the column order.
-/
import PgVerif.Model.Search
import PgVerif.Model.SearchOrig
namespace PgVerif.Proofs.Search
open PgVerif PgVerif.Spec.Search PgVerif.Model.Search
open scoped List

/-! ### matchValue computes cellMatches -/

mutual
theorem matchValue_eq (re : Bytes → Bool) (sh : GoVal → Bytes) : ∀ v, matchValue re sh v = cellMatches re sh v
  | .nil => by simp [matchValue, cellMatches]
  | .str s => by simp [matchValue, cellMatches]
  | .bool b => by simp [matchValue, cellMatches]
  | .int i => by simp [matchValue, cellMatches]
  | .f64 b => by simp [matchValue, cellMatches]
  | .f32 b => by simp [matchValue, cellMatches]
  | .arr xs => by simp only [matchValue, cellMatches]; exact matchElems_eq re sh xs
  | .obj kvs => by simp only [matchValue, cellMatches]; exact matchMap_eq re sh kvs
theorem matchElems_eq (re : Bytes → Bool) (sh : GoVal → Bytes) : ∀ xs, matchElems re sh xs = anyMatches re sh xs
  | [] => by simp [matchElems, anyMatches]
  | x :: xs => by
    simp only [matchElems, anyMatches]
    rw [matchValue_eq re sh x, matchElems_eq re sh xs]
    cases cellMatches re sh x <;> simp
theorem matchMap_eq (re : Bytes → Bool) (sh : GoVal → Bytes) : ∀ kvs, matchMap re sh kvs = kvMatches re sh kvs
  | [] => by simp [matchMap, kvMatches]
  | (k, v) :: rest => by
    simp only [matchMap, kvMatches]
    rw [matchValue_eq re sh v, matchMap_eq re sh rest]
    cases re k <;> cases cellMatches re sh v <;> simp
end

/-- an object matches iff one of its entries does (key or value) — as an `any`, so visibly order-free -/
theorem kvMatches_any (re : Bytes → Bool) (sh : GoVal → Bytes) (kvs : List (Bytes × GoVal)) :
    kvMatches re sh kvs = kvs.any fun kv => re kv.1 || cellMatches re sh kv.2 := by
  induction kvs with
  | nil => simp [kvMatches]
  | cons kv rest ih => obtain ⟨k, v⟩ := kv; simp [kvMatches, ih, Bool.or_assoc]

theorem anyMatches_any (re : Bytes → Bool) (sh : GoVal → Bytes) (xs : List GoVal) :
    anyMatches re sh xs = xs.any (cellMatches re sh) := by
  induction xs with
  | nil => simp [anyMatches]
  | cons x xs ih => simp [anyMatches, ih]

theorem any_perm {α} (f : α → Bool) {l₁ l₂ : List α} (h : l₁ ~ l₂) : l₁.any f = l₂.any f := by
  rw [Bool.eq_iff_iff]
  simp only [List.any_eq_true]
  constructor
  · rintro ⟨x, hx, hf⟩; exact ⟨x, h.mem_iff.1 hx, hf⟩
  · rintro ⟨x, hx, hf⟩; exact ⟨x, h.mem_iff.2 hx, hf⟩

/-- `matchMap` does not depend on the order in which the map is walked -/
theorem matchMap_perm (re : Bytes → Bool) (sh : GoVal → Bytes) {m₁ m₂ : List (Bytes × GoVal)} (h : m₁ ~ m₂) :
    matchMap re sh m₁ = matchMap re sh m₂ := by
  rw [matchMap_eq, matchMap_eq, kvMatches_any, kvMatches_any]
  exact any_perm _ h

/-! ### a value matches iff one of its texts does -/

mutual
theorem cellMatches_texts (re : Bytes → Bool) (sh : GoVal → Bytes) : ∀ v, cellMatches re sh v = (searchTexts sh v).any re
  | .nil => by simp [cellMatches, searchTexts]
  | .str s => by simp [cellMatches, searchTexts]
  | .bool b => by simp [cellMatches, searchTexts]
  | .int i => by simp [cellMatches, searchTexts]
  | .f64 b => by simp [cellMatches, searchTexts]
  | .f32 b => by simp [cellMatches, searchTexts]
  | .arr xs => by simp only [cellMatches, searchTexts]; exact anyMatches_texts re sh xs
  | .obj kvs => by simp only [cellMatches, searchTexts]; exact kvMatches_texts re sh kvs
theorem anyMatches_texts (re : Bytes → Bool) (sh : GoVal → Bytes) : ∀ xs, anyMatches re sh xs = (searchTextsList sh xs).any re
  | [] => by simp [anyMatches, searchTextsList]
  | x :: xs => by
    simp only [anyMatches, searchTextsList, List.any_append]
    rw [cellMatches_texts re sh x, anyMatches_texts re sh xs]
theorem kvMatches_texts (re : Bytes → Bool) (sh : GoVal → Bytes) : ∀ kvs, kvMatches re sh kvs = (searchTextsKvs sh kvs).any re
  | [] => by simp [kvMatches, searchTextsKvs]
  | (k, v) :: rest => by
    simp only [kvMatches, searchTextsKvs, List.any_cons, List.any_append]
    rw [cellMatches_texts re sh v, kvMatches_texts re sh rest, Bool.or_assoc]
end

/-! ### the loop with early return -/

/-- keep at most `lim` results; the flag says that the limit was reached -/
def cut {β} (lim : Option Nat) (l : List β) : List β × Bool :=
  match lim with
  | none => (l, false)
  | some m => if l.length ≥ m then (l.take m, true) else (l, false)

/-- a loop body that appends `f x` to the results and returns as soon as the limit is reached -/
def BodySpec {α β} (lim : Option Nat) (body : α → List β → List β × Bool) (f : α → List β) : Prop :=
  ∀ x acc, (∀ m, lim = some m → acc.length < m) → body x acc = cut lim (acc ++ f x)

theorem loopM_spec {α β} (lim : Option Nat) (body : α → List β → List β × Bool) (f : α → List β)
    (hb : BodySpec lim body f) : BodySpec lim (loopM body) (fun xs => xs.flatMap f) := by
  intro xs
  induction xs with
  | nil =>
    intro acc hacc
    cases lim with
    | none => simp [loopM, cut]
    | some m =>
      have := hacc m rfl
      simp only [loopM, cut, List.flatMap_nil, List.append_nil]
      rw [if_neg (by omega)]
  | cons x xs ih =>
    intro acc hacc
    simp only [loopM, List.flatMap_cons]
    rw [hb x acc hacc]
    cases lim with
    | none =>
      simp only [cut]
      rw [ih (acc ++ f x) (by intro m h; cases h)]
      simp [cut]
    | some m =>
      simp only [cut]
      by_cases hlen : (acc ++ f x).length ≥ m
      · rw [if_pos hlen]
        simp only
        have h2 : (acc ++ (f x ++ xs.flatMap f)).length ≥ m := by
          simp only [List.length_append] at hlen ⊢; omega
        rw [if_pos h2, ← List.append_assoc, List.take_append_of_le_length hlen]
      · rw [if_neg hlen]
        simp only
        rw [ih (acc ++ f x) (by intro m' h; cases h; omega)]
        simp [cut, List.append_assoc]

theorem cut_fst {β} (lim : Option Nat) (l : List β) :
    (cut lim l).1 = match lim with | none => l | some m => l.take m := by
  cases lim with
  | none => rfl
  | some m =>
    simp only [cut]
    by_cases h : l.length ≥ m
    · rw [if_pos h]
    · rw [if_neg h, List.take_of_length_le (by omega)]

/-! ### bytewise order of Go strings (`sort.Strings`) is a total order -/

theorem u8_lt_iff (a b : UInt8) : a < b ↔ a.toNat < b.toNat := UInt8.lt_iff_toNat_lt

theorem u8_eq_of_not_lt (a b : UInt8) (h1 : ¬ a < b) (h2 : ¬ b < a) : a = b := by
  rw [u8_lt_iff] at h1 h2
  exact UInt8.toNat_inj.1 (by omega)

theorem bytesLt_asymm : ∀ a b : Bytes, bytesLt a b = true → bytesLt b a = false
  | [], [] => by simp [bytesLt]
  | [], _ :: _ => by simp [bytesLt]
  | _ :: _, [] => by simp [bytesLt]
  | x :: xs, y :: ys => by
    simp only [bytesLt]
    by_cases h1 : x < y
    · have h2 : ¬ y < x := by rw [u8_lt_iff] at h1 ⊢; omega
      simp [h1, h2]
    · by_cases h2 : y < x
      · simp [h1, h2]
      · simp only [h1, h2, if_false]; exact bytesLt_asymm xs ys

theorem bytesLe_total (a b : Bytes) : (bytesLe a b || bytesLe b a) = true := by
  simp only [bytesLe, Bool.or_eq_true, Bool.not_eq_true']
  cases h : bytesLt b a
  · exact Or.inl rfl
  · exact Or.inr (bytesLt_asymm b a h)

theorem bytesLe_antisymm : ∀ a b : Bytes, bytesLe a b = true → bytesLe b a = true → a = b
  | [], [] => fun _ _ => rfl
  | [], _ :: _ => by simp [bytesLe, bytesLt]
  | _ :: _, [] => by simp [bytesLe, bytesLt]
  | x :: xs, y :: ys => by
    simp only [bytesLe, bytesLt, Bool.not_eq_true']
    by_cases h1 : x < y
    · simp [h1]
    · by_cases h2 : y < x
      · simp [h1, h2]
      · simp only [h1, h2, if_false]
        intro ha hb
        have := bytesLe_antisymm xs ys (by simp [bytesLe, ha]) (by simp [bytesLe, hb])
        rw [u8_eq_of_not_lt x y h1 h2, this]

/-- `c < a → c < b ∨ b < a` (negative transitivity), the contrapositive of transitivity of `≤` -/
theorem bytesLt_negtrans : ∀ a b c : Bytes, bytesLt c a = true → bytesLt c b = true ∨ bytesLt b a = true
  | [], _, c => by cases c <;> simp [bytesLt]
  | _ :: _, [], [] => by simp [bytesLt]
  | _ :: _, [], _ :: _ => by simp [bytesLt]
  | _ :: _, _ :: _, [] => by simp [bytesLt]
  | x :: xs, y :: ys, z :: zs => by
    simp only [bytesLt]
    by_cases hzx : z < x
    · simp only [hzx, if_true, forall_const]
      by_cases hzy : z < y
      · simp [hzy]
      · by_cases hyz : y < z
        · have hyx : y < x := by rw [u8_lt_iff] at *; omega
          simp [hyx]
        · have : z = y := u8_eq_of_not_lt z y hzy hyz
          subst this
          simp [hzx]
    · by_cases hxz : x < z
      · simp [hzx, hxz]
      · have : z = x := u8_eq_of_not_lt z x hzx hxz
        subst this
        simp only [hzx, if_false]
        intro h
        by_cases hzy : z < y
        · simp [hzy]
        · by_cases hyz : y < z
          · simp [hyz]
          · simp only [hzy, hyz, if_false]
            exact bytesLt_negtrans xs ys zs h

theorem bytesLe_trans (a b c : Bytes) (h1 : bytesLe a b = true) (h2 : bytesLe b c = true) : bytesLe a c = true := by
  simp only [bytesLe, Bool.not_eq_true'] at *
  cases h : bytesLt c a
  · rfl
  · rcases bytesLt_negtrans a b c h with h' | h'
    · rw [h2] at h'; cases h'
    · rw [h1] at h'; cases h'

/-! ### the column order -/

theorem lookup_isSome (c : Bytes) (row : Row) : (lookup c row).isSome = (row.map (·.1)).contains c := by
  induction row with
  | nil => simp [lookup]
  | cons kv rest ih =>
    obtain ⟨k, v⟩ := kv
    simp only [lookup, List.map_cons, List.contains_cons]
    by_cases h : k = c
    · subst h; simp
    · rw [if_neg h, ih]
      have : (c == k) = false := by simp; exact fun h' => h h'.symm
      simp [this]

theorem declaredKeys_eq (row : Row) (seen cols : List Bytes) :
    declaredKeys row seen cols = declaredIn (row.map (·.1)) seen cols := by
  induction cols generalizing seen with
  | nil => simp [declaredKeys, declaredIn]
  | cons c cs ih => simp only [declaredKeys, declaredIn, lookup_isSome, ih]

/-- the fixed code walks a row in the specified column order -/
theorem rowKeys_eq (cols : List Bytes) (row : Row) : rowKeys cols row = colOrder cols row := by
  simp only [rowKeys, colOrder, declaredKeys_eq]

theorem mem_declaredIn (keys : List Bytes) : ∀ (cols seen : List Bytes) (c : Bytes),
    c ∈ declaredIn keys seen cols ↔ c ∈ cols ∧ c ∈ keys ∧ c ∉ seen := by
  intro cols
  induction cols with
  | nil => intro seen c; simp [declaredIn]
  | cons x xs ih =>
    intro seen c
    simp only [declaredIn]
    by_cases hx : (keys.contains x && !seen.contains x) = true
    · rw [if_pos hx]
      simp only [Bool.and_eq_true, List.contains_iff_mem, Bool.not_eq_true', ← Bool.not_eq_true] at hx
      simp only [List.mem_cons, ih]
      constructor
      · rintro (rfl | ⟨h1, h2, h3⟩)
        · exact ⟨Or.inl rfl, hx.1, hx.2⟩
        · exact ⟨Or.inr h1, h2, fun h => h3 (Or.inr h)⟩
      · rintro ⟨h1 | h1, h2, h3⟩
        · exact Or.inl h1
        · by_cases hcx : c = x
          · exact Or.inl hcx
          · exact Or.inr ⟨h1, h2, fun h => by rcases h with h | h; exact hcx h; exact h3 h⟩
    · rw [if_neg hx]
      simp only [Bool.and_eq_true, List.contains_iff_mem, Bool.not_eq_true', ← Bool.not_eq_true, not_and, Classical.not_not] at hx
      simp only [List.mem_cons, ih]
      constructor
      · rintro ⟨h1, h2, h3⟩; exact ⟨Or.inr h1, h2, h3⟩
      · rintro ⟨h1 | h1, h2, h3⟩
        · subst h1; exact absurd (hx h2) h3
        · exact ⟨h1, h2, h3⟩

theorem nodup_declaredIn (keys : List Bytes) : ∀ (cols seen : List Bytes), (declaredIn keys seen cols).Nodup := by
  intro cols
  induction cols with
  | nil => intro seen; simp [declaredIn]
  | cons x xs ih =>
    intro seen
    simp only [declaredIn]
    by_cases hx : (keys.contains x && !seen.contains x) = true
    · rw [if_pos hx]
      refine List.nodup_cons.2 ⟨?_, ih _⟩
      intro hmem
      have := (mem_declaredIn keys xs (x :: seen) x).1 hmem
      exact this.2.2 (List.mem_cons_self)
    · rw [if_neg hx]; exact ih _

theorem mem_colOrder (cols : List Bytes) (row : Row) (c : Bytes) : c ∈ colOrder cols row ↔ c ∈ row.map (·.1) := by
  simp only [colOrder, List.mem_append, (List.mergeSort_perm _ _).mem_iff, List.mem_filter, mem_declaredIn,
    Bool.not_eq_true', ← Bool.not_eq_true, List.contains_iff_mem, List.not_mem_nil, not_false_eq_true, and_true]
  constructor
  · rintro (⟨_, h⟩ | ⟨h, _⟩) <;> exact h
  · intro h
    by_cases hc : c ∈ cols
    · exact Or.inl ⟨hc, h⟩
    · exact Or.inr ⟨h, fun h' => hc h'.1⟩

theorem nodup_colOrder (cols : List Bytes) (row : Row) (h : Row.WF row) : (colOrder cols row).Nodup := by
  simp only [colOrder]
  refine List.nodup_append.2 ⟨nodup_declaredIn _ _ _, ?_, ?_⟩
  · exact (List.mergeSort_perm _ _).nodup_iff.2 (h.filter _)
  · intro a ha b hb hab
    subst hab
    have := (List.mergeSort_perm _ _).mem_iff.1 hb
    simp only [List.mem_filter, Bool.not_eq_true', ← Bool.not_eq_true, List.contains_iff_mem] at this
    exact this.2 ha

/-- the column order is a rearrangement of the row's keys -/
theorem colOrder_perm (cols : List Bytes) (row : Row) (h : Row.WF row) : colOrder cols row ~ row.map (·.1) :=
  (List.perm_ext_iff_of_nodup (nodup_colOrder cols row h) h).2 (mem_colOrder cols row)

theorem lookup_of_not_mem (c : Bytes) (k : Bytes) (v : GoVal) (rest : Row) (h : c ≠ k) :
    lookup c ((k, v) :: rest) = lookup c rest := by
  simp only [lookup]; rw [if_neg (fun h' => h h'.symm)]

/-- in a map, every binding is what `lookup` finds -/
theorem lookup_of_mem (row : Row) (h : Row.WF row) (k : Bytes) (v : GoVal) (hm : (k, v) ∈ row) : lookup k row = some v := by
  induction row with
  | nil => cases hm
  | cons kv rest ih =>
    obtain ⟨k', v'⟩ := kv
    have hn : k' ∉ rest.map (·.1) ∧ (rest.map (·.1)).Nodup := by
      simpa [Row.WF, List.nodup_cons] using h
    simp only [lookup]
    rcases List.mem_cons.1 hm with he | hr
    · cases he; simp
    · have hne : k' ≠ k := fun e => hn.1 (e ▸ List.mem_map.2 ⟨(k, v), hr, rfl⟩)
      rw [if_neg hne]
      exact ih hn.2 hr

theorem lookup_mem (row : Row) (k : Bytes) (v : GoVal) (h : lookup k row = some v) : (k, v) ∈ row := by
  induction row with
  | nil => cases h
  | cons kv rest ih =>
    obtain ⟨k', v'⟩ := kv
    simp only [lookup] at h
    by_cases he : k' = k
    · rw [if_pos he] at h; cases h; subst he; exact List.mem_cons_self
    · rw [if_neg he] at h; exact List.mem_cons_of_mem _ (ih h)

theorem filterMap_lookup_aux (row : Row) : ∀ l : List (Bytes × GoVal), (∀ kv ∈ l, lookup kv.1 row = some kv.2) →
    (l.map (·.1)).filterMap (fun c => (lookup c row).map fun v => (c, v)) = l
  | [], _ => rfl
  | kv :: rest, h => by
    simp only [List.map_cons, List.filterMap_cons, h kv List.mem_cons_self, Option.map_some]
    rw [filterMap_lookup_aux row rest (fun kv' hk => h kv' (List.mem_cons_of_mem _ hk))]

theorem filterMap_lookup_keys (row : Row) (h : Row.WF row) :
    (row.map (·.1)).filterMap (fun c => (lookup c row).map fun v => (c, v)) = row :=
  filterMap_lookup_aux row row (fun kv hk => lookup_of_mem row h kv.1 kv.2 hk)

/-- the cells of a row in column order are a rearrangement of the row -/
theorem rowCells_perm (cols : List Bytes) (row : Row) (h : Row.WF row) : rowCells cols row ~ row := by
  have := (colOrder_perm cols row h).filterMap (fun c => (lookup c row).map fun v => (c, v))
  rw [filterMap_lookup_keys row h] at this
  exact this

theorem mem_rowCells (cols : List Bytes) (row : Row) (h : Row.WF row) (cv : Bytes × GoVal) :
    cv ∈ rowCells cols row ↔ cv ∈ row := (rowCells_perm cols row h).mem_iff

/-- the column order does not depend on the order in which the Go runtime walks the map -/
theorem colOrder_order_independent (cols : List Bytes) (r₁ r₂ : Row) (hp : r₁ ~ r₂) :
    colOrder cols r₁ = colOrder cols r₂ := by
  have hk : r₁.map (·.1) ~ r₂.map (·.1) := hp.map _
  have hd : ∀ seen, declaredIn (r₁.map (·.1)) seen cols = declaredIn (r₂.map (·.1)) seen cols := by
    induction cols with
    | nil => intro seen; simp [declaredIn]
    | cons c cs ih =>
      intro seen
      have hc : (r₁.map (·.1)).contains c = (r₂.map (·.1)).contains c := by
        rw [Bool.eq_iff_iff]; simp only [List.contains_iff_mem]; exact hk.mem_iff
      simp only [declaredIn, hc, ih]
  simp only [colOrder, hd]
  congr 1
  -- two sorted rearrangements of the same distinct keys are equal
  have trans : ∀ a b c : Bytes, bytesLe a b = true → bytesLe b c = true → bytesLe a c = true := bytesLe_trans
  have total : ∀ a b : Bytes, (bytesLe a b || bytesLe b a) = true := bytesLe_total
  apply List.Perm.eq_of_pairwise (le := fun a b => bytesLe a b = true)
  · intro a b _ _ hab hba; exact bytesLe_antisymm a b hab hba
  · exact List.pairwise_mergeSort (le := bytesLe) trans total _
  · exact List.pairwise_mergeSort (le := bytesLe) trans total _
  · exact (List.mergeSort_perm _ _).trans ((hk.filter _).trans (List.mergeSort_perm _ _).symm)

end PgVerif.Proofs.Search
