/-
  PostgreSQL's key order (length, then bytes) is a strict order: keys stored strictly increasing are
  pairwise distinct.  Links Spec.Json.wf to the hypothesis `covered` of the round-trip theorem.
-/
import PgVerif.Proofs.JsonbDoc
namespace PgVerif.Proofs
open PgVerif PgVerif.Model

theorem bytesLt_irrefl (a : Bytes) : Spec.bytesLt a a = false := by
  induction a with
  | nil => rfl
  | cons x xs ih =>
    simp only [Spec.bytesLt]
    have : ¬ x < x := by simp [UInt8.lt_iff_toNat_lt]
    simp [this, ih]

theorem bytesLt_trans (a b c : Bytes) (h1 : Spec.bytesLt a b = true) (h2 : Spec.bytesLt b c = true) :
    Spec.bytesLt a c = true := by
  induction a generalizing b c with
  | nil =>
    cases b with
    | nil => simp [Spec.bytesLt] at h1
    | cons y ys =>
      cases c with
      | nil => simp [Spec.bytesLt] at h2
      | cons z zs => rfl
  | cons x xs ih =>
    cases b with
    | nil => simp [Spec.bytesLt] at h1
    | cons y ys =>
      cases c with
      | nil => simp [Spec.bytesLt] at h2
      | cons z zs =>
        simp only [Spec.bytesLt] at h1 h2 ⊢
        simp only [UInt8.lt_iff_toNat_lt] at h1 h2 ⊢
        by_cases xy : x.toNat < y.toNat
        · by_cases yz : y.toNat < z.toNat
          · have : x.toNat < z.toNat := by omega
            simp [this]
          · simp only [yz, if_false] at h2
            by_cases zy : z.toNat < y.toNat
            · simp [zy] at h2
            · have : x.toNat < z.toNat := by omega
              simp [this]
        · simp only [xy, if_false] at h1
          by_cases yx : y.toNat < x.toNat
          · simp [yx] at h1
          · simp only [yx, if_false] at h1
            have exy : x.toNat = y.toNat := by omega
            by_cases yz : y.toNat < z.toNat
            · have : x.toNat < z.toNat := by omega
              simp [this]
            · simp only [yz, if_false] at h2
              by_cases zy : z.toNat < y.toNat
              · simp [zy] at h2
              · simp only [zy, if_false] at h2
                have : ¬ x.toNat < z.toNat := by omega
                have : ¬ z.toNat < x.toNat := by omega
                simp [*]
                exact ih ys zs h1 h2

theorem keyLt_irrefl (a : Bytes) : Spec.keyLt a a = false := by
  simp [Spec.keyLt, bytesLt_irrefl]

theorem keyLt_trans (a b c : Bytes) (h1 : Spec.keyLt a b = true) (h2 : Spec.keyLt b c = true) :
    Spec.keyLt a c = true := by
  simp only [Spec.keyLt, Bool.or_eq_true, decide_eq_true_eq, Bool.and_eq_true, beq_iff_eq] at h1 h2 ⊢
  rcases h1 with h1 | ⟨e1, l1⟩
  · rcases h2 with h2 | ⟨e2, l2⟩
    · left; omega
    · left; omega
  · rcases h2 with h2 | ⟨e2, l2⟩
    · left; omega
    · right; exact ⟨by omega, bytesLt_trans a b c l1 l2⟩

theorem keysSorted_lt_all (k : Bytes) (ks : List Bytes) (h : Spec.keysSorted (k :: ks) = true) :
    ∀ x ∈ ks, Spec.keyLt k x = true := by
  induction ks generalizing k with
  | nil => intro x hx; simp at hx
  | cons y ys ih =>
    simp only [Spec.keysSorted, Bool.and_eq_true] at h
    intro x hx
    rcases List.mem_cons.mp hx with e | m
    · subst e; exact h.1
    · exact keyLt_trans k y x h.1 (ih y h.2 x m)

theorem keysSorted_tail (k : Bytes) (ks : List Bytes) (h : Spec.keysSorted (k :: ks) = true) :
    Spec.keysSorted ks = true := by
  cases ks with
  | nil => rfl
  | cons y ys => simp only [Spec.keysSorted, Bool.and_eq_true] at h; exact h.2

/-- keys stored in PostgreSQL's strict order are pairwise distinct -/
theorem keysSorted_nodup (ks : List Bytes) (h : Spec.keysSorted ks = true) : ks.Nodup := by
  induction ks with
  | nil => exact List.nodup_nil
  | cons k ks ih =>
    rw [List.nodup_cons]
    refine ⟨?_, ih (keysSorted_tail k ks h)⟩
    intro hm
    have := keysSorted_lt_all k ks h k hm
    rw [keyLt_irrefl] at this
    exact Bool.false_ne_true this

/-- every well-formed document is covered by the round-trip theorem -/
theorem covered_of_wf (j : Spec.Json) : j.wf = true → covered j = true := by
  refine Spec.Json.rec
    (motive_1 := fun j => j.wf = true → covered j = true)
    (motive_2 := fun xs => Spec.wfList xs = true → coveredList xs = true)
    (motive_3 := fun kvs => Spec.wfKvs kvs = true → coveredKvs kvs = true)
    (motive_4 := fun p => p.2.wf = true → covered p.2 = true)
    ?_ ?_ ?_ ?_ ?_ ?_ ?_ ?_ ?_ ?_ ?_ j
  · intro _; rfl
  · intro b _; rfl
  · intro n l h
    simp only [Spec.Json.wf] at h
    simp only [covered, h]
  · intro s _; rfl
  · intro xs ih h
    simp only [Spec.Json.wf] at h
    simp only [covered]
    exact ih h
  · intro kvs ih h
    simp only [Spec.Json.wf, Bool.and_eq_true] at h
    simp only [covered, Bool.and_eq_true, decide_eq_true_eq]
    exact ⟨keysSorted_nodup _ h.1, ih h.2⟩
  · intro _; rfl
  · intro x xs ihx ihxs h
    simp only [Spec.wfList, Bool.and_eq_true] at h
    simp only [coveredList, Bool.and_eq_true]
    exact ⟨ihx h.1, ihxs h.2⟩
  · intro _; rfl
  · intro p ps ihp ihps h
    obtain ⟨k, v⟩ := p
    simp only [Spec.wfKvs, Bool.and_eq_true] at h
    simp only [coveredKvs, Bool.and_eq_true]
    exact ⟨ihp h.1.2, ihps h.2⟩
  · intro k v ih; exact ih

end PgVerif.Proofs
