/-
  Helper lemmas for C16: the generic fixed-offset record lemma (`read_field`, DESIGN.md B.12), signed
  round trips, text-helper equalities between the model and the spec, and the reading of every
  pg_control field from an encoded image.
-/
import PgVerif.Model.ControlView
import PgVerif.Proofs.Crc
namespace PgVerif.Proofs
open PgVerif PgVerif.Spec

/-! ### fixed-offset records -/

theorem encFields_take_length (fs : List Field) (i : Nat) : (encFields (fs.take i)).length = offsetOf fs i := by
  unfold encFields offsetOf
  induction fs.take i with
  | nil => rfl
  | cons f t ih => simp [ih]

theorem encFields_length (fs : List Field) : (encFields fs).length = (fs.map (·.1)).sum := by
  unfold encFields
  induction fs with
  | nil => rfl
  | cons f t ih => simp [ih]

theorem read_field (fs : List Field) (rest : Bytes) (i : Nat) (hi : i < fs.length)
    (hv : fs[i].2 < 256 ^ fs[i].1) :
    rdAt fs[i].1 (offsetOf fs i) (encFields fs ++ rest) = fs[i].2 := by
  have hsplit : fs = fs.take i ++ fs[i] :: fs.drop (i+1) := by
    rw [List.getElem_cons_drop hi, List.take_append_drop]
  have henc : encFields fs = encFields (fs.take i) ++ (le fs[i].1 fs[i].2 ++ encFields (fs.drop (i+1))) := by
    have key : ∀ (a : List Field) (x : Field) (b : List Field),
        encFields (a ++ x :: b) = encFields a ++ (le x.1 x.2 ++ encFields b) := by
      intro a x b; simp [encFields]
    conv => lhs; rw [hsplit]
    exact key _ _ _
  unfold rdAt
  rw [henc, List.append_assoc, ← encFields_take_length fs i, List.drop_left, List.append_assoc]
  exact rd_le _ _ _ hv

/-- the form used below: field `i` has width `w`, value `v` and sits at offset `off` -/
theorem field_at (fs : List Field) (rest : Bytes) (i w off v : Nat) (hi : i < fs.length)
    (hw : fs[i].1 = w) (hv : fs[i].2 = v) (hoff : offsetOf fs i = off) (hb : v < 256 ^ w) :
    rd w ((encFields fs ++ rest).drop off) = v := by
  have := read_field fs rest i hi (by rw [hw, hv]; exact hb)
  rw [hw, hv, hoff] at this
  exact this

/-- variant with the widths given as a closed list, so that offsets are closed terms -/
theorem field_at' (fs : List Field) (ws : List Nat) (hws : fs.map (·.1) = ws) (rest : Bytes) (i w off v : Nat)
    (hi : i < fs.length) (hw : fs[i].1 = w) (hv : fs[i].2 = v) (hoff : (ws.take i).sum = off) (hb : v < 256 ^ w) :
    rd w ((encFields fs ++ rest).drop off) = v := by
  apply field_at fs rest i w off v hi hw hv _ hb
  unfold offsetOf
  rw [← hoff, ← hws, List.map_take]

/-! ### two's complement round trips -/

theorem toSigned_ofSigned32 (v : Int) (h1 : -(2 ^ 31 : Int) ≤ v) (h2 : v < 2 ^ 31) :
    toSigned 32 (ofSigned 32 v) = v := by
  unfold toSigned ofSigned
  simp only [show (32 - 1 : Nat) = 31 from rfl]
  have e : ((2 ^ 32 : Nat) : Int) = 4294967296 := by decide
  rw [e]
  split <;> omega

theorem toSigned_ofSigned64 (v : Int) (h1 : -(2 ^ 63 : Int) ≤ v) (h2 : v < 2 ^ 63) :
    toSigned 64 (ofSigned 64 v) = v := by
  unfold toSigned ofSigned
  simp only [show (64 - 1 : Nat) = 63 from rfl]
  have e : ((2 ^ 64 : Nat) : Int) = 18446744073709551616 := by decide
  rw [e]
  split <;> omega

theorem ofSigned32_lt (v : Int) : ofSigned 32 v < 256 ^ 4 := by
  unfold ofSigned
  have e : ((2 ^ 32 : Nat) : Int) = 4294967296 := by decide
  rw [e]; omega

theorem ofSigned64_lt (v : Int) : ofSigned 64 v < 256 ^ 8 := by
  unfold ofSigned
  have e : ((2 ^ 64 : Nat) : Int) = 18446744073709551616 := by decide
  rw [e]; omega

theorem toSigned32_nat (n : Nat) (h : n < 2 ^ 31) : toSigned 32 n = (n : Int) := by
  unfold toSigned
  rw [if_pos (by simpa using h)]

/-! ### text helpers: the model's `fmt` functions are the spec's -/

theorem hexDigitsAux_eq (fuel v : Nat) (acc : List Char) :
    Model.hexDigitsAux fuel v acc = Spec.hexDigitsAux fuel v acc := by
  induction fuel generalizing v acc with
  | zero => rfl
  | succ n ih =>
    simp only [Model.hexDigitsAux, Spec.hexDigitsAux]
    split
    · rfl
    · exact ih _ _

theorem fmtX_eq (v : Nat) : Model.fmtX v = Spec.hexX v := by
  unfold Model.fmtX Spec.hexX; rw [hexDigitsAux_eq]

theorem fmt08X_eq (v : Nat) : Model.fmt08X v = Spec.hex08X v := by
  unfold Model.fmt08X Spec.hex08X; simp only [hexDigitsAux_eq]

theorem ctlFormatLSN_eq (lsn : Nat) (h : lsn < 2 ^ 64) : Model.ctlFormatLSN lsn = Spec.lsnText lsn := by
  unfold Model.ctlFormatLSN Spec.lsnText
  have h1 : (lsn >>> 32) % 2 ^ 32 = lsn / 2 ^ 32 := by
    rw [Nat.shiftRight_eq_div_pow]; omega
  have h2 : (lsn &&& 0xFFFFFFFF) % 2 ^ 32 = lsn % 2 ^ 32 := by
    have := land_mask lsn 32
    simp only [show (2 ^ 32 - 1 : Nat) = 0xFFFFFFFF from rfl] at this
    rw [this]; omega
  rw [h1, h2, fmtX_eq, fmtX_eq]

theorem dbStateString_eq (s : Int) : Model.dbStateString s = Spec.stateName s := by
  unfold Model.dbStateString Spec.stateName
  by_cases h0 : s = 0; · subst h0; rfl
  by_cases h1 : s = 1; · subst h1; rfl
  by_cases h2 : s = 2; · subst h2; rfl
  by_cases h3 : s = 3; · subst h3; rfl
  by_cases h4 : s = 4; · subst h4; rfl
  by_cases h5 : s = 5; · subst h5; rfl
  by_cases h6 : s = 6; · subst h6; rfl
  rw [if_neg h0, if_neg h1, if_neg h2, if_neg h3, if_neg h4, if_neg h5, if_neg h6, if_neg (by omega)]

theorem formatWALFilename_eq (lsn tli segsz : Nat) (hl : lsn < 2 ^ 64) (hs : segsz ∈ legalSegSizes) :
    Model.formatWALFilename lsn tli segsz = .ok (Spec.xlogFileName tli lsn segsz) := by
  unfold Model.formatWALFilename Spec.xlogFileName
  simp only [fmt08X_eq]
  have key : ∀ k, 20 ≤ k → k ≤ 30 → segsz = 2 ^ k →
      segsz ≠ 0 ∧ 0x100000000 / segsz ≠ 0 ∧ (lsn / segsz / (0x100000000 / segsz)) % 2 ^ 32 = lsn / segsz / (2 ^ 32 / segsz) ∧
      (lsn / segsz % (0x100000000 / segsz)) % 2 ^ 32 = lsn / segsz % (2 ^ 32 / segsz) := by
    intro k hk1 hk2 hk
    have hpos : 0 < segsz := by rw [hk]; exact Nat.pow_pos (by decide)
    have hdiv : 2 ^ 32 / segsz = 2 ^ (32 - k) := by
      rw [hk]; exact Nat.pow_div (by omega) (by decide)
    have hq : lsn / segsz / 2 ^ (32 - k) = lsn / 2 ^ 32 := by
      rw [Nat.div_div_eq_div_mul, hk, ← Nat.pow_add]; congr 2; omega
    have hp12 : 2 ^ (32 - k) ≤ 2 ^ 32 := Nat.pow_le_pow_right (by decide) (by omega)
    have hppos : 0 < 2 ^ (32 - k) := Nat.pow_pos (by decide)
    have e32 : (0x100000000 : Nat) = 2 ^ 32 := by decide
    rw [e32, hdiv, hq]
    refine ⟨by omega, by omega, ?_, ?_⟩
    · apply Nat.mod_eq_of_lt; omega
    · apply Nat.mod_eq_of_lt
      have := Nat.mod_lt (lsn / segsz) hppos
      omega
  have hk : ∃ k, 20 ≤ k ∧ k ≤ 30 ∧ segsz = 2 ^ k := by
    unfold legalSegSizes at hs
    obtain ⟨j, hj, hj2⟩ := List.mem_map.mp hs
    have := List.mem_range.mp hj
    exact ⟨20 + j, by omega, by omega, hj2.symm⟩
  obtain ⟨k, hk1, hk2, hk3⟩ := hk
  obtain ⟨a, b, c, d⟩ := key k hk1 hk2 hk3
  rw [if_neg a, if_neg b, c, d]
  rfl

/-! ### reading an encoded image -/

theorem b2n_lt (b : Bool) : b2n b < 256 ^ 1 := by cases b <;> decide

theorem b2n_ne_zero (b : Bool) : (b2n b != 0) = b := by cases b <;> rfl

def controlWidths : List Nat :=
  [8, 4, 4, 4, 4, 8, 8, 8, 4, 4, 1, 7, 4, 4, 4, 4, 4, 4, 4, 4, 4, 4, 8, 4, 4, 4, 4, 8, 8, 4, 4, 8, 8, 1, 3, 4, 1, 3,
   4, 4, 4, 4, 4, 1, 3, 4, 8, 4, 4, 4, 4, 4, 4, 4, 4, 1, 1, 2, 4, 32]

theorem fields_widths (c : ControlData) : c.fields.map (·.1) = controlWidths := rfl

theorem fields_length (c : ControlData) : c.fields.length = 60 := rfl

theorem body_length (c : ControlData) : c.body.length = 288 := by
  unfold ControlData.body; rw [encFields_length, fields_widths]; decide

theorem encControl_length (c : ControlData) (crc pad : Nat) : (encControl c crc pad).length = 296 + pad := by
  simp [encControl, body_length]; omega

theorem encControl_take (c : ControlData) (crc pad : Nat) : (encControl c crc pad).take 288 = c.body := by
  unfold encControl
  exact List.take_left' (body_length c)

theorem encControl_crc (c : ControlData) (crc pad : Nat) (h : crc < 2 ^ 32) :
    rd 4 ((encControl c crc pad).drop 288) = crc := by
  unfold encControl
  rw [List.drop_left' (body_length c)]
  exact rd_le 4 crc _ (by omega)

theorem walLevel_name (n : Nat) (h : n ≤ 2) : Model.walLevelName n = Spec.walLevelNames.getD n "" := by
  have : n = 0 ∨ n = 1 ∨ n = 2 := by omega
  rcases this with h | h | h <;> subst h <;> rfl

/-- ParseControlFile on the encoding of well-formed control data returns the stored fields -/
theorem parseControlFile_enc_full (c : ControlData) (h : c.WF) (crc pad : Nat) (hcrc : crc < 2 ^ 32) :
    ∃ f, Model.parseControlFile (encControl c crc pad) = .ok (some f) ∧ f.toView = viewControl c crc ∧
      f.pgVersionMajor = Model.inferPGVersion c.pgControlVersion c.catalogVersionNo := by
  obtain ⟨_, _, _, ⟨hs1, hs2⟩, _, hckpt, hredo, _, _, _, _, _, _, _, _, _, _, _, ⟨ht1, ht2⟩, _, _, _, _, _, _, _, _,
    hwl, hmc, hmw, hms, hmp, hml, _, _, hblk, ⟨_, _⟩, hxblk, hseg, _, _, _, _, _, _⟩ := h
  have hblk' : c.blcksz ≠ 0 ∧ c.blcksz < 2 ^ 32 := by
    simp [legalBlockSizes] at hblk; omega
  have hxblk' : c.xlogBlcksz ≠ 0 ∧ c.xlogBlcksz < 2 ^ 32 := by
    simp [legalXlogBlockSizes] at hxblk; omega
  have hseg' : c.xlogSegSize ≠ 0 ∧ c.xlogSegSize < 2 ^ 32 := by
    unfold legalSegSizes at hseg
    obtain ⟨j, hj, hj2⟩ := List.mem_map.mp hseg
    have hj' := List.mem_range.mp hj
    have h1 : 0 < 2 ^ (20 + j) := Nat.pow_pos (by decide)
    have h2 : 2 ^ (20 + j) < 2 ^ 32 := Nat.pow_lt_pow_right (by decide) (by omega)
    omega
  have hlen := encControl_length c crc pad
  have f0 : rd 8 ((encControl c crc pad).drop 0) = c.systemIdentifier :=
    field_at' c.fields controlWidths (fields_widths c) _ 0 8 0 _ (by rw [fields_length]; decide) rfl rfl (by decide) (by omega)
  have f8 : rd 4 ((encControl c crc pad).drop 8) = c.pgControlVersion :=
    field_at' c.fields controlWidths (fields_widths c) _ 1 4 8 _ (by rw [fields_length]; decide) rfl rfl (by decide) (by omega)
  have f12 : rd 4 ((encControl c crc pad).drop 12) = c.catalogVersionNo :=
    field_at' c.fields controlWidths (fields_widths c) _ 2 4 12 _ (by rw [fields_length]; decide) rfl rfl (by decide) (by omega)
  have f16 : rd 4 ((encControl c crc pad).drop 16) = ofSigned 32 c.state :=
    field_at' c.fields controlWidths (fields_widths c) _ 3 4 16 _ (by rw [fields_length]; decide) rfl rfl (by decide) (ofSigned32_lt _)
  have f32 : rd 8 ((encControl c crc pad).drop 32) = c.checkPoint :=
    field_at' c.fields controlWidths (fields_widths c) _ 6 8 32 _ (by rw [fields_length]; decide) rfl rfl (by decide) (by omega)
  have f40 : rd 8 ((encControl c crc pad).drop 40) = c.redo :=
    field_at' c.fields controlWidths (fields_widths c) _ 7 8 40 _ (by rw [fields_length]; decide) rfl rfl (by decide) (by omega)
  have f48 : rd 4 ((encControl c crc pad).drop 48) = c.thisTLI :=
    field_at' c.fields controlWidths (fields_widths c) _ 8 4 48 _ (by rw [fields_length]; decide) rfl rfl (by decide) (by omega)
  have f52 : rd 4 ((encControl c crc pad).drop 52) = c.prevTLI :=
    field_at' c.fields controlWidths (fields_widths c) _ 9 4 52 _ (by rw [fields_length]; decide) rfl rfl (by decide) (by omega)
  have f56 : rd 1 ((encControl c crc pad).drop 56) = b2n c.fullPageWrites :=
    field_at' c.fields controlWidths (fields_widths c) _ 10 1 56 _ (by rw [fields_length]; decide) rfl rfl (by decide) (b2n_lt _)
  have f64 : rd 4 ((encControl c crc pad).drop 64) = c.nextXid :=
    field_at' c.fields controlWidths (fields_widths c) _ 12 4 64 _ (by rw [fields_length]; decide) rfl rfl (by decide) (by omega)
  have f68 : rd 4 ((encControl c crc pad).drop 68) = c.nextXidEpoch :=
    field_at' c.fields controlWidths (fields_widths c) _ 13 4 68 _ (by rw [fields_length]; decide) rfl rfl (by decide) (by omega)
  have f72 : rd 4 ((encControl c crc pad).drop 72) = c.nextOid :=
    field_at' c.fields controlWidths (fields_widths c) _ 14 4 72 _ (by rw [fields_length]; decide) rfl rfl (by decide) (by omega)
  have f76 : rd 4 ((encControl c crc pad).drop 76) = c.nextMulti :=
    field_at' c.fields controlWidths (fields_widths c) _ 15 4 76 _ (by rw [fields_length]; decide) rfl rfl (by decide) (by omega)
  have f80 : rd 4 ((encControl c crc pad).drop 80) = c.nextMultiOffset :=
    field_at' c.fields controlWidths (fields_widths c) _ 16 4 80 _ (by rw [fields_length]; decide) rfl rfl (by decide) (by omega)
  have f84 : rd 4 ((encControl c crc pad).drop 84) = c.oldestXid :=
    field_at' c.fields controlWidths (fields_widths c) _ 17 4 84 _ (by rw [fields_length]; decide) rfl rfl (by decide) (by omega)
  have f88 : rd 4 ((encControl c crc pad).drop 88) = c.oldestXidDB :=
    field_at' c.fields controlWidths (fields_widths c) _ 18 4 88 _ (by rw [fields_length]; decide) rfl rfl (by decide) (by omega)
  have f92 : rd 4 ((encControl c crc pad).drop 92) = c.oldestMulti :=
    field_at' c.fields controlWidths (fields_widths c) _ 19 4 92 _ (by rw [fields_length]; decide) rfl rfl (by decide) (by omega)
  have f96 : rd 4 ((encControl c crc pad).drop 96) = c.oldestMultiDB :=
    field_at' c.fields controlWidths (fields_widths c) _ 20 4 96 _ (by rw [fields_length]; decide) rfl rfl (by decide) (by omega)
  have f104 : rd 8 ((encControl c crc pad).drop 104) = ofSigned 64 c.cpTime :=
    field_at' c.fields controlWidths (fields_widths c) _ 22 8 104 _ (by rw [fields_length]; decide) rfl rfl (by decide) (ofSigned64_lt _)
  have f112 : rd 4 ((encControl c crc pad).drop 112) = c.oldestCommitTsXid :=
    field_at' c.fields controlWidths (fields_widths c) _ 23 4 112 _ (by rw [fields_length]; decide) rfl rfl (by decide) (by omega)
  have f116 : rd 4 ((encControl c crc pad).drop 116) = c.newestCommitTsXid :=
    field_at' c.fields controlWidths (fields_widths c) _ 24 4 116 _ (by rw [fields_length]; decide) rfl rfl (by decide) (by omega)
  have f120 : rd 4 ((encControl c crc pad).drop 120) = c.oldestActiveXid :=
    field_at' c.fields controlWidths (fields_widths c) _ 25 4 120 _ (by rw [fields_length]; decide) rfl rfl (by decide) (by omega)
  have f172 : rd 4 ((encControl c crc pad).drop 172) = c.walLevel :=
    field_at' c.fields controlWidths (fields_widths c) _ 35 4 172 _ (by rw [fields_length]; decide) rfl rfl (by decide) (by omega)
  have f176 : rd 1 ((encControl c crc pad).drop 176) = b2n c.walLogHints :=
    field_at' c.fields controlWidths (fields_widths c) _ 36 1 176 _ (by rw [fields_length]; decide) rfl rfl (by decide) (b2n_lt _)
  have f180 : rd 4 ((encControl c crc pad).drop 180) = c.maxConnections :=
    field_at' c.fields controlWidths (fields_widths c) _ 38 4 180 _ (by rw [fields_length]; decide) rfl rfl (by decide) (by omega)
  have f184 : rd 4 ((encControl c crc pad).drop 184) = c.maxWorkerProcesses :=
    field_at' c.fields controlWidths (fields_widths c) _ 39 4 184 _ (by rw [fields_length]; decide) rfl rfl (by decide) (by omega)
  have f188 : rd 4 ((encControl c crc pad).drop 188) = c.maxWalSenders :=
    field_at' c.fields controlWidths (fields_widths c) _ 40 4 188 _ (by rw [fields_length]; decide) rfl rfl (by decide) (by omega)
  have f192 : rd 4 ((encControl c crc pad).drop 192) = c.maxPreparedXacts :=
    field_at' c.fields controlWidths (fields_widths c) _ 41 4 192 _ (by rw [fields_length]; decide) rfl rfl (by decide) (by omega)
  have f196 : rd 4 ((encControl c crc pad).drop 196) = c.maxLocksPerXact :=
    field_at' c.fields controlWidths (fields_widths c) _ 42 4 196 _ (by rw [fields_length]; decide) rfl rfl (by decide) (by omega)
  have f200 : rd 1 ((encControl c crc pad).drop 200) = b2n c.trackCommitTimestamp :=
    field_at' c.fields controlWidths (fields_widths c) _ 43 1 200 _ (by rw [fields_length]; decide) rfl rfl (by decide) (b2n_lt _)
  have f204 : rd 4 ((encControl c crc pad).drop 204) = c.maxAlign :=
    field_at' c.fields controlWidths (fields_widths c) _ 45 4 204 _ (by rw [fields_length]; decide) rfl rfl (by decide) (by omega)
  have f208 : rd 8 ((encControl c crc pad).drop 208) = c.floatFormat :=
    field_at' c.fields controlWidths (fields_widths c) _ 46 8 208 _ (by rw [fields_length]; decide) rfl rfl (by decide) (by omega)
  have f216 : rd 4 ((encControl c crc pad).drop 216) = c.blcksz :=
    field_at' c.fields controlWidths (fields_widths c) _ 47 4 216 _ (by rw [fields_length]; decide) rfl rfl (by decide) (by omega)
  have f220 : rd 4 ((encControl c crc pad).drop 220) = c.relsegSize :=
    field_at' c.fields controlWidths (fields_widths c) _ 48 4 220 _ (by rw [fields_length]; decide) rfl rfl (by decide) (by omega)
  have f224 : rd 4 ((encControl c crc pad).drop 224) = c.xlogBlcksz :=
    field_at' c.fields controlWidths (fields_widths c) _ 49 4 224 _ (by rw [fields_length]; decide) rfl rfl (by decide) (by omega)
  have f228 : rd 4 ((encControl c crc pad).drop 228) = c.xlogSegSize :=
    field_at' c.fields controlWidths (fields_widths c) _ 50 4 228 _ (by rw [fields_length]; decide) rfl rfl (by decide) (by omega)
  have f232 : rd 4 ((encControl c crc pad).drop 232) = c.nameDataLen :=
    field_at' c.fields controlWidths (fields_widths c) _ 51 4 232 _ (by rw [fields_length]; decide) rfl rfl (by decide) (by omega)
  have f236 : rd 4 ((encControl c crc pad).drop 236) = c.indexMaxKeys :=
    field_at' c.fields controlWidths (fields_widths c) _ 52 4 236 _ (by rw [fields_length]; decide) rfl rfl (by decide) (by omega)
  have f240 : rd 4 ((encControl c crc pad).drop 240) = c.toastMaxChunkSize :=
    field_at' c.fields controlWidths (fields_widths c) _ 53 4 240 _ (by rw [fields_length]; decide) rfl rfl (by decide) (by omega)
  have f244 : rd 4 ((encControl c crc pad).drop 244) = c.loblksize :=
    field_at' c.fields controlWidths (fields_widths c) _ 54 4 244 _ (by rw [fields_length]; decide) rfl rfl (by decide) (by omega)
  have f252 : rd 4 ((encControl c crc pad).drop 252) = c.dataChecksumVersion :=
    field_at' c.fields controlWidths (fields_widths c) _ 58 4 252 _ (by rw [fields_length]; decide) rfl rfl (by decide) (by omega)
  have fcrc := encControl_crc c crc pad hcrc
  have ftake := encControl_take c crc pad
  unfold Model.parseControlFile
  rw [if_neg (by omega)]
  simp (disch := omega) only [uN_ok, sliceTo_ok, ok_bind, pure_eq_ok]
  simp only [f0, f8, f12, f16, f32, f40, f48, f52, f56, f64, f68, f72, f76, f80, f84, f88, f92, f96, f104, f112, f116, f120,
    f172, f176, f180, f184, f188, f192, f196, f200, f204, f208, f216, f220, f224, f228, f232, f236, f240, f244, f252,
    fcrc, ftake, if_neg hblk'.1, if_neg hxblk'.1, if_neg hseg'.1]
  rw [formatWALFilename_eq _ _ _ hredo hseg]
  simp only [ok_bind]
  rw [if_pos (by omega)]
  simp only [ok_bind]
  refine ⟨_, rfl, ?_, rfl⟩
  simp only [Model.ControlFile.toView, viewControl, toSigned_ofSigned32 _ hs1 hs2, toSigned_ofSigned64 _ ht1 ht2,
    dbStateString_eq, ctlFormatLSN_eq _ hckpt, ctlFormatLSN_eq _ hredo, b2n_ne_zero, walLevel_name _ hwl,
    toSigned32_nat _ hmc, toSigned32_nat _ hmw, toSigned32_nat _ hms, toSigned32_nat _ hmp, toSigned32_nat _ hml,
    verifyCRC32C_eq, Model.floatIs1234567, floatFormatBits]

theorem parseControlFile_enc (c : ControlData) (h : c.WF) (crc pad : Nat) (hcrc : crc < 2 ^ 32) :
    ∃ f, Model.parseControlFile (encControl c crc pad) = .ok (some f) ∧ f.toView = viewControl c crc := by
  obtain ⟨f, h1, h2, _⟩ := parseControlFile_enc_full c h crc pad hcrc
  exact ⟨f, h1, h2⟩

/-! ### inferPGVersion (fixes/control/22) -/

/-- the released major 12–17 of a catalog version, as a chain of comparisons -/
theorem pgMajorOfCatalog_eq (cat : Nat) : pgMajorOfCatalog cat =
    if cat = 201909212 then some 12 else if cat = 202007201 then some 13 else if cat = 202107181 then some 14
    else if cat = 202209061 then some 15 else if cat = 202307071 then some 16 else if cat = 202406281 then some 17
    else none := by
  unfold pgMajorOfCatalog pgReleases
  simp only [List.find?_cons, List.find?_nil]
  repeat' split
  all_goals first | rfl | (exfalso; simp_all)

/-- the catalog version of a released major decides, whatever the control version -/
theorem inferPGVersion_of_catalog (cv cat M : Nat) (h : pgMajorOfCatalog cat = some M) : Model.inferPGVersion cv cat = M := by
  rw [pgMajorOfCatalog_eq] at h
  unfold Model.inferPGVersion
  repeat' split at h
  all_goals (cases h <;> simp [*])

/-- any other catalog version: below 12, and 0 under a control version of PostgreSQL 12 or later -/
theorem inferPGVersion_unknown (cv cat : Nat) (h : pgMajorOfCatalog cat = none) :
    Model.inferPGVersion cv cat < 12 ∧ (cv ≥ 1201 → Model.inferPGVersion cv cat = 0) := by
  rw [pgMajorOfCatalog_eq] at h
  have h1 : cat ≠ 201909212 := by intro e; simp [e] at h
  have h2 : cat ≠ 202007201 := by intro e; simp [e] at h
  have h3 : cat ≠ 202107181 := by intro e; simp [e] at h
  have h4 : cat ≠ 202209061 := by intro e; simp [e] at h
  have h5 : cat ≠ 202307071 := by intro e; simp [e] at h
  have h6 : cat ≠ 202406281 := by intro e; simp [e] at h
  unfold Model.inferPGVersion
  rw [if_neg h6, if_neg h5, if_neg h4, if_neg h3, if_neg h2, if_neg h1]
  constructor
  · repeat' split
    all_goals omega
  · intro hcv; rw [if_pos hcv]

end PgVerif.Proofs
