/-
  Helper lemmas tying the formed row (Spec.formTuple) to the tuple value the scanner produces
  (uses the heap area's ParseHeapTuple round trip, Proofs/HeapEnc.lean).
-/
import PgVerif.Proofs.Rows
import PgVerif.Proofs.HeapEnc
namespace PgVerif.Proofs.Rows
open PgVerif PgVerif.Model PgVerif.Spec

/-- the tuple value the scanner hands to DecodeTuple for a row formed the way PostgreSQL forms it:
the null bitmap (only if some stored attribute is NULL) and the data area; any header -/
def rowTuple (hdr : TupleHeader) (cols : List Col) (r : RowV) : HeapTuple :=
  ⟨hdr, if r.hasNull then some (encBitmap r.present) else none, form (cols.take r.natts) (r.vals.take r.natts) 0⟩

theorem present_getD (r : RowV) (j : Nat) (hj : j < r.natts) (hl : j < r.vals.length) :
    r.present.getD j false = (r.vals.getD j none).isSome := by
  unfold RowV.present
  simp [List.getD, List.getElem?_map, hj, List.getElem?_eq_getElem hl]

theorem flags_testBit0 (m : Nat) (a b c : Bool) :
    (m / 8 * 8 + ((if a then 1 else 0) + (if b then 2 else 0) + (if c then 4 else 0))).testBit 0 = a := by
  rw [Nat.testBit_zero]
  cases a <;> cases b <;> cases c <;> simp <;> omega

theorem formTupleH_hasNull (h : HdrFields) (cols : List Col) (r : RowV) : (formTupleH h cols r).hasNull = r.hasNull := by
  simp only [Tuple.hasNull, formTupleH]
  exact flags_testBit0 _ _ _ _

theorem formTuple_hasNull (cols : List Col) (r : RowV) : (formTuple cols r).hasNull = r.hasNull :=
  formTupleH_hasNull {} cols r

theorem natts_flags2 (n f : Nat) (hn : n ≤ 1600) : (n + 2048 * f) % 2048 = n := by omega

/-- the formed tuple is a well-formed heap tuple, whatever the free header fields are -/
theorem formTupleH_WF (h : HdrFields) (hh : h.WF) (cols : List Col) (r : RowV) (hwf : r.WF cols) : (formTupleH h cols r).WF := by
  obtain ⟨hlen, hnat, h1600, hmask, _⟩ := hwf
  obtain ⟨hct, hf2⟩ := hh
  have hpl : r.present.length = r.natts := by simp [RowV.present]; omega
  have hbl : (encBitmap r.present).length = (r.natts + 7) / 8 := by simp [encBitmap, hpl]
  refine ⟨by simp [formTupleH, hct], by simp [formTupleH]; omega, ?_, ?_, ?_⟩
  · simp only [formTupleH]
    have : (if r.hasNull then 1 else 0) + (if (r.vals.take r.natts).any isVarwidth then 2 else 0) +
        (if (r.vals.take r.natts).any isExternal then 4 else 0) ≤ 7 := by
      split <;> split <;> split <;> omega
    omega
  · simp only [Tuple.hoff, formTupleH]
    by_cases hn : r.hasNull = true
    · simp only [hn, if_true, List.length_append, zeros_length, hbl]; omega
    · simp only [hn]; simp
  · intro hh
    simp only [Tuple.bitmapLen, Tuple.natts, formTupleH]
    by_cases hn : r.hasNull = true
    · simp only [hn, if_true, List.length_append, zeros_length, hbl]
      have : (r.natts + 2048 * h.flags2) % 2048 = r.natts := natts_flags2 _ _ h1600
      omega
    · exfalso
      rw [formTupleH_hasNull] at hh
      exact hn hh

theorem testBit_flags (m f k : Nat) (hf : f < 8) (hk : 3 ≤ k) : (m / 8 * 8 + f).testBit k = m.testBit k := by
  obtain ⟨j, rfl⟩ : ∃ j, k = 3 + j := ⟨k - 3, by omega⟩
  simp only [Nat.testBit_eq_decide_div_mod_eq, Nat.pow_add, ← Nat.div_div_eq_div_mul]
  have : (m / 8 * 8 + f) / 2 ^ 3 = m / 2 ^ 3 := by omega
  rw [this]

theorem formFlags_lt (a b c : Bool) : ((if a then 1 else 0) + (if b then 2 else 0) + (if c then 4 else 0) : Nat) < 8 := by
  cases a <;> cases b <;> cases c <;> simp

/-- the bits of t_infomask from HEAP_HASOID_OLD (0x0008) up are the ones the row version carries -/
theorem formTupleH_testBit (h : HdrFields) (cols : List Col) (r : RowV) (k : Nat) (hk : 3 ≤ k) :
    (formTupleH h cols r).infomask.testBit k = r.infomask.testBit k := by
  simp only [formTupleH]
  exact testBit_flags _ _ k (formFlags_lt _ _ _) hk

/-- live / deleted of a formed tuple are decided by the hint bits the row version carries -/
theorem formTupleH_infomask_live (h : HdrFields) (cols : List Col) (r : RowV) :
    liveBits (formTupleH h cols r).infomask = liveBits r.infomask := by
  simp only [liveBits, formTupleH_testBit h cols r _ (by omega : 3 ≤ 8), formTupleH_testBit h cols r _ (by omega : 3 ≤ 10),
    formTupleH_testBit h cols r _ (by omega : 3 ≤ 11)]

theorem formTupleH_infomask_deleted (h : HdrFields) (cols : List Col) (r : RowV) :
    deletedBits (formTupleH h cols r).infomask = deletedBits r.infomask := by
  simp only [deletedBits, formTupleH_testBit h cols r _ (by omega : 3 ≤ 10), formTupleH_testBit h cols r _ (by omega : 3 ≤ 11)]

theorem hdrFields_default_WF : ({} : HdrFields).WF := by decide

theorem formTuple_WF (cols : List Col) (r : RowV) (hwf : r.WF cols) : (formTuple cols r).WF :=
  formTupleH_WF {} hdrFields_default_WF cols r hwf

/-- the scanner's tuple for a formed row is `rowTuple` (with the header the scanner computed) -/
theorem mtuple_formTupleH (h : HdrFields) (cols : List Col) (r : RowV) (hwf : r.WF cols) :
    Proofs.mtuple (formTupleH h cols r) = rowTuple (Proofs.mtuple (formTupleH h cols r)).header cols r := by
  obtain ⟨hlen, hnat, h1600, hmask, _⟩ := hwf
  have hpl : r.present.length = r.natts := by simp [RowV.present]; omega
  have hbl : (encBitmap r.present).length = (r.natts + 7) / 8 := by simp [encBitmap, hpl]
  have hhn := formTupleH_hasNull h cols r
  unfold Proofs.mtuple rowTuple
  rw [hhn]
  congr 1
  by_cases hn : r.hasNull = true
  · simp only [hn, if_true]
    congr 1
    simp only [Tuple.bitmapLen, Tuple.natts, formTupleH, hn, if_true]
    have : (r.natts + 2048 * h.flags2) % 2048 = r.natts := natts_flags2 _ _ h1600
    rw [this, ← hbl, List.take_left']
    rfl
  · simp only [hn]; rfl

theorem mtuple_formTuple (cols : List Col) (r : RowV) (hwf : r.WF cols) :
    Proofs.mtuple (formTuple cols r) = rowTuple (Proofs.mtuple (formTuple cols r)).header cols r :=
  mtuple_formTupleH {} cols r hwf

end PgVerif.Proofs.Rows
