/-
  Helper lemmas tying the formed row (Spec.formTuple) to the tuple value the scanner produces
  (uses the heap area's ParseHeapTuple round trip, Proofs/HeapEnc.lean).
-/
import PgVerif.Proofs.Rows
import PgVerif.Proofs.HeapEnc
namespace PgVerif.Proofs.Rows
open PgVerif PgVerif.Model PgVerif.Spec

/-- the tuple value the scanner hands to DecodeTuple for a row formed the way PostgreSQL forms it:
the null bitmap (only if some stored attribute is NULL) and the data area; any header -/
def rowTuple (hdr : TupleHeader) (cols : List Col) (r : RowV) : HeapTuple :=
  ⟨hdr, if r.hasNull then some (encBitmap r.present) else none, form (cols.take r.natts) (r.vals.take r.natts) 0⟩

theorem present_getD (r : RowV) (j : Nat) (hj : j < r.natts) (hl : j < r.vals.length) :
    r.present.getD j false = (r.vals.getD j none).isSome := by
  unfold RowV.present
  simp [List.getD, List.getElem?_map, hj, List.getElem?_eq_getElem hl]

theorem flags_testBit0 (m : Nat) (a b c : Bool) :
    (m / 8 * 8 + ((if a then 1 else 0) + (if b then 2 else 0) + (if c then 4 else 0))).testBit 0 = a := by
  rw [Nat.testBit_zero]
  cases a <;> cases b <;> cases c <;> simp <;> omega

theorem formTuple_hasNull (cols : List Col) (r : RowV) : (formTuple cols r).hasNull = r.hasNull := by
  simp only [Tuple.hasNull, formTuple]
  exact flags_testBit0 _ _ _ _

/-- the formed tuple is a well-formed heap tuple -/
theorem formTuple_WF (cols : List Col) (r : RowV) (hwf : r.WF cols) : (formTuple cols r).WF := by
  obtain ⟨hlen, hnat, h1600, hmask, _⟩ := hwf
  have hpl : r.present.length = r.natts := by simp [RowV.present]; omega
  have hbl : (encBitmap r.present).length = (r.natts + 7) / 8 := by simp [encBitmap, hpl]
  refine ⟨by simp [formTuple], by simp [formTuple]; omega, ?_, ?_, ?_⟩
  · simp only [formTuple]
    have : (if r.hasNull then 1 else 0) + (if (r.vals.take r.natts).any isVarwidth then 2 else 0) +
        (if (r.vals.take r.natts).any isExternal then 4 else 0) ≤ 7 := by
      split <;> split <;> split <;> omega
    omega
  · simp only [Tuple.hoff, formTuple]
    by_cases hn : r.hasNull = true
    · simp only [hn, if_true, List.length_append, zeros_length, hbl]; omega
    · simp only [hn]; simp
  · intro hh
    simp only [Tuple.bitmapLen, Tuple.natts, formTuple]
    by_cases hn : r.hasNull = true
    · simp only [hn, if_true, List.length_append, zeros_length, hbl]
      have : r.natts % 2048 = r.natts := Nat.mod_eq_of_lt (by omega)
      omega
    · exfalso
      rw [formTuple_hasNull] at hh
      exact hn hh


/-- the scanner's tuple for a formed row is `rowTuple` (with the header the scanner computed) -/
theorem mtuple_formTuple (cols : List Col) (r : RowV) (hwf : r.WF cols) :
    Proofs.mtuple (formTuple cols r) = rowTuple (Proofs.mtuple (formTuple cols r)).header cols r := by
  obtain ⟨hlen, hnat, h1600, hmask, _⟩ := hwf
  have hpl : r.present.length = r.natts := by simp [RowV.present]; omega
  have hbl : (encBitmap r.present).length = (r.natts + 7) / 8 := by simp [encBitmap, hpl]
  have hhn := formTuple_hasNull cols r
  unfold Proofs.mtuple rowTuple
  rw [hhn]
  congr 1
  by_cases hn : r.hasNull = true
  · simp only [hn, if_true]
    congr 1
    simp only [Tuple.bitmapLen, Tuple.natts, formTuple, hn, if_true]
    have : r.natts % 2048 = r.natts := Nat.mod_eq_of_lt (by omega)
    rw [this, ← hbl, List.take_left']
    rfl
  · simp only [hn]; rfl

end PgVerif.Proofs.Rows
