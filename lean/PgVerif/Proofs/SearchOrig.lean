/-
  The ORIGINAL loops of search.go (Model/SearchOrig.lean) for an arbitrary map iteration order `π`:
  the result is "the matching cells in π-order, cut at the limit", and that list is a rearrangement of `allMatches`.
-/
import PgVerif.Proofs.SearchMain
namespace PgVerif.Proofs.SearchOrig
open PgVerif PgVerif.Spec.Search PgVerif.Model.Search PgVerif.Proofs.Search
open scoped List

def colF (re : Bytes → Bool) (sh : GoVal → Bytes) (o : Opts) (db tbl : Bytes) (rowNum : Nat) (row : Row) (kv : Bytes × GoVal) :
    List SearchResult :=
  if matchValue re sh kv.2 then
    [{ database := db, table := tbl, column := kv.1, rowNum := rowNum, value := kv.2, row := if o.includeRow then some row else none }]
  else []

theorem colBody_spec (re : Bytes → Bool) (sh : GoVal → Bytes) (o : Opts) (db tbl : Bytes) (rowNum : Nat) (row : Row) :
    BodySpec (lim o) (Model.SearchOrig.colBody re sh o db tbl rowNum row) (colF re sh o db tbl rowNum row) := by
  intro kv acc hacc
  simp only [Model.SearchOrig.colBody, colF]
  by_cases hm : matchValue re sh kv.2 = true
  · rw [if_pos hm, if_pos hm]
    exact push_spec o acc _ hacc
  · rw [if_neg hm, if_neg hm, List.append_nil, cut_short _ _ hacc]

def rowF (π : Row → Row) (re : Bytes → Bool) (sh : GoVal → Bytes) (o : Opts) (db tbl : Bytes) (ri : Row × Nat) :=
  (π ri.1).flatMap (colF re sh o db tbl ri.2 ri.1)
def tableF (π : Row → Row) (re : Bytes → Bool) (sh : GoVal → Bytes) (o : Opts) (db : Bytes) (t : Table) :=
  t.rows.zipIdx.flatMap (rowF π re sh o db t.name)
def dbF (π : Row → Row) (re : Bytes → Bool) (sh : GoVal → Bytes) (o : Opts) (db : Database) :=
  db.tables.flatMap (tableF π re sh o db.name)

/-- every matching cell in the order in which the original loops meet them -/
def allOrig (π : Row → Row) (re : Bytes → Bool) (sh : GoVal → Bytes) (o : Opts) (d : Dump) : List Hit :=
  (d.flatMap (dbF π re sh o)).map toHit

theorem loops_eq (π : Row → Row) (re : Bytes → Bool) (sh : GoVal → Bytes) (o : Opts) (d : Dump) :
    (loopM (Model.SearchOrig.dbBody π re sh o) d []).1 =
      if o.maxResults > 0 then (d.flatMap (dbF π re sh o)).take o.maxResults.toNat else d.flatMap (dbF π re sh o) := by
  have hrow : BodySpec (lim o) (fun db => Model.SearchOrig.dbBody π re sh o db) (dbF π re sh o) :=
    fun db acc hacc => loopM_spec (lim o) _ _
      (fun t acc hacc => loopM_spec (lim o) _ _
        (fun ri acc hacc => loopM_spec (lim o) _ _ (colBody_spec re sh o db.name t.name ri.2 ri.1) (π ri.1) acc hacc)
        t.rows.zipIdx acc hacc)
      db.tables acc hacc
  have h := loopM_spec (lim o) _ _ hrow d [] (by
    intro m hm
    simp only [lim] at hm
    by_cases hmax : o.maxResults > 0
    · rw [if_pos hmax] at hm; cases hm; simp only [List.length_nil]; omega
    · rw [if_neg hmax] at hm; cases hm)
  rw [h, cut_fst, List.nil_append]
  by_cases hmax : o.maxResults > 0
  · simp [lim, hmax]
  · simp [lim, hmax]

/-- the original SearchInDump: error iff the pattern does not compile, else the π-ordered matches cut at the limit -/
theorem search_eq (π : Row → Row) (R : Regex) (sh : GoVal → Bytes) (d : Dump) (o : Opts) :
    (Model.SearchOrig.searchInDump π R sh d o).map (·.map toHit) =
      (R.compile (effPattern o)).map fun re =>
        if o.maxResults > 0 then (allOrig π re sh o d).take o.maxResults.toNat else allOrig π re sh o d := by
  simp only [Model.SearchOrig.searchInDump, effPattern]
  have hp : (if (!o.caseSensitive) = true then ciPrefix ++ o.pattern else o.pattern)
      = (if o.caseSensitive = true then o.pattern else ciPrefix ++ o.pattern) := by
    cases o.caseSensitive <;> simp
  rw [hp]
  cases R.compile (if o.caseSensitive = true then o.pattern else ciPrefix ++ o.pattern) with
  | none => rfl
  | some re =>
    simp only [Option.map_some, loops_eq, allOrig]
    by_cases hmax : o.maxResults > 0
    · simp only [hmax, if_true, List.map_take]
    · simp only [hmax, if_false]

theorem perm_flatMap_congr {α β} (l : List α) (f g : α → List β) (h : ∀ a ∈ l, f a ~ g a) : l.flatMap f ~ l.flatMap g := by
  induction l with
  | nil => exact List.Perm.refl _
  | cons a l ih =>
    simp only [List.flatMap_cons]
    exact (h a List.mem_cons_self).append (ih fun b hb => h b (List.mem_cons_of_mem _ hb))

theorem filter_map_eq_flatMap {α β} (p : α → Bool) (mk : α → β) (l : List α) :
    (l.filter p).map mk = l.flatMap fun a => if p a then [mk a] else [] := by
  induction l with
  | nil => rfl
  | cons a l ih =>
    simp only [List.filter_cons, List.flatMap_cons]
    cases p a <;> simp [ih]

/-- whatever the iteration order, the original loops meet exactly the matching cells, each once:
`allOrig π` is a rearrangement of `allMatches` -/
theorem allOrig_perm (π : Row → Row) (hπ : ∀ r, π r ~ r) (re : Bytes → Bool) (sh : GoVal → Bytes) (o : Opts) (d : Dump)
    (hw : Dump.WF d) : allOrig π re sh o d ~ allMatches re sh o.includeRow d := by
  simp only [allOrig, allMatches, dbF, tableF, List.map_flatMap]
  show _ ~ d.flatMap fun D => D.tables.flatMap fun t => t.rows.zipIdx.flatMap (rowHits re sh o.includeRow D.name t.name t.columns)
  apply perm_flatMap_congr; intro D hD
  apply perm_flatMap_congr; intro t ht
  apply perm_flatMap_congr; intro ri hri
  have hrw : Row.WF ri.1 := wf_row_of_getElem? d hw D hD t ht ri.2 ri.1 (List.mem_zipIdx_iff_getElem?.1 hri)
  simp only [rowF, rowHits, filter_map_eq_flatMap, List.map_flatMap]
  have h1 : (π ri.1) ~ rowCells t.columns ri.1 := (hπ ri.1).trans (rowCells_perm t.columns ri.1 hrw).symm
  refine (h1.flatMap_right _).trans ?_
  apply perm_flatMap_congr; intro cv _
  simp only [colF, matchValue_eq]
  cases cellMatches re sh cv.2 <;> simp [toHit]

end PgVerif.Proofs.SearchOrig
