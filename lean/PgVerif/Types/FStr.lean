/-
  Representation convention (area `scalars`): a Go string produced by `fmt.Sprintf` with `%g`
  holes is the value `GoVal.arr [.str lit, .f64 bits, .str lit, …]` — adjacent literals merged,
  NaN payloads collapsed (`Txt.gBits`).  The Go harness parses pgread's text back into the same
  shape, so floats are compared as bit patterns, never as decimal text.  Neutral: used by the
  scalar Spec (what must be shown) and the scalar Model (what the code builds).
-/
import PgVerif.Basic.Canon
import PgVerif.Types.Text
namespace PgVerif.Txt
open PgVerif

/-- literal piece -/
def lit (s : String) : GoVal := .str (asc s)
/-- `%g` hole holding a binary64 -/
def hole (bits : Nat) : GoVal := .f64 (gBits bits)

/-- merge adjacent literal pieces -/
def mergePieces : List GoVal → List GoVal
  | .str a :: rest =>
    match mergePieces rest with
    | .str b :: rest' => .str (a ++ b) :: rest'
    | rest' => .str a :: rest'
  | x :: rest => x :: mergePieces rest
  | [] => []

def fstr (ps : List GoVal) : GoVal := .arr (mergePieces ps)

/-- a formatted string that may have no `%g` hole at all (numrange: `(,)`, `empty`, `[?,2)`): without a hole it is the plain
string, with holes the piece list of `fstr` -/
def fstrS (ps : List GoVal) : GoVal :=
  match mergePieces ps with
  | [] => .str []
  | [.str s] => .str s
  | m => .arr m

def joinPieces (sep : GoVal) : List (List GoVal) → List GoVal
  | [] => []
  | [x] => x
  | x :: xs => x ++ [sep] ++ joinPieces sep xs

end PgVerif.Txt
