/-
  Neutral text / number library used by both the scalar Spec and the scalar Model (area `scalars`):
  ASCII literals, the documented behaviour of Go's `fmt` verbs on integers and byte slices
  (`%d`, `%0Nd`, `%x`, `%X`, `%0Nx`), correctly rounded binary64 arithmetic on rationals (what
  `float64(int64)`, `/` and `strconv.ParseFloat` compute), `%.2f`, and UTF-8 validity.
  Core Lean only (driver path).  Everything here is checked against the real `fmt`/`strconv`/
  `unicode/utf8` by the correspondence families (the Go side prints, this side predicts).
-/
import PgVerif.Basic.Bytes
namespace PgVerif.Txt
open PgVerif

/-- ASCII literal as bytes -/
def asc (s : String) : Bytes := s.toList.map fun c => UInt8.ofNat c.toNat

def digitCh (d : Nat) : UInt8 := UInt8.ofNat (48 + d)

/-- decimal digits, most significant first; `fuel` ≥ number of digits − 1 -/
def decAux : Nat → Nat → Bytes → Bytes
  | 0, n, acc => digitCh (n % 10) :: acc
  | fuel+1, n, acc => if n < 10 then digitCh n :: acc else decAux fuel (n / 10) (digitCh (n % 10) :: acc)

/-- Go `%d` of an unsigned operand -/
def decNat (n : Nat) : Bytes := decAux n n []

/-- Go `%d` of a signed operand -/
def decInt (i : Int) : Bytes := if i < 0 then 45 :: decNat i.natAbs else decNat i.natAbs

/-- left-pad with `0` to at least `w` characters -/
def zpad (w : Nat) (d : Bytes) : Bytes := List.replicate (w - d.length) 48 ++ d

/-- Go `%0wd` of an unsigned operand -/
def padNat (w n : Nat) : Bytes := zpad w (decNat n)

/-- Go `%0wd` of a signed operand: the sign counts towards the width -/
def fmt0d (w : Nat) (i : Int) : Bytes :=
  if i < 0 then 45 :: padNat (w - 1) i.natAbs else padNat w i.natAbs

def hexCh (upper : Bool) (d : Nat) : UInt8 :=
  if d < 10 then UInt8.ofNat (48 + d) else UInt8.ofNat ((if upper then 55 else 87) + d)

def hexAux (upper : Bool) : Nat → Nat → Bytes → Bytes
  | 0, n, acc => hexCh upper (n % 16) :: acc
  | fuel+1, n, acc =>
    if n < 16 then hexCh upper n :: acc else hexAux upper fuel (n / 16) (hexCh upper (n % 16) :: acc)

/-- Go `%x` / `%X` of an unsigned operand -/
def hexNat (upper : Bool) (n : Nat) : Bytes := hexAux upper n n []

/-- Go `%0wx` of an unsigned operand -/
def hexPad (w n : Nat) : Bytes := zpad w (hexNat false n)

/-- Go `%x` of a byte slice: two lower-case digits per byte -/
def hexBytes (bs : Bytes) : Bytes :=
  bs.flatMap fun b => [hexCh false (b.toNat / 16), hexCh false (b.toNat % 16)]

/-- Go `strings.TrimRight(s, string(c))`: the longest prefix of `s` that does not end in `c` -/
def trimRight (c : UInt8) (s : Bytes) : Bytes := (s.reverse.dropWhile (· == c)).reverse

def joinBytes (sep : Bytes) : List Bytes → Bytes
  | [] => []
  | [x] => x
  | x :: xs => x ++ sep ++ joinBytes sep xs

/-! ## Correctly rounded binary64 from rationals (round to nearest, ties to even) -/

/-- p/q rounded to the nearest integer, ties to even (`q > 0`) -/
def rneDiv (p q : Nat) : Nat :=
  let d := p / q
  let r := p % q
  if 2 * r < q then d else if 2 * r > q then d + 1 else if d % 2 = 0 then d else d + 1

/-- ⌊(p/q) / 2^e⌋ -/
def scaledFloor (p q : Nat) (e : Int) : Nat :=
  if e ≥ 0 then p / (q * 2 ^ e.toNat) else (p * 2 ^ (-e).toNat) / q

/-- the binary64 nearest to p/q (p, q > 0) as (mantissa, exponent): value = m · 2^e with
`m < 2^53`, `e ≥ -1074`; exponents above the finite range are left to `packF64` -/
def roundRat (p q : Nat) : Nat × Int :=
  let e0 : Int := (Nat.log2 p : Int) - (Nat.log2 q : Int) - 52
  let e := if scaledFloor p q e0 < 2 ^ 52 then e0 - 1 else e0
  let e := if scaledFloor p q e ≥ 2 ^ 53 then e + 1 else e
  let e := if e < -1074 then -1074 else e
  let m := if e ≥ 0 then rneDiv p (q * 2 ^ e.toNat) else rneDiv (p * 2 ^ (-e).toNat) q
  if m ≥ 2 ^ 53 then (m / 2, e + 1) else (m, e)

/-- IEEE-754 binary64 bit pattern of ±m·2^e (`m < 2^53`; normalised or subnormal at e = −1074) -/
def packF64 (neg : Bool) (m : Nat) (e : Int) : Nat :=
  let s := if neg then 2 ^ 63 else 0
  if m = 0 then s
  else if m < 2 ^ 52 then s + m                       -- subnormal (e = −1074)
  else
    let biased := e + 1075
    if biased ≥ 2047 then s + 2047 * 2 ^ 52           -- overflow → ±Inf
    else s + biased.toNat * 2 ^ 52 + (m - 2 ^ 52)

/-- bits of the binary64 nearest to ±p/q (`q > 0`) — `strconv.ParseFloat` on an exact decimal -/
def f64OfRat (neg : Bool) (p q : Nat) : Nat :=
  if p = 0 then (if neg then 2 ^ 63 else 0)
  else let (m, e) := roundRat p q; packF64 neg m e

/-- the exact value m2·2^e2 in hundredths, rounded half-even to an integer: the digits `%.2f` prints -/
def hundredths (m2 : Nat) (e2 : Int) : Nat :=
  if e2 ≥ 0 then m2 * 2 ^ e2.toNat * 100 else rneDiv (m2 * 100) (2 ^ (-e2).toNat)

/-- Go `fmt.Sprintf("%.2f", float64(c)/100)` for an `int64` c: two correctly rounded operations
(int → binary64, division by 100), then the exact decimal expansion rounded half-even to 2 places -/
def moneyText (c : Int) : Bytes :=
  let a := c.natAbs
  if a = 0 then asc "0.00"
  else
    let r1 := roundRat a 1                               -- float64(c) = r1.1 · 2^r1.2
    let p := if r1.2 ≥ 0 then r1.1 * 2 ^ r1.2.toNat else r1.1
    let q := if r1.2 ≥ 0 then 100 else 100 * 2 ^ (-r1.2).toNat
    let r2 := roundRat p q                               -- … / 100
    let n := hundredths r2.1 r2.2
    (if c < 0 then [45] else []) ++ decNat (n / 100) ++ [46] ++ padNat 2 (n % 100)

/-! ## binary64 / binary32 classification on bit patterns -/

def isNaN64 (b : Nat) : Bool := (b / 2 ^ 52) % 2048 == 2047 && b % 2 ^ 52 != 0

/-- what `%g` followed by `ParseFloat` preserves of a bit pattern: everything except the NaN payload -/
def gBits (b : Nat) : Nat := if isNaN64 b then 0x7FF8000000000001 else b

/-! ## UTF-8 (Unicode Table 3-7: well-formed byte sequences; the definition `unicode/utf8` implements) -/

/-- length (1..4) of the well-formed sequence at the head of `bs`, or 0 if the head is ill-formed -/
def utf8Head : Bytes → Nat
  | [] => 0
  | b0 :: rest =>
    let c (b : UInt8) (lo hi : Nat) : Bool := lo ≤ b.toNat && b.toNat ≤ hi
    if b0.toNat < 0x80 then 1
    else match rest with
      | b1 :: rest =>
        if c b0 0xC2 0xDF then (if c b1 0x80 0xBF then 2 else 0)
        else match rest with
          | b2 :: rest =>
            if c b0 0xE0 0xE0 && c b1 0xA0 0xBF && c b2 0x80 0xBF then 3
            else if c b0 0xE1 0xEC && c b1 0x80 0xBF && c b2 0x80 0xBF then 3
            else if c b0 0xED 0xED && c b1 0x80 0x9F && c b2 0x80 0xBF then 3
            else if c b0 0xEE 0xEF && c b1 0x80 0xBF && c b2 0x80 0xBF then 3
            else match rest with
              | b3 :: _ =>
                if c b0 0xF0 0xF0 && c b1 0x90 0xBF && c b2 0x80 0xBF && c b3 0x80 0xBF then 4
                else if c b0 0xF1 0xF3 && c b1 0x80 0xBF && c b2 0x80 0xBF && c b3 0x80 0xBF then 4
                else if c b0 0xF4 0xF4 && c b1 0x80 0x8F && c b2 0x80 0xBF && c b3 0x80 0xBF then 4
                else 0
              | [] => 0
          | [] => 0
      | [] => 0

/-- `strings.ToValidUTF8(s, rep)`: each maximal run of ill-formed bytes becomes one `rep`;
`fuel` ≥ length; `inBad` = the previous byte was ill-formed -/
def toValidAux (rep : Bytes) : Nat → Bytes → Bool → Bytes
  | 0, _, _ => []
  | _+1, [], _ => []
  | fuel+1, b :: rest, inBad =>
    match utf8Head (b :: rest) with
    | 0 => (if inBad then [] else rep) ++ toValidAux rep fuel rest true
    | n => (b :: rest).take n ++ toValidAux rep fuel ((b :: rest).drop n) false

def toValidUTF8 (rep : Bytes) (bs : Bytes) : Bytes := toValidAux rep bs.length bs false

/-- `utf8.Valid` -/
def utf8ValidAux : Nat → Bytes → Bool
  | _, [] => true
  | 0, _ :: _ => false
  | fuel+1, b :: rest =>
    match utf8Head (b :: rest) with
    | 0 => false
    | n => utf8ValidAux fuel ((b :: rest).drop n)

def utf8Valid (bs : Bytes) : Bool := utf8ValidAux bs.length bs

end PgVerif.Txt
