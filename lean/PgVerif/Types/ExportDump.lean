/-
  The input of the export functions: pgread's DumpResult / DatabaseDump / TableDump / ColumnInfo
  (pgdump/pgdump.go) with strings as byte lists and cell values as `GoVal`.
  A Go `map[string]interface{}` is an association list with distinct keys listed in `sort.Strings` order
  (byte-wise); a nil map is the empty list.  Shared by Spec, Model and generators of area `export`.
-/
import PgVerif.Basic.Canon
namespace PgVerif.Export

structure ColumnInfo where
  name : Bytes
  type : Bytes          -- pgread fills this with TypeName(typID): a fixed table or "oid:<n>", never stored data
  typID : Int
deriving Repr, Inhabited

abbrev Row := List (Bytes × GoVal)

structure TableDump where
  name : Bytes
  columns : List ColumnInfo
  rows : List Row
  rowCount : Int        -- printed only; nothing requires it to equal rows.length
deriving Repr, Inhabited

structure DatabaseDump where
  oid : Nat             -- uint32
  name : Bytes
  tables : List TableDump
deriving Repr, Inhabited

abbrev DumpResult := List DatabaseDump

/-- `row[key]` with Go's comma-ok: `none` when the key is absent -/
def Row.get (r : Row) (key : Bytes) : Option GoVal := (r.find? fun kv => kv.1 == key).map (·.2)

/-- Library renderings of floating point numbers, a parameter of the models (never computed in Lean):
`fmt`'s `%v` and `encoding/json`'s number text (`none` = json.Marshal fails: NaN, ±Inf), by IEEE bit pattern. -/
structure FloatFmt where
  v64 : Nat → Bytes
  v32 : Nat → Bytes
  j64 : Nat → Option Bytes
  j32 : Nat → Option Bytes

/-- ASCII text as bytes -/
def asc (s : String) : Bytes := s.toList.map fun c => UInt8.ofNat c.toNat

/-- decimal digits of a natural number, most significant first (Go `%d`) -/
def decAux : Nat → Nat → Bytes → Bytes
  | 0, _, acc => acc
  | f + 1, n, acc =>
    if n < 10 then UInt8.ofNat (48 + n) :: acc
    else decAux f (n / 10) (UInt8.ofNat (48 + n % 10) :: acc)
def dec (n : Nat) : Bytes := decAux (n + 1) n []
def decInt (i : Int) : Bytes := if i < 0 then 45 :: dec i.natAbs else dec i.natAbs

def joinB (sep : Bytes) : List Bytes → Bytes
  | [] => []
  | [x] => x
  | x :: y :: rest => x ++ sep ++ joinB sep (y :: rest)

end PgVerif.Export
