/-
  C03 — row decoding follows PostgreSQL's attribute layout rules.
  Property theorems only; helper lemmas are in Proofs/Rows.lean (and Proofs/HeapEnc.lean for the tuple header).
  The model is the tree after fixes/rows/01..05 and 09 (A05, A06, A07, A01, A64; A02-inline-compressed).  The scalar decoder `dec`
  (DecodeType) is a parameter: the theorems are about WHICH BYTES each column is decoded from.
-/
import PgVerif.Proofs.RowsFile
namespace PgVerif.Props.C03
open PgVerif PgVerif.Model PgVerif.Spec PgVerif.Proofs PgVerif.Proofs.Rows

/-- **Row layout.**  For every schema (any number of columns; attlen > 0, −1 or −2; alignment 1, 2, 4 or 8;
given to the tool with an explicit alignment char or through its fallback table, with explicit or implicit
attribute numbers), every row formed by PostgreSQL's rules (every NULL pattern, every mix of short / 4-byte /
inline-compressed / external varlena forms and C strings, zero padding only where the rules put it) of which
the first `natts` attributes are stored, and every scalar decoder `dec`: the column loop of DecodeTuple
yields, in column order, one (name, value) pair per declared column — nil exactly for NULL attributes and for
the attributes beyond `natts`, and otherwise `dec` (through `varlenaVal`, which only differs on empty
payloads) applied to exactly the payload bytes of that attribute (nil placeholder for an external pointer,
the ORIGINAL bytes — what the pglz / LZ4 stream stands for — for an inline-compressed value, fix 09), whatever
precedes it. -/
theorem C03_layout (dec : Dec) (cols : List Col) (mcols : List Column) (r : RowV) (hdr : TupleHeader)
    (hm : ColsMatch 0 mcols cols) (hwf : r.WF cols) :
    decodeCols dec (rowTuple hdr cols r) mcols 0 0 = expectedCols (varlenaVal dec) cols r.vals r.natts := by
  obtain ⟨hlen, hnat, _, _, hall⟩ := hwf
  let nullAt : Nat → Bool := fun i => if r.hasNull then !(r.present.getD i false) else false
  have hnull : ∀ i : Nat, (rowTuple hdr cols r).isNull ((i : Int) + 1) = nullAt i := by
    intro i
    unfold rowTuple
    by_cases hn : r.hasNull = true
    · simp only [hn, if_true, nullAt]; exact isNull_enc _ _ _ i
    · simp only [hn, nullAt]; rfl
  have hstored : ∀ j, j < r.natts → j < r.vals.length → nullAt (0 + j) = (r.vals.getD j none).isNone := by
    intro j hj hl
    have hp := present_getD r j hj hl
    simp only [Nat.zero_add, nullAt]
    by_cases hn : r.hasNull = true
    · simp only [hn, if_true, hp]; cases r.vals.getD j none <;> rfl
    · simp only [hn]
      have hall' : ∀ b ∈ r.present, b = true := by
        intro b hb
        have : r.present.any (!·) = false := by simpa [RowV.hasNull] using hn
        have := List.any_eq_false.mp this b hb
        simpa using this
      have hjl : j < r.present.length := by simp [RowV.present]; omega
      have : r.present.getD j false = true := by
        have hm := hall' (r.present[j]) (List.getElem_mem hjl)
        simp [List.getD, List.getElem?_eq_getElem hjl, hm]
      rw [hp] at this
      cases h : r.vals.getD j none with
      | none => rw [h] at this; simp at this
      | some _ => rfl
  have hwf' : ∀ p ∈ cols.zip r.vals, Pow2Align p.1.align ∧ ∀ d, p.2 = some d → d.WF p.1 := hall
  have := decodeCols_form dec (rowTuple hdr cols r) nullAt hnull cols mcols r.vals 0 r.natts [] hm hlen hwf' hstored
    (by simp [rowTuple])
  simpa using this

/-- **Whole rows.**  DecodeTuple on such a tuple with at least one declared column returns a row (never
"no row": an all-NULL row or one stored with zero attributes is still a row, fix 04), built from the pairs of
`C03_layout`. -/
theorem C03_decodeTuple (dec : Dec) (cols : List Col) (mcols : List Column) (r : RowV) (hdr : TupleHeader)
    (hm : ColsMatch 0 mcols cols) (hwf : r.WF cols) (hne : mcols ≠ []) :
    decodeTuple dec (rowTuple hdr cols r) mcols =
      (expectedCols (varlenaVal dec) cols r.vals r.natts >>= fun ps => pure (some (toRow ps))) := by
  unfold decodeTuple
  have : ¬ ((rowTuple hdr cols r).data.length = 0 ∧ mcols.length = 0) := by
    intro ⟨_, h⟩; exact hne (List.length_eq_zero_iff.mp h)
  rw [if_neg this, C03_layout dec cols mcols r hdr hm hwf]

/-- **Through the tuple parser.**  The same for the row as it sits in a page: `ParseHeapTuple` of the formed
tuple's bytes (23-byte header, null bitmap, padding to MAXALIGN, data) followed by DecodeTuple — for ANY values of
the header fields that play no part in decoding (`h`: xmin, xmax, cid, t_ctid, the HEAP_KEYS_UPDATED / HOT_UPDATED /
ONLY_TUPLE and unused bits of t_infomask2) and any t_infomask (`r.infomask`). -/
theorem C03_scanned (dec : Dec) (cols : List Col) (mcols : List Column) (h : HdrFields) (r : RowV)
    (hh : h.WF) (hm : ColsMatch 0 mcols cols) (hwf : r.WF cols) (hne : mcols ≠ []) :
    (parseHeapTuple (encTuple (formTupleH h cols r)) >>= fun ot =>
        match ot with
        | some t => decodeTuple dec t mcols
        | none => pure none) =
      (expectedCols (varlenaVal dec) cols r.vals r.natts >>= fun ps => pure (some (toRow ps))) := by
  rw [Proofs.parseHeapTuple_enc _ (formTupleH_WF h hh cols r hwf)]
  simp only [ok_bind]
  rw [mtuple_formTupleH h cols r hwf]
  exact C03_decodeTuple dec cols mcols r _ hm hwf hne

/-- **Whole files (the refinement theorem `readRows_enc` of the design).**  For every well-formed heap file
(any number of pages, all-zero pages, line pointers in any state and order, a trailing partial block) whose
stored tuples are the row versions `rvs` of schema `cols` in scan order — each with ARBITRARY xmin / xmax / cid /
t_ctid / t_infomask2 flag bits (`v.1 : HdrFields`: never-updated tuples, dead versions left by UPDATE / DELETE, HOT
successors) and arbitrary t_infomask —, every schema presentation `mcols` matching `cols` and both settings of the
visibility switch: ReadRows returns, in scan order, exactly the expected row of each stored row version (all of
them, or those whose own hint bits say live); the expected row depends on the attribute values and the stored
attribute count only. -/
theorem C03_file (dec : Dec) (cols : List Col) (mcols : List Column) (bs : List Block) (tail : Bytes) (vis : Bool)
    (rvs : List RowVer) (hb : ∀ b ∈ bs, b.WF) (ht : tail.length < 8192)
    (hm : ColsMatch 0 mcols cols) (hne : mcols ≠ [])
    (hrows : fileTuples bs = rvs.map (formVer cols)) (hwf : ∀ v ∈ rvs, v.2.WF cols) :
    readRows dec (encHeap bs tail) mcols vis =
      collectM (fun v : RowVer => expectedCols (varlenaVal dec) cols v.2.vals v.2.natts >>= fun ps => pure (some (toRow ps)))
        (rvs.filter fun v => !vis || liveBits v.2.infomask) := by
  unfold readRows
  rw [collect_scan (fun t => decodeTuple dec t mcols) bs tail vis hb ht, hrows, List.filter_map, List.map_map,
    ← collectM_map (mtuple ∘ formVer cols) (fun t => decodeTuple dec t mcols)]
  have hf : ((fun t : Tuple => !vis || liveBits t.infomask) ∘ formVer cols) = fun v : RowVer => !vis || liveBits v.2.infomask := by
    funext v
    simp only [Function.comp, formVer, formTupleH_infomask_live]
  rw [hf]
  apply collectM_congr
  intro v hv
  have hw := hwf v (List.mem_filter.mp hv).1
  simp only [Function.comp, formVer]
  rw [mtuple_formTupleH v.1 cols v.2 hw]
  exact C03_decodeTuple dec cols mcols v.2 _ hm hw hne

/-- **Inline-compressed values (fix 09, former half of finding A02).**  For every value and every valid pglz token list
(literals and matches of every tag form: lengths 3..273, offsets 1..4095, overlapping copies; at least 4 stream bytes) or
valid LZ4 block `z` standing for it, laid out as PostgreSQL stores a value compressed in line — 4-byte header
`(total << 2) | 2`, va_tcinfo (raw size, method in the top two bits), the stream — and followed by anything:
ReadVarlena returns the ORIGINAL bytes `z.original` and the stored length. -/
theorem C03_compressed_inline (z : Comp) (rest : Bytes) (hz : z.WF) (hlt : z.stored.length + 4 < 2 ^ 30) :
    readVarlena (le 4 ((z.stored.length + 4) * 4 + 2) ++ (z.stored ++ rest)) = .ok (some z.original, z.stored.length + 4) :=
  readVarlena_comp z rest hz hlt

/-- **… in a row.**  DecodeTuple on a row whose first column is stored compressed in line (any schema after it, any values
in the following columns — further compressed ones included —, any null pattern, any stored attribute count ≥ 1): the
column gets the decoder applied to the uncompressed value, and the following columns are exactly what `C03_layout` says
they must be — the reader continues behind the STORED length.  (A compressed value at any other position is covered by
`C03_layout` / `C03_decodeTuple` / `C03_file` themselves: `Datum.compressed` is one of the forms of `RowV`.) -/
theorem C03_compressed_row (dec : Dec) (c : Col) (cs : List Col) (mcols : List Column) (z : Comp)
    (vs : List (Option Datum)) (k infomask : Nat) (hdr : TupleHeader)
    (hm : ColsMatch 0 mcols (c :: cs)) (hne : mcols ≠ [])
    (hwf : RowV.WF (c :: cs) { vals := some (.compressed z) :: vs, natts := k + 1, infomask }) :
    decodeTuple dec (rowTuple hdr (c :: cs) { vals := some (.compressed z) :: vs, natts := k + 1, infomask }) mcols =
      (do let x ← varlenaVal dec z.original c.typid
          let rest ← expectedCols (varlenaVal dec) cs vs k
          pure (some (toRow ((c.name, x) :: rest)))) := by
  rw [C03_decodeTuple dec (c :: cs) mcols _ hdr hm hwf hne]
  simp only [expectedCols, expectedVal, Nat.add_sub_cancel, bind_assoc, pure_bind]

/-- **One entry per declared column.**  When the column names are distinct the resulting map has exactly the
pairs of `C03_layout`, one per declared column. -/
theorem C03_entries (ps : List (Bytes × GoVal)) (h : (ps.map (·.1)).Nodup) : toRow ps = ps := by
  unfold toRow
  suffices ∀ (acc : List (Bytes × GoVal)), (∀ p ∈ ps, ∀ q ∈ acc, q.1 ≠ p.1) →
      ps.foldl (fun m p => mapInsert m p.1 p.2) acc = acc ++ ps by
    simpa using this [] (by simp)
  induction ps with
  | nil => intro acc _; simp
  | cons p ps ih =>
    intro acc hacc
    have hnd : (ps.map (·.1)).Nodup := (List.nodup_cons.mp (by simpa using h)).2
    have hp : p.1 ∉ ps.map (·.1) := (List.nodup_cons.mp (by simpa using h)).1
    have hins : mapInsert acc p.1 p.2 = acc ++ [p] := by
      unfold mapInsert
      have : acc.any (fun kv => kv.1 == p.1) = false := by
        rw [List.any_eq_false]
        intro q hq
        have := hacc p (by simp) q hq
        simpa using this
      rw [this]; rfl
    simp only [List.foldl_cons, hins]
    rw [ih hnd (acc ++ [p])]
    · simp
    · intro q hq x hx
      rcases List.mem_append.mp hx with hx | hx
      · exact hacc q (by simp [hq]) x hx
      · have : x = p := by simpa using hx
        subst this
        intro he
        exact hp (by rw [he]; exact List.mem_map_of_mem hq)

/-- **The fallback alignment table is PostgreSQL's.**  Every type oid for which the tool decides the alignment
by itself when the schema carries none (the generated graph of `typeAlign`'s switch, obtained by executing the
code for every oid below 5000) gets the `typalign` PostgreSQL's catalog gives that type. -/
theorem C03_typeAlign_table : ∀ p ∈ Generated.Rows.typeAlignSwitch, pgTypAlign.lookup p.1 = some p.2 := by decide

/-- … hence a column of such a type handed over with `Align = 0` is aligned as PostgreSQL aligns it. -/
theorem C03_typeAlign (p : Nat × Nat) (hp : p ∈ Generated.Rows.typeAlignSwitch) (name : Bytes) (len num : Int) :
    colAlign ⟨name, (p.1 : Int), len, num, 0⟩ = p.2 ∧ pgTypAlign.lookup p.1 = some p.2 := by
  refine ⟨?_, C03_typeAlign_table p hp⟩
  have hl : Generated.Rows.typeAlignSwitch.lookup p.1 = some p.2 :=
    (by decide : ∀ q ∈ Generated.Rows.typeAlignSwitch, Generated.Rows.typeAlignSwitch.lookup q.1 = some q.2) p hp
  have hneg : ¬ ((p.1 : Int) < 0) := by omega
  simp only [colAlign, alignFromChar, typeAlign, lookupOid, hneg, if_false, Int.toNat_natCast, hl]
  simp

/-- **… and it is complete for PostgreSQL's built-in types** (fixes/rows/08).  Conversely, every built-in type of
PostgreSQL 12–16 the Spec lists — `pgTypAlign` and `pgTypOther`, each handed over with its typlen — is aligned by the
tool's fallback exactly as its `typalign` says: also the types the tool has no entry for and decides by length (arrays of
'i' aligned elements, reg* types, int2vector, oidvector, pg_node_tree, the 'i' aligned multiranges …), and txid_snapshot,
pg_snapshot, xid8, the 'd' aligned multiranges and their arrays, which the length rule alone gets wrong. -/
theorem C03_typeAlign_complete :
    (∀ p ∈ pgTypAlign, typeAlign (p.1 : Int) (pgTypLenOf p.1) = p.2) ∧
    (∀ q ∈ pgTypOther, typeAlign (q.1 : Int) q.2.1 = q.2.2) := by
  constructor <;> decide +kernel

/-! ### non-vacuity: concrete rows satisfy the hypotheses, and the statement computes -/

def exCols : List Col := [⟨[97], 23, 4, 4⟩, ⟨[98], 20, 8, 8⟩, ⟨[99], 25, -1, 4⟩, ⟨[100], 23, 4, 4⟩]
def exMCols : List Column := [⟨[97], 23, 4, 1, 105⟩, ⟨[98], 20, 8, 0, 0⟩, ⟨[99], 25, -1, 3, 0⟩, ⟨[100], 23, 4, 0, 105⟩]
/-- (111, NULL::int8, 'hi' with a 1-byte header, 333): the A05 witness with a short varlena in front of an int4 -/
def exRow : RowV := { vals := [some (.fixed (le 4 111)), none, some (.short [104, 105]), some (.fixed (le 4 333))], natts := 4, infomask := 0x0900 }

example : ColsMatch 0 exMCols exCols := by
  simp only [ColsMatch, ColMatch, exMCols, exCols]; decide
example : exRow.WF exCols := by decide
/-- a dead version as UPDATE leaves it: xmin 700, xmax 701, t_ctid → (0,2), HOT_UPDATED | KEYS_UPDATED -/
def exHdr : HdrFields := { xmin := 700, xmax := 701, cid := 3, ctid := [0, 0, 0, 0, 2, 0], flags2 := 12 }
example : exHdr.WF := by decide
example : (formTupleH exHdr exCols exRow).infomask2 = 0x6004 ∧ (formTupleH exHdr exCols exRow).xmax = 701 := by decide
example : form exCols exRow.vals 0 = [111, 0, 0, 0, 7, 104, 105, 0, 77, 1, 0, 0] := by decide
example : (rowTuple ⟨24, 4, 0x0901, true, true, false, true⟩ exCols exRow).bitmap = some [0x0d] := by decide
/-- the theorem's right-hand side on this row, with the decoder "length of the payload" -/
example : expectedCols (varlenaVal fun b _ => pure (.int b.length)) exCols exRow.vals exRow.natts
    = .ok [([97], .int 4), ([98], .nil), ([99], .int 2), ([100], .int 4)] := by rfl

/-- 12 × 'a' in pglz (the shape of the witness of finding A02, 100 × 'a', in small): control byte 02, 'a', one match
offset 1 length 11 (tag 08 01) overlapping its own output -/
def exComp : Comp := .pglz [.lit 97, .mat 1 11]
def exCompCols : List Col := [⟨[98], 25, -1, 4⟩, ⟨[100], 23, 4, 4⟩]
def exCompRow : RowV := { vals := [some (.compressed exComp), some (.fixed (le 4 333))], natts := 2, infomask := 0x0900 }
example : exComp.WF ∧ exComp.stored.length + 4 < 2 ^ 30 := by decide
example : exComp.stored = [12, 0, 0, 0, 2, 97, 8, 1] ∧ exComp.original = List.replicate 12 97 := by decide
example : exCompRow.WF exCompCols := by decide
example : ColsMatch 0 [⟨[98], 25, -1, 1, 105⟩, ⟨[100], 23, 4, 2, 105⟩] exCompCols := by
  simp only [ColsMatch, ColMatch, exCompCols]; decide
/-- the stored bytes: header 0x32 = (12 << 2) | 2, va_tcinfo 12, the 4 stream bytes, the int4 (already aligned) -/
example : form exCompCols exCompRow.vals 0 = [0x32, 0, 0, 0, 12, 0, 0, 0, 2, 97, 8, 1, 77, 1, 0, 0] := by decide
example : readVarlena [0x32, 0, 0, 0, 12, 0, 0, 0, 2, 97, 8, 1, 77, 1, 0, 0] = .ok (some (List.replicate 12 97), 12) := by rfl
/-- a damaged stream (the match reaches before the start of the output: 11 bytes are missing) is nil, 12 bytes consumed -/
example : readVarlena [0x32, 0, 0, 0, 12, 0, 0, 0, 2, 97, 8, 9, 77, 1, 0, 0] = .ok (none, 12) := by rfl
/-- an LZ4 block: literal 'a', match offset 1 length 9, last literals "bc" -/
example : (Comp.lz4 ⟨[⟨[97], 1, 9⟩], [98, 99]⟩).WF := by decide

end PgVerif.Props.C03
