/-
  C11 (area dropped) — the results of dropped.go do not depend on Go's map iteration order (the tree after
  fixes/dropped/02).  dropped.go ranges over the `map[filenode]TableInfo` returned by ParsePGClass in three places:
  to build the relation-oid ↦ name table (FindDroppedColumns) and to look a table up by name
  (RecoverDroppedColumnData, GetDroppedColumnSchema).  Each `range` is an explicit order parameter `π` of the model;
  the theorems quantify over all rearrangements.  Before fix 02 the name lookup returned the first hit in iteration
  order: with two relations of one name (legal in PostgreSQL: names are unique per schema only) the answer changed
  from run to run — `C11_dropped_lookup_order_dependent` is the witness at the level of the model, family
  `dropped_repeat` the one on the real code.
-/
import PgVerif.Model.Dropped
import PgVerif.Props.C11
namespace PgVerif.Props.C11Dropped
open PgVerif PgVerif.Model PgVerif.Proofs.Cluster List
open PgVerif.Props.C11 (IsOrder C11_remote_tables_order_independent)

/-- the relation-oid ↦ name table of FindDroppedColumns does not depend on the iteration order -/
theorem C11_tableNames_order_independent (rr : RowReader) (π π' : MapOrder TableInfo) (hπ : IsOrder π) (hπ' : IsOrder π')
    (data : Bytes) (t : List (Nat × TableInfo)) (ht : parsePGClass rr data = .ok t) :
    drTableNamesOf π t = drTableNamesOf π' t := by
  unfold drTableNamesOf
  rw [C11_remote_tables_order_independent rr π π' hπ hπ' data t ht]

/-- looking a table up by name does not depend on the iteration order (fix 02) -/
theorem C11_findTable_order_independent (rr : RowReader) (π π' : MapOrder TableInfo) (hπ : IsOrder π) (hπ' : IsOrder π')
    (data : Bytes) (t : List (Nat × TableInfo)) (ht : parsePGClass rr data = .ok t) (name : Bytes) :
    drFindTable π t name = drFindTable π' t name := by
  unfold drFindTable
  rw [C11_remote_tables_order_independent rr π π' hπ hπ' data t ht]

/-- **FindDroppedColumns does not depend on map iteration order**: for every row reader, every file tree and
database name, any two iteration orders give the same result (hence byte-identical JSON). -/
theorem C11_findDropped_order_independent (rr : RowReader) (π π' : MapOrder TableInfo) (hπ : IsOrder π) (hπ' : IsOrder π')
    (fs : Bytes → Option Bytes) (dbName : Bytes) :
    findDroppedColumns rr π fs dbName = findDroppedColumns rr π' fs dbName := by
  unfold findDroppedColumns
  cases fs pathGlobal1262 with
  | none => rfl
  | some dbData =>
    simp only
    congr 1; funext dbs
    cases drFindDb dbs dbName with
    | none => rfl
    | some db =>
      simp only
      cases fs (basePath db.oid 1249) with
      | none => rfl
      | some attrData =>
        simp only
        cases fs (basePath db.oid 1259) with
        | none => rfl
        | some classData =>
          simp only
          cases h2 : parsePGClass rr classData with
          | error e => rfl
          | ok t =>
            simp only [ok_bind]
            rw [C11_tableNames_order_independent rr π π' hπ hπ' classData t h2]

/-- **ScanDroppedColumns does not depend on map iteration order.** -/
theorem C11_scanDropped_order_independent (rr : RowReader) (π π' : MapOrder TableInfo) (hπ : IsOrder π) (hπ' : IsOrder π')
    (fs : Bytes → Option Bytes) : scanDroppedColumns rr π fs = scanDroppedColumns rr π' fs := by
  unfold scanDroppedColumns
  have : drScanOne rr π fs = drScanOne rr π' fs := by
    funext db
    unfold drScanOne
    rw [C11_findDropped_order_independent rr π π' hπ hπ' fs db.name]
  rw [this]

/-- **GetDroppedColumnSchema does not depend on map iteration order** (fix 02) — also when several relations carry
the requested name. -/
theorem C11_schema_order_independent (rr : RowReader) (π π' : MapOrder TableInfo) (hπ : IsOrder π) (hπ' : IsOrder π')
    (fs : Bytes → Option Bytes) (dbName tableName : Bytes) :
    getDroppedColumnSchema rr π fs dbName tableName = getDroppedColumnSchema rr π' fs dbName tableName := by
  unfold getDroppedColumnSchema
  cases fs pathGlobal1262 with
  | none => rfl
  | some dbData =>
    simp only
    congr 1; funext dbs
    cases drFindDb dbs dbName with
    | none => rfl
    | some db =>
      simp only
      cases fs (basePath db.oid 1259) with
      | none => rfl
      | some classData =>
        simp only
        cases h2 : parsePGClass rr classData with
        | error e => rfl
        | ok t =>
          simp only [ok_bind]
          rw [C11_findTable_order_independent rr π π' hπ hπ' classData t h2]

/-- **RecoverDroppedColumnData does not depend on map iteration order** (fix 02). -/
theorem C11_recover_order_independent (rr : RowReader) (π π' : MapOrder TableInfo) (hπ : IsOrder π) (hπ' : IsOrder π')
    (fs : Bytes → Option Bytes) (dbName tableName : Bytes) (attNum : Int) :
    recoverDroppedColumnData rr π fs dbName tableName attNum = recoverDroppedColumnData rr π' fs dbName tableName attNum := by
  unfold recoverDroppedColumnData
  cases fs pathGlobal1262 with
  | none => rfl
  | some dbData =>
    simp only
    congr 1; funext dbs
    cases drFindDb dbs dbName with
    | none => rfl
    | some db =>
      simp only
      cases fs (basePath db.oid 1259) with
      | none => rfl
      | some classData =>
        simp only
        cases h2 : parsePGClass rr classData with
        | error e => rfl
        | ok t =>
          simp only [ok_bind]
          rw [C11_findTable_order_independent rr π π' hπ hπ' classData t h2]

/-- what the lookup of RecoverDroppedColumnData / GetDroppedColumnSchema did before fix 02: the first relation of
that name in map iteration order -/
def findTableUnsorted (π : MapOrder TableInfo) (tables : List (Nat × TableInfo)) (tableName : Bytes) : Option TableInfo :=
  ((π tables).map (·.2)).find? fun t => t.name == tableName

/-- **Without the sort the order leaks** (the code before fix 02): a table map ParsePGClass can produce, with two
relations called `t` (oids 10 and 20), and two legal iteration orders under which the lookup of `t` answers with
different relations. -/
theorem C11_dropped_lookup_order_dependent :
    ∃ (t : List (Nat × TableInfo)) (π π' : MapOrder TableInfo), KeysOK t ∧ IsOrder π ∧ IsOrder π' ∧
      findTableUnsorted π t [116] ≠ findTableUnsorted π' t [116] := by
  refine ⟨[(1, ⟨10, 1, [116], [114]⟩), (2, ⟨20, 2, [116], [114]⟩)], id, List.reverse, ?_, fun l => Perm.refl l,
    fun l => reverse_perm l, by decide⟩
  exact ⟨by decide, by decide⟩

example : IsOrder (List.reverse : MapOrder TableInfo) := fun l => reverse_perm l

end PgVerif.Props.C11Dropped
