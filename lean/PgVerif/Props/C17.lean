/-
  C17 — WAL records are enumerated with their stored header, position and names; directory summary tallies.
  Property theorems only; helper lemmas are in Proofs/Wal.lean.
-/
import PgVerif.Proofs.Wal
namespace PgVerif.Props.C17
open PgVerif PgVerif.Model.Wal PgVerif.Proofs.Wal

end PgVerif.Props.C17
