/-
  C15 (topic E9) — the convenience wrappers of search.go / secrets.go report exactly what the functions they wrap report:

    QuickSearch(dir, p)     = SearchInDump(DumpDataDir(dir, {SkipSystemTables}), {Pattern: QuoteMeta(p), case-insensitive,
                              IncludeRow, no limit}); the quoted pattern denotes the literal text `p`
    Search(dir, opts)       = SearchInDump(DumpDataDir(dir, {SkipSystemTables}), opts)
    ScanForSecrets(dir, o)  = ScanDumpResult(DumpDataDir(dir, o))
    SearchSecrets(dir)      = the findings of ScanForSecrets(dir, {SkipSystemTables}), one SearchResult each, same
                              coordinates, the raw secret as Value
    ScanDumpResult(d)       = the concatenation of ScanDatabaseDump over d's databases

  so every theorem of Props/C15.lean (exactness, order, soundness, completeness, secret scan) applies to them.
  Parameters as in Props/C15.lean (regex engine, scalar text, detectors) and Model/Cluster.lean (row reader, map
  order, file system).  Helper lemmas: Proofs/ExtraSearch.lean.
-/
import PgVerif.Proofs.ExtraSearch
import PgVerif.Props.C15
set_option linter.unusedSimpArgs false
namespace PgVerif.Props.C15Extra
open PgVerif PgVerif.Model PgVerif.Model.Extra PgVerif.Proofs.Extra PgVerif.Spec.Search PgVerif.Model.Search

/-- **QuickSearch on a dump = SearchInDump with the documented options**; the error when DumpDataDir failed. -/
theorem C15_quickSearch (R : Regex) (sh : GoVal → Bytes) (d : Dump) (p : Bytes) :
    quickSearch R sh (some d) p = searchInDump R sh d (quickOpts p) ∧ quickSearch R sh none p = none :=
  ⟨quickSearch_some R sh d p, quickSearch_none R sh p⟩

/-- **… hence exactly the matching cells.**  QuickSearch's hits are the view of Spec/Search.lean for the pattern
`(?i)` ++ QuoteMeta(p): every cell matching it, in (database, table, row, column) order, each with its full row. -/
theorem C15_quickSearch_exact (R : Regex) (sh : GoVal → Bytes) (d : Dump) (p : Bytes) :
    (quickSearch R sh (some d) p).map (·.map toHit) = expected R sh d (quickOpts p) ∧
    effPattern (quickOpts p) = ciPrefix ++ quoteMeta p ∧ (quickOpts p).includeRow = true ∧ (quickOpts p).maxResults = 0 := by
  refine ⟨?_, rfl, rfl, rfl⟩
  rw [quickSearch_some]
  exact Props.C15.C15_prefix R sh d (quickOpts p)

/-- **The quoted pattern reads back as the literal.**  Removing the backslash escapes from QuoteMeta(p) gives back `p`,
for every byte string `p`: QuoteMeta escapes every byte RE2 treats as an operator and nothing else.  (A statement about
the two Lean functions `quoteMeta` / `unquoteMeta`, i.e. about the TEXT QuickSearch hands to the regex engine; that the
engine reads an escaped operator byte as that byte is RE2's documented syntax and part of the parameter `R`.  Go's
`regexp.Compile` additionally rejects a pattern that is not valid UTF-8, so `QuickSearch(dir, "\xff")` returns the
"invalid pattern" error instead of searching for the byte — in the model: `R.compile` answers `none` and
`C15_quickSearch_exact` gives the error.) -/
theorem C15_quoteMeta_literal (p : Bytes) : unquoteMeta (quoteMeta p) = some p :=
  unquoteMeta_quoteMeta p

/-- **Search / QuickSearch on a file tree.**  Whatever DumpDataDir(dir, {SkipSystemTables: true}) returns — a dump `r`
or its error — Search(dir, opts) returns SearchInDump(r, opts), resp. the error; QuickSearch(dir, p) likewise with
the quoted options.  (For every row reader, map order and file tree; if DumpDataDir's model faults, so does the
wrapper, and `C10_total_searchDir` shows it does not.) -/
theorem C15_search_on_tree (R : Regex) (sh : GoVal → Bytes) (rr : RowReader) (π : MapOrder TableInfo)
    (fs : Bytes → Option Bytes) (r : Option Spec.DumpResult) (hd : dumpDataDir rr π fs searchDumpOptions = .ok r) (o : Opts) (p : Bytes) :
    searchDir R sh rr π fs (some o) = .ok (match r with | some r => searchInDump R sh (toSearchDump r) o | none => none) ∧
    quickSearchDir R sh rr π fs p = .ok (match r with | some r => searchInDump R sh (toSearchDump r) (quickOpts p) | none => none) ∧
    searchDir R sh rr π fs none = .ok none :=
  ⟨searchDir_eq R sh rr π fs o r hd, searchDir_eq R sh rr π fs (quickOpts p) r hd, rfl⟩

/-- **ScanForSecrets = ScanDumpResult ∘ DumpDataDir**, on a dump and on a file tree. -/
theorem C15_scanForSecrets (dets : List Detector) (sh : GoVal → Bytes) (rr : RowReader) (π : MapOrder TableInfo)
    (fs : Bytes → Option Bytes) (o : Spec.Options) (r : Option Spec.DumpResult) (hd : dumpDataDir rr π fs o = .ok r) :
    scanForSecretsDir dets sh rr π fs o = .ok (r.map fun r => Secrets.scanDumpResult dets sh (toSearchDump r)) ∧
    (∀ d, scanForSecrets dets sh (some d) = some (Secrets.scanDumpResult dets sh d)) ∧ scanForSecrets dets sh none = none := by
  refine ⟨?_, fun _ => rfl, rfl⟩
  simp only [scanForSecretsDir, dumpedBy, hd, ok_bind, pure_eq_ok]
  cases r <;> rfl

/-- **SearchSecrets = the findings of ScanForSecrets, converted.**  One SearchResult per finding, in the same order, with
the finding's database, table, column, row index, the raw secret as the value, and a row holding the detector name. -/
theorem C15_searchSecrets (dets : List Detector) (sh : GoVal → Bytes) (red : Finding → Bytes) (ver : Finding → Bool)
    (dumped : Option Dump) :
    searchSecrets dets sh red ver dumped = (scanForSecrets dets sh dumped).map (·.map (secretHit red ver)) ∧
    ∀ f, (secretHit red ver f).database = f.db ∧ (secretHit red ver f).table = f.table ∧ (secretHit red ver f).column = f.col ∧
         (secretHit red ver f).rowNum = f.row ∧ (secretHit red ver f).value = .str f.raw ∧
         ((secretHit red ver f).row.bind (lookup (strBytes "detector"))) = some (.str f.detector) := by
  refine ⟨?_, fun f => ⟨rfl, rfl, rfl, rfl, rfl, ?_⟩⟩
  · unfold searchSecrets; cases scanForSecrets dets sh dumped <;> rfl
  · simp [secretHit, lookup]

/-- **ScanDumpResult = ScanDatabaseDump over the databases** (so a caller scanning database by database and
concatenating sees the same findings in the same order). -/
theorem C15_scanDatabaseDump (dets : List Detector) (sh : GoVal → Bytes) (d : Dump) :
    Secrets.scanDumpResult dets sh d = d.flatMap (Secrets.scanDatabaseDump dets sh) := rfl

/-- **The secret scan through the wrappers finds planted tokens.**  `Props.C15.C15_secret` transported: a cell (of a
well-formed dump) whose text has ≥ 8 bytes and on whose text a detector of the scanner passes its keyword pre-filter and
reports `r` is reported by ScanForSecrets, and SearchSecrets returns a result with the cell's coordinates and the raw
text.  (All hypotheses are about the cell's own text, as in `C15_secret`.) -/
theorem C15_secret_through_wrappers (dets : List Detector) (sh : GoVal → Bytes) (red : Finding → Bytes) (ver : Finding → Bool)
    (d : Dump) (hw : Dump.WF d) (db tbl : Bytes) (i : Nat) (col : Bytes) (v : GoVal) (row : Spec.Search.Row)
    (hcell : IsCell d db tbl i col v row) (hlen : 8 ≤ (fmtV sh v).length)
    (det : Detector) (hdet : det ∈ dets) (hk : keywordPass det (fmtV sh v) = true)
    (found : List DetResult) (hd : det.fromData (fmtV sh v) = some found) (r : DetResult) (hr : r ∈ found) :
    ∃ fs hs, scanForSecrets dets sh (some d) = some fs ∧ searchSecrets dets sh red ver (some d) = some hs ∧
      ({ detector := r.detector, db := db, table := tbl, col := col, row := i, raw := r.raw } : Finding) ∈ fs ∧
      ∃ h ∈ hs, h.database = db ∧ h.table = tbl ∧ h.rowNum = i ∧ h.column = col ∧ h.value = .str r.raw := by
  have hf := Props.C15.C15_secret dets sh d hw db tbl i col v row hcell hlen det hdet hk found hd r hr
  refine ⟨_, _, rfl, rfl, hf, _, List.mem_map.2 ⟨_, hf, rfl⟩, rfl, rfl, rfl, rfl, rfl⟩

/-- the hypothesis of `C15_search_on_tree` / `C15_scanForSecrets` is satisfiable (every tree satisfies it for a total
row reader, `Props.C10.Cluster.C10_total_dumpDataDir`); here: a reader that finds no rows, a tree of empty files -/
example : dumpDataDir (fun _ _ _ => pure []) id (fun _ => some []) searchDumpOptions = .ok (some []) := rfl

/-- the executable regex instance of family `extra` on a quoted pattern: `a.(` quoted is the literal `a.(`,
matched case-insensitively -/
example : (litQuoteRegex.compile (ciPrefix ++ quoteMeta [97, 46, 40])).map (fun re => (re [120, 65, 46, 40, 121], re [97, 98, 40])) =
    some (true, false) := by decide

end PgVerif.Props.C15Extra
